// Correspondence harness for C11: calls encode_utf8 / decode_utf8 / is_ident1 / is_ident2 of
// /repo's unicode.c (linked unmodified) and prints the same lines as `modelrun utf` / `modelrun ident`.
#include "chibicc.h"

int main(int argc, char **argv) {
  if (argc != 4)
    return 2;
  long lo = atol(argv[2]), hi = atol(argv[3]);
  if (!strcmp(argv[1], "utf")) {
    for (long c = lo; c < hi; c++) {
      char buf[16];
      memset(buf, 0, sizeof buf);
      int n = encode_utf8(buf, c);
      printf("%ld:", c);
      for (int i = 0; i < n; i++)
        printf(" %d", (unsigned char)buf[i]);
      buf[n] = 'A';
      // decode only what the decoder accepts without calling error_at(): a well-formed lead byte
      unsigned char b0 = buf[0];
      bool ok = b0 < 128 || b0 >= 0xC0;
      for (int i = 1; ok && b0 >= 128 && i < (b0 >= 0xF0 ? 4 : b0 >= 0xE0 ? 3 : 2); i++)
        ok = ((unsigned char)buf[i] >> 6) == 2;
      if (ok) {
        char *np;
        uint32_t d = decode_utf8(&np, buf);
        printf(" | %u+%d", d, (int)(buf + n + 1 - np));
      } else {
        printf(" | err");
      }
      printf("\n");
    }
  } else {
    for (long c = lo; c < hi; c++)
      putchar('0' + (is_ident1(c) ? 2 : 0) + (is_ident2(c) ? 1 : 0));
    putchar('\n');
  }
  return 0;
}
