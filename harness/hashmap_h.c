// Correspondence harness for C17: drives /repo's hashmap.c (linked unmodified) with an
// operation history read from stdin and prints outputs and whole-table snapshots in
// the same format as `modelrun hashmap`.
#include "chibicc.h"

static unsigned char *unhex(char *h, int *len) {
  int n = strlen(h) / 2;
  unsigned char *p = calloc(1, n + 1);
  for (int i = 0; i < n; i++) {
    unsigned x;
    sscanf(h + 2 * i, "%2x", &x);
    p[i] = x;
  }
  *len = n;
  return p;
}

static void dump(HashMap *m) {
  printf("S used=%d cap=%d", m->used, m->capacity);
  for (int i = 0; i < m->capacity; i++) {
    HashEntry *e = &m->buckets[i];
    if (!e->key)
      printf(" E");
    else if (e->key == (void *)-1)
      printf(" T");
    else {
      printf(" ");
      for (int j = 0; j < e->keylen; j++)
        printf("%02x", (unsigned char)e->key[j]);
      printf(":%ld", (long)e->val);
    }
  }
  printf("\n");
}

int main(void) {
  static char line[1 << 16];
  HashMap *m = calloc(1, sizeof(HashMap));
  while (fgets(line, sizeof line, stdin)) {
    char kbuf[1 << 15];
    long v;
    int len;
    if (line[0] == 'S') {
      dump(m);
    } else if (line[0] == 'R') {
      m = calloc(1, sizeof(HashMap));
      printf("R\n");
    } else if (sscanf(line, "P %s %ld", kbuf, &v) == 2 || (line[0] == 'P' && sscanf(line, "P  %ld", &v) == 1 && (kbuf[0] = 0, 1))) {
      unsigned char *k = unhex(kbuf, &len);
      hashmap_put2(m, (char *)k, len, (void *)v);
      printf("O -\n");
    } else if (line[0] == 'G') {
      kbuf[0] = 0;
      sscanf(line, "G %s", kbuf);
      unsigned char *k = unhex(kbuf, &len);
      void *r = hashmap_get2(m, (char *)k, len);
      if (r)
        printf("O %ld\n", (long)r);
      else
        printf("O -\n");
    } else if (line[0] == 'D') {
      kbuf[0] = 0;
      sscanf(line, "D %s", kbuf);
      unsigned char *k = unhex(kbuf, &len);
      hashmap_delete2(m, (char *)k, len);
      printf("O -\n");
    }
    fflush(stdout);
  }
  return 0;
}
