(* C11 - literals have the C11 value, type and encoding (the parts decided by proof).
   Only statements closed by [exact] + Print Assumptions live here. *)
From Coq Require Import List NArith ZArith Bool.
From Chibicc Require Import Model.Unicode Spec.Utf Gen.UnicodeTables Model.IntLit Spec.IntLitSpec
     Proofs.UnicodeProofs Proofs.IntLitProofs.
Import ListNotations.
Local Open Scope N_scope.

(* every code point below 2^21 (all that four bytes can carry; includes all 1,112,064 scalar
   values) survives encode_utf8 followed by decode_utf8, whatever follows it in the buffer *)
Theorem C11_utf8_roundtrip : forall c rest, c < 2097152 ->
  decode_utf8 (encode_utf8 c ++ rest) = DecOk c rest.
Proof. exact utf8_roundtrip. Qed.
Print Assumptions C11_utf8_roundtrip.

(* the encoder produces exactly the RFC 3629 byte sequence *)
Theorem C11_utf8_is_rfc3629 : forall c, c < 2097152 -> encode_utf8 c = rfc3629 c.
Proof. exact encode_is_rfc3629. Qed.
Print Assumptions C11_utf8_is_rfc3629.

(* the decoder reads every RFC 3629 sequence as its code point *)
Theorem C11_utf8_decode : forall c rest, c < 2097152 -> decode_utf8 (rfc3629 c ++ rest) = DecOk c rest.
Proof. exact decode_rfc3629. Qed.
Print Assumptions C11_utf8_decode.

Theorem C11_decode_rejects_lone_continuation : forall b rest, 128 <= b < 192 -> decode_utf8 (b :: rest) = DecErr.
Proof. exact decode_rejects_lone_continuation. Qed.
Print Assumptions C11_decode_rejects_lone_continuation.
Theorem C11_decode_rejects_bad_continuation : forall b x rest,
  192 <= b < 256 -> x < 256 -> ~ (128 <= x < 192) -> decode_utf8 (b :: x :: rest) = DecErr.
Proof. exact decode_rejects_bad_continuation. Qed.
Print Assumptions C11_decode_rejects_bad_continuation.

(* UTF-16: BMP code points are one unit; the others a surrogate pair in D800-DBFF / DC00-DFFF
   that decodes back to the code point *)
Theorem C11_utf16_bmp : forall c, c < 65536 -> utf16_units c = [c].
Proof. exact utf16_bmp. Qed.
Print Assumptions C11_utf16_bmp.
Theorem C11_utf16_surrogates : forall c, 65536 <= c < 1114112 ->
  exists w1 w2, utf16_units c = [w1; w2] /\ 55296 <= w1 <= 56319 /\ 56320 <= w2 <= 57343 /\
                utf16_decode [w1; w2] = Some c.
Proof. exact utf16_surrogates. Qed.
Print Assumptions C11_utf16_surrogates.

(* the identifier tables regenerated from unicode.c denote exactly Annex D.1 minus D.2 (first
   character) and Annex D.1 (later characters), plus the basic letters, digits, _ and $ - for
   every 32-bit value, not only the sampled ones *)
Theorem C11_ident_start_ranges : forall c, is_ident1 c = spec_ident_start c.
Proof. exact is_ident1_annex_d. Qed.
Theorem C11_ident_cont_ranges : forall c, is_ident2 c = spec_ident_cont c.
Proof. exact is_ident2_annex_d. Qed.
Print Assumptions C11_ident_start_ranges.
Print Assumptions C11_ident_cont_ranges.

(* the shift ladder of convert_pp_int picks the first type of the 6.4.4.1p5 list that can
   represent the value, for every base class, suffix class and value below 2^64 *)
Theorem C11_int_literal_type : forall decimal l u v t,
  v < 18446744073709551616 ->
  c11_literal_type decimal l u v = Some t -> lit_type decimal l u v = t.
Proof. exact literal_type_is_c11. Qed.
Print Assumptions C11_int_literal_type.

(* non-vacuity: the hypotheses are met at the interesting boundaries *)
Example C11_nonvacuous :
  c11_literal_type true false false 2147483648 = Some TLong /\
  c11_literal_type false false false 2147483648 = Some TUInt /\
  c11_literal_type false false false 9223372036854775808 = Some TULong /\
  c11_literal_type true false false 9223372036854775808 = None /\
  encode_utf8 65535 = [239; 191; 191] /\ encode_utf8 65536 = [240; 144; 128; 128] /\
  utf16_units 1114111 = [56319; 57343] /\ is_ident1 0x0300 = false /\ is_ident2 0x0300 = true.
Proof. vm_compute. repeat split; reflexivity. Qed.
Print Assumptions C11_nonvacuous.
