(* C08 - type sizes, alignments and layouts equal the psABI.
   Only statements closed by [exact] + Print Assumptions live here. *)
From Coq Require Import List NArith Bool Permutation.
From Chibicc Require Import Model.Layout Spec.LayoutSpec Proofs.LayoutProofs
     Model.Declspec Gen.DeclspecTable Spec.DeclspecSpec Proofs.DeclspecProofs.
Import ListNotations.
Local Open Scope N_scope.

(* every member of every struct (any number and mix of members, bit-fields, zero-width and
   unnamed bit-fields, _Alignas / aligned(n) / packed) is placed at the least position the
   psABI conditions allow, the struct alignment is the least upper bound of the counted member
   alignments and its size the least multiple of it that holds all members.  Excluded by the
   decidable [no_bad] only: a bit-field that would cross a unit boundary inside a packed struct. *)
Theorem C08_struct_layout_is_psabi : forall packed align0 ms,
  Forall wf_member ms -> 0 < align0 ->
  no_bad packed {| ls_bits := 0; ls_align := align0 |} ms = true ->
  let L := struct_layout packed align0 ms in
  let pos := positions packed {| ls_bits := 0; ls_align := align0 |} ms in
  exists e,
    psabi_members packed 0 ms pos e /\
    psabi_align packed align0 ms (l_align L) /\
    psabi_size e (l_align L) (l_size L) /\
    Forall2 (fun mp p => m_bf (fst mp) <> Some 0 -> start_bit (snd mp) = p) (combine ms (l_places L)) pos.
Proof. exact struct_layout_psabi. Qed.
Print Assumptions C08_struct_layout_is_psabi.

(* psABI placements never overlap: members appear in declaration order, each starting at or
   after the end of every earlier one, all inside the struct *)
Theorem C08_members_disjoint : forall packed ms cur ps e,
  psabi_members packed cur ms ps e ->
  cur <= e /\ Forall (fun p => cur <= p) ps /\
  (forall i j pi pj mi, (i < j)%nat -> nth_error ps i = Some pi -> nth_error ps j = Some pj ->
     nth_error ms i = Some mi -> pi + bit_len mi <= pj) /\
  (forall i pi mi, nth_error ps i = Some pi -> nth_error ms i = Some mi -> pi + bit_len mi <= e).
Proof. exact psabi_members_ordered. Qed.
Print Assumptions C08_members_disjoint.

(* a bit-field's storage unit is aligned for its type and contains the whole field *)
Theorem C08_bitfield_in_unit : forall packed st m,
  wf_member m -> known_bad packed (ls_bits st) m = false ->
  forall w, m_bf m = Some w -> 0 < w ->
    N.divide (m_size m) (p_off (fst (struct_step packed st m))) /\
    p_bit (fst (struct_step packed st m)) + w <= 8 * m_size m \/ packed = true.
Proof.
  intros packed st m Hwf Hkb w E Hw.
  destruct (struct_step_psabi packed st m Hwf Hkb) as [p [_ [_ [_ H]]]]. exact (H w E Hw).
Qed.
Print Assumptions C08_bitfield_in_unit.

(* the excluded construct really differs (so the exclusion is not gratuitous) *)
Theorem C08_known_bad_is_real :
  let ms := [ {| m_size := 1; m_align := 1; m_bf := None; m_named := true |};
              {| m_size := 4; m_align := 4; m_bf := Some 30; m_named := true |} ] in
  no_bad true {| ls_bits := 0; ls_align := 1 |} ms = false /\
  l_size (struct_layout true 1 ms) = 8 /\ psabi_members true 0 ms [0; 8] 38.
Proof. exact known_bad_is_real. Qed.
Print Assumptions C08_known_bad_is_real.

(* every 6.7.2p2 multiset of type specifiers, in every order, interleaved with any other
   declaration specifiers, is accepted by the regenerated switch of declspec() with the C11 type *)
Theorem C08_declspec_any_order : forall ts m t,
  In (m, t) c11_type_specifiers -> Permutation (kws ts) m ->
  declspec kw_op ds_table ts = Some t.
Proof. exact declspec_any_order. Qed.
Print Assumptions C08_declspec_any_order.

Example C08_nonvacuous :
  declspec kw_op ds_table [TOther; TKw KLong; TOther; TKw KUnsigned; TKw KInt; TKw KLong] = Some BULong /\
  struct_layout false 1 [ {| m_size := 1; m_align := 1; m_bf := None; m_named := true |};
                          {| m_size := 8; m_align := 8; m_bf := Some 0; m_named := false |};
                          {| m_size := 1; m_align := 1; m_bf := None; m_named := true |} ]
  = {| l_size := 9; l_align := 1; l_places := [ {| p_off := 0; p_bit := 0 |}; {| p_off := 0; p_bit := 0 |}; {| p_off := 8; p_bit := 0 |} ] |}.
Proof. vm_compute. split; reflexivity. Qed.
Print Assumptions C08_nonvacuous.
