(* C09 - macro expansion follows C11 6.10.3 and terminates.  Statements only; proofs in Proofs/. *)
From Chibicc Require Import Base.Mach Model.Lexer Model.Macro Gen.PunctTable Proofs.MacroProofs.

(* 6.10.3.4p2: a token carrying its own name in its hide set ("painted blue") is never replaced *)
Theorem C09_painted_not_replaced : forall pp e t rest,
  hs_contains (m_hs t) (m_txt t) = true -> expand_macro punct_table pp e t rest = NoExp.
Proof. exact (painted_not_replaced punct_table). Qed.
Print Assumptions C09_painted_not_replaced.

(* every token that replaces an invocation of M (object-like or function-like, whatever the
   arguments) carries M in its hide set, and the text after the invocation is passed on untouched *)
Theorem C09_replacement_painted : forall pp e t rest ts, expand_macro punct_table pp e t rest = Exp ts ->
  exists body after, ts = body ++ after /\ Forall (painted (m_txt t)) body /\ suffix after rest.
Proof. exact (replacement_painted punct_table). Qed.
Print Assumptions C09_replacement_painted.

(* 6.10.3p10: a function-like macro name not followed by ( is not an invocation *)
Theorem C09_funlike_needs_paren : forall pp e t rest m, find_macro e t = Some m -> mc_obj m = false ->
  match rest with lp :: _ => is lp LP = false | [] => True end -> expand_macro punct_table pp e t rest = NoExp.
Proof. exact (funlike_needs_paren punct_table). Qed.
Print Assumptions C09_funlike_needs_paren.

(* the substitution loop itself always terminates: with the counter the model passes
   (length of the replacement list + 1) a Fuel result can only come from expanding an argument *)
Theorem C09_subst_own_fuel : forall pp obj n body args acc,
  subst punct_table pp obj n body args acc = MFuel -> (length body < n)%nat -> exists x, pp x = MFuel.
Proof. exact (subst_own_fuel punct_table). Qed.
Print Assumptions C09_subst_own_fuel.

(* termination: for ANY set of object-like macros (self-referential, mutually recursive in any
   shape) without ## and ANY text without directives, preprocessing ends within the explicit bound
   mu, and with a result.  (For function-like macros the model carries fuel; see DESIGN.md.) *)
Theorem C09_objlike_terminates : forall e B, obj_env e B -> forall f ts,
  Forall (fun t => is t HASH = false) ts -> (mu e B ts < f)%nat -> exists out, pp2 punct_table f e ts = MOk out.
Proof. exact (objlike_terminates punct_table). Qed.
Print Assumptions C09_objlike_terminates.

(* non-vacuity: mutual recursion, the f(2)(9) example of 6.10.3.4, # and ## with empty operands *)
Definition demo_src : list N :=   (* #define A B x\n#define B A y\nA B\n *)
  [35;100;101;102;105;110;101;32;65;32;66;32;120;10; 35;100;101;102;105;110;101;32;66;32;65;32;121;10; 65;32;66;10]%N.
Definition demo_out := Eval vm_compute in
  match tokenize punct_table demo_src with
  | LexOk l => match pp2 punct_table 100 [] (of_lex l) with MOk ts => Some (map m_txt ts) | _ => None end
  | LexErr => None end.
Example C09_nonvacuous : demo_out = Some [[65]; [121]; [120]; [66]; [120]; [121]]%N.     (* A y x B x y *)
Proof. reflexivity. Qed.
Print Assumptions C09_nonvacuous.
