(* C07 - translation-time constant evaluation equals run-time evaluation (integer expressions).
   Only statements closed by [exact] + Print Assumptions live here. *)
From Coq Require Import ZArith Bool.
From Chibicc Require Import Spec.C11Int Model.ConstFold Proofs.ConstFoldProofs.
Local Open Scope Z_scope.

(* the type the compiler assigns (get_common_type by size, promotions inserted by add_type and
   unary()) is the C11 type (conversion rank, integer promotions, usual arithmetic conversions),
   for every expression: any operators, operand types, casts and depth *)
Theorem C07_type_is_c11 : forall e, m_type e = type_of e.
Proof. exact m_type_is_c11. Qed.
Print Assumptions C07_type_is_c11.

(* whenever C11 defines the value of an expression, the folder (int64_t arithmetic with the
   (uint64_t) paths, narrowing at every node, eval_div) yields exactly that value, as the
   int64_t bit pattern of it; operators not evaluated by C11 (rhs of && || ?:) are not evaluated *)
Theorem C07_fold_is_c11 : forall e v, eval e = Some v -> m_eval e = Val (wrap64 v).
Proof. exact fold_is_c11. Qed.
Print Assumptions C07_fold_is_c11.

(* hence a defined expression is never diagnosed as a division error and never reaches a
   host-undefined shift *)
Theorem C07_fold_never_host_undefined : forall e v, eval e = Some v ->
  m_eval e <> HostUB /\ m_eval e <> ErrDivZero /\ m_eval e <> ErrOverflow.
Proof. exact fold_never_host_undefined. Qed.
Print Assumptions C07_fold_never_host_undefined.

Example C07_nonvacuous :
  eval (Bin Add (Un Neg (Lit I32 1)) (Lit I32 0)) = Some (-1) /\
  eval (Bin Shr (Un BitNot (Lit U32 0)) (Lit I32 1)) = Some 2147483647 /\
  eval (Bin OLt (Un Neg (Lit I32 1)) (Lit U32 1)) = Some 0 /\
  eval (Bin Div (Lit I32 1) (Lit I32 0)) = None /\
  m_eval (Bin Div (Lit I32 1) (Lit I32 0)) = ErrDivZero /\
  m_eval (Bin Add (Lit U64 18446744073709551615) (Lit I8 (-1))) = Val (-2).
Proof. vm_compute. repeat split; reflexivity. Qed.
Print Assumptions C07_nonvacuous.
