(* C20 - evaluation leaves no residue on the machine stack or the x87 stack.  Statements only. *)
From Chibicc Require Import Base.Mach Model.StackDisc Proofs.StackDiscProofs.
Local Open Scope Z_scope.

(* every well-typed scalar expression (any nesting of arithmetic, comparisons, casts between the
   three register classes, assignment, ?:, && ||, comma, (void), calls with any argument list and
   any pass-by-stack marking and alignment pad): started with d slots on the machine stack and x
   x87 registers in use, the emitted code never pops below d, never exceeds 8 x87 registers as
   long as x + need e <= 8, rejoins every branch in the same state, and ends with the machine
   stack where it was and exactly one value: on the x87 stack iff the value is a long double *)
Theorem C20_expression_balanced : forall e, wt e = true -> forall d x, 0 <= d -> 0 <= x -> x + need e <= 8 ->
  srun (gen e) (d, x) = Some (d, x + xv (cls_of e)).
Proof. exact gen_balanced. Qed.
Print Assumptions C20_expression_balanced.

(* statements (expression statements, if, for, do, blocks, return) leave both stacks exactly as
   they found them, so a loop body may srun any number of times *)
Theorem C20_statement_balanced : forall s, wts s = true -> forall d x, 0 <= d -> 0 <= x -> x + sneed s <= 8 ->
  srun (gs s) (d, x) = Some (d, x).
Proof. exact gs_balanced. Qed.
Print Assumptions C20_statement_balanced.

Theorem C20_need_covers_value : forall e, wt e = true -> xv (cls_of e) <= need e.
Proof. exact xv_le_need. Qed.
Print Assumptions C20_need_covers_value.

(* the capacity hypothesis is real: a right-nested long double expression of depth 8 needs nine
   x87 registers and overflows (known finding C20-x87-depth); left-nested chains need two *)
Theorem C20_deep_right_nesting_overflows : wt (right_nested 8) = true /\ need (right_nested 8) = 9 /\ srun (gen (right_nested 8)) (0, 0) = None.
Proof. exact deep_right_nesting_overflows. Qed.
Print Assumptions C20_deep_right_nesting_overflows.

Theorem C20_left_nesting_is_flat : forall n, need ((fix l (n : nat) : expr := match n with O => XVar CX | S k => XBin CX (l k) (XVar CX) end) n) <= 2.
Proof. exact left_nesting_is_flat. Qed.
Print Assumptions C20_left_nesting_is_flat.

(* non-vacuity: a long double assignment inside a call inside a loop *)
Definition demo : stmt :=
  SFor (SExpr CX (XAssign CX (XNum CI) (XNum CX))) CI (XCmp CX (XVar CX) (XNum CX)) CX (XAssign CX (XNum CI) (XBin CX (XVar CX) (XNum CX)))
    (SExpr CI (XCall CI true [(CX, true, XCond CI CX (XVar CI) (XVar CX) (XCast CF CX (XVar CF))); (CI, false, XLNot CX (XVar CX)); (CF, false, XCast CX CF (XVar CX))])).
Example C20_nonvacuous : wts demo = true /\ sneed demo = 2 /\ srun (gs demo) (0, 0) = Some (0, 0).
Proof. vm_compute. repeat split. Qed.
Print Assumptions C20_nonvacuous.
