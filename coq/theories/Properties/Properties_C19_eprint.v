(* C19 - preprocessed output is a faithful program: the -E printer (print_tokens in main.c).
   Only statements closed by [exact] + Print Assumptions live here.

   Vocabulary.  A token given to the printer (Model/EPrint.v, [etok]) carries what print_tokens()
   reads: kind, spelling, has_space, at_bol, and [e_adj] = the outcome of the C test
   `prev && prev->file == tok->file && prev->loc + prev->len == tok->loc`.
   [eprint] is print_tokens (including the space behind a `\\` token before a new-line, f21a1fb, and the
   space in front of a first token beginning with EF BB BF, 87479b9); [tokenize punct_table] is tokenize() of tokenize.c (Model/Lexer.v) with
   the punctuator table regenerated from the source; [relex ts] is the token list - flags included -
   that reading the printed text must give.
   [printable_src ts]: every token of ts was cut by tokenize() out of SOME text in which it was followed
   by the spellings of the tokens that the printer glues to it (those whose adjacency test succeeds and
   that have no has_space and start no line).  That is what the C code guarantees: the adjacency test
   only succeeds for tokens lying side by side in one buffer that one tokenize() run cut into exactly
   these tokens.  Nothing is assumed about tokens that are NOT glued: they may come from anywhere
   (macro bodies, arguments, pasted or stringized text, other files) and may fuse at will. *)
From Coq Require Import List NArith Bool.
From Chibicc Require Import Model.Lexer Gen.PunctTable Proofs.LexerProofs Model.Phases Model.EPrint Spec.EPrintSpec Proofs.EPrintProofs.
Import ListNotations.
Local Open Scope N_scope.

(* The hypothesis [printable_src] is what tokenize() delivers: the token list of ANY text the tokenizer
   accepts (any length, comments and white space anywhere) satisfies it ... *)
Theorem C19_eprint_tokenizer_output_printable : forall text l,
  tokenize punct_table text = LexOk l -> printable_src (of_lexed l).
Proof. exact tokenizer_output_printable. Qed.
Print Assumptions C19_eprint_tokenizer_output_printable.

(* ... hence -E of a text without directives and macros reads back as the same preprocessing tokens. *)
Theorem C19_eprint_plain_text_roundtrip : forall text l, tokenize punct_table text = LexOk l ->
  exists l', tokenize punct_table (eprint (of_lexed l)) = LexOk l' /\ map pptoken_of l' = map pptoken_of l.
Proof. exact plain_text_roundtrip. Qed.
Print Assumptions C19_eprint_plain_text_roundtrip.

(* The heart (maximal munch is only ever stopped by a separator, never prolonged): if tokenize(),
   standing in front of the text p r1, cuts a token that ends inside p, then in front of p followed by
   a space or a new-line and ANY other text it cuts the same token.  All kinds of token: identifier,
   pp-number with its e+ e- p+ p- pairs, every punctuator of tokenize.c, string and character literals
   with every prefix. *)
Theorem C19_eprint_cut : forall p r1 c r2 k n, is_sep c = true ->
  first_token punct_table (p ++ r1) = Some (k, n) -> (n <= length p)%nat ->
  first_token punct_table (p ++ c :: r2) = Some (k, n).
Proof. exact (first_token_cut punct_table punct_table_nosep'). Qed.
Print Assumptions C19_eprint_cut.

(* The hypothesis of the round trip is decidable: a token list is printable iff every token, followed
   by the spellings glued to it and then a new-line, is cut by the tokenizer as itself. *)
Theorem C19_eprint_printable_decidable : forall ts, printable_src ts <-> printable_b punct_table ts = true.
Proof. exact (printable_iff punct_table punct_table_nosep'). Qed.
Print Assumptions C19_eprint_printable_decidable.

(* Soundness of the printer's decision for a pair: whenever print_tokens() writes token b directly
   behind token a (no space, no new-line), the tokenizer reading the output from the first byte of a
   cuts exactly a - whatever follows b in the output. *)
Theorem C19_eprint_glued_pair_sound : forall a b rest pb, printable_src (a :: b :: rest) -> glued b = true ->
  exists more, eprint_from false pb (a :: b :: rest) = sep_before false pb a ++ e_text a ++ e_text b ++ more /\
               first_token punct_table (e_text a ++ e_text b ++ more) = Some (e_kind a, length (e_text a)).
Proof. exact glued_pair_sound. Qed.
Print Assumptions C19_eprint_glued_pair_sound.

(* THE round trip, for token lists of any length: the text written by -E, read by tokenize(), is
   exactly the token list that was printed - same number of tokens, same kinds, same spellings - and
   every token is at the beginning of a line / preceded by white space exactly as [relex] says. *)
Theorem C19_eprint_roundtrip : forall ts, printable_src ts ->
  tokenize punct_table (eprint ts) = LexOk (relex ts).
Proof. exact eprint_roundtrip. Qed.
Print Assumptions C19_eprint_roundtrip.

(* In the words of Spec/EPrintSpec.v: phase 3 decomposes the -E text into the preprocessing tokens
   (kind, spelling) the compiler proper consumes. No exclusion: holds also with a leading `#`. *)
Theorem C19_eprint_same_tokens : forall ts, printable_src ts ->
  same_tokens (tokenize punct_table) (eprint ts) (given ts).
Proof. exact eprint_same_tokens. Qed.
Print Assumptions C19_eprint_same_tokens.

(* A `#` that is still there after preprocessing is not a directive; in the -E text a `#` is the first
   token of a line if and only if it is the very first token of the whole output. *)
Theorem C19_eprint_hash_at_line_start : forall ts, no_directive (relex ts) = negb (leading_hash ts).
Proof. exact relex_no_directive. Qed.
Print Assumptions C19_eprint_hash_at_line_start.

(* Phases 1 and 2 of whoever reads the -E text leave it alone: it does not begin with a byte order mark
   (an identifier beginning with U+FEFF as first token gets a space in front), holds no backslash
   directly before a new-line (a `\` token is followed by a space there, also at the very end) and no
   carriage return.  [clean_tokens]: no spelling holds a CR or backslash-new-line itself, and only the
   `\` token ends in a backslash - true of every spelling tokenize() cuts from a file. *)
Theorem C19_eprint_survives_phases_1_2 : forall ts, printable_src ts -> clean_tokens ts = true ->
  survives_phases_1_2 (eprint ts) = true.
Proof. exact eprint_survives_phases_1_2. Qed.
Print Assumptions C19_eprint_survives_phases_1_2.

(* The same against the model of tokenize_file's phases 1-2 (Model/Phases.v) and its BOM test: reading
   the -E text the way chibicc reads a file gives exactly the tokens that were printed. *)
Theorem C19_eprint_reread : forall ts, printable_src ts -> clean_tokens ts = true ->
  tokenize punct_table (phases12 (strip_bom (eprint ts))) = LexOk (relex ts).
Proof. exact eprint_reread. Qed.
Print Assumptions C19_eprint_reread.

(* Hence, unless the output begins with `#`, the -E text is faithful: same preprocessing tokens,
   nothing in it is taken for a directive, and phases 1-2 do not touch it. *)
Theorem C19_eprint_faithful : forall ts, printable_src ts -> clean_tokens ts = true -> leading_hash ts = false ->
  faithful (tokenize punct_table) (eprint ts) (given ts).
Proof. exact eprint_faithful. Qed.
Print Assumptions C19_eprint_faithful.

(* The exclusion is exact and real (open finding C19-leading-hash): EVERY token list that begins with
   `#` is printed with the `#` at the start of line 1 ... *)
Theorem C19_eprint_leading_hash_always_refuted : forall ts, printable_src ts -> leading_hash ts = true ->
  ~ faithful (tokenize punct_table) (eprint ts) (given ts).
Proof. exact leading_hash_always_refuted. Qed.
Print Assumptions C19_eprint_leading_hash_always_refuted.

(* ... with the witness `#define H #` / `H define X 1` / `X`, printed as "# define X 1\nX\n". *)
Theorem C19_eprint_leading_hash_refuted : exists ts, printable_src ts /\ leading_hash ts = true /\
  eprint ts = [35; 32; 100; 101; 102; 105; 110; 101; 32; 88; 32; 49; 10; 88; 10] /\
  ~ faithful (tokenize punct_table) (eprint ts) (given ts).
Proof. exact leading_hash_refuted. Qed.
Print Assumptions C19_eprint_leading_hash_refuted.

(* Idempotence: read the -E text (the tokens of ONE text are adjacent iff nothing was skipped between
   them), print what was read: the same bytes; read that: the same tokens, flags included.
   The first equation needs no hypothesis at all. *)
Theorem C19_eprint_print_of_read : forall ts, eprint (of_lexed (relex ts)) = eprint ts.
Proof. exact eprint_of_relex. Qed.
Print Assumptions C19_eprint_print_of_read.

Theorem C19_eprint_idempotent : forall ts, printable_src ts ->
  exists l, tokenize punct_table (eprint ts) = LexOk l /\ eprint (of_lexed l) = eprint ts /\
            tokenize punct_table (eprint (of_lexed l)) = LexOk l.
Proof. exact eprint_idempotent. Qed.
Print Assumptions C19_eprint_idempotent.

(* non-vacuity: `x=-N;` with `#define N -1` (six tokens, two origins) is printable and prints "x=- -1 ;" *)
Example C19_eprint_nonvacuous :
  printable_src ex_minus /\ eprint ex_minus = [120; 61; 45; 32; 45; 49; 32; 59; 10] /\
  tokenize punct_table (eprint ex_minus) = LexOk (relex ex_minus) /\ length (relex ex_minus) = 6%nat.
Proof. exact ex_minus_ok. Qed.
Print Assumptions C19_eprint_nonvacuous.

(* non-vacuity: fourteen tokens that would all fuse (u8 "a", 1e +, / *, . 5, L 'c', a `#` at_bol, % :) *)
Example C19_eprint_nonvacuous_mixed :
  printable_src ex_mixed /\ leading_hash ex_mixed = false /\
  eprint ex_mixed = [117; 56; 32; 34; 97; 34; 32; 49; 101; 32; 43; 32; 47; 32; 42; 32; 46; 32; 53; 32; 76; 32; 39; 99; 39;
                     32; 35; 100; 10; 37; 58; 10] /\
  faithful (tokenize punct_table) (eprint ex_mixed) (given ex_mixed).
Proof. exact ex_mixed_ok. Qed.
Print Assumptions C19_eprint_nonvacuous_mixed.

(* non-vacuity for the two repairs: `\` tokens before new-lines and at the very end; U+FEFF first *)
Example C19_eprint_nonvacuous_backslash :
  printable_src ex_bslash /\ clean_tokens ex_bslash = true /\
  eprint ex_bslash = [97; 32; 92; 32; 10; 120; 92; 32; 10; 98; 32; 92; 32; 10] /\
  faithful (tokenize punct_table) (eprint ex_bslash) (given ex_bslash).
Proof. exact ex_bslash_ok. Qed.
Print Assumptions C19_eprint_nonvacuous_backslash.

Example C19_eprint_nonvacuous_bom :
  printable_src ex_bom /\ clean_tokens ex_bom = true /\
  eprint ex_bom = [32; 239; 187; 191; 120; 32; 61; 32; 49; 10] /\
  faithful (tokenize punct_table) (eprint ex_bom) (given ex_bom).
Proof. exact ex_bom_ok. Qed.
Print Assumptions C19_eprint_nonvacuous_bom.

(* the hypothesis is not empty talk: impossible token lists are rejected *)
Example C19_eprint_not_printable :
  printable_b punct_table [T LPunct [45] false true false; T LPunct [45] false false true] = false /\
  printable_b punct_table [T LIdent [117; 56] false true false; T LStr [34; 97; 34] false false true] = false /\
  printable_b punct_table [T LNum [49; 101] false true false; T LPunct [43] false false true] = false /\
  printable_b punct_table [T LPunct [47] false true false; T LPunct [42] false false true] = false /\
  printable_b punct_table [T LPunct [45] false true false; T LPunct [45] false false false] = true.
Proof. exact not_printable_examples. Qed.
Print Assumptions C19_eprint_not_printable.
