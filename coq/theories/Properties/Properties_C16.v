(* C16 - atomic read-modify-write operations are indivisible.
   Only statements closed by [exact] + Print Assumptions live here. *)
From Coq Require Import List ZArith Bool.
From Chibicc Require Import Model.Atomic Proofs.AtomicProofs.
Import ListNotations.
Local Open Scope Z_scope.

(* For any number of threads, any per-thread programs of op= / fetch_op / exchange /
   compare-exchange operations, and ANY schedule of their atomic steps (plain load, lock cmpxchg,
   xchg): the completed operations, in the order of their successful lock-prefixed step (which
   lies between invocation and response of each), form a sequential history of ONE atomic object
   that explains every returned value and the final memory; every thread's results are exactly
   the results of its own operations in that history, in program order. *)
Theorem C16_linearizable : forall M init progs0 sched,
  let s := run M (init_sys init progs0) sched in
  consistent M init (hist s) /\ replay M init (hist s) = mem s /\
  (forall i t, nth_error (threads s) i = Some t ->
     exists done, nth_error progs0 i = Some (done ++ prog t) /\
                  done = map e_op (mine i (hist s)) /\ results t = map e_result (mine i (hist s))).
Proof. intros M init progs0 sched. exact (linearizable M init progs0 sched). Qed.
Print Assumptions C16_linearizable.

(* no update is lost: if every operation adds a constant (+=, ++, atomic_fetch_add ...), the
   object ends with the initial value plus ALL completed operands, whatever the interleaving *)
Theorem C16_no_lost_update : forall M init progs0 sched cs,
  init = wrap M init ->
  Forall2 (fun e c => is_add (e_op e) c) (hist (run M (init_sys init progs0) sched)) cs ->
  mem (run M (init_sys init progs0) sched) = wrap M (init + fold_right Z.add 0 cs).
Proof. intros M init progs0 sched cs. exact (no_lost_update M init progs0 sched cs). Qed.
Print Assumptions C16_no_lost_update.

(* compare-exchange fails only when the object differs from the expected value, which then
   receives the value the object held *)
Theorem C16_cas_failure : forall M init progs0 sched ev e d x,
  In ev (hist (run M (init_sys init progs0) sched)) -> e_op ev = Cas e d -> e_result ev = RCas false x ->
  x = e_before ev /\ e_before ev <> e.
Proof. intros M init progs0 sched ev e d x. exact (cas_failure_semantics M init progs0 sched ev e d x). Qed.
Print Assumptions C16_cas_failure.

(* non-vacuity: two threads incrementing a one-byte counter, interleaved so that a CAS fails *)
Example C16_nonvacuous :
  let inc := Rmw (fun m => m + 1) true in
  let s := run 256 (init_sys 255 [[inc; inc]; [inc]]) [0; 1; 0; 1; 1; 0; 0]%nat in
  mem s = 2 /\ length (hist s) = 3%nat /\ map e_tid (hist s) = [0; 1; 0]%nat.
Proof. vm_compute. repeat split; reflexivity. Qed.
Print Assumptions C16_nonvacuous.
