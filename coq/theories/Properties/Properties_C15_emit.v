(* C15, package emit - which symbols an object file defines, with which binding / section / size /
   alignment, and how addresses of identifiers are formed.  Statements only; proofs in Proofs/Emit*.v. *)
From Coq Require Import List Bool Arith ZArith.
From Chibicc Require Import Model.Linkage Spec.LinkSpec Model.Emit Proofs.EmitAsm Proofs.EmitProofs Proofs.EmitExtra Proofs.EmitAnon Proofs.EmitClosure.
Import ListNotations.

(* For EVERY valid translation unit (any number of identifiers, any number and order of redeclarations of
   each: extern / static / plain / _Thread_local objects, tentative or initialized, address-constant
   initializers; functions declared static / inline / extern inline / plain, defined or not, with bodies that
   use any declared identifier, declare block-scope statics and contain string literals), for both -fcommon
   and -fno-common and with or without -fPIC, and for EVERY identifier n: the entry that GNU as derives for n
   from the directives chibicc's emit_data / emit_text print for the objects parse() built - or its absence -
   is exactly the entry C11 6.2.2 (linkage), 6.9.2 (tentative definitions), 6.7.4p7 (inline definitions),
   6.2.4 (storage duration) and the ELF conventions prescribe: defined / undefined / absent, LOCAL or GLOBAL,
   FUNC / OBJECT / TLS / NOTYPE, .text / .data / .bss / .tdata / .tbss / COMMON, size and alignment.
   `live` is any decision procedure for "this function is emitted" (spec: reachable from an always-emitted
   function).  Excluded, and shown below to be a real defect of the C code: an `extern` declaration with an
   initializer of an object that an earlier declaration made `static` (chibicc emits it GLOBAL).  There is no
   other restriction.  (Update 2: function designators in file-scope initializers are covered since /repo f841ff9.
   Update 3: `extern` with an initializer - 2049a24 - and every mixture of inline / extern inline / plain
   declarations in every order - 85373f4 - are covered; the hypotheses kb_extern_init and kb_inline_first are gone.) *)
Theorem C15_emit_symtab : forall ds o live,
  valid ds = true -> kb_extern_init_static ds = false ->
  live_ok ds live ->
  forall n, symtab_of (emit o (parse_flags ds)) n = to_result (spec_entry live ds o n).
Proof. exact emit_symtab_correct. Qed.
Print Assumptions C15_emit_symtab.

(* the liveness hypothesis is never vacuous: the set mark_live computes IS such a decision procedure
   (mark_live's soundness and completeness, C15_live_only_if_reachable / C15_live_if_reachable, carried over
   to the specification's notion of an emitted function) *)
Theorem C15_emit_live_exists : forall ds, valid ds = true ->
  live_ok ds (model_live (ps_globals (parse ds))).
Proof. exact model_live_ok. Qed.
Print Assumptions C15_emit_live_exists.

(* the specification's own computable closure (|ds|+1 rounds of the naive closure over the declared functions)
   decides "emitted" for EVERY unit; hence the theorem above with the specification as a function of the
   declarations and options alone, pointwise and as the table nm prints: for all valid units without the one
   deviation, symtab (emit (parse_flags decls) opts) = spec_symtab decls opts, and identifiers that are not
   declared have no entry *)
Theorem C15_emit_closure_live : forall ds, live_ok ds (closure_live ds).
Proof. exact closure_live_ok. Qed.
Print Assumptions C15_emit_closure_live.

Theorem C15_emit_symbols : forall ds o,
  valid ds = true -> kb_extern_init_static ds = false ->
  nm_table (emit o (parse_flags ds)) (declared_names ds) = spec_symtab (closure_live ds) ds o
  /\ forall n, ~ In n (declared_names ds) -> symtab_of (emit o (parse_flags ds)) n = Absent.
Proof. exact emit_table_correct. Qed.
Print Assumptions C15_emit_symbols.

(* -fPIC never changes which symbols an object file has, nor their attributes *)
Theorem C15_emit_pic_same_symbols : forall ds fc,
  valid ds = true -> kb_extern_init_static ds = false ->
  forall n, symtab_of (emit (mkOpts fc true) (parse_flags ds)) n = symtab_of (emit (mkOpts fc false) (parse_flags ds)) n.
Proof. exact symtab_independent_of_pic. Qed.
Print Assumptions C15_emit_pic_same_symbols.

(* the assembler never meets a second definition of a symbol in the output for a valid unit *)
Theorem C15_emit_no_redefinition : forall ds o n,
  valid ds = true -> kb_extern_init_static ds = false ->
  symtab_of (emit o (parse_flags ds)) n <> Clash.
Proof. exact no_clash. Qed.
Print Assumptions C15_emit_no_redefinition.

(* the assembler model applied to emit's output, in closed form: the events of the whole file are the
   per-object blocks side by side, whatever section / alignment state each block starts in *)
Theorem C15_emit_blocks_independent : forall o prog,
  asm P_text None (emit o prog) = flat_map (data_ev (fcommon o) prog) prog ++ flat_map (text_ev (fpic o) prog) prog.
Proof. exact asm_emit. Qed.
Print Assumptions C15_emit_blocks_independent.

(* block-scope static objects, string literals, __func__ / __FUNCTION__ (identifiers without linkage, 6.2.2p6):
   for every valid unit the labels .L..0, .L..1, ... that are defined are defined exactly once, and the sections, sizes
   and alignments the assembler records for them, in order of creation, are those of 6.2.4 (static storage duration:
   .data when initialized, .bss otherwise; thread storage duration: .tdata / .tbss; strings in .data) with the requested
   alignment and the psABI array alignment; (Update 3, 62ebd1d) the block-scope statics of a function that is not
   emitted are not placed, its strings and __func__ arrays still are *)
Theorem C15_emit_anonymous_objects : forall ds o live, valid ds = true -> live_ok ds live ->
  anon_placements (emit o (parse_flags ds)) = spec_anon live ds.
Proof. exact anon_placements_correct. Qed.
Print Assumptions C15_emit_anonymous_objects.

(* without any hypothesis: what is placed is exactly the anonymous objects whose owner function (if any) is marked live *)
Theorem C15_emit_anonymous_objects_model : forall ds o,
  anon_placements (emit o (parse_flags ds)) = map anon_entry (filter (owner_live (parse_flags ds)) (unit_anons 0 ds)).
Proof. exact anon_placements_model. Qed.
Print Assumptions C15_emit_anonymous_objects_model.

(* gen_addr, all 64 combinations of (-fPIC) x (VLA, local, function, definition, thread-local): the
   instruction sequence is the cheapest form that is VALID for the class of the identifier under the option -
   frame-relative for automatic objects, GOT for everything global in position-independent code and for
   functions that are only declared, pc-relative otherwise, TLS general-dynamic under -fPIC and local-exec
   without - and it names no symbol but the identifier's own *)
Theorem C15_emit_gen_addr_table : forall pic v,
  access_of (gen_addr pic v) = Some (preferred_access pic (class_of v))
  /\ access_valid pic (class_of v) (preferred_access pic (class_of v)) = true
  /\ names_only (v_name v) (gen_addr pic v) = true.
Proof. exact gen_addr_table. Qed.
Print Assumptions C15_emit_gen_addr_table.

(* the exclusion is real: a valid C unit on which the faithful model differs from the spec.
   static int x; extern int x = 5;  keeps internal linkage (6.2.2p4) but is emitted GLOBAL *)
Theorem C15_emit_extern_init_static_refuted : valid bad_extern_init_static = true /\ kb_extern_init_static bad_extern_init_static = true /\
  forall live, symtab_of (emit o_default (parse_flags bad_extern_init_static)) 1 = Present (mkEntry B_global T_object P_data (Some 4%Z) (Some 4%Z))
               /\ spec_entry live bad_extern_init_static o_default 1 = Some (mkEntry B_local T_object P_data (Some 4%Z) (Some 4%Z)).
Proof. exact extern_init_static_refuted. Qed.
Print Assumptions C15_emit_extern_init_static_refuted.

(* repaired in /repo, formerly excluded (Update 3): the same witnesses, computed.
   (1) extern int x = 5; is a GLOBAL OBJECT in .data *)
Example C15_emit_extern_init_now_defined : valid ex_extern_init = true /\ no_known_bad ex_extern_init = true /\
  symtab_of (emit o_default (parse_flags ex_extern_init)) 1 = Present (mkEntry B_global T_object P_data (Some 4%Z) (Some 4%Z))
  /\ spec_entry (closure_live ex_extern_init) ex_extern_init o_default 1 = Some (mkEntry B_global T_object P_data (Some 4%Z) (Some 4%Z)).
Proof. exact extern_init_now_defined. Qed.
Print Assumptions C15_emit_extern_init_now_defined.

(* (2) inline f(){..} extern inline f();  and  inline g(); g(){..}  are external definitions (GLOBAL); a lone unused inline h(){..} is absent *)
Example C15_emit_inline_first_now_external : valid ex_inline_first = true /\ no_known_bad ex_inline_first = true /\
  map (fun n => symtab_of (emit o_default (parse_flags ex_inline_first)) n) [1; 2; 3]%nat =
    [Present (mkEntry B_global T_func P_text None None); Present (mkEntry B_global T_func P_text None None); Absent]
  /\ map (fun n => spec_entry (closure_live ex_inline_first) ex_inline_first o_default n) [1; 2; 3]%nat =
    [Some (mkEntry B_global T_func P_text None None); Some (mkEntry B_global T_func P_text None None); None].
Proof. exact inline_first_now_external. Qed.
Print Assumptions C15_emit_inline_first_now_external.

(* (6) the block-scope static of a static inline function that is never used is not placed (its label is not even defined) *)
Example C15_emit_dead_static_not_placed : valid ex_dead_static = true /\
  anon_placements (emit o_default (parse_flags ex_dead_static)) =
    [mkAnon P_data 3 1; mkAnon P_data 3 1; mkAnon P_data 3 1; mkAnon P_data 3 1; mkAnon P_data 3 1; mkAnon P_data 4 4]
  /\ spec_anon (closure_live ex_dead_static) ex_dead_static =
    [mkAnon P_data 3 1; mkAnon P_data 3 1; mkAnon P_data 3 1; mkAnon P_data 3 1; mkAnon P_data 3 1; mkAnon P_data 4 4]
  /\ sym_lookup (asm P_text None (emit o_default (parse_flags ex_dead_static))) (Anon 2) = Absent.
Proof. exact dead_static_not_placed. Qed.
Print Assumptions C15_emit_dead_static_not_placed.

(* repaired in /repo, formerly excluded (Update 2): the same witnesses, computed.
   (3) static inline x1, static inline x2, void *x3 = &x1;  -> x1 is a LOCAL function of the object file, x2 is not emitted *)
Example C15_emit_fun_addr_now_emitted : valid ex_fun_addr = true /\ no_known_bad ex_fun_addr = true /\
  symtab_of (emit o_default (parse_flags ex_fun_addr)) 1 = Present (mkEntry B_local T_func P_text None None)
  /\ symtab_of (emit o_default (parse_flags ex_fun_addr)) 2 = Absent
  /\ spec_entry (closure_live ex_fun_addr) ex_fun_addr o_default 1 = Some (mkEntry B_local T_func P_text None None)
  /\ spec_entry (closure_live ex_fun_addr) ex_fun_addr o_default 2 = None.
Proof. exact fun_addr_now_emitted. Qed.
Print Assumptions C15_emit_fun_addr_now_emitted.

(* (3') static inline x1(void);  void *x3 = &x1;  static inline x1(void) {..}  -> x1 is emitted *)
Example C15_emit_fun_addr2_now_emitted : valid ex_fun_addr2 = true /\ no_known_bad ex_fun_addr2 = true /\
  symtab_of (emit o_default (parse_flags ex_fun_addr2)) 1 = Present (mkEntry B_local T_func P_text None None)
  /\ spec_entry (closure_live ex_fun_addr2) ex_fun_addr2 o_default 1 = Some (mkEntry B_local T_func P_text None None).
Proof. exact fun_addr2_now_emitted. Qed.
Print Assumptions C15_emit_fun_addr2_now_emitted.

(* (4) block-scope static _Thread_local objects are placed in .tbss / .tdata, are STT_TLS, and are reached by the
   local-exec sequence without and the general-dynamic sequence with -fPIC *)
Example C15_emit_static_tls_local_now_tls : valid ex_static_tls = true /\
  anon_placements (emit o_default (parse_flags ex_static_tls)) = [mkAnon P_data 3 1; mkAnon P_data 3 1; mkAnon P_tbss 4 4; mkAnon P_tdata 4 4]
  /\ spec_anon (closure_live ex_static_tls) ex_static_tls = [mkAnon P_data 3 1; mkAnon P_data 3 1; mkAnon P_tbss 4 4; mkAnon P_tdata 4 4]
  /\ sym_lookup (asm P_text None (emit o_default (parse_flags ex_static_tls))) (Anon 2) = Present (mkEntry B_local T_tls P_tbss (Some 4%Z) (Some 4%Z))
  /\ existsb (fun d => match d with D_insn (I_add_tpoff (Anon 2)) => true | _ => false end) (emit (mkOpts true false) (parse_flags ex_static_tls)) = true
  /\ existsb (fun d => match d with D_insn (I_tlsgd (Anon 2)) => true | _ => false end) (emit (mkOpts true true) (parse_flags ex_static_tls)) = true.
Proof. exact static_tls_local_now_tls. Qed.
Print Assumptions C15_emit_static_tls_local_now_tls.

(* (5, formerly outside the model) _Alignas: the specifier of an earlier file-scope declaration of an object is carried to
   the later ones (82bbc19), so the emitted definition has the object's alignment (6.7.5: the strictest one declared) *)
Example C15_emit_alignas_carried : valid ex_alignas = true /\ no_known_bad ex_alignas = true /\
  map (fun n => symtab_of (emit o_default (parse_flags ex_alignas)) n) [1; 2; 4; 5]%nat =
  [ Present (mkEntry B_global T_object P_common (Some 4%Z) (Some 64%Z)); Present (mkEntry B_global T_object P_data (Some 4%Z) (Some 64%Z));
    Present (mkEntry B_global T_object P_data (Some 4%Z) (Some 64%Z)); Present (mkEntry B_global T_object P_common (Some 4%Z) (Some 64%Z)) ].
Proof. exact alignas_carried. Qed.
Print Assumptions C15_emit_alignas_carried.

(* non-vacuity: a 13-declaration unit with tentative pairs, static+extern, TLS, an array (alignment 16), a
   pointer initializer, live / dead static inline functions, an unused inline definition, a block-scope static
   and a string satisfies every hypothesis; its two tables (-fcommon, and -fno-common -fPIC) are computed *)
Example C15_emit_nonvacuous :
  valid demo = true /\ no_known_bad demo = true
  /\ symtab_of (emit (mkOpts true false) (parse_flags demo)) 1 = Present (mkEntry B_global T_object P_common (Some 4%Z) (Some 4%Z))
  /\ symtab_of (emit (mkOpts false true) (parse_flags demo)) 1 = Present (mkEntry B_global T_object P_bss (Some 4%Z) (Some 4%Z))
  /\ symtab_of (emit (mkOpts true false) (parse_flags demo)) 10 = Present (mkEntry B_local T_func P_text None None)
  /\ symtab_of (emit (mkOpts true false) (parse_flags demo)) 11 = Absent.
Proof. vm_compute. repeat split; reflexivity. Qed.
Print Assumptions C15_emit_nonvacuous.
