(* C01 - integer expressions have the C11 value and the C11 type.
   Only statements closed by [exact] + Print Assumptions live here. *)
From Coq Require Import ZArith Bool List.
From Chibicc Require Import Spec.C11Int Model.ConstFold Proofs.ConstFoldProofs
     Model.X86Int Model.CodegenInt Gen.CastTable Proofs.CastTableProofs Proofs.CodegenIntProofs
     Model.ExprGen Proofs.ExprGenProofs Model.ExprFlat Proofs.ExprFlatProofs.
Import ListNotations.
Local Open Scope Z_scope.

(* the size-based common type of type.c is the rank-based usual arithmetic conversion, and the
   type given to every expression tree is the C11 type (promotions of the operands of unary
   + - ~ and of shifts included) *)
Theorem C01_common_type : forall a b, m_common a b = uac a b.
Proof. exact m_common_is_uac. Qed.
Print Assumptions C01_common_type.
Theorem C01_typing : forall e, m_type e = type_of e.
Proof. exact m_type_is_c11. Qed.
Print Assumptions C01_typing.

(* every integer entry of the cast table regenerated from codegen.c (and the _Bool path),
   executed on a register holding any value of the source type, leaves the register
   representation of the C11-converted value: all 81 (from, to) pairs, all values *)
Theorem C01_cast_table : forall from to v s,
  in_range from v = true -> R from v (rax s) ->
  exists p s', gen_cast cast_table from to = Some p /\ exec p s = Some s' /\ R to (conv to v) (rax s').
Proof. exact cast_table_correct. Qed.
Print Assumptions C01_cast_table.

(* the instructions selected for + - * / % & | ^ compute the C11 result of the operands
   converted to the common type, for every operand value for which C11 defines it
   (no #DE, result in the representation of the result type) *)
Theorem C01_arith : forall o t a b s v,
  big t -> is_arith o = true -> in_range t a = true -> in_range t b = true ->
  R t a (rax s) -> R t b (rdi s) ->
  eval_bin_arith o t a b = Some v -> done s (gen_binop o t) t v.
Proof. exact arith_codegen_ok. Qed.
Print Assumptions C01_arith.

(* == != < <= (and > >= through the operand swap of the parser): signed/unsigned condition selection *)
Theorem C01_compare : forall t, big t -> forall a b s,
  in_range t a = true -> in_range t b = true -> R t a (rax s) -> R t b (rdi s) ->
  forall o, is_cmp o = true -> o <> OGt -> o <> OGe ->
  done s (gen_binop o t) I32 (eval_cmp o a b).
Proof. exact cmp_ok. Qed.
Print Assumptions C01_compare.

(* << >>: promoted left operand, count of any integer type, shl / shr / sar selection *)
Theorem C01_shift : forall o t a tn nv s v,
  big t -> is_shift o = true -> in_range t a = true -> in_range tn nv = true ->
  R t a (rax s) -> R tn nv (rdi s) ->
  eval_shift o t a nv = Some v -> done s (gen_binop o t) t v.
Proof. exact shift_codegen_ok. Qed.
Print Assumptions C01_shift.

Theorem C01_neg : forall t a s v, big t -> R t a (rax s) -> arith_result t (- a) = Some v -> done s (gen_unop Neg t) t v.
Proof. exact neg_codegen_ok. Qed.
Print Assumptions C01_neg.
Theorem C01_bitnot : forall t a s, big t -> R t a (rax s) -> done s (gen_unop BitNot t) t (conv t (Z.lnot a)).
Proof. exact not_codegen_ok. Qed.
Print Assumptions C01_bitnot.
Theorem C01_lognot : forall t a s, in_range t a = true -> R t a (rax s) -> done s (gen_unop LogNot t) I32 (b2z (a =? 0)).
Proof. exact lognot_codegen_ok. Qed.
Print Assumptions C01_lognot.

Example C01_nonvacuous :
  R U32 4294967295 4294967295 /\ in_range U32 4294967295 = true /\
  gen_cast cast_table U32 I64 = Some [IMovEaxEax] /\
  eval_bin_arith Div I32 (-7) 2 = Some (-3) /\ big I32 /\
  uac I8 U32 = U32 /\ uac I64 U32 = I64 /\ uac U64 I64 = U64.
Proof. unfold R, big. vm_compute. repeat split; auto; discriminate. Qed.
Print Assumptions C01_nonvacuous.

(* the whole tree: for EVERY integer expression - any nesting depth of unary + - ~ !, the ten
   arithmetic / bitwise / shift operators, the six comparisons, && || ?: , casts and commas over
   operands of the nine integer types - whose C11 value is defined, the code gen_expr composes
   (right operand first and pushed, left operand, pop into %rdi, the operator's instructions, the
   conversions add_type inserts, tests of %rax for && || ?:) started in ANY register state with ANY
   stack leaves the representation of exactly that C11 value (of the C11 type) in %rax and the
   stack as it found it *)
Theorem C01_expr_correct : forall e v, eval e = Some v ->
  forall s k, exists s', grun (compile e) (s, k) = Some (s', k) /\ R (type_of e) v (rax s').
Proof. exact compile_correct. Qed.
Print Assumptions C01_expr_correct.

(* non-vacuity: (1 + (-2L)) && (3u ? (signed char)300 : 18446744073709551615ul > 4) has the value 1, and its code runs *)
Definition demo_tree := Bin LAnd (Bin Add (Lit I32 1) (Un Neg (Lit I64 2)))
                                 (Cond (Lit U32 3) (Cast I8 (Lit I32 300)) (Bin OGt (Lit U64 18446744073709551615) (Lit I32 4))).
Example C01_expr_nonvacuous : eval demo_tree = Some 1 /\
  option_map (fun st => (rax (fst st), snd st)) (grun (compile demo_tree) ({| rax := 77; rdi := 78; rdx := 79; rcx := 80; f_zf := false; f_cf := true; f_lt := false |}, [5; 6])) = Some (1, [5; 6]).
Proof. split; vm_compute; reflexivity. Qed.
Print Assumptions C01_expr_nonvacuous.

(* ... and so does the jump-level code gen_expr actually prints (labels of && || ?: as positions),
   placed anywhere in a larger program *)
Theorem C01_expr_code_correct : forall e v, eval e = Some v ->
  forall P p, fembedded P p (gflatten (compile e) p) ->
  forall s k, exists s', fstar P (p, (s, k)) ((p + fsize (compile e))%nat, (s', k)) /\ R (type_of e) v (rax s').
Proof. exact expr_code_correct. Qed.
Print Assumptions C01_expr_code_correct.
