(* C04 - every lvalue designates exactly its object's bytes and bits.  Statements only. *)
From Chibicc Require Import Base.Mach Model.Bitfield Proofs.BitfieldProofs Model.Layout Proofs.LayoutProofs.
Local Open Scope Z_scope.

(* bit-fields of any width and position inside a storage unit of up to 64 bits: the instruction
   sequences of codegen.c, for ALL previous unit contents u and ALL stored values v *)
Theorem C04_bitfield_read_back_unsigned : forall u v off w, 0 <= off -> 0 < w -> off + w <= 64 ->
  bf_load_u (bf_store u v off w) off w = Z.land v (Z.ones w).
Proof. exact store_then_load_u. Qed.
Print Assumptions C04_bitfield_read_back_unsigned.

(* signed: bit i of the value read back is bit i of v below the width and the field's sign bit above *)
Theorem C04_bitfield_read_back_signed : forall u v off w i, 0 <= off -> 0 < w -> off + w <= 64 -> 0 <= i ->
  Z.testbit (bf_load_s (bf_store u v off w) off w) i = Z.testbit v (if i <? w then i else w - 1).
Proof. exact store_then_load_s. Qed.
Print Assumptions C04_bitfield_read_back_signed.

(* no other bit of the unit changes, so no neighbouring bit-field (signed or unsigned) is disturbed *)
Theorem C04_bitfield_other_bits_kept : forall u v off w i, 0 <= off -> 0 < w -> off + w <= 64 -> 0 <= i < 64 -> i < off \/ off + w <= i ->
  Z.testbit (bf_store u v off w) i = Z.testbit u i.
Proof. exact store_keeps_other_bits. Qed.
Print Assumptions C04_bitfield_other_bits_kept.

Theorem C04_bitfield_neighbours : forall u v off w off2 w2, 0 <= off -> 0 < w -> off + w <= 64 -> 0 <= off2 -> 0 < w2 -> off2 + w2 <= 64 ->
  off2 + w2 <= off \/ off + w <= off2 ->
  bf_load_u (bf_store u v off w) off2 w2 = bf_load_u u off2 w2 /\ bf_load_s (bf_store u v off w) off2 w2 = bf_load_s u off2 w2.
Proof. intros. split; [apply store_frame_u|apply store_frame_s]; assumption. Qed.
Print Assumptions C04_bitfield_neighbours.

(* the store writes only the bytes of the unit *)
Theorem C04_unit_write : forall size reg i, 0 <= size -> 0 <= i -> Z.testbit (unit_write size reg) i = Z.testbit reg i && (i <? 8 * size).
Proof. exact unit_write_bits. Qed.
Print Assumptions C04_unit_write.

(* element addresses are exact for every index inside an object (no 32-bit intermediate) *)
Theorem C04_element_address : forall base idx size, 0 <= base -> 0 <= idx -> 0 <= size -> base + idx * size < 2 ^ 63 ->
  elem_addr base idx size = base + idx * size.
Proof. exact elem_addr_exact. Qed.
Print Assumptions C04_element_address.

(* non-vacuity: a signed 5-bit field at bit 3 of a unit holding 0xFFFF *)
Example C04_nonvacuous : bf_store 65535 (-3) 3 5 = 65519 + 0 /\ bf_load_s (bf_store 65535 (-3) 3 5) 3 5 = -3 /\ bf_load_u (bf_store 65535 (-3) 3 5) 0 3 = 7.
Proof. vm_compute. repeat split. Qed.
Print Assumptions C04_nonvacuous.
