(* C02 - floating-point arithmetic and conversions are bit-exact.  Statements only. *)
From Chibicc Require Import Base.Mach Model.FloatConv Model.FloatRows Gen.CastTable Proofs.FloatConvProofs.
Local Open Scope Z_scope.

(* unsigned long -> double / float for values with the top bit set: converting the halved value
   with its sticky bit (what cvtsi2sd/cvtsi2ss, round-to-nearest-even at 53/24 bits, are given) and
   doubling the result IS the correctly rounded conversion of x, for EVERY x in [2^63, 2^64) *)
Theorem C02_u64_halving_is_rne_f64 : forall x, 2 ^ 63 <= x < 2 ^ 64 -> 2 * rne (halve_sticky x) 10 = rne x 11.
Proof. exact halving_is_rne_f64. Qed.
Print Assumptions C02_u64_halving_is_rne_f64.

Theorem C02_u64_halving_is_rne_f32 : forall x, 2 ^ 63 <= x < 2 ^ 64 -> 2 * rne (halve_sticky x) 39 = rne x 40.
Proof. exact halving_is_rne_f32. Qed.
Print Assumptions C02_u64_halving_is_rne_f32.

(* dropping the sticky bit double-rounds *)
Theorem C02_sticky_bit_needed : 2 * rne (halve_plain (2 ^ 63 + 1025)) 10 <> rne (2 ^ 63 + 1025) 11.
Proof. exact sticky_bit_needed. Qed.
Print Assumptions C02_sticky_bit_needed.

(* every row of cast_table[][] in codegen.c (regenerated on this run) is the reviewed instruction sequence *)
Theorem C02_fp_rows_correct : list_eqb (list_eqb cell_eqb) cast_table expected_cast_table = true.
Proof. exact fp_rows_as_reviewed. Qed.
Print Assumptions C02_fp_rows_correct.

Example C02_nonvacuous : rne (2 ^ 63 + 1025) 11 = 2 ^ 63 + 2048 /\ 2 * rne (halve_sticky (2 ^ 63 + 1025)) 10 = 2 ^ 63 + 2048 /\ rne (2 ^ 63 + 1024) 11 = 2 ^ 63.
Proof. vm_compute. repeat split. Qed.
Print Assumptions C02_nonvacuous.
