(* C08, package decl - declarators build exactly the C11 6.7.6 type, with psABI size and alignment.
   Only statements closed by [exact] + Print Assumptions live here.
   Spec: Spec/DeclSpec6_7_6.v (syntax, written form, derived-declarator-type-list, adjustment, sizeof/_Alignof, the
   implementation limit [oversize]).
   Model: Model/Declarator.v (parse.c AS REPAIRED by fbdf355, 8507b9f, 053b61b: pointers, declarator, abstract_declarator,
   type_suffix, array_dimensions, func_params, typename; type.c: pointer_to, array_of, func_type).
   [c11_ok]: the declarator is C11 syntax (no empty parentheses, no suffix behind a parameter list, bounds >= 0,
   void only as `(void)`).  Update 2: the former [chibicc_ok] (no parameter list behind an omitted identifier, bounds
   < 2^31) and [fits] (sizes < 2^31) are gone - the first is parsed correctly now, the other two became the located
   diagnostic "array too large" ([TooLarge]), an implementation limit (C11 5.2.4.1).
   [stops rest]: the declarator is followed by "," ")" an uninvolved token or nothing. *)
From Coq Require Import List ZArith Bool.
From Chibicc Require Import Spec.DeclSyntax Spec.DeclSpec6_7_6 Model.Declarator
     Proofs.DeclaratorParse Proofs.DeclaratorTypes Proofs.DeclaratorSizes Proofs.DeclaratorRefute
     Proofs.DeclaratorUnparse Proofs.DeclaratorDummy Model.Layout.
Import ListNotations.
Local Open Scope Z_scope.

(* declarator() run on the written form of ANY declarator (pointers with qualifiers, parentheses, arrays,
   functions with parameter lists, nested to any depth, identifier present or omitted), applied to any start
   type, either reports "array too large" or consumes exactly the declarator, returns its identifier and builds the
   type that C11 6.7.6 assigns to that identifier (qualifiers, which chibicc does not represent, erased).  The
   two-pass treatment of parenthesised declarators therefore nests every derivation in the right order. *)
Theorem C08_decl_declarator_is_c11 : forall d m T rest,
  c11_ok d = true -> stops rest -> shape m = unqual T ->
  parse_declarator (print_decl d ++ rest) m = TooLarge \/
  exists m', parse_declarator (print_decl d ++ rest) m = Ok (name_of d, m', rest) /\
             shape m' = unqual (type_of T d).
Proof. exact declarator_is_c11. Qed.
Print Assumptions C08_decl_declarator_is_c11.

(* the exact result of declarator(), for every amount of fuel above an explicit bound: the Type graph [m_apply],
   unless one of the "array too large" tests performed on the way ([chk], dummy passes included) fires *)
Theorem C08_decl_declarator_exact : forall d, c11_ok d = true ->
  forall fuel ty rest, stops rest -> (cost d <= fuel)%nat ->
    declarator fuel (print_decl d ++ rest) ty
    = if chk d ty then Ok (name_of d, m_apply d ty, rest) else TooLarge.
Proof. exact declarator_print. Qed.
Print Assumptions C08_decl_declarator_exact.

(* abstract_declarator() - casts, sizeof(type-name), _Alignof, compound literals - does the same for every
   declarator without identifier *)
Theorem C08_decl_abstract_declarator_is_c11 : forall d m T rest,
  c11_ok d = true -> name_of d = None -> stops rest -> shape m = unqual T ->
  parse_abstract (print_decl d ++ rest) m = TooLarge \/
  exists m', parse_abstract (print_decl d ++ rest) m = Ok (m', rest) /\
             shape m' = unqual (type_of T d).
Proof. exact abstract_declarator_is_c11. Qed.
Print Assumptions C08_decl_abstract_declarator_is_c11.

(* typename(): specifiers + abstract declarator give the type named by the type name (6.7.7p2) *)
Theorem C08_decl_typename_is_c11 : forall b d rest,
  c11_ok d = true -> name_of d = None -> stops rest ->
  parse_typename (TBase b :: print_decl d ++ rest) = TooLarge \/
  exists m', parse_typename (TBase b :: print_decl d ++ rest) = Ok (m', rest) /\
             shape m' = unqual (type_of (TLeaf b) d).
Proof. exact typename_is_c11. Qed.
Print Assumptions C08_decl_typename_is_c11.

(* func_params(): `()` has no prototype, `(void)` has no parameters, otherwise every parameter - named or not -
   gets the type of its own declarator ADJUSTED per 6.7.6.3p7-8 (array of T -> pointer to T, function -> pointer
   to function), and `, ...` makes the function variadic *)
Theorem C08_decl_func_params_adjusted : forall ps ret rest,
  c11_ok_params ps = true ->
  func_params (cost_params ps) (print_params ps ++ TRParen :: rest) ret = TooLarge \/
  exists pl v, func_params (cost_params ps) (print_params ps ++ TRParen :: rest) ret = Ok (MFunc ret pl v, rest) /\
    map (fun p => shape (snd p)) pl = map unqual (param_types ps) /\
    fkind_of (is_nil pl) v = kind_of ps.
Proof. exact func_params_is_c11. Qed.
Print Assumptions C08_decl_func_params_adjusted.

(* NO hypothesis on sizes any more: declarator() either reports "array too large", or ty->align and ty->size of the
   declared type are the psABI numbers (pointer 8, array n * element for any number of dimensions); an array of
   unknown bound stores minus the element size, chibicc's mark of an incomplete type *)
Theorem C08_decl_size_align_is_psabi : forall d b rest,
  c11_ok d = true -> leaf_in_range b = true -> stops rest ->
  let t := type_of (TLeaf b) d in
  parse_declarator (print_decl d ++ rest) (MBase b) = TooLarge \/
  exists m, parse_declarator (print_decl d ++ rest) (MBase b) = Ok (name_of d, m, rest) /\
    shape m = unqual t /\
    (forall a, alignof t = Some a -> ty_align m = a) /\
    (forall s, sizeof t = Some s -> ty_size m = s) /\
    (forall e s, t = TArr None e -> sizeof e = Some s -> ty_size m = - s).
Proof. exact declarator_size_align. Qed.
Print Assumptions C08_decl_size_align_is_psabi.

(* ... and it reports "array too large" EXACTLY when some array derivation written in the declarator (parameters
   included, before adjustment) needs more than INT32_MAX bytes, where every array has a complete element type
   (6.7.6.2p1): never for a smaller declarator - the dummy pass cannot fire alone -, always for a bigger one *)
Theorem C08_decl_too_large_exact : forall d b rest,
  c11_ok d = true -> leaf_in_range b = true -> elems_ok d (TLeaf b) = true -> stops rest ->
  (parse_declarator (print_decl d ++ rest) (MBase b) = TooLarge <-> oversize d (TLeaf b) = true).
Proof. exact too_large_exact. Qed.
Print Assumptions C08_decl_too_large_exact.

(* both in one: beyond the limit the diagnostic, within it the C11 type with the psABI numbers *)
Theorem C08_decl_size_or_too_large : forall d b rest,
  c11_ok d = true -> leaf_in_range b = true -> elems_ok d (TLeaf b) = true -> stops rest ->
  let t := type_of (TLeaf b) d in
  if oversize d (TLeaf b)
  then parse_declarator (print_decl d ++ rest) (MBase b) = TooLarge
  else exists m, parse_declarator (print_decl d ++ rest) (MBase b) = Ok (name_of d, m, rest) /\
         shape m = unqual t /\
         (forall a, alignof t = Some a -> ty_align m = a) /\
         (forall s, sizeof t = Some s -> ty_size m = s) /\
         (forall e s, t = TArr None e -> sizeof e = Some s -> ty_size m = - s).
Proof. exact declarator_size_or_too_large. Qed.
Print Assumptions C08_decl_size_or_too_large.

Theorem C08_decl_typename_size_or_too_large : forall d b rest,
  c11_ok d = true -> name_of d = None -> leaf_in_range b = true -> elems_ok d (TLeaf b) = true -> stops rest ->
  let t := type_of (TLeaf b) d in
  if oversize d (TLeaf b)
  then parse_typename (TBase b :: print_decl d ++ rest) = TooLarge
  else exists m, parse_typename (TBase b :: print_decl d ++ rest) = Ok (m, rest) /\
         shape m = unqual t /\
         (forall a, alignof t = Some a -> ty_align m = a) /\
         (forall s, sizeof t = Some s -> ty_size m = s).
Proof. exact typename_size_or_too_large. Qed.
Print Assumptions C08_decl_typename_size_or_too_large.

(* the same starting from any type whose stored numbers are right (a typedef, a struct laid out by Model/Layout.v) *)
Theorem C08_decl_size_align_any_base : forall d m, c11_ok d = true -> chk d m = true ->
  size_ok m -> align_ok m -> size_ok (m_apply d m) /\ align_ok (m_apply d m).
Proof. exact m_apply_size_align. Qed.
Print Assumptions C08_decl_size_align_any_base.

(* if the real pass over a declarator passes every "array too large" test, so does the pass with the dummy type *)
Theorem C08_decl_dummy_pass_never_fires_alone : forall d m, chk d m = true -> chk d dummy = true.
Proof. exact chk_dummy. Qed.
Print Assumptions C08_decl_dummy_pass_never_fires_alone.

(* `static` and type qualifiers behind "[" are skipped, in any number and order, and change nothing *)
Theorem C08_decl_static_quals_ignored : forall fuel sr toks ty,
  all_static_quals sr = true ->
  array_dimensions fuel (sr ++ toks) ty = array_dimensions fuel toks ty.
Proof. exact static_quals_ignored. Qed.
Print Assumptions C08_decl_static_quals_ignored.

(* unparse / parse: every valid C11 type (no arrays of functions, no functions returning arrays or functions,
   adjusted non-void parameter types), written as base type + declarator the usual way, is C11 syntax whose standard
   derivation gives the type back ... *)
Theorem C08_decl_every_type_has_a_declarator : forall t x,
  valid_ty t = true ->
  let bd := declarator_of t x in
  c11_ok (snd bd) = true /\ name_of (snd bd) = x /\
  type_of (TLeaf (fst bd)) (snd bd) = t.
Proof. exact declarator_of_roundtrip. Qed.
Print Assumptions C08_decl_every_type_has_a_declarator.

(* ... and parse.c, run on that text, rebuilds exactly this type (declarations and type names) or reports the limit *)
Theorem C08_decl_unparse_parse : forall t x rest,
  valid_ty t = true -> stops rest ->
  let bd := declarator_of t x in
  parse_declarator (print_decl (snd bd) ++ rest) (MBase (fst bd)) = TooLarge \/
  exists m, parse_declarator (print_decl (snd bd) ++ rest) (MBase (fst bd)) = Ok (x, m, rest) /\
            shape m = unqual t.
Proof. exact unparse_parse. Qed.
Print Assumptions C08_decl_unparse_parse.

Theorem C08_decl_unparse_parse_typename : forall t rest,
  valid_ty t = true -> stops rest ->
  let bd := declarator_of t None in
  parse_typename (TBase (fst bd) :: print_decl (snd bd) ++ rest) = TooLarge \/
  exists m, parse_typename (TBase (fst bd) :: print_decl (snd bd) ++ rest) = Ok (m, rest) /\
            shape m = unqual t.
Proof. exact unparse_parse_typename. Qed.
Print Assumptions C08_decl_unparse_parse_typename.

(* the two-pass trick is sound on EVERY token list: which tokens declarator() consumes, which identifier it finds
   and how it fails do not depend on the type handed in - unless one of the two runs reports "array too large" -,
   so the pass with the dummy type stops exactly where the real pass does (no assumption on the tokens; also for
   type_suffix, array_dimensions, func_params) *)
Theorem C08_decl_dummy_pass_sound : forall f toks ty,
  sim_d (declarator f toks dummy) (declarator f toks ty).
Proof. exact dummy_pass_sound. Qed.
Print Assumptions C08_decl_dummy_pass_sound.

Theorem C08_decl_abstract_dummy_pass_sound : forall f toks ty ty',
  sim_s (abstract_declarator f toks ty) (abstract_declarator f toks ty').
Proof. exact abstract_independent_of_type. Qed.
Print Assumptions C08_decl_abstract_dummy_pass_sound.

(* ---- the inputs on which the first version of this package refuted parse.c, on the model of the repaired code ---- *)

(* `int ()` with the identifier omitted (an unnamed parameter of function type) is a function now (was: int) *)
Theorem C08_decl_abstract_func_repaired :
  c11_ok d_unspec = true /\ name_of d_unspec = None /\
  (exists m, parse_declarator (print_decl d_unspec ++ [TRParen]) (MBase LInt) = Ok (None, m, [TRParen]) /\
             parse_abstract (print_decl d_unspec ++ [TRParen]) (MBase LInt) = Ok (m, [TRParen]) /\
             shape m = unqual (type_of (TLeaf LInt) d_unspec)) /\
  type_of (TLeaf LInt) d_unspec = TFun (TLeaf LInt) [] FNoProto.
Proof. exact abstract_func_repaired. Qed.
Print Assumptions C08_decl_abstract_func_repaired.

(* void g(int ()) : the parameter is int ( * )() *)
Theorem C08_decl_param_abstract_func_repaired :
  c11_ok d_g_unspec = true /\
  (exists m, parse_declarator (print_decl d_g_unspec ++ [TOther]) (MBase LVoid) = Ok (Some 0%nat, m, [TOther]) /\
     shape m = unqual (type_of (TLeaf LVoid) d_g_unspec)) /\
  type_of (TLeaf LVoid) d_g_unspec = TFun (TLeaf LVoid) [TPtr [] (TFun (TLeaf LInt) [] FNoProto)] FProto.
Proof. exact param_abstract_func_repaired. Qed.
Print Assumptions C08_decl_param_abstract_func_repaired.

(* `int (int)` / `int (void)` with the identifier omitted are accepted (were rejected) *)
Theorem C08_decl_abstract_proto_accepted :
  let d1 := DDirect (DFunc (DIdent None) (PList (POne (Param LInt abs0)) false)) in
  let d2 := DDirect (DFunc (DIdent None) PVoid) in
  c11_ok d1 = true /\ c11_ok d2 = true /\
  parse_declarator (print_decl d1 ++ [TRParen]) (MBase LInt)
    = Ok (None, MFunc (MBase LInt) [(None, MBase LInt)] false, [TRParen]) /\
  parse_declarator (print_decl d2 ++ [TRParen]) (MBase LInt) = Ok (None, MFunc (MBase LInt) [] false, [TRParen]) /\
  parse_abstract (print_decl d1 ++ [TRParen]) (MBase LInt)
    = Ok (MFunc (MBase LInt) [(None, MBase LInt)] false, [TRParen]).
Proof. exact abstract_proto_accepted. Qed.
Print Assumptions C08_decl_abstract_proto_accepted.

(* char[4294967299] (was char[3]), char x[2147483648] (was size -2147483648), int[70000][70000] (was -1874836480)
   are rejected as too large *)
Theorem C08_decl_big_arrays_rejected :
  let d1 := DDirect (DArray (DIdent None) (Some 4294967299)) in
  let d2 := DDirect (DArray (DIdent (Some 1%nat)) (Some 2147483648)) in
  let d3 := DDirect (DArray (DArray (DIdent None) (Some 70000)) (Some 70000)) in
  parse_declarator (print_decl d1 ++ [TOther]) (MBase LChar) = TooLarge /\ oversize d1 (TLeaf LChar) = true /\
  parse_declarator (print_decl d2 ++ [TOther]) (MBase LChar) = TooLarge /\ oversize d2 (TLeaf LChar) = true /\
  parse_declarator (print_decl d3 ++ [TOther]) (MBase LInt) = TooLarge /\ oversize d3 (TLeaf LInt) = true /\
  sizeof (type_of (TLeaf LInt) d3) = Some 19600000000.
Proof. exact big_arrays_rejected. Qed.
Print Assumptions C08_decl_big_arrays_rejected.

(* the limit is sharp: char[2147483647] and int[536870911] are accepted with the right size, int[536870912] is not;
   a parameter's array is tested before its adjustment; a zero-sized element counts as one byte *)
Theorem C08_decl_limit_is_sharp :
  parse_declarator (print_decl (DDirect (DArray (DIdent None) (Some 2147483647))) ++ [TOther]) (MBase LChar)
    = Ok (None, MArr (MBase LChar) 2147483647 2147483647 1, [TOther]) /\
  parse_declarator (print_decl (DDirect (DArray (DIdent None) (Some 536870911))) ++ [TOther]) (MBase LInt)
    = Ok (None, MArr (MBase LInt) 536870911 2147483644 4, [TOther]) /\
  parse_declarator (print_decl (DDirect (DArray (DIdent None) (Some 536870912))) ++ [TOther]) (MBase LInt) = TooLarge /\
  parse_declarator (print_decl (DDirect (DFunc (DIdent (Some 0%nat))
       (PList (POne (Param LInt (DDirect (DArray (DIdent (Some 1%nat)) (Some 3000000000))))) false))) ++ [TOther]) (MBase LVoid)
    = TooLarge /\
  parse_declarator (print_decl (DDirect (DArray (DIdent None) (Some 3000000000))) ++ [TOther]) (MBase (LAgg 0 1)) = TooLarge /\
  oversize (DDirect (DArray (DIdent None) (Some 3000000000))) (TLeaf (LAgg 0 1)) = true.
Proof. exact limit_is_sharp. Qed.
Print Assumptions C08_decl_limit_is_sharp.

(* ---- non-vacuity: int ( * ( * const x[3])(int, char *p1[]))[5], and the type name  struct{16,8} ( *[2])[7] ---- *)
Definition ex_d : decl :=
  DDirect (DArray (DParen (DPtr [] (DDirect (DFunc
    (DParen (DPtr [QConst] (DDirect (DArray (DIdent (Some 7%nat)) (Some 3)))))
    (PList (PCons (Param LInt (DDirect (DIdent None))) (POne (Param LChar (DPtr [] (DDirect (DArray (DIdent (Some 1%nat)) None)))))) false)))))
    (Some 5)).

Example C08_decl_nonvacuous :
  c11_ok ex_d = true /\ elems_ok ex_d (TLeaf LInt) = true /\ oversize ex_d (TLeaf LInt) = false /\
  chk ex_d (MBase LInt) = true /\
  type_of (TLeaf LInt) ex_d
  = TArr (Some 3) (TPtr [QConst] (TFun (TPtr [] (TArr (Some 5) (TLeaf LInt)))
                                       [TLeaf LInt; TPtr [] (TPtr [] (TLeaf LChar))] FProto)) /\
  sizeof (type_of (TLeaf LInt) ex_d) = Some 24 /\ alignof (type_of (TLeaf LInt) ex_d) = Some 8 /\
  parse_declarator (print_decl ex_d ++ [TOther]) (MBase LInt)
  = Ok (Some 7%nat,
        MArr (MPtr (MFunc (MPtr (MArr (MBase LInt) 5 20 4))
                          [(None, MBase LInt); (Some 1%nat, MPtr (MPtr (MBase LChar)))] false)) 3 24 8,
        [TOther]).
Proof. vm_compute. repeat split; reflexivity. Qed.
Print Assumptions C08_decl_nonvacuous.

Example C08_decl_nonvacuous_typename :
  let d := DPtr [] (DDirect (DArray (DParen (DPtr [] (DDirect (DArray (DIdent None) (Some 2))))) (Some 7))) in
  c11_ok d = true /\ name_of d = None /\ elems_ok d (TLeaf (LAgg 16 8)) = true /\ oversize d (TLeaf (LAgg 16 8)) = false /\
  type_of (TLeaf (LAgg 16 8)) d = TArr (Some 2) (TPtr [] (TArr (Some 7) (TPtr [] (TLeaf (LAgg 16 8))))) /\
  sizeof (type_of (TLeaf (LAgg 16 8)) d) = Some 16 /\
  sizeof (TArr (Some 7) (TPtr [] (TLeaf (LAgg 16 8)))) = Some 56 /\
  parse_typename (TBase (LAgg 16 8) :: print_decl d ++ [TRParen])
  = Ok (MArr (MPtr (MArr (MPtr (MBase (LAgg 16 8))) 7 56 8)) 2 16 8, [TRParen]).
Proof. vm_compute. repeat split; reflexivity. Qed.
Print Assumptions C08_decl_nonvacuous_typename.

Example C08_decl_nonvacuous_unparse :
  let t := TArr (Some 3) (TPtr [QConst] (TFun (TPtr [] (TArr (Some 5) (TLeaf LInt)))
                                              [TLeaf LInt; TPtr [] (TPtr [] (TLeaf LChar))] FVariadic)) in
  valid_ty t = true /\
  print_decl (snd (declarator_of t (Some 7%nat)))
  = [TLParen; TStar; TLParen; TStar; TQual QConst; TIdent 7%nat; TLBrack; TNum 3; TRBrack; TRParen;
     TLParen; TBase LInt; TComma; TBase LChar; TStar; TStar; TComma; TEllipsis; TRParen; TRParen;
     TLBrack; TNum 5; TRBrack] /\
  fst (declarator_of t (Some 7%nat)) = LInt /\
  (* a function type without identifier: int ( * )(void) inside, int (int) outside *)
  print_decl (snd (declarator_of (TFun (TLeaf LInt) [TLeaf LInt] FProto) None)) = [TLParen; TBase LInt; TRParen].
Proof. vm_compute. repeat split; reflexivity. Qed.
Print Assumptions C08_decl_nonvacuous_unparse.

(* with the other half of C08: struct S { char c; long l; } as laid out by Model/Layout.v (size 16, alignment 8)
   is the base type of  struct S ( *x[2])[3]  : x is 16 bytes, *x[0] is 48 bytes, alignment 8 throughout *)
Example C08_decl_nonvacuous_with_layout :
  let L := struct_layout false 1 [ {| m_size := 1; m_align := 1; m_bf := None; m_named := true |};
                                   {| m_size := 8; m_align := 8; m_bf := None; m_named := true |} ] in
  let S := LAgg (Z.of_N (l_size L)) (Z.of_N (l_align L)) in
  let d := DDirect (DArray (DParen (DPtr [] (DDirect (DArray (DIdent (Some 0%nat)) (Some 2))))) (Some 3)) in
  S = LAgg 16 8 /\ c11_ok d = true /\ leaf_in_range S = true /\ elems_ok d (TLeaf S) = true /\
  oversize d (TLeaf S) = false /\
  sizeof (type_of (TLeaf S) d) = Some 16 /\
  parse_declarator (print_decl d ++ [TOther]) (MBase S)
  = Ok (Some 0%nat, MArr (MPtr (MArr (MBase (LAgg 16 8)) 3 48 8)) 2 16 8, [TOther]).
Proof. vm_compute. repeat split; reflexivity. Qed.
Print Assumptions C08_decl_nonvacuous_with_layout.
