(* C08, package decl - declarators build exactly the C11 6.7.6 type, with psABI size and alignment.
   Only statements closed by [exact] + Print Assumptions live here.
   Spec: Spec/DeclSpec6_7_6.v (syntax, written form, derived-declarator-type-list, adjustment, sizeof/_Alignof).
   Model: Model/Declarator.v (parse.c: pointers, declarator, abstract_declarator, type_suffix, array_dimensions,
   func_params, typename; type.c: pointer_to, array_of, func_type).
   [c11_ok]: the declarator is C11 syntax (no empty parentheses, no suffix behind a parameter list, bounds >= 0,
   void only as `(void)`).  [chibicc_ok]: no parameter list directly behind an omitted identifier, bounds < 2^31.
   [stops rest]: the declarator is followed by "," ")" an uninvolved token or nothing. *)
From Coq Require Import List ZArith Bool.
From Chibicc Require Import Spec.DeclSyntax Spec.DeclSpec6_7_6 Model.Declarator
     Proofs.DeclaratorParse Proofs.DeclaratorTypes Proofs.DeclaratorSizes Proofs.DeclaratorRefute
     Proofs.DeclaratorUnparse Proofs.DeclaratorDummy Model.Layout.
Import ListNotations.
Local Open Scope Z_scope.

(* declarator() run on the written form of ANY declarator (pointers with qualifiers, parentheses, arrays,
   functions with parameter lists, nested to any depth, identifier present or omitted), applied to any start
   type, consumes exactly the declarator, returns its identifier and builds the type that C11 6.7.6 assigns to
   that identifier (qualifiers, which chibicc does not represent, erased).  The two-pass treatment of
   parenthesised declarators therefore nests every derivation in the right order. *)
Theorem C08_decl_declarator_is_c11 : forall d m T rest,
  c11_ok d = true -> chibicc_ok d = true -> stops rest -> shape m = unqual T ->
  exists m', parse_declarator (print_decl d ++ rest) m = Ok (name_of d, m', rest) /\
             shape m' = unqual (type_of T d).
Proof. exact declarator_is_c11. Qed.
Print Assumptions C08_decl_declarator_is_c11.

(* the exact C `Type` graph declarator() returns, for every amount of fuel above an explicit bound *)
Theorem C08_decl_declarator_exact : forall d, c11_ok d = true -> chibicc_ok d = true ->
  forall fuel ty rest, stops rest -> (cost d <= fuel)%nat ->
    declarator fuel (print_decl d ++ rest) ty = Ok (name_of d, m_apply d ty, rest).
Proof. exact declarator_print. Qed.
Print Assumptions C08_decl_declarator_exact.

(* abstract_declarator() - casts, sizeof(type-name), _Alignof, compound literals - does the same for every
   declarator without identifier *)
Theorem C08_decl_abstract_declarator_is_c11 : forall d m T rest,
  c11_ok d = true -> chibicc_ok d = true -> name_of d = None -> stops rest -> shape m = unqual T ->
  exists m', parse_abstract (print_decl d ++ rest) m = Ok (m', rest) /\
             shape m' = unqual (type_of T d).
Proof. exact abstract_declarator_is_c11. Qed.
Print Assumptions C08_decl_abstract_declarator_is_c11.

(* typename(): specifiers + abstract declarator give the type named by the type name (6.7.7p2) *)
Theorem C08_decl_typename_is_c11 : forall b d rest,
  c11_ok d = true -> chibicc_ok d = true -> name_of d = None -> stops rest ->
  exists m', parse_typename (TBase b :: print_decl d ++ rest) = Ok (m', rest) /\
             shape m' = unqual (type_of (TLeaf b) d).
Proof. exact typename_is_c11. Qed.
Print Assumptions C08_decl_typename_is_c11.

(* func_params(): `()` has no prototype, `(void)` has no parameters, otherwise every parameter - named or not -
   gets the type of its own declarator ADJUSTED per 6.7.6.3p7-8 (array of T -> pointer to T, function -> pointer
   to function), and `, ...` makes the function variadic *)
Theorem C08_decl_func_params_adjusted : forall ps ret rest,
  c11_ok_params ps = true -> chibicc_ok_params ps = true ->
  exists pl v, func_params (cost_params ps) (print_params ps ++ TRParen :: rest) ret = Ok (MFunc ret pl v, rest) /\
    map (fun p => shape (snd p)) pl = map unqual (param_types ps) /\
    fkind_of (is_nil pl) v = kind_of ps.
Proof. exact func_params_is_c11. Qed.
Print Assumptions C08_decl_func_params_adjusted.

(* ty->align of the declared type is the psABI alignment; ty->size is the psABI size whenever every object along
   the array spine is smaller than 2^31 bytes (pointer 8, array n * element for any number of dimensions);
   an array of unknown bound stores minus the element size, chibicc's mark of an incomplete type *)
Theorem C08_decl_size_align_is_psabi : forall d b rest,
  c11_ok d = true -> chibicc_ok d = true -> stops rest ->
  let t := type_of (TLeaf b) d in
  exists m, parse_declarator (print_decl d ++ rest) (MBase b) = Ok (name_of d, m, rest) /\
    shape m = unqual t /\
    (forall a, alignof t = Some a -> ty_align m = a) /\
    (fits t = true ->
       (forall s, sizeof t = Some s -> ty_size m = s) /\
       (forall e s, t = TArr None e -> sizeof e = Some s -> ty_size m = - s)).
Proof. exact declarator_size_align. Qed.
Print Assumptions C08_decl_size_align_is_psabi.

(* the same starting from any type whose stored numbers are right (a typedef, a struct laid out by Model/Layout.v) *)
Theorem C08_decl_size_align_any_base : forall d m, c11_ok d = true -> chibicc_ok d = true ->
  size_ok m -> align_ok m -> size_ok (m_apply d m) /\ align_ok (m_apply d m).
Proof. exact m_apply_size_align. Qed.
Print Assumptions C08_decl_size_align_any_base.

(* `static` / `restrict` behind "[" are skipped and change nothing *)
Theorem C08_decl_static_restrict_ignored : forall fuel sr toks ty,
  all_static_restrict sr = true ->
  array_dimensions fuel (sr ++ toks) ty = array_dimensions fuel toks ty.
Proof. exact static_restrict_ignored. Qed.
Print Assumptions C08_decl_static_restrict_ignored.

(* unparse / parse: every valid C11 type (no arrays of functions, no functions returning arrays or functions,
   adjusted non-void parameter types, bounds < 2^31; not a function type if the identifier is omitted), written
   as base type + declarator the usual way, is C11 syntax whose standard derivation gives the type back ... *)
Theorem C08_decl_every_type_has_a_declarator : forall t x,
  valid_ty t = true -> small t = true -> (x = None -> is_fun t = false) ->
  let bd := declarator_of t x in
  c11_ok (snd bd) = true /\ chibicc_ok (snd bd) = true /\ name_of (snd bd) = x /\
  type_of (TLeaf (fst bd)) (snd bd) = t.
Proof. exact declarator_of_roundtrip. Qed.
Print Assumptions C08_decl_every_type_has_a_declarator.

(* ... and parse.c, run on that text, rebuilds exactly this type (declarations and type names) *)
Theorem C08_decl_unparse_parse : forall t x rest,
  valid_ty t = true -> small t = true -> (x = None -> is_fun t = false) -> stops rest ->
  let bd := declarator_of t x in
  exists m, parse_declarator (print_decl (snd bd) ++ rest) (MBase (fst bd)) = Ok (x, m, rest) /\
            shape m = unqual t.
Proof. exact unparse_parse. Qed.
Print Assumptions C08_decl_unparse_parse.

Theorem C08_decl_unparse_parse_typename : forall t rest,
  valid_ty t = true -> small t = true -> is_fun t = false -> stops rest ->
  let bd := declarator_of t None in
  exists m, parse_typename (TBase (fst bd) :: print_decl (snd bd) ++ rest) = Ok (m, rest) /\
            shape m = unqual t.
Proof. exact unparse_parse_typename. Qed.
Print Assumptions C08_decl_unparse_parse_typename.

(* the two-pass trick is sound on EVERY token list: which tokens declarator() consumes, which identifier it finds
   and whether it fails do not depend on the type handed in, so the pass with the dummy type stops exactly where
   the real pass does (no assumption on the tokens; also for type_suffix, array_dimensions, func_params) *)
Theorem C08_decl_dummy_pass_sound : forall f toks ty,
  sim_d (declarator f toks dummy) (declarator f toks ty).
Proof. exact dummy_pass_sound. Qed.
Print Assumptions C08_decl_dummy_pass_sound.

Theorem C08_decl_abstract_dummy_pass_sound : forall f toks ty ty',
  sim_s (abstract_declarator f toks ty) (abstract_declarator f toks ty').
Proof. exact abstract_independent_of_type. Qed.
Print Assumptions C08_decl_abstract_dummy_pass_sound.

(* ---- where parse.c is NOT C11 / psABI (each witness replayed on the real chibicc) ---- *)

(* `int ()` with the identifier omitted (an unnamed parameter of function type) is parsed as plain `int` *)
Theorem C08_decl_abstract_func_refuted :
  exists d m, c11_ok d = true /\ name_of d = None /\
    parse_declarator (print_decl d ++ [TRParen]) (MBase LInt) = Ok (None, m, [TRParen]) /\
    parse_abstract (print_decl d ++ [TRParen]) (MBase LInt) = Ok (m, [TRParen]) /\
    shape m <> unqual (type_of (TLeaf LInt) d).
Proof. exact abstract_func_refuted. Qed.
Print Assumptions C08_decl_abstract_func_refuted.

(* void g(int ()) : the parameter is int instead of int ( * )() *)
Theorem C08_decl_param_abstract_func_refuted :
  c11_ok d_g_unspec = true /\
  (exists m, parse_declarator (print_decl d_g_unspec ++ [TOther]) (MBase LVoid) = Ok (Some 0%nat, m, [TOther]) /\
     shape m = TFun (TLeaf LVoid) [TLeaf LInt] FProto) /\
  type_of (TLeaf LVoid) d_g_unspec = TFun (TLeaf LVoid) [TPtr [] (TFun (TLeaf LInt) [] FNoProto)] FProto.
Proof. exact param_abstract_func_refuted. Qed.
Print Assumptions C08_decl_param_abstract_func_refuted.

(* `int (int)` / `int (void)` with the identifier omitted: a valid declarator is rejected *)
Theorem C08_decl_abstract_proto_rejected :
  let d1 := DDirect (DFunc (DIdent None) (PList (POne (Param LInt abs0)) false)) in
  let d2 := DDirect (DFunc (DIdent None) PVoid) in
  c11_ok d1 = true /\ c11_ok d2 = true /\
  parse_declarator (print_decl d1 ++ [TRParen]) (MBase LInt) = Err /\
  parse_declarator (print_decl d2 ++ [TRParen]) (MBase LInt) = Err /\
  parse_abstract (print_decl d1 ++ [TRParen]) (MBase LInt) = Err.
Proof. exact abstract_proto_rejected. Qed.
Print Assumptions C08_decl_abstract_proto_rejected.

(* char[4294967299] is char[3] *)
Theorem C08_decl_big_bound_refuted :
  exists d m, c11_ok d = true /\
    parse_declarator (print_decl d ++ [TOther]) (MBase LChar) = Ok (None, m, [TOther]) /\
    sizeof (type_of (TLeaf LChar) d) = Some 4294967299 /\ ty_size m = 3 /\
    shape m = TArr (Some 3) (TLeaf LChar).
Proof. exact big_bound_refuted. Qed.
Print Assumptions C08_decl_big_bound_refuted.

(* sizeof(int[70000][70000]) is -1874836480: sizes of 2 GiB and more are wrong *)
Theorem C08_decl_size_overflow_refuted :
  exists d m, c11_ok d = true /\ chibicc_ok d = true /\
    parse_declarator (print_decl d ++ [TOther]) (MBase LInt) = Ok (None, m, [TOther]) /\
    shape m = type_of (TLeaf LInt) d /\
    sizeof (type_of (TLeaf LInt) d) = Some 19600000000 /\ ty_size m = -1874836480.
Proof. exact size_overflow_refuted. Qed.
Print Assumptions C08_decl_size_overflow_refuted.

(* ---- non-vacuity: int ( * ( *x[3])(int, char * ))[5], and the type name  struct{16,8} ( *[2])[7] ---- *)
Definition ex_d : decl :=
  DDirect (DArray (DParen (DPtr [] (DDirect (DFunc
    (DParen (DPtr [QConst] (DDirect (DArray (DIdent (Some 7%nat)) (Some 3)))))
    (PList (PCons (Param LInt (DDirect (DIdent None))) (POne (Param LChar (DPtr [] (DDirect (DArray (DIdent (Some 1%nat)) None)))))) false)))))
    (Some 5)).

Example C08_decl_nonvacuous :
  c11_ok ex_d = true /\ chibicc_ok ex_d = true /\ fits (type_of (TLeaf LInt) ex_d) = true /\
  type_of (TLeaf LInt) ex_d
  = TArr (Some 3) (TPtr [QConst] (TFun (TPtr [] (TArr (Some 5) (TLeaf LInt)))
                                       [TLeaf LInt; TPtr [] (TPtr [] (TLeaf LChar))] FProto)) /\
  sizeof (type_of (TLeaf LInt) ex_d) = Some 24 /\ alignof (type_of (TLeaf LInt) ex_d) = Some 8 /\
  parse_declarator (print_decl ex_d ++ [TOther]) (MBase LInt)
  = Ok (Some 7%nat,
        MArr (MPtr (MFunc (MPtr (MArr (MBase LInt) 5 20 4))
                          [(None, MBase LInt); (Some 1%nat, MPtr (MPtr (MBase LChar)))] false)) 3 24 8,
        [TOther]).
Proof. vm_compute. repeat split; reflexivity. Qed.
Print Assumptions C08_decl_nonvacuous.

Example C08_decl_nonvacuous_typename :
  let d := DPtr [] (DDirect (DArray (DParen (DPtr [] (DDirect (DArray (DIdent None) (Some 2))))) (Some 7))) in
  c11_ok d = true /\ chibicc_ok d = true /\ name_of d = None /\
  type_of (TLeaf (LAgg 16 8)) d = TArr (Some 2) (TPtr [] (TArr (Some 7) (TPtr [] (TLeaf (LAgg 16 8))))) /\
  sizeof (type_of (TLeaf (LAgg 16 8)) d) = Some 16 /\
  sizeof (TArr (Some 7) (TPtr [] (TLeaf (LAgg 16 8)))) = Some 56 /\
  parse_typename (TBase (LAgg 16 8) :: print_decl d ++ [TRParen])
  = Ok (MArr (MPtr (MArr (MPtr (MBase (LAgg 16 8))) 7 56 8)) 2 16 8, [TRParen]).
Proof. vm_compute. repeat split; reflexivity. Qed.
Print Assumptions C08_decl_nonvacuous_typename.

Example C08_decl_nonvacuous_unparse :
  let t := TArr (Some 3) (TPtr [QConst] (TFun (TPtr [] (TArr (Some 5) (TLeaf LInt)))
                                              [TLeaf LInt; TPtr [] (TPtr [] (TLeaf LChar))] FVariadic)) in
  valid_ty t = true /\ small t = true /\
  print_decl (snd (declarator_of t (Some 7%nat)))
  = [TLParen; TStar; TLParen; TStar; TQual QConst; TIdent 7%nat; TLBrack; TNum 3; TRBrack; TRParen;
     TLParen; TBase LInt; TComma; TBase LChar; TStar; TStar; TComma; TEllipsis; TRParen; TRParen;
     TLBrack; TNum 5; TRBrack] /\
  fst (declarator_of t (Some 7%nat)) = LInt.
Proof. vm_compute. repeat split; reflexivity. Qed.
Print Assumptions C08_decl_nonvacuous_unparse.

(* with the other half of C08: struct S { char c; long l; } as laid out by Model/Layout.v (size 16, alignment 8)
   is the base type of  struct S ( *x[2])[3]  : x is 16 bytes, *x[0] is 48 bytes, alignment 8 throughout *)
Example C08_decl_nonvacuous_with_layout :
  let L := struct_layout false 1 [ {| m_size := 1; m_align := 1; m_bf := None; m_named := true |};
                                   {| m_size := 8; m_align := 8; m_bf := None; m_named := true |} ] in
  let S := LAgg (Z.of_N (l_size L)) (Z.of_N (l_align L)) in
  let d := DDirect (DArray (DParen (DPtr [] (DDirect (DArray (DIdent (Some 0%nat)) (Some 2))))) (Some 3)) in
  S = LAgg 16 8 /\ c11_ok d = true /\ chibicc_ok d = true /\ fits (type_of (TLeaf S) d) = true /\
  sizeof (type_of (TLeaf S) d) = Some 16 /\
  parse_declarator (print_decl d ++ [TOther]) (MBase S)
  = Ok (Some 0%nat, MArr (MPtr (MArr (MBase (LAgg 16 8)) 3 48 8)) 2 16 8, [TOther]).
Proof. vm_compute. repeat split; reflexivity. Qed.
Print Assumptions C08_decl_nonvacuous_with_layout.
