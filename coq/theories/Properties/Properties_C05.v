(* C05 - initializers produce exactly the object value of C11 6.7.9.  Statements only. *)
From Chibicc Require Import Base.Mach Model.Bitfield Model.InitMerge Proofs.BitfieldProofs Proofs.InitMergeProofs.
Local Open Scope Z_scope.

(* static = automatic for bit-fields: for ANY set of pairwise disjoint bit-fields of a storage unit,
   any subset of them initialized with ANY values in ANY order, the unit image write_gvar_data
   builds (OR into a zeroed buffer) equals what zero fill plus the bit-field assignments of the
   automatic path leave *)
Theorem C05_static_equals_automatic_bitfields : forall fs, Forall wf_field fs -> ForallOrdPairs disjoint fs -> static_unit fs = auto_unit fs.
Proof. exact static_equals_auto. Qed.
Print Assumptions C05_static_equals_automatic_bitfields.

(* each initialized bit-field then holds its value and the unmentioned bits are zero: per-field read-back *)
Theorem C05_field_value : forall u v off w, 0 <= off -> 0 < w -> off + w <= 64 -> bf_load_u (auto_merge u (v, off, w)) off w = Z.land v (Z.ones w).
Proof. intros. apply store_then_load_u; assumption. Qed.
Print Assumptions C05_field_value.

(* the zero fill is essential to the OR-merge (why write_gvar_data may not be reused on a dirty buffer) *)
Theorem C05_or_merge_needs_clear_bits : static_merge 255 (0, 0, 4) <> auto_merge 255 (0, 0, 4).
Proof. exact or_merge_needs_clear_bits. Qed.
Print Assumptions C05_or_merge_needs_clear_bits.

Example C05_nonvacuous : static_unit [(5, 0, 3); (-1, 8, 4); (1, 31, 1)] = 2147487493 /\ auto_unit [(5, 0, 3); (-1, 8, 4); (1, 31, 1)] = 2147487493.
Proof. vm_compute. split; reflexivity. Qed.
Print Assumptions C05_nonvacuous.
