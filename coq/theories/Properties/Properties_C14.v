(* C14 - driver process discipline under failure and concurrency.
   Only statements closed by [exact] + Print Assumptions live here. *)
From Coq Require Import List Bool Arith.
From Chibicc Require Import Model.Driver Proofs.DriverProofs.
Import ListNotations.

(* For every mode (-E, -S, -c, link), with or without -o, every list of inputs of every kind and
   EVERY pattern of subprocess outcomes (any cc1 / as / ld failing, by exit status or signal):
   the driver terminates with status 0 or 1; every temporary it created is unlinked; status 0
   means every subprocess succeeded and exactly the requested outputs were written; status 1
   means either the -o/multiple-files usage error (nothing run) or exactly one subprocess
   failed, it was the last one started, and the outputs written are exactly those of the inputs
   handled before it - the failing translation unit's own output is untouched. *)
Theorem C14_driver_discipline : forall orc md has_o ks,
  exists c tr, driver orc md has_o ks = Exited c tr /\
    tmp_unlinked tr = tmp_created tr /\
    (c = 0 \/ c = 1) /\
    (c = 0 -> all_true (outcomes tr) /\
              vis tr = reqs md has_o 0 ks ++ (if (0 <? lds md ks) && links md then link_out has_o else [])) /\
    (c = 1 -> (usage_error md has_o ks = true /\ outcomes tr = [] /\ vis tr = []) \/
              ((exists pre, outcomes tr = pre ++ [false] /\ all_true pre) /\
               exists j, j <= length ks /\ vis tr = reqs md has_o 0 (firstn j ks) /\
                         (j < length ks \/ ((0 <? lds md ks) && links md) = true))).
Proof. exact driver_ok. Qed.
Print Assumptions C14_driver_discipline.

(* the outputs of the inputs before j never include the output of input j or later *)
Theorem C14_failed_unit_output_untouched : forall md has_o ks i p, In p (reqs md has_o i ks) ->
  p = PStdout \/ (has_o = true /\ p = POpt) \/ (exists j, i <= j < i + length ks /\ p = POut j).
Proof. exact reqs_bound. Qed.
Print Assumptions C14_failed_unit_output_untouched.

(* concurrent invocations whose outputs and (fresh, mkstemp) temporaries are disjoint see, in
   ANY interleaving of their file-system events, exactly what they see when run alone *)
Theorem C14_noninterference : forall (P : Type) (eqb : P -> P -> bool),
  (forall a b, eqb a b = true <-> a = b) ->
  forall la lb l (inA : P -> Prop),
  interleaving P la lb l ->
  Forall (fun e => inA (touches P e)) la -> Forall (fun e => ~ inA (touches P e)) lb ->
  forall f q, inA q -> fold_left (apply P eqb) l f q = fold_left (apply P eqb) la f q.
Proof. exact disjoint_runs_do_not_interfere. Qed.
Print Assumptions C14_noninterference.

Example C14_nonvacuous :
  (* chibicc a.c b.c (link), the second cc1 fails: exit 1, four temporaries created and unlinked, nothing written *)
  final (driver (fun k => negb (Nat.eqb k 2)) MLink false [KC; KC]) =
    (1, [EMkTmp 0; EMkTmp 1; ESpawn (Cc1 0 (Some (PTmp 0))) true; ESpawn (As (inl (PTmp 0)) (PTmp 1)) true;
         EMkTmp 2; EMkTmp 3; ESpawn (Cc1 1 (Some (PTmp 2))) false; EUnlink 0; EUnlink 1; EUnlink 2; EUnlink 3]).
Proof. vm_compute. reflexivity. Qed.
Print Assumptions C14_nonvacuous.
