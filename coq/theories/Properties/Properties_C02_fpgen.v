(* C02, package fpgen: floating-point expression code (SSE path of gen_expr) against C11 + IEC 60559 semantics
   built from Flocq.  Statements only; proofs are in Proofs/X86SseProofs.v, FloatRoundProofs.v, X86SseRowsProofs.v,
   FloatOpsProofs.v, FloatGenProofs.v. *)
From Coq Require Import ZArith Reals Bool List String.
From Flocq Require Import Core Binary Bits.
From Chibicc Require Import Spec.C11Int Spec.C11Float Spec.C11LDouble Model.X86Int Model.CodegenInt Gen.CastTable Model.X86Sse Model.FloatGen Model.FloatFlat
     Model.X87 Model.LDoubleGen
     Model.FloatConv Proofs.CastTableProofs Proofs.X86SseProofs Proofs.FloatRoundProofs Proofs.X86SseRowsProofs
     Proofs.FloatOpsProofs Proofs.FloatGenProofs Proofs.FloatFlatProofs Proofs.LDoubleGenProofs.
Import ListNotations.
Local Open Scope Z_scope.

(* The type chibicc's add_type / get_common_type gives to every expression tree over _Bool ... unsigned long,
   float and double operands is the C11 type: double if either operand is double, else float if either is
   float, else the integer rule (6.3.1.8); unary - ~ + promote; comparisons, ! && || have type int. *)
Theorem C02_fp_typing : forall e, mf_type e = ftype_of e.
Proof. exact mf_type_is_c11. Qed.
Print Assumptions C02_fp_typing.

(* "Equal up to the choice of NaN" is: the same datum, or both are NaNs.  So every statement below is
   bit-exact whenever the C value is not a NaN. *)
Theorem C02_fp_feq_meaning : forall (p e : Z) (x y : binary_float p e),
  feq x y <-> (x = y \/ (is_nan p e x = true /\ is_nan p e y = true)).
Proof. exact (fun p e => @feq_iff p e). Qed.
Print Assumptions C02_fp_feq_meaning.

(* xorps / xorpd with 1<<31 / 1<<63 (what ND_NEG emits) turns the bit pattern of ANY float / double - zeros,
   denormals, infinities, quiet and signalling NaNs with any payload - into the pattern of the same datum with
   the opposite sign, and touches no other bit. *)
Theorem C02_fp_neg_bits32 : forall b, 0 <= b < 2 ^ 32 ->
  0 <= Z.lxor b (2 ^ 31) < 2 ^ 32 /\ b32_of_bits (Z.lxor b (2 ^ 31)) = flip (b32_of_bits b).
Proof. exact neg_bits32. Qed.
Print Assumptions C02_fp_neg_bits32.
Theorem C02_fp_neg_bits64 : forall b, 0 <= b < 2 ^ 64 ->
  0 <= Z.lxor b (2 ^ 63) < 2 ^ 64 /\ b64_of_bits (Z.lxor b (2 ^ 63)) = flip (b64_of_bits b).
Proof. exact neg_bits64. Qed.
Print Assumptions C02_fp_neg_bits64.

(* addss/subss/mulss/divss (and sd) as selected by gen_expr: with the left operand in %xmm0 and the right one in
   %xmm1 (any bit patterns), %xmm0 receives the C11 result of the operation rounded to nearest-even in the
   operation's own type (FLT_EVAL_METHOD 0) - the x86 NaN rule against any other NaN choice makes no difference. *)
Theorem C02_fp_arith : forall mem o f t va vb w s, is_fp t = true -> fop_of o = Some f -> Rv t va s -> Rv1 t vb s ->
  eval_common o t va vb = Some w -> exists s', sexec mem (mbinop o t) s = Some s' /\ Rv t w s'.
Proof. exact fp_arith_ok. Qed.
Print Assumptions C02_fp_arith.

(* ucomiss/ucomisd %xmm0, %xmm1 followed by sete+setnp+and / setne+setp+or / seta / setae: %rax receives 1 or 0
   exactly as C11 + IEC 60559 say for == != < <= on every pair of operands; with a NaN operand == < <= give 0
   and != gives 1 (the parity flag is consulted). *)
Theorem C02_fp_compare : forall mem o t va vb w s, is_fp t = true -> (o = OEq \/ o = ONe \/ o = OLt \/ o = OLe) ->
  Rv t va s -> Rv1 t vb s -> eval_common o t va vb = Some w ->
  exists s', sexec mem (mbinop o t) s = Some s' /\ Rv (TI I32) w s'.
Proof. exact fp_cmp_ok. Qed.
Print Assumptions C02_fp_compare.

(* a > b and a >= b, which the parser turns into b < a and b <= a, keep their value for all operands, NaNs included *)
Theorem C02_fp_swap : forall t x y,
  eval_common OLt t y x = eval_common OGt t x y /\ eval_common OLe t y x = eval_common OGe t x y.
Proof. exact eval_common_swap. Qed.
Print Assumptions C02_fp_swap.

(* cmp_zero on float / double (xorps, ucomiss, sete, setnp, and, cmp $1): ZF is set exactly if the value compares
   equal to zero; +0.0 and -0.0 are false, a NaN is true.  Used by if-like tests, !, &&, ||, ?: and (_Bool). *)
Theorem C02_fp_truth : forall mem t v s, val_ok t v = true -> Rv t v s ->
  exists s', test_zero mem t s = Some (negb (truth v), s').
Proof. exact zero_test_ok. Qed.
Print Assumptions C02_fp_truth.

(* Flocq's rounding to nearest-even of an integer with prec + s significant bits is the integer function [rne _ s]
   of Model/FloatConv.v - this ties the existing C02 theorems (halving with a sticky bit = RNE) to IEEE arithmetic. *)
Theorem C02_fp_rne_is_flocq : forall prec emax (Hp : Prec_gt_0 prec) n s, 1 <= s ->
  2 ^ (prec + s - 1) <= n < 2 ^ (prec + s) -> prec + s < emax ->
  round radix2 (SpecFloat.fexp prec emax) ZnearestE (IZR n) = IZR (rne n s).
Proof. exact round_int_rne. Qed.
Print Assumptions C02_fp_rne_is_flocq.

(* The rows u64f32 / u64f64 (test; js; cvtsi2ss; ... shr; or; cvtsi2ss; addss): for EVERY unsigned 64-bit value z in
   %rax, %xmm0 receives z rounded to nearest-even in float / double - below 2^63 by the signed conversion, from 2^63 on
   by converting (z >> 1) | (z & 1) and doubling. *)
Theorem C02_fp_u64_to_float : forall s z, rax (ix s) = z -> 0 <= z < 2 ^ 64 -> f32 (x0 (exec_u64_to_f SS s)) = s_of_int z.
Proof. exact exec_u64_to_f32. Qed.
Print Assumptions C02_fp_u64_to_float.
Theorem C02_fp_u64_to_double : forall s z, rax (ix s) = z -> 0 <= z < 2 ^ 64 -> f64 (x0 (exec_u64_to_f SD s)) = d_of_int z.
Proof. exact exec_u64_to_f64. Qed.
Print Assumptions C02_fp_u64_to_double.

(* The rows f32u64 / f64u64 (comiss with 2^63; jae; cvttss2siq | subss; cvttss2siq; btc $63): for EVERY float / double
   whose integral part z is representable in unsigned long, %rax receives z (subtracting 2^63 is exact). *)
Theorem C02_fp_float_to_u64 : forall s x z, feq (f32 (x0 s)) x -> int_part x = Some z -> 0 <= z < 2 ^ 64 ->
  rax (ix (exec_f_to_u64 SS s)) = z.
Proof. exact exec_f32_to_u64. Qed.
Print Assumptions C02_fp_float_to_u64.
Theorem C02_fp_double_to_u64 : forall s x z, feq (f64 (x0 s)) x -> int_part x = Some z -> 0 <= z < 2 ^ 64 ->
  rax (ix (exec_f_to_u64 SD s)) = z.
Proof. exact exec_f64_to_u64. Qed.
Print Assumptions C02_fp_double_to_u64.

(* Every cell of the regenerated cast table between _Bool ... unsigned long, float and double (121 cells, the four
   branching rows included), and the _Bool path: on a register holding ANY value of the source type for which C11
   defines the conversion, the emitted row leaves the C11-converted value (6.3.1.2, 6.3.1.4, 6.3.1.5: truncation
   toward zero; integer -> floating and double -> float round to nearest-even).  The hypothesis on the row is
   discharged for all cells by C02_fp_all_rows_modelled. *)
Theorem C02_fp_cast_rows : forall mem from to v w s, val_ok from v = true -> Rv from v s ->
  forallb insn_modelled (mcast from to) = true -> convert to v = Some w ->
  exists s', sexec mem (mcast from to) s = Some s' /\ Rv to w s'.
Proof. exact cast_ok. Qed.
Print Assumptions C02_fp_cast_rows.

Theorem C02_fp_all_rows_modelled : forall from to, forallb insn_modelled (mcast from to) = true.
Proof. exact all_rows_modelled. Qed.
Print Assumptions C02_fp_all_rows_modelled.

(* The composition: for EVERY expression tree (any depth) over integer, float and double constants and objects,
   + - * / % & | ^ << >> == != < <= > >= && || ! ~ unary - + casts ?: and commas, whose C11 value is defined
   and whose code contains no instruction outside the model: the code gen_expr emits (right operand first, pushf / push,
   left operand, popf into %xmm1 / pop %rdi, operator; conversions as add_type inserts them; tests by cmp_zero),
   run from ANY register contents and ANY stack on a memory holding the objects, ends with the stack as found and
   the C11 value of the C11 type in %rax / %xmm0 - bit for bit, except that a NaN may differ in sign and payload. *)
Theorem C02_fp_expr_correct : forall mem rho, (forall n, mem (addr_of n) = obj_bits (rho n)) ->
  forall e v, feval rho e = Some v -> modelled (compile e) = true -> computes mem (compile e) (ftype_of e) v.
Proof. exact compile_correct. Qed.
Print Assumptions C02_fp_expr_correct.

(* The same on the executable runner the tie uses: run_expr returns the bits of the C11 value (low 32 bits of
   %rax for types narrower than long; the float in the low lane of %xmm0), exactly unless the value is a NaN. *)
Theorem C02_fp_run_correct : forall rho e v, feval rho e = Some v -> modelled (compile e) = true ->
  exists b, run_expr rho e = Some b /\ result_is (ftype_of e) v b.
Proof. exact run_expr_correct. Qed.
Print Assumptions C02_fp_run_correct.

(* The same with the C constraints instead of a condition on the code: % & | ^ << >> ~ have integer operands
   (6.5.3.3p1, 6.5.5p2, 6.5.7p2, 6.5.10p2-6.5.12p2).  Then every emitted instruction is in the model, so:
   for EVERY well-typed tree whose C11 value is defined the emitted code computes it. *)
Theorem C02_fp_wt_modelled : forall e, well_typed e = true -> modelled (compile e) = true.
Proof. exact wt_modelled. Qed.
Print Assumptions C02_fp_wt_modelled.
Theorem C02_fp_expr_correct_wt : forall mem rho, (forall n, mem (addr_of n) = obj_bits (rho n)) ->
  forall e v, well_typed e = true -> feval rho e = Some v -> computes mem (compile e) (ftype_of e) v.
Proof. exact compile_correct_wt. Qed.
Print Assumptions C02_fp_expr_correct_wt.
Theorem C02_fp_run_correct_wt : forall rho e v, well_typed e = true -> feval rho e = Some v ->
  exists b, run_expr rho e = Some b /\ result_is (ftype_of e) v b.
Proof. exact run_expr_correct_wt. Qed.
Print Assumptions C02_fp_run_correct_wt.

(* The jump-level code (labels of && || ?: as instruction positions, pushf / popf as the two instructions printed;
   this is the text the tie compares with chibicc -S): placed anywhere in a program, it reaches the structured
   evaluation's final state, and for a well-typed tree with a defined value it ends right behind its last
   instruction with the C11 value in %rax / %xmm0 and the stack as found. *)
Theorem C02_fp_flatten_simulates : forall mem c st st', frun mem c st = Some st' ->
  forall P p, fembedded P p (flatten c p) -> fstar mem P (p, st) ((p + fsize c)%nat, st').
Proof. exact flatten_simulates. Qed.
Print Assumptions C02_fp_flatten_simulates.
Theorem C02_fp_expr_code_correct : forall mem rho, (forall n, mem (addr_of n) = obj_bits (rho n)) ->
  forall e v, well_typed e = true -> feval rho e = Some v ->
  forall P p, fembedded P p (flatten (compile e) p) ->
  forall s k, exists s', fstar mem P (p, (s, k)) ((p + fsize (compile e))%nat, (s', k)) /\ Rv (ftype_of e) v s'.
Proof. exact expr_code_correct. Qed.
Print Assumptions C02_fp_expr_code_correct.

(* ---------- long double (x87 path) ---------- *)
(* The row of the cast table into long double (fild / flds / fldl; for unsigned long: fildq, then 2^64 added back when
   the signed reading was negative): the value of ANY other arithmetic type arrives on the register stack exactly. *)
Theorem C02_ld_rows_in : forall mem lmem t v s, val_ok t v = true -> Rv t v (ms s) -> (List.length (st87 s) < 8)%nat ->
  exists x' m', lexec mem lmem (lcast_in t) s = Some {| st87 := x' :: st87 s; ms := m' |} /\ feq x' (l_of_val v).
Proof. exact row_in_ok. Qed.
Print Assumptions C02_ld_rows_in.

(* For EVERY long double tree (constants, objects, operands of any other arithmetic type given by any well-typed
   tree of the first part, unary -, + - * /) whose value is defined and that needs no more x87 registers than are
   free: the code gen_expr emits (lhs, then rhs above it; faddp / fsubrp / fmulp / fdivrp; fchs; the rows into long
   double) pushes exactly one value - the C11 value computed with a 64-bit significand, up to the choice of NaN -
   and leaves everything below it on the register stack, and the machine stack, as found. *)
Theorem C02_ld_value_correct : forall mem lmem rho lrho,
  (forall n, mem (addr_of n) = obj_bits (rho n)) -> (forall n, lmem (addr_of n) = lrho n) ->
  forall e x, lwell_typed e = true -> leval rho lrho e = Some x ->
  forall s k, (List.length (st87 s) + lneed e <= 8)%nat ->
  exists x' m', lrun mem lmem (lcompile e) (s, k) = Some ({| st87 := x' :: st87 s; ms := m' |}, k) /\ feq x' x.
Proof. exact lcompile_correct. Qed.
Print Assumptions C02_ld_value_correct.

(* a == b, != < <= > >= on long double operands (fcomip compares the right operand with the left one; fstp %st(0);
   sete+setnp+and / setne+setp+or / seta / setae; > and >= by swapping): %rax receives the IEEE result, NaNs included,
   and the register stack is as found. *)
Theorem C02_ld_compare_correct : forall mem lmem rho lrho,
  (forall n, mem (addr_of n) = obj_bits (rho n)) -> (forall n, lmem (addr_of n) = lrho n) ->
  forall o a b v, lwell_typed a = true -> lwell_typed b = true -> is_cmp o = true -> leval_cmp rho lrho o a b = Some v ->
  forall s k, (List.length (st87 s) + Nat.max (lneed a) (lneed b) + 1 <= 8)%nat ->
  exists m', lrun mem lmem (lcompile_cmp o a b) (s, k) = Some ({| st87 := st87 s; ms := m' |}, k) /\ Rv (TI I32) v m'.
Proof. exact lcmp_correct. Qed.
Print Assumptions C02_ld_compare_correct.

(* !a on a long double (cmp_zero: fldz; fucomip; fstp %st(0); sete; setnp; and; cmp $1): 1 exactly for +0 and -0, 0 for a NaN *)
Theorem C02_ld_not_correct : forall mem lmem rho lrho,
  (forall n, mem (addr_of n) = obj_bits (rho n)) -> (forall n, lmem (addr_of n) = lrho n) ->
  forall a v, lwell_typed a = true -> leval_not rho lrho a = Some v ->
  forall s k, (List.length (st87 s) + Nat.max (lneed a) 2 <= 8)%nat ->
  exists m', lrun mem lmem (lcompile_not a) (s, k) = Some ({| st87 := st87 s; ms := m' |}, k) /\ Rv (TI I32) v m'.
Proof. exact lnot_correct. Qed.
Print Assumptions C02_ld_not_correct.

(* (t)a out of long double for all ten other arithmetic types and _Bool (fistp under a truncating control word + the
   narrowing load; for unsigned long the comparison with 2^63, exact subtraction and btc; fstps / fstpl): the C11
   converted value whenever C11 defines it. *)
Theorem C02_ld_cast_correct : forall mem lmem rho lrho,
  (forall n, mem (addr_of n) = obj_bits (rho n)) -> (forall n, lmem (addr_of n) = lrho n) ->
  forall t a v, lwell_typed a = true -> leval_cast rho lrho t a = Some v ->
  forall s k, (List.length (st87 s) + Nat.max (lneed a) 2 <= 8)%nat ->
  exists m', lrun mem lmem (lcompile_cast t a) (s, k) = Some ({| st87 := st87 s; ms := m' |}, k) /\ Rv t v m'.
Proof. exact lcast_correct. Qed.
Print Assumptions C02_ld_cast_correct.

(* ---------- non-vacuity ---------- *)
(* g0 : float = 0.1f, g1 : double = 2^53+2, g2 : int = 16777217, g3 : float = NaN *)
Definition rho_ex (n : nat) : val :=
  match n with
  | 0%nat => VS (b32_of_bits 1036831949) | 1%nat => VD (b64_of_bits 4845873199050653697)
  | 2%nat => VI 16777217 | 3%nat => VS (b32_of_bits 2143289344) | _ => VI 0
  end.
(* (float)g2 * g0 - g1 / 3  >=  g3 ? -g0 : (double)(g2 + 1) / (g3 != g3) *)
Definition e_ex : fexpr :=
  FCond (FBin OGe (FBin Sub (FBin Mul (FCast TF32 (FVar (TI I32) 2)) (FVar TF32 0)) (FBin Div (FVar TF64 1) (FLit I32 3))) (FVar TF32 3))
        (FUn Neg (FVar TF32 0))
        (FBin Div (FCast TF64 (FBin Add (FVar (TI I32) 2) (FLit I32 1))) (FBin ONe (FVar TF32 3) (FVar TF32 3))).
Example C02_fp_expr_nonvacuous :
  match feval rho_ex e_ex with Some (VD x) => bits_of_b64 x | _ => -1 end = 4715268810393780224 /\ modelled (compile e_ex) = true /\
  well_typed e_ex = true /\ ftype_of e_ex = TF64 /\ run_expr rho_ex e_ex = Some 4715268810393780224 /\ List.length (code_text e_ex) = 75%nat /\
  List.length (flat_text e_ex) = 73%nat.
Proof. vm_compute. repeat split; reflexivity. Qed.

(* a NaN result: inf - inf; the specification's NaN and the machine's differ in sign, both are NaNs *)
Example C02_fp_nan_nonvacuous :
  let e := FBin Sub (FLitS (b32_of_bits 2139095040)) (FLitS (b32_of_bits 2139095040)) in
  match feval rho_ex e with Some (VS x) => bits_of_b32 x | _ => -1 end = 2143289344 /\ run_expr rho_ex e = Some 4290772992 /\
  is_nan 24 128 (b32_of_bits 4290772992) = true.
Proof. vm_compute. repeat split; reflexivity. Qed.

(* unsigned long -> float at 2^63 + 2^39 + 1 (just above a tie: the sticky bit decides) and float -> unsigned long at 2^63:
   the branching rows are exercised; a tree that violates a constraint (double % int) is neither well typed nor modelled *)
Example C02_fp_rows_nonvacuous :
  run_expr (fun _ => VI 9223372586610589697) (FCast TF32 (FVar (TI U64) 8)) = Some 1593835521 /\
  match feval (fun _ => VI 9223372586610589697) (FCast TF32 (FVar (TI U64) 8)) with Some (VS x) => bits_of_b32 x | _ => -1 end = 1593835521 /\
  run_expr rho_ex (FCast (TI U64) (FLitS (b32_of_bits 1593835520))) = Some 9223372036854775808 /\
  well_typed (FBin Mod (FLitD (b64_of_bits 0)) (FLit I32 2)) = false /\
  modelled (compile (FBin Mod (FLitD (b64_of_bits 0)) (FLit I32 2))) = false.
Proof. vm_compute. repeat split; reflexivity. Qed.

(* the parsed rows print back as the text of the regenerated table: the model's instructions are the table's *)
Example C02_fp_table_text :
  forallb (fun row => forallb (fun cell => match cell with
                                           | None => true
                                           | Some l => forallb (fun x => match x with
                                                                         | XI _ => true
                                                                         | XText s => String.eqb (sinsn_text (parse_text s)) s
                                                                         end) l
                                           end) row) cast_table = true.
Proof. vm_compute. reflexivity. Qed.

(* long double: g0 : float = 0.1f, g1 : unsigned long = 2^64-1, h0 : long double = 8(1 + 2^-63);
   (h0 - (long double)g0) / ((long double)g1 + 3.0L) ; (unsigned long)((long double)g1 - h0) ; h0 >= (long double)g0 *)
Definition rho_l (n : nat) : val := match n with 0%nat => VS (b32_of_bits 1036831949) | 1%nat => VI 18446744073709551615 | _ => VI 0 end.
Definition lrho_l (n : nat) : binary80 := match n with 0%nat => decode80 302277571763841567555585 | _ => decode80 0 end.
Definition l_ex : lexpr :=
  LBin Div (LBin Sub (LVar 0) (LOf (FVar TF32 0))) (LBin Add (LOf (FVar (TI U64) 1)) (LLit (decode80 (16384 * 2 ^ 64 + 13835058055282163712)))).
Example C02_ld_nonvacuous :
  lwell_typed l_ex = true /\ lneed l_ex = 3%nat /\
  match leval rho_l lrho_l l_ex with Some x => encode80 x | None => -1 end = 301087526186782944133120 /\
  match run_l rho_l lrho_l (lcompile l_ex) with Some (s, []) => match st87 s with [x] => encode80 x | _ => -2 end | _ => -3 end = 301087526186782944133120 /\
  match leval_cast rho_l lrho_l (TI U64) (LBin Sub (LOf (FVar (TI U64) 1)) (LVar 0)) with Some (VI z) => z | _ => -1 end = 18446744073709551607 /\
  match run_l rho_l lrho_l (lcompile_cast (TI U64) (LBin Sub (LOf (FVar (TI U64) 1)) (LVar 0))) with Some (s, []) => rax (ix (ms s)) | _ => -3 end = 18446744073709551607 /\
  leval_cmp rho_l lrho_l OGe (LVar 0) (LOf (FVar TF32 0)) = Some (VI 1) /\
  List.length (ltext (lcompile l_ex) 0) = 17%nat.
Proof. vm_compute. repeat split; reflexivity. Qed.
