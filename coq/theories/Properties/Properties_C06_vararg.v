(* C06 / vararg: variadic functions deliver their arguments. *)
From Coq Require Import List ZArith.
From Chibicc Require Import Model.Abi Model.Vararg Spec.VarargSpec Proofs.VarargProofs.
Import ListNotations.
Local Open Scope Z_scope.

(* For every call f(named..., v1, ..., vn) compiled by chibicc on both sides - any number of named
   parameters of any of the types long, double, long double, small struct, large struct, in
   registers or on the stack - where the variadic actuals v1..vn are longs and doubles in any
   number and order: the prologue of f, va_start and the i-th va_arg(ap, long|double) of
   include/stdarg.h read exactly vi (from the register save area while registers of its class
   remain, from the overflow area afterwards). *)
Theorem C06_vararg_scalars_delivered : forall named variadic,
  wf_args named -> wf_args variadic -> Forall (fun a => scalar (fst a)) variadic ->
  delivers (call_reads named variadic) variadic.
Proof. exact vararg_scalars_delivered. Qed.
Print Assumptions C06_vararg_scalars_delivered.

(* The gp_offset / fp_offset / overflow_arg_area values the prologue of a variadic function
   computes from its named parameters are 8 * the GP registers, 48 + 16 * the vector registers
   and 16 + 8 * the stack words the caller used for the named actuals. *)
Theorem C06_vararg_va_start : forall named, wf_args named ->
  va_start (map fst named) = ap_of (pass_args frame0 named).
Proof. exact va_start_is_ap_of. Qed.
Print Assumptions C06_vararg_va_start.

(* The same with structs larger than 16 bytes (class MEMORY, alignment at most 8) among the
   variadic actuals: va_arg(ap, struct T) reads them from the overflow area where the caller's
   push_struct put them. *)
Theorem C06_vararg_scalars_memstructs_delivered : forall named variadic,
  wf_args named -> wf_args variadic -> Forall (fun a => scalar_or_big (fst a)) variadic ->
  delivers (call_reads named variadic) variadic.
Proof. exact vararg_scalars_memstructs_delivered. Qed.
Print Assumptions C06_vararg_scalars_memstructs_delivered.

(* long double among the variadic actuals is NOT always delivered between two chibicc-compiled
   sides: f(long, ...) called with six longs and then a long double - the caller packs the long
   double at 24(%rbp) (odd stack word), __va_arg_mem rounds the overflow pointer up to 32.
   This is the known finding C06-stack-arg-alignment seen through va_arg. *)
Theorem C06_vararg_long_double_refuted :
  exists named variadic, wf_args named /\ wf_args variadic /\ ~ delivers (call_reads named variadic) variadic.
Proof. exact vararg_long_double_refuted. Qed.
Print Assumptions C06_vararg_long_double_refuted.

Example C06_vararg_nonvacuous :
  let named := [(VInt, [1]); (VFlt, [2]); (VLdbl, [3; 4]); (VSmall true (Some false), [5; 6]); (VBig 3, [7; 8; 9])] in
  let variadic := [(VInt, [10]); (VFlt, [11]); (VInt, [12]); (VInt, [13]); (VInt, [14]); (VInt, [15]); (VInt, [16]);
                   (VFlt, [17]); (VFlt, [18]); (VFlt, [19]); (VFlt, [20]); (VFlt, [21]); (VFlt, [22]); (VFlt, [23]); (VInt, [24])] in
  call_reads named variadic = map (fun a => Some (snd a)) variadic
  /\ spec_reads named variadic = call_reads named variadic
  /\ va_start (map fst named) = VaList 16 80 56 24
  /\ (* small structs (stage 3: tied, not proved): in registers, then all-or-nothing in memory *)
     (let vs := [(VSmall false (Some true), [30; 31]); (VSmall true (Some true), [32; 33]); (VSmall false (Some false), [34; 35]);
                 (VSmall false (Some false), [36; 37]); (VInt, [38]); (VSmall false None, [39])] in
      call_reads named vs = map (fun a => Some (snd a)) vs /\ spec_reads named vs = call_reads named vs).
Proof. vm_compute. auto. Qed.
