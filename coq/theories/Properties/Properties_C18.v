(* C18 - source positions survive preprocessing.  Statements only; proofs in Proofs/. *)
From Chibicc Require Import Base.Mach Model.Lexer Model.Phases Model.SourcePos Model.LineDir Gen.PunctTable
     Proofs.PhasesProofs Proofs.SourcePosProofs Proofs.LineDirProofs.

(* phase 1: every byte of the canonical text comes from a byte of the file, and the number of LF
   before it is the number of physical line ends (LF, CR LF, lone CR) before its origin *)
Theorem C18_canon_preserves_lines : forall s j b i, nth_error (canon_idx 0 s) j = Some (b, i) ->
  (exists c, nth_error s i = Some c /\ canon_byte c b) /\ line_at (canon s) j = phys_line s i.
Proof. exact canon_lines. Qed.
Print Assumptions C18_canon_preserves_lines.

Theorem C18_canon_erasure : forall s, map fst (canon_idx 0 s) = canon s.
Proof. intros s. apply canon_erase. Qed.
Print Assumptions C18_canon_erasure.

(* phase 2: splicing neither adds nor removes a line end (later lines keep their numbers) ... *)
Theorem C18_splice_preserves_count : forall t, count_lf (splice 0 t) = count_lf t.
Proof. intros t. apply (splice_count t 0). Qed.
Print Assumptions C18_splice_preserves_count.

(* ... and for every copied byte: computed line + splices pending there = line of its origin *)
Theorem C18_splice_lines : forall t j b i k, nth_error (splice_idx 0 0 t) j = Some (b, Some (i, k)) ->
  nth_error t i = Some b /\ (line_at (splice 0 t) j + k = line_at t i)%nat.
Proof. exact splice_lines. Qed.
Print Assumptions C18_splice_lines.

Theorem C18_splice_erasure : forall t, map fst (splice_idx 0 0 t) = splice 0 t.
Proof. intros t. apply splice_erase. Qed.
Print Assumptions C18_splice_erasure.

(* tokenize_file as a whole: a token whose first byte has no splice pending gets the physical
   line of that byte in the file as stored ... *)
Theorem C18_line_no_physical : forall file l tp, token_lines punct_table file = Some l -> In tp l ->
  tp_pending tp = 0%nat -> tp_line tp = tp_phys tp.
Proof. exact (token_lines_exact punct_table). Qed.
Print Assumptions C18_line_no_physical.

(* ... in general it is short by the number of pending splices; the full statement
   ("regardless of line splicing") is refuted: known finding C18-after-splice *)
Theorem C18_line_no_lag : forall file l tp, token_lines punct_table file = Some l -> In tp l ->
  (tp_line tp + tp_pending tp = tp_phys tp)%nat.
Proof. intros file l tp H Hin. exact (token_lines_sound punct_table file l H tp Hin). Qed.
Print Assumptions C18_line_no_lag.

Theorem C18_after_splice_refuted :
  exists j, nth_error (phases12 refute_src) j = Some 98%N /\ line_at (phases12 refute_src) j = 1%nat /\ phys_line refute_src 4 = 2%nat.
Proof. exact full_statement_refuted. Qed.
Print Assumptions C18_after_splice_refuted.

(* the tokens are those of the C19 lexer model on the processed buffer *)
Theorem C18_tokens : forall file l, token_lines punct_table file = Some l ->
  tokenize punct_table (phases12 (load file)) = LexOk (map tp_tok l).
Proof. exact (token_lines_tokens punct_table). Qed.
Print Assumptions C18_tokens.

(* loading (final new-line, BOM) moves no line *)
Theorem C18_load_lines : (forall s i, (i < length s)%nat -> phys_line (terminate s) i = phys_line s i) /\
  (forall r i, phys_line (239 :: 187 :: 191 :: r)%N (3 + i) = phys_line r i).
Proof. split; [exact terminate_lines|exact bom_lines]. Qed.
Print Assumptions C18_load_lines.

(* #line: without a directive lines are physical; after one the implementation is exactly one
   ahead of C11 6.10.4p3 (refuted part: known finding C18-line-directive, enshrined by test/line.c) *)
Theorem C18_no_directive : forall f d l, has_dir f = false -> impl_lines d l f = spec_lines d l f.
Proof. exact no_directive_spec. Qed.
Print Assumptions C18_no_directive.

Theorem C18_directive_off_by_one : forall f d l n k v,
  nth_error (impl_lines d l (Dir n :: f)) (S k) = Some (Some v) ->
  nth_error (spec_lines d l (Dir n :: f)) (S k) = Some (Some (v - 1)%Z).
Proof. exact directive_off_by_one. Qed.
Print Assumptions C18_directive_off_by_one.

(* non-vacuity: a file with CR LF, a lone CR, a splice and a comment *)
Definition demo_file : list N := [97; 13; 10; 98; 13; 47; 47; 32; 92; 10; 99; 10; 100]%N.   (* a CRLF b CR // \ LF c LF d *)
Definition demo_lines := Eval vm_compute in
  option_map (map (fun tp => (tp_line tp, tp_phys tp, tp_pending tp))) (token_lines punct_table demo_file).
Example C18_nonvacuous : demo_lines = Some [(1, 1, 0); (2, 2, 0); (5, 5, 0)]%nat.
Proof. reflexivity. Qed.
Print Assumptions C18_nonvacuous.
