(* C11 (package escapes) - the functions of tokenize.c that turn the SPELLING of a literal into
   its value: escape sequences, string literal bodies in the five encodings, character
   constants, integer constants (prefix, digits, suffix), universal character names.
   Only statements closed by [exact] + Print Assumptions live here. *)
From Coq Require Import List NArith ZArith Bool.
From Chibicc Require Import Model.Unicode Spec.Utf Model.IntLit Spec.IntLitSpec Model.LitScan Spec.LitSpec
     Proofs.LitScanProofs Proofs.IntScanProofs Proofs.UcnProofs.
Import ListNotations.
Local Open Scope N_scope.

(* ---------------- stage 1: escape sequences ---------------- *)
(* read_escaped_char, started behind the backslash of ANY valid escape sequence (simple, \e,
   one to three octal digits, \x with any number of hexadecimal digits) that the next
   character does not prolong, returns the value C11 6.4.4.4 gives the sequence - reduced
   modulo 2^32, because the C code accumulates in an int - and stops exactly behind it *)
Theorem C11_escape_value : forall e rest,
  valid_escape e = true -> escape_ends_before e (peek rest) = true ->
  read_escaped_char (spell_escape_body e ++ rest) = Ok (escape_value e mod 4294967296, rest).
Proof. exact read_escaped_char_spec. Qed.
Print Assumptions C11_escape_value.

(* no reduction happens for values below 2^32 (all simple and octal escapes, \x up to 8 digits) *)
Theorem C11_escape_value_exact : forall e rest,
  valid_escape e = true -> escape_ends_before e (peek rest) = true -> escape_value e < 4294967296 ->
  read_escaped_char (spell_escape_body e ++ rest) = Ok (escape_value e, rest).
Proof. exact read_escaped_char_exact. Qed.
Print Assumptions C11_escape_value_exact.

(* \x without a hexadecimal digit is answered with "invalid hex escape sequence" *)
Theorem C11_escape_rejects_bare_x : forall rest,
  is_digit_of 16 (peek rest) = false -> read_escaped_char (120 :: rest) = Err ErrHexEscape.
Proof. exact read_escaped_char_rejects_bare_x. Qed.
Print Assumptions C11_escape_rejects_bare_x.

(* ---------------- stages 2 and 4: string literals ---------------- *)
(* for every prefix ("" u8"" u"" U"" L"") and every lexically valid body of any length: the
   token has the element type of 6.4.5p6, ends behind the closing quote, and its array holds
   the UTF-8 / UTF-16 (surrogate pairs included) / UTF-32 encoding of the source characters,
   one unit per escape sequence, and the terminating zero.  Escape values are cut to the
   element width (this is what chibicc does with values C11 6.4.4.4p9 forbids) *)
Theorem C11_string_stored : forall p l rest,
  valid_items 34 l = true ->
  string_token (model_sprefix p) (spell_items l ++ 34 :: rest) =
    Ok (model_elem_ty (string_elem_ty p), stored_units p l, rest).
Proof. exact string_token_stored. Qed.
Print Assumptions C11_string_stored.

(* ... and when every escape value is representable in the element type, that array is exactly
   the one C11 6.4.5p6 describes *)
Theorem C11_string_literal : forall p l rest,
  valid_items 34 l = true -> items_in_range p l = true ->
  string_token (model_sprefix p) (spell_items l ++ 34 :: rest) =
    Ok (model_elem_ty (string_elem_ty p), spec_string_units p l, rest).
Proof. exact string_token_spec. Qed.
Print Assumptions C11_string_literal.

(* a body of valid elements that meets a new-line or the end of the file before a closing quote
   is answered with "unclosed string literal", whatever the encoding *)
Theorem C11_string_unclosed : forall l tail reader,
  forallb (valid_item 34) l = true -> (tail = [] \/ exists t, tail = 10 :: t) ->
  read_literal_with reader (spell_items l ++ tail) = Err ErrUnclosedString.
Proof. exact string_unclosed. Qed.
Print Assumptions C11_string_unclosed.

(* ---------------- stage 2: character constants ---------------- *)
(* '' u'' U'' L'' with one valid element: the type is int / unsigned short / unsigned int / int,
   the token ends behind the closing quote, and wherever 6.4.4.4p10-11 define the value (single
   byte characters and escapes that fit unsigned char, sign-extended through char; code points
   that fit one unit; escapes that fit the unsigned type) it is that value *)
Theorem C11_char_constant : forall p it rest v,
  valid_item 39 it = true -> spec_char_value p it = Some v ->
  exists val, char_token (model_cprefix p) (spell_item it ++ 39 :: rest) =
                Ok (val, model_char_ty (char_const_ty p), rest) /\
              num_value (model_char_ty (char_const_ty p)) val = v.
Proof. exact char_token_spec. Qed.
Print Assumptions C11_char_constant.

(* outside that domain (implementation-defined or constraint violation) chibicc cuts the int to
   the width of the type: 'é' is (char)0xE9, '\x123' is 0x23, u'\x12345' is 0x2345 *)
Theorem C11_char_constant_stored : forall p it rest, valid_item 39 it = true ->
  exists val, char_token (model_cprefix p) (spell_item it ++ 39 :: rest) =
                Ok (val, model_char_ty (char_const_ty p), rest) /\
              num_value (model_char_ty (char_const_ty p)) val = stored_char_value p it.
Proof. exact char_token_stored. Qed.
Print Assumptions C11_char_constant_stored.

Theorem C11_char_unclosed : forall it tail, valid_item 39 it = true -> item_follow it (peek tail) = true ->
  forallb (fun b => negb (b =? 39)) tail = true ->
  read_char_literal (spell_item it ++ tail) = Err ErrUnclosedChar.
Proof. exact char_unclosed. Qed.
Print Assumptions C11_char_unclosed.

(* constants with several elements ('ab', 'a\'': value implementation-defined): chibicc takes the
   value of the first element and finds the closing quote by stepping over every later element,
   escaped quotes included *)
Theorem C11_char_multichar : forall it more rest, valid_item 39 it = true ->
  item_follow it (first_byte (spell_items more) 39) = true ->
  forallb (valid_item 39) more = true ->
  read_char_literal (spell_item it ++ spell_items more ++ 39 :: rest) = Ok (item_int it, rest).
Proof. exact char_multichar. Qed.
Print Assumptions C11_char_multichar.

(* the former finding as an instance: 'a\'' followed by ; is one token with value 97 (it was cut
   behind the escaped quote, and rejected, before commit 6181ddd) *)
Example C11_char_multichar_escaped_quote :
  valid_items 39 [IChr 97; IEsc (ESimple SQuote)] = true /\
  read_char_literal (spell_items [IChr 97; IEsc (ESimple SQuote)] ++ [39; 59]) = Ok (97, [59]).
Proof. exact char_multichar_escaped_quote. Qed.
Print Assumptions C11_char_multichar_escaped_quote.

(* ---------------- non-vacuity ---------------- *)
(* the body  a \n \x41 \1234 é \\ u  read as "" and as u"" ; '\xff' ; U'\xffffffff' ; u'€' *)
Example C11_escapes_nonvacuous :
  let nv_items := [IChr 97; IEsc (ESimple EscN); IEsc (EHex [52; 49]); IEsc (EOct [49; 50; 51]); IChr 52; IChr 233;
                   IEsc (ESimple Backslash); IChr 117; IChr 128512] in
  valid_items 34 nv_items = true /\ items_in_range SPnone nv_items = true /\
  spell_items nv_items = [97; 92;110; 92;120;52;49; 92;49;50;51; 52; 195;169; 92;92; 117; 240;159;152;128] /\
  string_token StrNone (spell_items nv_items ++ [34; 59]) =
    Ok (TyChar, [97; 10; 65; 83; 52; 195; 169; 92; 117; 240; 159; 152; 128; 0], [59]) /\
  string_token StrU16 (spell_items nv_items ++ [34; 59]) =
    Ok (TyUShort, [97; 10; 65; 83; 52; 233; 92; 117; 55357; 56832; 0], [59]) /\
  spec_char_value CPnone (IEsc (EHex [102; 102])) = Some (-1)%Z /\
  char_token ChrNone (spell_item (IEsc (EHex [102; 102])) ++ [39]) = Ok ((-1)%Z, CTyInt, []) /\
  spec_char_value CPU (IEsc (EHex [102;102;102;102;102;102;102;102])) = Some 4294967295%Z /\
  spec_char_value CPu (IChr 8364) = Some 8364%Z /\
  valid_escape (EHex [49;50;51;52;53;54;55;56;57]) = true /\
  read_escaped_char (spell_escape_body (EHex [49;50;51;52;53;54;55;56;57]) ++ [34]) = Ok (591751049, [34]).
Proof. vm_compute. repeat split; reflexivity. Qed.
Print Assumptions C11_escapes_nonvacuous.

(* ---------------- stage 3: integer constants ---------------- *)
(* the suffix chain of convert_pp_int, on EVERY byte string: it consumes the whole string with
   the meaning (l, u) iff the string is one of the 23 suffix spellings that the grammar of
   6.4.4.1 generates, with that meaning.  So lL, Ll, ulu, lul, llL, uu, lll ... are refused *)
Theorem C11_int_suffix_iff : forall s l u,
  scan_suffix s = (l, u, []) <-> In (s, (l, u)) suffix_table.
Proof. exact scan_suffix_iff. Qed.
Print Assumptions C11_int_suffix_iff.

(* every integer constant of the grammar (decimal, octal, 0x/0X, [GNU] 0b/0B; any number of
   digits and leading zeros; any valid suffix) whose value fits 64 bits and has a type by
   6.4.4.1p5: convert_pp_int accepts its spelling and stores exactly its value and that type
   (composition with C11_int_literal_type of Properties_C11.v) *)
Theorem C11_int_constant : forall k t, valid_iconst k = true ->
  iconst_value k <= 18446744073709551615 -> iconst_type k = Some t ->
  convert_pp_int (spell_iconst k) = Some (iconst_value k, t).
Proof. exact convert_pp_int_spec. Qed.
Print Assumptions C11_int_constant.

(* acceptance and rejection: for every byte string that starts with a digit, convert_pp_int
   accepts it iff the grammar generates it (no exclusion any more) *)
Theorem C11_int_constant_iff : forall s, isdigit (peek s) = true ->
  (convert_pp_int s <> None <-> exists k, valid_iconst k = true /\ spell_iconst k = s).
Proof. exact convert_pp_int_iff. Qed.
Print Assumptions C11_int_constant_iff.

(* ... and a pp-number that starts with a period is never taken for an integer *)
Theorem C11_int_rejects_dot : forall t, scan_int (46 :: t) = None.
Proof. exact scan_int_rejects_dot. Qed.
Print Assumptions C11_int_rejects_dot.

(* the former finding as instances: 0x0x1, 0X0X1f, 0b0b1 are refused (0x0x1 was the int 1 before
   commit d1a8518) and are not in the grammar; 0x0b1 is 177, 0x0 is 0 *)
Example C11_int_doubled_prefix :
  convert_pp_int [48; 120; 48; 120; 49] = None /\ recognise_iconst [48; 120; 48; 120; 49] = None /\
  convert_pp_int [48; 88; 48; 88; 49; 102] = None /\ convert_pp_int [48; 98; 48; 98; 49] = None /\
  convert_pp_int [48; 120; 48; 98; 49] = Some (177, TInt) /\ convert_pp_int [48; 120; 48] = Some (0, TInt).
Proof. exact convert_pp_int_doubled_prefix. Qed.
Print Assumptions C11_int_doubled_prefix.

(* a constant beyond 2^64-1 (no type in C11, a constraint violation) is accepted with the
   saturated value ULONG_MAX *)
Theorem C11_int_overflow_saturates : forall k, valid_iconst k = true -> 18446744073709551615 < iconst_value k ->
  exists t, convert_pp_int (spell_iconst k) = Some (18446744073709551615, t).
Proof. exact convert_pp_int_saturates. Qed.
Print Assumptions C11_int_overflow_saturates.

(* the exhaustive-search recogniser used by the tie decides membership in the grammar *)
Theorem C11_int_recogniser : forall s,
  recognise_iconst s <> None <-> exists k, valid_iconst k = true /\ spell_iconst k = s.
Proof. exact recognise_iff. Qed.
Print Assumptions C11_int_recogniser.

(* ---------------- stage 5: universal character names ---------------- *)
(* convert_universal_chars on a literal body (any length, followed by anything): every valid
   \uXXXX / \UXXXXXXXX is replaced by the UTF-8 form of the character it names, every other
   element - in particular every escape sequence, as a backslash PAIR - is copied unchanged;
   so \\u00e9 stays six characters *)
Theorem C11_ucn_replaced : forall q l more, (q = 34 \/ q = 39) -> forallb (valid_sitem q) l = true ->
  cuc (spell_sitems l ++ more) = res_map (app (spell_items (map resolve_sitem l))) (cuc more).
Proof. exact cuc_sitems. Qed.
Print Assumptions C11_ucn_replaced.

(* phase 1 followed by the string scanner: the array is that of the body in which each
   universal character name is the character it names (5.1.1.2 phases 1 and 5, 6.4.3, 6.4.5) *)
Theorem C11_ucn_string_literal : forall p l rest rest',
  forallb (valid_sitem 34) l = true -> munch_ok 34 (map resolve_sitem l) = true ->
  cuc rest = Ok rest' ->
  exists buf, cuc (spell_sitems l ++ 34 :: rest) = Ok buf /\
    string_token (model_sprefix p) buf =
      Ok (model_elem_ty (string_elem_ty p), stored_units p (map resolve_sitem l), rest').
Proof. exact ucn_string_literal. Qed.
Print Assumptions C11_ucn_string_literal.

Theorem C11_ucn_char_constant : forall p it rest rest' v,
  valid_sitem 39 it = true -> spec_char_value p (resolve_sitem it) = Some v -> cuc rest = Ok rest' ->
  exists buf val, cuc (spell_sitem it ++ 39 :: rest) = Ok buf /\
    char_token (model_cprefix p) buf = Ok (val, model_char_ty (char_const_ty p), rest') /\
    num_value (model_char_ty (char_const_ty p)) val = v.
Proof. exact ucn_char_constant. Qed.
Print Assumptions C11_ucn_char_constant.

(* \u0000 is left as six characters (0 is the failure marker of read_universal_char) *)
Theorem C11_ucn_zero_kept : forall more,
  cuc (92 :: 117 :: 48 :: 48 :: 48 :: 48 :: more) = res_map (app [92; 117; 48; 48; 48; 48]) (cuc more).
Proof. exact cuc_ucn_zero. Qed.
Print Assumptions C11_ucn_zero_kept.

(* ---------------- non-vacuity, stages 3 and 5 ---------------- *)
(* 0x7fffffffULL, 0777l, 4294967296 (decimal: long), 0b101u ; the source body  \\ u00e9 \u00e9 \U0001F600 \x41 *)
Example C11_escapes_nonvacuous_int_ucn :
  let nv_k1 := {| ic_base := BHex false; ic_digits := [55;102;102;102;102;102;102;102]; ic_suffix := SfxUL SU (Some SLL) |} in
  let nv_k2 := {| ic_base := BDec; ic_digits := [52;50;57;52;57;54;55;50;57;54]; ic_suffix := SfxNone |} in
  let nv_k3 := {| ic_base := BHex true; ic_digits := [70;70;70;70;70;70;70;70]; ic_suffix := SfxNone |} in
  let nv_src := [SEsc (ESimple Backslash); SChr 117; SChr 48; SChr 48; SChr 101; SChr 57; SUcn false [48;48;101;57];
                 SUcn true [48;48;48;49;70;54;48;48]; SEsc (EHex [52;49])] in
  valid_iconst nv_k1 = true /\ iconst_type nv_k1 = Some TULong /\
  convert_pp_int (spell_iconst nv_k1) = Some (2147483647, TULong) /\
  valid_iconst nv_k2 = true /\ iconst_type nv_k2 = Some TLong /\
  convert_pp_int (spell_iconst nv_k2) = Some (4294967296, TLong) /\
  iconst_type nv_k3 = Some TUInt /\ convert_pp_int (spell_iconst nv_k3) = Some (4294967295, TUInt) /\
  convert_pp_int [49; 108; 76] = None /\ recognise_iconst [49; 108; 76] = None /\
  convert_pp_int [49; 76; 76; 117] = Some (1, TULong) /\
  convert_pp_int [48; 56] = None /\ recognise_iconst [48; 56] = None /\
  forallb (valid_sitem 34) nv_src = true /\ munch_ok 34 (map resolve_sitem nv_src) = true /\
  cuc (spell_sitems nv_src ++ [34]) =
    Ok [92;92; 117;48;48;101;57; 195;169; 240;159;152;128; 92;120;52;49; 34] /\
  string_token StrU16 [92;92; 117;48;48;101;57; 195;169; 240;159;152;128; 92;120;52;49; 34] =
    Ok (TyUShort, [92; 117;48;48;101;57; 233; 55357;56832; 65; 0], []).
Proof. vm_compute. repeat split; reflexivity. Qed.
Print Assumptions C11_escapes_nonvacuous_int_ucn.
