(* C19 - preprocessed output is a faithful program (the lexical core).
   Only statements closed by [exact] + Print Assumptions live here. *)
From Coq Require Import List NArith Bool.
From Chibicc Require Import Model.Lexer Gen.PunctTable Proofs.LexerProofs.
Import ListNotations.
Local Open Scope N_scope.

(* A space or a new-line always separates: with the punctuator table regenerated from
   tokenize.c, the token found in front of a separator - of ANY kind: identifier, pp-number,
   punctuator, string or character literal with any prefix - does not depend on what follows
   the separator. *)
Theorem C19_separator_separates : forall x c1 r1 c2 r2 k,
  x <> [] -> is_sep c1 = true -> is_sep c2 = true ->
  first_token punct_table (x ++ c1 :: r1) = Some (k, length x) ->
  first_token punct_table (x ++ c2 :: r2) = Some (k, length x).
Proof. exact (first_token_stable punct_table punct_table_nosep). Qed.
Print Assumptions C19_separator_separates.

(* Hence any sequence of token spellings, of any length, printed with a separator after each
   one, is read back by the lexer as exactly that sequence: what print_tokens does for every
   pair of tokens that were not adjacent in the source. *)
Theorem C19_relex_spaced : forall ts f bol sp,
  Forall (tok_ok punct_table) ts -> (length (spaced ts) < f)%nat ->
  exists toks, lex punct_table f (spaced ts) bol sp = LexOk toks /\ map t_text toks = ts.
Proof. exact (relex_spaced punct_table punct_table_nosep). Qed.
Print Assumptions C19_relex_spaced.

(* For the finite set of punctuators of the regenerated table, every ordered pair either reads
   back as itself when printed adjacent, or is in the computed list of fusing pairs (which the
   printer must, and after the fix does, separate). *)
Theorem C19_punctuator_pairs : forall a b, In a all_puncts -> In b all_puncts ->
  pair_safe a b = true \/ In (a, b) fusing_pairs.
Proof. exact pair_sweep. Qed.
Print Assumptions C19_punctuator_pairs.

Example C19_nonvacuous :
  (In ([45], [45]) fusing_pairs /\ In ([43], [43]) fusing_pairs /\ In ([47], [42]) fusing_pairs /\
   In ([60; 60], [61]) fusing_pairs /\ pair_safe [45] [43] = true) /\
  (tok_ok punct_table [45; 45] /\ tok_ok punct_table [48; 120; 49; 112; 43; 51] /\ tok_ok punct_table [117; 56; 34; 97; 32; 98; 34]).
Proof. exact (conj fusing_examples tok_ok_examples). Qed.
Print Assumptions C19_nonvacuous.
