(* C17 - name tables behave as dictionaries under any history.
   Only statements closed by [exact] + Print Assumptions live here. *)
From Coq Require Import List NArith Bool Lia.
From Chibicc Require Import Model.Hashmap Gen.HashmapConsts Model.HashmapC
     Proofs.HashmapWalk Proofs.HashmapInv Proofs.HashmapRefine Proofs.HashmapInst.
Import ListNotations.
Local Open Scope N_scope.

(* The model instantiated as hashmap.c uses it: byte-string keys, FNV-1 with
   the constants regenerated from the C source, non-NULL values. *)

(* T1: for every history of put/get/delete (any keys, any collisions, any
   number of table growths) shorter than 2^30/100 operations (beyond which the
   C [int] arithmetic of the load-factor test overflows), the table never
   aborts, every get returns what a dictionary returns, and afterwards a name
   is present exactly when its last operation was a put, with that put's value. *)
Theorem C17_refines : forall ops : list (op bytes N),
  N.of_nat (length ops) * 100 < 1073741824 ->
  exists m outs,
    c_run ops = Ok (m, outs) /\
    outs = spec_run bytes N bytes_eqb (fun _ => None) ops /\
    (forall name, c_lookup m name = fold_left (lastw bytes N bytes_eqb name) ops None) /\
    c_Inv m.
Proof. exact C17_refines_proof. Qed.
Print Assumptions C17_refines.

(* T2: the invariant is preserved by every single operation from any state
   that satisfies it (so it holds in every reachable state, whatever the prefix). *)
Theorem C17_inv_step : forall m o,
  c_Inv m -> (used m + 1) * 100 < 1073741824 ->
  exists m' out, c_step m o = Ok (m', out) /\ c_Inv m' /\
    out = snd (spec_step bytes N bytes_eqb (c_lookup m) o) /\
    (forall x, c_lookup m' x = fst (spec_step bytes N bytes_eqb (c_lookup m) o) x).
Proof. exact C17_inv_step_proof. Qed.
Print Assumptions C17_inv_step.

(* T3: the side conditions on the constants of hashmap.c hold for the values
   regenerated from the source (Gen/HashmapConsts.v). *)
Theorem C17_consts_ok : params_ok hm_consts.
Proof. exact consts_ok. Qed.
Print Assumptions C17_consts_ok.

(* T4: without the "keep probing past tombstones" rule the invariant is false:
   the 4-operation history of the pinned tree's defect, replayed on a model
   with the old insertion rule, yields a table that answers a deleted name. *)
Theorem C17_old_rule_refuted :
  exists ops : list (op bytes N),
    old_run ops <> Ok (spec_run bytes N bytes_eqb (fun _ => None) ops).
Proof. exact old_rule_refuted. Qed.
Print Assumptions C17_old_rule_refuted.

(* non-vacuity: a concrete colliding history with a tombstone and a rehash
   runs without abort and meets the hypotheses *)
Example C17_nonvacuous :
  exists m outs, c_run demo_history = Ok (m, outs) /\ c_Inv m /\
     16 < capacity m /\ In Tomb (buckets m) /\
     N.of_nat (length demo_history) * 100 < 1073741824.
Proof. exact demo_history_ok. Qed.
Print Assumptions C17_nonvacuous.
