(* C03, package sw: switch (fall-through, default anywhere, case labels in nested blocks / ifs /
   loops), break / continue through switches and loops, labelled statements and goto:
   gen_stmt's jump code simulates the structured semantics of C11 6.8. *)
From Coq Require Import List Arith Bool.
Import ListNotations.
From Chibicc Require Import Spec.SwSem Spec.SwCont Model.LoweringSw Model.LoweringSwParse Proofs.LoweringSwProofs Proofs.LoweringSwParseProofs Proofs.SwContProofs Proofs.SwContComplete Proofs.LoweringSwCont.

(* The jump code chibicc emits for ANY statement built from markers, blocks, if, for / while, do,
   break, continue, switch, case, default, labels and goto - at any nesting depth, embedded
   anywhere (position p) in any program P, with any break / continue targets b c in force and any
   label table lt - does what the structured semantics says, for every oracle (every sequence of
   values of the controlling expressions):
   - executed from its beginning (m = None), or from one of its labels (m = Some t: a case /
     default label when the enclosing switch dispatches into it, a named label when a goto targets
     it): the code entered at the beginning resp. at the position of that label prints the same
     markers in the same order, consumes the same oracle values, and control ends at the end of the
     statement / at b after a break / at c after a continue / at lt's position for the label of a
     goto that left the statement;
   - when the statement does not contain the label looked for, nothing is executed. *)
Theorem C03_sw_lowering_simulates :
  forall lt f m s o tr o' out, sexec f m s o = Some (tr, o', out) -> swf s = true ->
  forall P p b c, sembedded P p (sgen lt s p b c) ->
  match sentry m s p with
  | None => out = RSeek /\ tr = [] /\ o' = o
  | Some q => out <> RSeek /\ forall r, exists r', sstar P (q, o, r) tr (sout_target lt out p s b c, o', r')
  end.
Proof. exact sw_lowering_simulates. Qed.
Print Assumptions C03_sw_lowering_simulates.

(* A whole function body (label names distinct, every switch with distinct case constants and at
   most one default - the constraints of 6.8.1p3 and 6.8.4.2p3) with chibicc's label resolution:
   whenever the structured semantics gives the body a complete run - through any number of gotos,
   forward, backward, into and out of loops, ifs and switches - the jump code started at position
   0 prints exactly that trace, consumes exactly those oracle values and arrives at its end. *)
Theorem C03_sw_program_simulates :
  forall fuel body o tr o', swf_fn body = true -> srun fuel None body o = Some (tr, o') ->
  forall r, exists r', sstar (sprogram body) (0, o, r) tr (ssize body, o', r').
Proof. exact sw_program_simulates. Qed.
Print Assumptions C03_sw_program_simulates.

(* ... and so does the body when it is entered at one of its labels *)
Theorem C03_sw_function_simulates :
  forall fuel m body o tr o', swf_fn body = true -> srun fuel m body o = Some (tr, o') ->
  exists q, sentry m body 0 = Some q /\ forall r, exists r', sstar (sprogram body) (q, o, r) tr (ssize body, o', r').
Proof. exact sw_function_simulates. Qed.
Print Assumptions C03_sw_function_simulates.

(* The jump machine is deterministic, so that run is THE run: every execution of the emitted code
   that comes to a halt has printed the trace of the structured semantics, has consumed the same
   oracle values, and stands at the end of the code. *)
Theorem C03_sw_program_run_unique :
  forall fuel body o tr o', swf_fn body = true -> srun fuel None body o = Some (tr, o') ->
  forall r t2 st2, sstar (sprogram body) (0, o, r) t2 st2 -> sstep (sprogram body) st2 = None ->
  t2 = tr /\ fst (fst st2) = ssize body /\ snd (fst st2) = o'.
Proof. exact sw_program_run_unique. Qed.
Print Assumptions C03_sw_program_run_unique.

(* The executable machine run that the tie compares with the real program is a run of the machine. *)
Theorem C03_sw_smrun_sound :
  forall P fuel st tr st', smrun fuel P st = Some (tr, st') -> sstar P st tr st' /\ fst (fst st') = length P.
Proof. exact smrun_sound. Qed.
Print Assumptions C03_sw_smrun_sound.

(* In the structured semantics no break and no continue ever leaves a loop, and no break leaves a
   switch (6.8.6.2, 6.8.6.3), whether the statement was entered at its beginning or at a label. *)
Theorem C03_sw_loop_binds_break_continue :
  forall fuel m s o tr o' out,
  (exists init k inc body, s = SFor init k inc body) \/ (exists body k, s = SDo body k) ->
  sexec fuel m s o = Some (tr, o', out) -> out <> RBreak /\ out <> RCont.
Proof. exact sw_loop_binds_break_continue. Qed.
Print Assumptions C03_sw_loop_binds_break_continue.

Theorem C03_sw_switch_binds_break :
  forall fuel m k body o tr o' out, sexec fuel m (SSwitch k body) o = Some (tr, o', out) -> out <> RBreak.
Proof. exact sw_switch_binds_break. Qed.
Print Assumptions C03_sw_switch_binds_break.

(* The constraints are needed and chibicc does not enforce them: with two equal case constants, two
   defaults, or two definitions of a label name, the emitted code takes the LAST one where program
   order (and the structured semantics) meets the first.  chibicc compiles all three programs
   without a diagnostic (C11 5.1.1.3 requires one); replayed on the real compiler, see DELIVERY_sw.md. *)
Theorem C03_sw_duplicates_refuted :
  (swf_fn sdup_case = false /\ srun 20 None sdup_case [1] = Some ([1; 2], []) /\ fmap_trace (smrun 50 (sprogram sdup_case) (0, [1], 0)) = Some [1; 3]) /\
  (swf_fn sdup_default = false /\ srun 20 None sdup_default [7] = Some ([1; 2], []) /\ fmap_trace (smrun 50 (sprogram sdup_default) (0, [7], 0)) = Some [1; 3]) /\
  (swf_fn sdup_label = false /\ srun 20 None sdup_label [] = Some ([2], []) /\ fmap_trace (smrun 50 (sprogram sdup_label) (0, [], 0)) = Some [3]).
Proof. exact sw_duplicates_refuted. Qed.
Print Assumptions C03_sw_duplicates_refuted.

(* parse.c and codegen.c as they do it: stmt() keeps brk_label / cont_label / current_switch in
   globals that it saves, replaces and restores around switch and loops, names every label with a
   number from new_unique_name() (gen_stmt: count()), collects the cases of the current switch and
   the labels of the function in lists, resolves gotos at the end; gen_stmt prints labelled code.
   All labels defined in the code of a function are pairwise distinct ... *)
Theorem C03_sw_parse_labels_unique :
  forall body ctr c code, pfunction body ctr c = Some code -> NoDup (pdefs code).
Proof. exact sw_parse_labels_unique. Qed.
Print Assumptions C03_sw_parse_labels_unique.

(* ... and once the assembler has replaced every label by the position of its definition the
   result is exactly the position-level code sprogram of the theorems above: break binds to the
   innermost loop or switch, continue to the innermost loop (through any switches), case / default
   to the innermost switch (through any blocks, ifs and loops), goto to the label of that name - for
   every function body that parse.c accepts, any nesting, any starting values of the counters. *)
Theorem C03_sw_parse_gen_is_sprogram :
  forall body ctr c code, pfunction body ctr c = Some code -> passemble code = sprogram body.
Proof. exact sw_parse_gen_is_sprogram. Qed.
Print Assumptions C03_sw_parse_gen_is_sprogram.

(* Composition: the assembled code of parse.c + gen_stmt runs as the structured semantics says. *)
Theorem C03_sw_parsed_program_simulates :
  forall body ctr c code fuel o tr o',
  pfunction body ctr c = Some code -> swf_fn body = true -> srun fuel None body o = Some (tr, o') ->
  forall r, exists r', sstar (passemble code) (0, o, r) tr (length (passemble code), o', r').
Proof. exact sw_parsed_program_simulates. Qed.
Print Assumptions C03_sw_parsed_program_simulates.

(* parse.c accepts a function body exactly when every break stands in a loop or switch body, every
   continue in a loop body, every case / default in a switch body, and every goto (also through a
   table) names a label of the function: 6.8.6.3p1, 6.8.6.2p1, 6.8.4.2, 6.8.6.1p1. *)
Theorem C03_sw_parse_accepts_iff :
  forall body ctr c, (exists code, pfunction body ctr c = Some code) <-> svalid_fn body = true.
Proof. exact sw_parse_accepts_iff. Qed.
Print Assumptions C03_sw_parse_accepts_iff.

(* break / continue / case / default with nothing to bind to are rejected ("stray ..."), a continue
   inside a switch that is in no loop included *)
Theorem C03_sw_parse_rejects_stray :
  pfunction SBreak 0 0 = None /\ pfunction SContinue 0 0 = None /\ pfunction (SCase 1 SSkip) 0 0 = None /\ pfunction (SDefault SSkip) 0 0 = None /\
  pfunction (SSwitch 1 SContinue) 0 0 = None /\ pfunction (SFor [] None [] (SCase 1 SBreak)) 0 0 = None.
Proof. exact sw_parse_rejects_stray. Qed.
Print Assumptions C03_sw_parse_rejects_stray.

(* The structured (seek) semantics is not an invention of this development: it agrees with the
   usual continuation semantics of languages with goto (CompCert Clight style, Spec/SwCont.v:
   small steps over statement + continuation, goto / switch replace the continuation by that of the
   labelled statement).  For every statement, mode, oracle and continuation k: what sexec computes is
   a run of the continuation machine from the statement (resp. from the labelled statement that
   sfind finds, and there is none exactly when sexec reports RSeek) to the state that expresses the
   outcome relative to k. *)
Theorem C03_sw_seek_agrees_with_continuations :
  forall fn f m s o tr o' out, sexec f m s o = Some (tr, o', out) -> forall k,
  match centry m s k with
  | None => out = RSeek /\ tr = [] /\ o' = o
  | Some (s1, k1) => exists st', cstar fn (s1, k1, o) tr st' /\ coutcome out k o' st'
  end.
Proof. exact sw_seek_agrees_with_continuations. Qed.
Print Assumptions C03_sw_seek_agrees_with_continuations.

(* whole function bodies: a complete run of srun is a complete run of the continuation machine, and
   the only one (the machine is a function) *)
Theorem C03_sw_program_agrees_with_continuations :
  forall fuel body o tr o', srun fuel None body o = Some (tr, o') -> cstar body (body, Kstop, o) tr (SSkip, Kstop, o').
Proof. exact sw_program_agrees_with_continuations. Qed.
Print Assumptions C03_sw_program_agrees_with_continuations.

Theorem C03_sw_continuation_run_unique :
  forall fuel body o tr o', srun fuel None body o = Some (tr, o') ->
  forall t2 o2, cstar body (body, Kstop, o) t2 (SSkip, Kstop, o2) -> t2 = tr /\ o2 = o'.
Proof. exact sw_continuation_run_unique. Qed.
Print Assumptions C03_sw_continuation_run_unique.

Theorem C03_sw_crun_sound :
  forall fn fuel st tr o', crun fuel fn st = Some (tr, o') -> cstar fn st tr (SSkip, Kstop, o').
Proof. exact crun_sound. Qed.
Print Assumptions C03_sw_crun_sound.

(* ... and conversely: every run of the continuation machine that brings the function body to its
   end is a run of the seek semantics.  The two semantics have exactly the same complete runs. *)
Theorem C03_sw_semantics_equivalent :
  forall body o tr o',
  (exists fuel, srun fuel None body o = Some (tr, o')) <-> cstar body (body, Kstop, o) tr (SSkip, Kstop, o').
Proof. exact sw_semantics_equivalent. Qed.
Print Assumptions C03_sw_semantics_equivalent.

(* Hence the headline result can be read without the seek semantics at all.  Specification =
   Spec/SwCont.v (CompCert-Clight-style continuation semantics of blocks, if, for / while, do,
   break, continue, switch with case / default anywhere in its body, labels, goto, goto through a
   table).  For every function body satisfying the constraints of 6.8.1p3 / 6.8.4.2p3 and every
   oracle: if that semantics runs the body to its end with trace tr, then the jump code chibicc
   generates for it (labels as positions) runs from its first to behind its last instruction with
   exactly the trace tr and the same oracle values consumed. *)
Theorem C03_sw_code_simulates_continuation_semantics :
  forall body o tr o', swf_fn body = true -> cstar body (body, Kstop, o) tr (SSkip, Kstop, o') ->
  forall r, exists r', sstar (sprogram body) (0, o, r) tr (ssize body, o', r').
Proof. exact sw_code_simulates_continuation_semantics. Qed.
Print Assumptions C03_sw_code_simulates_continuation_semantics.

(* the same for the code produced the way parse.c and codegen.c produce it (state-passing parser,
   labelled code, assembler), together with uniqueness: every halting run of that code has the
   trace of the continuation semantics *)
Theorem C03_sw_parsed_code_simulates_continuation_semantics :
  forall body ctr c code o tr o',
  pfunction body ctr c = Some code -> swf_fn body = true -> cstar body (body, Kstop, o) tr (SSkip, Kstop, o') ->
  (forall r, exists r', sstar (passemble code) (0, o, r) tr (length (passemble code), o', r')) /\
  (forall r t2 st2, sstar (passemble code) (0, o, r) t2 st2 -> sstep (passemble code) st2 = None -> t2 = tr /\ snd (fst st2) = o').
Proof. exact sw_parsed_code_simulates_continuation_semantics. Qed.
Print Assumptions C03_sw_parsed_code_simulates_continuation_semantics.

(* ---------- non-vacuity ---------- *)
(* Duff's device:  switch (V(1)) { case 0: do { M(2); case 3: M(3); case 2: M(4); case 1: M(5); } while (E(6)); }
   entered at case 2, one more round, then out *)
Definition sduff : sstmt :=
  SSwitch 1 (SCase 0 (SDo (SSeq (SMark 2) (SSeq (SCase 3 (SMark 3)) (SSeq (SCase 2 (SMark 4)) (SCase 1 (SMark 5))))) 6)).
Example C03_sw_duff_nonvacuous :
  swf_fn sduff = true /\ srun 30 None sduff [2; 1; 0] = Some ([1; 4; 5; 6; 2; 3; 4; 5; 6], []) /\
  sprogram sduff = [JSel 1; JCase 0 6; JCase 1 9; JCase 2 8; JCase 3 7; JJmp 11; JMark 2; JMark 3; JMark 4; JMark 5; JCondJt 6 6] /\
  fmap_trace (smrun 100 (sprogram sduff) (0, [2; 1; 0], 0)) = Some [1; 4; 5; 6; 2; 3; 4; 5; 6].
Proof. vm_compute. repeat split. Qed.

(* for (M(1); E(2); M(3)) switch (V(4)) { case 1: M(5); continue; case 2: M(6); break; default: M(7); l1: M(8); }
   if (E(9)) goto l1;
   continue through the switch, break out of the switch only, default with fall-through into a named
   label, and a goto from behind the loop back into the switch inside the loop body *)
Definition smix : sstmt :=
  SSeq (SFor [1] (Some 2) [3] (SSwitch 4 (SSeq (SCase 1 (SSeq (SMark 5) SContinue)) (SSeq (SCase 2 (SSeq (SMark 6) SBreak)) (SDefault (SSeq (SMark 7) (SLabel 1 (SMark 8))))))))
       (SIf 9 (SGoto 1) SSkip).
Example C03_sw_mix_nonvacuous :
  swf_fn smix = true /\
  srun 30 None smix [1; 1; 1; 2; 1; 7; 0; 1; 1; 2; 0; 0] = Some ([1; 2; 4; 5; 3; 2; 4; 6; 3; 2; 4; 7; 8; 3; 2; 9; 8; 3; 2; 4; 6; 3; 2; 9], []) /\
  fmap_trace (smrun 200 (sprogram smix) (0, [1; 1; 1; 2; 1; 7; 0; 1; 1; 2; 0; 0], 0)) = Some [1; 2; 4; 5; 3; 2; 4; 6; 3; 2; 4; 7; 8; 3; 2; 9; 8; 3; 2; 4; 6; 3; 2; 9].
Proof. vm_compute. repeat split. Qed.

(* seek mode itself: the body of sduff entered at case 1 runs M(5) and the loop condition only *)
Example C03_sw_seek_nonvacuous :
  sexec 30 (Some (TCase 1)) (SDo (SSeq (SMark 2) (SSeq (SCase 3 (SMark 3)) (SSeq (SCase 2 (SMark 4)) (SCase 1 (SMark 5))))) 6) [0] = Some ([5; 6], [], RNormal) /\
  sexec 30 (Some (TCase 4)) (SDo (SSeq (SMark 2) (SSeq (SCase 3 (SMark 3)) (SSeq (SCase 2 (SMark 4)) (SCase 1 (SMark 5))))) 6) [0] = Some ([], [0], RSeek).
Proof. vm_compute. repeat split. Qed.

(* the labelled code of smix with the counters at 13 and 4 (as in a file where f comes fifth):
   .L..13/.L..14 brk/cont of the for, .L..15 brk of the switch, .L..16-18 the case labels in the
   order they are met, .L..19 the named label; .L.begin.4, .L.else.5/.L.end.5 *)
Example C03_sw_parse_nonvacuous :
  pfunction smix 13 4 = Some
    [PI (QMark 1); PDef (LBegin 4); PI (QCondJf 2 (LU 13)); PI (QSel 4); PI (QCase 2 (LU 17)); PI (QCase 1 (LU 16));
     PI (QJmp (LU 18)); PI (QJmp (LU 15)); PDef (LU 16); PI (QMark 5); PI (QJmp (LU 14)); PDef (LU 17);
     PI (QMark 6); PI (QJmp (LU 15)); PDef (LU 18); PI (QMark 7); PDef (LU 19); PI (QMark 8);
     PDef (LU 15); PDef (LU 14); PI (QMark 3); PI (QJmp (LBegin 4)); PDef (LU 13); PI (QCondJf 9 (LElse 5));
     PI (QJmp (LU 19)); PI (QJmp (LEnd 5)); PDef (LElse 5); PDef (LEnd 5)].
Proof. vm_compute. reflexivity. Qed.

(* the continuation machine on the same two programs *)
Example C03_sw_cont_nonvacuous :
  crun 100 sduff (sduff, Kstop, [2; 1; 0]) = Some ([1; 4; 5; 6; 2; 3; 4; 5; 6], []) /\
  crun 300 smix (smix, Kstop, [1; 1; 1; 2; 1; 7; 0; 1; 1; 2; 0; 0]) = Some ([1; 2; 4; 5; 3; 2; 4; 6; 3; 2; 4; 7; 8; 3; 2; 9; 8; 3; 2; 4; 6; 3; 2; 9], []).
Proof. vm_compute. repeat split. Qed.
