(* C15 - linkage, storage duration and symbol emission.  Statements only; proofs in Proofs/. *)
From Chibicc Require Import Base.Mach Model.Linkage Proofs.LinkageProofs Proofs.LinkageComplete.

(* tentative definitions (C11 6.9.2): for EVERY sequence of file-scope declarations of a unit and
   every identifier n: if the unit has a real definition of n, no tentative definition of n is
   emitted; otherwise exactly one is, however many there were (none if there were none) *)
Theorem C15_tentative_merged : forall gs n,
  cnt n (scan_globals gs) = if real gs n then 0%nat else if Nat.eqb (cnt n gs) 0 then 0%nat else 1%nat.
Proof. exact tentative_merged. Qed.
Print Assumptions C15_tentative_merged.

(* everything that is not a tentative definition (real definitions, extern declarations) passes
   through unchanged and in order *)
Theorem C15_real_definitions_kept : forall gs,
  filter (fun g => negb (g_tent g)) (scan_globals gs) = filter (fun g => negb (g_tent g)) gs.
Proof. exact real_definitions_kept. Qed.
Print Assumptions C15_real_definitions_kept.

(* static inline functions: only functions reachable from an always-emitted function through
   recorded references are marked live, for any call graph (cycles included) *)
Theorem C15_live_only_if_reachable : forall fs m, In m (live_set fs) -> reach fs [] m.
Proof. exact live_set_sound. Qed.
Print Assumptions C15_live_only_if_reachable.

(* and conversely every function reachable from an always-emitted one IS marked (function names
   distinct): together, the set of emitted static inline functions is exactly the reachable set *)
Theorem C15_live_if_reachable : forall fs, NoDup (map f_name fs) -> forall m, reach fs [] m -> defined fs m -> In m (live_set fs).
Proof. exact live_set_complete. Qed.
Print Assumptions C15_live_if_reachable.

Theorem C15_marking_monotone : forall fs fuel live n x, In x live -> In x (mark_live fuel fs live n).
Proof. exact mark_live_mono. Qed.
Print Assumptions C15_marking_monotone.

(* non-vacuity: int x; int x; int y; int y = 3; extern int z; int z;   and a cyclic call graph *)
Definition demo_gs := [ {| g_name := 1; g_def := true; g_tent := true |}; {| g_name := 1; g_def := true; g_tent := true |};
                        {| g_name := 2; g_def := true; g_tent := true |}; {| g_name := 2; g_def := true; g_tent := false |};
                        {| g_name := 3; g_def := false; g_tent := false |}; {| g_name := 3; g_def := true; g_tent := true |} ].
Definition demo_fs := [ {| f_name := 1; f_root := true; f_refs := [2] |}; {| f_name := 2; f_root := false; f_refs := [3; 9] |};
                        {| f_name := 3; f_root := false; f_refs := [2] |}; {| f_name := 4; f_root := false; f_refs := [5] |}; {| f_name := 5; f_root := false; f_refs := [4] |} ].
Example C15_nonvacuous : defined_names demo_gs = [1; 2; 3]%nat /\ live_set demo_fs = [3; 2; 1]%nat.
Proof. vm_compute. split; reflexivity. Qed.
Print Assumptions C15_nonvacuous.
