(* C06 - calls obey the System V x86-64 calling convention (the decisions that are logic).
   Only statements closed by [exact] + Print Assumptions live here. *)
From Coq Require Import List ZArith Bool Arith.
From Chibicc Require Import Model.Abi Spec.AbiSpec Gen.AbiConsts Proofs.AbiProofs.
Import ListNotations.
Local Open Scope Z_scope.

(* has_flonum over a type of any nesting (structs, unions, arrays) answers "no INTEGER-class
   field in this eightbyte", i.e. the psABI merge of the field classes is not INTEGER *)
Theorem C06_classifier : forall ty k,
  has_flonum ty (8 * k) (8 * k + 8) 0 = match eightbyte_class ty k with Integer => false | _ => true end.
Proof. exact has_flonum_is_class. Qed.
Print Assumptions C06_classifier.

Theorem C06_struct_registers : forall ty size, 0 < size <= 16 ->
  count_struct_regs ty size =
  let sse k := match eightbyte_class ty k with Integer => false | _ => true end in
  let fp := (b2n (sse 0%Z) + b2n ((8 <? size)%Z && sse 1%Z))%nat in
  (((if (8 <? size)%Z then 2 else 1) - fp)%nat, fp).
Proof. exact count_struct_regs_class. Qed.
Print Assumptions C06_struct_registers.

(* for every argument list - any number and order of INTEGER, SSE, X87 (long double), small
   aggregate with any register needs and MEMORY arguments - the three places that decide where
   an argument lives (push_args' pass_by_stack marking, the pop loop of the call, the callee's
   parameter offsets and prologue) agree with each other and with the psABI algorithm
   (all-or-nothing roll-back included), with the register limits regenerated from codegen.c *)
Theorem C06_three_sites_agree : forall args,
  callee_place GP_MAX FP_MAX 0 0 0 args = psabi_place 0 0 0 args /\
  caller_place GP_MAX FP_MAX 0 0 0 args = psabi_place 0 0 0 args /\
  caller_flags GP_MAX FP_MAX 0 0 args = map is_stack (psabi_place 0 0 0 args).
Proof. exact three_sites_agree. Qed.
Print Assumptions C06_three_sites_agree.

Example C06_nonvacuous :
  (* f(long x4, struct { long; double; }) : the struct still fits (1 GP + 1 SSE) *)
  psabi_place 0 0 0 [AInt; AInt; AInt; AInt; ASmall 1 1 2] =
    [InRegs 0 0; InRegs 1 0; InRegs 2 0; InRegs 3 0; InRegs 4 0] /\
  (* nine doubles then struct { long; }: the ninth double goes to the stack, the struct to %rdi *)
  psabi_place 0 0 0 [AFlt; AFlt; AFlt; AFlt; AFlt; AFlt; AFlt; AFlt; AFlt; ASmall 1 0 1] =
    [InRegs 0 0; InRegs 0 1; InRegs 0 2; InRegs 0 3; InRegs 0 4; InRegs 0 5; InRegs 0 6; InRegs 0 7; OnStack 0; InRegs 0 8] /\
  (* five longs then struct { long; long; }: no room for both eightbytes, whole struct on the stack, next long in %r9 *)
  psabi_place 0 0 0 [AInt; AInt; AInt; AInt; AInt; ASmall 2 0 2; AInt] =
    [InRegs 0 0; InRegs 1 0; InRegs 2 0; InRegs 3 0; InRegs 4 0; OnStack 0; InRegs 5 0] /\
  count_struct_regs (AAgg [(0, ASc false); (8, ASc true)]) 16 = (1%nat, 1%nat) /\
  count_struct_regs (AAgg [(0, ASc true); (4, ASc true)]) 8 = (0%nat, 1%nat).
Proof. vm_compute. repeat split; reflexivity. Qed.
Print Assumptions C06_nonvacuous.
