(* C05, package initcur - which initializer initializes which subobject (parse.c initializer2 & co. = C11 6.7.9).
   Statements only. *)
From Coq Require Import List Arith Bool.
From Chibicc Require Import Spec.InitSyntax Spec.InitSpec Spec.InitValid Model.InitCursor Proofs.InitCursorProofs.
Import ListNotations.

(* For every object type built from scalars, arrays (known length anywhere, unknown length at the top), structs
   and unions, nested to any depth, and every initializer that obeys the constraints of 6.7.9 and does not trigger
   one of the two recorded deviations (`valid`): parse.c does not reject the input; the type it gives the variable
   is the C11 type (6.7.9p22: count_array_init_elements finds "largest index with an explicit initializer, plus
   one"); and the Initializer tree it builds (initializer2, designation, array_initializer1/2, struct_initializer1/2,
   union_initializer), read in the order create_lvar_init and write_gvar_data read it, gives every scalar of the
   object exactly the expression 6.7.9p17-p21 gives it and nothing (zero) to all others: full braces, brace elision
   at every depth, short lists, designators [i] and .m and paths of them, out of order, overriding, positional
   continuation after a designator path into the enclosing aggregates, first / designated union member, string
   literals for character arrays (bare, braced, reached by elision, truncated when too long, sizing an array of
   unknown bound), and the GNU range designator in the form `[a ... b] = initializer-for-one-element`. *)
Theorem C05_initcur_model_is_6_7_9 : forall T v, valid T v = true -> model T v = Some (spec T v).
Proof. exact model_is_spec. Qed.
Print Assumptions C05_initcur_model_is_6_7_9.

(* the same for complete types, hypotheses spelled out *)
Theorem C05_initcur_complete_types : forall T v,
  wf T = true -> ok_init T [] v = true -> clean T (spec_events T v) = true ->
  model T v = Some (spec T v).
Proof. exact model_is_spec_complete. Qed.
Print Assumptions C05_initcur_complete_types.

(* before any reading of the tree: the tree itself is the replay of the standard's event log on the empty tree
   (no `clean` hypothesis: this part holds for the deviating inputs too, parse.c merging where C11 replaces) *)
Theorem C05_initcur_tree_is_replay : forall T v,
  wf T = true -> ok_init T [] v = true ->
  initializer T v = Some (Proofs.InitTree.replay (new_initializer T false) (spec_events T v)).
Proof. exact initializer_is_replay. Qed.
Print Assumptions C05_initcur_tree_is_replay.

(* the exclusion `clean` of `valid` is not gratuitous - finding 1: a braced initializer for a subaggregate that an
   earlier item already touched is MERGED into the earlier values by parse.c; 6.7.9p19+p21 (and gcc, clang) replace:
   struct { struct { int a, b; } p; int c; } q = { 1, 2, 3, .p = { 5 } };  q.p.b is 2, must be 0 *)
Theorem C05_initcur_braced_override_refuted :
  exists T v, wf_top T = true /\ top_ok T v = true /\ ok_init T [] v = true /\ clean T (spec_events T v) = false /\
              model T v <> Some (spec T v).
Proof. exact braced_override_refuted. Qed.
Print Assumptions C05_initcur_braced_override_refuted.

(* finding 1b, the second clause of `clean`: members of a union - when the initialized member of a union changes and
   later changes back, what parse.c stored for the member the first time is still there:
   struct { union { struct { int x, y; } s; long l; } u; int c; } v = { .u.s.x = 1, .u.l = 2, .u.s.y = 3 };  v.u.s.x is 1, must be 0 *)
Theorem C05_initcur_union_switch_refuted :
  exists T v, wf_top T = true /\ top_ok T v = true /\ ok_init T [] v = true /\ clean T (spec_events T v) = false /\
              model T v <> Some (spec T v).
Proof. exact union_switch_refuted. Qed.
Print Assumptions C05_initcur_union_switch_refuted.

(* finding 2 (GNU range designators, outside `valid`): after a range in second or later position of a designator
   list the list goes on at begin+1 instead of end+1:  int x[2][6] = { [1][2 ... 4] = 7, 8 };  x[1][3] is 8 *)
Theorem C05_initcur_nested_range_refuted :
  exists T v, wf_top T = true /\ clean T (spec_events T v) = true /\ model T v <> Some (spec T v).
Proof. exact nested_range_refuted. Qed.
Print Assumptions C05_initcur_nested_range_refuted.

(* finding 3: a string literal that reaches its character array by brace elision through an ARRAY (6.7.9p20) stops
   the compiler with "internal error at parse.c" (string_initializer: unreachable):  struct { char s[2][3]; } x = { "ab" };
   `valid` (str_ok) excludes the situation; the spec gives the C11 object *)
Theorem C05_initcur_string_elision_refuted :
  exists T v, wf_top T = true /\ clean T (spec_events T v) = true /\ model T v = None /\
              snd (spec T v) = [([0; 0; 0], Some (VChar 97)); ([0; 0; 1], Some (VChar 98)); ([0; 0; 2], Some (VChar 0));
                                ([0; 1; 0], None); ([0; 1; 1], None); ([0; 1; 2], None)].
Proof. exact string_elision_refuted. Qed.
Print Assumptions C05_initcur_string_elision_refuted.

(* the hypotheses are satisfiable on a non-trivial input: an array of unknown bound of structs holding an array of
   structs, a union and an int; elision, a 5-step designator path, continuation, a union member, nested braces with
   designators, an out-of-order designator: 24 leaves *)
Example C05_initcur_nonvacuous :
  valid ex_valid_ty ex_valid_init = true /\
  option_map (fun r => length (snd r)) (model ex_valid_ty ex_valid_init) = Some 24 /\
  model ex_valid_ty ex_valid_init = Some (spec ex_valid_ty ex_valid_init).
Proof. exact valid_nonvacuous. Qed.
Print Assumptions C05_initcur_nonvacuous.

(* ... and with string literals: elided, braced, too long for the array (no terminating null), designated, and sizing *)
Example C05_initcur_nonvacuous_strings :
  valid ex_str_ty ex_str_init = true /\
  option_map (fun r => length (snd r)) (model ex_str_ty ex_str_init) = Some 20 /\
  valid (TArray None (TScalar 1)) (IStr [104; 105; 0]) = true /\
  option_map fst (model (TArray None (TScalar 1)) (IStr [104; 105; 0])) = Some (TArray (Some 3) (TScalar 1)).
Proof. exact valid_nonvacuous_strings. Qed.
Print Assumptions C05_initcur_nonvacuous_strings.

(* ... and with a range: int a[][2] = { [1 ... 2] = { 1, 2 }, 3 }; has 4 elements *)
Example C05_initcur_nonvacuous_range :
  valid ex_rng_ty ex_rng_init = true /\
  model ex_rng_ty ex_rng_init
  = Some (TArray (Some 4) (TArray (Some 2) (TScalar 0)),
          [([0; 0], None); ([0; 1], None); ([1; 0], Some (VExpr 1)); ([1; 1], Some (VExpr 2));
           ([2; 0], Some (VExpr 1)); ([2; 1], Some (VExpr 2)); ([3; 0], Some (VExpr 3)); ([3; 1], None)]).
Proof. exact valid_nonvacuous_range. Qed.
Print Assumptions C05_initcur_nonvacuous_range.
