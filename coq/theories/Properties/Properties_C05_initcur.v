(* C05, package initcur - which initializer initializes which subobject (parse.c initializer2 & co. = C11 6.7.9).
   Statements only. *)
From Coq Require Import List Arith Bool.
From Chibicc Require Import Spec.InitSyntax Spec.InitSpec Spec.InitValid Model.InitCursor Proofs.InitCursorProofs.
Import ListNotations.

(* For every object type built from scalars, arrays (known length anywhere, unknown length at the top), structs
   and unions, nested to any depth, and every initializer that obeys the constraints of 6.7.9 and does not trigger
   one of the two recorded deviations (`valid`): parse.c does not reject the input; the type it gives the variable
   is the C11 type (6.7.9p22: count_array_init_elements finds "largest index with an explicit initializer, plus
   one"); and the Initializer tree it builds (initializer2, designation, array_initializer1/2, struct_initializer1/2,
   union_initializer), read in the order create_lvar_init and write_gvar_data read it, gives every scalar of the
   object exactly the expression 6.7.9p17-p21 gives it and nothing (zero) to all others: full braces, brace elision
   at every depth, short lists, designators [i] and .m and paths of them, out of order, overriding, positional
   continuation after a designator path into the enclosing aggregates, first / designated union member, string
   literals for character arrays (bare, braced, reached by elision through structs, unions AND arrays, truncated when
   too long, overriding an earlier initializer of the array - the rest of the array is zero again -, sizing an array of
   unknown bound), and the GNU range designator as the LAST designator of a list (`[a ... b] = v`, `[1][2 ... 4] = v`,
   `.m[0 ... 1] = v`) with v an initializer for one element. *)
Theorem C05_initcur_model_is_6_7_9 : forall T v, valid T v = true -> model T v = Some (spec T v).
Proof. exact model_is_spec. Qed.
Print Assumptions C05_initcur_model_is_6_7_9.

(* the same for complete types, hypotheses spelled out *)
Theorem C05_initcur_complete_types : forall T v,
  wf T = true -> ok_init T [] v = true -> clean T (spec_events T v) = true ->
  model T v = Some (spec T v).
Proof. exact model_is_spec_complete. Qed.
Print Assumptions C05_initcur_complete_types.

(* before any reading of the tree: the tree itself is the replay of the standard's event log on the empty tree
   (no `clean` hypothesis: this part holds for the deviating inputs too, parse.c merging where C11 replaces) *)
Theorem C05_initcur_tree_is_replay : forall T v,
  wf T = true -> ok_init T [] v = true ->
  initializer T v = Some (Proofs.InitTree.replay (new_initializer T false) (spec_events T v)).
Proof. exact initializer_is_replay. Qed.
Print Assumptions C05_initcur_tree_is_replay.

(* the exclusion `clean` of `valid` is not gratuitous - finding 1: a braced initializer for a subaggregate that an
   earlier item already touched is MERGED into the earlier values by parse.c; 6.7.9p19+p21 (and gcc, clang) replace:
   struct { struct { int a, b; } p; int c; } q = { 1, 2, 3, .p = { 5 } };  q.p.b is 2, must be 0 *)
Theorem C05_initcur_braced_override_refuted :
  exists T v, wf_top T = true /\ top_ok T v = true /\ ok_init T [] v = true /\ clean T (spec_events T v) = false /\
              model T v <> Some (spec T v).
Proof. exact braced_override_refuted. Qed.
Print Assumptions C05_initcur_braced_override_refuted.

(* finding 1b, the second clause of `clean`: members of a union - when the initialized member of a union changes and
   later changes back, what parse.c stored for the member the first time is still there:
   struct { union { struct { int x, y; } s; long l; } u; int c; } v = { .u.s.x = 1, .u.l = 2, .u.s.y = 3 };  v.u.s.x is 1, must be 0 *)
Theorem C05_initcur_union_switch_refuted :
  exists T v, wf_top T = true /\ top_ok T v = true /\ ok_init T [] v = true /\ clean T (spec_events T v) = false /\
              model T v <> Some (spec T v).
Proof. exact union_switch_refuted. Qed.
Print Assumptions C05_initcur_union_switch_refuted.

(* former finding 2 (repaired in /repo 43bd8ea, the model follows): after a range in second or later position of a
   designator list the list now goes on after the END of the range:  int x[2][6] = { [1][2 ... 4] = 7, 8 };  x[1][5] is 8.
   Designator lists that END in a range are inside `valid` *)
Example C05_initcur_nested_range_example :
  valid ex_range_ty ex_range_init = true /\
  model ex_range_ty ex_range_init = Some (spec ex_range_ty ex_range_init) /\
  nth_error (snd (spec ex_range_ty ex_range_init)) 11 = Some ([1; 5], Some (VExpr 8)).
Proof. exact nested_range_example. Qed.
Print Assumptions C05_initcur_nested_range_example.

(* former finding 3 (repaired in /repo 50fe612, the model follows): a string literal that reaches its character array by
   brace elision through an ARRAY (6.7.9p20):  struct { char s[2][3]; } x = { "ab" };  is now inside `valid` *)
Example C05_initcur_string_elision_example :
  valid ex_strarr_ty ex_strarr_init = true /\
  model ex_strarr_ty ex_strarr_init
  = Some (ex_strarr_ty, [([0; 0; 0], Some (VChar 97)); ([0; 0; 1], Some (VChar 98)); ([0; 0; 2], Some (VChar 0));
                         ([0; 1; 0], None); ([0; 1; 1], None); ([0; 1; 2], None)]).
Proof. exact string_elision_example. Qed.
Print Assumptions C05_initcur_string_elision_example.

(* a string literal initializes the WHOLE character array, also when it overrides an earlier one (/repo 2e393ab):
   struct R { char name[8]; } r = { "default", .name = "ab" };  is inside `valid`; the bytes behind "ab" are zero *)
Example C05_initcur_string_override_example :
  valid ex_stroverride_ty ex_stroverride_init = true /\
  model ex_stroverride_ty ex_stroverride_init
  = Some (ex_stroverride_ty, [([0; 0], Some (VChar 97)); ([0; 1], Some (VChar 98)); ([0; 2], Some (VChar 0));
                              ([0; 3], None); ([0; 4], None); ([0; 5], None); ([0; 6], None); ([0; 7], None)]).
Proof. exact string_override_example. Qed.
Print Assumptions C05_initcur_string_override_example.

(* the hypotheses are satisfiable on a non-trivial input: an array of unknown bound of structs holding an array of
   structs, a union and an int; elision, a 5-step designator path, continuation, a union member, nested braces with
   designators, an out-of-order designator: 24 leaves *)
Example C05_initcur_nonvacuous :
  valid ex_valid_ty ex_valid_init = true /\
  option_map (fun r => length (snd r)) (model ex_valid_ty ex_valid_init) = Some 24 /\
  model ex_valid_ty ex_valid_init = Some (spec ex_valid_ty ex_valid_init).
Proof. exact valid_nonvacuous. Qed.
Print Assumptions C05_initcur_nonvacuous.

(* ... and with string literals: elided, braced, too long for the array (no terminating null), designated, and sizing *)
Example C05_initcur_nonvacuous_strings :
  valid ex_str_ty ex_str_init = true /\
  option_map (fun r => length (snd r)) (model ex_str_ty ex_str_init) = Some 20 /\
  valid (TArray None (TScalar 1)) (IStr [104; 105; 0]) = true /\
  option_map fst (model (TArray None (TScalar 1)) (IStr [104; 105; 0])) = Some (TArray (Some 3) (TScalar 1)).
Proof. exact valid_nonvacuous_strings. Qed.
Print Assumptions C05_initcur_nonvacuous_strings.

(* ... and with a range: int a[][2] = { [1 ... 2] = { 1, 2 }, 3 }; has 4 elements *)
Example C05_initcur_nonvacuous_range :
  valid ex_rng_ty ex_rng_init = true /\
  model ex_rng_ty ex_rng_init
  = Some (TArray (Some 4) (TArray (Some 2) (TScalar 0)),
          [([0; 0], None); ([0; 1], None); ([1; 0], Some (VExpr 1)); ([1; 1], Some (VExpr 2));
           ([2; 0], Some (VExpr 1)); ([2; 1], Some (VExpr 2)); ([3; 0], Some (VExpr 3)); ([3; 1], None)]).
Proof. exact valid_nonvacuous_range. Qed.
Print Assumptions C05_initcur_nonvacuous_range.
