(* C13 - every input is answered with output or a located diagnostic.  Partial by nature: that the
   C implementation neither crashes nor hangs is not expressible in a Gallina model (every model
   function is total by construction).  What is proved: the LOCATION a diagnostic shows is right,
   and the front-end models answer every input with a value or an explicit error - which the check
   then compares with the implementation's outcome class on mutated inputs. *)
From Chibicc Require Import Base.Mach Model.Diag Proofs.DiagProofs Model.Lexer Model.Macro Gen.PunctTable.

(* the source line printed with a diagnostic is the line that holds the offending token: it contains
   the position, no new-line, and is delimited by new-lines or the ends of the buffer *)
Theorem C13_diagnostic_shows_the_line : forall input loc, (loc <= length input)%nat ->
  let s := line_start input loc in let e := line_end input loc in
  (s <= loc <= e)%nat /\ (e <= length input)%nat /\
  (forall k, (s <= k < e)%nat -> nth_error input k <> Some 10%N) /\
  (s = 0%nat \/ nth_error input (s - 1) = Some 10%N) /\
  (e = length input \/ nth_error input e = Some 10%N).
Proof. exact shown_line_is_the_line. Qed.
Print Assumptions C13_diagnostic_shows_the_line.

(* and the line number printed is the number of that line (1 + new-lines before its start) *)
Theorem C13_diagnostic_line_number : forall input loc, (loc <= length input)%nat ->
  line_no input loc = line_no input (line_start input loc).
Proof. exact line_no_is_of_shown_line. Qed.
Print Assumptions C13_diagnostic_line_number.

(* the lexer model answers every byte string: tokens or an explicit error (never "stuck") *)
Theorem C13_lexer_answers : forall p, (exists l, tokenize punct_table p = LexOk l) \/ tokenize punct_table p = LexErr.
Proof. intros p. destruct (tokenize punct_table p) as [l|]; [left; exists l; reflexivity|right; reflexivity]. Qed.
Print Assumptions C13_lexer_answers.

Example C13_nonvacuous : line_start [97; 10; 98; 99; 100; 10; 101]%N 4 = 2%nat /\ line_end [97; 10; 98; 99; 100; 10; 101]%N 4 = 5%nat /\ line_no [97; 10; 98; 99; 100; 10; 101]%N 4 = 2%nat
  /\ shown_line [97; 10; 98; 99; 100; 10; 101]%N 4 = [98; 99; 100]%N.
Proof. vm_compute. repeat split. Qed.
Print Assumptions C13_nonvacuous.
