(* C09 (package mterm) - macro expansion terminates, for function-like macros too.  Statements only; proofs in
   Proofs/MacroTermProofs.v.  Model: Model/Macro.v (expand_macro / subst / read_macro_args / preprocess2 of
   preprocess.c with fuel).  [pp2] is the driver of a translation unit, [pp_args] the same loop as it is
   applied to a macro argument; the fuel only bounds the number of loop iterations of the model. *)
From Chibicc Require Import Base.Mach Model.Lexer Model.Macro Gen.PunctTable Spec.MacroTermSpec Proofs.MacroProofs Proofs.MacroTermProofs.

(* THE termination theorem.  Whatever macros are defined (object-like, function-like, variadic, with #, ##,
   __VA_OPT__, self-referential or mutually recursive in any shape) and whatever the text is (nested
   invocations, invocations inside arguments, invocations completed by the text that follows the
   replacement; the only condition: no token of the text begins a directive), preprocess2 comes to an end:
   with enough fuel the model returns the expanded token list or the error result (chibicc: error_tok and
   exit 1) - never Fuel, never Unsup - and every larger fuel gives the same result.
   Proved by well-founded induction (no numeric bound: the size of an expansion is not bounded by the sizes
   of the definitions in any simple way); the measure is described at [vec] in MacroTermProofs.v. *)
Theorem C09_mterm_expansion_terminates : forall e ts, Forall nodir ts ->
  exists f, ((exists out, pp2 punct_table f e ts = MOk out) \/ pp2 punct_table f e ts = MErr) /\
            forall f', (f <= f')%nat -> pp2 punct_table f' e ts = pp2 punct_table f e ts.
Proof. exact (macro_expansion_terminates punct_table). Qed.
Print Assumptions C09_mterm_expansion_terminates.

(* the complete driver of the model: the text may itself contain #define and #undef lines (so the macro
   set changes while the text is processed) - still, for EVERY initial macro set and EVERY token list
   there is a fuel with which preprocess2's model gives its final answer (token list, error, or Unsup =
   "a directive outside the model was met"), and more fuel does not change it.  No hypothesis at all. *)
Theorem C09_mterm_driver_terminates : forall e ts,
  exists f, pp2 punct_table f e ts <> MFuel /\ forall f', (f <= f')%nat -> pp2 punct_table f' e ts = pp2 punct_table f e ts.
Proof. exact (driver_terminates punct_table). Qed.
Print Assumptions C09_mterm_driver_terminates.

(* the same for the complete expansion of a macro argument (preprocess2 called from subst), for every
   token list whatsoever: it never needs unbounded fuel *)
Theorem C09_mterm_argument_expansion_terminates : forall e ts,
  exists f, pp_args punct_table f e ts <> MFuel /\ forall f', (f <= f')%nat -> pp_args punct_table f' e ts = pp_args punct_table f e ts.
Proof. exact (pp_args_terminates punct_table). Qed.
Print Assumptions C09_mterm_argument_expansion_terminates.

(* fuel monotonicity of the driver, for every text (directives included) and every environment: a result
   other than Fuel is final.  The ties that run the model with "enough" fuel rely on this. *)
Theorem C09_mterm_fuel_monotone : forall f f' e ts, (f <= f')%nat -> pp2 punct_table f e ts <> MFuel ->
  pp2 punct_table f' e ts = pp2 punct_table f e ts.
Proof. exact (pp2_mono punct_table). Qed.
Print Assumptions C09_mterm_fuel_monotone.

Theorem C09_mterm_fuel_monotone_args : forall e f f' ts, (f <= f')%nat -> pp_args punct_table f e ts <> MFuel ->
  pp_args punct_table f' e ts = pp_args punct_table f e ts.
Proof. exact (pp_args_mono punct_table). Qed.
Print Assumptions C09_mterm_fuel_monotone_args.

(* the substitution loop: a Fuel (or Unsup) result of subst is the result of expanding one of the
   arguments OF THIS INVOCATION (sharper than C09_subst_own_fuel, which only says "of some token list") *)
Theorem C09_mterm_subst_fuel_from_argument : forall pp obj n body args acc r,
  subst punct_table pp obj n body args acc = r -> bad r -> (length body < n)%nat ->
  exists a, In a args /\ pp (a_toks a) = r.
Proof. exact (subst_bad_arg punct_table). Qed.
Print Assumptions C09_mterm_subst_fuel_from_argument.

(* the step of the termination argument, in the terms of Prosser's algorithm.  The pending text is a stack
   of remainders of replacement lists; every token has a base (a subset of its hide set), bases shrink
   towards the bottom of the stack.  Replacing an invocation whose last token (the macro name for an
   object-like macro, the closing parenthesis for a function-like one) has base b yields tokens with base
   b + {name}, although the intersection rule may have removed other names of the macro token's hide set;
   the new stream is smaller in the lexicographic order on (tokens of level 0, of level 1, ...). *)
Theorem C09_mterm_rescan_decreases : forall U sfront x0 safter m body,
  valid (sfront ++ x0 :: safter) -> In m U -> hs_contains (snd x0) m = false ->
  Forall (fun tk => sub (snd x0 ++ [m]) (m_hs tk)) body ->
  valid (map (fun tk => (tk, snd x0 ++ [m])) body ++ safter) /\
  lexlt (vec U (map (fun tk => (tk, snd x0 ++ [m])) body ++ safter)) (vec U (sfront ++ x0 :: safter)).
Proof. exact vec_rescan. Qed.
Print Assumptions C09_mterm_rescan_decreases.

Theorem C09_mterm_order_wellfounded : well_founded lexlt.
Proof. exact lexlt_wf. Qed.
Print Assumptions C09_mterm_order_wellfounded.

(* it ends because nothing is left to replace (Spec/MacroTermSpec.v): in the result no name of an
   object-like macro is left except tokens that carry their own name in the hide set (6.10.3.4p2) *)
Theorem C09_mterm_result_settled : forall e ts, Forall nodir ts -> forall f out,
  pp2 punct_table f e ts = MOk out -> settled e out = true.
Proof. exact (pp2_settled punct_table). Qed.
Print Assumptions C09_mterm_result_settled.

(* non-vacuity.  Definitions:  #define f(a) a*g / #define g(a) f(a)  (6.10.3.4 EXAMPLE, completed by following text),
   #define H(x,...) x ## __VA_ARGS__ #x __VA_OPT__(H(x))  (self-reference, ##, #, __VA_OPT__),  #define O H(O,1) O.
   Text:  f(2)(9) H(O,O) O  *)
Definition mt_defs : list N := [35;100;101;102;105;110;101;32;102;40;97;41;32;97;42;103;10;35;100;101;102;105;110;101;32;103;40;97;41;32;102;40;97;41;10;35;100;101;102;105;110;101;32;72;40;120;44;46;46;46;41;32;120;32;35;35;32;95;95;86;65;95;65;82;71;83;95;95;32;35;120;32;95;95;86;65;95;79;80;84;95;95;40;72;40;120;41;41;10;35;100;101;102;105;110;101;32;79;32;72;40;79;44;49;41;32;79;10]%N.
Definition mt_text : list N := [102;40;50;41;40;57;41;32;72;40;79;44;79;41;32;79;10]%N.
Definition lexed (s : list N) : list mtok := match tokenize punct_table s with LexOk l => of_lex l | LexErr => [] end.
(* the environment as the driver builds it: read the four #define lines *)
Fixpoint env_of (n : nat) (e : env) (ts : list mtok) : env :=
  match n, ts with
  | S n', _h :: _d :: r => match read_definition e r with Some (e', rest) => env_of n' e' rest | None => e end
  | _, _ => e
  end.
Definition mt_env : env := Eval vm_compute in env_of 10 [] (lexed mt_defs).
Definition nodir_b (t : mtok) : bool := negb (m_bol t && is t HASH && from_source t).
Definition spell (r : mres (list mtok)) : option (list (list N)) := match r with MOk l => Some (map m_txt l) | _ => None end.

Example C09_mterm_nonvacuous :
  length mt_env = 4%nat /\ forallb nodir_b (lexed mt_text) = true /\
  pp2 punct_table 20 mt_env (lexed mt_text) = MFuel /\
  spell (pp2 punct_table 60 mt_env (lexed mt_text)) = Some [[50];[42];[57];[42];[103];[79;79];[34;79;34];[72];[40];[79;49];[34;79;34];[72];[40];[79];[41];[79];[41];[79;49];[34;79;34];[72];[40];[79];[41];[79]]%N /\
  pp2 punct_table 1000 mt_env (lexed mt_text) = pp2 punct_table 60 mt_env (lexed mt_text) /\
  terminated_at (fun f => pp2 punct_table f mt_env (lexed mt_text)) 60 = true /\
  match pp2 punct_table 60 mt_env (lexed mt_text) with MOk out => settled mt_env out | _ => false end = true.
Proof. vm_compute. repeat split. Qed.
Print Assumptions C09_mterm_nonvacuous.

(* an invocation that is an error also ends: unterminated argument list *)
Example C09_mterm_nonvacuous_err : pp2 punct_table 50 mt_env (lexed [102;40;49]%N) = MErr.     (* f(1 *)
Proof. vm_compute. reflexivity. Qed.
Print Assumptions C09_mterm_nonvacuous_err.

(* the driver reading the definitions itself gives the same token list *)
Example C09_mterm_nonvacuous_driver :
  spell (pp2 punct_table 70 [] (lexed (mt_defs ++ mt_text))) = spell (pp2 punct_table 60 mt_env (lexed mt_text)) /\
  decided (pp2 punct_table 70 [] (lexed (mt_defs ++ mt_text))) = true.
Proof. vm_compute. split; reflexivity. Qed.
Print Assumptions C09_mterm_nonvacuous_driver.
