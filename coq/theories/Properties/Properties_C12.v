(* C12 - self-hosting fixpoint.  What proof contributes here is (1) the determinism of the only
   numbering state the compiler carries from one construct to the next, and (2) TRANSFER: every
   theorem of the other properties is about a model that the check ties, by correspondence, to the
   chibicc binary it is given; tools/check_c12.py gives them the self-compiled binary. *)
From Chibicc Require Import Base.Mach Model.Labels Proofs.LabelsProofs.

(* the labels handed out while traversing a program are exactly the consecutive numbers after the
   counter's start: they depend on the tree shape and nothing else, and never collide *)
Theorem C12_labels_consecutive : forall fuel t next ls n', number fuel t next = (ls, n') ->
  (next <= n')%nat /\ ls = seq (S next) (n' - next).
Proof. exact number_seq. Qed.
Print Assumptions C12_labels_consecutive.

Theorem C12_labels_unique : forall fuel t next ls n', number fuel t next = (ls, n') -> NoDup ls.
Proof. exact labels_unique. Qed.
Print Assumptions C12_labels_unique.

Example C12_nonvacuous : number 5 (Node [Node []; Node [Node []; Node []]; Node []]) 7 = ([8; 9; 10; 11; 12; 13], 13).
Proof. reflexivity. Qed.
Print Assumptions C12_nonvacuous.
