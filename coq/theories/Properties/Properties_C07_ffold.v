(* C07, package ffold: translation-time evaluation of floating constant expressions (parse.c eval_double / eval_double2 and
   the floating branches of eval2) against C11.  Node-level theorems; whole trees are tied by tools/tie_ffold.py. *)
From Coq Require Import ZArith Bool List.
From Flocq Require Import Core Binary Bits.
From Chibicc Require Import Spec.C11Int Spec.C11Float Spec.C11LDouble Model.ConstFold Model.FloatGen Model.FloatFold
     Proofs.FloatGenProofs Proofs.FloatFoldConv Proofs.FloatFoldProofs Proofs.FloatFoldTree.
Local Open Scope Z_scope.

(* A constant + - * / node of type float (double): chibicc computes (float)l + (float)r on the host and keeps the result in a
   long double; if the operands hold the C11 values of the operand expressions, the node's folded value is the C11 value of the
   node (one rounding to 24 / 53 bits, no rounding in the long double carrier), up to the choice of NaN. *)
Theorem C07_ffold_arith_node_partial : forall t o x y w hx hy, is_fp t = true -> is_arith o = true ->
  hmatch x (HF hx) -> hmatch y (HF hy) -> val_ok t x = true -> val_ok t y = true ->
  eval_common o t x y = Some w ->
  exists r, h_arith t o hx hy = Some r /\ hmatch w (HF (round_to t r)).
Proof. exact arith_node_correct. Qed.
Print Assumptions C07_ffold_arith_node_partial.

(* Unary minus of a constant float / double operand, computed as a long double negation, is the C11 negation. *)
Theorem C07_ffold_neg_node_partial : forall t x w hx, is_fp t = true -> hmatch x (HF hx) -> val_ok t x = true ->
  eval_unary Neg t x = Some w -> hmatch w (HF (round_to t (opp_l hx))).
Proof. exact neg_node_correct. Qed.
Print Assumptions C07_ffold_neg_node_partial.

(* A constant cast (explicit or inserted by the usual arithmetic conversions) to float / double of a value of any integer type,
   float or double, evaluated through long double ((unsigned long) route for unsigned types), is the C11 conversion:
   the value is rounded once. *)
Theorem C07_ffold_cast_to_fp_partial : forall from t v w h, is_fp t = true -> val_ok from v = true -> hmatch v h ->
  convert t v = Some w -> exists h', h_cast from t h = Some h' /\ hmatch w h'.
Proof. exact cast_to_fp_correct. Qed.
Print Assumptions C07_ffold_cast_to_fp_partial.

(* eval_truth of a floating constant (&&, ||, !, ?:) is C11's "compares unequal to 0" (a NaN is true, -0.0 is false). *)
Theorem C07_ffold_truth_partial : forall v h, (exists t, is_fp t = true /\ val_ok t v = true) -> hmatch v h -> h_truth h = truth v.
Proof. exact truth_correct. Qed.
Print Assumptions C07_ffold_truth_partial.

(* `static unsigned long x = 1.8e19;` : C11 6.7.9p11 demands 18000000000000000000; chibicc stored 0x8000000000000000 until /repo 3687651
   made write_gvar_data convert a floating initializer to the integer object's type; the model mirrors that cast and agrees with C11. *)
Example C07_ffold_static_u64_witness :
  feval (fun _ => VI 0) (FLitD d_1_8e19) = Some (VD d_1_8e19) /\
  convert (TI U64) (VD d_1_8e19) = Some (VI 18000000000000000000) /\
  static_bits (TI U64) (FLitD d_1_8e19) = Some 18000000000000000000.
Proof. exact static_u64_witness. Qed.

(* non-vacuity: (float)0x1.000002p0f + 0x1p-24f needs the single rounding to 24 bits; the folder and C11 agree on whole trees *)
Definition f_a : binary32 := b32_of_bits 1065353217.   (* 0x1.000002p0f *)
Definition f_b : binary32 := b32_of_bits 855638016.    (* 0x1p-25f *)
Definition ex_tree : fexpr := FBin Add (FBin Mul (FLitS f_a) (FLitS f_a)) (FCast TF32 (FBin Div (FLit I32 1) (FLitD (b64_of_bits 4613937818241073152)))).
Example C07_ffold_tree_nonvacuous :
  match feval (fun _ => VI 0) ex_tree, fold ex_tree with
  | Some (VS x), Some (HF y) => Some (bits_of_b32 x) = Some (bits_of_b32 (s_of_l y))
  | _, _ => False
  end.
Proof. vm_compute. reflexivity. Qed.
Example C07_ffold_cmp_nonvacuous :
  fold (FBin OLt (FLitD (b64_of_bits 4609434218613702656)) (FLitS f_a)) = Some (HI 0) /\
  fold_int (FCast (TI I32) (FLitD (b64_of_bits 4613937818241073152))) = Some 3.
Proof. vm_compute. split; reflexivity. Qed.

(* Whole trees, stage 1: every constant expression built from float / double constants with + - * /, unary minus and casts to
   float / double (any depth) is folded by chibicc to a long double that carries exactly its C11 value (up to the choice of NaN).
   Partial: integer operands, comparisons, ! && || ?: and casts to integer types are outside fp_tree (covered by the tie). *)
Theorem C07_ffold_tree_partial : forall rho e v, fp_tree e = true -> feval rho e = Some v -> exists h, fold e = Some h /\ hmatch v h.
Proof. exact fold_fp_tree. Qed.
Print Assumptions C07_ffold_tree_partial.

(* ... and `static float/double s = e;` holds the very bits the code chibicc emits for e computes at run time (fpgen's
   run_expr), unless the value is a NaN, whose sign and payload C leaves open. *)
Theorem C07_ffold_equals_runtime_partial : forall rho e v, fp_tree e = true -> feval rho e = Some v ->
  exists sb b, static_bits (ftype_of e) e = Some sb /\ run_expr rho e = Some b /\
    match v with
    | VS x => ftype_of e = TF32 /\ (is_nan 24 128 x = false -> sb = b /\ b = bits_of_b32 x)
    | VD x => ftype_of e = TF64 /\ (is_nan 53 1024 x = false -> sb = b /\ b = bits_of_b64 x)
    | VI _ => False
    end.
Proof. exact static_bits_equal_runtime. Qed.
Print Assumptions C07_ffold_equals_runtime_partial.

(* non-vacuity: 1.0 + 0x1.0000000000001p-53 (rounds differently at 64 and at 53 bits) times a float, cast to float, negated *)
Definition ex_fp : fexpr :=
  FUn Neg (FCast TF32 (FBin Mul (FBin Add (FLitD (b64_of_bits 4607182418800017408)) (FLitD (b64_of_bits 4368491638549381121))) (FLitS f_a))).
Example C07_ffold_fp_tree_nonvacuous :
  fp_tree ex_fp = true /\
  match feval (fun _ => VI 0) ex_fp with Some (VS x) => is_nan 24 128 x = false /\ static_bits TF32 ex_fp = Some (bits_of_b32 x) | _ => False end.
Proof. vm_compute. repeat split; reflexivity. Qed.
