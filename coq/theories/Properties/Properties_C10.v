(* C10 - conditional inclusion and #include resolution.  Statements only; proofs in Proofs/. *)
From Chibicc Require Import Base.Mach Model.Cond Model.Include Proofs.CondProofs Proofs.IncludeProofs.

(* for EVERY well-nested sequence of #if/#ifdef/#ifndef/#elif/#else/#endif and text lines (the
   flattening of any tree of if-sections, any depth, any truth values) the directive dispatcher
   with its skip-ahead functions outputs exactly the text lines of the groups that C11 6.10.1
   selects: the first group of each section whose condition holds, else the #else group *)
Theorem C10_groups_selected : forall (P : Type) (items : list (item P)), run P (flat P items) = Some (select P items).
Proof. exact cond_correct. Qed.
Print Assumptions C10_groups_selected.

(* skipped groups have no effect *)
Theorem C10_skipped_group_irrelevant : forall (P : Type) body1 body2 es els rest,
  run P (flat P (Sec P false body1 es els :: rest)) = run P (flat P (Sec P false body2 es els :: rest)).
Proof. exact skipped_group_irrelevant. Qed.
Print Assumptions C10_skipped_group_irrelevant.

Theorem C10_first_true_group : forall (P : Type) body es els rest,
  run P (flat P (Sec P true body es els :: rest)) = Some (select P body ++ select P rest).
Proof. exact first_true_group. Qed.
Print Assumptions C10_first_true_group.

(* skipping passes over any well-nested text at any depth *)
Theorem C10_skip_balanced : forall (P : Type) l d rest, skipd P d (flat P l ++ rest) = skipd P d rest.
Proof. exact skipd_flat. Qed.
Print Assumptions C10_skip_balanced.

(* include search: the first existing file in the order including directory (for "..."), -I,
   standard, -idirafter; #include_next continues strictly after the previous hit *)
Theorem C10_include_first_match : forall (D N : Type) (ex : D -> N -> bool) dq cur dash_i std after n d,
  resolve D N ex dq cur (include_paths D dash_i std after) n = Some d ->
  ex d n = true /\
  exists k, nth_error ((if dq then [cur] else []) ++ dash_i ++ std ++ after) k = Some d /\
    forall j d', (j < k)%nat -> nth_error ((if dq then [cur] else []) ++ dash_i ++ std ++ after) j = Some d' -> ex d' n = false.
Proof. exact resolve_first_match. Qed.
Print Assumptions C10_include_first_match.

Theorem C10_include_not_found : forall (D N : Type) (ex : D -> N -> bool) dq cur paths n, resolve D N ex dq cur paths n = None ->
  (dq = true -> ex cur n = false) /\ forall d, In d paths -> ex d n = false.
Proof. exact resolve_none. Qed.
Print Assumptions C10_include_not_found.

Theorem C10_include_next : forall (D N : Type) (ex : D -> N -> bool) idx paths n d, resolve_next D N ex idx paths n = Some d ->
  ex d n = true /\ exists k, (idx <= k)%nat /\ nth_error paths k = Some d /\
    forall j d', (idx <= j < k)%nat -> nth_error paths j = Some d' -> ex d' n = false.
Proof. exact resolve_next_spec. Qed.
Print Assumptions C10_include_next.

(* non-vacuity: nested sections, #elif after a taken group, #else *)
Definition demo : list (item nat) :=
  [T nat 1; Sec nat false [T nat 2; Sec nat true [T nat 3] [] None] [(true, [T nat 4; Sec nat false [T nat 5] [] (Some [T nat 6])]); (true, [T nat 7])] (Some [T nat 8]); T nat 9].
Example C10_nonvacuous : run nat (flat nat demo) = Some [1; 4; 6; 9]%nat.
Proof. reflexivity. Qed.
Print Assumptions C10_nonvacuous.
