(* C03 - control flow and lexical scoping.  Statements only; proofs in Proofs/. *)
From Chibicc Require Import Base.Mach Model.Control Proofs.ControlProofs Model.Lowering Proofs.LoweringProofs Model.X86Int Model.ExprGen Model.ExprFlat Proofs.ExprFlatProofs.
Local Open Scope Z_scope.

(* switch: for a controlling value v of the promoted controlling type (signed or unsigned, 32 or 64
   bits) and ANY list of cases (single values and GNU ranges, any order, any values incl. negative
   and beyond 32 bits), the emitted compare-and-branch chain jumps to the first case in list order
   whose converted value equals v (whose converted bounds enclose v) - with pairwise distinct case
   values, as C11 6.8.4.2p3 requires, THE matching case - otherwise to default, otherwise past the switch *)
Theorem C03_switch_dispatch : forall w sgn v cs dflt brk, (w = 32 \/ w = 64) -> in_ty w sgn v -> Forall (wf_case w sgn) cs ->
  (exists pre c post, cs = pre ++ c :: post /\ matches w sgn v c /\ Forall (fun c' => ~ matches w sgn v c') pre /\ dispatch w v cs dflt brk = c_label c)
  \/ (Forall (fun c' => ~ matches w sgn v c') cs /\ dispatch w v cs dflt brk = match dflt with Some l => l | None => brk end).
Proof. exact dispatch_first_match. Qed.
Print Assumptions C03_switch_dispatch.

(* the value parse.c stores for a case (an int when the comparison is 32-bit) denotes the same case value *)
Theorem C03_case_value_stored : forall w sgn v, (w = 32 \/ w = 64) -> conv w sgn (stored w v) = conv w sgn v.
Proof. exact stored_conv. Qed.
Print Assumptions C03_case_value_stored.

(* scoping: innermost declaration wins; a block's declarations vanish with it; tags and ordinary
   identifiers do not hide each other *)
Theorem C03_innermost_binding : forall (K V T : Type) keq (f : frame K V T) s k,
  find_var K V T keq (f :: s) k = match assoc K keq (f_vars K V T f) k with Some v => Some v | None => find_var K V T keq s k end.
Proof. exact find_var_innermost. Qed.
Print Assumptions C03_innermost_binding.

Theorem C03_latest_declaration : forall (K V T : Type) keq (s : scopes K V T) k v k', s <> [] ->
  find_var K V T keq (push_var K V T s k v) k' = if keq k k' then Some v else find_var K V T keq s k'.
Proof. exact push_var_lookup. Qed.
Print Assumptions C03_latest_declaration.

Theorem C03_block_scope_restores : forall (K V T : Type) (s : scopes K V T) ds,
  leave_scope K V T (declare K V T (enter_scope K V T s) ds) = s.
Proof. exact block_scope_restores. Qed.
Print Assumptions C03_block_scope_restores.

Theorem C03_name_spaces_separate : forall (K V T : Type) keq (s : scopes K V T) k t v k',
  find_var K V T keq (push_tag K V T s k t) k' = find_var K V T keq s k' /\ find_tag K V T keq (push_var K V T s k v) k' = find_tag K V T keq s k'.
Proof. intros. split; [apply tag_does_not_hide_var|apply var_does_not_hide_tag]. Qed.
Print Assumptions C03_name_spaces_separate.

(* non-vacuity: a long switch with a value beyond 32 bits, a negative range and a default *)
Definition demo_cases := [ {| c_begin := 4294967297; c_end := 4294967297; c_label := 1 |}; {| c_begin := -5; c_end := -2; c_label := 2 |}; {| c_begin := 1; c_end := 1; c_label := 3 |} ].
Example C03_nonvacuous : map (fun v => dispatch 64 v demo_cases (Some 9%nat) 0%nat) [4294967297; 1; -3; -6; 7] = [1; 3; 2; 9; 9]%nat.
Proof. reflexivity. Qed.
Print Assumptions C03_nonvacuous.

(* lowering of if / for / while / do / break / continue to labels and jumps (gen_stmt): whenever the
   structured program, run on ANY sequence of condition outcomes, produces a trace of markers and
   condition evaluations, the emitted jump code - placed anywhere inside a larger program - produces
   exactly that trace, consumes exactly those outcomes, and leaves control at the end of the
   statement, at the enclosing break target, or at the enclosing continue target respectively.
   No bound on nesting depth, on the number of iterations or on the size of the program. *)
Local Close Scope Z_scope.
Theorem C03_lowering_simulation : forall fuel s o tr o' out, lexec fuel s o = Some (tr, o', out) ->
  forall P p b c, embedded P p (lgen s p b c) -> lstar P (p, o) tr (ltarget out p s b c, o').
Proof. exact lowering_simulates. Qed.
Print Assumptions C03_lowering_simulation.

Theorem C03_lowered_program : forall fuel s o tr o', lexec fuel s o = Some (tr, o', ONormal) ->
  forall b c, lstar (lgen s 0 b c) (0, o) tr (lsize s, o').
Proof. exact program_simulates. Qed.
Print Assumptions C03_lowered_program.

(* the jump machine has one run per state, so the run above is the only one *)
Theorem C03_target_deterministic : forall P s t1 s1, lstar P s t1 s1 -> forall t2 s2, lstar P s t2 s2 ->
  (exists t, lstar P s1 t s2 /\ t2 = t1 ++ t) \/ (exists t, lstar P s2 t s1 /\ t1 = t2 ++ t).
Proof. exact lstar_det. Qed.
Print Assumptions C03_target_deterministic.

(* non-vacuity: for (M1; E2; M3) { if (E4) continue; else M5; do { M6; break; } while (E7); }  on outcomes T T T F F *)
Definition demo_loop := LFor (LMark 1) (Some 2) (LMark 3) (LSeq (LIf 4 LContinue (LMark 5)) (LDo (LSeq (LMark 6) LBreak) 7)).
Example C03_lowering_nonvacuous : lexec 20 demo_loop [true; true; true; false; false] = Some ([1; 2; 4; 3; 2; 4; 5; 6; 3; 2], [], ONormal).
Proof. reflexivity. Qed.
Print Assumptions C03_lowering_nonvacuous.

(* lowering of && || ?: (ND_LOGAND, ND_LOGOR, ND_COND of gen_expr) to compares, conditional jumps and
   labels: whenever the code tree (whose && || ?: nodes evaluate their operands as C11 6.5.13-15
   prescribe: left operand, test, then at most one of the others) runs from a state to a state, the
   emitted jump code, embedded anywhere, runs from the one to the other and ends at its own end *)
Theorem C03_shortcircuit_lowering : forall c st st', grun c st = Some st' ->
  forall P p, fembedded P p (gflatten c p) -> fstar P (p, st) ((p + fsize c)%nat, st').
Proof. exact gflatten_simulates. Qed.
Print Assumptions C03_shortcircuit_lowering.
