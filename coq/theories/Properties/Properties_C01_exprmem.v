(* C01 (package exprmem) - integer expressions WITH OBJECTS: variable reads, =, op=, ++ and -- on local
   variables of the nine integer types have the C11 value, the C11 type and the C11 side effects.
   Only statements closed by [exact] + Print Assumptions live here. *)
From Coq Require Import ZArith Bool List.
From Chibicc Require Import Spec.C11Int Spec.C11IntMem Model.ConstFold Proofs.ConstFoldProofs
     Model.X86Int Model.CodegenInt Gen.CastTable Proofs.CastTableProofs Proofs.CodegenIntProofs
     Model.ExprGen Model.ExprMem Proofs.ExprMemProofs Proofs.ExprMemCorrect Proofs.ExprMemIncDec Proofs.ExprMemMain Proofs.ExprMemOrder
     Model.ExprMemFlat Proofs.ExprMemFlatProofs Proofs.ExprMemLayout.
Import ListNotations.
Local Open Scope Z_scope.

(* a store of n bytes followed by a load of the same n bytes at the same address gives back the low n
   bytes of the stored register (little endian, any n, any address) *)
Theorem C01_load_store_same : forall n m a v, load_le (store_le m a n v) a n = v mod 256 ^ Z.of_nat n.
Proof. exact load_store_same. Qed.
Print Assumptions C01_load_store_same.

(* C04: a store does not change what a load from a disjoint byte range sees - no neighbouring object
   is disturbed by an assignment, whatever the sizes and addresses *)
Theorem C04_store_disjoint : forall m a1 n1 a2 n2 v,
  a2 + Z.of_nat n2 <= a1 \/ a1 + Z.of_nat n1 <= a2 ->
  load_le (store_le m a2 n2 v) a1 n1 = load_le m a1 n1.
Proof. exact store_disjoint. Qed.
Print Assumptions C04_store_disjoint.

(* ... and changes no byte at all outside its own n bytes *)
Theorem C04_store_outside : forall m a n v p, ~ (a <= p < a + Z.of_nat n) -> store_le m a n v p = m p.
Proof. exact store_outside. Qed.
Print Assumptions C04_store_outside.

(* load(ty): movsbl/movzbl/movswl/movzwl/movsxd/mov applied to the object representation of a value
   of the type leaves the register representation of that value (movsbl for _Bool included) *)
Theorem C01_load_by_type : forall t v, in_range t v = true -> R t v (ld_ext (load_kind t) (urepr t v)).
Proof. exact load_R. Qed.
Print Assumptions C01_load_by_type.

(* store(ty): the low size_of(ty) bytes of a register representing v are the object representation of v *)
Theorem C01_store_by_type : forall t v r, in_range t v = true -> R t v r -> r mod 256 ^ Z.of_nat (nbytes t) = urepr t v.
Proof. exact R_urepr. Qed.
Print Assumptions C01_store_by_type.

(* the type add_type gives to every expression with variables, assignments, op= and ++/-- is the C11 type *)
Theorem C01_mem_typing : forall G e, mm_type G e = mtype G e.
Proof. exact mm_type_is_c11. Qed.
Print Assumptions C01_mem_typing.

(* the parser's rewrites  ++x => x += 1,  --x => x -= 1  keep the C11 meaning (value, side effect,
   undefinedness) of every expression *)
Theorem C01_incdec_rewrite : forall G e env, meval G env (desugar G e) = meval G env e.
Proof. exact desugar_meval. Qed.
Print Assumptions C01_incdec_rewrite.

(* THE MAIN THEOREM.  For every expression tree - any depth - over literals and local variables of the
   nine integer types, built from unary + - ~ !, the ten arithmetic/bitwise/shift operators, the six
   comparisons, && || ?: , casts, commas, x = e, x o= e (ten operators), ++x --x x++ x-- (_Bool
   included), whose C11 value is defined (no signed overflow, /0, bad shift, and no unsequenced
   modification 6.5p2): the code gen_expr emits for it, started with ANY registers and ANY operand
   stack in a memory where every variable's bytes are the little-endian representation of its value,
   terminates without fault, leaves the representation of the C11 value (of the C11 type) in %rax,
   the stack as found, every variable holding exactly the value C11 prescribes after the side effects
   (side effects of the untaken operand of && || ?: do not happen), and no byte outside the variables
   and the temporaries of op= and postfix ++/-- changed.
   (wf_frame: the byte ranges of variables and temporaries are pairwise disjoint and inside the address
   space; temps_fit: the frame holds the unnamed locals the parser creates for e, in creation order.) *)
Theorem C01_exprmem_correct : forall F e env v env',
  wf_frame F -> vars_in (nvars F) e = true -> temps_fit F e ->
  meval (ftys F) env e = Some (v, env') ->
  forall s k m, agree F env m ->
  exists s' m', mrun (frbp F) (mcompile F e) (s, k, m) = Some (s', k, m') /\
                R (mtype (ftys F) e) v (rax s') /\ agree F env' m' /\ unchanged_outside F m m'.
Proof. exact mcompile_correct. Qed.
Print Assumptions C01_exprmem_correct.

(* 6.5p2 at work: when the two operands of an operator do not race (neither may modify a variable the
   other may read or modify), evaluating a then b and evaluating b then a give the same two values, the
   same final values of all variables, and are undefined together - so the operand order that
   chibicc happens to use (and that the specification follows) cannot be observed *)
Theorem C01_order_irrelevant : forall G a b env,
  norace a b = true -> eval_then G env a b = swap_res (eval_then G env b a).
Proof. exact meval_order_irrelevant. Qed.
Print Assumptions C01_order_irrelevant.

(* hence the meaning of every unsequenced binary operator can be read with the left operand first *)
Theorem C01_bin_either_order : forall G env o a b, is_logical o = false ->
  meval G env (MBin o a b) =
  if norace a b then
    match eval_then G env a b with
    | Some (x, y, e2) => match eval_binval o (mtype G a) (mtype G b) x y with Some v => Some (v, e2) | None => None end
    | None => None
    end
  else None.
Proof. exact meval_bin_either_order. Qed.
Print Assumptions C01_bin_either_order.

(* an expression changes only variables it syntactically may write, and its result depends only on the
   variables it may read or write (the two facts behind the previous theorem) *)
Theorem C01_writes_sound : forall G e env v env1, meval G env e = Some (v, env1) -> frame_ok (writes e) env env1.
Proof. exact meval_frame. Qed.
Print Assumptions C01_writes_sound.
Theorem C01_footprint_sound : forall G e S env env',
  incl (reads e ++ writes e) S -> eqon S env env' -> res_equiv S (meval G env e) (meval G env' e).
Proof. exact meval_indep. Qed.
Print Assumptions C01_footprint_sound.

(* the specification with objects extends the one without: on expressions that mention no variable it
   is C11Int.eval / type_of (the spec C01_expr_correct is about), and the store is untouched *)
Theorem C01_spec_conservative : forall G e e' env, to_expr e = Some e' ->
  mtype G e = type_of e' /\ meval G env e = lift_res env (eval e').
Proof. exact meval_pure. Qed.
Print Assumptions C01_spec_conservative.

(* the jump-level code (je / jne / jmp and labels as positions, as gen_expr prints ND_LOGAND, ND_LOGOR,
   ND_COND) run on the program-counter machine with memory reaches exactly the state of the code tree,
   wherever it is placed in a larger program *)
Theorem C01_mem_jump_code_simulates : forall rbp c st st', mrun rbp c st = Some st' ->
  forall P p, xembedded P p (mflatten c p) -> xstar rbp P (p, st) ((p + msize c)%nat, st').
Proof. exact mflatten_simulates. Qed.
Print Assumptions C01_mem_jump_code_simulates.

(* ... so the main theorem holds for the instruction sequence chibicc actually prints: from the first
   instruction of the expression the machine reaches the instruction after it, with the C11 value in
   %rax, the stack as found, the variables holding the C11 values, nothing else changed *)
Theorem C01_exprmem_code_correct : forall F e env v env',
  wf_frame F -> vars_in (nvars F) e = true -> temps_fit F e ->
  meval (ftys F) env e = Some (v, env') ->
  forall P p, xembedded P p (mflatten (mcompile F e) p) ->
  forall s k m, agree F env m ->
  exists s' m', xstar (frbp F) P (p, (s, k, m)) ((p + msize (mcompile F e))%nat, (s', k, m')) /\
                R (mtype (ftys F) e) v (rax s') /\ agree F env' m' /\ unchanged_outside F m m'.
Proof. exact mexpr_code_correct. Qed.
Print Assumptions C01_exprmem_code_correct.

(* the frame assign_lvar_offsets lays out for ANY list of declared integer variables and ANY list of
   temporaries (newest local nearest to %rbp, each aligned to its size) is well formed: all byte
   ranges pairwise disjoint and inside the frame, provided the frame fits below %rbp; and it holds the
   temporaries of the expression it was laid out for *)
Theorem C01_layout_wf : forall rbp ts ks, frame_bottom ts ks <= rbp -> rbp <= 2 ^ 64 -> wf_frame (layout rbp ts ks).
Proof. exact layout_wf. Qed.
Print Assumptions C01_layout_wf.
Theorem C01_layout_fits : forall rbp ts e, temps_fit (layout rbp ts (temps_of ts e)) e.
Proof. exact layout_fits. Qed.
Print Assumptions C01_layout_fits.

(* hence the main theorem with no assumption about the frame left: for the frame chibicc lays out *)
Theorem C01_exprmem_correct_laidout : forall rbp ts e env v env',
  frame_bottom ts (temps_of ts e) <= rbp -> rbp <= 2 ^ 64 ->
  vars_in (length ts) e = true ->
  meval ts env e = Some (v, env') ->
  let F := layout rbp ts (temps_of ts e) in
  forall s k m, agree F env m ->
  exists s' m', mrun rbp (mcompile F e) (s, k, m) = Some (s', k, m') /\
                R (mtype ts e) v (rax s') /\ agree F env' m' /\ unchanged_outside F m m'.
Proof. exact mcompile_correct_layout. Qed.
Print Assumptions C01_exprmem_correct_laidout.

(* the frame checks used in examples and by the tie are sound *)
Theorem C01_wf_frame_check : forall F, wf_frameb F = true -> wf_frame F.
Proof. exact wf_frameb_sound. Qed.
Print Assumptions C01_wf_frame_check.
Theorem C01_temps_fit_check : forall F e, temps_fitb F e = true -> temps_fit F e.
Proof. exact temps_fitb_sound. Qed.
Print Assumptions C01_temps_fit_check.

(* non-vacuity: signed char a = -5; unsigned short b = 65535; _Bool c = 1; unsigned d = 1; long e = 41;
     (a = b), ((b += 70000) + e++) + ((c && --d) ? a : (d <<= 1))
   in the frame assign_lvar_offsets lays out: the hypotheses hold, C11 gives 4504 and a=-1 b=4463 c=1 d=0 e=42,
   and running the model's code on a concrete memory gives exactly that *)
Definition nv_ts := [I8; U16; IBool; U32; I64].
Definition nv_e := MComma (MAssign 0 (MVar 1))
   (MBin Add (MBin Add (MOpAssign Add 1 (MLit I32 70000)) (MIncDec true true 4))
             (MCond (MBin LAnd (MVar 2) (MIncDec false false 3)) (MVar 0) (MOpAssign Shl 3 (MLit I32 1)))).
Definition nv_F := layout 4294967296 nv_ts (temps_of nv_ts nv_e).
Definition nv_env := [-5; 65535; 1; 1; 41].
Definition nv_s0 := {| rax := 7; rdi := 8; rdx := 9; rcx := 10; f_zf := false; f_cf := true; f_lt := false |}.
Example C01_exprmem_nonvacuous :
  wf_frameb nv_F = true /\ vars_in (nvars nv_F) nv_e = true /\ temps_fitb nv_F nv_e = true /\
  ftys nv_F = nv_ts /\ map fst (ftemps nv_F) = [TPtr; TSaved I64; TPtr; TPtr; TPtr] /\ frame_bottom nv_ts (temps_of nv_ts nv_e) = 57 /\
  meval nv_ts nv_env nv_e = Some (4504, [-1; 4463; 1; 0; 42]) /\
  agreeb nv_F nv_env (init_mem nv_F nv_env (nvars nv_F) (fun _ => 0)) = true /\
  match mrun (frbp nv_F) (mcompile nv_F nv_e) (nv_s0, [99], init_mem nv_F nv_env (nvars nv_F) (fun _ => 0)) with
  | Some (s', k', m') => rax s' = 4504 /\ k' = [99] /\ agreeb nv_F [-1; 4463; 1; 0; 42] m' = true
  | None => False
  end.
Proof. vm_compute. repeat split; reflexivity. Qed.
Print Assumptions C01_exprmem_nonvacuous.

(* non-vacuity of the order theorem: int a = 3, b = 4, c = 5;  (a = 7) and (b += c) do not race; both orders
   give the values 7 and 9 and the store a=7 b=9 c=5;  (a = 7) and (b += a) race and are excluded *)
Example C01_order_nonvacuous :
  norace (MAssign 0 (MLit I32 7)) (MOpAssign Add 1 (MVar 2)) = true /\
  eval_then [I32; I32; I32] [3; 4; 5] (MAssign 0 (MLit I32 7)) (MOpAssign Add 1 (MVar 2)) = Some (7, 9, [7; 9; 5]) /\
  eval_then [I32; I32; I32] [3; 4; 5] (MOpAssign Add 1 (MVar 2)) (MAssign 0 (MLit I32 7)) = Some (9, 7, [7; 9; 5]) /\
  norace (MAssign 0 (MLit I32 7)) (MOpAssign Add 1 (MVar 0)) = false /\
  eval_then [I32; I32; I32] [3; 4; 5] (MAssign 0 (MLit I32 7)) (MOpAssign Add 1 (MVar 0)) = Some (7, 11, [7; 11; 5]) /\
  eval_then [I32; I32; I32] [3; 4; 5] (MOpAssign Add 1 (MVar 0)) (MAssign 0 (MLit I32 7)) = Some (7, 7, [7; 7; 5]).
Proof. vm_compute. repeat split; reflexivity. Qed.
Print Assumptions C01_order_nonvacuous.

(* the former finding C01-bool-postfix (repaired in /repo by 43b829f, which introduced the saved old value):
   _Bool x = 1; x++  has the C11 value 1 and leaves 1 in x, and so does the modelled code; likewise
   _Bool x = 0; x--  has the value 0 and leaves 1 *)
Definition bp_F := layout 4294967296 [IBool] (temps_of [IBool] (MIncDec true true 0)).
Example C01_bool_postfix_right :
  meval [IBool] [1] (MIncDec true true 0) = Some (1, [1]) /\ meval [IBool] [0] (MIncDec true false 0) = Some (0, [1]) /\
  wf_frameb bp_F = true /\ temps_fitb bp_F (MIncDec true true 0) = true /\
  match mrun (frbp bp_F) (mcompile bp_F (MIncDec true true 0)) (nv_s0, [], init_mem bp_F [1] 1 (fun _ => 0)) with
  | Some (s', k', m') => rax s' = 1 /\ agreeb bp_F [1] m' = true | None => False end /\
  match mrun (frbp bp_F) (mcompile bp_F (MIncDec true false 0)) (nv_s0, [], init_mem bp_F [0] 1 (fun _ => 0)) with
  | Some (s', k', m') => rax s' = 0 /\ agreeb bp_F [1] m' = true | None => False end.
Proof. vm_compute. repeat split; reflexivity. Qed.
Print Assumptions C01_bool_postfix_right.
