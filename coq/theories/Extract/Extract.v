(* Extraction of the executable models (no Extract Constant / Extract Inductive of our own:
   ExtrOcamlBasic only maps bool, option, list, prod, unit, sumbool to OCaml's). *)
Require Extraction.
Require Import ExtrOcamlBasic.
From Chibicc Require Import Model.Hashmap Model.HashmapC.
Extraction "modelext.ml" c_empty c_step fnv capacity.
