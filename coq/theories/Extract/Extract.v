(* Extraction of the executable models (no Extract Constant / Extract Inductive of our own:
   ExtrOcamlBasic only maps bool, option, list, prod, unit, sumbool to OCaml's). *)
Require Extraction.
Require Import ExtrOcamlBasic.
Require Import ExtrOcamlString.  (* stdlib directives: ascii -> char, string -> char list; used only for instruction text *)
From Coq Require Import NArith Bool.
From Chibicc Require Import Proofs.LayoutProofs Proofs.LexerProofs.
From Chibicc Require Import Model.Hashmap Model.HashmapC Model.Unicode Gen.UnicodeTables Spec.Utf
     Model.IntLit Spec.IntLitSpec Model.Layout Model.Declspec Gen.DeclspecTable Spec.DeclspecSpec Spec.C11Int Model.ConstFold Model.X86Int Model.CodegenInt Gen.CastTable Model.Abi Spec.AbiSpec Gen.AbiConsts Model.Driver Model.Lexer Gen.PunctTable Model.Phases Model.SourcePos Model.LineDir Model.Macro Model.Cond Model.Include Model.StackDisc Proofs.StackDiscProofs Model.Control Model.Bitfield Model.Linkage Model.Lowering Model.ExprGen Model.ExprFlat.
Definition is_ident1_m (c : N) : bool := Unicode.in_range ident1_ranges c.
Definition is_ident2_m (c : N) : bool := is_ident1_m c || Unicode.in_range ident2_ranges c.
Extraction "modelext.ml" c_empty c_step fnv capacity
  encode_utf8 decode_utf8 utf16_units rfc3629 utf16_spec is_ident1_m is_ident2_m spec_ident_start spec_ident_cont
  lit_type c11_literal_type
  C11Int.eval type_of m_eval m_type uac m_common promote conv
  gen_cast cast_table gen_binop gen_unop insn_text exec
  has_flonum count_struct_regs psabi_place caller_place callee_place caller_flags eightbyte_class GP_MAX FP_MAX argreg64
  driver final written tmp_created tmp_unlinked outcomes
  Lexer.tokenize punct_table keyword_table print_tokens pair_safe all_puncts fusing_pairs
  token_lines phases12 load impl_lines spec_lines
  scan_globals live_set
  dispatch stored bf_store bf_load_u bf_load_s unit_write elem_addr
  StackDisc.gen gs srun wt wts need sneed cls_of
  pp2 of_lex Cond.run Cond.select Cond.flat resolve resolve_next
  lgen lsize lexec
  compile grun gen_cmp_zero gflatten fsize
  struct_layout union_layout struct_members struct_step no_bad declspec kw_op ds_table c11_type_specifiers.
