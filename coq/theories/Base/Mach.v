(* Shared arithmetic facts: bit operators as div/mod arithmetic, finite sweeps lifted to
   universally quantified statements, lia set-up. *)
From Coq Require Export List NArith ZArith Bool Lia.
From Coq Require Export ZifyBool ZifyN ZifyNat.
Export ListNotations.
Ltac Zify.zify_post_hook ::= Z.div_mod_to_equations.
Local Open Scope N_scope.

Lemma shiftr_div a n : N.shiftr a n = a / 2 ^ n.
Proof. apply N.shiftr_div_pow2. Qed.

Lemma shiftl_mul a n : N.shiftl a n = a * 2 ^ n.
Proof. apply N.shiftl_mul_pow2. Qed.

Lemma land_mod a n : N.land a (N.ones n) = a mod 2 ^ n.
Proof. apply N.land_ones. Qed.

Lemma land_disjoint c k x : x < 2 ^ k -> N.land (c * 2 ^ k) x = 0.
Proof.
  intros H. apply N.bits_inj_0. intros n. rewrite N.land_spec.
  destruct (N.lt_ge_cases n k) as [Hlt|Hge].
  - rewrite N.mul_pow2_bits_low by assumption. reflexivity.
  - replace x with (x mod 2 ^ k) by (apply N.mod_small; assumption).
    rewrite N.mod_pow2_bits_high by assumption. apply andb_false_r.
Qed.

(* (c << k) | x  =  c * 2^k + x   when x has no bit at or above k *)
Lemma lor_shiftl_add c k x : x < 2 ^ k -> N.lor (N.shiftl c k) x = c * 2 ^ k + x.
Proof.
  intros H. rewrite shiftl_mul.
  pose proof (land_disjoint c k x H) as Hd.
  rewrite <- (N.lxor_lor _ _ Hd). symmetry. apply N.add_nocarry_lxor. exact Hd.
Qed.

Lemma lor_const_add h k x : x < 2 ^ k -> N.lor (h * 2 ^ k) x = h * 2 ^ k + x.
Proof. intros H. rewrite <- (lor_shiftl_add h k x H), shiftl_mul. reflexivity. Qed.

(* a finite sweep is a proof of the bounded universal statement *)
Lemma forall_below (P : N -> bool) (n : nat) :
  forallb P (map N.of_nat (seq 0 n)) = true -> forall x, x < N.of_nat n -> P x = true.
Proof.
  intros H x Hx. rewrite forallb_forall in H. apply H.
  apply in_map_iff. exists (N.to_nat x). split; [apply N2Nat.id|]. apply in_seq. lia.
Qed.
