(* The code gen_expr composes for an expression tree over int / float / double operands computes the
   C11 value of the tree (Spec/C11Float.v), bit for bit except for the sign and payload of a NaN:
   by induction on the tree from the per-operator lemmas of Proofs/FloatOpsProofs.v.
   The SSE instructions are defined from the same Flocq operations as the specification, so the content
   of the theorem is: the common type and the conversions inserted, the selection of the ss / sd form,
   the order of the operands, the decoding of the flags, the sign-bit xor, the lanes, and the stack discipline. *)
From Coq Require Import ZArith Bool List Lia.
From Flocq Require Import Core Binary Bits.
From Chibicc Require Import Base.Mach Spec.C11Int Spec.C11Float Model.X86Int Model.CodegenInt Gen.CastTable
     Model.ConstFold Proofs.ConstFoldProofs Proofs.CastTableProofs Proofs.CodegenIntProofs
     Model.X86Sse Model.FloatGen Proofs.X86SseProofs Proofs.X86SseRowsProofs Proofs.FloatOpsProofs.
Local Open Scope Z_scope.

Section Main.
Variable mem : Z -> Z.
Variable rho : nat -> val.
Hypothesis Hmem : forall n, mem (addr_of n) = obj_bits (rho n).

Lemma lit_s_ok (x : binary32) : computes mem (CIns [SMovImm W32 (bits_of_b32 x); SMovqRax X0]) TF32 (VS x).
Proof.
  intros s k. eexists. split; [reflexivity|]. cbn [Rv with_x0 with_ix x0 ix rax set_rax].
  rewrite f32_lane64. unfold f32, lo. cbn [bits]. fold (lane32 (bits_of_b32 x)). rewrite lane32_idem, (lane32_small _ (bits32_range x)), b32_bits.
  apply feq_refl.
Qed.
Lemma lit_d_ok (x : binary64) : computes mem (CIns [SMovImm W64 (bits_of_b64 x); SMovqRax X0]) TF64 (VD x).
Proof.
  intros s k. eexists. split; [reflexivity|]. cbn [Rv with_x0 with_ix x0 ix rax set_rax].
  rewrite f64_lane64. unfold f64, lo. cbn [bits]. fold (lane64 (bits_of_b64 x)). rewrite lane64_idem, (lane64_small _ (bits64_range x)), b64_bits.
  apply feq_refl.
Qed.
Lemma var_ok t n : val_ok t (rho n) = true -> computes mem (CIns [SLea n; SLoad (load_kind t)]) t (rho n).
Proof.
  intros Hv s k. destruct t as [it| |].
  - destruct (val_ok_int it _ Hv) as (z & E & Hz).
    destruct (var_int_ok mem it z s n) as (s' & Es & Rs); [rewrite Hmem, E; reflexivity|exact Hz|].
    exists s'. split; [apply run_ins; exact Es|]. rewrite E. exact Rs.
  - destruct (rho n) as [?|x|?] eqn:E; try discriminate Hv.
    eexists. split; [reflexivity|]. cbn [Rv with_x0 with_ix x0 ix rax set_rax load_kind]. rewrite Hmem, E. cbn [obj_bits].
    rewrite f32_lane64. unfold f32. rewrite lane32_idem, (lane32_small _ (bits32_range x)), b32_bits. apply feq_refl.
  - destruct (rho n) as [?|?|x] eqn:E; try discriminate Hv.
    eexists. split; [reflexivity|]. cbn [Rv with_x0 with_ix x0 ix rax set_rax load_kind]. rewrite Hmem, E. cbn [obj_bits].
    rewrite f64_lane64. unfold f64. rewrite lane64_idem, (lane64_small _ (bits64_range x)), b64_bits. apply feq_refl.
Qed.

Lemma modelled_seq a b : modelled (a ;; b) = true -> modelled a = true /\ modelled b = true.
Proof. cbn [modelled]. apply andb_true_iff. Qed.

(* unary - and ~ on the promoted operand *)
Lemma unop_ok o t x w s : (o = Neg \/ o = BitNot) -> val_ok t x = true -> Rv (promote_ty t) x s -> eval_unary o t x = Some w ->
  exists s', sexec mem (match o with Neg => mneg (promote_ty t) | _ => [SI (INot W64)] end) s = Some s' /\ Rv (promote_ty t) w s'.
Proof.
  intros Ho Hv HR He. destruct t as [it| |].
  - destruct (val_ok_int it x Hv) as (a & -> & Ha). cbn [promote_ty Rv mneg] in *. destruct Ho as [-> | ->]; cbn [eval_unary] in He.
    + destruct (arith_result (promote it) (- a)) as [z|] eqn:E; [|discriminate]. injection He as <-.
      destruct (neg_codegen_ok (promote it) a (ix s) z (promote_big it) HR E) as (a' & Ea & Ra).
      exists (with_ix s a'). split; [apply (sexec_int mem [INeg W64]); exact Ea|exact Ra].
    + injection He as <-.
      destruct (not_codegen_ok (promote it) a (ix s) (promote_big it) HR) as (a' & Ea & Ra).
      exists (with_ix s a'). split; [apply (sexec_int mem [INot W64]); exact Ea|exact Ra].
  - destruct Ho as [-> | ->]; [|destruct x; discriminate He]. apply (fp_neg_ok mem TF32 x w s eq_refl HR He).
  - destruct Ho as [-> | ->]; [|destruct x; discriminate He]. apply (fp_neg_ok mem TF64 x w s eq_refl HR He).
Qed.

Lemma cbin_swap_ok o o' ca ta cb tb x y v :
  (o = OGt /\ o' = OLt \/ o = OGe /\ o' = OLe) ->
  computes mem ca ta x -> computes mem cb tb y -> val_ok ta x = true -> val_ok tb y = true ->
  modelled (cbin o' (uac_ty tb ta) cb tb ca ta true) = true ->
  match convert (uac_ty ta tb) x, convert (uac_ty ta tb) y with
  | Some x', Some y' => eval_common o (uac_ty ta tb) x' y'
  | _, _ => None
  end = Some v ->
  computes mem (cbin o' (uac_ty tb ta) cb tb ca ta true) (TI I32) v.
Proof.
  intros Ho Ha Hb Vx Vy Hm He.
  assert (E : match convert (uac_ty tb ta) y, convert (uac_ty tb ta) x with
              | Some y', Some x' => eval_common o' (uac_ty tb ta) y' x'
              | _, _ => None
              end = Some v).
  { rewrite (uac_ty_comm tb ta). destruct (convert (uac_ty ta tb) x) as [x'|]; [|discriminate].
    destruct (convert (uac_ty ta tb) y) as [y'|]; [|discriminate].
    destruct (eval_common_swap (uac_ty ta tb) x' y') as [S1 S2].
    destruct Ho as [[-> ->] | [-> ->]]; congruence. }
  assert (Sh : is_shift o' = false) by (destruct Ho as [[_ ->] | [_ ->]]; reflexivity).
  assert (Ar : is_arith o' = false) by (destruct Ho as [[_ ->] | [_ ->]]; reflexivity).
  pose proof (cbin_plain_ok mem o' cb tb ca ta y x v Hb Ha Vy Vx Sh) as K. rewrite Ar in K.
  apply K; try assumption; destruct Ho as [[_ ->] | [_ ->]]; discriminate.
Qed.

Theorem compile_correct : forall e v, feval rho e = Some v -> modelled (compile e) = true ->
  computes mem (compile e) (ftype_of e) v.
Proof.
  induction e as [t z|x|x|t n|o a IHa|o a IHa b IHb|t a IHa|c IHc a IHa b IHb|a IHa b IHb]; intros v H Hm.
  - (* integer constant *)
    cbn [feval] in H. destruct (in_range t z) eqn:Hr; [|discriminate]. injection H as <-.
    intros s k. eexists. split; [reflexivity|]. cbn [ftype_of Rv with_ix ix]. apply (R_imm64 mem). exact Hr.
  - injection H as <-. apply lit_s_ok.
  - injection H as <-. apply lit_d_ok.
  - (* object *)
    cbn [feval] in H. destruct (val_ok t (rho n)) eqn:Hv; [|discriminate]. injection H as <-. apply var_ok. exact Hv.
  - (* unary *)
    cbn [feval] in H. destruct (feval rho a) as [x|] eqn:Ea; [|discriminate].
    pose proof (feval_ok rho a x Ea) as Vx.
    pose proof (mf_type_is_c11 a) as Hta. pose proof (mf_type_is_c11 (FUn o a)) as Hte.
    destruct o; cbn [compile] in *.
    + (* - *) apply modelled_seq in Hm as [Ma Hm]. apply modelled_seq in Hm as [Mc Mo]. specialize (IHa x eq_refl Ma).
      rewrite Hte, Hta. cbn [ftype_of]. intros s k. rewrite run_seq. destruct (IHa s k) as (s1 & E1 & R1). rewrite E1.
      rewrite Hte, Hta in Mc. cbn [ftype_of modelled ccast] in Mc. rewrite run_seq.
      destruct (run_cast mem _ _ x x s1 k Vx R1 Mc (convert_promote _ _ Vx)) as (s2 & E2 & R2). rewrite E2.
      destruct (unop_ok Neg _ x v s2 (or_introl eq_refl) Vx R2 H) as (s3 & E3 & R3).
      exists s3. split; [apply run_ins; exact E3|exact R3].
    + (* ~ *) apply modelled_seq in Hm as [Ma Hm]. apply modelled_seq in Hm as [Mc Mo]. specialize (IHa x eq_refl Ma).
      rewrite Hte, Hta. cbn [ftype_of]. intros s k. rewrite run_seq. destruct (IHa s k) as (s1 & E1 & R1). rewrite E1.
      rewrite Hte, Hta in Mc. cbn [ftype_of modelled ccast] in Mc. rewrite run_seq.
      destruct (run_cast mem _ _ x x s1 k Vx R1 Mc (convert_promote _ _ Vx)) as (s2 & E2 & R2). rewrite E2.
      destruct (unop_ok BitNot _ x v s2 (or_intror eq_refl) Vx R2 H) as (s3 & E3 & R3).
      exists s3. split; [apply run_ins; exact E3|exact R3].
    + (* ! *) apply modelled_seq in Hm as [Ma Mo]. specialize (IHa x eq_refl Ma). cbn [eval_unary] in H. injection H as <-.
      rewrite Hta. cbn [ftype_of]. intros s k. rewrite run_seq. destruct (IHa s k) as (s1 & E1 & R1). rewrite E1.
      destruct (lognot_ok mem _ x s1 Vx R1) as (s2 & E2 & R2). exists s2. split; [apply run_ins; exact E2|exact R2].
    + (* + *) apply modelled_seq in Hm as [Ma Mc]. specialize (IHa x eq_refl Ma).
      assert (v = x) as -> by (destruct (ftype_of a) as [it| |], x as [?|?|?]; try discriminate Vx; cbn [eval_unary] in H; congruence).
      rewrite Hte, Hta. cbn [ftype_of]. intros s k. rewrite run_seq. destruct (IHa s k) as (s1 & E1 & R1). rewrite E1.
      rewrite Hte, Hta in Mc. cbn [ftype_of modelled ccast] in Mc.
      apply (run_cast mem _ _ x x s1 k Vx R1 Mc (convert_promote _ _ Vx)).
  - (* binary *)
    pose proof (mf_type_is_c11 a) as Hta. pose proof (mf_type_is_c11 b) as Htb.
    destruct o; cbn [feval] in H;
      try (destruct (feval rho a) as [x|] eqn:Ea; [|discriminate]; pose proof (feval_ok rho a x Ea) as Vx).
    all: try (destruct (feval rho b) as [y|] eqn:Eb; [|discriminate]; pose proof (feval_ok rho b y Eb) as Vy).
    (* + - * / % & | ^ *)
    1-8: cbn [is_shift] in H; cbv zeta in H; cbn [compile is_shift] in Hm |- *; cbn [ftype_of is_arith is_shift];
         rewrite Hta, Htb, mf_common_is_uac in *;
         destruct (modelled_cbin _ _ _ _ _ _ _ Hm) as (Ma & Mb & _ & _);
         match goal with |- computes _ (cbin ?o _ _ _ _ _ _) _ _ =>
           apply (cbin_plain_ok mem o _ _ _ _ x y v (IHa x eq_refl Ma) (IHb y eq_refl Mb) Vx Vy eq_refl) end; try discriminate; [exact Hm|exact H].
    (* << >> *)
    1-2: cbn [is_shift] in H; cbn [compile is_shift] in Hm |- *; cbn [ftype_of is_arith is_shift];
         rewrite Hta, Htb, mf_promote in *;
         destruct (modelled_cbin _ _ _ _ _ _ _ Hm) as (Ma & Mb & _ & _);
         match goal with |- computes _ (cbin ?o _ _ _ _ _ _) _ _ =>
           apply (cbin_shift_ok mem o _ _ _ _ x y v (IHa x eq_refl Ma) (IHb y eq_refl Mb) Vx Vy eq_refl Hm H) end.
    (* == != < <= *)
    1-4: cbn [is_shift] in H; cbv zeta in H; cbn [compile is_shift] in Hm |- *; cbn [ftype_of is_arith is_shift];
         rewrite Hta, Htb, mf_common_is_uac in *;
         destruct (modelled_cbin _ _ _ _ _ _ _ Hm) as (Ma & Mb & _ & _);
         match goal with |- computes _ (cbin ?o _ _ _ _ _ _) _ _ =>
           apply (cbin_plain_ok mem o _ _ _ _ x y v (IHa x eq_refl Ma) (IHb y eq_refl Mb) Vx Vy eq_refl) end; try discriminate; [exact Hm|exact H].
    (* > >= : the parser's swap *)
    1-2: cbn [is_shift] in H; cbv zeta in H; cbn [compile is_shift] in Hm |- *; cbn [ftype_of is_arith is_shift];
         rewrite Hta, Htb, mf_common_is_uac in *;
         destruct (modelled_cbin _ _ _ _ _ _ _ Hm) as (Mb & Ma & _ & _);
         match goal with
         | |- computes _ (cbin OLt _ _ _ _ _ _) _ _ =>
           apply (cbin_swap_ok OGt OLt _ _ _ _ x y v (or_introl (conj eq_refl eq_refl)) (IHa x eq_refl Ma) (IHb y eq_refl Mb) Vx Vy Hm H)
         | |- computes _ (cbin OLe _ _ _ _ _ _) _ _ =>
           apply (cbin_swap_ok OGe OLe _ _ _ _ x y v (or_intror (conj eq_refl eq_refl)) (IHa x eq_refl Ma) (IHb y eq_refl Mb) Vx Vy Hm H)
         end.
    + (* && *)
      cbn [compile modelled] in *. apply andb_true_iff in Hm as [Ma Mb]. specialize (IHa x eq_refl Ma).
      rewrite Hta, Htb. intros s k. cbn [frun ftype_of is_arith is_shift].
      destruct (IHa s k) as (s1 & E1 & R1). rewrite E1.
      destruct (zero_test_ok mem _ x s1 Vx R1) as (s2 & T2). rewrite T2.
      destruct (truth x); cbn [negb] in *.
      * destruct (feval rho b) as [y|] eqn:Eb; [|discriminate]. pose proof (feval_ok rho b y Eb) as Vy.
        specialize (IHb y eq_refl Mb). injection H as <-.
        destruct (IHb s2 k) as (s3 & E3 & R3). rewrite E3.
        destruct (zero_test_ok mem _ y s3 Vy R3) as (s4 & T4). rewrite T4.
        eexists. split; [reflexivity|]. destruct (truth y); cbn [negb]; [apply (Rv_imm s4 true)|apply (Rv_imm s4 false)].
      * injection H as <-. eexists. split; [reflexivity|]. apply (Rv_imm s2 false).
    + (* || *)
      cbn [compile modelled] in *. apply andb_true_iff in Hm as [Ma Mb]. specialize (IHa x eq_refl Ma).
      rewrite Hta, Htb. intros s k. cbn [frun ftype_of is_arith is_shift].
      destruct (IHa s k) as (s1 & E1 & R1). rewrite E1.
      destruct (zero_test_ok mem _ x s1 Vx R1) as (s2 & T2). rewrite T2.
      destruct (truth x); cbn [negb] in *.
      * injection H as <-. eexists. split; [reflexivity|]. apply (Rv_imm s2 true).
      * destruct (feval rho b) as [y|] eqn:Eb; [|discriminate]. pose proof (feval_ok rho b y Eb) as Vy.
        specialize (IHb y eq_refl Mb). injection H as <-.
        destruct (IHb s2 k) as (s3 & E3 & R3). rewrite E3.
        destruct (zero_test_ok mem _ y s3 Vy R3) as (s4 & T4). rewrite T4.
        eexists. split; [reflexivity|]. destruct (truth y); cbn [negb]; [apply (Rv_imm s4 true)|apply (Rv_imm s4 false)].
  - (* cast *)
    cbn [feval] in H. destruct (feval rho a) as [x|] eqn:Ea; [|discriminate].
    cbn [compile] in *. apply modelled_seq in Hm as [Ma Mc]. specialize (IHa x eq_refl Ma).
    rewrite (mf_type_is_c11 a) in *. cbn [ftype_of modelled ccast] in *.
    intros s k. rewrite run_seq. destruct (IHa s k) as (s1 & E1 & R1). rewrite E1.
    apply (run_cast mem _ _ x v s1 k (feval_ok rho a x Ea) R1 Mc H).
  - (* ?: *)
    cbn [feval] in H. destruct (feval rho c) as [x|] eqn:Ec; [|discriminate].
    pose proof (feval_ok rho c x Ec) as Vx. cbv zeta in H.
    cbn [compile] in *. rewrite (mf_type_is_c11 a), (mf_type_is_c11 b), (mf_type_is_c11 c), mf_common_is_uac in *.
    cbn [modelled] in Hm. apply andb_true_iff in Hm as [Hm Mb]. apply andb_true_iff in Hm as [Mc Ma].
    apply modelled_seq in Ma as [Ma Mca]. apply modelled_seq in Mb as [Mb Mcb]. cbn [modelled ccast] in Mca, Mcb.
    specialize (IHc x eq_refl Mc).
    intros s k. cbn [frun ftype_of]. destruct (IHc s k) as (s1 & E1 & R1). rewrite E1.
    destruct (zero_test_ok mem _ x s1 Vx R1) as (s2 & T2). rewrite T2.
    destruct (truth x); cbn [negb].
    + destruct (feval rho a) as [y|] eqn:Ea; [|discriminate]. specialize (IHa y eq_refl Ma).
      destruct (IHa s2 k) as (s3 & E3 & R3). rewrite E3.
      apply (run_cast mem _ _ y v s3 k (feval_ok rho a y Ea) R3 Mca H).
    + destruct (feval rho b) as [y|] eqn:Eb; [|discriminate]. specialize (IHb y eq_refl Mb).
      destruct (IHb s2 k) as (s3 & E3 & R3). rewrite E3.
      apply (run_cast mem _ _ y v s3 k (feval_ok rho b y Eb) R3 Mcb H).
  - (* comma *)
    cbn [feval] in H. destruct (feval rho a) as [x|] eqn:Ea; [|discriminate].
    cbn [compile] in *. apply modelled_seq in Hm as [Ma Mb]. specialize (IHa x eq_refl Ma). specialize (IHb v H Mb).
    intros s k. cbn [ftype_of]. rewrite run_seq. destruct (IHa s k) as (s1 & E1 & R1). rewrite E1. apply IHb.
Qed.
End Main.

(* ---------- the statement on the executable runner: objects in memory, registers and stack start anywhere ---------- *)
Lemma mem_of_ok rho n : mem_of rho (addr_of n) = obj_bits (rho n).
Proof. unfold mem_of, addr_of. rewrite Nat2Z.id. reflexivity. Qed.

(* what the bits delivered by [run_expr] have to be *)
Definition result_is (t : ty) (v : val) (b : Z) : Prop :=
  match t, v with
  | TI it, VI z => b = (if size_of it =? 8 then z mod 2 ^ 64 else z mod 2 ^ 32)
  | TF32, VS x => 0 <= b < 2 ^ 32 /\ feq (b32_of_bits b) x /\ (is_nan 24 128 x = false -> b = bits_of_b32 x)
  | TF64, VD x => 0 <= b < 2 ^ 64 /\ feq (b64_of_bits b) x /\ (is_nan 53 1024 x = false -> b = bits_of_b64 x)
  | _, _ => False
  end.

Lemma Rv_result t v s : val_ok t v = true -> Rv t v s -> result_is t v (result_bits t s).
Proof.
  intros Hv HR. destruct t as [it| |], v as [z|x|x]; try contradiction; cbn [Rv result_is result_bits] in *.
  - destruct HR as [Hr HA]. destruct it; cbn [size_of Z.eqb Pos.eqb] in *; unfold_ty; pows; lia.
  - split; [apply lane32_range|]. split; [exact HR|]. intros N.
    rewrite <- (feq_exact _ _ HR N). unfold f32. symmetry. apply bits_b32, lane32_range.
  - split; [apply lane64_range|]. split; [exact HR|]. intros N.
    rewrite <- (feq_exact _ _ HR N). unfold f64. symmetry. apply bits_b64, lane64_range.
Qed.

Theorem run_expr_correct rho e v : feval rho e = Some v -> modelled (compile e) = true ->
  exists b, run_expr rho e = Some b /\ result_is (ftype_of e) v b.
Proof.
  intros H Hm. unfold run_expr.
  destruct (compile_correct (mem_of rho) rho (mem_of_ok rho) e v H Hm s_init nil) as (s' & E & HR).
  rewrite E. eexists. split; [reflexivity|]. rewrite mf_type_is_c11. apply Rv_result; [apply (feval_ok rho e v H)|exact HR].
Qed.

(* ---------- no hypothesis on the code: every row of the table and every operator of a well-typed tree is modelled ---------- *)
Lemma all_rows_modelled from to : forallb insn_modelled (mcast from to) = true.
Proof. destruct from as [f| |], to as [t| |]; try destruct f; try destruct t; vm_compute; reflexivity. Qed.

Lemma modelled_SI p : forallb insn_modelled (map SI p) = true.
Proof. induction p as [|i p IH]; [reflexivity|exact IH]. Qed.
Lemma cmp_zero_modelled t : forallb insn_modelled (m_cmp_zero t) = true.
Proof. destruct t as [it| |]; reflexivity. Qed.

Lemma mbinop_modelled o t : (is_fp t = true -> int_only o = false) -> o <> OGt -> o <> OGe -> o <> LAnd -> o <> LOr ->
  forallb insn_modelled (mbinop o t) = true.
Proof.
  intros H N1 N2 N3 N4. destruct t as [it| |]; [apply modelled_SI| |];
    specialize (H eq_refl); destruct o; try discriminate H; try congruence; reflexivity.
Qed.

Lemma cbin_modelled o t ca ta cb tb castb : modelled ca = true -> modelled cb = true ->
  forallb insn_modelled (mbinop o t) = true -> modelled (cbin o t ca ta cb tb castb) = true.
Proof.
  intros Ha Hb Ho. unfold cbin, ccast. cbn [modelled]. rewrite Ha, Hb, Ho, all_rows_modelled.
  destruct castb, (is_fp t); cbn [modelled forallb andb]; try rewrite all_rows_modelled; reflexivity.
Qed.

Lemma uac_ty_fp a b : is_fp (uac_ty a b) = is_fp a || is_fp b.
Proof. destruct a as [x| |], b as [y| |]; reflexivity. Qed.
Lemma promote_ty_fp a : is_fp (promote_ty a) = is_fp a.
Proof. destruct a as [x| |]; reflexivity. Qed.

Theorem wt_modelled e : well_typed e = true -> modelled (compile e) = true.
Proof.
  induction e as [t z|x|x|t n|o a IHa|o a IHa b IHb|t a IHa|c IHc a IHa b IHb|a IHa b IHb]; cbn [well_typed]; intros W; try reflexivity.
  - destruct o; cbn [compile modelled ccast];
      try (apply andb_true_iff in W as [W _]); rewrite (IHa W); cbn [andb];
      try rewrite all_rows_modelled; try reflexivity.
    + destruct (mf_type (FUn Neg a)) as [it| |]; reflexivity.
    + rewrite forallb_app, cmp_zero_modelled. reflexivity.
  - apply andb_true_iff in W as [W Wo]. apply andb_true_iff in W as [Wa Wb]. specialize (IHa Wa). specialize (IHb Wb).
    rewrite <- !mf_type_is_c11 in Wo.
    assert (K : forall t, (is_fp t = true -> is_fp (mf_type a) || is_fp (mf_type b) = true) -> is_fp t = true -> int_only o = false).
    { intros t Ht Ft. specialize (Ht Ft). destruct (int_only o); [|reflexivity]. cbn [negb orb] in Wo. unfold is_int_ty in Wo.
      apply andb_true_iff in Wo as [A B]. apply negb_true_iff in A, B. rewrite A, B in Ht. discriminate. }
    destruct o; cbn [compile is_shift modelled]; try (rewrite IHa, IHb; reflexivity);
      apply cbin_modelled; try assumption; apply mbinop_modelled; try discriminate;
      apply K; intros Ft; rewrite ?mf_common_is_uac, ?mf_promote, ?uac_ty_fp, ?promote_ty_fp in Ft;
      try (rewrite Ft; reflexivity); try (rewrite orb_comm; exact Ft); try (rewrite Ft; apply orb_true_r);
      try (cbn [is_fp orb] in Ft; rewrite Ft; reflexivity).
  - cbn [compile modelled ccast]. rewrite (IHa W), all_rows_modelled. reflexivity.
  - apply andb_true_iff in W as [W Wb]. apply andb_true_iff in W as [Wc Wa].
    cbn [compile modelled ccast]. rewrite (IHc Wc), (IHa Wa), (IHb Wb), !all_rows_modelled. reflexivity.
  - apply andb_true_iff in W as [Wa Wb]. cbn [compile modelled]. rewrite (IHa Wa), (IHb Wb). reflexivity.
Qed.

Theorem compile_correct_wt mem rho : (forall n, mem (addr_of n) = obj_bits (rho n)) ->
  forall e v, well_typed e = true -> feval rho e = Some v -> computes mem (compile e) (ftype_of e) v.
Proof. intros Hmem e v W H. apply (compile_correct mem rho Hmem e v H (wt_modelled e W)). Qed.

Theorem run_expr_correct_wt rho e v : well_typed e = true -> feval rho e = Some v ->
  exists b, run_expr rho e = Some b /\ result_is (ftype_of e) v b.
Proof. intros W H. apply (run_expr_correct rho e v H (wt_modelled e W)). Qed.
