(* C09, package mterm: macro expansion terminates for function-like macros too.
   1. a Fuel result of subst comes from an argument of the invocation; monotonicity in the fuel (subst, expand_macro, pp_args, pp2)
   2. shape of an invocation (arguments are pieces of the text between the parentheses)
   3. the measure: bases, levels, lexicographic order on level counts; a replacement makes the pending text smaller
   4. termination of pp_args (any token list), of pp2 on texts without directives, the result is settled
   5. termination of pp2 on every text (with #define / #undef lines) *)
From Chibicc Require Import Base.Mach Model.Lexer Model.Macro Spec.MacroTermSpec Proofs.MacroProofs.
From Coq Require Import Wellfounded.
Local Open Scope N_scope.

Lemma find_arg_in : forall args t a, find_arg args t = Some a -> In a args.
Proof.
  induction args as [|b args IH]; intros t a H; cbn [find_arg] in H; [discriminate|].
  destruct (txt_eqb (a_name b) (m_txt t)); [injection H as ->; left; reflexivity|right; eapply IH; exact H].
Qed.

Section S1.
Variable pt : list (list N).

(* a Fuel or Unsup result of subst (called with the counter expand_macro passes) is the result of
   the complete expansion of one of the ARGUMENTS of the invocation *)
Definition bad (r : mres (list mtok)) : Prop := r = MFuel \/ r = MUnsup.

Theorem subst_bad_arg pp obj : forall n body args acc r,
  subst pt pp obj n body args acc = r -> bad r -> (length body < n)%nat ->
  exists a, In a args /\ pp (a_toks a) = r.
Proof.
  induction n as [|n IH]; intros body args acc r H Hb Hn; [lia|].
  cbn [subst] in H. destruct body as [|t r0]; [subst r; destruct Hb; discriminate|]. cbn [length] in Hn.
  repeat match type of H with
  | context [match ?x with _ => _ end] => destruct x eqn:?
  | context [if ?x then _ else _] => destruct x eqn:?
  end; try (subst r; destruct Hb; discriminate);
  repeat match goal with
  | E : read_arg_one _ _ _ = Some _ |- _ => pose proof (read_arg_one_length _ _ _ _ _ E); apply read_arg_one_suffix in E; destruct E as [E _]; apply suffix_length in E; cbn [length] in E
  end;
  repeat match goal with
  | E : (if ?c then _ else _) = Some _ |- _ => destruct c eqn:?; try discriminate E
  | E : match ?x with _ => _ end = Some _ |- _ => destruct x eqn:?; try discriminate E
  | E : Some _ = Some _ |- _ => injection E as <- <- <-
  end;
  try (pose proof (tl_length r0));
  try solve [eapply IH; [exact H|exact Hb|cbn [length] in *; subst; cbn [length tl] in *; lia]];
  try solve [eexists; split; [eapply find_arg_in; eassumption|subst r; eassumption]];
  try solve [subst r; match goal with E : subst _ _ _ _ _ _ [] = _ |- _ => eapply IH; [exact E|exact Hb|cbn [length] in *; subst; cbn [length tl] in *; lia] end].
Qed.

(* monotonicity: if the expander of arguments is replaced by one that agrees with it wherever it
   did not run out of fuel, a result of subst other than Fuel stays the same *)
Definition pp_le (p1 p2 : list mtok -> mres (list mtok)) : Prop := forall x, p1 x <> MFuel -> p2 x = p1 x.

Lemma subst_mono p1 p2 obj : pp_le p1 p2 -> forall n body args acc,
  subst pt p1 obj n body args acc <> MFuel -> subst pt p2 obj n body args acc = subst pt p1 obj n body args acc.
Proof.
  intros Hle. induction n as [|n IH]; intros body args acc; [intros H; exfalso; apply H; reflexivity|].
  cbn [subst]. destruct body as [|t r0]; [reflexivity|].
  repeat match goal with
  | |- context [p2 ?x] =>
      let E := fresh "E" in destruct (p1 x) eqn:E;
      [rewrite (Hle x) by (rewrite E; discriminate); rewrite E
      |rewrite (Hle x) by (rewrite E; discriminate); rewrite E
      |intros Hc; exfalso; apply Hc; reflexivity
      |rewrite (Hle x) by (rewrite E; discriminate); rewrite E]
  | |- context [match subst pt p2 obj n ?b ?a [] with _ => _ end] =>
      let E := fresh "E" in destruct (subst pt p1 obj n b a []) eqn:E;
      [rewrite (IH b a []) by (rewrite E; discriminate); rewrite E
      |rewrite (IH b a []) by (rewrite E; discriminate); rewrite E
      |intros Hc; exfalso; apply Hc; reflexivity
      |rewrite (IH b a []) by (rewrite E; discriminate); rewrite E]
  | |- context [match ?x with _ => _ end] =>
      lazymatch x with
      | context [p2] => fail
      | context [subst] => fail
      | _ => destruct x eqn:?
      end
  | |- context [if ?x then _ else _] => destruct x eqn:?
  end; try reflexivity; try (apply IH).
Qed.
End S1.

(* ---------- expand_macro, split into the part that does not depend on the expander of arguments
   (is this an invocation? which arguments, which new hide set, what follows?) and the substitution ---------- *)
Record invo := IV { iv_obj : bool; iv_mac : macro; iv_args : list marg; iv_hs : list name; iv_after : list mtok }.
Inductive invres := INo | IErr | IYes (i : invo).

Definition invocation (e : env) (t : mtok) (rest : list mtok) : invres :=
  if hs_contains (m_hs t) (m_txt t) then INo else
  match find_macro e t with
  | None => INo
  | Some m =>
    if mc_obj m then IYes (IV true m [] (hs_union (m_hs t) [m_txt t]) rest)
    else match rest with
         | lp :: r =>
           if is lp LP then
             match read_macro_args (mc_params m) (mc_va m) r with
             | None => IErr
             | Some (args, rparen, after) => IYes (IV false m args (hs_union (hs_inter (m_hs t) (m_hs rparen)) [m_txt t]) after)
             end
           else INo
         | [] => INo
         end
  end.

Section S2.
Variable pt : list (list N).

Definition run_invo (pp : list mtok -> mres (list mtok)) (t : mtok) (i : invo) : expansion :=
  match subst pt pp (iv_obj i) (S (length (mc_body (iv_mac i)))) (mc_body (iv_mac i)) (iv_args i) [] with
  | MOk body => Exp (set_flags (m_bol t) (m_sp t) (add_hideset (iv_hs i) body) ++ iv_after i)
  | MErr => ExpErr | MFuel => ExpFuel | MUnsup => ExpUnsup
  end.

Lemma expand_macro_eq pp e t rest :
  expand_macro pt pp e t rest =
  match invocation e t rest with INo => NoExp | IErr => ExpErr | IYes i => run_invo pp t i end.
Proof.
  unfold expand_macro, invocation, run_invo.
  destruct (hs_contains (m_hs t) (m_txt t)); [reflexivity|].
  destruct (find_macro e t) as [m|]; [|reflexivity].
  destruct (mc_obj m); [reflexivity|].
  destruct rest as [|lp r]; [reflexivity|]. destruct (is lp LP); [|reflexivity].
  destruct (read_macro_args (mc_params m) (mc_va m) r) as [[[args rp] after]|]; reflexivity.
Qed.

Lemma run_invo_mono p1 p2 t i : pp_le p1 p2 -> run_invo p1 t i <> ExpFuel -> run_invo p2 t i = run_invo p1 t i.
Proof.
  intros Hle H. unfold run_invo in *. rewrite (subst_mono pt p1 p2 _ Hle); [reflexivity|].
  intros E. rewrite E in H. apply H. reflexivity.
Qed.

Lemma expand_macro_mono p1 p2 e t rest : pp_le p1 p2 ->
  expand_macro pt p1 e t rest <> ExpFuel -> expand_macro pt p2 e t rest = expand_macro pt p1 e t rest.
Proof.
  intros Hle. rewrite !expand_macro_eq. destruct (invocation e t rest) as [| |i]; try reflexivity. apply run_invo_mono. exact Hle.
Qed.

(* more fuel does not change a result other than Fuel *)
Theorem pp_args_mono e : forall f f' ts, (f <= f')%nat -> pp_args pt f e ts <> MFuel -> pp_args pt f' e ts = pp_args pt f e ts.
Proof.
  induction f as [|f IH]; intros f' ts Hf H; [exfalso; apply H; reflexivity|].
  destruct f' as [|f']; [lia|]. assert (Hf' : (f <= f')%nat) by lia.
  assert (Hle : pp_le (pp_args pt f e) (pp_args pt f' e)) by (intros x Hx; apply IH; assumption).
  cbn [pp_args] in *. destruct ts as [|t r]; [reflexivity|]. revert H.
  destruct (expand_macro pt (pp_args pt f e) e t r) eqn:E; intros H;
    try (exfalso; apply H; reflexivity);
    (rewrite (expand_macro_mono _ _ e t r Hle) by (rewrite E; discriminate)); rewrite E; try reflexivity.
  - revert H. destruct (m_bol t && is t HASH && from_source t); [reflexivity|].
    destruct (pp_args pt f e r) eqn:E2; intros H; try (exfalso; apply H; reflexivity);
      rewrite (IH f' r Hf') by (rewrite E2; discriminate); rewrite E2; reflexivity.
  - apply IH; assumption.
Qed.

Theorem pp2_mono : forall f f' e ts, (f <= f')%nat -> pp2 pt f e ts <> MFuel -> pp2 pt f' e ts = pp2 pt f e ts.
Proof.
  induction f as [|f IH]; intros f' e ts Hf H; [exfalso; apply H; reflexivity|].
  destruct f' as [|f']; [lia|]. assert (Hf' : (f <= f')%nat) by lia.
  assert (Hle : pp_le (pp_args pt f e) (pp_args pt f' e)) by (intros x Hx; apply pp_args_mono; assumption).
  cbn [pp2] in *. destruct ts as [|t r]; [reflexivity|]. revert H.
  destruct (expand_macro pt (pp_args pt f e) e t r) eqn:E; intros H;
    try (exfalso; apply H; reflexivity);
    (rewrite (expand_macro_mono _ _ e t r Hle) by (rewrite E; discriminate)); rewrite E; try reflexivity.
  - revert H. destruct (m_bol t && is t HASH && from_source t); intros H.
    + destruct r as [|d r1]; [reflexivity|].
      destruct (is d DEFINE). { destruct (read_definition e r1) as [[e' rest]|]; [apply IH; assumption|reflexivity]. }
      destruct (is d UNDEF). { destruct r1 as [|nm r2]; [reflexivity|]. destruct (m_kind nm); try reflexivity. apply IH; assumption. }
      destruct (existsb (is d) other_directives || match m_kind d with LNum => true | _ => false end); [reflexivity|].
      destruct (m_bol d); [apply IH; assumption|reflexivity].
    + revert H. destruct (pp2 pt f e r) eqn:E2; intros H; try (exfalso; apply H; reflexivity);
        rewrite (IH f' e r Hf') by (rewrite E2; discriminate); rewrite E2; reflexivity.
  - apply IH; assumption.
Qed.
End S2.

(* ---------- shape of an invocation: the arguments are pieces of the text between ( and ) ---------- *)
Definition infix {A} (x l : list A) : Prop := exists p q, l = p ++ x ++ q.
Lemma infix_self {A} (x : list A) : infix x x.
Proof. exists [], []. rewrite app_nil_r. reflexivity. Qed.
Lemma infix_nil {A} (l : list A) : infix [] l.
Proof. exists [], l. reflexivity. Qed.
Lemma infix_app_l {A} (x l m : list A) : infix x l -> infix x (l ++ m).
Proof. intros (p & q & ->). exists p, (q ++ m). rewrite <- !app_assoc. reflexivity. Qed.
Lemma infix_app_r {A} (x l m : list A) : infix x m -> infix x (l ++ m).
Proof. intros (p & q & ->). exists (l ++ p), q. rewrite <- !app_assoc. reflexivity. Qed.

Lemma read_arg_one_app rr : forall ts lvl a rest, read_arg_one rr lvl ts = Some (a, rest) -> ts = a ++ rest.
Proof.
  induction ts as [|t r IH]; intros lvl a rest H; cbn [read_arg_one] in H; [discriminate|].
  destruct (Nat.eqb lvl 0 && is t RP); [injection H as <- <-; reflexivity|].
  destruct (Nat.eqb lvl 0 && negb rr && is t COMMA); [injection H as <- <-; reflexivity|].
  destruct (read_arg_one rr _ r) as [[a' rest']|] eqn:E; [|discriminate]. injection H as <- <-.
  apply IH in E. subst r. reflexivity.
Qed.

Lemma skip_cons s ts r : skip s ts = Some r -> exists t, ts = t :: r.
Proof. destruct ts as [|t q]; cbn; [discriminate|]. destruct (is t s); [|discriminate]. intros H; injection H as <-. exists t. reflexivity. Qed.

Definition args_in (args : list marg) (pre : list mtok) : Prop := Forall (fun a => infix (a_toks a) pre) args.
Lemma args_in_app_l args l m : args_in args l -> args_in args (l ++ m).
Proof. apply Forall_impl. intros a. apply infix_app_l. Qed.
Lemma args_in_app_r args l m : args_in args m -> args_in args (l ++ m).
Proof. apply Forall_impl. intros a. apply infix_app_r. Qed.

Lemma read_fixed_args_shape : forall ps first ts l rest, read_fixed_args first ps ts = Some (l, rest) ->
  exists pre, ts = pre ++ rest /\ args_in l pre.
Proof.
  induction ps as [|p ps IH]; intros first ts l rest H; cbn [read_fixed_args] in H.
  - injection H as <- <-. exists []. split; [reflexivity|constructor].
  - destruct (if first then Some ts else skip COMMA ts) as [ts1|] eqn:E1; [|discriminate].
    assert (S1 : exists c, ts = c ++ ts1).
    { destruct first; [injection E1 as <-; exists []; reflexivity|]. apply skip_cons in E1. destruct E1 as [c ->]. exists [c]. reflexivity. }
    destruct S1 as [c ->].
    destruct (read_arg_one false 0 ts1) as [[a r1]|] eqn:E2; [|discriminate].
    destruct (read_fixed_args false ps r1) as [[l' r2]|] eqn:E3; [|discriminate]. injection H as <- <-.
    apply read_arg_one_app in E2. apply IH in E3. destruct E3 as (pre' & -> & Hin). subst ts1.
    exists (c ++ a ++ pre'). split; [rewrite <- !app_assoc; reflexivity|].
    constructor.
    + cbn [a_toks]. apply infix_app_r, infix_app_l, infix_self.
    + apply args_in_app_r, args_in_app_r. exact Hin.
Qed.

Lemma read_macro_args_shape ps va ts args rp after : read_macro_args ps va ts = Some (args, rp, after) ->
  exists pre, ts = pre ++ rp :: after /\ args_in args pre.
Proof.
  unfold read_macro_args. destruct (read_fixed_args true ps ts) as [[a0 rest]|] eqn:E; [|discriminate].
  apply read_fixed_args_shape in E. destruct E as (pre0 & -> & Hin0).
  set (wv := match va with None => Some (a0, rest) | Some _ => _ end).
  assert (Hw : forall a r, wv = Some (a, r) -> exists pre, pre0 ++ rest = pre ++ r /\ args_in a pre).
  { subst wv. intros a r. destruct va as [vn|]; [|intros H; injection H as <- <-; exists pre0; split; [reflexivity|exact Hin0]].
    destruct rest as [|t rr]; [discriminate|].
    destruct (is t RP).
    { intros H; injection H as <- <-. exists pre0. split; [reflexivity|]. apply Forall_app. split; [exact Hin0|].
      constructor; [apply infix_nil|constructor]. }
    destruct (match ps with [] => Some (t :: rr) | _ => skip COMMA (t :: rr) end) as [r1|] eqn:E1; [|discriminate].
    assert (S1 : exists c, t :: rr = c ++ r1).
    { destruct ps; [injection E1 as <-; exists []; reflexivity|]. apply skip_cons in E1. destruct E1 as [c0 E1]. exists [c0]. exact E1. }
    destruct S1 as [c Hc]. rewrite Hc.
    destruct (read_arg_one true 0 r1) as [[av r2]|] eqn:E2; [|discriminate]. intros H; injection H as <- <-.
    apply read_arg_one_app in E2. subst r1. exists (pre0 ++ c ++ av). split; [rewrite <- !app_assoc; reflexivity|].
    apply Forall_app. split; [apply args_in_app_l; exact Hin0|].
    constructor; [cbn [a_toks]; apply infix_app_r, infix_app_r, infix_self|constructor]. }
  destruct wv as [[a' [|t r]]|]; try discriminate. destruct (is t RP); [|discriminate]. intros H; injection H as <- <- <-.
  destruct (Hw _ _ eq_refl) as (pre & Hpre & Hin). exists pre. split; assumption.
Qed.

Lemma invocation_shape e t rest i : invocation e t rest = IYes i ->
  hs_contains (m_hs t) (m_txt t) = false /\ (exists m, lookup e (m_txt t) = Some m) /\
  ((iv_args i = [] /\ iv_after i = rest /\ iv_hs i = hs_union (m_hs t) [m_txt t]) \/
   (exists lp pre rp, rest = lp :: pre ++ rp :: iv_after i /\ args_in (iv_args i) pre /\
                      iv_hs i = hs_union (hs_inter (m_hs t) (m_hs rp)) [m_txt t])).
Proof.
  unfold invocation. destruct (hs_contains (m_hs t) (m_txt t)); [discriminate|].
  destruct (find_macro e t) as [m|] eqn:Em; [|discriminate].
  assert (Hl : exists m, lookup e (m_txt t) = Some m).
  { unfold find_macro in Em. destruct (m_kind t); try discriminate. exists m. exact Em. }
  destruct (mc_obj m).
  - intros H. injection H as <-. cbn. split; [reflexivity|]. split; [exact Hl|]. left. repeat split.
  - destruct rest as [|lp r]; [discriminate|]. destruct (is lp LP); [|discriminate].
    destruct (read_macro_args (mc_params m) (mc_va m) r) as [[[args rp] after]|] eqn:Ea; [|discriminate].
    intros H. injection H as <-. cbn. split; [reflexivity|]. split; [exact Hl|]. right.
    apply read_macro_args_shape in Ea. destruct Ea as (pre & -> & Hin). exists lp, pre, rp. repeat split. exact Hin.
Qed.

(* ---------- a well-founded lexicographic order on vectors of naturals ---------- *)
Inductive lexlt : list nat -> list nat -> Prop :=
| lex_hd a b u v : (a < b)%nat -> length u = length v -> lexlt (a :: u) (b :: v)
| lex_tl a u v : lexlt u v -> lexlt (a :: u) (a :: v).

Lemma lexlt_length u v : lexlt u v -> length u = length v.
Proof. induction 1 as [a b u v _ Hl|a u v _ IH]; cbn [length]; congruence. Qed.

Lemma lexlt_acc_len : forall n v, length v = n -> Acc lexlt v.
Proof.
  induction n as [|n IHn]; intros v Hv.
  - destruct v; [|discriminate]. constructor. intros y Hy. inversion Hy.
  - destruct v as [|b v']; [discriminate|]. injection Hv as Hv.
    revert v' Hv. induction b as [b IHb] using lt_wf_ind. intros v' Hv.
    pose proof (IHn v' Hv) as Hacc. revert Hv. induction Hacc as [v' _ IHv]. intros Hv.
    constructor. intros y Hy. inversion Hy as [a b' u v0 Hab Hlen|a u v0 Hlt]; subst.
    + apply IHb; [exact Hab|congruence].
    + apply IHv; [exact Hlt|]. rewrite (lexlt_length _ _ Hlt). reflexivity.
Qed.
Lemma lexlt_wf : well_founded lexlt.
Proof. intros v. eapply lexlt_acc_len. reflexivity. Qed.

(* vectors given by a function on an interval of indices *)
Lemma lexlt_at (f g : nat -> nat) j : forall n a, (a <= j < a + n)%nat ->
  (forall l, (a <= l < j)%nat -> f l = g l) -> (f j < g j)%nat ->
  lexlt (map f (seq a n)) (map g (seq a n)).
Proof.
  induction n as [|n IH]; intros a Hj Heq Hlt; [lia|]. cbn [seq map].
  destruct (Nat.eq_dec a j) as [->|Hne].
  - apply lex_hd; [exact Hlt|rewrite !map_length; reflexivity].
  - rewrite (Heq a) by lia. apply lex_tl. apply IH; [lia| |exact Hlt]. intros l Hl. apply Heq. lia.
Qed.

Lemma lexlt_pointwise (f g : nat -> nat) j : forall n a, (a <= j < a + n)%nat ->
  (forall l, (f l <= g l)%nat) -> (f j < g j)%nat ->
  lexlt (map f (seq a n)) (map g (seq a n)).
Proof.
  induction n as [|n IH]; intros a Hj Hle Hlt; [lia|]. cbn [seq map].
  destruct (Nat.eq_dec a j) as [->|Hne].
  - apply lex_hd; [exact Hlt|rewrite !map_length; reflexivity].
  - pose proof (Hle a) as Ha. destruct (Nat.eq_dec (f a) (g a)) as [Heq|Hneq].
    + rewrite Heq. apply lex_tl. apply IH; [lia|exact Hle|exact Hlt].
    + apply lex_hd; [lia|rewrite !map_length; reflexivity].
Qed.

(* ---------- the measure.  Each token of the pending stream is annotated with a "base" hide set:
   a set of names contained in the token's hide set, such that the bases shrink along the stream
   (the stream is a stack of remainders of replacement lists, innermost first; the base of a
   remainder is what all of its tokens were given when they were produced).  A function-like
   invocation that reaches down to a ")" with base b produces tokens with base b + {macro name}:
   the intersection rule can lose names of the macro token's hide set, but never names of b.
   Level of a token = number of defined names in its base; the stream is measured by the vector
   (number of tokens of level 0, of level 1, ..., of level |U|), compared lexicographically. ---------- *)
Section Level.
Variable U : list name.                                 (* the names that can be macro names *)

Definition sub (b h : list name) : Prop := forall n, hs_contains b n = true -> hs_contains h n = true.
Definition cov (b : list name) : nat := length (filter (hs_contains b) U).
Definition astream := list (mtok * list name).
Fixpoint valid (s : astream) : Prop :=
  match s with
  | [] => True
  | x :: r => sub (snd x) (m_hs (fst x)) /\ Forall (fun y => sub (snd y) (snd x)) r /\ valid r
  end.
Definition cnt (l : nat) (s : astream) : nat := length (filter (fun x => Nat.eqb (cov (snd x)) l) s).
Definition vec (s : astream) : list nat := map (fun l => cnt l s) (seq 0 (S (length U))).

Lemma sub_refl b : sub b b. Proof. intros n H. exact H. Qed.
Lemma sub_trans a b c : sub a b -> sub b c -> sub a c.
Proof. intros H1 H2 n H. apply H2, H1, H. Qed.

Lemma filter_len_le {A} (f g : A -> bool) l : (forall y, f y = true -> g y = true) ->
  (length (filter f l) <= length (filter g l))%nat.
Proof.
  intros Hfg. induction l as [|b l IHl]; cbn [filter]; [lia|].
  destruct (f b) eqn:Eb; [rewrite (Hfg _ Eb); cbn [length]; lia|]. destruct (g b); cbn [length]; lia.
Qed.
Lemma cov_le b : (cov b <= length U)%nat.
Proof. unfold cov. induction U as [|u l IH]; cbn [filter length]; [lia|]. destruct (hs_contains b u); cbn [length]; lia. Qed.
Lemma cov_mono a b : sub a b -> (cov a <= cov b)%nat.
Proof. intros H. unfold cov. apply filter_len_le. exact H. Qed.
Lemma cov_add b m : In m U -> hs_contains b m = false -> (cov b < cov (b ++ [m]))%nat.
Proof.
  intros Hin Hn. unfold cov. eapply filter_length_lt with (x := m).
  - intros y Hy. rewrite hs_contains_app, Hy. reflexivity.
  - exact Hin.
  - rewrite hs_contains_app. unfold hs_contains at 2. cbn [existsb]. rewrite txt_eqb_refl. rewrite orb_true_r. reflexivity.
  - exact Hn.
Qed.

Lemma cnt_app l a b : cnt l (a ++ b) = (cnt l a + cnt l b)%nat.
Proof. unfold cnt. rewrite filter_app, app_length. reflexivity. Qed.
Lemma cnt_cons l x s : cnt l (x :: s) = ((if Nat.eqb (cov (snd x)) l then 1 else 0) + cnt l s)%nat.
Proof. unfold cnt. cbn [filter]. destruct (Nat.eqb (cov (snd x)) l); reflexivity. Qed.
Lemma cnt_zero l s : Forall (fun x => cov (snd x) <> l) s -> cnt l s = 0%nat.
Proof.
  induction 1 as [|x s Hx _ IH]; [reflexivity|]. rewrite cnt_cons, IH.
  destruct (Nat.eqb_spec (cov (snd x)) l); [contradiction|reflexivity].
Qed.

Lemma valid_app a : forall b, valid (a ++ b) ->
  valid a /\ valid b /\ Forall (fun x => Forall (fun y => sub (snd y) (snd x)) b) a.
Proof.
  induction a as [|x a IH]; intros b H; cbn [app valid] in *; [repeat split; [exact H|constructor]|].
  destruct H as (H1 & H2 & H3). apply Forall_app in H2. destruct H2 as [H2a H2b].
  destruct (IH _ H3) as (Va & Vb & Hab). repeat split; try assumption. constructor; assumption.
Qed.

Lemma valid_fresh nb body safter : Forall (fun tk => sub nb (m_hs tk)) body -> valid safter ->
  Forall (fun y => sub (snd y) nb) safter -> valid (map (fun tk => (tk, nb)) body ++ safter).
Proof.
  intros Hb Hv Ha. induction Hb as [|tk body Htk _ IH]; cbn [map app valid]; [exact Hv|].
  cbn [fst snd]. split; [exact Htk|]. split; [|exact IH].
  apply Forall_app. split; [|exact Ha]. apply Forall_forall. intros y Hy. apply in_map_iff in Hy.
  destruct Hy as (tk' & <- & _). cbn [snd]. apply sub_refl.
Qed.

(* dropping the first token makes the stream smaller *)
Lemma vec_tail x s : lexlt (vec s) (vec (x :: s)).
Proof.
  unfold vec. apply lexlt_pointwise with (j := cov (snd x)).
  - pose proof (cov_le (snd x)). lia.
  - intros l. rewrite cnt_cons. lia.
  - rewrite cnt_cons, Nat.eqb_refl. lia.
Qed.

(* a piece of the rest of the stream is smaller than the stream *)
Lemma vec_piece x p sx q : lexlt (vec sx) (vec (x :: p ++ sx ++ q)).
Proof.
  unfold vec. apply lexlt_pointwise with (j := cov (snd x)).
  - pose proof (cov_le (snd x)). lia.
  - intros l. rewrite cnt_cons, !cnt_app. lia.
  - rewrite cnt_cons, !cnt_app, Nat.eqb_refl. lia.
Qed.

(* the stream after a replacement: the tokens up to x0 (the macro name itself, or the closing
   parenthesis) are replaced by tokens with base (base of x0) + {m} *)
Lemma vec_rescan sfront x0 safter m body :
  valid (sfront ++ x0 :: safter) -> In m U -> hs_contains (snd x0) m = false ->
  Forall (fun tk => sub (snd x0 ++ [m]) (m_hs tk)) body ->
  let s' := map (fun tk => (tk, snd x0 ++ [m])) body ++ safter in
  valid s' /\ lexlt (vec s') (vec (sfront ++ x0 :: safter)).
Proof.
  intros Hv Hin Hm Hb s'. apply valid_app in Hv. destruct Hv as (_ & Hv2 & Hfront).
  cbn [valid] in Hv2. destruct Hv2 as (_ & Haft & Hva). split.
  - subst s'. apply valid_fresh; [exact Hb|exact Hva|].
    eapply Forall_impl; [|exact Haft]. intros y Hy n Hn. rewrite hs_contains_app. rewrite (Hy n Hn). reflexivity.
  - pose proof (cov_add _ _ Hin Hm) as Hlt. pose proof (cov_le (snd x0)) as Hle.
    unfold vec. apply lexlt_at with (j := cov (snd x0)); [lia| |].
    + intros l Hl. subst s'. rewrite !cnt_app, cnt_cons.
      rewrite (cnt_zero l (map _ body)).
      2:{ apply Forall_forall. intros y Hy. apply in_map_iff in Hy. destruct Hy as (tk & <- & _). cbn [snd]. lia. }
      rewrite (cnt_zero l sfront).
      2:{ eapply Forall_impl; [|exact Hfront]. intros y Hy. inversion Hy as [|? ? Hy0 _]; subst. apply cov_mono in Hy0. lia. }
      destruct (Nat.eqb_spec (cov (snd x0)) l); [lia|reflexivity].
    + subst s'. rewrite !cnt_app, cnt_cons, Nat.eqb_refl.
      rewrite (cnt_zero _ (map _ body)).
      2:{ apply Forall_forall. intros y Hy. apply in_map_iff in Hy. destruct Hy as (tk & <- & _). cbn [snd]. lia. }
      lia.
Qed.
End Level.

Lemma hs_contains_inter a b n : hs_contains a n = true -> hs_contains b n = true -> hs_contains (hs_inter a b) n = true.
Proof.
  intros Ha Hb. unfold hs_inter. induction a as [|x a IH]; [discriminate|].
  unfold hs_contains in Ha. cbn [existsb] in Ha. cbn [filter]. destruct (txt_eqb n x) eqn:E.
  - apply txt_eqb_eq in E. subst x. rewrite Hb. unfold hs_contains at 1. cbn [existsb]. rewrite txt_eqb_refl. reflexivity.
  - cbn [orb] in Ha. specialize (IH Ha). destruct (hs_contains b x); [|exact IH].
    unfold hs_contains at 1. cbn [existsb]. rewrite E. exact IH.
Qed.

Lemma set_flags_hs (P : list name -> Prop) bol sp l : Forall (fun tk => P (m_hs tk)) l -> Forall (fun tk => P (m_hs tk)) (set_flags bol sp l).
Proof. destruct l as [|t r]; cbn [set_flags]; [auto|]. intros H. inversion H; subst. constructor; assumption. Qed.

Lemma fresh_sub nb hs bol sp body : (forall n, hs_contains nb n = true -> hs_contains hs n = true) ->
  Forall (fun tk => forall n, hs_contains nb n = true -> hs_contains (m_hs tk) n = true) (set_flags bol sp (add_hideset hs body)).
Proof.
  intros H. apply (set_flags_hs (fun h => forall n, hs_contains nb n = true -> hs_contains h n = true)).
  unfold add_hideset. apply Forall_forall. intros tk Hin. apply in_map_iff in Hin. destruct Hin as (t0 & <- & _).
  cbn [m_hs]. intros n Hn. unfold hs_union. rewrite hs_contains_app, (H n Hn). apply orb_true_r.
Qed.

(* ---------- termination ---------- *)
Section Main.
Variable pt : list (list N).
Variable e : env.
Let U := names e.

Definition Term (ts : list mtok) : Prop := exists f, pp_args pt f e ts <> MFuel.

Lemma fuel_all args : Forall (fun a => Term (a_toks a)) args ->
  exists F, forall a, In a args -> pp_args pt F e (a_toks a) <> MFuel.
Proof.
  induction 1 as [|a args [f Hf] _ [F HF]]; [exists 0%nat; intros a []|].
  exists (Nat.max f F). intros a' [<-|Hin].
  - rewrite (pp_args_mono pt e f) by (auto; lia). exact Hf.
  - rewrite (pp_args_mono pt e F) by (auto; lia). apply HF. exact Hin.
Qed.

Lemma finish t r i : invocation e t r = IYes i ->
  Forall (fun a => Term (a_toks a)) (iv_args i) ->
  (forall body, Term (set_flags (m_bol t) (m_sp t) (add_hideset (iv_hs i) body) ++ iv_after i)) ->
  Term (t :: r).
Proof.
  intros Ei HA HB. destruct (fuel_all _ HA) as [F1 HF1].
  destruct (subst pt (pp_args pt F1 e) (iv_obj i) (S (length (mc_body (iv_mac i)))) (mc_body (iv_mac i)) (iv_args i) []) as [body| | |] eqn:Es.
  - destruct (HB body) as [F2 HF2]. exists (S (Nat.max F1 F2)). cbn [pp_args]. rewrite expand_macro_eq, Ei.
    assert (Hle : pp_le (pp_args pt F1 e) (pp_args pt (Nat.max F1 F2) e)) by (intros x Hx; apply pp_args_mono; [lia|exact Hx]).
    rewrite (run_invo_mono pt _ _ t i Hle); unfold run_invo; rewrite Es; [|discriminate].
    rewrite (pp_args_mono pt e F2) by (auto; lia). exact HF2.
  - exists (S F1). cbn [pp_args]. rewrite expand_macro_eq, Ei. unfold run_invo. rewrite Es. discriminate.
  - exfalso. apply subst_bad_arg in Es; [|left; reflexivity|lia]. destruct Es as (a & Hin & Ha). exact (HF1 a Hin Ha).
  - exists (S F1). cbn [pp_args]. rewrite expand_macro_eq, Ei. unfold run_invo. rewrite Es. discriminate.
Qed.

Lemma map_fst_fresh (nb : list name) body (safter : astream) :
  map fst (map (fun tk : mtok => (tk, nb)) body ++ safter) = body ++ map fst safter.
Proof. rewrite map_app, map_map. cbn [fst]. rewrite map_id. reflexivity. Qed.

Theorem term_annotated : forall s, valid s -> Term (map fst s).
Proof.
  intros s. induction s as [s IH] using (well_founded_induction (wf_inverse_image _ _ lexlt (vec U) lexlt_wf)).
  intros Hv. destruct s as [|x sr]; [exists 1%nat; discriminate|].
  destruct x as [t bt]. cbn [map fst]. set (r := map fst sr).
  assert (Htail : Term r).
  { apply IH; [apply vec_tail|]. cbn [valid] in Hv. tauto. }
  destruct (invocation e t r) as [| |i] eqn:Ei.
  - destruct Htail as [f Hf]. exists (S f). cbn [pp_args]. rewrite expand_macro_eq, Ei.
    destruct (m_bol t && is t HASH && from_source t); [discriminate|].
    destruct (pp_args pt f e r); try discriminate. exfalso. apply Hf. reflexivity.
  - exists 1%nat. cbn [pp_args]. rewrite expand_macro_eq, Ei. discriminate.
  - destruct (invocation_shape _ _ _ _ Ei) as (Hnot & [m Hm] & Hshape).
    assert (HinU : In (m_txt t) U) by (apply (lookup_in e _ _ Hm)).
    pose proof Hv as Hv0. cbn [valid fst snd] in Hv0. destruct Hv0 as (Hbt & Hchain & Hvr).
    assert (Hbtn : hs_contains bt (m_txt t) = false).
    { destruct (hs_contains bt (m_txt t)) eqn:Eb; [|reflexivity]. rewrite (Hbt _ Eb) in Hnot. discriminate. }
    apply (finish t r i Ei).
    + (* the arguments *)
      destruct Hshape as [(Hargs & _ & _)|(lp & pre & rp & Hr & Hin & _)]; [rewrite Hargs; constructor|].
      eapply Forall_impl; [|exact Hin]. intros a (p & q & Hpre). cbn beta.
      subst pre. unfold r in Hr.
      apply map_eq_cons in Hr. destruct Hr as (slp & sr1 & -> & _ & Hr).
      apply map_eq_app in Hr. destruct Hr as (spq & srest & -> & Hpq & _).
      apply map_eq_app in Hpq. destruct Hpq as (sp & sxq & -> & _ & Hxq).
      apply map_eq_app in Hxq. destruct Hxq as (sx & sq & -> & Hx & _).
      rewrite <- Hx. apply IH.
      * replace ((t, bt) :: slp :: ((sp ++ sx ++ sq) ++ srest)) with ((t, bt) :: (slp :: sp) ++ sx ++ (sq ++ srest))
          by (cbn [app]; rewrite <- !app_assoc; reflexivity).
        apply vec_piece.
      * replace (slp :: (sp ++ sx ++ sq) ++ srest) with ((slp :: sp) ++ sx ++ (sq ++ srest)) in Hvr
          by (cbn [app]; rewrite <- !app_assoc; reflexivity).
        apply valid_app in Hvr. destruct Hvr as (_ & Hvr & _). apply valid_app in Hvr. tauto.
    + (* rescanning the replacement together with the rest of the text *)
      intros body. destruct Hshape as [(_ & Haft & Hhs)|(lp & pre & rp & Hr & _ & Hhs)].
      * rewrite Haft, Hhs.
        pose proof (vec_rescan U [] (t, bt) sr (m_txt t) (set_flags (m_bol t) (m_sp t) (add_hideset (hs_union (m_hs t) [m_txt t]) body))) as Hres.
        cbn [app snd] in Hres. destruct Hres as [Hv' Hlt]; [exact Hv|exact HinU|exact Hbtn| |].
        { apply fresh_sub. intros n Hn. unfold hs_union. rewrite hs_contains_app in *.
          apply orb_true_iff in Hn. destruct Hn as [Hn|Hn]; [rewrite (Hbt _ Hn); reflexivity|apply orb_true_iff; right; exact Hn]. }
        specialize (IH _ Hlt Hv'). rewrite map_fst_fresh in IH. exact IH.
      * rewrite Hhs. unfold r in Hr.
        apply map_eq_cons in Hr. destruct Hr as (slp & sr1 & -> & _ & Hr).
        apply map_eq_app in Hr. destruct Hr as (spre & srest & -> & _ & Hrest).
        apply map_eq_cons in Hrest. destruct Hrest as (srp & safter & -> & Hrp & Haft).
        assert (Hsplit : (t, bt) :: slp :: spre ++ srp :: safter = ((t, bt) :: slp :: spre) ++ srp :: safter) by reflexivity.
        assert (Hb0t : sub (snd srp) bt).
        { rewrite Forall_forall in Hchain. apply (Hchain srp). right. apply in_or_app. right. left. reflexivity. }
        assert (Hb0rp : sub (snd srp) (m_hs rp)).
        { rewrite Hsplit in Hv. apply valid_app in Hv. destruct Hv as (_ & Hv2 & _). cbn [valid] in Hv2. rewrite Hrp in Hv2. tauto. }
        pose proof (vec_rescan U ((t, bt) :: slp :: spre) srp safter (m_txt t)
                      (set_flags (m_bol t) (m_sp t) (add_hideset (hs_union (hs_inter (m_hs t) (m_hs rp)) [m_txt t]) body))) as Hres.
        destruct Hres as [Hv' Hlt]; [exact Hv|exact HinU| | |].
        { destruct (hs_contains (snd srp) (m_txt t)) eqn:Eb; [|reflexivity]. rewrite (Hb0t _ Eb) in Hbtn. discriminate. }
        { apply fresh_sub. intros n Hn. unfold hs_union. rewrite hs_contains_app in *.
          apply orb_true_iff in Hn. destruct Hn as [Hn|Hn]; [|apply orb_true_iff; right; exact Hn].
          rewrite hs_contains_inter; [reflexivity|apply Hbt, Hb0t, Hn|apply Hb0rp, Hn]. }
        rewrite <- Hsplit in Hlt. specialize (IH _ Hlt Hv'). rewrite map_fst_fresh, Haft in IH. exact IH.
Qed.
End Main.

(* ---------- the statements for plain token lists ---------- *)
Section Final.
Variable pt : list (list N).
Variable e : env.

Lemma valid_empty_bases ts : valid (map (fun t : mtok => (t, @nil name)) ts).
Proof.
  induction ts as [|t r IH]; cbn [map valid fst snd]; [exact I|]. split; [intros n Hn; discriminate|]. split; [|exact IH].
  apply Forall_forall. intros y Hy. apply in_map_iff in Hy. destruct Hy as (t' & <- & _). intros n Hn. discriminate.
Qed.

(* expansion of any token list (this is what is applied to macro arguments) ends: some fuel gives a
   result other than Fuel, and every larger fuel gives the same result *)
Theorem pp_args_terminates ts : exists f, pp_args pt f e ts <> MFuel /\
  forall f', (f <= f')%nat -> pp_args pt f' e ts = pp_args pt f e ts.
Proof.
  destruct (term_annotated pt e _ (valid_empty_bases ts)) as [f Hf].
  rewrite map_map in Hf. cbn [fst] in Hf. rewrite map_id in Hf.
  exists f. split; [exact Hf|]. intros f' Hle. apply pp_args_mono; assumption.
Qed.

(* a directive can only begin with a # that comes from the source text at the beginning of a line *)
Definition nodir (t : mtok) : Prop := m_bol t && is t HASH && from_source t = false.

Lemma infix_Forall {A} (P : A -> Prop) x l : infix x l -> Forall P l -> Forall P x.
Proof. intros (p & q & ->) H. apply Forall_app in H. destruct H as [_ H]. apply Forall_app in H. tauto. Qed.

Lemma replaced_nodir bol sp hs m body : Forall nodir (set_flags bol sp (add_hideset (hs_union hs [m]) body)).
Proof.
  assert (H : Forall (fun tk => m_hs tk <> []) (set_flags bol sp (add_hideset (hs_union hs [m]) body))).
  { apply (set_flags_hs (fun h => h <> [])). unfold add_hideset. apply Forall_forall. intros tk Hin.
    apply in_map_iff in Hin. destruct Hin as (t0 & <- & _). cbn [m_hs]. unfold hs_union.
    intros Hc. apply app_eq_nil in Hc. destruct Hc as [_ Hc]. apply app_eq_nil in Hc. destruct Hc as [_ Hc]. discriminate. }
  eapply Forall_impl; [|exact H]. intros tk Htk. unfold nodir, from_source. cbn beta in Htk. destruct (m_hs tk); [exfalso; apply Htk; reflexivity|apply andb_false_r].
Qed.

Lemma pp_args_no_unsup : forall f ts, Forall nodir ts -> pp_args pt f e ts <> MUnsup.
Proof.
  induction f as [|f IH]; intros ts Hts; [discriminate|]. cbn [pp_args]. destruct ts as [|t r]; [discriminate|].
  inversion Hts as [|? ? Ht Hr]; subst. rewrite expand_macro_eq.
  destruct (invocation e t r) as [| |i] eqn:Ei; [| discriminate |].
  - unfold nodir in Ht. rewrite Ht. specialize (IH r Hr). destruct (pp_args pt f e r); try discriminate. exact IH.
  - destruct (invocation_shape _ _ _ _ Ei) as (_ & _ & Hshape). unfold run_invo.
    destruct (subst pt (pp_args pt f e) (iv_obj i) _ _ (iv_args i) []) as [body| | |] eqn:Es; try discriminate.
    + apply IH. apply Forall_app.
      destruct Hshape as [(_ & -> & ->)|(lp & pre & rp & Hrr & _ & ->)]; (split; [apply replaced_nodir|]); [exact Hr|].
      rewrite Hrr in Hr. inversion Hr as [|? ? _ Hr']; subst. apply Forall_app in Hr'. destruct Hr' as [_ Hr'].
      inversion Hr'; subst; assumption.
    + exfalso. apply subst_bad_arg in Es; [|right; reflexivity|lia]. destruct Es as (a & Hin & Ha).
      destruct Hshape as [(Hargs & _ & _)|(lp & pre & rp & Hrr & Hargs & _)]; [rewrite Hargs in Hin; destruct Hin|].
      unfold args_in in Hargs. rewrite Forall_forall in Hargs. specialize (Hargs a Hin).
      rewrite Hrr in Hr. inversion Hr as [|? ? _ Hr']; subst. apply Forall_app in Hr'. destruct Hr' as [Hpre _].
      exact (IH _ (infix_Forall _ _ _ Hargs Hpre) Ha).
Qed.

(* on text without directives the driver of a translation unit and the expander of arguments agree *)
Lemma pp2_is_pp_args : forall f ts, pp_args pt f e ts <> MUnsup -> pp2 pt f e ts = pp_args pt f e ts.
Proof.
  induction f as [|f IH]; intros ts H; [reflexivity|]. cbn [pp2 pp_args] in *. destruct ts as [|t r]; [reflexivity|].
  destruct (expand_macro pt (pp_args pt f e) e t r); try reflexivity.
  - destruct (m_bol t && is t HASH && from_source t); [exfalso; apply H; reflexivity|].
    rewrite IH; [reflexivity|]. intros Hc. rewrite Hc in H. apply H. reflexivity.
  - apply IH. exact H.
Qed.

(* C09: preprocessing a text without directives, under ANY set of macro definitions, ends: there is a
   fuel with which the driver returns the expanded token list or the error result, never Fuel (and
   never Unsup), and every larger fuel gives the same result *)
Theorem macro_expansion_terminates ts : Forall nodir ts ->
  exists f, ((exists out, pp2 pt f e ts = MOk out) \/ pp2 pt f e ts = MErr) /\
            forall f', (f <= f')%nat -> pp2 pt f' e ts = pp2 pt f e ts.
Proof.
  intros Hts. destruct (pp_args_terminates ts) as (f & Hf & _).
  pose proof (pp_args_no_unsup f ts Hts) as Hu. pose proof (pp2_is_pp_args f ts Hu) as Heq.
  exists f. split.
  - rewrite Heq. destruct (pp_args pt f e ts) as [out| | |]; [left; exists out; reflexivity|right; reflexivity|contradiction|contradiction].
  - intros f' Hle. apply pp2_mono; [exact Hle|]. rewrite Heq. exact Hf.
Qed.
End Final.

(* ---------- the result is completely replaced as far as object-like macros go ---------- *)
Section Settled.
Variable pt : list (list N).
Variable e : env.

Lemma invocation_no_settled t r : invocation e t r = INo -> settled_tok e t = true.
Proof.
  unfold invocation, settled_tok, exempt, objlike_name. destruct (hs_contains (m_hs t) (m_txt t)); [intros _; apply orb_true_r|].
  destruct (find_macro e t) as [m|]; [|reflexivity]. destruct (mc_obj m); [discriminate|reflexivity].
Qed.

Theorem pp_args_settled : forall f ts out, pp_args pt f e ts = MOk out -> settled e out = true.
Proof.
  induction f as [|f IH]; intros ts out H; [discriminate|]. cbn [pp_args] in H. destruct ts as [|t r]; [injection H as <-; reflexivity|].
  rewrite expand_macro_eq in H. destruct (invocation e t r) as [| |i] eqn:Ei; [|discriminate|].
  - destruct (m_bol t && is t HASH && from_source t); [discriminate|].
    destruct (pp_args pt f e r) as [l| | |] eqn:E; try discriminate. injection H as <-.
    unfold settled. cbn [forallb]. rewrite (invocation_no_settled _ _ Ei). apply (IH _ _ E).
  - unfold run_invo in H. destruct (subst pt (pp_args pt f e) (iv_obj i) _ _ (iv_args i) []); try discriminate. apply (IH _ _ H).
Qed.

Theorem pp2_settled ts : Forall nodir ts -> forall f out, pp2 pt f e ts = MOk out -> settled e out = true.
Proof.
  intros Hts f out H. rewrite pp2_is_pp_args in H by (apply pp_args_no_unsup; exact Hts). eapply pp_args_settled. exact H.
Qed.
End Settled.

(* ---------- the whole driver: texts WITH #define and #undef lines ----------
   The macro set changes at a directive, and so does the measure; but a directive is only recognised at
   a token with an empty hide set, and then every token still pending has an empty base: the pending
   text is a piece of the original text.  Outer induction on the length of the text, inner induction as
   before, carrying the number of pending tokens with empty base (it never grows). *)
Lemma take_line_length : forall ts, (length (snd (take_line ts)) <= length ts)%nat.
Proof.
  induction ts as [|t r IH]; cbn [take_line]; [cbn; lia|]. destruct (m_bol t); [cbn; lia|].
  destruct (take_line r) as [a b]. cbn [snd length] in *. lia.
Qed.

Lemma skip_length s ts r : skip s ts = Some r -> (length r < length ts)%nat.
Proof. intros H. apply skip_cons in H. destruct H as [t ->]. cbn. lia. Qed.

Lemma read_params_length : forall n first ts ps va rest, read_params n first ts = Some (ps, va, rest) -> (length rest <= length ts)%nat.
Proof.
  induction n as [|n IH]; intros first ts ps va rest H; cbn [read_params] in H; [discriminate|].
  destruct ts as [|t r]; [discriminate|]. destruct (is t RP); [injection H as <- <- <-; cbn; lia|].
  destruct (if first then Some (t :: r) else skip COMMA (t :: r)) as [ts1|] eqn:E1; [|discriminate].
  assert (L1 : (length ts1 <= length (t :: r))%nat) by (destruct first; [injection E1 as <-; lia|apply skip_length in E1; lia]).
  destruct ts1 as [|p r1]; [discriminate|]. cbn [length] in L1.
  destruct (is p ELLIPSIS).
  { destruct (skip RP r1) as [r2|] eqn:E2; [|discriminate]. injection H as <- <- <-. apply skip_length in E2. cbn [length]. lia. }
  destruct (m_kind p); try discriminate. destruct r1 as [|e0 r2]; [discriminate|].
  destruct (is e0 ELLIPSIS).
  { destruct (skip RP r2) as [r3|] eqn:E2; [|discriminate]. injection H as <- <- <-. apply skip_length in E2. cbn [length] in *. lia. }
  destruct (read_params n false (e0 :: r2)) as [[[ps' va'] rest']|] eqn:E3; [|discriminate]. injection H as <- <- <-.
  apply IH in E3. cbn [length] in *. lia.
Qed.

Lemma read_definition_length e ts e' rest : read_definition e ts = Some (e', rest) -> (length rest <= length ts)%nat.
Proof.
  unfold read_definition. destruct ts as [|nm r]; [discriminate|]. destruct (m_kind nm); try discriminate.
  destruct r as [|lp r1]; [intros H; injection H as <- <-; cbn; lia|].
  destruct (negb (m_sp lp) && negb (m_bol lp) && is lp LP).
  - destruct (read_params (S (length r1)) true r1) as [[[ps va] rest0]|] eqn:E; [|discriminate].
    apply read_params_length in E. pose proof (take_line_length rest0) as L. destruct (take_line rest0) as [body rest'].
    intros H; injection H as <- <-. cbn [snd length] in *. lia.
  - pose proof (take_line_length (lp :: r1)) as L. destruct (take_line (lp :: r1)) as [body rest'].
    intros H; injection H as <- <-. cbn [snd length] in *. lia.
Qed.

Section Driver.
Variable pt : list (list N).

Definition TermD (e : env) (ts : list mtok) : Prop := exists f, pp2 pt f e ts <> MFuel.

Definition zb (x : mtok * list name) : bool := match snd x with [] => true | _ => false end.
Definition zcount (s : astream) : nat := length (filter zb s).

Lemma zcount_app a b : zcount (a ++ b) = (zcount a + zcount b)%nat.
Proof. unfold zcount. rewrite filter_app, app_length. reflexivity. Qed.
Lemma zcount_fresh (nb : list name) m body : zcount (map (fun tk : mtok => (tk, nb ++ [m])) body) = 0%nat.
Proof. unfold zcount. induction body as [|tk body IH]; [reflexivity|]. cbn [map filter]. unfold zb at 1. cbn [snd]. destruct nb; exact IH. Qed.
Lemma sub_nil b : sub b [] -> b = [].
Proof. destruct b as [|x b]; [reflexivity|]. intros H. specialize (H x). unfold hs_contains in H. cbn [existsb] in H. rewrite txt_eqb_refl in H. discriminate (H eq_refl). Qed.
Lemma zcount_all s : Forall (fun y => snd y = []) s -> zcount s = length s.
Proof. unfold zcount. induction 1 as [|x s Hx _ IH]; [reflexivity|]. cbn [filter]. unfold zb at 1. rewrite Hx. cbn [length]. rewrite IH. reflexivity. Qed.

Lemma finishD e t r i : invocation e t r = IYes i ->
  (forall body, TermD e (set_flags (m_bol t) (m_sp t) (add_hideset (iv_hs i) body) ++ iv_after i)) ->
  TermD e (t :: r).
Proof.
  intros Ei HB.
  assert (HA : Forall (fun a => Term pt e (a_toks a)) (iv_args i)).
  { apply Forall_forall. intros a _. destruct (pp_args_terminates pt e (a_toks a)) as (f & Hf & _). exists f. exact Hf. }
  destruct (fuel_all pt e _ HA) as [F1 HF1].
  destruct (subst pt (pp_args pt F1 e) (iv_obj i) (S (length (mc_body (iv_mac i)))) (mc_body (iv_mac i)) (iv_args i) []) as [body| | |] eqn:Es.
  - destruct (HB body) as [F2 HF2]. exists (S (Nat.max F1 F2)). cbn [pp2]. rewrite expand_macro_eq, Ei.
    assert (Hle : pp_le (pp_args pt F1 e) (pp_args pt (Nat.max F1 F2) e)) by (intros x Hx; apply pp_args_mono; [lia|exact Hx]).
    rewrite (run_invo_mono pt _ _ t i Hle); unfold run_invo; rewrite Es; [|discriminate].
    rewrite (pp2_mono pt F2) by (auto; lia). exact HF2.
  - exists (S F1). cbn [pp2]. rewrite expand_macro_eq, Ei. unfold run_invo. rewrite Es. discriminate.
  - exfalso. apply subst_bad_arg in Es; [|left; reflexivity|lia]. destruct Es as (a & Hin & Ha). exact (HF1 a Hin Ha).
  - exists (S F1). cbn [pp2]. rewrite expand_macro_eq, Ei. unfold run_invo. rewrite Es. discriminate.
Qed.

Lemma driver_inner n : (forall e ts, (length ts < n)%nat -> TermD e ts) ->
  forall e s, valid s -> (zcount s <= n)%nat -> TermD e (map fst s).
Proof.
  intros Hout e s. induction s as [s IH] using (well_founded_induction (wf_inverse_image _ _ lexlt (vec (names e)) lexlt_wf)).
  intros Hv Hz. destruct s as [|x sr]; [exists 1%nat; discriminate|].
  destruct x as [t bt]. cbn [map fst]. set (r := map fst sr).
  pose proof Hv as Hv0. cbn [valid fst snd] in Hv0. destruct Hv0 as (Hbt & Hchain & Hvr).
  assert (Hzr : (zcount sr <= n)%nat) by (change ((t, bt) :: sr) with ([(t, bt)] ++ sr) in Hz; rewrite zcount_app in Hz; lia).
  assert (Htail : TermD e r) by (apply IH; [apply vec_tail|exact Hvr|exact Hzr]).
  destruct (invocation e t r) as [| |i] eqn:Ei.
  - destruct (m_bol t && is t HASH && from_source t) eqn:Edir.
    + (* a directive: everything pending has an empty base *)
      assert (Hhs : m_hs t = []).
      { apply andb_prop in Edir. destruct Edir as [_ Hfs]. unfold from_source in Hfs. destruct (m_hs t); [reflexivity|discriminate]. }
      assert (Hlen : (length r < n)%nat).
      { rewrite Hhs in Hbt. apply sub_nil in Hbt. subst bt.
        assert (Hall : Forall (fun y => snd y = []) ((t, []) :: sr)).
        { constructor; [reflexivity|]. eapply Forall_impl; [|exact Hchain]. intros y Hy. apply sub_nil. exact Hy. }
        rewrite (zcount_all _ Hall) in Hz. unfold r. rewrite map_length. cbn [length] in Hz. lia. }
      assert (Hsub : forall e' ts', (length ts' <= length r)%nat -> exists f, pp2 pt f e' ts' <> MFuel) by (intros e' ts' Hl; apply Hout; lia).
      destruct r as [|d r1] eqn:Er; [exists 1%nat; cbn [pp2]; rewrite expand_macro_eq, Ei, Edir; discriminate|].
      cbn [length] in Hsub.
      destruct (is d DEFINE) eqn:Ed.
      { destruct (read_definition e r1) as [[e' rest]|] eqn:Erd.
        - pose proof (read_definition_length _ _ _ _ Erd) as Lrd. destruct (Hsub e' rest) as [f Hf]; [lia|].
          exists (S f). cbn [pp2]. rewrite expand_macro_eq, Ei, Edir, Ed, Erd. exact Hf.
        - exists 1%nat. cbn [pp2]. rewrite expand_macro_eq, Ei, Edir, Ed, Erd. discriminate. }
      destruct (is d UNDEF) eqn:Eu.
      { destruct r1 as [|nm r2]; [exists 1%nat; cbn [pp2]; rewrite expand_macro_eq, Ei, Edir, Ed, Eu; discriminate|].
        destruct (m_kind nm) eqn:Ek; try (exists 1%nat; cbn [pp2]; rewrite expand_macro_eq, Ei, Edir, Ed, Eu, Ek; discriminate).
        pose proof (take_line_length r2) as Ltl. destruct (Hsub (undef e (m_txt nm)) (snd (take_line r2))) as [f Hf]; [cbn [length]; lia|].
        exists (S f). cbn [pp2]. rewrite expand_macro_eq, Ei, Edir, Ed, Eu, Ek. exact Hf. }
      destruct (existsb (is d) other_directives || match m_kind d with LNum => true | _ => false end) eqn:Eo;
        [exists 1%nat; cbn [pp2]; rewrite expand_macro_eq, Ei, Edir, Ed, Eu, Eo; discriminate|].
      destruct (m_bol d) eqn:Eb.
      * destruct Htail as [f Hf]. exists (S f). cbn [pp2]. rewrite expand_macro_eq, Ei, Edir, Ed, Eu, Eo, Eb. exact Hf.
      * exists 1%nat. cbn [pp2]. rewrite expand_macro_eq, Ei, Edir, Ed, Eu, Eo, Eb. discriminate.
    + destruct Htail as [f Hf]. exists (S f). cbn [pp2]. rewrite expand_macro_eq, Ei, Edir.
      destruct (pp2 pt f e r); try discriminate. exfalso. apply Hf. reflexivity.
  - exists 1%nat. cbn [pp2]. rewrite expand_macro_eq, Ei. discriminate.
  - destruct (invocation_shape _ _ _ _ Ei) as (Hnot & [m Hm] & Hshape).
    assert (HinU : In (m_txt t) (names e)) by (apply (lookup_in e _ _ Hm)).
    assert (Hbtn : hs_contains bt (m_txt t) = false).
    { destruct (hs_contains bt (m_txt t)) eqn:Eb; [|reflexivity]. rewrite (Hbt _ Eb) in Hnot. discriminate. }
    apply (finishD e t r i Ei).
    intros body. destruct Hshape as [(_ & Haft & Hhs)|(lp & pre & rp & Hr & _ & Hhs)].
    * rewrite Haft, Hhs.
      pose proof (vec_rescan (names e) [] (t, bt) sr (m_txt t) (set_flags (m_bol t) (m_sp t) (add_hideset (hs_union (m_hs t) [m_txt t]) body))) as Hres.
      cbn [app snd] in Hres. destruct Hres as [Hv' Hlt]; [exact Hv|exact HinU|exact Hbtn| |].
      { apply fresh_sub. intros n0 Hn. unfold hs_union. rewrite hs_contains_app in *.
        apply orb_true_iff in Hn. destruct Hn as [Hn|Hn]; [rewrite (Hbt _ Hn); reflexivity|apply orb_true_iff; right; exact Hn]. }
      specialize (IH _ Hlt Hv'). rewrite map_fst_fresh in IH. apply IH.
      rewrite zcount_app, zcount_fresh. lia.
    * rewrite Hhs. unfold r in Hr.
      apply map_eq_cons in Hr. destruct Hr as (slp & sr1 & -> & _ & Hr).
      apply map_eq_app in Hr. destruct Hr as (spre & srest & -> & _ & Hrest).
      apply map_eq_cons in Hrest. destruct Hrest as (srp & safter & -> & Hrp & Haft).
      assert (Hsplit : (t, bt) :: slp :: spre ++ srp :: safter = ((t, bt) :: slp :: spre) ++ srp :: safter) by reflexivity.
      assert (Hb0t : sub (snd srp) bt).
      { rewrite Forall_forall in Hchain. apply (Hchain srp). right. apply in_or_app. right. left. reflexivity. }
      assert (Hb0rp : sub (snd srp) (m_hs rp)).
      { rewrite Hsplit in Hv. apply valid_app in Hv. destruct Hv as (_ & Hv2 & _). cbn [valid] in Hv2. rewrite Hrp in Hv2. tauto. }
      pose proof (vec_rescan (names e) ((t, bt) :: slp :: spre) srp safter (m_txt t)
                    (set_flags (m_bol t) (m_sp t) (add_hideset (hs_union (hs_inter (m_hs t) (m_hs rp)) [m_txt t]) body))) as Hres.
      destruct Hres as [Hv' Hlt]; [exact Hv|exact HinU| | |].
      { destruct (hs_contains (snd srp) (m_txt t)) eqn:Eb; [|reflexivity]. rewrite (Hb0t _ Eb) in Hbtn. discriminate. }
      { apply fresh_sub. intros n0 Hn. unfold hs_union. rewrite hs_contains_app in *.
        apply orb_true_iff in Hn. destruct Hn as [Hn|Hn]; [|apply orb_true_iff; right; exact Hn].
        rewrite hs_contains_inter; [reflexivity|apply Hbt, Hb0t, Hn|apply Hb0rp, Hn]. }
      rewrite <- Hsplit in Hlt. specialize (IH _ Hlt Hv'). rewrite map_fst_fresh, Haft in IH. apply IH.
      rewrite zcount_app, zcount_fresh. rewrite Hsplit, zcount_app in Hz.
      change (srp :: safter) with ([srp] ++ safter) in Hz. rewrite zcount_app in Hz. lia.
Qed.

(* the driver of the model ends on EVERY token list, under every initial macro set: the text may define
   and undefine macros as it goes ([MUnsup] = a directive that is not modelled was met) *)
Theorem driver_terminates : forall e ts, exists f, pp2 pt f e ts <> MFuel /\
  forall f', (f <= f')%nat -> pp2 pt f' e ts = pp2 pt f e ts.
Proof.
  assert (H : forall n e ts, (length ts < n)%nat -> TermD e ts).
  { induction n as [|n IHn]; intros e ts Hl; [lia|].
    pose proof (driver_inner n IHn e _ (valid_empty_bases ts)) as Hi.
    rewrite map_map in Hi. cbn [fst] in Hi. rewrite map_id in Hi. apply Hi.
    rewrite zcount_all; [rewrite map_length; lia|]. apply Forall_forall. intros y Hy. apply in_map_iff in Hy.
    destruct Hy as (t0 & <- & _). reflexivity. }
  intros e ts. destruct (H (S (length ts)) e ts) as [f Hf]; [lia|].
  exists f. split; [exact Hf|]. intros f' Hle. apply pp2_mono; assumption.
Qed.
End Driver.
