(* The x87 code gen_expr emits for long double trees (Model/LDoubleGen.v) computes the value of Spec/C11LDouble.v:
   the tree's value ends on top of the register stack with everything below it, the integer / SSE registers'
   stack and the x87 depth discipline intact; comparisons, !, and the conversions out of long double deliver the
   C11 result.  Values are equal up to the choice of NaN.  As for float / double the arithmetic is Flocq's on both
   sides; proved here: operand order on the register stack (fsubrp / fdivrp / fcomip), the flag decoding, the rows
   of the cast table into and out of long double (the unsigned 64-bit ones from Flocq's real-number specifications),
   and that at most 8 registers are used when the tree needs at most 8. *)
From Coq Require Import ZArith Reals Bool List Lia.
From Flocq Require Import Core Binary Bits.
From Chibicc Require Import Base.Mach Spec.C11Int Spec.C11Float Spec.C11LDouble Model.X86Int Model.CodegenInt Gen.CastTable
     Model.ConstFold Proofs.ConstFoldProofs Proofs.CastTableProofs Proofs.CodegenIntProofs
     Model.X86Sse Model.FloatGen Model.FloatFlat Model.X87 Model.LDoubleGen
     Proofs.X86SseProofs Proofs.FloatRoundProofs Proofs.X86SseRowsProofs Proofs.FloatOpsProofs Proofs.FloatGenProofs.
Local Open Scope Z_scope.

(* ---------- equality up to NaN is a congruence for the long double operations ---------- *)
Lemma arith80_feq f a a' b b' : feq a a' -> feq b b' -> feq (arith80 f a b) (arith80 f a' b').
Proof.
  unfold feq. intros Ha Hb. destruct f; unfold arith80, Bplus, Bminus, Bmult, Bdiv; rewrite !B2BSN_BSN2B, Ha, Hb; reflexivity.
Qed.
Lemma arith80_spec o f x y : fop_of o = Some f -> arith_l o x y = Some (arith80 f x y).
Proof. destruct o; try discriminate; intros [= <-]; reflexivity. Qed.
Lemma opp_l_feq a a' : feq a a' -> feq (opp_l a) (opp_l a').
Proof. intros H. apply feq_iff in H as [-> | [A B]]; [reflexivity|]. destruct a, a'; try discriminate. reflexivity. Qed.

Lemma l_of_fp_feq {p e} (x x' : binary_float p e) : feq x x' -> feq (l_of_fp x) (l_of_fp x').
Proof.
  intros H. apply feq_iff in H as [-> | [A B]]; [reflexivity|].
  destruct x, x'; try discriminate. reflexivity.
Qed.
Lemma s_of_l_feq x x' : feq x x' -> feq (s_of_l x) (s_of_l x').
Proof. intros H. apply feq_iff in H as [-> | [A B]]; [reflexivity|]. destruct x, x'; try discriminate. reflexivity. Qed.
Lemma d_of_l_feq x x' : feq x x' -> feq (d_of_l x) (d_of_l x').
Proof. intros H. apply feq_iff in H as [-> | [A B]]; [reflexivity|]. destruct x, x'; try discriminate. reflexivity. Qed.
Lemma int_part_feq {p e} (x x' : binary_float p e) : feq x x' -> int_part x = int_part x'.
Proof. intros H. apply feq_iff in H as [-> | [A B]]; [reflexivity|]. destruct x, x'; try discriminate. reflexivity. Qed.
Lemma fist_feq n x x' : feq x x' -> fist n x = fist n x'.
Proof. intros H. unfold fist. rewrite (int_part_feq _ _ H). reflexivity. Qed.

(* every 64-bit integer is a long double *)
Lemma l_of_int_exact n : Z.abs n < 2 ^ 64 ->
  B2R 64 16384 (l_of_int n) = IZR n /\ is_finite 64 16384 (l_of_int n) = true /\ Bsign 64 16384 (l_of_int n) = (n <? 0).
Proof. intros H. apply (BofZ_exact 64 16384 prec80 emax80 n H). Qed.

Section Rows.
Variable mem : Z -> Z.
Variable lmem : Z -> binary80.

Lemma lexec_LS p : forall s m', sexec mem p (ms s) = Some m' -> lexec mem lmem (map LS p) s = Some (with_ms s m').
Proof.
  induction p as [|i p IH]; intros s m' H; cbn [map lexec sexec] in *.
  - injection H as <-. destruct s; reflexivity.
  - cbn [lexec1]. destruct (sexec1 mem i (ms s)) as [m1|]; [|discriminate].
    rewrite (IH (with_ms s m1) m' H). reflexivity.
Qed.
Lemma lexec_app p q s : lexec mem lmem (p ++ q) s = match lexec mem lmem p s with Some s' => lexec mem lmem q s' | None => None end.
Proof. revert s. induction p as [|i p IH]; intros s; cbn [app lexec]; [reflexivity|]. destruct (lexec1 mem lmem i s); [apply IH|reflexivity]. Qed.

Lemma push_ok s x : (length (st87 s) < 8)%nat -> push87 s x = Some {| st87 := x :: st87 s; ms := ms s |}.
Proof. intros H. unfold push87. destruct (Nat.ltb_spec (length (st87 s)) 8); [reflexivity|lia]. Qed.

(* the row of the cast table into long double: the value of any other arithmetic type arrives exactly *)
Lemma row_in_ok t v s : val_ok t v = true -> Rv t v (ms s) -> (length (st87 s) < 8)%nat ->
  exists x' m', lexec mem lmem (lcast_in t) s = Some {| st87 := x' :: st87 s; ms := m' |} /\ feq x' (l_of_val v).
Proof.
  intros Hv HR Hd. destruct t as [it| |].
  - destruct (val_ok_int it v Hv) as (z & -> & Hz). cbn [Rv l_of_val] in *.
    destruct it;
      match goal with |- context [lcast_in ?t] => let c := eval vm_compute in (lcast_in t) in change (lcast_in t) with c end;
      cbn [lexec lexec1 row_in].
    + (* _Bool: the unsigned 64-bit row, value 0 or 1 *)
      destruct (R_u64_exact mem IBool z _ (or_introl eq_refl) Hz HR) as [Er Rz]. rewrite Er. unfold reg64. rewrite (Z.mod_small z) by lia.
      assert (z < 2 ^ 63) by (unfold_ty; pows; lia). rewrite (proj2 (Z.ltb_lt z (2 ^ 63))) by assumption.
      rewrite (push_ok s _ Hd). do 2 eexists. split; [reflexivity|apply feq_refl].
    + rewrite (sgn32_val mem I8 z _ ltac:(auto 6) Hz HR), (push_ok s _ Hd). do 2 eexists. split; [reflexivity|apply feq_refl].
    + rewrite (sgn32_val mem U8 z _ ltac:(auto 6) Hz HR), (push_ok s _ Hd). do 2 eexists. split; [reflexivity|apply feq_refl].
    + rewrite (sgn32_val mem I16 z _ ltac:(auto 6) Hz HR), (push_ok s _ Hd). do 2 eexists. split; [reflexivity|apply feq_refl].
    + rewrite (sgn32_val mem U16 z _ ltac:(auto 6) Hz HR), (push_ok s _ Hd). do 2 eexists. split; [reflexivity|apply feq_refl].
    + rewrite (sgn32_val mem I32 z _ ltac:(auto 6) Hz HR), (push_ok s _ Hd). do 2 eexists. split; [reflexivity|apply feq_refl].
    + assert (E : rax (ix (ms s)) mod 2 ^ 32 = z) by (unfold_x; unfold_ty; pows; lia). rewrite E.
      unfold push87. cbn [st87 set_rax_l with_ms]. destruct (Nat.ltb_spec (length (st87 s)) 8); [|lia].
      do 2 eexists. split; [reflexivity|apply feq_refl].
    + rewrite (sgn64_val mem z _ Hz HR), (push_ok s _ Hd). do 2 eexists. split; [reflexivity|apply feq_refl].
    + (* unsigned long: fildq reads it as signed; 2^64 is added back when it was negative - exactly *)
      destruct (R_u64_exact mem U64 z _ (or_intror eq_refl) Hz HR) as [Er Rz]. rewrite Er. unfold reg64. rewrite (Z.mod_small z) by lia.
      destruct (z <? 2 ^ 63) eqn:C.
      * rewrite (push_ok s _ Hd). do 2 eexists. split; [reflexivity|apply feq_refl].
      * apply Z.ltb_ge in C. unfold push87. cbn [st87 set_rax_l with_ms]. destruct (Nat.ltb_spec (length (st87 s)) 8); [|lia].
        do 2 eexists. split; [reflexivity|].
        unfold arith80, two64_l, l_of_int.
        assert (A1 : Z.abs (z - 2 ^ 64) < 2 ^ 64) by (change (2 ^ 64) with (2 * 2 ^ 63) in *; lia).
        assert (A3 : Z.abs (z - 2 ^ 64 + 2 ^ 64) < 2 ^ 64) by (replace (z - 2 ^ 64 + 2 ^ 64) with z by lia; lia).
        assert (P : 0 < z - 2 ^ 64 + 2 ^ 64) by (change (2 ^ 64) with (2 * 2 ^ 63) in *; lia).
        rewrite (BofZ_plus 64 16384 prec80 emax80 _ (z - 2 ^ 64) (2 ^ 64)
                   (int_format 64 16384 prec80 emax80 _ A1) (pow2_format 64 16384 prec80 emax80 64 (conj (proj1 (Z.leb_le 0 64) eq_refl) eq_refl))
                   (int_format 64 16384 prec80 emax80 _ A3)
                   (Z.lt_trans _ (2 ^ 64) (2 ^ 16384) A1 eq_refl) (eq_refl : Z.abs (2 ^ 64) < 2 ^ 16384) (Z.lt_trans _ (2 ^ 64) (2 ^ 16384) A3 eq_refl) P).
        replace (z - 2 ^ 64 + 2 ^ 64) with z by lia. apply feq_refl.
  - destruct v as [?|x|?]; try discriminate Hv. cbn [Rv l_of_val] in *.
    match goal with |- context [lcast_in ?t] => let c := eval vm_compute in (lcast_in t) in change (lcast_in t) with c end.
    cbn [lexec lexec1 row_in]. rewrite (push_ok s _ Hd). do 2 eexists. split; [reflexivity|apply l_of_fp_feq; exact HR].
  - destruct v as [?|?|x]; try discriminate Hv. cbn [Rv l_of_val] in *.
    match goal with |- context [lcast_in ?t] => let c := eval vm_compute in (lcast_in t) in change (lcast_in t) with c end.
    cbn [lexec lexec1 row_in]. rewrite (push_ok s _ Hd). do 2 eexists. split; [reflexivity|apply l_of_fp_feq; exact HR].
Qed.
End Rows.

(* ---------- the value of a tree on top of the register stack ---------- *)
Section Value.
Variable mem : Z -> Z.
Variable lmem : Z -> binary80.
Variable rho : nat -> val.
Variable lrho : nat -> binary80.
Hypothesis Hmem : forall n, mem (addr_of n) = obj_bits (rho n).
Hypothesis Hlmem : forall n, lmem (addr_of n) = lrho n.

Lemma lrun_app p q st : lrun mem lmem (p ++ q) st = match lrun mem lmem p st with Some st' => lrun mem lmem q st' | None => None end.
Proof. revert st. induction p as [|i p IH]; intros st; cbn [app lrun]; [reflexivity|]. destruct (lrun1 mem lmem i st); [apply IH|reflexivity]. Qed.

Lemma lrun_LI p : forall s k s', lexec mem lmem p s = Some s' -> lrun mem lmem (map LI p) (s, k) = Some (s', k).
Proof.
  induction p as [|i p IH]; intros s k s' H; cbn [map lrun lexec] in *.
  - injection H as <-. reflexivity.
  - cbn [lrun1 fst snd]. destruct (lexec1 mem lmem i s) as [s1|]; [|discriminate]. apply IH. exact H.
Qed.

(* "the code pushes x": everything else of the x87 stack and the machine stack is as found *)
Definition pushes (c : list litem) (x : binary80) : Prop :=
  forall s k, exists x' m', lrun mem lmem c (s, k) = Some ({| st87 := x' :: st87 s; ms := m' |}, k) /\ feq x' x.

Theorem lcompile_correct : forall e x, lwell_typed e = true -> leval rho lrho e = Some x ->
  forall s k, (length (st87 s) + lneed e <= 8)%nat ->
  exists x' m', lrun mem lmem (lcompile e) (s, k) = Some ({| st87 := x' :: st87 s; ms := m' |}, k) /\ feq x' x.
Proof.
  induction e as [c|n|e|a IHa|o a IHa b IHb]; intros x W H s k Hd; cbn [leval lcompile lneed lwell_typed] in *.
  - (* constant *)
    injection H as <-. cbn [lrun lrun1 lexec1 fst snd]. unfold push87. cbn [st87 set_rax_l with_ms].
    destruct (Nat.ltb_spec (length (st87 s)) 8); [|lia]. do 2 eexists. split; [reflexivity|apply feq_refl].
  - (* object *)
    injection H as <-. cbn [lrun lrun1 lexec1 fst snd]. unfold push87. cbn [st87 set_rax_l with_ms].
    destruct (Nat.ltb_spec (length (st87 s)) 8); [|lia]. rewrite Hlmem. do 2 eexists. split; [reflexivity|apply feq_refl].
  - (* an operand of another type: its code, then the row into long double *)
    destruct (feval rho e) as [v|] eqn:Ev; [|discriminate]. injection H as <-.
    destruct (compile_correct_wt mem rho Hmem e v W Ev (ms s) k) as (m1 & E1 & R1).
    cbn [lrun lrun1 fst snd]. rewrite E1. rewrite mf_type_is_c11.
    destruct (row_in_ok mem lmem (ftype_of e) v (with_ms s m1) (feval_ok rho e v Ev) R1 ltac:(cbn [st87 with_ms]; lia)) as (x' & m' & E2 & F2).
    rewrite (lrun_LI _ _ k _ E2). exists x', m'. split; [reflexivity|exact F2].
  - (* unary minus: fchs *)
    destruct (leval rho lrho a) as [xa|] eqn:Ea; [|discriminate]. injection H as <-.
    destruct (IHa xa W eq_refl s k Hd) as (x' & m' & E1 & F1).
    rewrite lrun_app, E1. cbn [lrun lrun1 lexec1 fst snd st87 ms]. do 2 eexists. split; [reflexivity|apply opp_l_feq; exact F1].
  - (* lhs, then rhs above it; the operator combines st(1) op st(0) *)
    apply andb_true_iff in W as [Wa Wb].
    destruct (leval rho lrho a) as [xa|] eqn:Ea; [|discriminate]. destruct (leval rho lrho b) as [xb|] eqn:Eb; [|discriminate].
    destruct (IHa xa Wa eq_refl s k ltac:(lia)) as (xa' & m1 & E1 & F1).
    rewrite lrun_app, E1.
    destruct (IHb xb Wb eq_refl {| st87 := xa' :: st87 s; ms := m1 |} k ltac:(cbn [st87 length]; lia)) as (xb' & m2 & E2 & F2).
    rewrite lrun_app, E2. cbn [st87].
    destruct (fop_of o) as [f|] eqn:Fo; [|destruct o; discriminate].
    rewrite (arith80_spec o f xa xb Fo) in H. injection H as <-.
    cbn [lrun lrun1 lexec1 fst snd st87 ms]. do 2 eexists. split; [reflexivity|apply arith80_feq; assumption].
Qed.
End Value.

(* ---------- what is done with the value: comparisons, !, conversions out ---------- *)
Lemma fist_val n x z : int_part x = Some z -> - 2 ^ (n - 1) <= z < 2 ^ (n - 1) -> fist n x = z mod 2 ^ n.
Proof.
  intros I Hz. unfold fist. rewrite I.
  assert (C : (- 2 ^ (n - 1) <=? z) && (z <? 2 ^ (n - 1)) = true) by (apply andb_true_intro; split; [apply Z.leb_le|apply Z.ltb_lt]; lia).
  rewrite C. reflexivity.
Qed.

Lemma two63_l_val : is_finite 64 16384 two63_l = true /\ B2R 64 16384 two63_l = IZR (2 ^ 63).
Proof. destruct (l_of_int_exact (2 ^ 63) eq_refl) as (A & B & _). split; assumption. Qed.

Section Consumers.
Variable mem : Z -> Z.
Variable lmem : Z -> binary80.

Lemma movzb_al m b : al (ix m) = b2z b -> exists m', sexec mem [SI IMovzbRax] m = Some m' /\ rax (ix m') = b2z b.
Proof. intros H. eexists. split; [cbn [sexec sexec1 exec1]; reflexivity|]. cbn [ix with_ix rax set_rax]. exact H. Qed.

(* fcomip; fstp %st(0); setcc; movzb : with lhs below rhs on the register stack *)
Lemma lcmp_code_ok o x y x' y' s r : (o = OEq \/ o = ONe \/ o = OLt \/ o = OLe) ->
  st87 s = y' :: x' :: r -> feq x' x -> feq y' y ->
  exists m', lexec mem lmem (lcmp_code o) s = Some {| st87 := r; ms := m' |} /\ Rv (TI I32) (VI (cmp_l o x y)) m'.
Proof.
  intros Ho Hs Fx Fy.
  set (c := Bcompare 64 16384 y' x').
  assert (C : c = match Bcompare 64 16384 x y with Some c => Some (CompOpp c) | None => None end).
  { unfold c. rewrite (compare_feq _ _ _ _ Fy Fx). apply compopp_swap. }
  destruct (after_ucomi_flags (ms s) c) as (Fz & Fp & Fc & _ & _).
  set (m1 := after_ucomi (ms s) c) in *.
  assert (E0 : forall tail, lexec mem lmem (LCompare false :: LFstp0 :: map LS tail) s = lexec mem lmem (map LS tail) {| st87 := r; ms := m1 |}).
  { intros tail. cbn [lexec lexec1]. rewrite Hs. reflexivity. }
  unfold cmp_l.
  destruct Ho as [-> | [-> | [-> | ->]]].
  - change (lcmp_code OEq) with (LCompare false :: LFstp0 :: map LS [SI (ISet CE); SSetnpDl; SAndDlAl; SI IMovzbRax]).
    rewrite (E0 [SI (ISet CE); SSetnpDl; SAndDlAl; SI IMovzbRax]).
    destruct (step_e_np mem [SI IMovzbRax] m1) as (m2 & E & A & _). destruct (movzb_al m2 _ A) as (m3 & E3 & A3).
    exists m3. split; [apply (lexec_LS mem lmem _ {| st87 := r; ms := m1 |}); cbn [ms]; rewrite E; exact E3|].
    cbn [Rv]. rewrite A3, Fz, Fp, C. destruct (Bcompare 64 16384 x y) as [[]|]; (split; [cbn; lia|reflexivity]).
  - change (lcmp_code ONe) with (LCompare false :: LFstp0 :: map LS [SI (ISet CNE); SSetpDl; SOrDlAl; SI IMovzbRax]).
    rewrite (E0 [SI (ISet CNE); SSetpDl; SOrDlAl; SI IMovzbRax]).
    destruct (step_ne_p mem [SI IMovzbRax] m1) as (m2 & E & A & _). destruct (movzb_al m2 _ A) as (m3 & E3 & A3).
    exists m3. split; [apply (lexec_LS mem lmem _ {| st87 := r; ms := m1 |}); cbn [ms]; rewrite E; exact E3|].
    cbn [Rv]. rewrite A3, Fz, Fp, C. destruct (Bcompare 64 16384 x y) as [[]|]; (split; [cbn; lia|reflexivity]).
  - change (lcmp_code OLt) with (LCompare false :: LFstp0 :: map LS [SSeta; SI IMovzbRax]).
    rewrite (E0 [SSeta; SI IMovzbRax]).
    destruct (step_a mem [SI IMovzbRax] m1) as (m2 & E & A & _). destruct (movzb_al m2 _ A) as (m3 & E3 & A3).
    exists m3. split; [apply (lexec_LS mem lmem _ {| st87 := r; ms := m1 |}); cbn [ms]; rewrite E; exact E3|].
    cbn [Rv]. rewrite A3, Fz, Fc, C. destruct (Bcompare 64 16384 x y) as [[]|]; (split; [cbn; lia|reflexivity]).
  - change (lcmp_code OLe) with (LCompare false :: LFstp0 :: map LS [SSetae; SI IMovzbRax]).
    rewrite (E0 [SSetae; SI IMovzbRax]).
    destruct (step_ae mem [SI IMovzbRax] m1) as (m2 & E & A & _). destruct (movzb_al m2 _ A) as (m3 & E3 & A3).
    exists m3. split; [apply (lexec_LS mem lmem _ {| st87 := r; ms := m1 |}); cbn [ms]; rewrite E; exact E3|].
    cbn [Rv]. rewrite A3, Fc, C. destruct (Bcompare 64 16384 x y) as [[]|]; (split; [cbn; lia|reflexivity]).
Qed.

(* cmp_zero on long double: fldz; fucomip; fstp %st(0); sete; setnp; and; cmp $1 *)
Lemma l_cmp_zero_ok x x' s r : st87 s = x' :: r -> feq x' x -> (length r + 1 < 8)%nat ->
  exists m', lexec mem lmem l_cmp_zero s = Some {| st87 := r; ms := m' |} /\ f_zf (ix m') = is_zero x.
Proof.
  intros Hs Fx Hd.
  set (c := Bcompare 64 16384 (B754_zero 64 16384 false) x').
  assert (C : c = match Bcompare 64 16384 x (B754_zero 64 16384 false) with Some c => Some (CompOpp c) | None => None end).
  { unfold c. rewrite (compare_feq _ _ _ _ (feq_refl _) Fx). apply compopp_swap. }
  destruct (after_ucomi_flags (ms s) c) as (Fz & Fp & Fc & _ & _).
  set (m1 := after_ucomi (ms s) c) in *.
  assert (E0 : lexec mem lmem l_cmp_zero s = lexec mem lmem (map LS [SI (ISet CE); SSetnpDl; SAndDlAl; SCmp1Al]) {| st87 := r; ms := m1 |}).
  { unfold l_cmp_zero. cbn [lexec lexec1]. unfold push87. rewrite Hs. cbn [length].
    destruct (Nat.ltb_spec (S (length r)) 8); [|lia]. reflexivity. }
  rewrite E0.
  destruct (step_e_np mem [SCmp1Al] m1) as (m2 & E & A & _).
  eexists. split; [apply (lexec_LS mem lmem _ {| st87 := r; ms := m1 |}); cbn [ms]; rewrite E; cbn [sexec sexec1]; reflexivity|].
  cbn [ix with_ix f_zf set_flags]. rewrite A, b2z_eq1, Fz, Fp, C. unfold is_zero.
  destruct (Bcompare 64 16384 x (B754_zero 64 16384 false)) as [[]|]; reflexivity.
Qed.

Lemma f32_bits_lane y : f32 (lane64 (bits_of_b32 y)) = y.
Proof. rewrite f32_lane64. unfold f32. rewrite (lane32_small _ (bits32_range y)). apply b32_bits. Qed.

(* the rows of the cast table out of long double, and the _Bool path *)
Lemma lcast_out_ok t x x' v s r : convert_l t x = Some v -> feq x' x -> st87 s = x' :: r -> (length r + 1 < 8)%nat ->
  exists m', lexec mem lmem (lcast_out t) s = Some {| st87 := r; ms := m' |} /\ Rv t v m'.
Proof.
  intros Hc Fx Hs Hd. destruct t as [it| |].
  - destruct (ity_eqb it IBool) eqn:Eb.
    + assert (it = IBool) as -> by (destruct it; try discriminate; reflexivity). cbn [convert_l] in Hc. injection Hc as <-.
      change (lcast_out (TI IBool)) with (l_cmp_zero ++ map LS [SI (ISet CNE); SI IMovzxEax]).
      rewrite lexec_app. destruct (l_cmp_zero_ok x x' s r Hs Fx Hd) as (m1 & E1 & Z1). rewrite E1.
      destruct (setne_movzx mem m1) as (m2 & E2 & A2 & _).
      exists m2. split; [apply (lexec_LS mem lmem _ {| st87 := r; ms := m1 |}); exact E2|].
      cbn [Rv]. rewrite A2, Z1. apply Rbool_b2z. reflexivity.
    + assert (Hc' : to_int it (int_part x) = Some v) by (destruct it; try discriminate Eb; exact Hc).
      destruct (to_int_some _ _ _ Hc') as (z & I & Hin & ->).
      destruct it; try discriminate Eb;
        match goal with |- context [lcast_out ?t] => let c := eval vm_compute in (lcast_out t) in change (lcast_out t) with c end;
        cbn [lexec lexec1]; unfold row_out; rewrite Hs.
      * rewrite (fist_feq 16 _ _ Fx), (fist_val 16 x z I) by (unfold_ty; pows; lia).
        eexists. split; [reflexivity|]. cbn [Rv set_rax_l with_ms ms with_ix ix rax set_rax]. unfold_x; unfold_ty; pows; split_ifs; lia.
      * rewrite (fist_feq 16 _ _ Fx), (fist_val 16 x z I) by (unfold_ty; pows; lia).
        eexists. split; [reflexivity|]. cbn [Rv set_rax_l with_ms ms with_ix ix rax set_rax]. unfold_x; unfold_ty; pows; split_ifs; lia.
      * rewrite (fist_feq 16 _ _ Fx), (fist_val 16 x z I) by (unfold_ty; pows; lia).
        eexists. split; [reflexivity|]. cbn [Rv set_rax_l with_ms ms with_ix ix rax set_rax]. unfold_x; unfold_ty; pows; split_ifs; lia.
      * rewrite (fist_feq 32 _ _ Fx), (fist_val 32 x z I) by (unfold_ty; pows; lia).
        eexists. split; [reflexivity|]. cbn [Rv set_rax_l with_ms ms with_ix ix rax set_rax]. unfold_x; unfold_ty; pows; split_ifs; lia.
      * rewrite (fist_feq 32 _ _ Fx), (fist_val 32 x z I) by (unfold_ty; pows; lia).
        eexists. split; [reflexivity|]. cbn [Rv set_rax_l with_ms ms with_ix ix rax set_rax]. unfold_x; unfold_ty; pows; split_ifs; lia.
      * rewrite (fist_feq 64 _ _ Fx), (fist_val 64 x z I) by (unfold_ty; pows; lia).
        eexists. split; [reflexivity|]. cbn [Rv set_rax_l with_ms ms with_ix ix rax set_rax]. unfold_x; unfold_ty; pows; split_ifs; lia.
      * rewrite (fist_feq 64 _ _ Fx), (fist_val 64 x z I) by (unfold_ty; pows; lia).
        eexists. split; [reflexivity|]. cbn [Rv set_rax_l with_ms ms with_ix ix rax set_rax]. unfold_x; unfold_ty; pows; split_ifs; lia.
      * (* unsigned long: compare with 2^63; below it fistpq directly; from 2^63 on subtract it exactly, fistpq, flip bit 63 *)
        unfold binary80 in *. match goal with |- context [Nat.ltb ?a 8] => replace (Nat.ltb a 8) with true by (symmetry; apply Nat.ltb_lt; cbn [length]; lia) end.
        destruct two63_l_val as [FK VK]. destruct (int_part_finite 64 16384 emax80 x z I) as [Fx' _].
        pose proof (u64_range mem z Hin) as Rz.
        rewrite (compare_feq _ _ _ _ (feq_refl two63_l) Fx).
        pose proof (compopp_swap two63_l x) as SW.
        destruct (Bcompare 64 16384 two63_l x) as [[]|] eqn:CK.
        -- (* equal *)
           destruct (trunc_minus 64 16384 prec80 emax80 (fun _ _ => nan80) x two63_l (2 ^ 63) z FK VK eq_refl
                       ltac:(rewrite IZR_pow2 by lia; apply bpow_lt; reflexivity) I ltac:(change (2 ^ 64) with (2 * 2 ^ 63) in Rz; lia) (or_intror SW)) as [IM Kz].
           rewrite (fist_feq 64 _ _ (arith80_feq FSub _ _ _ _ Fx (feq_refl two63_l))).
           change (arith80 FSub x two63_l) with (Bminus 64 16384 prec80 emax80 (fun _ _ => nan80) mode_NE x two63_l).
           rewrite (fist_val 64 _ (z - 2 ^ 63) IM) by (change (2 ^ (64 - 1)) with (2 ^ 63); change (2 ^ 64) with (2 * 2 ^ 63) in Rz; lia).
           rewrite Z.mod_small by (change (2 ^ 64) with (2 * 2 ^ 63) in *; lia).
           rewrite lxor_bit_clear by (change (2 ^ 64) with (2 * 2 ^ 63) in Rz; lia).
           eexists. split; [reflexivity|]. cbn [Rv set_rax_l with_ms ms with_ix ix rax set_rax].
           replace (z - 2 ^ 63 + 2 ^ 63) with z by lia. apply (R_u64_self mem z Hin).
        -- (* 2^63 < x *)
           destruct (trunc_minus 64 16384 prec80 emax80 (fun _ _ => nan80) x two63_l (2 ^ 63) z FK VK eq_refl
                       ltac:(rewrite IZR_pow2 by lia; apply bpow_lt; reflexivity) I ltac:(change (2 ^ 64) with (2 * 2 ^ 63) in Rz; lia) (or_introl SW)) as [IM Kz].
           rewrite (fist_feq 64 _ _ (arith80_feq FSub _ _ _ _ Fx (feq_refl two63_l))).
           change (arith80 FSub x two63_l) with (Bminus 64 16384 prec80 emax80 (fun _ _ => nan80) mode_NE x two63_l).
           rewrite (fist_val 64 _ (z - 2 ^ 63) IM) by (change (2 ^ (64 - 1)) with (2 ^ 63); change (2 ^ 64) with (2 * 2 ^ 63) in Rz; lia).
           rewrite Z.mod_small by (change (2 ^ 64) with (2 * 2 ^ 63) in *; lia).
           rewrite lxor_bit_clear by (change (2 ^ 64) with (2 * 2 ^ 63) in Rz; lia).
           eexists. split; [reflexivity|]. cbn [Rv set_rax_l with_ms ms with_ix ix rax set_rax].
           replace (z - 2 ^ 63 + 2 ^ 63) with z by lia. apply (R_u64_self mem z Hin).
        -- (* x < 2^63 *)
           pose proof (trunc_below 64 16384 emax80 x two63_l (2 ^ 63) z FK VK eq_refl I SW) as Lz.
           rewrite (fist_feq 64 _ _ Fx), (fist_val 64 x z I) by (change (2 ^ (64 - 1)) with (2 ^ 63); lia).
           rewrite Z.mod_small by lia.
           eexists. split; [reflexivity|]. cbn [Rv set_rax_l with_ms ms with_ix ix rax set_rax]. apply (R_u64_self mem z Hin).
        -- (* unordered: impossible, both are finite *)
           rewrite (Bcompare_correct 64 16384 two63_l x FK Fx') in CK. discriminate.
  - cbn [convert_l] in Hc. injection Hc as <-.
    match goal with |- context [lcast_out ?t] => let c := eval vm_compute in (lcast_out t) in change (lcast_out t) with c end.
    cbn [lexec lexec1]. unfold row_out. rewrite Hs. eexists. split; [reflexivity|].
    cbn [Rv with_ms ms with_x0 x0]. rewrite f32_bits_lane. apply s_of_l_feq. exact Fx.
  - cbn [convert_l] in Hc. injection Hc as <-.
    match goal with |- context [lcast_out ?t] => let c := eval vm_compute in (lcast_out t) in change (lcast_out t) with c end.
    cbn [lexec lexec1]. unfold row_out. rewrite Hs. eexists. split; [reflexivity|].
    cbn [Rv with_ms ms with_x0 x0]. rewrite f64_put. apply d_of_l_feq. exact Fx.
Qed.
End Consumers.

(* ---------- whole consumers ---------- *)
Section Whole.
Variable mem : Z -> Z.
Variable lmem : Z -> binary80.
Variable rho : nat -> val.
Variable lrho : nat -> binary80.
Hypothesis Hmem : forall n, mem (addr_of n) = obj_bits (rho n).
Hypothesis Hlmem : forall n, lmem (addr_of n) = lrho n.

Lemma cmp_l_swap x y : cmp_l OLt y x = cmp_l OGt x y /\ cmp_l OLe y x = cmp_l OGe x y.
Proof. unfold cmp_l. rewrite (compopp_swap x y). destruct (Bcompare 64 16384 x y) as [[]|]; split; reflexivity. Qed.

(* a == b, a != b, a < b, a <= b, a > b, a >= b on long double operands: the int result in %rax, the register stack as found *)
Theorem lcmp_correct o a b v : lwell_typed a = true -> lwell_typed b = true -> is_cmp o = true ->
  leval_cmp rho lrho o a b = Some v ->
  forall s k, (length (st87 s) + Nat.max (lneed a) (lneed b) + 1 <= 8)%nat ->
  exists m', lrun mem lmem (lcompile_cmp o a b) (s, k) = Some ({| st87 := st87 s; ms := m' |}, k) /\ Rv (TI I32) v m'.
Proof.
  intros Wa Wb Ho H s k Hd. unfold leval_cmp in H.
  destruct (leval rho lrho a) as [xa|] eqn:Ea; [|discriminate]. destruct (leval rho lrho b) as [xb|] eqn:Eb; [|discriminate].
  injection H as <-.
  assert (Plain : forall o', (o' = OEq \/ o' = ONe \/ o' = OLt \/ o' = OLe) ->
            exists m', lrun mem lmem (lcompile a ++ lcompile b ++ map LI (lcmp_code o')) (s, k) = Some ({| st87 := st87 s; ms := m' |}, k) /\
                       Rv (TI I32) (VI (cmp_l o' xa xb)) m').
  { intros o' Ho'.
    destruct (lcompile_correct mem lmem rho lrho Hmem Hlmem a xa Wa Ea s k ltac:(lia)) as (xa' & m1 & E1 & F1).
    rewrite lrun_app, E1.
    destruct (lcompile_correct mem lmem rho lrho Hmem Hlmem b xb Wb Eb {| st87 := xa' :: st87 s; ms := m1 |} k ltac:(cbn [st87 length]; lia)) as (xb' & m2 & E2 & F2).
    rewrite lrun_app, E2. cbn [st87].
    destruct (lcmp_code_ok mem lmem o' xa xb xa' xb' {| st87 := xb' :: xa' :: st87 s; ms := m2 |} (st87 s) Ho' eq_refl F1 F2) as (m3 & E3 & R3).
    exists m3. split; [apply lrun_LI; exact E3|exact R3]. }
  assert (Swapped : forall o', (o' = OLt \/ o' = OLe) ->
            exists m', lrun mem lmem (lcompile b ++ lcompile a ++ map LI (lcmp_code o')) (s, k) = Some ({| st87 := st87 s; ms := m' |}, k) /\
                       Rv (TI I32) (VI (cmp_l o' xb xa)) m').
  { intros o' Ho'.
    destruct (lcompile_correct mem lmem rho lrho Hmem Hlmem b xb Wb Eb s k ltac:(lia)) as (xb' & m1 & E1 & F1).
    rewrite lrun_app, E1.
    destruct (lcompile_correct mem lmem rho lrho Hmem Hlmem a xa Wa Ea {| st87 := xb' :: st87 s; ms := m1 |} k ltac:(cbn [st87 length]; lia)) as (xa' & m2 & E2 & F2).
    rewrite lrun_app, E2. cbn [st87].
    destruct (lcmp_code_ok mem lmem o' xb xa xb' xa' {| st87 := xa' :: xb' :: st87 s; ms := m2 |} (st87 s) ltac:(destruct Ho' as [-> | ->]; auto) eq_refl F1 F2) as (m3 & E3 & R3).
    exists m3. split; [apply lrun_LI; exact E3|exact R3]. }
  destruct (cmp_l_swap xa xb) as [S1 S2].
  destruct o; try discriminate Ho; cbn [lcompile_cmp].
  - apply Plain; auto.
  - apply Plain; auto.
  - apply Plain; auto.
  - apply Plain; auto.
  - rewrite <- S1. apply Swapped; auto.
  - rewrite <- S2. apply Swapped; auto.
Qed.

(* !a *)
Theorem lnot_correct a v : lwell_typed a = true -> leval_not rho lrho a = Some v ->
  forall s k, (length (st87 s) + Nat.max (lneed a) 2 <= 8)%nat ->
  exists m', lrun mem lmem (lcompile_not a) (s, k) = Some ({| st87 := st87 s; ms := m' |}, k) /\ Rv (TI I32) v m'.
Proof.
  intros Wa H s k Hd. unfold leval_not in H. destruct (leval rho lrho a) as [xa|] eqn:Ea; [|discriminate]. injection H as <-.
  destruct (lcompile_correct mem lmem rho lrho Hmem Hlmem a xa Wa Ea s k ltac:(lia)) as (xa' & m1 & E1 & F1).
  unfold lcompile_not. rewrite lrun_app, E1.
  destruct (l_cmp_zero_ok mem lmem xa xa' {| st87 := xa' :: st87 s; ms := m1 |} (st87 s) eq_refl F1 ltac:(lia)) as (m2 & E2 & Z2).
  destruct (sete_movzx mem m2) as (m3 & E3 & A3 & _).
  exists m3. split.
  - apply lrun_LI. rewrite lexec_app, E2. apply (lexec_LS mem lmem [SI (ISet CE); SI IMovzxRax] {| st87 := st87 s; ms := m2 |}). exact E3.
  - cbn [Rv]. rewrite A3, Z2. apply R_b2z. reflexivity.
Qed.

(* (t)a for every other arithmetic type t *)
Theorem lcast_correct t a v : lwell_typed a = true -> leval_cast rho lrho t a = Some v ->
  forall s k, (length (st87 s) + Nat.max (lneed a) 2 <= 8)%nat ->
  exists m', lrun mem lmem (lcompile_cast t a) (s, k) = Some ({| st87 := st87 s; ms := m' |}, k) /\ Rv t v m'.
Proof.
  intros Wa H s k Hd. unfold leval_cast in H. destruct (leval rho lrho a) as [xa|] eqn:Ea; [|discriminate].
  destruct (lcompile_correct mem lmem rho lrho Hmem Hlmem a xa Wa Ea s k ltac:(lia)) as (xa' & m1 & E1 & F1).
  unfold lcompile_cast. rewrite lrun_app, E1.
  destruct (lcast_out_ok mem lmem t xa xa' v {| st87 := xa' :: st87 s; ms := m1 |} (st87 s) H F1 eq_refl ltac:(unfold binary80 in *; lia)) as (m2 & E2 & R2).
  exists m2. split; [apply lrun_LI; exact E2|exact R2].
Qed.
End Whole.
