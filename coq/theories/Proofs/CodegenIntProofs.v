(* The integer instruction selection of gen_expr computes the C11 result, for all operand values. *)
From Chibicc Require Import Base.Mach Spec.C11Int Model.X86Int Model.CodegenInt
     Model.ConstFold Proofs.ConstFoldProofs Proofs.CastTableProofs.
Local Open Scope Z_scope.

(* ---------- operators ---------- *)
Definition wbits (t : ity) : Z := bits (opw t).

Lemma R_big t v r : big t ->
  (R t v r <-> 0 <= r < 2 ^ 64 /\ lo (opw t) r = v mod 2 ^ wbits t).
Proof.
  intros [-> | [-> | [-> | ->]]]; unfold R, lo, wbits, opw; cbn [size_of Z.eqb bits Pos.eqb]; split; intros [H1 H2]; split; auto;
    pows; lia.
Qed.

Lemma range_big t v : big t -> in_range t v = true ->
  (if is_signed t then - 2 ^ (wbits t - 1) <= v < 2 ^ (wbits t - 1) else 0 <= v < 2 ^ wbits t).
Proof. intros [-> | [-> | [-> | ->]]] H; unfold wbits, opw; cbn [size_of Z.eqb bits Pos.eqb is_signed]; unfold_ty; pows; lia. Qed.

Lemma sgn_val t v r : big t -> is_signed t = true -> in_range t v = true -> R t v r -> sgn (opw t) r = v.
Proof.
  intros Hb Hs Hr HR. apply (R_big t v r Hb) in HR as [_ HR]. pose proof (range_big t v Hb Hr) as B. rewrite Hs in B.
  unfold sgn. unfold lo in HR. unfold wbits in *. rewrite HR.
  destruct Hb as [-> | [-> | [-> | ->]]]; try discriminate; unfold wbits, opw in *; cbn [size_of Z.eqb bits Pos.eqb] in *; pows;
    destruct (_ <=? _) eqn:E; lia.
Qed.

Lemma lo_val t v r : big t -> is_signed t = false -> in_range t v = true -> R t v r -> lo (opw t) r = v.
Proof.
  intros Hb Hs Hr HR. apply (R_big t v r Hb) in HR as [_ HR]. pose proof (range_big t v Hb Hr) as B. rewrite Hs in B.
  rewrite HR. apply Z.mod_small. lia.
Qed.

Lemma lo_range w z : 0 <= lo w z < 2 ^ 64.
Proof. unfold lo. destruct w; cbn [bits]; pows; lia. Qed.

Lemma lo_lo w z : lo w (lo w z) = lo w z.
Proof. unfold lo. apply Z.mod_mod. destruct w; cbn [bits]; pows; lia. Qed.

(* congruence modulo 2^n, for the operand-size view *)
Definition eqmn (n a b : Z) : Prop := a mod 2 ^ n = b mod 2 ^ n.
Lemma eqmn_bits n a b : 0 <= n -> (eqmn n a b <-> (forall i, 0 <= i < n -> Z.testbit a i = Z.testbit b i)).
Proof.
  intros Hn. unfold eqmn. split.
  - intros H i Hi. rewrite <- (Z.mod_pow2_bits_low a n i), <- (Z.mod_pow2_bits_low b n i) by lia. rewrite H. reflexivity.
  - intros H. apply Z.bits_inj'. intros i Hi. destruct (Z.lt_ge_cases i n).
    + rewrite !Z.mod_pow2_bits_low by lia. apply H. lia.
    + rewrite !Z.mod_pow2_bits_high by lia. reflexivity.
Qed.
Lemma eqmn_mod n a : 0 <= n -> eqmn n (a mod 2 ^ n) a.
Proof. intros. unfold eqmn. apply Z.mod_mod. apply Z.pow_nonzero; lia. Qed.

Lemma wr_R t s z v : big t -> eqmn (wbits t) z v -> R t v (rax (wr (opw t) s z)).
Proof.
  intros Hb He. apply R_big; auto. cbn [wr set_rax rax]. split; [apply lo_range|].
  rewrite lo_lo. exact He.
Qed.

Lemma conv_mod_big t z : big t -> eqmn (wbits t) (conv t z) z.
Proof.
  intros [-> | [-> | [-> | ->]]]; unfold eqmn, wbits, opw, conv; cbn [size_of Z.eqb bits Pos.eqb is_signed width andb]; pows;
    repeat match goal with |- context [if ?c then _ else _] => destruct c eqn:? end; lia.
Qed.

Lemma arith_result_mod t r v : big t -> arith_result t r = Some v -> eqmn (wbits t) r v.
Proof.
  intros Hb H. rewrite (arith_result_conv t r v (big_not_bool t Hb) H). unfold eqmn. symmetry. apply conv_mod_big; auto.
Qed.

Lemma wbits_pos t : 0 <= wbits t. Proof. unfold wbits. destruct (opw t); cbn; lia. Qed.

Section Ops.
Variable t : ity.
Hypothesis Hb : big t.
Variables (a b : Z) (s : xstate).
Hypothesis Ra : in_range t a = true.
Hypothesis Rb : in_range t b = true.
Hypothesis HA : R t a (rax s).
Hypothesis HB : R t b (rdi s).

Local Notation w := (opw t).
Local Notation n := (wbits t).

Lemma la : eqmn n (lo w (rax s)) a.
Proof. apply (R_big t a (rax s) Hb) in HA as [_ H]. unfold eqmn. rewrite H. apply Z.mod_mod. apply Z.pow_nonzero; [lia|apply wbits_pos]. Qed.
Lemma lb : eqmn n (lo w (rdi s)) b.
Proof. apply (R_big t b (rdi s) Hb) in HB as [_ H]. unfold eqmn. rewrite H. apply Z.mod_mod. apply Z.pow_nonzero; [lia|apply wbits_pos]. Qed.

Lemma eqmn_add x x' y y' : eqmn n x x' -> eqmn n y y' -> eqmn n (x + y) (x' + y').
Proof. unfold eqmn. intros H1 H2. assert (2 ^ n <> 0) by (apply Z.pow_nonzero; [lia|apply wbits_pos]). rewrite Z.add_mod, H1, H2, <- Z.add_mod by assumption. reflexivity. Qed.
Lemma eqmn_sub x x' y y' : eqmn n x x' -> eqmn n y y' -> eqmn n (x - y) (x' - y').
Proof. unfold eqmn. intros H1 H2. rewrite Zminus_mod, H1, H2, <- Zminus_mod. reflexivity. Qed.
Lemma eqmn_mul x x' y y' : eqmn n x x' -> eqmn n y y' -> eqmn n (x * y) (x' * y').
Proof. unfold eqmn. intros H1 H2. assert (2 ^ n <> 0) by (apply Z.pow_nonzero; [lia|apply wbits_pos]). rewrite Z.mul_mod, H1, H2, <- Z.mul_mod by assumption. reflexivity. Qed.
Lemma eqmn_trans x y z : eqmn n x y -> eqmn n y z -> eqmn n x z.
Proof. unfold eqmn; congruence. Qed.
Lemma eqmn_land x x' y y' : eqmn n x x' -> eqmn n y y' -> eqmn n (Z.land x y) (Z.land x' y').
Proof. pose proof (wbits_pos t). rewrite !eqmn_bits by assumption. intros H1 H2 i Hi. rewrite !Z.land_spec, H1, H2 by assumption. reflexivity. Qed.
Lemma eqmn_lor x x' y y' : eqmn n x x' -> eqmn n y y' -> eqmn n (Z.lor x y) (Z.lor x' y').
Proof. pose proof (wbits_pos t). rewrite !eqmn_bits by assumption. intros H1 H2 i Hi. rewrite !Z.lor_spec, H1, H2 by assumption. reflexivity. Qed.
Lemma eqmn_lxor x x' y y' : eqmn n x x' -> eqmn n y y' -> eqmn n (Z.lxor x y) (Z.lxor x' y').
Proof. pose proof (wbits_pos t). rewrite !eqmn_bits by assumption. intros H1 H2 i Hi. rewrite !Z.lxor_spec, H1, H2 by assumption. reflexivity. Qed.

Definition done (p : list insn) (rt : ity) (v : Z) : Prop :=
  exists s', exec p s = Some s' /\ R rt v (rax s').

Lemma ring_done (i : insn) (z r v : Z) :
  exec1 i s = Some (wr w s z) -> eqmn n z r -> arith_result t r = Some v -> done [i] t v.
Proof.
  intros He Hz Hr. exists (wr w s z). split; [cbn [exec]; rewrite He; reflexivity|].
  apply wr_R; auto. eapply eqmn_trans; [exact Hz|]. apply arith_result_mod; auto.
Qed.

Theorem add_ok v : arith_result t (a + b) = Some v -> done (gen_binop Add t) t v.
Proof. intros H. eapply ring_done; [reflexivity| |exact H]. apply eqmn_add; [apply la|apply lb]. Qed.
Theorem sub_ok v : arith_result t (a - b) = Some v -> done (gen_binop Sub t) t v.
Proof. intros H. eapply ring_done; [reflexivity| |exact H]. apply eqmn_sub; [apply la|apply lb]. Qed.
Theorem mul_ok v : arith_result t (a * b) = Some v -> done (gen_binop Mul t) t v.
Proof. intros H. eapply ring_done; [reflexivity| |exact H]. apply eqmn_mul; [apply la|apply lb]. Qed.

Lemma bit_done (i : insn) (z r : Z) :
  exec1 i s = Some (wr w s z) -> eqmn n z r -> done [i] t (conv t r).
Proof.
  intros He Hz. exists (wr w s z). split; [cbn [exec]; rewrite He; reflexivity|].
  apply wr_R; auto. eapply eqmn_trans; [exact Hz|]. unfold eqmn. symmetry. apply conv_mod_big; auto.
Qed.
Theorem and_ok : done (gen_binop BAnd t) t (conv t (Z.land a b)).
Proof. eapply bit_done; [reflexivity|]. apply eqmn_land; [apply la|apply lb]. Qed.
Theorem or_ok : done (gen_binop BOr t) t (conv t (Z.lor a b)).
Proof. eapply bit_done; [reflexivity|]. apply eqmn_lor; [apply la|apply lb]. Qed.
Theorem xor_ok : done (gen_binop BXor t) t (conv t (Z.lxor a b)).
Proof. eapply bit_done; [reflexivity|]. apply eqmn_lxor; [apply la|apply lb]. Qed.

(* comparisons: the flags of cmp are the C11 comparison of the converted operands *)
Lemma cmp_flags :
  let s1 := {| rax := rax s; rdi := rdi s; rdx := rdx s; rcx := rcx s;
               f_zf := lo w (rax s) =? lo w (rdi s); f_cf := lo w (rax s) <? lo w (rdi s);
               f_lt := sgn w (rax s) <? sgn w (rdi s) |} in
  f_zf s1 = (a =? b) /\
  (is_signed t = true -> f_lt s1 = (a <? b)) /\
  (is_signed t = false -> f_cf s1 = (a <? b)).
Proof.
  cbn [f_zf f_lt f_cf]. split; [|split]; intros.
  - destruct (is_signed t) eqn:Es.
    + pose proof (sgn_val t a (rax s) Hb Es Ra HA) as Sa. pose proof (sgn_val t b (rdi s) Hb Es Rb HB) as Sb.
      unfold sgn in Sa, Sb. unfold lo.
      destruct (_ <=? _) eqn:E1 in Sa; destruct (_ <=? _) eqn:E2 in Sb;
        destruct (Z.eqb_spec a b); destruct (Z.eqb_spec (rax s mod 2 ^ bits w) (rdi s mod 2 ^ bits w)); try reflexivity; try lia.
    + rewrite (lo_val t a (rax s) Hb Es Ra HA), (lo_val t b (rdi s) Hb Es Rb HB). reflexivity.
  - rewrite (sgn_val t a (rax s) Hb H Ra HA), (sgn_val t b (rdi s) Hb H Rb HB). reflexivity.
  - rewrite (lo_val t a (rax s) Hb H Ra HA), (lo_val t b (rdi s) Hb H Rb HB). reflexivity.
Qed.

Lemma setcc_result (s1 : xstate) (c : cc) (bv : bool) :
  0 <= rax s1 < 2 ^ 64 -> cond s1 c = bv ->
  exists s', exec [ISet c; IMovzbRax] s1 = Some s' /\ R I32 (b2z bv) (rax s').
Proof.
  intros Hr Hc. eexists. split; [cbn [exec exec1]; reflexivity|].
  unfold R, set_al, set_rax. cbn [rax]. unfold set_rax. cbn [rax]. rewrite Hc. destruct bv; cbn [b2z]; pows; lia.
Qed.

Lemma rax_range : 0 <= rax s < 2 ^ 64. Proof. destruct HA; assumption. Qed.

Definition after_cmp : xstate :=
  {| rax := rax s; rdi := rdi s; rdx := rdx s; rcx := rcx s;
     f_zf := lo w (rax s) =? lo w (rdi s); f_cf := lo w (rax s) <? lo w (rdi s);
     f_lt := sgn w (rax s) <? sgn w (rdi s) |}.

Lemma cmp_gen (c : cc) (bv : bool) : cond after_cmp c = bv -> done [ICmp w; ISet c; IMovzbRax] I32 (b2z bv).
Proof.
  intros Hc. destruct (setcc_result after_cmp c bv rax_range Hc) as [s' [E HR]].
  exists s'. split; [|exact HR]. cbn [exec exec1] in *. exact E.
Qed.

Theorem cmp_ok (o : binop) : is_cmp o = true -> o <> OGt -> o <> OGe ->
  done (gen_binop o t) I32 (eval_cmp o a b).
Proof.
  intros Ho N1 N2. destruct cmp_flags as [Fz [Fl Fc]]. fold after_cmp in Fz, Fl, Fc.
  destruct o; try discriminate Ho; try congruence; cbn [gen_binop eval_cmp]; apply cmp_gen; cbn [cond].
  - exact Fz.
  - rewrite Fz. reflexivity.
  - destruct (is_signed t) eqn:Es; cbn [cond]; [apply Fl|apply Fc]; reflexivity.
  - destruct (is_signed t) eqn:Es; cbn [cond]; [rewrite (Fl eq_refl)|rewrite (Fc eq_refl)]; rewrite Fz; lia.
Qed.
End Ops.

(* ---------- division ---------- *)
Lemma idiv_exec wd s1 A B :
  sgn wd (rdx s1) * 2 ^ bits wd + lo wd (rax s1) = A -> sgn wd (rdi s1) = B -> B <> 0 ->
  - 2 ^ (bits wd - 1) <= Z.quot A B < 2 ^ (bits wd - 1) ->
  exec1 (IIdiv wd) s1 = Some {| rax := lo wd (Z.quot A B); rdi := rdi s1; rdx := lo wd (Z.rem A B); rcx := rcx s1;
                                f_zf := f_zf s1; f_cf := f_cf s1; f_lt := f_lt s1 |}.
Proof.
  intros H1 H2 H3 H4. unfold exec1. rewrite H1, H2.
  replace (B =? 0) with false by lia.
  replace ((Z.quot A B <? - 2 ^ (bits wd - 1)) || (2 ^ (bits wd - 1) <=? Z.quot A B)) with false by lia.
  reflexivity.
Qed.

Lemma div_exec wd s1 A B :
  lo wd (rdx s1) = 0 -> lo wd (rax s1) = A -> lo wd (rdi s1) = B -> 0 < B -> 0 <= A < 2 ^ bits wd ->
  exec1 (IDiv wd) s1 = Some {| rax := A / B; rdi := rdi s1; rdx := A mod B; rcx := rcx s1;
                               f_zf := f_zf s1; f_cf := f_cf s1; f_lt := f_lt s1 |}.
Proof.
  intros H0 H1 H2 H3 H4. unfold exec1. rewrite H0, H1, H2. cbn [Z.mul Z.add].
  replace (B =? 0) with false by lia.
  assert (A / B <= A) by (apply Z.div_le_upper_bound; nia).
  replace (2 ^ bits wd <=? A / B) with false by lia. reflexivity.
Qed.

Section Div.
Variable t : ity.
Hypothesis Hb : big t.
Variables (a b : Z) (s : xstate).
Hypothesis Ra : in_range t a = true.
Hypothesis Rb : in_range t b = true.
Hypothesis HA : R t a (rax s).
Hypothesis HB : R t b (rdi s).
Hypothesis Hb0 : b <> 0.
Local Notation w := (opw t).

(* the state after cqo/cdq (signed) or mov $0,%?dx (unsigned), and the quotient / remainder left by idiv / div *)
Lemma divmod_exec :
  in_range t (Z.quot a b) = true ->
  exists s', exec (gen_divmod t) s = Some s' /\ R t (Z.quot a b) (rax s') /\ R t (Z.rem a b) (rdx s').
Proof.
  intros Hq. pose proof (range_big t _ Hb Hq) as Bq. pose proof (range_big t _ Hb Ra) as Ba. pose proof (range_big t _ Hb Rb) as Bb.
  assert (Hrem : in_range t (Z.rem a b) = true) by (apply rem_range; auto using big_not_bool).
  pose proof (range_big t _ Hb Hrem) as Br.
  unfold gen_divmod. destruct (is_signed t) eqn:Es.
  - (* cqo/cdq; idiv *)
    pose proof (sgn_val t a (rax s) Hb Es Ra HA) as Sa. pose proof (sgn_val t b (rdi s) Hb Es Rb HB) as Sb.
    pose proof (proj1 (R_big t a (rax s) Hb) HA) as [Hr La].
    destruct Hb as [-> | [-> | [-> | ->]]]; try discriminate; cbn [size_of Z.eqb Pos.eqb opw] in *; unfold wbits, opw in *; cbn [size_of Z.eqb Pos.eqb bits] in *.
    + (* int: cdq *)
      cbn [exec].
      set (s1 := {| rax := rax s; rdi := rdi s; rdx := rdx s - lo W32 (rdx s) + (if a <? 0 then 2 ^ 32 - 1 else 0); rcx := rcx s;
                    f_zf := f_zf s; f_cf := f_cf s; f_lt := f_lt s |}).
      assert (E : exec1 (IIdiv W32) s1 = Some {| rax := lo W32 (Z.quot a b); rdi := rdi s1; rdx := lo W32 (Z.rem a b); rcx := rcx s1;
                                                 f_zf := f_zf s1; f_cf := f_cf s1; f_lt := f_lt s1 |}).
      { apply idiv_exec; cbn [bits] in *; auto; try lia.
        unfold s1; cbn [rdx rax]. unfold sgn, lo in *. cbn [bits] in *. pows.
        destruct (a <? 0) eqn:En; repeat match goal with |- context [if ?c then _ else _] => destruct c eqn:? end; lia. }
      replace (exec1 ICdq s) with (Some s1) by (unfold s1; cbn [exec1]; rewrite Sa; reflexivity).
      rewrite E. eexists; split; [reflexivity|]. cbn [rax rdx]. split; unfold R, lo; cbn [bits]; pows; lia.
    + (* long: cqo *)
      cbn [exec].
      set (s1 := {| rax := rax s; rdi := rdi s; rdx := (if a <? 0 then 2 ^ 64 - 1 else 0); rcx := rcx s;
                    f_zf := f_zf s; f_cf := f_cf s; f_lt := f_lt s |}).
      assert (E : exec1 (IIdiv W64) s1 = Some {| rax := lo W64 (Z.quot a b); rdi := rdi s1; rdx := lo W64 (Z.rem a b); rcx := rcx s1;
                                                 f_zf := f_zf s1; f_cf := f_cf s1; f_lt := f_lt s1 |}).
      { apply idiv_exec; cbn [bits] in *; auto; try lia.
        unfold s1; cbn [rdx rax]. unfold sgn, lo in *. cbn [bits] in *. pows.
        destruct (a <? 0) eqn:En; repeat match goal with |- context [if ?c then _ else _] => destruct c eqn:? end; lia. }
      replace (exec1 ICqo s) with (Some s1) by (unfold s1; cbn [exec1]; rewrite Sa; reflexivity).
      rewrite E. eexists; split; [reflexivity|]. cbn [rax rdx]. split; unfold R, lo; cbn [bits]; pows; lia.
  - (* mov $0,%?dx; div *)
    pose proof (lo_val t a (rax s) Hb Es Ra HA) as La. pose proof (lo_val t b (rdi s) Hb Es Rb HB) as Lb.
    try rewrite Es in Ba; try rewrite Es in Bb; try rewrite Es in Bq; try rewrite Es in Br.
    cbn [exec].
    set (s1 := {| rax := rax s; rdi := rdi s; rdx := 0; rcx := rcx s; f_zf := f_zf s; f_cf := f_cf s; f_lt := f_lt s |}).
    assert (E : exec1 (IDiv w) s1 = Some {| rax := a / b; rdi := rdi s1; rdx := a mod b; rcx := rcx s1;
                                            f_zf := f_zf s1; f_cf := f_cf s1; f_lt := f_lt s1 |}).
    { apply div_exec; auto; try lia. }
    replace (exec1 (IMovZeroDx w) s) with (Some s1) by reflexivity.
    rewrite E. eexists; split; [reflexivity|]. cbn [rax rdx].
    rewrite Z.quot_div_nonneg, Z.rem_mod_nonneg in * by lia.
    assert (0 <= a / b <= a) by (split; [apply Z.div_pos; lia|apply Z.div_le_upper_bound; nia]).
    pose proof (Z.mod_pos_bound a b ltac:(lia)).
    split; apply R_big; auto; (split; [unfold wbits in *; destruct w; cbn [bits] in *; pows; lia|]);
      unfold lo; fold (wbits t); reflexivity.
Qed.

Theorem div_ok v : arith_result t (Z.quot a b) = Some v -> done s (gen_binop Div t) t v.
Proof.
  intros H. assert (Hq : in_range t (Z.quot a b) = true).
  { unfold arith_result in H. destruct (is_signed t) eqn:Es.
    - destruct (in_range t (Z.quot a b)); [reflexivity|discriminate].
    - pose proof (range_big t _ Hb Ra) as Ba. pose proof (range_big t _ Hb Rb) as Bb. rewrite Es in *.
      rewrite Z.quot_div_nonneg by lia.
      assert (0 <= a / b <= a) by (split; [apply Z.div_pos; lia|apply Z.div_le_upper_bound; nia]).
      destruct Hb as [-> | [-> | [-> | ->]]]; try discriminate; unfold_ty; unfold wbits, opw in *; cbn in *; pows; lia. }
  destruct (divmod_exec Hq) as [s' [E [R1 _]]]. exists s'. split; [exact E|].
  assert (v = Z.quot a b).
  { rewrite (arith_result_conv t _ v (big_not_bool t Hb) H). apply conv_in_range. exact Hq. }
  subst v. exact R1.
Qed.

Theorem mod_ok : in_range t (Z.quot a b) = true -> done s (gen_binop Mod t) t (Z.rem a b).
Proof.
  intros Hq. destruct (divmod_exec Hq) as [s' [E [_ R2]]].
  exists (set_rax s' (rdx s')). split.
  - cbn [gen_binop]. clear - E. revert E. generalize (gen_divmod t) as p. intros p. revert s.
    induction p as [|i p IH]; intros s0 E; cbn [exec app] in *.
    + inversion E; subst. reflexivity.
    + destruct (exec1 i s0); [apply IH; exact E|discriminate].
  - cbn [rax set_rax]. exact R2.
Qed.
End Div.

(* ---------- shifts ---------- *)
Lemma count_ok tn nv r wd : in_range tn nv = true -> R tn nv r -> 0 <= nv < bits wd -> r mod bits wd = nv.
Proof.
  intros Hr [Hb HR] Hn. destruct wd; cbn [bits] in *; destruct tn; unfold_ty; pows; lia.
Qed.

Lemma pow_pos2 k : 0 <= k -> 0 < 2 ^ k. Proof. intros. apply Z.pow_pos_nonneg; lia. Qed.

Theorem shift_codegen_ok o t a tn nv s v :
  big t -> is_shift o = true -> in_range t a = true -> in_range tn nv = true ->
  R t a (rax s) -> R tn nv (rdi s) ->
  eval_shift o t a nv = Some v -> done s (gen_binop o t) t v.
Proof.
  intros Hb Ho Ra Rn HA HN H. unfold eval_shift in H.
  destruct ((nv <? 0) || (width t <=? nv)) eqn:En; [discriminate|]. apply orb_false_iff in En as [N1 N2].
  assert (Hw : width t = bits (opw t)) by (destruct Hb as [-> | [-> | [-> | ->]]]; reflexivity).
  assert (N : 0 <= nv < bits (opw t)) by lia.
  pose proof (count_ok tn nv (rdi s) (opw t) Rn HN N) as Hc.
  pose proof (la t Hb a 0 s HA) as La. pose proof (pow_pos2 nv ltac:(lia)) as Hp.
  destruct o; try discriminate Ho; cbn [gen_binop]; unfold done; cbn [exec exec1 rcx rax]; rewrite ?Hc.
  - (* shl *)
    eexists; split; [reflexivity|]. apply wr_R; auto.
    assert (E : eqmn (wbits t) (lo (opw t) (rax s) * 2 ^ nv) (a * 2 ^ nv)) by (apply (eqmn_mul t 0 0); [exact La|reflexivity]).
    eapply (eqmn_trans t); [exact E|].
    destruct (is_signed t) eqn:Es.
    + destruct (a <? 0); [discriminate|]. destruct (in_range t (a * 2 ^ nv)); [|discriminate]. injection H as <-. reflexivity.
    + injection H as <-. unfold eqmn. rewrite Hw. unfold wbits. symmetry. apply Z.mod_mod. apply Z.pow_nonzero; [lia|destruct (opw t); cbn; lia].
  - (* shr *)
    injection H as <-. assert (Hr : in_range t (a / 2 ^ nv) = true) by (apply shr_range; [assumption|lia]).
    destruct (is_signed t) eqn:Es; cbn [exec1 rcx rax]; rewrite ?Hc.
    + eexists; split; [reflexivity|]. apply wr_R; auto. rewrite (sgn_val t a (rax s) Hb Es Ra HA). reflexivity.
    + eexists; split; [reflexivity|]. apply wr_R; auto. rewrite (lo_val t a (rax s) Hb Es Ra HA). reflexivity.
Qed.

(* ---------- unary operators ---------- *)
Theorem neg_codegen_ok t a s v : big t -> R t a (rax s) -> arith_result t (- a) = Some v -> done s (gen_unop Neg t) t v.
Proof.
  intros Hb HA H. unfold done. cbn [gen_unop exec exec1]. eexists; split; [reflexivity|].
  pose proof (arith_result_mod t _ v Hb H) as E. unfold eqmn in E.
  destruct HA as [Hr HA].
  destruct Hb as [-> | [-> | [-> | ->]]]; unfold R, wr, set_rax, lo, wbits, opw in *; cbn [rax bits size_of Z.eqb Pos.eqb] in *; pows; lia.
Qed.

Theorem not_codegen_ok t a s : big t -> R t a (rax s) -> done s (gen_unop BitNot t) t (conv t (Z.lnot a)).
Proof.
  intros Hb HA. unfold done. cbn [gen_unop exec exec1]. eexists; split; [reflexivity|].
  pose proof (conv_mod_big t (Z.lnot a) Hb) as E. unfold eqmn in E. unfold Z.lnot in *. rewrite <- !Z.sub_1_r in *.
  destruct HA as [Hr HA].
  destruct Hb as [-> | [-> | [-> | ->]]]; unfold R, wr, set_rax, lo, wbits, opw in *; cbn [rax bits size_of Z.eqb Pos.eqb] in *; pows; lia.
Qed.

Theorem lognot_codegen_ok t a s : in_range t a = true -> R t a (rax s) ->
  done s (gen_unop LogNot t) I32 (b2z (a =? 0)).
Proof.
  intros Ra [Hr HA]. unfold done. cbn [gen_unop gen_cmp_zero app exec exec1]. eexists; split; [reflexivity|].
  unfold R, set_al, set_rax. cbn [rax cond f_zf].
  assert (Z : (lo (if size_of t <=? 4 then W32 else W64) (rax s) =? 0) = (a =? 0)).
  { destruct t; cbn [size_of Z.leb Z.compare Pos.compare Pos.compare_cont]; unfold lo; cbn [bits]; unfold_ty; pows;
      (destruct (a =? 0) eqn:Ea; [apply Z.eqb_eq in Ea; apply Z.eqb_eq|apply Z.eqb_neq in Ea; apply Z.eqb_neq]; lia). }
  rewrite Z. destruct (a =? 0); cbn [b2z]; pows; lia.
Qed.

(* ---------- all arithmetic / bitwise operators at once ---------- *)
Theorem arith_codegen_ok o t a b s v :
  big t -> is_arith o = true -> in_range t a = true -> in_range t b = true ->
  R t a (rax s) -> R t b (rdi s) ->
  eval_bin_arith o t a b = Some v -> done s (gen_binop o t) t v.
Proof.
  intros Hb Ho Ra Rb HA HB H. destruct o; try discriminate Ho; cbn [eval_bin_arith] in H.
  - eapply add_ok; eauto.
  - eapply sub_ok; eauto.
  - eapply mul_ok; eauto.
  - destruct (b =? 0) eqn:E0; [discriminate|]. apply Z.eqb_neq in E0. exact (div_ok t Hb a b s Ra Rb HA HB E0 v H).
  - destruct (b =? 0) eqn:E0; [discriminate|]. destruct (in_range t (Z.quot a b)) eqn:Eq; inversion H; subst.
    apply Z.eqb_neq in E0. exact (mod_ok t Hb a b s Ra Rb HA HB E0 Eq).
  - inversion H; subst. eapply and_ok; eauto.
  - inversion H; subst. eapply or_ok; eauto.
  - inversion H; subst. eapply xor_ok; eauto.
Qed.
