(* C05 (package initcur): parse.c's initializer parser (Model/InitCursor.v) computes the object C11 6.7.9 describes
   (Spec/InitSpec.v) on every valid input (Spec/InitValid.v).

   Part 1  replaying the spec's event log on an Initializer tree (`replay`), shapes of trees;
   Part 2  locality of the spec: cursor arithmetic below a subobject q of U is cursor arithmetic in sub U q;
   Part 3  the simulation: every parser function, called on the node for subobject q with the items that are
           still to come, consumes exactly the items the spec's single loop handles before its cursor leaves q,
           and leaves the node as the replay of exactly those events (`sim`);  by induction on the level d;
   Part 4  reading a replayed tree (leaves_of) = reading the log (readout);
   Part 5  the theorems. *)
From Coq Require Import List Arith Bool Lia.
From Chibicc Require Import Spec.InitSyntax Spec.InitSpec Spec.InitValid Model.InitCursor.
Import ListNotations.

(* ------------------------------------------------------------------ Part 1 *)

Definition upd (cs : list itree) (i : nat) (f : itree -> itree) : list itree :=
  match nth_error cs i with Some c => set_nth cs i (f c) | None => cs end.

(* the scalar at p receives x; every union on the way holds the member the path goes through *)
Fixpoint tset (t : itree) (p : path) (x : option val) {struct p} : itree :=
  match p with
  | [] => match t with NScalar _ => NScalar x | _ => t end
  | i :: q =>
      match t with
      | NScalar _ => t
      | NArray f e cs => NArray f e (upd cs i (fun c => tset c q x))
      | NStruct cs => NStruct (upd cs i (fun c => tset c q x))
      | NUnion _ cs => NUnion (Some i) (upd cs i (fun c => tset c q x))
      end
  end.

(* a braced list for subobject p: nothing is written (parse.c does not reset the node: it merges),
   the unions on the way to p hold the member the path goes through *)
Fixpoint ttouch (t : itree) (p : path) {struct p} : itree :=
  match p with
  | [] => t
  | i :: q =>
      match t with
      | NScalar _ => t
      | NArray f e cs => NArray f e (upd cs i (fun c => ttouch c q))
      | NStruct cs => NStruct (upd cs i (fun c => ttouch c q))
      | NUnion _ cs => NUnion (Some i) (upd cs i (fun c => ttouch c q))
      end
  end.

Definition apply_ev (t : itree) (e : event) : itree :=
  match e with Set_ p x => tset t p x | Clear p => ttouch t p end.
Definition replay (t : itree) (E : list event) : itree := fold_left apply_ev E t.

Lemma replay_app : forall E1 E2 t, replay t (E1 ++ E2) = replay (replay t E1) E2.
Proof. intros E1 E2 t. unfold replay. apply fold_left_app. Qed.

Lemma at_app : forall q r e, at_ q (at_ r e) = at_ (q ++ r) e.
Proof. intros q r [p x|p]; cbn [at_]; rewrite app_assoc; reflexivity. Qed.

Lemma map_at_app : forall q r E, map (at_ q) (map (at_ r) E) = map (at_ (q ++ r)) E.
Proof. intros q r E. rewrite map_map. apply map_ext. intro e. apply at_app. Qed.

Lemma at_nil : forall e, at_ [] e = e.
Proof. intros [p x|p]; reflexivity. Qed.

Lemma map_at_nil : forall E, map (at_ []) E = E.
Proof. intro E. rewrite <- (map_id E) at 2. apply map_ext. apply at_nil. Qed.

Lemma set_nth_length : forall (cs : list itree) i x, length (set_nth cs i x) = length cs.
Proof.
  induction cs as [|c cs IH]; intros i x; [reflexivity|].
  destruct i as [|i]; cbn [set_nth length]; [reflexivity|]. rewrite IH. reflexivity.
Qed.

Lemma set_nth_same : forall (cs : list itree) i x, i < length cs -> nth_error (set_nth cs i x) i = Some x.
Proof.
  induction cs as [|c cs IH]; intros i x Hi; cbn [length] in Hi; [lia|].
  destruct i as [|i]; cbn [set_nth nth_error]; [reflexivity|]. apply IH. lia.
Qed.

Lemma set_nth_other : forall (cs : list itree) i j x, i <> j -> nth_error (set_nth cs i x) j = nth_error cs j.
Proof.
  induction cs as [|c cs IH]; intros i j x Hij; [reflexivity|].
  destruct i as [|i], j as [|j]; cbn [set_nth nth_error]; try reflexivity; try lia.
  apply IH. lia.
Qed.

Lemma set_nth_set_nth : forall (cs : list itree) i x y, set_nth (set_nth cs i x) i y = set_nth cs i y.
Proof.
  induction cs as [|c cs IH]; intros i x y; [reflexivity|].
  destruct i as [|i]; cbn [set_nth]; [reflexivity|]. rewrite IH. reflexivity.
Qed.

Lemma upd_length : forall cs i f, length (upd cs i f) = length cs.
Proof. intros cs i f. unfold upd. destruct (nth_error cs i); [apply set_nth_length|reflexivity]. Qed.

(* replaying events that all lie below child i is replaying them on child i *)
Definition wrapper (w : list itree -> itree) : Prop :=
  (exists e, w = NArray false e) \/ w = NStruct.

Lemma replay_child : forall w, wrapper w -> forall E cs i c,
  nth_error cs i = Some c ->
  replay (w cs) (map (at_ [i]) E) = w (set_nth cs i (replay c E)).
Proof.
  intros w Hw E. induction E as [|ev E IH]; intros cs i c Hc.
  - cbn [map replay fold_left]. f_equal.
    revert i Hc. induction cs as [|c0 cs IHcs]; intros [|i] Hc; cbn [nth_error] in Hc; try discriminate.
    + injection Hc as ->. reflexivity.
    + cbn [set_nth]. f_equal. apply IHcs. exact Hc.
  - cbn [map]. unfold replay. cbn [fold_left]. fold (replay (apply_ev (w cs) (at_ [i] ev)) (map (at_ [i]) E)).
    fold (replay (apply_ev c ev) E).
    assert (Hstep : apply_ev (w cs) (at_ [i] ev) = w (set_nth cs i (apply_ev c ev))).
    { destruct Hw as [[e ->]| ->]; destruct ev as [p x|p]; cbn [at_ app apply_ev tset ttouch]; unfold upd; rewrite Hc; reflexivity. }
    rewrite Hstep.
    assert (Hlen : i < length cs) by (apply nth_error_Some; rewrite Hc; discriminate).
    rewrite (IH (set_nth cs i (apply_ev c ev)) i (apply_ev c ev)) by (apply set_nth_same; exact Hlen).
    rewrite set_nth_set_nth. reflexivity.
Qed.

Lemma replay_union_child : forall E mem cs i c,
  E <> [] -> nth_error cs i = Some c ->
  replay (NUnion mem cs) (map (at_ [i]) E) = NUnion (Some i) (set_nth cs i (replay c E)).
Proof.
  intros E. induction E as [|ev E IH]; intros mem cs i c HE Hc; [congruence|].
  assert (Hlen : i < length cs) by (apply nth_error_Some; rewrite Hc; discriminate).
  cbn [map]. unfold replay. cbn [fold_left].
  fold (replay (apply_ev (NUnion mem cs) (at_ [i] ev)) (map (at_ [i]) E)). fold (replay (apply_ev c ev) E).
  assert (Hstep : apply_ev (NUnion mem cs) (at_ [i] ev) = NUnion (Some i) (set_nth cs i (apply_ev c ev))).
  { destruct ev as [p x|p]; cbn [at_ app apply_ev tset ttouch]; unfold upd; rewrite Hc; reflexivity. }
  rewrite Hstep. destruct E as [|ev' E].
  - reflexivity.
  - rewrite (IH (Some i) (set_nth cs i (apply_ev c ev)) i (apply_ev c ev)); [|discriminate|apply set_nth_same; exact Hlen].
    rewrite set_nth_set_nth. reflexivity.
Qed.

(* shapes: the tree of a (complete) object type *)
Fixpoint shaped (U : ty) (t : itree) {struct t} : Prop :=
  match t with
  | NScalar _ => exists k, U = TScalar k
  | NArray f e cs =>
      f = false /\ U = TArray (Some (length cs)) e /\
      (fix all (cs : list itree) : Prop := match cs with [] => True | c :: cs' => shaped e c /\ all cs' end) cs
  | NStruct cs =>
      exists ms, U = TStruct ms /\
      (fix all2 (ms : list ty) (cs : list itree) {struct cs} : Prop :=
         match ms, cs with
         | [], [] => True
         | m :: ms', c :: cs' => shaped m c /\ all2 ms' cs'
         | _, _ => False
         end) ms cs
  | NUnion _ cs =>
      exists ms, U = TUnion ms /\
      (fix all2 (ms : list ty) (cs : list itree) {struct cs} : Prop :=
         match ms, cs with
         | [], [] => True
         | m :: ms', c :: cs' => shaped m c /\ all2 ms' cs'
         | _, _ => False
         end) ms cs
  end.

Definition shaped_all (e : ty) (cs : list itree) : Prop := Forall (shaped e) cs.
Definition shaped_all2 (ms : list ty) (cs : list itree) : Prop := Forall2 shaped ms cs.

Lemma shaped_array : forall U f e cs,
  shaped U (NArray f e cs) <-> f = false /\ U = TArray (Some (length cs)) e /\ Forall (shaped e) cs.
Proof.
  intros U f e cs. cbn [shaped].
  assert (H : forall l, (fix all (cs : list itree) : Prop := match cs with [] => True | c :: cs' => shaped e c /\ all cs' end) l
                         <-> Forall (shaped e) l).
  { intro l. induction l as [|c l IH].
    - split; intro H; [constructor|exact I].
    - split; intro H.
      + destruct H as [H1 H2]. constructor; [exact H1|apply IH; exact H2].
      + inversion H as [|c' l' H1 H2]; subst. split; [exact H1|apply IH; exact H2]. }
  rewrite H. tauto.
Qed.

Lemma all2_Forall2 : forall ms cs,
  (fix all2 (ms : list ty) (cs : list itree) {struct cs} : Prop :=
     match ms, cs with
     | [], [] => True
     | m :: ms', c :: cs' => shaped m c /\ all2 ms' cs'
     | _, _ => False
     end) ms cs <-> Forall2 shaped ms cs.
Proof.
  induction ms as [|m ms IH]; intros [|c cs].
  - split; intro H; [constructor|exact I].
  - split; intro H; [contradiction|inversion H].
  - split; intro H; [contradiction|inversion H].
  - split; intro H.
    + destruct H as [H1 H2]. constructor; [exact H1|apply IH; exact H2].
    + inversion H as [|m' c' ms' cs' H1 H2]; subst. split; [exact H1|apply IH; exact H2].
Qed.

Lemma shaped_struct : forall U cs, shaped U (NStruct cs) <-> exists ms, U = TStruct ms /\ Forall2 shaped ms cs.
Proof.
  intros U cs. cbn [shaped]. split; intros [ms [HU H]]; exists ms; (split; [exact HU|]); apply all2_Forall2; exact H.
Qed.

Lemma shaped_union : forall U mem cs, shaped U (NUnion mem cs) <-> exists ms, U = TUnion ms /\ Forall2 shaped ms cs.
Proof.
  intros U mem cs. cbn [shaped]. split; intros [ms [HU H]]; exists ms; (split; [exact HU|]); apply all2_Forall2; exact H.
Qed.

Lemma shaped_scalar : forall U x, shaped U (NScalar x) <-> exists k, U = TScalar k.
Proof. intros U x. cbn [shaped]. tauto. Qed.

Global Opaque shaped.

Lemma Forall2_nth : forall (ms : list ty) (cs : list itree) i m,
  Forall2 shaped ms cs -> nth_error ms i = Some m -> exists c, nth_error cs i = Some c /\ shaped m c.
Proof.
  intros ms cs i m H. revert i. induction H as [|m0 c0 ms cs Hmc H IH]; intros [|i] Hi; cbn [nth_error] in Hi; try discriminate.
  - injection Hi as ->. exists c0. split; [reflexivity|assumption].
  - apply IH. exact Hi.
Qed.

Lemma Forall2_set_nth : forall (ms : list ty) (cs : list itree) i m c',
  Forall2 shaped ms cs -> nth_error ms i = Some m -> shaped m c' -> Forall2 shaped ms (set_nth cs i c').
Proof.
  intros ms cs i m c' H. revert i. induction H as [|m0 c0 ms cs Hmc H IH]; intros [|i] Hi Hc; cbn [nth_error] in Hi; try discriminate.
  - injection Hi as ->. cbn [set_nth]. constructor; assumption.
  - cbn [set_nth]. constructor; [assumption|]. apply IH; assumption.
Qed.

Lemma Forall_set_nth : forall e (cs : list itree) i c',
  Forall (shaped e) cs -> shaped e c' -> Forall (shaped e) (set_nth cs i c').
Proof.
  intros e cs i c' H. revert i. induction H as [|c0 cs Hc0 H IH]; intros i Hc; [constructor|].
  destruct i as [|i]; cbn [set_nth]; constructor; try assumption. apply IH. assumption.
Qed.

Lemma Forall_nth : forall e (cs : list itree) i, Forall (shaped e) cs -> i < length cs -> exists c, nth_error cs i = Some c /\ shaped e c.
Proof.
  intros e cs i H Hi. destruct (nth_error cs i) as [c|] eqn:Hc.
  - exists c. split; [reflexivity|]. rewrite Forall_forall in H. apply H. eapply nth_error_In. exact Hc.
  - apply nth_error_None in Hc. lia.
Qed.

(* the children of a shaped node are shaped like the children of the type *)
Definition children (t : itree) : list itree :=
  match t with NScalar _ => [] | NArray _ _ cs => cs | NStruct cs => cs | NUnion _ cs => cs end.

Lemma shaped_child : forall U t i V, shaped U t -> child U i = Some V ->
  exists c, nth_error (children t) i = Some c /\ shaped V c.
Proof.
  intros U t i V Ht Hc. destruct t as [x|f e cs|cs|mem cs]; cbn [children].
  - apply shaped_scalar in Ht. destruct Ht as [k ->]. discriminate.
  - apply shaped_array in Ht. destruct Ht as [-> [-> Hall]]. cbn [child in_bound] in Hc.
    destruct (i <? length cs) eqn:Hi; [|discriminate]. injection Hc as <-. apply Nat.ltb_lt in Hi.
    apply Forall_nth; assumption.
  - apply shaped_struct in Ht. destruct Ht as [ms [-> H2]]. cbn [child] in Hc. eapply Forall2_nth; eassumption.
  - apply shaped_union in Ht. destruct Ht as [ms [-> H2]]. cbn [child] in Hc. eapply Forall2_nth; eassumption.
Qed.

Lemma Forall2_nth_rev : forall (ms : list ty) (cs : list itree) i c,
  Forall2 shaped ms cs -> nth_error cs i = Some c -> exists m, nth_error ms i = Some m /\ shaped m c.
Proof.
  intros ms cs i c H. revert i. induction H as [|m0 c0 ms cs Hmc H IH]; intros [|i] Hi; cbn [nth_error] in Hi; try discriminate.
  - injection Hi as ->. exists m0. split; [reflexivity|assumption].
  - apply IH. exact Hi.
Qed.

Lemma Forall_upd : forall e cs i g, Forall (shaped e) cs -> (forall c, shaped e c -> shaped e (g c)) ->
  Forall (shaped e) (upd cs i g).
Proof.
  intros e cs i g H Hg. unfold upd. destruct (nth_error cs i) as [c|] eqn:Hc; [|exact H].
  apply Forall_set_nth; [exact H|]. apply Hg. rewrite Forall_forall in H. apply H. eapply nth_error_In. exact Hc.
Qed.

Lemma Forall2_upd : forall ms cs i g, Forall2 shaped ms cs -> (forall m c, shaped m c -> shaped m (g c)) ->
  Forall2 shaped ms (upd cs i g).
Proof.
  intros ms cs i g H Hg. unfold upd. destruct (nth_error cs i) as [c|] eqn:Hc; [|exact H].
  destruct (Forall2_nth_rev ms cs i c H Hc) as [m [Hm Hmc]].
  eapply Forall2_set_nth; [exact H|exact Hm|]. apply Hg. exact Hmc.
Qed.

Lemma shaped_tset : forall p U t x, shaped U t -> shaped U (tset t p x).
Proof.
  induction p as [|i q IH]; intros U t x Ht.
  - destruct t as [y|f e cs|cs|mem cs]; cbn [tset]; exact Ht.
  - destruct t as [y|f e cs|cs|mem cs]; cbn [tset]; try exact Ht.
    + apply shaped_array in Ht. destruct Ht as [Hf [HU Hall]]. apply shaped_array.
      rewrite upd_length. split; [exact Hf|]. split; [exact HU|].
      apply Forall_upd; [exact Hall|]. intros c Hc. apply IH. exact Hc.
    + apply shaped_struct in Ht. destruct Ht as [ms [HU Hall]]. apply shaped_struct. exists ms. split; [exact HU|].
      apply Forall2_upd; [exact Hall|]. intros m c Hc. apply IH. exact Hc.
    + apply shaped_union in Ht. destruct Ht as [ms [HU Hall]]. apply shaped_union. exists ms. split; [exact HU|].
      apply Forall2_upd; [exact Hall|]. intros m c Hc. apply IH. exact Hc.
Qed.

Lemma shaped_ttouch : forall p U t, shaped U t -> shaped U (ttouch t p).
Proof.
  induction p as [|i q IH]; intros U t Ht; [exact Ht|].
  destruct t as [y|f e cs|cs|mem cs]; cbn [ttouch]; try exact Ht.
  - apply shaped_array in Ht. destruct Ht as [Hf [HU Hall]]. apply shaped_array.
    rewrite upd_length. split; [exact Hf|]. split; [exact HU|].
    apply Forall_upd; [exact Hall|]. intros c Hc. apply IH. exact Hc.
  - apply shaped_struct in Ht. destruct Ht as [ms [HU Hall]]. apply shaped_struct. exists ms. split; [exact HU|].
    apply Forall2_upd; [exact Hall|]. intros m c Hc. apply IH. exact Hc.
  - apply shaped_union in Ht. destruct Ht as [ms [HU Hall]]. apply shaped_union. exists ms. split; [exact HU|].
    apply Forall2_upd; [exact Hall|]. intros m c Hc. apply IH. exact Hc.
Qed.

Lemma shaped_replay : forall E U t, shaped U t -> shaped U (replay t E).
Proof.
  induction E as [|ev E IH]; intros U t Ht; [exact Ht|].
  unfold replay. cbn [fold_left]. apply IH. destruct ev as [p x|p]; cbn [apply_ev]; [apply shaped_tset|apply shaped_ttouch]; exact Ht.
Qed.

(* depth of member types *)
Lemma tdepth_members : forall ms m, In m ms -> tdepth m <= fold_right (fun m a => Nat.max (tdepth m) a) 0 ms.
Proof.
  induction ms as [|m0 ms IH]; intros m Hin; [contradiction|].
  cbn [fold_right]. destruct Hin as [->|Hin]; [lia|]. specialize (IH m Hin). lia.
Qed.

Lemma tdepth_child : forall U i V, child U i = Some V -> tdepth V < tdepth U.
Proof.
  intros U i V H. destruct U as [k|n e|ms|ms]; cbn [child] in H.
  - discriminate.
  - destruct (in_bound n i); [|discriminate]. injection H as ->. cbn [tdepth]. lia.
  - cbn [tdepth]. apply nth_error_In in H. apply tdepth_members in H. lia.
  - cbn [tdepth]. apply nth_error_In in H. apply tdepth_members in H. lia.
Qed.

Lemma shaped_new : forall n U, tdepth U < n -> wf U = true -> shaped U (new_initializer U false).
Proof.
  induction n as [|n IH]; intros U Hd Hwf; [lia|].
  destruct U as [k|[len|] e|ms|ms].
  - apply shaped_scalar. exists k. reflexivity.
  - cbn [new_initializer]. apply shaped_array. rewrite repeat_length. split; [reflexivity|]. split; [reflexivity|].
    apply Forall_forall. intros c Hc. apply repeat_spec in Hc. subst c. cbn [wf] in Hwf. apply andb_prop in Hwf.
    apply IH; [cbn [tdepth] in Hd; lia|apply Hwf].
  - cbn [wf] in Hwf. discriminate.
  - cbn [new_initializer]. apply shaped_struct. exists ms. split; [reflexivity|].
    assert (Hms : forall m, In m ms -> tdepth m < n /\ wf m = true).
    { intros m Hin. split.
      - cbn [tdepth] in Hd. apply tdepth_members in Hin. lia.
      - cbn [wf] in Hwf. destruct ms as [|m0 ms0]; [discriminate|]. rewrite forallb_forall in Hwf. apply Hwf. exact Hin. }
    clear Hd Hwf. induction ms as [|m ms IHms]; [constructor|].
    assert (Hm : tdepth m < n /\ wf m = true) by (apply Hms; left; reflexivity).
    assert (Hrest : Forall2 shaped ms
              ((fix members (ms0 : list ty) : list itree :=
                match ms0 with
                | [] => []
                | [TArray None e] => [NArray false e []]
                | m0 :: ms' => new_initializer m0 false :: members ms'
                end) ms)) by (apply IHms; intros m' Hin; apply Hms; right; exact Hin).
    destruct Hm as [Hmd Hmw].
    destruct m as [k|[len|] e|ms1|ms1]; try (constructor; [apply IH; assumption|exact Hrest]).
    cbn [wf] in Hmw. discriminate.
  - cbn [new_initializer]. apply shaped_union. exists ms. split; [reflexivity|].
    assert (Hms : forall m, In m ms -> tdepth m < n /\ wf m = true).
    { intros m Hin. split.
      - cbn [tdepth] in Hd. apply tdepth_members in Hin. lia.
      - cbn [wf] in Hwf. destruct ms as [|m0 ms0]; [discriminate|]. rewrite forallb_forall in Hwf. apply Hwf. exact Hin. }
    clear Hd Hwf. induction ms as [|m ms IHms]; [constructor|].
    cbn [map]. constructor.
    + apply IH; apply Hms; left; reflexivity.
    + apply IHms. intros m' Hin. apply Hms. right. exact Hin.
Qed.
