(* Proofs about Model/LitScan.v against Spec/LitSpec.v: escape sequences, string literal
   bodies in the five encodings, character constants. *)
From Chibicc Require Import Base.Mach Model.Unicode Spec.Utf Model.IntLit Spec.IntLitSpec
     Proofs.UnicodeProofs Model.LitScan Spec.LitSpec.
Local Open Scope N_scope.

(* ------------------------------------------------------------------ *)
(* character classes: the spec's digit table against the C predicates  *)
(* ------------------------------------------------------------------ *)
Lemma digit_value_large b : 128 <= b -> digit_value b = None.
Proof.
  intros Hb. unfold digit_value, digit_table. cbn [find fst snd].
  repeat match goal with |- context [(?k =? b)] => replace (k =? b) with false by lia end.
  reflexivity.
Qed.

(* everything the proofs need about one character, as one boolean, checked on 0..127 *)
Definition class_facts (b : N) : bool :=
  Bool.eqb (is_digit_of 16 b) (isxdigit b) &&
  Bool.eqb (is_digit_of 8 b) (is_octal b) &&
  Bool.eqb (is_digit_of 10 b) (isdigit b) &&
  Bool.eqb (is_digit_of 2 b) ((b =? 48) || (b =? 49)) &&
  Bool.eqb (is_digit_of 16 b) (is_base_digit 16 b) &&
  Bool.eqb (is_digit_of 10 b) (is_base_digit 10 b) &&
  Bool.eqb (is_digit_of 8 b) (is_base_digit 8 b) &&
  Bool.eqb (is_digit_of 2 b) (is_base_digit 2 b) &&
  (if is_digit_of 16 b then (dval b =? from_hex b) && (dval b <? 16) &&
                            match strtoul_digit b with Some d => d =? dval b | None => false end
   else true) &&
  (if is_digit_of 8 b then (dval b =? b - 48) else true).

Lemma class_facts_all b : class_facts b = true.
Proof.
  destruct (N.ltb_spec b 128) as [Hs|Hl].
  - apply (forall_below class_facts 128); [vm_compute; reflexivity | exact Hs].
  - unfold class_facts, is_digit_of. rewrite (digit_value_large b Hl).
    unfold isxdigit, is_octal, isdigit, is_base_digit, strtoul_digit, isdigit, islower, isupper.
    replace (48 <=? b) with true by lia. replace (b <=? 57) with false by lia.
    replace (b <=? 55) with false by lia.
    replace (97 <=? b) with true by lia. replace (65 <=? b) with true by lia.
    replace (b <=? 102) with false by lia. replace (b <=? 70) with false by lia.
    replace (b =? 48) with false by lia. replace (b =? 49) with false by lia.
    destruct (b <=? 122) eqn:E1; cbn [andb orb Bool.eqb];
      [replace (b - 97 + 10 <? 16) with false by lia; replace (b - 97 + 10 <? 10) with false by lia;
       replace (b - 97 + 10 <? 8) with false by lia; replace (b - 97 + 10 <? 2) with false by lia; reflexivity|].
    replace (b <=? 90) with false by lia. reflexivity.
Qed.

Ltac class_fact b :=
  let H := fresh "Hcf" in
  pose proof (class_facts_all b) as H; unfold class_facts in H;
  repeat (apply andb_prop in H; let H2 := fresh "Hcf" in destruct H as [H H2]).

Lemma hexdig_isxdigit b : is_digit_of 16 b = isxdigit b.
Proof. class_fact b. apply Bool.eqb_prop. assumption. Qed.
Lemma octdig_is_octal b : is_digit_of 8 b = is_octal b.
Proof. class_fact b. apply Bool.eqb_prop. assumption. Qed.
Lemma decdig_isdigit b : is_digit_of 10 b = isdigit b.
Proof. class_fact b. apply Bool.eqb_prop. assumption. Qed.
Lemma bindig_01 b : is_digit_of 2 b = ((b =? 48) || (b =? 49)).
Proof. class_fact b. apply Bool.eqb_prop. assumption. Qed.
Lemma hexdig_facts b : is_digit_of 16 b = true ->
  dval b = from_hex b /\ dval b < 16 /\ strtoul_digit b = Some (dval b).
Proof.
  intros H. class_fact b. rewrite H in *.
  repeat match goal with X : _ && _ = true |- _ => apply andb_prop in X; destruct X end.
  destruct (strtoul_digit b) as [d|]; [|discriminate].
  repeat split; try lia. f_equal. lia.
Qed.
Lemma octdig_facts b : is_digit_of 8 b = true -> dval b = b - 48 /\ is_octal b = true /\ dval b < 8.
Proof.
  intros H. pose proof (octdig_is_octal b) as Ho. class_fact b. rewrite H in *.
  split; [lia|]. split; [symmetry; exact Ho|].
  clear - H. unfold is_digit_of, dval in *. destruct (digit_value b); [lia|discriminate].
Qed.

(* ------------------------------------------------------------------ *)
(* Stage 1: escape sequences                                           *)
(* ------------------------------------------------------------------ *)
Definition two32 : N := 4294967296.

Lemma peek_app a q t : peek (a ++ q :: t) = first_byte a q.
Proof. destruct a as [|x a']; reflexivity. Qed.

Definition hstep (a ch : N) : N := a * 16 + dval ch.

Lemma fold_hstep_mod ds : forall x y, x mod two32 = y mod two32 ->
  fold_left hstep ds x mod two32 = fold_left hstep ds y mod two32.
Proof.
  induction ds as [|d ds IH]; intros x y Hxy; cbn [fold_left]; [exact Hxy|].
  apply IH. unfold hstep, two32 in *. lia.
Qed.

Lemma hex_loop_spec ds : forall acc rest,
  forallb (is_digit_of 16) ds = true -> isxdigit (peek rest) = false -> acc < two32 ->
  hex_loop acc (ds ++ rest) = (fold_left hstep ds acc mod two32, rest).
Proof.
  induction ds as [|d ds IH]; intros acc rest Hds Hrest Hacc.
  - cbn [app fold_left]. rewrite N.mod_small by exact Hacc.
    destruct rest as [|b r]; [reflexivity|]. cbn [hex_loop]. cbn [peek] in Hrest. rewrite Hrest. reflexivity.
  - cbn [forallb] in Hds. apply andb_prop in Hds. destruct Hds as [Hd Hds].
    cbn [app hex_loop fold_left]. rewrite <- hexdig_isxdigit, Hd.
    destruct (hexdig_facts d Hd) as [Hv [Hlt _]].
    rewrite IH; [|exact Hds|exact Hrest|unfold u32, two32; lia].
    f_equal. apply fold_hstep_mod. unfold hstep, u32, two32. rewrite shiftl_mul, <- Hv.
    change (2 ^ 4) with 16. rewrite N.mod_mod by lia. reflexivity.
Qed.

Lemma digits_value_16 ds : digits_value 16 ds = fold_left hstep ds 0.
Proof. reflexivity. Qed.

Lemma simple_escape_read e rest :
  read_escaped_char (simple_char e :: rest) = Ok (simple_value e, rest).
Proof. destruct e; reflexivity. Qed.

(* the main statement of stage 1: on the spelling of any valid escape sequence that is not
   prolonged by the next character, read_escaped_char returns its value - modulo 2^32, the
   wrap-around of the int accumulator - and stops exactly behind it *)
Theorem read_escaped_char_spec e rest :
  valid_escape e = true -> escape_ends_before e (peek rest) = true ->
  read_escaped_char (spell_escape_body e ++ rest) = Ok (escape_value e mod two32, rest).
Proof.
  intros Hv He. destruct e as [s| |ds|ds]; cbn [spell_escape_body escape_value app].
  - rewrite simple_escape_read. f_equal. f_equal. symmetry. apply N.mod_small. destruct s; reflexivity.
  - reflexivity.
  - (* octal *)
    cbn [valid_escape] in Hv. cbn [escape_ends_before] in He.
    apply andb_prop in Hv. destruct Hv as [Hlen Hds]. apply andb_prop in Hlen. destruct Hlen as [Hl1 Hl3].
    destruct ds as [|d1 [|d2 [|d3 [|d4 ds]]]]; cbn [length] in *; try discriminate.
    + cbn [forallb] in Hds. apply andb_prop in Hds. destruct Hds as [H1 _].
      destruct (octdig_facts d1 H1) as [V1 [O1 L1]].
      cbn [Nat.eqb orb] in He. rewrite octdig_is_octal in He.
      cbn [app read_escaped_char]. rewrite O1.
      destruct (is_octal (peek rest)); [discriminate|].
      unfold digits_value. cbn [fold_left]. rewrite N.mod_small by (unfold two32; lia).
      f_equal. f_equal. lia.
    + cbn [forallb] in Hds. apply andb_prop in Hds. destruct Hds as [H1 Hds].
      apply andb_prop in Hds. destruct Hds as [H2 _].
      destruct (octdig_facts d1 H1) as [V1 [O1 L1]]. destruct (octdig_facts d2 H2) as [V2 [O2 L2]].
      cbn [Nat.eqb orb] in He. rewrite octdig_is_octal in He.
      cbn [app read_escaped_char peek tl]. rewrite O1, O2.
      destruct (is_octal (peek rest)); [discriminate|].
      unfold digits_value. cbn [fold_left]. rewrite N.mod_small by (unfold two32; lia).
      f_equal. f_equal. rewrite shiftl_mul. change (2 ^ 3) with 8. lia.
    + cbn [forallb] in Hds. apply andb_prop in Hds. destruct Hds as [H1 Hds].
      apply andb_prop in Hds. destruct Hds as [H2 Hds]. apply andb_prop in Hds. destruct Hds as [H3 _].
      destruct (octdig_facts d1 H1) as [V1 [O1 L1]]. destruct (octdig_facts d2 H2) as [V2 [O2 L2]].
      destruct (octdig_facts d3 H3) as [V3 [O3 L3]].
      cbn [app read_escaped_char peek tl]. rewrite O1, O2, O3.
      unfold digits_value. cbn [fold_left]. rewrite N.mod_small by (unfold two32; lia).
      f_equal. f_equal. rewrite !shiftl_mul. change (2 ^ 3) with 8. lia.
  - (* hexadecimal *)
    cbn [valid_escape] in Hv. cbn [escape_ends_before] in He.
    apply andb_prop in Hv. destruct Hv as [Hlen Hds].
    destruct ds as [|d ds]; [discriminate|].
    change (read_escaped_char (120 :: (d :: ds) ++ rest)) with
      (if isxdigit (peek ((d :: ds) ++ rest)) then Ok (hex_loop 0 ((d :: ds) ++ rest)) else Err ErrHexEscape).
    assert (Hd : is_digit_of 16 d = true) by (cbn [forallb] in Hds; apply andb_prop in Hds; tauto).
    cbn [app peek]. rewrite <- hexdig_isxdigit, Hd.
    change (d :: ds ++ rest) with ((d :: ds) ++ rest).
    rewrite hex_loop_spec; [reflexivity|exact Hds| |unfold two32; lia].
    rewrite <- hexdig_isxdigit. destruct (is_digit_of 16 (peek rest)); [discriminate|reflexivity].
Qed.

(* without wrap-around: values below 2^32, in particular every octal escape and every
   hexadecimal escape of at most eight digits *)
Corollary read_escaped_char_exact e rest :
  valid_escape e = true -> escape_ends_before e (peek rest) = true -> escape_value e < two32 ->
  read_escaped_char (spell_escape_body e ++ rest) = Ok (escape_value e, rest).
Proof.
  intros Hv He Hlt. rewrite read_escaped_char_spec by assumption. rewrite N.mod_small by exact Hlt. reflexivity.
Qed.

(* rejections: \x not followed by a hexadecimal digit is the located error; an escape always
   consumes at least the character behind the backslash *)
Theorem read_escaped_char_rejects_bare_x rest :
  is_digit_of 16 (peek rest) = false -> read_escaped_char (120 :: rest) = Err ErrHexEscape.
Proof.
  intros H. rewrite hexdig_isxdigit in H.
  change (read_escaped_char (120 :: rest)) with
    (if isxdigit (peek rest) then Ok (hex_loop 0 rest) else Err ErrHexEscape).
  rewrite H. reflexivity.
Qed.

(* the bound on octal values used for the element-width statements *)
Lemma octal_value_bound ds : (length ds <= 3)%nat -> forallb (is_digit_of 8) ds = true -> digits_value 8 ds < 512.
Proof.
  intros Hl Hds. destruct ds as [|d1 [|d2 [|d3 [|d4 ds]]]]; cbn [length] in Hl; try lia;
    unfold digits_value; cbn [fold_left]; cbn [forallb] in Hds;
    repeat match goal with H : _ && _ = true |- _ => apply andb_prop in H; destruct H end;
    repeat match goal with H : is_digit_of 8 ?d = true |- _ => destruct (octdig_facts d H) as [_ [_ ?]]; clear H end;
    lia.
Qed.

(* ------------------------------------------------------------------ *)
(* Stage 2 / 4: string literal bodies                                  *)
(* ------------------------------------------------------------------ *)
(* the bytes of the UTF-8 form of a character above 127 are all above 127 *)
Lemma rfc3629_high_bytes c : 128 <= c -> c < 2097152 ->
  forallb (fun b => (128 <=? b) && (b <? 256)) (rfc3629 c) = true.
Proof.
  intros Hlo Hhi. unfold rfc3629.
  replace (c <? 128) with false by lia.
  destruct (c <? 2048) eqn:E1; [cbn [forallb]; lia|].
  destruct (c <? 65536) eqn:E2; cbn [forallb]; lia.
Qed.

Lemma rfc3629_low c : c < 128 -> rfc3629 c = [c].
Proof. intros H. unfold rfc3629. replace (c <? 128) with true by lia. reflexivity. Qed.

Lemma rfc3629_length c : (1 <= length (rfc3629 c) <= 4)%nat.
Proof. unfold rfc3629. destruct (c <? 128), (c <? 2048), (c <? 65536); cbn [length]; lia. Qed.

Lemma is_scalar_bound c : is_scalar c = true -> c < 1114112.
Proof. unfold is_scalar. lia. Qed.

(* a byte that neither ends nor escapes anything, for delimiter q *)
Definition plain_byte (q b : N) : bool := negb (b =? q) && negb (b =? 10) && negb (b =? 92) && negb (b =? 0).

Lemma valid_chr_bytes q c : (q = 34 \/ q = 39) -> valid_item q (IChr c) = true -> forallb (plain_byte q) (rfc3629 c) = true.
Proof.
  intros Hq Hv. cbn [valid_item] in Hv.
  repeat match goal with H : _ && _ = true |- _ => apply andb_prop in H; destruct H end.
  pose proof (is_scalar_bound c ltac:(assumption)) as Hb.
  destruct (N.ltb_spec c 128) as [Hs|Hl].
  - rewrite rfc3629_low by exact Hs. cbn [forallb]. unfold plain_byte. lia.
  - pose proof (rfc3629_high_bytes c Hl ltac:(lia)) as Hh.
    rewrite forallb_forall in *. intros b Hin. specialize (Hh b Hin). unfold plain_byte. lia.
Qed.

Lemma digit_plain q b : (q = 34 \/ q = 39) -> is_digit_of 16 b = true -> plain_byte q b = true.
Proof. intros Hq H. rewrite hexdig_isxdigit in H. unfold isxdigit, isdigit, plain_byte in *. lia. Qed.

Lemma digits_plain q ds : (q = 34 \/ q = 39) -> forallb (is_digit_of 16) ds = true -> forallb (plain_byte q) ds = true.
Proof.
  intros Hq H. rewrite forallb_forall in *. intros b Hin. apply digit_plain; [exact Hq|]. apply H. exact Hin.
Qed.

Lemma octal_is_hex ds : forallb (is_digit_of 8) ds = true -> forallb (is_digit_of 16) ds = true.
Proof.
  intros H. rewrite forallb_forall in *. intros b Hin. specialize (H b Hin).
  unfold is_digit_of in *. destruct (digit_value b); [lia|discriminate].
Qed.

(* string_literal_end walks over plain bytes and over backslash pairs *)
Lemma sle_plain bs : forall more, forallb (plain_byte 34) bs = true ->
  string_literal_end (bs ++ more) = string_literal_end more.
Proof.
  induction bs as [|b bs IH]; intros more H; [reflexivity|].
  cbn [forallb] in H. apply andb_prop in H. destruct H as [Hb Hbs].
  cbn [app string_literal_end]. unfold plain_byte in Hb.
  replace (b =? 34) with false by lia. replace (b =? 10) with false by lia. replace (b =? 92) with false by lia.
  apply IH. exact Hbs.
Qed.

Lemma sle_pair x more : string_literal_end (92 :: x :: more) = string_literal_end more.
Proof. reflexivity. Qed.

(* the spelling of an escape is a backslash pair followed by plain bytes *)
Lemma escape_shape e : valid_escape e = true ->
  exists x ds, spell_escape_body e = x :: ds /\ forallb (is_digit_of 16) ds = true /\ x <> 0.
Proof.
  intros Hv. destruct e as [s| |ds|ds]; cbn [spell_escape_body valid_escape] in *.
  - exists (simple_char s), []. repeat split. destruct s; discriminate.
  - exists 101, []. repeat split. discriminate.
  - apply andb_prop in Hv. destruct Hv as [Hl Hds]. destruct ds as [|d ds]; [discriminate|].
    exists d, ds. pose proof (octal_is_hex _ Hds) as Hh. cbn [forallb] in Hh. apply andb_prop in Hh.
    destruct Hh as [Hd Hh]. repeat split; [exact Hh|]. pose proof (digit_plain 34 d (or_introl eq_refl) Hd) as Hp.
    unfold plain_byte in Hp. lia.
  - apply andb_prop in Hv. destruct Hv as [Hl Hds]. exists 120, ds. repeat split; [exact Hds|discriminate].
Qed.

Lemma sle_item it more : valid_item 34 it = true ->
  string_literal_end (spell_item it ++ more) = string_literal_end more.
Proof.
  intros Hv. destruct it as [c|e].
  - apply sle_plain. apply valid_chr_bytes; [left; reflexivity|exact Hv].
  - cbn [valid_item] in Hv. destruct (escape_shape e Hv) as [x [ds [Hsp [Hds _]]]].
    cbn [spell_item]. unfold spell_escape. rewrite Hsp. cbn [app]. rewrite sle_pair.
    apply sle_plain. apply digits_plain; [left; reflexivity|exact Hds].
Qed.

Lemma spell_items_cons it l : spell_items (it :: l) = spell_item it ++ spell_items l.
Proof. reflexivity. Qed.

Lemma sle_items l rest : forallb (valid_item 34) l = true ->
  string_literal_end (spell_items l ++ 34 :: rest) = Ok (34 :: rest).
Proof.
  induction l as [|it l IH]; intros H; [reflexivity|].
  cbn [forallb] in H. apply andb_prop in H. destruct H as [Hit Hl].
  rewrite spell_items_cons, <- app_assoc, sle_item by exact Hit. apply IH. exact Hl.
Qed.

(* ---------- the scanning loop, generically in the element reader ---------- *)
Definition item_follow (it : item) (next : N) : bool :=
  match it with IEsc e => escape_ends_before e next | IChr _ => true end.

Lemma lit_loop_step elem f endlen p us p' :
  (endlen < length p)%nat -> elem p = Ok (us, p') ->
  lit_loop elem (S f) endlen p = res_map (app us) (lit_loop elem f endlen p').
Proof.
  intros Hlen He. cbn [lit_loop]. replace (length p <=? endlen)%nat with false by (symmetry; apply Nat.leb_gt; exact Hlen).
  rewrite He. reflexivity.
Qed.

Lemma spell_item_nonempty it : (1 <= length (spell_item it))%nat.
Proof. destruct it as [c|e]; cbn [spell_item]; [apply rfc3629_length|unfold spell_escape; cbn [length]; lia]. Qed.

Section Loop.
  Variable elem : list N -> res (list N * list N).
  Variable U : item -> list N.
  Hypothesis Hitem : forall it more endlen,
    valid_item 34 it = true -> (endlen <= length more)%nat -> item_follow it (peek more) = true ->
    exists n, (1 <= n <= length (spell_item it))%nat /\
      forall f, lit_loop elem (n + f) endlen (spell_item it ++ more) = res_map (app (U it)) (lit_loop elem f endlen more).

  Lemma loop_items l : forall rest f,
    valid_items 34 l = true -> (length (spell_items l) <= f)%nat ->
    lit_loop elem f (S (length rest)) (spell_items l ++ 34 :: rest) = Ok (concat (map U l)).
  Proof.
    induction l as [|it l IH]; intros rest f Hv Hf.
    - cbn [spell_items map concat app]. destruct f as [|f]; cbn [lit_loop length]; rewrite Nat.leb_refl; reflexivity.
    - unfold valid_items in Hv. cbn [forallb munch_ok] in Hv.
      apply andb_prop in Hv. destruct Hv as [Hv1 Hv2]. apply andb_prop in Hv1. destruct Hv1 as [Hit Hl].
      apply andb_prop in Hv2. destruct Hv2 as [Hfol Hm].
      rewrite spell_items_cons, <- app_assoc.
      destruct (Hitem it (spell_items l ++ 34 :: rest) (S (length rest))) as [n [Hn Hstep]].
      + exact Hit.
      + rewrite app_length. cbn [length]. lia.
      + rewrite peek_app. destruct it as [c|e]; [reflexivity|exact Hfol].
      + rewrite spell_items_cons, app_length in Hf.
        replace f with (n + (f - n))%nat by lia. rewrite Hstep.
        rewrite IH; [reflexivity| |lia].
        unfold valid_items. rewrite Hl, Hm. reflexivity.
  Qed.

  Theorem read_literal_items l rest :
    valid_items 34 l = true ->
    read_literal_with elem (spell_items l ++ 34 :: rest) = Ok (concat (map U l) ++ [0], rest).
  Proof.
    intros Hv. unfold read_literal_with.
    assert (Hl : forallb (valid_item 34) l = true) by (unfold valid_items in Hv; apply andb_prop in Hv; tauto).
    rewrite sle_items by exact Hl.
    change (length (34 :: rest)) with (S (length rest)).
    rewrite loop_items; [reflexivity|exact Hv|]. rewrite app_length. lia.
  Qed.
End Loop.

(* ---------- the three element readers on one element ---------- *)
Definition trunc_units (bits : N) (p : sprefix) (it : item) : list N :=
  match it with
  | IEsc e => [escape_value e mod 2 ^ bits]
  | IChr _ => item_units p it
  end.

Lemma esc_elem_spec trunc e more :
  valid_escape e = true -> escape_ends_before e (peek more) = true ->
  esc_elem trunc (spell_escape_body e ++ more) = Ok ([trunc (escape_value e mod two32)], more).
Proof. intros Hv He. unfold esc_elem. rewrite read_escaped_char_spec by assumption. reflexivity. Qed.

Lemma first_plain_not_backslash q bs b l : forallb (plain_byte q) bs = true -> bs = b :: l -> (b =? 92) = false.
Proof. intros H E. subst bs. cbn [forallb] in H. apply andb_prop in H. destruct H as [H _]. unfold plain_byte in H. lia. Qed.

Lemma narrow_copy bs : forall more endlen f,
  forallb (plain_byte 34) bs = true -> (endlen <= length more)%nat ->
  lit_loop narrow_elem (length bs + f) endlen (bs ++ more) = res_map (app bs) (lit_loop narrow_elem f endlen more).
Proof.
  induction bs as [|b bs IH]; intros more endlen f Hp Hlen.
  - cbn [length app plus]. destruct (lit_loop narrow_elem f endlen more); reflexivity.
  - cbn [forallb] in Hp. apply andb_prop in Hp. destruct Hp as [Hb Hbs].
    cbn [length app plus].
    rewrite (lit_loop_step narrow_elem _ endlen (b :: bs ++ more) [b] (bs ++ more)).
    + rewrite IH by assumption. destruct (lit_loop narrow_elem f endlen more); reflexivity.
    + cbn [length]. rewrite app_length. lia.
    + cbn [narrow_elem]. unfold plain_byte in Hb. replace (b =? 92) with false by lia. reflexivity.
Qed.

Lemma narrow_item (p : sprefix) : (p = SPnone \/ p = SPu8) -> forall it more endlen,
  valid_item 34 it = true -> (endlen <= length more)%nat -> item_follow it (peek more) = true ->
  exists n, (1 <= n <= length (spell_item it))%nat /\
    forall f, lit_loop narrow_elem (n + f) endlen (spell_item it ++ more) =
              res_map (app (trunc_units 8 p it)) (lit_loop narrow_elem f endlen more).
Proof.
  intros Hp it more endlen Hv Hlen Hfol. destruct it as [c|e].
  - exists (length (rfc3629 c)). split; [cbn [spell_item]; pose proof (rfc3629_length c); lia|].
    intros f. cbn [spell_item trunc_units item_units].
    replace (match p with SPnone | SPu8 => rfc3629 c | SPu => utf16_spec c | _ => [c] end) with (rfc3629 c)
      by (destruct Hp; subst p; reflexivity).
    apply narrow_copy; [|exact Hlen]. apply valid_chr_bytes; [left; reflexivity|exact Hv].
  - exists 1%nat. split; [pose proof (spell_item_nonempty (IEsc e)); lia|]. intros f.
    cbn [plus]. apply lit_loop_step; [rewrite app_length; pose proof (spell_item_nonempty (IEsc e)); lia|].
    cbn [spell_item trunc_units]. unfold spell_escape. cbn [app narrow_elem]. change (92 =? 92) with true. cbn iota.
    rewrite esc_elem_spec; [|exact Hv|exact Hfol].
    unfold to_char, two32. change (2 ^ 8) with 256. f_equal. f_equal. f_equal. lia.
Qed.

Lemma chr_first_byte c : valid_item 34 (IChr c) = true ->
  exists b l, rfc3629 c = b :: l /\ (b =? 92) = false.
Proof.
  intros Hv. pose proof (valid_chr_bytes 34 c (or_introl eq_refl) Hv) as Hp.
  destruct (rfc3629 c) as [|b l] eqn:E; [pose proof (rfc3629_length c) as Hl; rewrite E in Hl; cbn in Hl; lia|].
  exists b, l. split; [reflexivity|]. eapply first_plain_not_backslash; [exact Hp|reflexivity].
Qed.

Lemma valid_chr_scalar q c : valid_item q (IChr c) = true -> c < 1114112.
Proof.
  intros Hv. cbn [valid_item] in Hv.
  repeat match goal with H : _ && _ = true |- _ => apply andb_prop in H; destruct H end.
  apply is_scalar_bound. assumption.
Qed.

Lemma utf16_item : forall it more endlen,
  valid_item 34 it = true -> (endlen <= length more)%nat -> item_follow it (peek more) = true ->
  exists n, (1 <= n <= length (spell_item it))%nat /\
    forall f, lit_loop utf16_elem (n + f) endlen (spell_item it ++ more) =
              res_map (app (trunc_units 16 SPu it)) (lit_loop utf16_elem f endlen more).
Proof.
  intros it more endlen Hv Hlen Hfol. exists 1%nat. split; [pose proof (spell_item_nonempty it); lia|]. intros f.
  cbn [plus]. apply lit_loop_step; [rewrite app_length; pose proof (spell_item_nonempty it); lia|].
  destruct it as [c|e].
  - cbn [spell_item trunc_units item_units]. destruct (chr_first_byte c Hv) as [b [l [E Hb]]].
    pose proof (valid_chr_scalar _ _ Hv) as Hc.
    assert (Hd : dec_elem utf16_units (rfc3629 c ++ more) = Ok (utf16_spec c, more)).
    { unfold dec_elem. rewrite decode_rfc3629 by lia. rewrite utf16_is_spec by exact Hc. reflexivity. }
    rewrite E in *. cbn [app utf16_elem]. rewrite Hb. exact Hd.
  - cbn [spell_item trunc_units]. unfold spell_escape. cbn [app utf16_elem]. change (92 =? 92) with true. cbn iota.
    rewrite esc_elem_spec; [|exact Hv|exact Hfol].
    unfold to_u16, two32. change (2 ^ 16) with 65536. f_equal. f_equal. f_equal. lia.
Qed.

Lemma utf32_item (p : sprefix) : (p = SPU \/ p = SPL) -> forall it more endlen,
  valid_item 34 it = true -> (endlen <= length more)%nat -> item_follow it (peek more) = true ->
  exists n, (1 <= n <= length (spell_item it))%nat /\
    forall f, lit_loop utf32_elem (n + f) endlen (spell_item it ++ more) =
              res_map (app (trunc_units 32 p it)) (lit_loop utf32_elem f endlen more).
Proof.
  intros Hp it more endlen Hv Hlen Hfol. exists 1%nat. split; [pose proof (spell_item_nonempty it); lia|]. intros f.
  cbn [plus]. apply lit_loop_step; [rewrite app_length; pose proof (spell_item_nonempty it); lia|].
  destruct it as [c|e].
  - cbn [spell_item trunc_units item_units]. destruct (chr_first_byte c Hv) as [b [l [E Hb]]].
    pose proof (valid_chr_scalar _ _ Hv) as Hc.
    replace (match p with SPnone | SPu8 => rfc3629 c | SPu => utf16_spec c | _ => [c] end) with [c]
      by (destruct Hp; subst p; reflexivity).
    assert (Hd : dec_elem (fun c => [u32 c]) (rfc3629 c ++ more) = Ok ([c], more)).
    { unfold dec_elem. rewrite decode_rfc3629 by lia. unfold u32. rewrite N.mod_small by lia. reflexivity. }
    rewrite E in *. cbn [app utf32_elem]. rewrite Hb. exact Hd.
  - cbn [spell_item trunc_units]. unfold spell_escape. cbn [app utf32_elem]. change (92 =? 92) with true. cbn iota.
    rewrite esc_elem_spec; [|exact Hv|exact Hfol].
    unfold u32, two32. change (2 ^ 32) with 4294967296. f_equal. f_equal. f_equal. lia.
Qed.

(* ---------- the string literal theorems ---------- *)
Definition model_sprefix (p : sprefix) : str_prefix :=
  match p with SPnone => StrNone | SPu8 => StrU8 | SPu => StrU16 | SPU => StrU32 | SPL => StrWide end.
Definition model_elem_ty (t : elem_ty) : c_elem_ty :=
  match t with ElChar => TyChar | ElU16 => TyUShort | ElU32 => TyUInt | ElWchar => TyInt end.

(* the units chibicc stores: each escape value truncated to the element width *)
Definition stored_units (p : sprefix) (l : list item) : list N :=
  concat (map (trunc_units (elem_bits (string_elem_ty p)) p) l) ++ [0].

(* for every lexically valid body, in every encoding: element type, array contents (hence its
   length) and end position; escape values are truncated to the element width *)
Theorem string_token_stored p l rest :
  valid_items 34 l = true ->
  string_token (model_sprefix p) (spell_items l ++ 34 :: rest) =
    Ok (model_elem_ty (string_elem_ty p), stored_units p l, rest).
Proof.
  intros Hv. unfold stored_units.
  destruct p; cbn [model_sprefix string_token string_elem_ty model_elem_ty elem_bits];
    unfold read_string_literal, read_utf16_string_literal, read_utf32_string_literal.
  - rewrite (read_literal_items narrow_elem (trunc_units 8 SPnone) (narrow_item SPnone (or_introl eq_refl))) by exact Hv. reflexivity.
  - rewrite (read_literal_items narrow_elem (trunc_units 8 SPu8) (narrow_item SPu8 (or_intror eq_refl))) by exact Hv. reflexivity.
  - rewrite (read_literal_items utf16_elem (trunc_units 16 SPu) utf16_item) by exact Hv. reflexivity.
  - rewrite (read_literal_items utf32_elem (trunc_units 32 SPU) (utf32_item SPU (or_introl eq_refl))) by exact Hv. reflexivity.
  - rewrite (read_literal_items utf32_elem (trunc_units 32 SPL) (utf32_item SPL (or_intror eq_refl))) by exact Hv. reflexivity.
Qed.

Lemma stored_is_spec p l : items_in_range p l = true -> stored_units p l = spec_string_units p l.
Proof.
  intros Hr. unfold stored_units, spec_string_units. f_equal. f_equal.
  unfold items_in_range in Hr. rewrite forallb_forall in Hr.
  apply map_ext_in. intros it Hin. specialize (Hr it Hin). destruct it as [c|e]; [reflexivity|].
  cbn [trunc_units item_units]. unfold escape_in_range in Hr. rewrite N.mod_small by lia. reflexivity.
Qed.

(* 6.4.5: when every escape value is in the range of the element type (6.4.4.4p9), the array is
   the C11 one *)
Theorem string_token_spec p l rest :
  valid_items 34 l = true -> items_in_range p l = true ->
  string_token (model_sprefix p) (spell_items l ++ 34 :: rest) =
    Ok (model_elem_ty (string_elem_ty p), spec_string_units p l, rest).
Proof. intros Hv Hr. rewrite string_token_stored by exact Hv. rewrite stored_is_spec by exact Hr. reflexivity. Qed.

(* rejection: a body that reaches a new-line or the end of the buffer before a closing quote
   is the located error - here for bodies made of valid elements *)
Theorem string_unclosed l tail reader :
  forallb (valid_item 34) l = true -> (tail = [] \/ exists t, tail = 10 :: t) ->
  read_literal_with reader (spell_items l ++ tail) = Err ErrUnclosedString.
Proof.
  intros Hl Ht. unfold read_literal_with.
  assert (E : string_literal_end (spell_items l ++ tail) = Err ErrUnclosedString).
  { induction l as [|it l IH].
    - cbn [spell_items map concat app]. destruct Ht as [->|[t ->]]; reflexivity.
    - cbn [forallb] in Hl. apply andb_prop in Hl. destruct Hl as [Hit Hl].
      rewrite spell_items_cons, <- app_assoc, sle_item by exact Hit. apply IH. exact Hl. }
  rewrite E. reflexivity.
Qed.

(* ------------------------------------------------------------------ *)
(* Stage 2: character constants                                        *)
(* ------------------------------------------------------------------ *)
Lemma escape_ends_before_quote e q : (q = 34 \/ q = 39) -> escape_ends_before e q = true.
Proof. intros [-> | ->]; destruct e as [s| |ds|ds]; cbn [escape_ends_before]; try reflexivity; apply orb_true_r. Qed.

(* the int that read_char_literal computes for one element *)
Definition item_int (it : item) : N :=
  match it with IChr c => c | IEsc e => escape_value e mod two32 end.

Lemma read_char_literal_item it rest : valid_item 39 it = true ->
  read_char_literal (spell_item it ++ 39 :: rest) = Ok (item_int it, rest).
Proof.
  intros Hv. destruct it as [c|e].
  - pose proof (valid_chr_bytes 39 c (or_intror eq_refl) Hv) as Hp.
    pose proof (valid_chr_scalar _ _ Hv) as Hc.
    assert (Hd : decode_utf8 (rfc3629 c ++ 39 :: rest) = DecOk c (39 :: rest)) by (apply decode_rfc3629; lia).
    cbn [spell_item item_int].
    destruct (rfc3629 c) as [|b l] eqn:E; [pose proof (rfc3629_length c) as Hl; rewrite E in Hl; cbn in Hl; lia|].
    pose proof (first_plain_not_backslash 39 _ b l Hp eq_refl) as Hb.
    cbn [app read_char_literal]. rewrite Hb. cbn [app] in Hd. rewrite Hd.
    unfold u32. rewrite N.mod_small by lia. reflexivity.
  - cbn [valid_item] in Hv. cbn [spell_item item_int]. unfold spell_escape. cbn [app read_char_literal].
    change (92 =? 92) with true. cbn iota.
    rewrite read_escaped_char_spec; [reflexivity|exact Hv|].
    cbn [peek]. apply escape_ends_before_quote. right. reflexivity.
Qed.

Definition model_cprefix (p : cprefix) : chr_prefix :=
  match p with CPnone => ChrNone | CPu => ChrU16 | CPU => ChrU32 | CPL => ChrWide end.
Definition model_char_ty (t : char_ty) : c_char_ty :=
  match t with CtInt => CTyInt | CtU16 => CTyUShort | CtU32 => CTyUInt end.

(* what chibicc makes of any single element, in range or not: the int is cut to the width of
   the constant's character type (and read as signed for plain and wide constants) *)
Definition stored_char_value (p : cprefix) (it : item) : Z :=
  match p with
  | CPnone => sext 8 (item_int it mod 256)
  | CPu => Z.of_N (item_int it mod 65536)
  | CPU => Z.of_N (item_int it mod two32)
  | CPL => sext 32 (item_int it mod two32)
  end.

Lemma num_int_small z : (-2147483648 <= z < 2147483648)%Z -> num_value CTyInt z = z.
Proof. intros Hz. unfold num_value. destruct (z mod 4294967296 <? 2147483648)%Z eqn:E; lia. Qed.

Lemma item_int_bound it : valid_item 39 it = true -> item_int it < two32.
Proof.
  intros Hv. destruct it as [c|e]; cbn [item_int]; [pose proof (valid_chr_scalar _ _ Hv); unfold two32; lia|].
  apply N.mod_lt. discriminate.
Qed.

Theorem char_token_stored p it rest : valid_item 39 it = true ->
  exists val, char_token (model_cprefix p) (spell_item it ++ 39 :: rest) =
                Ok (val, model_char_ty (char_const_ty p), rest) /\
              num_value (model_char_ty (char_const_ty p)) val = stored_char_value p it.
Proof.
  intros Hv. unfold char_token. rewrite read_char_literal_item by exact Hv.
  pose proof (item_int_bound it Hv) as Hx. unfold stored_char_value.
  generalize dependent (item_int it). intros x Hx. unfold two32 in *.
  destruct p; cbn [model_cprefix char_const_ty model_char_ty]; eexists; (split; [reflexivity|]).
  - unfold sext8, sext. change (2 ^ (8 - 1)) with 128. change (2 ^ 8) with 256.
    rewrite num_int_small; [reflexivity|]. destruct (x mod 256 <? 128) eqn:E; lia.
  - unfold num_value. lia.
  - unfold num_value, sext32. destruct (x <? 2147483648) eqn:E; lia.
  - unfold sext32, sext. change (2 ^ (32 - 1)) with 2147483648. change (2 ^ 32) with 4294967296.
    rewrite (N.mod_small x) by lia.
    rewrite num_int_small; [reflexivity|]. destruct (x <? 2147483648) eqn:E; lia.
Qed.

Lemma p2_8 : 2 ^ 8 = 256. Proof. reflexivity. Qed.
Lemma p2_16 : 2 ^ 16 = 65536. Proof. reflexivity. Qed.
Lemma p2_32 : 2 ^ 32 = 4294967296. Proof. reflexivity. Qed.

Lemma stored_char_is_spec p it v : valid_item 39 it = true ->
  spec_char_value p it = Some v -> stored_char_value p it = v.
Proof.
  intros Hv Hs. unfold stored_char_value, two32.
  destruct it as [c|e]; cbn [item_int].
  - pose proof (valid_chr_scalar _ _ Hv) as Hc.
    destruct p; cbn [spec_char_value] in Hs.
    + destruct (c <? 128) eqn:E; [|discriminate]. inversion Hs; subst v. unfold sext.
      change (2 ^ (8 - 1)) with 128. rewrite N.mod_small by lia. rewrite E. reflexivity.
    + destruct (c <? 65536) eqn:E; [|discriminate]. inversion Hs; subst v. rewrite N.mod_small by lia. reflexivity.
    + inversion Hs; subst v. rewrite N.mod_small by lia. reflexivity.
    + inversion Hs; subst v. unfold sext. change (2 ^ (32 - 1)) with 2147483648.
      rewrite N.mod_small by lia. replace (c <? 2147483648) with true by lia. reflexivity.
  - unfold two32. destruct p; cbn [spec_char_value] in Hs; unfold escape_in_range in Hs.
    + rewrite p2_8 in Hs. destruct (escape_value e <? 256) eqn:E; [|discriminate]. inversion Hs; subst v.
      f_equal. lia.
    + rewrite p2_16 in Hs. destruct (escape_value e <? 65536) eqn:E; [|discriminate]. inversion Hs; subst v.
      f_equal. lia.
    + rewrite p2_32 in Hs. destruct (escape_value e <? 4294967296) eqn:E; [|discriminate].
      inversion Hs; subst v. f_equal. lia.
    + rewrite p2_32 in Hs. destruct (escape_value e <? 4294967296) eqn:E; [|discriminate].
      inversion Hs; subst v. f_equal. lia.
Qed.

(* 6.4.4.4p10,11: wherever C11 defines the value, the constant has that value and the type of
   its prefix; the token ends behind the closing quote *)
Theorem char_token_spec p it rest v : valid_item 39 it = true -> spec_char_value p it = Some v ->
  exists val, char_token (model_cprefix p) (spell_item it ++ 39 :: rest) =
                Ok (val, model_char_ty (char_const_ty p), rest) /\
              num_value (model_char_ty (char_const_ty p)) val = v.
Proof.
  intros Hv Hs. destruct (char_token_stored p it rest Hv) as [val [H1 H2]].
  exists val. split; [exact H1|]. rewrite H2. apply stored_char_is_spec; assumption.
Qed.

(* rejections *)
Theorem char_unclosed_empty : read_char_literal [] = Err ErrUnclosedChar.
Proof. reflexivity. Qed.

(* the closing-quote loop walks over plain bytes and over backslash pairs *)
Lemma cle_plain bs : forall more, forallb (plain_byte 39) bs = true ->
  char_literal_end (bs ++ more) = char_literal_end more.
Proof.
  induction bs as [|b bs IH]; intros more H; [reflexivity|].
  cbn [forallb] in H. apply andb_prop in H. destruct H as [Hb Hbs].
  cbn [app char_literal_end]. unfold plain_byte in Hb.
  replace (b =? 39) with false by lia. replace (b =? 92) with false by lia.
  apply IH. exact Hbs.
Qed.

Lemma cle_pair x more : char_literal_end (92 :: x :: more) = char_literal_end more.
Proof. reflexivity. Qed.

Lemma cle_item it more : valid_item 39 it = true ->
  char_literal_end (spell_item it ++ more) = char_literal_end more.
Proof.
  intros Hv. destruct it as [c|e].
  - apply cle_plain. apply valid_chr_bytes; [right; reflexivity|exact Hv].
  - cbn [valid_item] in Hv. destruct (escape_shape e Hv) as [x [ds [Hsp [Hds _]]]].
    cbn [spell_item]. unfold spell_escape. rewrite Hsp. cbn [app]. rewrite cle_pair.
    apply cle_plain. apply digits_plain; [right; reflexivity|exact Hds].
Qed.

Lemma cle_items l rest : forallb (valid_item 39) l = true ->
  char_literal_end (spell_items l ++ 39 :: rest) = Some rest.
Proof.
  induction l as [|it l IH]; intros H; [reflexivity|].
  cbn [forallb] in H. apply andb_prop in H. destruct H as [Hit Hl].
  rewrite spell_items_cons, <- app_assoc, cle_item by exact Hit. apply IH. exact Hl.
Qed.

Lemma cle_none_len : forall n bs, (length bs <= n)%nat ->
  forallb (fun b => negb (b =? 39)) bs = true -> char_literal_end bs = None.
Proof.
  induction n as [|n IH]; intros bs Hlen H.
  - destruct bs; [reflexivity|cbn [length] in Hlen; lia].
  - destruct bs as [|b bs]; [reflexivity|].
    cbn [forallb] in H. apply andb_prop in H. destruct H as [Hb Hbs]. cbn [length] in Hlen.
    cbn [char_literal_end]. replace (b =? 39) with false by lia.
    destruct (b =? 92).
    + destruct bs as [|x bs2]; [reflexivity|].
      cbn [forallb] in Hbs. apply andb_prop in Hbs. destruct Hbs as [_ Hbs2].
      apply IH; [cbn [length] in Hlen; lia|exact Hbs2].
    + apply IH; [lia|exact Hbs].
Qed.

Lemma cle_none bs : forallb (fun b => negb (b =? 39)) bs = true -> char_literal_end bs = None.
Proof. apply (cle_none_len (length bs)). lia. Qed.

Theorem char_unclosed it tail : valid_item 39 it = true -> item_follow it (peek tail) = true ->
  forallb (fun b => negb (b =? 39)) tail = true ->
  read_char_literal (spell_item it ++ tail) = Err ErrUnclosedChar.
Proof.
  intros Hv Hfol Ht. destruct it as [c|e].
  - pose proof (valid_chr_bytes 39 c (or_intror eq_refl) Hv) as Hp.
    pose proof (valid_chr_scalar _ _ Hv) as Hc.
    assert (Hd : decode_utf8 (rfc3629 c ++ tail) = DecOk c tail) by (apply decode_rfc3629; lia).
    cbn [spell_item].
    destruct (rfc3629 c) as [|b l] eqn:E; [pose proof (rfc3629_length c) as Hl; rewrite E in Hl; cbn in Hl; lia|].
    pose proof (first_plain_not_backslash 39 _ b l Hp eq_refl) as Hb.
    cbn [app read_char_literal]. rewrite Hb. cbn [app] in Hd. rewrite Hd.
    rewrite cle_none by exact Ht. reflexivity.
  - cbn [valid_item] in Hv. cbn [spell_item]. unfold spell_escape. cbn [app read_char_literal].
    change (92 =? 92) with true. cbn iota.
    rewrite read_escaped_char_spec; [|exact Hv|exact Hfol].
    rewrite cle_none by exact Ht. reflexivity.
Qed.

(* ---------- constants with more than one element (value implementation-defined, 6.4.4.4p10) ---------- *)
Lemma read_char_literal_gen it tail : valid_item 39 it = true -> item_follow it (peek tail) = true ->
  read_char_literal (spell_item it ++ tail) =
    match char_literal_end tail with Some r => Ok (item_int it, r) | None => Err ErrUnclosedChar end.
Proof.
  intros Hv Hfol. destruct it as [c|e].
  - pose proof (valid_chr_bytes 39 c (or_intror eq_refl) Hv) as Hp.
    pose proof (valid_chr_scalar _ _ Hv) as Hc.
    assert (Hd : decode_utf8 (rfc3629 c ++ tail) = DecOk c tail) by (apply decode_rfc3629; lia).
    cbn [spell_item item_int].
    destruct (rfc3629 c) as [|b l] eqn:E; [pose proof (rfc3629_length c) as Hl; rewrite E in Hl; cbn in Hl; lia|].
    pose proof (first_plain_not_backslash 39 _ b l Hp eq_refl) as Hb.
    cbn [app read_char_literal]. rewrite Hb. cbn [app] in Hd. rewrite Hd.
    unfold u32. rewrite N.mod_small by lia. reflexivity.
  - cbn [valid_item] in Hv. cbn [spell_item item_int]. unfold spell_escape. cbn [app read_char_literal].
    change (92 =? 92) with true. cbn iota.
    rewrite read_escaped_char_spec; [reflexivity|exact Hv|exact Hfol].
Qed.

(* chibicc's choice for 'ab...': the value of the first element; the closing quote is found by
   stepping over every later element, escaped quotes included (commit 6181ddd) *)
Theorem char_multichar it more rest : valid_item 39 it = true ->
  item_follow it (first_byte (spell_items more) 39) = true ->
  forallb (valid_item 39) more = true ->
  read_char_literal (spell_item it ++ spell_items more ++ 39 :: rest) = Ok (item_int it, rest).
Proof.
  intros Hv Hfol Hm. rewrite read_char_literal_gen; [|exact Hv|rewrite peek_app; exact Hfol].
  rewrite cle_items by exact Hm. reflexivity.
Qed.

(* the former finding, now a positive instance: 'a\'' followed by ; is one token with value 97 *)
Example char_multichar_escaped_quote :
  valid_items 39 [IChr 97; IEsc (ESimple SQuote)] = true /\
  read_char_literal (spell_items [IChr 97; IEsc (ESimple SQuote)] ++ [39; 59]) = Ok (97, [59]).
Proof. vm_compute. split; reflexivity. Qed.
