From Chibicc Require Import Base.Mach Model.LineDir.
Local Open Scope Z_scope.

(* without a directive every text line reports its physical line *)
Theorem no_directive_physical : forall f l, has_dir f = false ->
  forall k, nth_error (impl_lines 0 l f) k = Some (Some (l + Z.of_nat k)) \/ nth_error (impl_lines 0 l f) k = None.
Proof.
  induction f as [|[n|] r IH]; intros l H k; cbn in *; try discriminate.
  - right. destruct k; reflexivity.
  - destruct k as [|k]; cbn; [left; f_equal; f_equal; lia|].
    destruct (IH (l + 1) H k) as [E|E]; [left; rewrite E; f_equal; f_equal; lia|right; exact E].
Qed.

(* and agrees with the specification *)
Theorem no_directive_spec : forall f d l, has_dir f = false -> impl_lines d l f = spec_lines d l f.
Proof. induction f as [|[n|] r IH]; intros d l H; cbn in *; try discriminate; [reflexivity|]. f_equal. apply IH. exact H. Qed.

(* after a directive, every reported line is exactly one more than C11 requires *)
Lemma after_dir : forall f d l k v, nth_error (impl_lines (d + 1) l f) k = Some (Some v) ->
  nth_error (spec_lines d l f) k = Some (Some (v - 1)).
Proof.
  induction f as [|[n|] r IH]; intros d l k v H; destruct k as [|k]; cbn in *; try discriminate.
  - replace (n - l) with ((n - (l + 1)) + 1) in H by lia. eapply IH. exact H.
  - injection H as <-. f_equal. f_equal. lia.
  - eapply IH. exact H.
Qed.

Theorem directive_off_by_one : forall f d l n k v,
  nth_error (impl_lines d l (Dir n :: f)) (S k) = Some (Some v) ->
  nth_error (spec_lines d l (Dir n :: f)) (S k) = Some (Some (v - 1)).
Proof.
  intros f d l n k v H. cbn in *. replace (n - l) with ((n - (l + 1)) + 1) in H by lia. eapply after_dir. exact H.
Qed.

(* the full statement is therefore false of the faithful model (known finding C18-line-directive) *)
Theorem directive_refuted : impl_lines 0 1 [Dir 500; Text] = [None; Some 501] /\ spec_lines 0 1 [Dir 500; Text] = [None; Some 500].
Proof. split; reflexivity. Qed.
