From Chibicc Require Import Base.Mach Model.StackDisc.
Local Open Scope Z_scope.

Definition xv (c : cls) : Z := match c with CX => 1 | _ => 0 end.
Definition cz (c : cls) : Z := match c with CX => 2 | _ => 0 end.

Fixpoint cls_of (e : expr) : cls :=
  match e with
  | XNum c | XVar c | XBin c _ _ | XNeg c _ | XAssign c _ _ => c
  | XCmp _ _ _ | XLNot _ _ | XLogAnd _ _ _ _ | XLogOr _ _ _ _ | XToVoid _ _ => CI
  | XCast _ t _ => t
  | XCond _ c _ _ _ => c
  | XComma _ _ b => cls_of b
  | XCall ret _ _ => ret
  end.

Definition cls_eqb (a b : cls) : bool := match a, b with CI, CI | CF, CF | CX, CX => true | _, _ => false end.
Lemma cls_eqb_eq a b : cls_eqb a b = true -> a = b. Proof. destruct a, b; cbn; congruence. Qed.

(* well-typedness: the class annotations agree with the sub-expressions (what add_type guarantees),
   and a long double argument is always passed on the stack *)
Fixpoint wt (e : expr) : bool :=
  match e with
  | XNum _ | XVar _ => true
  | XBin c a b | XCmp c a b => cls_eqb (cls_of a) c && cls_eqb (cls_of b) c && wt a && wt b
  | XNeg c a | XLNot c a | XToVoid c a => cls_eqb (cls_of a) c && wt a
  | XCast f _ a => cls_eqb (cls_of a) f && wt a
  | XAssign c addr v => cls_eqb (cls_of addr) CI && cls_eqb (cls_of v) c && wt addr && wt v
  | XCond c0 c cond a b => cls_eqb (cls_of cond) c0 && cls_eqb (cls_of a) c && cls_eqb (cls_of b) c && wt cond && wt a && wt b
  | XLogAnd c1 c2 a b | XLogOr c1 c2 a b => cls_eqb (cls_of a) c1 && cls_eqb (cls_of b) c2 && wt a && wt b
  | XComma c1 a b => cls_eqb (cls_of a) c1 && wt a && wt b
  | XCall _ _ args =>
    (fix go (l : list (cls * bool * expr)) : bool :=
       match l with
       | [] => true
       | x :: r => cls_eqb (cls_of (snd x)) (fst (fst x)) && wt (snd x) && (match fst (fst x) with CX => snd (fst x) | _ => true end) && go r
       end) args
  end.

(* the number of x87 registers an evaluation needs above those already in use *)
Fixpoint need (e : expr) : Z :=
  match e with
  | XNum c | XVar c => xv c
  | XBin c a b | XCmp c a b => match c with CX => Z.max (need a) (1 + need b) | _ => Z.max (need a) (need b) end
  | XNeg _ a | XToVoid _ a => need a
  | XLNot c a => Z.max (need a) (cz c)
  | XCast _ t a => Z.max (need a) (xv t)
  | XAssign _ addr v => Z.max (need addr) (need v)
  | XCond c0 _ cond a b => Z.max (Z.max (need cond) (cz c0)) (Z.max (need a) (need b))
  | XLogAnd c1 c2 a b | XLogOr c1 c2 a b => Z.max (Z.max (need a) (cz c1)) (Z.max (need b) (cz c2))
  | XComma _ a b => Z.max (need a) (need b)
  | XCall ret _ args =>
    Z.max (xv ret) ((fix go (l : list (cls * bool * expr)) : Z := match l with [] => 0 | x :: r => Z.max (need (snd x)) (go r) end) args)
  end.

Definition args_need (l : list (cls * bool * expr)) : Z :=
  (fix go (l : list (cls * bool * expr)) : Z := match l with [] => 0 | x :: r => Z.max (need (snd x)) (go r) end) l.
Definition args_wt (l : list (cls * bool * expr)) : bool :=
  (fix go (l : list (cls * bool * expr)) : bool :=
     match l with
     | [] => true
     | x :: r => cls_eqb (cls_of (snd x)) (fst (fst x)) && wt (snd x) && (match fst (fst x) with CX => snd (fst x) | _ => true end) && go r
     end) l.

Lemma expr_ind2 (Q : expr -> Prop) :
  (forall c, Q (XNum c)) -> (forall c, Q (XVar c)) ->
  (forall c a b, Q a -> Q b -> Q (XBin c a b)) -> (forall c a b, Q a -> Q b -> Q (XCmp c a b)) ->
  (forall c a, Q a -> Q (XNeg c a)) -> (forall c a, Q a -> Q (XLNot c a)) ->
  (forall f t a, Q a -> Q (XCast f t a)) -> (forall c a, Q a -> Q (XToVoid c a)) ->
  (forall c a v, Q a -> Q v -> Q (XAssign c a v)) ->
  (forall c0 c cond a b, Q cond -> Q a -> Q b -> Q (XCond c0 c cond a b)) ->
  (forall c1 c2 a b, Q a -> Q b -> Q (XLogAnd c1 c2 a b)) -> (forall c1 c2 a b, Q a -> Q b -> Q (XLogOr c1 c2 a b)) ->
  (forall c1 a b, Q a -> Q b -> Q (XComma c1 a b)) ->
  (forall ret pad args, Forall (fun x => Q (snd x)) args -> Q (XCall ret pad args)) ->
  forall e, Q e.
Proof.
  intros. revert e. fix IH 1. intros [c|c|c a b|c a b|c a|c a|f t a|c a|c a v|c0 c cond a b|c1 c2 a b|c1 c2 a b|c1 a b|ret pad args].
  - apply H. - apply H0. - apply H1; apply IH. - apply H2; apply IH. - apply H3; apply IH. - apply H4; apply IH.
  - apply H5; apply IH. - apply H6; apply IH. - apply H7; apply IH. - apply H8; apply IH. - apply H9; apply IH.
  - apply H10; apply IH. - apply H11; apply IH.
  - apply H12. induction args as [|x r IHr]; constructor; [apply IH|exact IHr].
Qed.

Lemma need_nonneg : forall e, 0 <= need e.
Proof.
  induction e using expr_ind2; cbn [need]; try (destruct c); try (destruct t); try (destruct c0); try (destruct c1); try (destruct c2); cbn [xv cz]; try lia.
  destruct ret; cbn [xv]; lia.
Qed.

(* ---------- running pieces of code ---------- *)
Lemma run_seq a b s : srun (a ;; b) s = match srun a s with Some s' => srun b s' | None => None end.
Proof. reflexivity. Qed.

Ltac zb := repeat match goal with
  | |- context [?a <? ?b] => first [replace (a <? b) with true by (symmetry; apply Z.ltb_lt; lia) | replace (a <? b) with false by (symmetry; apply Z.ltb_ge; lia)]
  | |- context [?a <=? ?b] => first [replace (a <=? b) with true by (symmetry; apply Z.leb_le; lia) | replace (a <=? b) with false by (symmetry; apply Z.leb_gt; lia)]
  end.

Lemma state_eqb_refl s : state_eqb s s = true.
Proof. destruct s. unfold state_eqb. cbn. rewrite !Z.eqb_refl. reflexivity. Qed.

Lemma state_eqb_true a b c d : a = c -> b = d -> state_eqb (a, b) (c, d) = true.
Proof. intros -> ->. apply state_eqb_refl. Qed.

Lemma run_load c d x : 0 <= x -> x + xv c <= 8 -> srun (load c) (d, x) = Some (d, x + xv c).
Proof. intros. destruct c; cbn [load srun step xv] in *; zb; rewrite ?Z.add_0_r; reflexivity. Qed.

Lemma run_cmp_zero c d x : 0 <= x -> x + cz c <= 8 -> srun (cmp_zero c) (d, x + xv c) = Some (d, x).
Proof.
  intros. destruct c; cbn [cmp_zero srun step xv cz] in *; rewrite ?Z.add_0_r; try reflexivity.
  zb. cbn [srun step]. zb. cbn [srun step]. zb. f_equal. f_equal. lia.
Qed.

Lemma run_discard c d x : 0 <= x -> srun (discard c) (d, x + xv c) = Some (d, x).
Proof. intros. destruct c; cbn [discard srun step xv] in *; rewrite ?Z.add_0_r; try reflexivity. zb. f_equal. f_equal. lia. Qed.

Lemma run_push_val c d x : 0 <= x -> srun (push_val c) (d, x + xv c) = Some (d + slots c, x).
Proof. intros. destruct c; cbn [push_val srun step xv slots] in *; rewrite ?Z.add_0_r; try reflexivity. zb. f_equal. f_equal. lia. Qed.

Lemma run_cast f t d x : 0 <= x -> x + xv t <= 8 -> srun (cast_code f t) (d, x + xv f) = Some (d, x + xv t).
Proof.
  intros. destruct f, t; cbn [cast_code srun step xv] in *; rewrite ?Z.add_0_r; try reflexivity; zb; try reflexivity.
  all: f_equal; f_equal; lia.
Qed.

Definition balanced (e : expr) : Prop :=
  wt e = true -> forall d x, 0 <= d -> 0 <= x -> x + need e <= 8 -> srun (gen e) (d, x) = Some (d, x + xv (cls_of e)).

Ltac prep Hw :=
  repeat (apply andb_prop in Hw; destruct Hw as [Hw ?]);
  repeat match goal with H : cls_eqb _ _ = true |- _ => apply cls_eqb_eq in H end;
  repeat match goal with IH : wt ?a = true -> _, H : wt ?a = true |- _ => specialize (IH H) end.

Lemma xv_le_need : forall e, wt e = true -> xv (cls_of e) <= need e.
Proof.
  induction e using expr_ind2; cbn [wt cls_of need]; intros Hw; prep Hw;
    repeat match goal with |- context [need ?a] => lazymatch goal with H : 0 <= need a |- _ => fail | _ => pose proof (need_nonneg a) end end;
    repeat match goal with H : cls_of _ = _ |- _ => rewrite H in * end;
    repeat match goal with c : cls |- _ => destruct c end; cbn [xv cz] in *; lia.
Qed.

Ltac fin := try reflexivity; apply f_equal; apply f_equal2; lia.
Ltac stepIH :=
  match goal with
  | IH : forall d x, 0 <= d -> 0 <= x -> x + need ?a <= 8 -> srun (gen ?a) (d, x) = _ |- context [srun (gen ?a) (?d0, ?x0)] =>
    rewrite (IH d0 x0) by lia
  end.
Ltac stepL :=
  first [ rewrite run_cmp_zero by (cbn [xv cz]; lia) | rewrite run_discard by (cbn [xv cz]; lia) | rewrite run_push_val by (cbn [xv cz]; lia) | rewrite run_cast by (cbn [xv cz]; lia) | rewrite run_load by (cbn [xv cz]; lia) ].
Ltac norm := repeat match goal with H : cls_of _ = _ |- _ => rewrite H in * end; cbn [xv cz slots] in *; rewrite ?Z.add_0_r in *.
Ltac sim := repeat (first [ rewrite run_seq | stepIH | progress (cbn [srun step cmp_zero discard push_val cast_code load]; zb) | rewrite state_eqb_true by lia ]; norm).

(* pushing the arguments of one pass of push_args *)
Definition pass (want : bool) (l : list (cls * bool * expr)) : code :=
  (fix go (l : list (cls * bool * expr)) : code :=
     match l with
     | [] => KSkip
     | x :: r => go r ;; (if Bool.eqb (snd (fst x)) want then gen (snd x) ;; push_val (fst (fst x)) else KSkip)
     end) l.
Fixpoint pass_slots (want : bool) (l : list (cls * bool * expr)) : Z :=
  match l with [] => 0 | x :: r => (if Bool.eqb (snd (fst x)) want then slots (fst (fst x)) else 0) + pass_slots want r end.

Lemma pass_slots_nonneg want l : 0 <= pass_slots want l.
Proof. induction l as [|[[c st] a] r IH]; cbn [pass_slots fst snd]; [lia|]. destruct (Bool.eqb st want); destruct c; cbn [slots]; lia. Qed.

Lemma run_pass want : forall l, Forall (fun x => balanced (snd x)) l -> args_wt l = true ->
  forall d x, 0 <= d -> 0 <= x -> x + args_need l <= 8 -> srun (pass want l) (d, x) = Some (d + pass_slots want l, x).
Proof.
  induction l as [|[[c st] a] r IH]; intros Hb Hw d x Hd Hx Hn.
  - cbn. rewrite Z.add_0_r. reflexivity.
  - inversion Hb as [|? ? Ha Hr]; subst. cbn [snd] in Ha. cbn [args_wt fst snd] in Hw.
    apply andb_prop in Hw. destruct Hw as [Hw Hwr]. apply andb_prop in Hw. destruct Hw as [Hw Hst]. apply andb_prop in Hw. destruct Hw as [Hc Hwa].
    apply cls_eqb_eq in Hc. cbn [args_need snd] in Hn. fold (args_need r) in Hn.
    unfold pass. cbn [fst snd]. fold (pass want r). rewrite run_seq. rewrite (IH Hr Hwr d x) by lia.
    cbn [pass_slots fst snd]. pose proof (pass_slots_nonneg want r). destruct (Bool.eqb st want).
    + rewrite run_seq. rewrite (Ha Hwa) by lia. rewrite Hc. rewrite run_push_val by lia. fin.
    + cbn [srun]. fin.
Qed.

Fixpoint reg_count (l : list (cls * bool * expr)) : Z :=
  match l with [] => 0 | x :: r => (if snd (fst x) then 0 else 1) + reg_count r end.

Lemma reg_count_nonneg l : 0 <= reg_count l.
Proof. induction l as [|[[c st] a] r IH]; cbn [reg_count fst snd]; [lia|]. destruct st; lia. Qed.

Lemma run_reg_pops : forall l d x, reg_count l <= d -> srun (reg_pops l) (d, x) = Some (d - reg_count l, x).
Proof.
  induction l as [|[[c st] a] r IH]; intros d x Hd; cbn [reg_pops reg_count fst snd] in *.
  - cbn. fin.
  - pose proof (reg_count_nonneg r). rewrite run_seq. destruct st.
    + cbn [srun]. rewrite IH by lia. fin.
    + destruct c; cbn [srun step]; zb; rewrite IH by lia; fin.
Qed.

(* a register-passed argument occupies one slot (long double is never register-passed) *)
Lemma pass_false_slots l : args_wt l = true -> pass_slots false l = reg_count l.
Proof.
  induction l as [|[[c st] a] r IH]; intros Hw; [reflexivity|]. cbn [args_wt fst snd] in Hw.
  apply andb_prop in Hw. destruct Hw as [Hw Hwr]. apply andb_prop in Hw. destruct Hw as [_ Hst].
  cbn [pass_slots reg_count fst snd]. rewrite (IH Hwr). destruct st; cbn [Bool.eqb]; [reflexivity|]. destruct c; cbn [slots]; try reflexivity. discriminate.
Qed.
Lemma pass_true_slots l : pass_slots true l = stack_slots l.
Proof. induction l as [|[[c st] a] r IH]; [reflexivity|]. cbn [pass_slots stack_slots fst snd]. rewrite IH. destruct st; reflexivity. Qed.

Theorem gen_balanced : forall e, balanced e.
Proof.
  induction e using expr_ind2; unfold balanced in *; cbn [wt cls_of need gen]; intros Hw d x Hd Hx Hn; prep Hw.
  1-13: repeat match goal with e : expr |- _ => lazymatch goal with H : 0 <= need e |- _ => fail | _ => pose proof (need_nonneg e) end end;
        repeat match goal with H : wt ?a = true |- _ => lazymatch goal with H2 : xv (cls_of a) <= need a |- _ => fail | _ => pose proof (xv_le_need a H) end end;
        norm; repeat match goal with c : cls |- _ => destruct c end; norm; sim; fin.
  (* calls *)
  fold (args_wt args) in Hw. fold (args_need args) in Hn.
  assert (Hb : Forall (fun x => balanced (snd x)) args) by exact H.
  pose proof (run_pass true args Hb Hw) as P1. pose proof (run_pass false args Hb Hw) as P2. unfold pass in P1, P2.
  assert (E1 : forall l, (fix go (l : list (cls * bool * expr)) : code := match l with [] => KSkip | x0 :: r => go r;; (if snd (fst x0) then gen (snd x0);; push_val (fst (fst x0)) else KSkip) end) l
                       = (fix go (l : list (cls * bool * expr)) : code := match l with [] => KSkip | x0 :: r => go r;; (if Bool.eqb (snd (fst x0)) true then gen (snd x0);; push_val (fst (fst x0)) else KSkip) end) l).
  { induction l as [|[[c st] a] r IHl]; [reflexivity|]. rewrite IHl. cbn [fst snd]. destruct st; reflexivity. }
  assert (E2 : forall l, (fix go (l : list (cls * bool * expr)) : code := match l with [] => KSkip | x0 :: r => go r;; (if snd (fst x0) then KSkip else gen (snd x0);; push_val (fst (fst x0))) end) l
                       = (fix go (l : list (cls * bool * expr)) : code := match l with [] => KSkip | x0 :: r => go r;; (if Bool.eqb (snd (fst x0)) false then gen (snd x0);; push_val (fst (fst x0)) else KSkip) end) l).
  { induction l as [|[[c st] a] r IHl]; [reflexivity|]. rewrite IHl. cbn [fst snd]. destruct st; reflexivity. }
  rewrite E1, E2. pose proof (pass_slots_nonneg true args). pose proof (pass_slots_nonneg false args). pose proof (reg_count_nonneg args).
  pose proof (pass_false_slots args Hw) as F. pose proof (pass_true_slots args) as T.
  assert (Hx8 : x + xv ret <= 8) by lia. assert (Hna : x + args_need args <= 8) by lia.
  destruct pad; rewrite !run_seq; cbn [srun step]; rewrite P1 by lia; rewrite P2 by lia; rewrite run_reg_pops by lia; cbn [srun step]; zb;
    destruct ret; cbn [srun step xv] in *; zb; fin.
Qed.

(* ---------- statements ---------- *)
Fixpoint wts (s : stmt) : bool :=
  match s with
  | SExpr c e | SReturn c e => cls_eqb (cls_of e) c && wt e
  | SIf c0 cond s1 s2 => cls_eqb (cls_of cond) c0 && wt cond && wts s1 && wts s2
  | SFor init c0 cond ci inc body => wts init && cls_eqb (cls_of cond) c0 && wt cond && cls_eqb (cls_of inc) ci && wt inc && wts body
  | SDo body c0 cond => wts body && cls_eqb (cls_of cond) c0 && wt cond
  | SBlock l => (fix go (l : list stmt) : bool := match l with [] => true | s :: r => wts s && go r end) l
  | SNop => true
  end.
Fixpoint sneed (s : stmt) : Z :=
  match s with
  | SExpr _ e | SReturn _ e => need e
  | SIf c0 cond s1 s2 => Z.max (Z.max (need cond) (cz c0)) (Z.max (sneed s1) (sneed s2))
  | SFor init c0 cond ci inc body => Z.max (Z.max (sneed init) (Z.max (need cond) (cz c0))) (Z.max (need inc) (sneed body))
  | SDo body c0 cond => Z.max (sneed body) (Z.max (need cond) (cz c0))
  | SBlock l => (fix go (l : list stmt) : Z := match l with [] => 0 | s :: r => Z.max (sneed s) (go r) end) l
  | SNop => 0
  end.

Lemma stmt_ind2 (Q : stmt -> Prop) :
  (forall c e, Q (SExpr c e)) -> (forall c0 cond s1 s2, Q s1 -> Q s2 -> Q (SIf c0 cond s1 s2)) ->
  (forall init c0 cond ci inc body, Q init -> Q body -> Q (SFor init c0 cond ci inc body)) ->
  (forall body c0 cond, Q body -> Q (SDo body c0 cond)) ->
  (forall l, Forall Q l -> Q (SBlock l)) -> (forall c e, Q (SReturn c e)) -> Q SNop -> forall s, Q s.
Proof.
  intros. revert s. fix IH 1. intros [c e|c0 cond s1 s2|init c0 cond ci inc body|body c0 cond|l|c e|].
  - apply H. - apply H0; apply IH. - apply H1; apply IH. - apply H2; apply IH.
  - apply H3. induction l as [|s r IHr]; constructor; [apply IH|exact IHr].
  - apply H4. - exact H5.
Qed.

Lemma sneed_nonneg : forall s, 0 <= sneed s.
Proof.
  induction s using stmt_ind2; cbn [sneed]; try (pose proof (need_nonneg e)); try (pose proof (need_nonneg cond)); try lia.
  induction H as [|s r Hs _ IH]; [lia|]. lia.
Qed.

Theorem gs_balanced : forall s, wts s = true -> forall d x, 0 <= d -> 0 <= x -> x + sneed s <= 8 -> srun (gs s) (d, x) = Some (d, x).
Proof.
  Ltac rc := repeat match goal with H : cls_of _ = _ |- _ => rewrite H end.
  induction s using stmt_ind2; cbn [wts sneed gs]; intros Hw d x Hd Hx Hn;
    repeat (apply andb_prop in Hw; destruct Hw as [Hw ?]);
    repeat match goal with H : cls_eqb _ _ = true |- _ => apply cls_eqb_eq in H end.
  - pose proof (gen_balanced e ltac:(assumption) d x Hd Hx Hn) as G. rewrite run_seq, G. rc. apply run_discard; lia.
  - pose proof (need_nonneg cond). pose proof (sneed_nonneg s1). pose proof (sneed_nonneg s2).
    rewrite run_seq. rewrite (gen_balanced cond ltac:(assumption) d x) by lia. rc. rewrite run_seq, run_cmp_zero by lia.
    cbn [srun]. rewrite IHs1, IHs2 by (auto; lia). rewrite state_eqb_refl. reflexivity.
  - pose proof (need_nonneg cond). pose proof (need_nonneg inc). pose proof (sneed_nonneg s1). pose proof (sneed_nonneg s2).
    rewrite run_seq. rewrite IHs1 by (auto; lia). cbn [srun].
    rewrite (gen_balanced cond ltac:(assumption) d x) by lia. rc. rewrite run_cmp_zero by lia. rewrite IHs2 by (auto; lia).
    rewrite (gen_balanced inc ltac:(assumption) d x) by lia. rc. rewrite run_discard by lia. rewrite state_eqb_refl. reflexivity.
  - pose proof (need_nonneg cond). pose proof (sneed_nonneg s). cbn [srun]. rewrite IHs by (auto; lia).
    rewrite (gen_balanced cond ltac:(assumption) d x) by lia. rc. rewrite run_cmp_zero by lia. rewrite state_eqb_refl. reflexivity.
  - revert Hw Hn. induction H as [|s r Hs Hr IH]; intros Hw Hn; [reflexivity|].
    apply andb_prop in Hw. destruct Hw as [Hw1 Hw2]. pose proof (sneed_nonneg s).
    assert (0 <= (fix go (l : list stmt) : Z := match l with [] => 0 | s :: r => Z.max (sneed s) (go r) end) r).
    { clear. induction r as [|s r IH]; [lia|]. pose proof (sneed_nonneg s). lia. }
    rewrite run_seq. rewrite Hs by (auto; lia). apply IH; [exact Hw2|lia].
  - cbn [srun]. rewrite (gen_balanced e ltac:(assumption) d x Hd Hx Hn). reflexivity.
  - reflexivity.
Qed.

(* the capacity hypothesis is not gratuitous: a right-nested long double expression needs one x87
   register per nesting level, and the ninth does not exist (known finding C20-x87-depth) *)
Fixpoint right_nested (n : nat) : expr := match n with O => XVar CX | S k => XBin CX (XVar CX) (right_nested k) end.
Theorem deep_right_nesting_overflows : wt (right_nested 8) = true /\ need (right_nested 8) = 9 /\ srun (gen (right_nested 8)) (0, 0) = None.
Proof. vm_compute. repeat split. Qed.
Theorem left_nesting_is_flat : forall n, need ((fix l (n : nat) : expr := match n with O => XVar CX | S k => XBin CX (l k) (XVar CX) end) n) <= 2.
Proof. induction n as [|n IH]; cbn [need xv] in *; lia. Qed.
