(* C05 (package initcur): arrays of unknown bound (6.7.9p22).
   count_array_init_elements, which runs the parser on a dummy element, returns the spec's bound
   (largest index with an explicit initializer, plus one), and the spec's run on the unbounded array is its run
   on the array of that length. *)
From Coq Require Import List Arith Bool Lia.
From Chibicc Require Import Spec.InitSyntax Spec.InitSpec Spec.InitValid Model.InitCursor
  Proofs.InitTree Proofs.InitLocal Proofs.InitSim Proofs.InitRead.
Import ListNotations.

Definition head1 (p : path) : nat := match p with i :: _ => S i | [] => 0 end.
Definition hmax (E : list event) : nat := fold_right (fun e a => Nat.max (head1 (event_path e)) a) 0 E.

Lemma step_bound_head : forall a e, step_bound [] a e = Nat.max a (head1 (event_path e)).
Proof.
  intros a e. unfold step_bound. cbn [strip]. destruct e as [[|i q] x|[|i q]]; cbn [event_path head1]; try reflexivity; lia.
Qed.

Lemma bound_acc : forall E a, fold_left (step_bound []) E a = Nat.max a (hmax E).
Proof.
  induction E as [|e E IH]; intro a; cbn [fold_left hmax fold_right]; [lia|].
  rewrite IH, step_bound_head. fold (hmax E). lia.
Qed.

Lemma bound_hmax : forall E, bound E [] = hmax E.
Proof. intro E. unfold bound. rewrite bound_acc. lia. Qed.

Lemma hmax_app : forall E1 E2, hmax (E1 ++ E2) = Nat.max (hmax E1) (hmax E2).
Proof.
  induction E1 as [|e E1 IH]; intro E2; [reflexivity|].
  cbn [app hmax fold_right]. fold (hmax (E1 ++ E2)). fold (hmax E1). rewrite IH. lia.
Qed.

Lemma hmax_at : forall i E, E <> [] -> hmax (map (at_ [i]) E) = S i.
Proof.
  intros i E. induction E as [|e E IH]; intro H; [congruence|].
  cbn [map hmax fold_right]. fold (hmax (map (at_ [i]) E)).
  assert (He : head1 (event_path (at_ [i] e)) = S i) by (destruct e; reflexivity). rewrite He.
  destruct E as [|e' E]; [cbn; lia|]. rewrite IH by discriminate. lia.
Qed.

Lemma hmax_flat : forall X m a, X <> [] ->
  hmax (flat_map (fun k => map (at_ [k]) X) (seq a (S m))) = S (a + m).
Proof.
  intros X m. induction m as [|m IH]; intros a HX.
  - cbn [seq flat_map]. rewrite app_nil_r, (hmax_at a X HX). f_equal. lia.
  - change (seq a (S (S m))) with (a :: seq (S a) (S m)). cbn [flat_map].
    rewrite hmax_app, (hmax_at a X HX), (IH (S a) HX). lia.
Qed.

Lemma hmax_at_cons : forall k r E, E <> [] -> hmax (map (at_ (k :: r)) E) = S k.
Proof.
  intros k r E. induction E as [|e E IH]; intro H; [exfalso; apply H; reflexivity|].
  cbn [map hmax fold_right]. fold (hmax (map (at_ (k :: r)) E)).
  assert (He : head1 (event_path (at_ (k :: r) e)) = S k) by (destruct e; reflexivity). rewrite He.
  destruct E as [|e' E]; [cbn; lia|]. rewrite IH by discriminate. lia.
Qed.

Lemma range_events_nonempty : forall e v a b, a <= b -> fst (spec_init e [] v) <> [] -> range_events e v a b <> [].
Proof.
  intros e v a b Hle HX. unfold range_events. replace (S b - a) with (S (b - a)) by lia. cbn [seq flat_map].
  destruct (fst (spec_init e [] v)) as [|x X]; [congruence|discriminate].
Qed.

Lemma next_nonempty : forall U p r, next U p = Some r -> r <> [].
Proof.
  intros U p r H. destruct p as [|i q]; [discriminate|]. cbn [next] in H.
  destruct (child U i) as [V|]; [|discriminate]. destruct (next V q) as [q'|].
  - injection H as <-. discriminate.
  - destruct U as [k|n e|ms|ms]; cbn [nxt] in H; try discriminate.
    + destruct (in_bound n (S i)); [injection H as <-; discriminate|discriminate].
    + destruct (S i <? length ms); [injection H as <-; discriminate|discriminate].
Qed.

Definition cursor_ok (c : option path) : Prop := match c with Some [] => False | _ => True end.

Lemma cursor_ok_next : forall U p, cursor_ok (next U p).
Proof.
  intros U p. unfold cursor_ok. destruct (next U p) as [[|i r]|] eqn:H; try exact I.
  apply next_nonempty in H. congruence.
Qed.

Definition restrict (n : nat) (c : option path) : option path :=
  match c with Some (i :: r) => if i <? n then c else None | _ => c end.

Lemma next_restrict : forall e n i r, i < n ->
  next (TArray (Some n) e) (i :: r) = restrict n (next (TArray None e) (i :: r)).
Proof.
  intros e n i r Hi. assert (Hib : i <? n = true) by (apply Nat.ltb_lt; exact Hi).
  cbn [next child in_bound]. rewrite Hib. destruct (next e r) as [q'|].
  - cbn [restrict]. rewrite Hib. reflexivity.
  - cbn [nxt in_bound restrict]. destruct (S i <? n); reflexivity.
Qed.

(* one item of the braced list of an unbounded array: its events lie under one element i, and the same item
   in the array of length n > i behaves the same *)
Lemma item_transfer : forall e n c ds v tl,
  cursor_ok c -> ok_items (TArray None e) c (ICons ds v tl) = true ->
  exists i Ev c',
    spec_items (TArray None e) c (ICons ds v tl) = Ev ++ spec_items (TArray None e) c' tl /\
    hmax Ev = S i /\ cursor_ok c' /\ ok_items (TArray None e) c' tl = true /\
    (i < n ->
       spec_items (TArray (Some n) e) (restrict n c) (ICons ds v tl)
         = Ev ++ spec_items (TArray (Some n) e) (restrict n c') tl /\
       ok_items (TArray (Some n) e) (restrict n c) (ICons ds v tl) = ok_items (TArray (Some n) e) (restrict n c') tl).
Proof.
  intros e n c ds v tl Hc Hok.
  set (Winf := TArray None e) in *. set (Wn := TArray (Some n) e) in *.
  assert (Hmain : forall i r, ok_items Winf (Some (i :: r)) (ICons [] v tl) = true ->
     exists X c', spec_items Winf (Some (i :: r)) (ICons [] v tl) = map (at_ [i]) X ++ spec_items Winf c' tl /\
       X <> [] /\ cursor_ok c' /\ ok_items Winf c' tl = true /\
       (i < n -> spec_items Wn (Some (i :: r)) (ICons [] v tl) = map (at_ [i]) X ++ spec_items Wn (restrict n c') tl /\
                 ok_items Wn (Some (i :: r)) (ICons [] v tl) = ok_items Wn (restrict n c') tl)).
  { intros i r H.
    assert (HsubI : sub Winf [i] = Some e) by reflexivity.
    pose proof (spec_init_at v Winf [i] e r HsubI) as HsI. cbn [app] in HsI.
    pose proof (ok_init_at v Winf [i] e r HsubI) as HoI. cbn [app] in HoI.
    rewrite ok_items_head in H. apply andb_prop in H. destruct H as [Hoi Hor].
    rewrite HoI in Hoi. rewrite HsI in Hor. cbn [snd] in Hor.
    exists (fst (spec_init e r v)), (next Winf (i :: snd (spec_init e r v))).
    split. { rewrite spec_items_head, HsI. reflexivity. }
    split. { apply spec_init_nonempty. exact Hoi. }
    split. { apply cursor_ok_next. }
    split. { exact Hor. }
    intro Hi.
    assert (Hib : i <? n = true) by (apply Nat.ltb_lt; exact Hi).
    assert (HsubN : sub Wn [i] = Some e) by (cbn [sub child Wn in_bound]; rewrite Hib; reflexivity).
    pose proof (spec_init_at v Wn [i] e r HsubN) as HsN. cbn [app] in HsN.
    pose proof (ok_init_at v Wn [i] e r HsubN) as HoN. cbn [app] in HoN.
    assert (Hnext : next Wn (i :: snd (spec_init e r v)) = restrict n (next Winf (i :: snd (spec_init e r v)))).
    { cbn [next child Wn Winf in_bound]. rewrite Hib. destruct (next e (snd (spec_init e r v))) as [q'|].
      - cbn [restrict]. rewrite Hib. reflexivity.
      - cbn [nxt in_bound restrict]. destruct (S i <? n); reflexivity. }
    split.
    - rewrite spec_items_head, HsN. cbn [fst snd]. rewrite Hnext. reflexivity.
    - rewrite ok_items_head, HoN, HsN, Hoi. cbn [snd andb]. rewrite Hnext. reflexivity. }
  destruct ds as [|d0 ds'].
  - destruct c as [[|i r]|]; [contradiction| |discriminate Hok].
    destruct (Hmain i r Hok) as [X [c' [H1 [H2 [H3 [H4 H5]]]]]].
    exists i, (map (at_ [i]) X), c'. split; [exact H1|]. split; [exact (hmax_at i X H2)|]. split; [exact H3|]. split; [exact H4|].
    intro Hi. cbn [restrict]. assert (Hib : i <? n = true) by (apply Nat.ltb_lt; exact Hi). rewrite Hib. apply H5. exact Hi.
  - destruct (ok_items_desig Winf c d0 ds' v tl Hok) as [[p [Hp [Hnr Hokp]]]|[Hrange|Hnest]].
    2: { (* [a ... b] = v *)
      destruct Hrange as [a [b [-> [-> [Hr [Hokb Hoktl]]]]]].
      destruct (spec_items_range None e a b v tl c Hr Hokb) as [Hsr Hsnd]. fold Winf in Hsr, Hsnd. rewrite Hsnd in Hoktl.
      pose proof Hr as Hr'. cbn [range_ok Winf] in Hr'. apply andb_prop in Hr'. destruct Hr' as [Hab Hsingle].
      apply andb_prop in Hab. destruct Hab as [Hle _]. pose proof Hle as Hle'. apply Nat.leb_le in Hle'.
      assert (Hoke : ok_init e [] v = true).
      { pose proof (ok_init_at v Winf [b] e [] eq_refl) as H. cbn [app] in H. rewrite <- H. exact Hokb. }
      set (X := fst (spec_init e [] v)) in *.
      assert (HX : X <> []) by (apply spec_init_nonempty; exact Hoke).
      exists b, (flat_map (fun k => map (at_ [k]) X) (seq a (S b - a))), (next Winf [b]).
      split; [exact Hsr|]. split. { replace (S b - a) with (S (b - a)) by lia. rewrite (hmax_flat X (b - a) a HX). f_equal. lia. }
      split; [apply cursor_ok_next|]. split; [exact Hoktl|].
      intro Hb. assert (Hbb : b <? n = true) by (apply Nat.ltb_lt; exact Hb).
      assert (HrN : range_ok Wn a b v = true) by (cbn [range_ok Wn in_bound]; rewrite Hle, Hbb, Hsingle; reflexivity).
      assert (HsubN : sub Wn [b] = Some e) by (cbn [sub child Wn in_bound]; rewrite Hbb; reflexivity).
      assert (HokbN : ok_init Wn [b] v = true).
      { pose proof (ok_init_at v Wn [b] e [] HsubN) as H. cbn [app] in H. rewrite H. exact Hoke. }
      destruct (spec_items_range (Some n) e a b v tl (restrict n c) HrN HokbN) as [HsrN HsndN]. fold Wn in HsrN, HsndN.
      assert (Hnext : next Wn [b] = restrict n (next Winf [b])).
      { cbn [next child Wn Winf in_bound]. rewrite Hbb. cbn [next nxt in_bound restrict]. destruct (S b <? n); reflexivity. }
      split.
      - rewrite HsrN, Hnext. reflexivity.
      - pose proof (ok_items_range_tail Wn (restrict n c) [] a b [] (Some n) e v tl eq_refl eq_refl eq_refl HrN Hoke) as HokN.
        cbn [app] in HokN. rewrite HokN, Hnext. reflexivity. }
    2: { (* [k] <plain designators> [a ... b] = v *)
      destruct Hnest as [ds1 [a [b [p1 [n0 [e0 [-> [Hnr1 [Ht1 [Hs1 [Hr [Hoke Hoktl]]]]]]]]]]]].
      pose proof (spec_items_range_tail Winf c (d0 :: ds1) a b p1 n0 e0 v tl Hnr1 Ht1 Hs1 Hr Hoke) as Hspec.
      destruct d0 as [k|a0 b0|m]; [|cbn [no_range forallb] in Hnr1; discriminate|cbn [targets Winf] in Ht1; discriminate].
      cbn [targets Winf in_bound] in Ht1. destruct (map_cons_singleton k _ p1 Ht1) as [p1' [Ht1' ->]].
      pose proof Hr as Hr'. cbn [range_ok] in Hr'. apply andb_prop in Hr'. destruct Hr' as [Hab _].
      apply andb_prop in Hab. destruct Hab as [Hle _]. apply Nat.leb_le in Hle.
      assert (HRE : range_events e0 v a b <> []).
      { apply range_events_nonempty; [exact Hle|apply spec_init_nonempty; exact Hoke]. }
      exists k, (map (at_ (k :: p1')) (range_events e0 v a b)), (next Winf ((k :: p1') ++ [b])).
      split; [exact Hspec|]. split; [apply hmax_at_cons; exact HRE|].
      split; [apply cursor_ok_next|]. split; [exact Hoktl|].
      intro Hk. assert (Hkb : k <? n = true) by (apply Nat.ltb_lt; exact Hk).
      assert (HtN : targets Wn (DIndex k :: ds1) = [k :: p1']).
      { cbn [targets Wn in_bound]. rewrite Hkb. cbn [no_range forallb andb] in Hnr1. rewrite Ht1'. reflexivity. }
      assert (HsN : sub Wn (k :: p1') = Some (TArray n0 e0)).
      { cbn [sub child Wn in_bound]. rewrite Hkb. cbn [sub child Winf in_bound] in Hs1. exact Hs1. }
      pose proof (spec_items_range_tail Wn (restrict n c) (DIndex k :: ds1) a b (k :: p1') n0 e0 v tl Hnr1 HtN HsN Hr Hoke) as HspecN.
      pose proof (ok_items_range_tail Wn (restrict n c) (DIndex k :: ds1) a b (k :: p1') n0 e0 v tl Hnr1 HtN HsN Hr Hoke) as HokN.
      cbn [app] in HspecN, HokN |- *. unfold Wn, Winf in *. rewrite (next_restrict e n k (p1' ++ [b]) Hk) in HspecN, HokN.
      split; [exact HspecN|exact HokN]. }
    destruct d0 as [k|a b|m]; [|cbn [no_range forallb] in Hnr; discriminate|cbn [targets Winf] in Hp; discriminate].
    cbn [targets Winf in_bound] in Hp. destruct (map_cons_singleton k _ p Hp) as [p' [Hp' ->]].
    destruct (Hmain k p' Hokp) as [X [c' [H1 [H2 [H3 [H4 H5]]]]]].
    exists k, (map (at_ [k]) X), c'. split. { rewrite (spec_items_desig Winf c (DIndex k) ds' v tl (k :: p') Hp). exact H1. }
    split; [exact (hmax_at k X H2)|]. split; [exact H3|]. split; [exact H4|].
    intro Hk. assert (Hkb : k <? n = true) by (apply Nat.ltb_lt; exact Hk).
    assert (HpN : targets Wn (DIndex k :: ds') = [k :: p']).
    { cbn [targets Wn in_bound]. rewrite Hkb, Hp'. reflexivity. }
    destruct (H5 Hk) as [H6 H7]. split.
    + rewrite (spec_items_desig Wn _ (DIndex k) ds' v tl (k :: p') HpN). exact H6.
    + rewrite <- H7. apply (ok_items_desig_single Wn _ (DIndex k) ds' v tl (k :: p') Hnr HpN).
Qed.

Lemma bounded_transfer : forall e n l c,
  cursor_ok c -> ok_items (TArray None e) c l = true -> hmax (spec_items (TArray None e) c l) <= n ->
  spec_items (TArray (Some n) e) (restrict n c) l = spec_items (TArray None e) c l /\
  ok_items (TArray (Some n) e) (restrict n c) l = true.
Proof.
  intros e n l. induction l as [|ds v tl IH]; intros c Hc Hok Hmax; [split; reflexivity|].
  destruct (item_transfer e n c ds v tl Hc Hok) as [i [X [c' [H1 [H2 [H3 [H4 H5]]]]]]].
  rewrite H1, hmax_app, H2 in Hmax.
  destruct (H5 ltac:(lia)) as [H6 H7].
  destruct (IH c' H3 H4 ltac:(lia)) as [H8 H9].
  split; [rewrite H6, H8, H1; reflexivity|rewrite H7; exact H9].
Qed.

Lemma first_item_head : forall e c ds v tl,
  cursor_ok c -> ok_items (TArray None e) c (ICons ds v tl) = true ->
  0 < hmax (spec_items (TArray None e) c (ICons ds v tl)).
Proof.
  intros e c ds v tl Hc Hok. destruct (item_transfer e 0 c ds v tl Hc Hok) as [i [X [c' [H1 [H2 _]]]]].
  rewrite H1, hmax_app, H2. lia.
Qed.

(* the cleanliness of a log does not depend on the bound *)
Lemma diverge_bound : forall e n q p, diverge_at_union (TArray (Some n) e) q p = true ->
  diverge_at_union (TArray None e) q p = true.
Proof.
  intros e n q p H. destruct q as [|i q]; [discriminate|]. destruct p as [|j p]; [discriminate|].
  cbn [diverge_at_union child in_bound] in H |- *. destruct (i =? j); [|exact H].
  destruct (i <? n); [exact H|discriminate].
Qed.

Lemma clean_bound : forall e n ev, clean (TArray None e) ev = true -> clean (TArray (Some n) e) ev = true.
Proof.
  intros e n ev H. unfold clean in *. apply andb_prop in H. destruct H as [H1 H2]. rewrite H1. cbn [andb].
  unfold clean_union in *. rewrite forallb_forall in H2. apply forallb_forall. intros e1 He1.
  specialize (H2 e1 He1). rewrite forallb_forall in H2. apply forallb_forall. intros e2 He2. specialize (H2 e2 He2).
  destruct (diverge_at_union (TArray (Some n) e) (event_path e1) (event_path e2)) eqn:Hd; [|reflexivity].
  rewrite (diverge_bound e n _ _ Hd) in H2. exact H2.
Qed.

Section Count.
  Variable I2c : I2T.
  Variable Dc : DT.
  Variable d : nat.
  Hypothesis HI2 : I2_ok I2c d.
  Hypothesis HD : D_ok Dc d.
  Hypothesis HDs : D_single Dc d.
  Hypothesis HDr : D_range_ok Dc d.

  (* count_array_init_elements: the loop *)
  Lemma count_ok : forall fuel e dummy i mx tok,
    shaped e dummy -> wf e = true -> ilength tok < fuel -> S (tdepth e) + idepth_items tok <= d ->
    ok_items (TArray None e) (Some [i]) tok = true ->
    count_loop I2c Dc fuel dummy i mx tok = Some (Nat.max mx (hmax (spec_items (TArray None e) (Some [i]) tok))).
  Proof.
    induction fuel as [|fuel IH]; intros e dummy i mx tok Hsh Hwf Hfuel Hdep Hok; [lia|].
    set (W := TArray None e) in *.
    destruct tok as [|ds v tl].
    - cbn [count_loop spec_items hmax fold_right]. f_equal. lia.
    - cbn [ilength] in Hfuel. cbn [idepth_items] in Hdep.
      assert (Hde : tdepth e + idepth_items (ICons [] v tl) < d) by (cbn [idepth_items]; lia).
      destruct ds as [|d0 ds'].
      + assert (Hsub : sub W [i] = Some e) by reflexivity.
        destruct (HI2 e dummy W [i] v tl Hsh Hwf Hsub Hde Hok) as [E1 [tok1 [Hr [HE1 [Hs1 [Hok1 Hsuf1]]]]]].
        assert (Hnext : next W [i] = Some [S i]) by reflexivity. rewrite Hnext in Hs1, Hok1.
        cbn [count_loop]. rewrite Hr.
        rewrite (IH e (replay dummy E1) (S i) (Nat.max mx (S i)) tok1).
        * rewrite Hs1, hmax_app, (hmax_at i E1 HE1). f_equal. symmetry. apply Nat.max_assoc.
        * apply shaped_replay. exact Hsh.
        * exact Hwf.
        * apply isuffix_length in Hsuf1. lia.
        * apply isuffix_idepth in Hsuf1. lia.
        * exact Hok1.
      + destruct (ok_items_desig W _ d0 ds' v tl Hok) as [[p [Hp [Hnr Hokp]]]|[Hrange|Hnest]].
        2: { (* [a ... b] = v: i = b *)
          destruct Hrange as [a [b [-> [-> [Hr [Hokb Hoktl]]]]]].
          destruct (spec_items_range None e a b v tl (Some [i]) Hr Hokb) as [Hsr Hsnd]. fold W in Hsr, Hsnd. rewrite Hsnd in Hoktl.
          pose proof Hr as Hr'. cbn [range_ok W] in Hr'. apply andb_prop in Hr'. destruct Hr' as [Hab Hsingle].
          apply andb_prop in Hab. destruct Hab as [Hle _]. apply Nat.leb_le in Hle.
          assert (Hoke : ok_init e [] v = true).
          { pose proof (ok_init_at v W [b] e [] eq_refl) as H. cbn [app] in H. rewrite <- H. exact Hokb. }
          assert (HX : fst (spec_init e [] v) <> []) by (apply spec_init_nonempty; exact Hoke).
          assert (Hdv : tdepth e + idepth v < d) by lia.
          pose proof (HDs e dummy v tl Hsh Hwf Hdv Hoke Hsingle) as Hr1.
          assert (Hnext : next W [b] = Some [S b]) by reflexivity. rewrite Hnext in Hsr, Hoktl.
          cbn [count_loop]. rewrite Hr1.
          rewrite (IH e (replay dummy (fst (spec_init e [] v))) (S b) (Nat.max mx (S b)) tl).
          - rewrite Hsr, hmax_app. replace (S b - a) with (S (b - a)) by lia. rewrite (hmax_flat _ (b - a) a HX).
            replace (a + (b - a)) with b by lia. f_equal. symmetry. apply Nat.max_assoc.
          - apply shaped_replay. exact Hsh.
          - exact Hwf.
          - lia.
          - lia.
          - exact Hoktl. }
        2: { (* [k] <plain designators> [a ... b] = v: i = k *)
          destruct Hnest as [ds1 [a [b [p1 [n0 [e0 [-> [Hnr1 [Ht1 [Hs1' [Hr [Hoke Hoktl]]]]]]]]]]]].
          pose proof (spec_items_range_tail W (Some [i]) (d0 :: ds1) a b p1 n0 e0 v tl Hnr1 Ht1 Hs1' Hr Hoke) as Hspec.
          destruct d0 as [k|a0 b0|m]; [|cbn [no_range forallb] in Hnr1; discriminate|cbn [targets W] in Ht1; discriminate].
          cbn [targets W in_bound] in Ht1. destruct (map_cons_singleton k _ p1 Ht1) as [p1' [Ht1' ->]].
          cbn [no_range forallb andb] in Hnr1.
          pose proof Hr as Hr'. cbn [range_ok] in Hr'. apply andb_prop in Hr'. destruct Hr' as [Hab _].
          apply andb_prop in Hab. destruct Hab as [Hle _]. apply Nat.leb_le in Hle.
          assert (HRE : range_events e0 v a b <> []).
          { apply range_events_nonempty; [exact Hle|apply spec_init_nonempty; exact Hoke]. }
          assert (Hsub : sub W [k] = Some e) by reflexivity.
          assert (Hs1'' : sub e p1' = Some (TArray n0 e0)) by exact Hs1'.
          destruct (HDr e dummy W [k] ds1 a b p1' n0 e0 v tl Hsh Hwf Hsub Hde Hnr1 Ht1' Hs1'' Hr Hoke Hoktl)
            as [E1 [tok1 [Hr1 [HE1 [Hs1 [Hok1 Hsuf1]]]]]].
          assert (Hnext : next W [k] = Some [S k]) by reflexivity. rewrite Hnext in Hs1, Hok1.
          cbn [count_loop].
          rewrite Hr1.
          rewrite (IH e (replay dummy E1) (S k) (Nat.max mx (S k)) tok1).
          - cbn [app] in Hspec, Hs1. fold (range_events e0 v a b) in Hspec. rewrite Hspec, Hs1, hmax_app, (hmax_at k E1 HE1).
            f_equal. symmetry. apply Nat.max_assoc.
          - apply shaped_replay. exact Hsh.
          - exact Hwf.
          - apply isuffix_length in Hsuf1. lia.
          - apply isuffix_idepth in Hsuf1. lia.
          - exact Hok1. }
        destruct d0 as [k|a b|m]; [|cbn [no_range forallb] in Hnr; discriminate|cbn [targets W] in Hp; discriminate].
        cbn [targets W in_bound] in Hp. destruct (map_cons_singleton k _ p Hp) as [p' [Hp' ->]].
        cbn [no_range forallb andb] in Hnr.
        assert (Hsub : sub W [k] = Some e) by reflexivity.
        destruct (HD e dummy W [k] ds' p' v tl Hsh Hwf Hsub Hde Hnr Hp' Hokp) as [E1 [tok1 [Hr [HE1 [Hs1 [Hok1 Hsuf1]]]]]].
        assert (Hnext : next W [k] = Some [S k]) by reflexivity. rewrite Hnext in Hs1, Hok1.
        cbn [count_loop]. rewrite Hr.
        rewrite (IH e (replay dummy E1) (S k) (Nat.max mx (S k)) tok1).
        * rewrite (spec_items_desig W _ (DIndex k) ds' v tl (k :: p')); [|cbn [targets W in_bound]; rewrite Hp'; reflexivity].
          cbn [app] in Hs1. rewrite Hs1, hmax_app, (hmax_at k E1 HE1). f_equal. symmetry. apply Nat.max_assoc.
        * apply shaped_replay. exact Hsh.
        * exact Hwf.
        * apply isuffix_length in Hsuf1. lia.
        * apply isuffix_idepth in Hsuf1. lia.
        * exact Hok1.
  Qed.
End Count.
