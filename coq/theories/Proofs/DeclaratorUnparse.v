(* C08 (package decl), part 5: the unparse / parse direction.

   [declarator_of t x] (Spec/DeclSpec6_7_6.v) writes a type as base type + declarator, the way C programmers and
   type printers do (parentheses exactly where a pointer meets an array or function suffix).  For every valid
   C11 type - no arrays of functions, no functions returning arrays or functions, adjusted non-void parameter types -

     * the declarator is C11 syntax,
     * the standard's derivation gives back exactly t  (every derived type HAS a declarator), and therefore
     * parse.c, run on the written declarator, rebuilds t - or answers "array too large".
   (Update 2: function types without identifier and bounds of any size are covered now.)                      *)
From Coq Require Import List ZArith Bool Lia.
From Chibicc Require Import Spec.DeclSyntax Spec.DeclSpec6_7_6 Model.Declarator
     Proofs.DeclaratorParse Proofs.DeclaratorTypes.
Import ListNotations.
Local Open Scope Z_scope.

Section TyInd.
  Variable P : ty -> Prop.
  Hypothesis Hleaf : forall l, P (TLeaf l).
  Hypothesis Hptr : forall q t, P t -> P (TPtr q t).
  Hypothesis Harr : forall n t, P t -> P (TArr n t).
  Hypothesis Hfun : forall r ps k, P r -> Forall P ps -> P (TFun r ps k).
  Fixpoint ty_ind' (t : ty) : P t :=
    match t with
    | TLeaf l => Hleaf l
    | TPtr q t' => Hptr q t' (ty_ind' t')
    | TArr n t' => Harr n t' (ty_ind' t')
    | TFun r ps k =>
        Hfun r ps k (ty_ind' r)
          ((fix go (l : list ty) : Forall P l :=
              match l with
              | [] => Forall_nil P
              | p :: l' => Forall_cons p (ty_ind' p) (go l')
              end) ps)
    end.
End TyInd.

(* the pieces of decl_for's function case, as named functions *)
Definition param_for (p : ty) : param :=
  let bd := decl_for p (DDirect (DIdent None)) in Param (fst bd) (snd bd).
Fixpoint plist_for (p : ty) (l : list ty) : plist :=
  match l with
  | [] => POne (param_for p)
  | p' :: l' => PCons (param_for p) (plist_for p' l')
  end.
Definition params_for (ps : list ty) (k : fkind) : params :=
  match ps with
  | [] => match k with FProto => PVoid | _ => PUnspec end
  | p :: l => PList (plist_for p l) (match k with FVariadic => true | _ => false end)
  end.

Lemma decl_for_fun : forall r ps k inner,
  decl_for (TFun r ps k) inner = decl_for r (DDirect (DFunc (as_direct inner) (params_for ps k))).
Proof. intros r ps k inner. destruct ps as [|p l]; reflexivity. Qed.

Definition is_func_decl (d : decl) : bool := match d with DDirect (DFunc _ _) => true | _ => false end.

Lemma as_direct_dtl : forall d, dtl_dd (as_direct d) = dtl d.
Proof. destruct d; reflexivity. Qed.
Lemma as_direct_name : forall d, name_of_dd (as_direct d) = name_of d.
Proof. destruct d; reflexivity. Qed.
Lemma as_direct_c11 : forall d, c11_ok d = true -> c11_ok_dd (as_direct d) = true.
Proof. destruct d as [q d|dd]; intros H; [|exact H]. cbn [as_direct c11_ok_dd is_empty_decl negb andb]. exact H. Qed.
Lemma as_direct_func : forall d, is_func_dd (as_direct d) = is_func_decl d.
Proof. destruct d as [q d|dd]; [reflexivity|]. destruct dd; reflexivity. Qed.
Definition U (t : ty) : Prop :=
  forall inner, valid_ty t = true ->
    c11_ok inner = true ->
    (is_func_decl inner = true -> is_fun t = false /\ is_arr t = false) ->
    c11_ok (snd (decl_for t inner)) = true /\
    name_of (snd (decl_for t inner)) = name_of inner /\
    apply_dtl (dtl (snd (decl_for t inner))) (TLeaf (fst (decl_for t inner))) = apply_dtl (dtl inner) t.

Definition param_cond (p : ty) : bool :=
  negb (is_fun p) && negb (is_arr p) && negb (is_void_ty p) && valid_ty p.

Lemma adjust_id : forall p, is_fun p = false -> is_arr p = false -> adjust p = p.
Proof. intros p H1 H2. destruct p; try reflexivity; discriminate. Qed.

Lemma param_for_ok : forall p, U p -> param_cond p = true ->
  c11_ok_param (param_for p) = true /\ param_type (param_for p) = p.
Proof.
  intros p HU Hc. unfold param_cond in Hc.
  apply andb_prop in Hc. destruct Hc as [Hc Hv]. apply andb_prop in Hc. destruct Hc as [Hc Hnv].
  apply andb_prop in Hc. destruct Hc as [Hnf Hna].
  apply negb_true_iff in Hnf. apply negb_true_iff in Hna. apply negb_true_iff in Hnv.
  destruct (HU (DDirect (DIdent None)) Hv eq_refl) as [H1 [_ H4]].
  - intros H. discriminate H.
  - unfold param_for. cbn [c11_ok_param param_type].
    cbn [dtl dtl_dd apply_dtl fold_right] in H4.
    split.
    + rewrite H1. cbn [andb]. apply negb_true_iff.
      destruct (dtl (snd (decl_for p (DDirect (DIdent None))))) as [|s l] eqn:E; [|apply andb_false_r].
      cbn [apply_dtl fold_right] in H4. rewrite <- H4 in Hnv. cbn [is_void_ty] in Hnv.
      destruct (fst (decl_for p (DDirect (DIdent None)))); try reflexivity. discriminate Hnv.
    + unfold apply_dtl in *. rewrite H4. apply adjust_id; assumption.
Qed.

Lemma plist_for_ok : forall l p, Forall U (p :: l) -> forallb param_cond (p :: l) = true ->
  c11_ok_plist (plist_for p l) = true /\ plist_types (plist_for p l) = p :: l.
Proof.
  induction l as [|p' l IH]; intros p HU Hc.
  - inversion HU as [|? ? Hp _]; subst. cbn [forallb] in Hc. apply andb_prop in Hc.
    destruct (param_for_ok p Hp (proj1 Hc)) as [H1 H3].
    cbn [plist_for c11_ok_plist plist_types]. rewrite H3. auto.
  - inversion HU as [|? ? Hp Hl]; subst.
    cbn [forallb] in Hc. apply andb_prop in Hc.
    destruct (param_for_ok p Hp (proj1 Hc)) as [H1 H3].
    destruct (IH p' Hl (proj2 Hc)) as [G1 G3].
    cbn [plist_for c11_ok_plist plist_types]. rewrite H1, H3, G1, G3. auto.
Qed.

Lemma params_for_ok : forall ps k, Forall U ps -> forallb param_cond ps = true ->
  match k, ps with
  | FNoProto, [] => true | FNoProto, _ :: _ => false | FProto, _ => true
  | FVariadic, [] => false | FVariadic, _ :: _ => true
  end = true ->
  c11_ok_params (params_for ps k) = true /\
  param_types (params_for ps k) = ps /\ kind_of (params_for ps k) = k.
Proof.
  intros ps k HU Hc Hk. destruct ps as [|p l].
  - destruct k; try discriminate Hk; cbn; auto.
  - destruct (plist_for_ok l p HU Hc) as [G1 G3].
    cbn [params_for c11_ok_params param_types kind_of].
    destruct k; try discriminate Hk; auto.
Qed.

Lemma forallb_param_cond : forall ps,
  forallb (fun p => negb (is_fun p) && negb (is_arr p) && negb (is_void_ty p) && valid_ty p) ps = forallb param_cond ps.
Proof. reflexivity. Qed.

Theorem unparse_all : forall t, U t.
Proof.
  apply ty_ind'.
  - (* leaf *)
    intros l inner _ Hc _. cbn [decl_for fst snd]. auto.
  - (* pointer *)
    intros q t IH inner Hv Hc _. cbn [decl_for valid_ty] in *.
    destruct (IH (DPtr q inner) Hv Hc) as [H1 [H3 H4]].
    + intros H. discriminate H.
    + split; [exact H1|]. split; [exact H3|].
      rewrite H4. cbn [dtl]. apply apply_dtl_snoc.
  - (* array *)
    intros n t IH inner Hv Hc Hb. cbn [decl_for valid_ty] in *.
    apply andb_prop in Hv. destruct Hv as [Hv Hn0]. apply andb_prop in Hv. destruct Hv as [_ Hv].
    assert (Hnf : is_func_decl inner = false).
    { destruct (is_func_decl inner) eqn:E; [|reflexivity]. destruct (Hb eq_refl) as [_ H]. discriminate H. }
    destruct (IH (DDirect (DArray (as_direct inner) n)) Hv) as [H1 [H3 H4]].
    + cbn [c11_ok c11_ok_dd]. rewrite as_direct_func, Hnf, (as_direct_c11 inner Hc), Hn0. reflexivity.
    + intros H. discriminate H.
    + split; [exact H1|]. split.
      * rewrite H3. cbn [name_of name_of_dd]. apply as_direct_name.
      * rewrite H4. cbn [dtl dtl_dd]. rewrite as_direct_dtl. apply apply_dtl_snoc.
  - (* function *)
    intros r ps k IHr IHps inner Hv Hc Hb. rewrite decl_for_fun.
    cbn [valid_ty] in Hv.
    apply andb_prop in Hv. destruct Hv as [Hv Hk]. apply andb_prop in Hv. destruct Hv as [Hv Hps].
    apply andb_prop in Hv. destruct Hv as [Hv Hvr]. apply andb_prop in Hv. destruct Hv as [Hrf Hra].
    apply negb_true_iff in Hrf. apply negb_true_iff in Hra.
    rewrite forallb_param_cond in Hps.
    assert (Hnf : is_func_decl inner = false).
    { destruct (is_func_decl inner) eqn:E; [|reflexivity]. destruct (Hb eq_refl) as [H _]. discriminate H. }
    destruct (params_for_ok ps k IHps Hps Hk) as [G1 [G3 G4]].
    destruct (IHr (DDirect (DFunc (as_direct inner) (params_for ps k))) Hvr) as [H1 [H3 H4]].
    + cbn [c11_ok c11_ok_dd]. rewrite as_direct_func, Hnf, (as_direct_c11 inner Hc), G1. reflexivity.
    + intros _. split; assumption.
    + split; [exact H1|]. split.
      * rewrite H3. cbn [name_of name_of_dd]. apply as_direct_name.
      * rewrite H4. cbn [dtl dtl_dd]. rewrite as_direct_dtl, G3, G4. apply apply_dtl_snoc.
Qed.

(* ------------------------------------------------------------------ headline of part 5 *)
Theorem declarator_of_roundtrip : forall t x,
  valid_ty t = true ->
  let bd := declarator_of t x in
  c11_ok (snd bd) = true /\ name_of (snd bd) = x /\
  type_of (TLeaf (fst bd)) (snd bd) = t.
Proof.
  intros t x Hv. unfold declarator_of, type_of.
  destruct (unparse_all t (DDirect (DIdent x)) Hv eq_refl) as [H1 [H3 H4]].
  - intros H. discriminate H.
  - cbn [name_of name_of_dd dtl dtl_dd apply_dtl fold_right] in *. auto.
Qed.

(* write a type, let parse.c read it: the same type comes back (or the implementation limit is reported) *)
Theorem unparse_parse : forall t x rest,
  valid_ty t = true -> stops rest ->
  let bd := declarator_of t x in
  parse_declarator (print_decl (snd bd) ++ rest) (MBase (fst bd)) = TooLarge \/
  exists m, parse_declarator (print_decl (snd bd) ++ rest) (MBase (fst bd)) = Ok (x, m, rest) /\
            shape m = unqual t.
Proof.
  intros t x rest Hv Hr bd.
  destruct (declarator_of_roundtrip t x Hv) as [H1 [H3 H4]]. fold bd in H1, H3, H4.
  destruct (declarator_is_c11 (snd bd) (MBase (fst bd)) (TLeaf (fst bd)) rest H1 Hr eq_refl) as [Hm|[m [Hm Hsh]]];
    [left; exact Hm|right].
  exists m. rewrite H3, H4 in *. split; assumption.
Qed.

Theorem unparse_parse_typename : forall t rest,
  valid_ty t = true -> stops rest ->
  let bd := declarator_of t None in
  parse_typename (TBase (fst bd) :: print_decl (snd bd) ++ rest) = TooLarge \/
  exists m, parse_typename (TBase (fst bd) :: print_decl (snd bd) ++ rest) = Ok (m, rest) /\
            shape m = unqual t.
Proof.
  intros t rest Hv Hr bd.
  destruct (declarator_of_roundtrip t None Hv) as [H1 [H3 H4]]. fold bd in H1, H3, H4.
  destruct (typename_is_c11 (fst bd) (snd bd) rest H1 H3 Hr) as [Hm|[m [Hm Hsh]]]; [left; exact Hm|right].
  exists m. rewrite H4 in Hsh. split; assumption.
Qed.
