(* C08 (package decl), part 2: the type parse.c builds IS the type C11 6.7.6 assigns.

   [shape m] reads a model type (the C `Type` graph) as a C11 type: kind, base, array_len (negative = unknown
   bound), return type, parameter types, and the pair (no parameters, is_variadic) that parse.c uses for `()`.
   chibicc has no representation for type qualifiers, so the comparison is with [unqual t], the C11 type with
   the qualifiers of its pointer derivations erased.

       shape (m_apply d m) = unqual (type_of T d)        whenever shape m = unqual T

   for every declarator that passes parse.c's "array too large" tests ([chk]); parameters included (their
   adjusted types, 6.7.6.3p7-8).  So declarator() either reports "array too large" or returns the C11 type. *)
From Coq Require Import List ZArith Bool Lia.
From Chibicc Require Import Spec.DeclSyntax Spec.DeclSpec6_7_6 Model.Declarator Proofs.DeclaratorParse.
Import ListNotations.
Local Open Scope Z_scope.

Fixpoint unqual (t : ty) : ty :=
  match t with
  | TLeaf l => TLeaf l
  | TPtr _ t' => TPtr [] (unqual t')
  | TArr n t' => TArr n (unqual t')
  | TFun r ps k => TFun (unqual r) (map unqual ps) k
  end.

(* `if (cur == &head) is_variadic = true;` : no parameters + variadic is how `()` is stored *)
Definition fkind_of (no_params variadic : bool) : fkind :=
  if variadic then (if no_params then FNoProto else FVariadic) else FProto.

Fixpoint shape (m : mty) : ty :=
  match m with
  | MBase l => TLeaf l
  | MPtr b => TPtr [] (shape b)
  | MArr b len _ _ => TArr (if len <? 0 then None else Some len) (shape b)
  | MFunc r ps v => TFun (shape r) (map (fun p => shape (snd p)) ps) (fkind_of (is_nil ps) v)
  end.

Lemma int32_id : forall k, 0 <= k < 2147483648 -> int32 k = k.
Proof. intros k H. unfold int32. rewrite Z.mod_small by lia. lia. Qed.

Lemma apply_dtl_snoc : forall l s T, apply_dtl (l ++ [s]) T = apply_dtl l (derive s T).
Proof. intros l s T. unfold apply_dtl. rewrite fold_right_app. reflexivity. Qed.

Lemma shape_adjust : forall m T, shape m = unqual T -> shape (adjust_param m) = unqual (adjust T).
Proof.
  intros m T H.
  destruct m as [l|b|b len sz al|r ps v]; destruct T as [l'|q t|n t|r' ps' k]; cbn [shape unqual] in H;
    try discriminate H; cbn [adjust_param adjust shape unqual].
  - exact H.
  - exact H.
  - injection H as _ H. rewrite H. reflexivity.
  - cbn [shape unqual] in *. rewrite H. reflexivity.
Qed.

(* a bound that passes the "array too large" test fits in a C int *)
Lemma too_large_bound : forall k e, too_large k e = false -> k <= 2147483647.
Proof.
  intros k e H. unfold too_large in H. rewrite Z.gtb_ltb in H. apply Z.ltb_ge in H.
  assert (1 <= Z.max (ty_size e) 1) by lia.
  assert (2147483647 / Z.max (ty_size e) 1 <= 2147483647).
  { apply Z.div_le_upper_bound; nia. }
  lia.
Qed.

Definition T_decl (d : decl) : Prop :=
  c11_ok d = true ->
  forall m T, chk d m = true -> shape m = unqual T -> shape (m_apply d m) = unqual (apply_dtl (dtl d) T).
Definition T_dd (dd : direct) : Prop :=
  c11_ok_dd dd = true ->
  forall m T, chk_dd dd m = true -> shape m = unqual T -> shape (m_apply_dd dd m) = unqual (apply_dtl (dtl_dd dd) T).
Definition T_params (ps : params) : Prop :=
  c11_ok_params ps = true -> chk_params ps = true ->
  map (fun p => shape (snd p)) (m_params ps) = map unqual (param_types ps) /\
  fkind_of (is_nil (m_params ps)) (m_variadic ps) = kind_of ps.
Definition T_plist (l : plist) : Prop :=
  c11_ok_plist l = true -> chk_plist l = true ->
  map (fun p => shape (snd p)) (m_plist l) = map unqual (plist_types l) /\ m_plist l <> [].
Definition T_param (p : param) : Prop :=
  c11_ok_param p = true -> chk_param p = true ->
  shape (snd (m_param p)) = unqual (param_type p).

Theorem types_all :
  (forall d, T_decl d) /\ (forall dd, T_dd dd) /\ (forall ps, T_params ps) /\
  (forall l, T_plist l) /\ (forall p, T_param p).
Proof.
  apply decl_mutind.
  - (* DPtr *)
    intros q d IH Hc m T Hk H. cbn [c11_ok chk m_apply dtl] in *.
    rewrite apply_dtl_snoc. apply IH; try assumption. cbn [derive shape unqual]. rewrite H. reflexivity.
  - (* DDirect *)
    intros dd IH Hc m T Hk H. cbn [c11_ok chk m_apply dtl] in *. apply IH; assumption.
  - (* DIdent *)
    intros x _ m T _ H. exact H.
  - (* DParen *)
    intros d IH Hc m T Hk H. cbn [c11_ok_dd chk_dd m_apply_dd dtl_dd] in *.
    apply andb_prop in Hc. destruct Hc as [_ Hc]. apply andb_prop in Hk. destruct Hk as [_ Hk]. apply IH; assumption.
  - (* DArray *)
    intros dd' IH n Hc m T Hk H. cbn [c11_ok_dd chk_dd m_apply_dd dtl_dd] in *.
    apply andb_prop in Hc. destruct Hc as [Hc Hn0]. apply andb_prop in Hc. destruct Hc as [_ Hc].
    apply andb_prop in Hk. destruct Hk as [Hfit Hk].
    rewrite apply_dtl_snoc. apply IH; try assumption.
    cbn [derive unqual]. unfold array_of. cbn [shape]. rewrite H. f_equal.
    destruct n as [k|]; cbn [len_of]; [|reflexivity].
    cbn [fit] in Hfit. apply negb_true_iff in Hfit. apply too_large_bound in Hfit.
    apply Z.leb_le in Hn0. rewrite int32_id by lia.
    destruct (k <? 0) eqn:E; [apply Z.ltb_lt in E; lia|reflexivity].
  - (* DFunc *)
    intros dd' IH ps IHps Hc m T Hk H. cbn [c11_ok_dd chk_dd m_apply_dd dtl_dd] in *.
    apply andb_prop in Hc. destruct Hc as [Hc Hcps]. apply andb_prop in Hc. destruct Hc as [_ Hc].
    apply andb_prop in Hk. destruct Hk as [Hkps Hk].
    rewrite apply_dtl_snoc. apply IH; try assumption.
    destruct (IHps Hcps Hkps) as [E1 E2]. cbn [derive unqual shape]. rewrite H, E1, E2. reflexivity.
  - (* PUnspec *) intros _ _. split; reflexivity.
  - (* PVoid *) intros _ _. split; reflexivity.
  - (* PList *)
    intros l IH v Hc Hk. cbn [c11_ok_params chk_params m_params param_types m_variadic kind_of] in *.
    destruct (IH Hc Hk) as [E Hne]. split; [exact E|].
    destruct (m_plist l) as [|a r]; [congruence|]. destruct v; reflexivity.
  - (* POne *)
    intros p IH Hc Hk. cbn [c11_ok_plist chk_plist m_plist plist_types map] in *.
    split; [|discriminate]. rewrite (IH Hc Hk). reflexivity.
  - (* PCons *)
    intros p IH l IHl Hc Hk. cbn [c11_ok_plist chk_plist m_plist plist_types map] in *.
    apply andb_prop in Hc. destruct Hc as [Hc Hcl]. apply andb_prop in Hk. destruct Hk as [Hk Hkl].
    split; [|discriminate]. rewrite (IH Hc Hk), (proj1 (IHl Hcl Hkl)). reflexivity.
  - (* Param *)
    intros b d IH Hc Hk. cbn [c11_ok_param chk_param m_param param_type snd] in *.
    apply andb_prop in Hc. destruct Hc as [Hc _].
    apply shape_adjust. apply IH; try assumption. reflexivity.
Qed.

Theorem m_apply_is_c11_type : forall d m T, c11_ok d = true -> chk d m = true ->
  shape m = unqual T -> shape (m_apply d m) = unqual (type_of T d).
Proof. intros d m T Hc Hk H. unfold type_of. apply (proj1 types_all); assumption. Qed.

(* the parameters of a parameter list: names and adjusted types *)
Theorem m_params_are_adjusted : forall ps, c11_ok_params ps = true -> chk_params ps = true ->
  map (fun p => shape (snd p)) (m_params ps) = map unqual (param_types ps).
Proof. intros ps Hc Hk. exact (proj1 (proj1 (proj2 (proj2 types_all)) ps Hc Hk)). Qed.

(* ------------------------------------------------------------------ parser and C11 type together:
   "array too large", or the C11 type *)
Theorem declarator_is_c11 : forall d m T rest,
  c11_ok d = true -> stops rest -> shape m = unqual T ->
  parse_declarator (print_decl d ++ rest) m = TooLarge \/
  exists m', parse_declarator (print_decl d ++ rest) m = Ok (name_of d, m', rest) /\
             shape m' = unqual (type_of T d).
Proof.
  intros d m T rest Hc Hs H. rewrite parse_declarator_print by assumption.
  destruct (chk d m) eqn:Hk; [right|left; reflexivity].
  exists (m_apply d m). split; [reflexivity|]. apply m_apply_is_c11_type; assumption.
Qed.

Theorem abstract_declarator_is_c11 : forall d m T rest,
  c11_ok d = true -> name_of d = None -> stops rest -> shape m = unqual T ->
  parse_abstract (print_decl d ++ rest) m = TooLarge \/
  exists m', parse_abstract (print_decl d ++ rest) m = Ok (m', rest) /\
             shape m' = unqual (type_of T d).
Proof.
  intros d m T rest Hc Hn Hs H. rewrite parse_abstract_print by assumption.
  destruct (chk d m) eqn:Hk; [right|left; reflexivity].
  exists (m_apply d m). split; [reflexivity|]. apply m_apply_is_c11_type; assumption.
Qed.

Theorem typename_is_c11 : forall b d rest,
  c11_ok d = true -> name_of d = None -> stops rest ->
  parse_typename (TBase b :: print_decl d ++ rest) = TooLarge \/
  exists m', parse_typename (TBase b :: print_decl d ++ rest) = Ok (m', rest) /\
             shape m' = unqual (type_of (TLeaf b) d).
Proof.
  intros b d rest Hc Hn Hs. rewrite parse_typename_print by assumption.
  destruct (chk d (MBase b)) eqn:Hk; [right|left; reflexivity].
  exists (m_apply d (MBase b)). split; [reflexivity|]. apply m_apply_is_c11_type; try assumption. reflexivity.
Qed.

(* a parameter list in a function declarator: every parameter gets its name and its ADJUSTED C11 type *)
Theorem func_params_is_c11 : forall ps ret rest,
  c11_ok_params ps = true ->
  func_params (cost_params ps) (print_params ps ++ TRParen :: rest) ret = TooLarge \/
  exists pl v, func_params (cost_params ps) (print_params ps ++ TRParen :: rest) ret = Ok (MFunc ret pl v, rest) /\
    map (fun p => shape (snd p)) pl = map unqual (param_types ps) /\
    fkind_of (is_nil pl) v = kind_of ps.
Proof.
  intros ps ret rest Hc. rewrite func_params_print by auto.
  destruct (chk_params ps) eqn:Hk; [right|left; reflexivity].
  exists (m_params ps), (m_variadic ps). split; [reflexivity|].
  exact (proj1 (proj2 (proj2 types_all)) ps Hc Hk).
Qed.
