(* Facts about the SSE instructions of Model/X86Sse.v against the operations of Spec/C11Float.v:
   equality up to the choice of NaN ([feq]) is a congruence for every operation, so the NaN rule of
   the hardware (X86Sse) and the NaN choice of the specification (Flocq's default) never matter;
   the bit-level instructions (xor with the sign bit, replacing the low lane, movq) do what the
   floating-point reading says, for every bit pattern. *)
From Coq Require Import ZArith Bool List Lia.
From Flocq Require Import Core Binary Bits.
From Chibicc Require Import Spec.C11Int Spec.C11Float Model.X86Int Model.X86Sse.
Local Open Scope Z_scope.

(* ---------- equality up to NaN ---------- *)
Lemma feq_refl {p e} (x : binary_float p e) : feq x x. Proof. reflexivity. Qed.
Lemma feq_sym {p e} (x y : binary_float p e) : feq x y -> feq y x. Proof. unfold feq. congruence. Qed.
Lemma feq_trans {p e} (x y z : binary_float p e) : feq x y -> feq y z -> feq x z. Proof. unfold feq. congruence. Qed.

Lemma feq_nan {p e} (x y : binary_float p e) : is_nan p e x = true -> is_nan p e y = true -> feq x y.
Proof. destruct x, y; try discriminate. reflexivity. Qed.

Lemma feq_is_nan {p e} (x y : binary_float p e) : feq x y -> is_nan p e x = is_nan p e y.
Proof. unfold feq. destruct x, y; cbn; congruence. Qed.

(* on anything but a NaN it is equality: the result is bit-exact *)
Lemma feq_exact {p e} (x y : binary_float p e) : feq x y -> is_nan p e y = false -> x = y.
Proof.
  unfold feq. destruct x as [s|s|s pl H|s m ex H], y as [s'|s'|s' pl' H'|s' m' ex' H']; cbn; intros E N; try discriminate; try congruence.
  inversion E; subst. f_equal. apply eqbool_irrelevance.
Qed.

Lemma feq_iff {p e} (x y : binary_float p e) : feq x y <-> (x = y \/ (is_nan p e x = true /\ is_nan p e y = true)).
Proof.
  split.
  - intros H. destruct (is_nan p e y) eqn:N.
    + right. split; [rewrite (feq_is_nan _ _ H); exact N|reflexivity].
    + left. apply feq_exact; assumption.
  - intros [-> | [A B]]; [reflexivity|apply feq_nan; assumption].
Qed.

(* ---------- lanes ---------- *)
Lemma lane32_range x : 0 <= lane32 x < 2 ^ 32. Proof. unfold lane32. apply Z.mod_pos_bound. reflexivity. Qed.
Lemma lane64_range x : 0 <= lane64 x < 2 ^ 64. Proof. unfold lane64. apply Z.mod_pos_bound. reflexivity. Qed.
Lemma lane32_small x : 0 <= x < 2 ^ 32 -> lane32 x = x. Proof. intros H. unfold lane32. apply Z.mod_small. exact H. Qed.
Lemma lane64_small x : 0 <= x < 2 ^ 64 -> lane64 x = x. Proof. intros H. unfold lane64. apply Z.mod_small. exact H. Qed.
Lemma lane32_lane64 x : lane32 (lane64 x) = lane32 x.
Proof.
  unfold lane32, lane64. symmetry. apply Znumtheory.Zmod_div_mod; [reflexivity|reflexivity|].
  exists (2 ^ 32). reflexivity.
Qed.
Lemma lane64_idem x : lane64 (lane64 x) = lane64 x. Proof. apply lane64_small, lane64_range. Qed.
Lemma lane32_idem x : lane32 (lane32 x) = lane32 x. Proof. apply lane32_small, lane32_range. Qed.

Lemma put32_range old new : 0 <= put32 old new < 2 ^ 64.
Proof.
  unfold put32. pose proof (lane64_range old) as A. pose proof (lane32_range new) as B.
  pose proof (lane32_lane64 old) as C. unfold lane32, lane64 in *.
  set (o := old mod 2 ^ 64) in *. set (n := new mod 2 ^ 32) in *.
  rewrite <- C. clearbody o n. clear C.
  assert (P : 2 ^ 64 = 2 ^ 32 * 2 ^ 32) by reflexivity.
  pose proof (Z.div_mod o (2 ^ 32) ltac:(discriminate)) as D.
  pose proof (Z.mod_pos_bound o (2 ^ 32) eq_refl) as M.
  assert (Q : 0 <= o / 2 ^ 32 < 2 ^ 32).
  { split; [apply Z.div_pos; lia|]. apply Z.div_lt_upper_bound; lia. }
  set (q := o / 2 ^ 32) in *. set (r := o mod 2 ^ 32) in *. clearbody q r.
  replace (o - r) with (2 ^ 32 * q) by lia. rewrite P. nia.
Qed.
Lemma lane32_put32 old new : lane32 (put32 old new) = lane32 new.
Proof.
  unfold put32. pose proof (lane32_lane64 old) as C. unfold lane32, lane64 in *.
  set (o := old mod 2 ^ 64) in *. rewrite <- C.
  pose proof (Z.div_mod o (2 ^ 32) ltac:(discriminate)) as D.
  replace (o - o mod 2 ^ 32 + new mod 2 ^ 32) with (new mod 2 ^ 32 + (o / 2 ^ 32) * 2 ^ 32) by lia.
  rewrite Z.mod_add by discriminate. apply Z.mod_mod. discriminate.
Qed.

Lemma bits32_range (x : binary32) : 0 <= bits_of_b32 x < 2 ^ 32.
Proof. apply (bits_of_binary_float_range 23 8); reflexivity. Qed.
Lemma bits64_range (x : binary64) : 0 <= bits_of_b64 x < 2 ^ 64.
Proof. apply (bits_of_binary_float_range 52 11); reflexivity. Qed.
Lemma b32_bits (x : binary32) : b32_of_bits (bits_of_b32 x) = x.
Proof. apply (binary_float_of_bits_of_binary_float 23 8). Qed.
Lemma b64_bits (x : binary64) : b64_of_bits (bits_of_b64 x) = x.
Proof. apply (binary_float_of_bits_of_binary_float 52 11). Qed.
Lemma bits_b32 b : 0 <= b < 2 ^ 32 -> bits_of_b32 (b32_of_bits b) = b.
Proof. intros H. apply (bits_of_binary_float_of_bits 23 8). exact H. Qed.
Lemma bits_b64 b : 0 <= b < 2 ^ 64 -> bits_of_b64 (b64_of_bits b) = b.
Proof. intros H. apply (bits_of_binary_float_of_bits 52 11). exact H. Qed.

(* writing a float / double into %xmm0 and reading it back *)
Lemma f32_put old (r : binary32) : f32 (lane64 (put32 old (bits_of_b32 r))) = r.
Proof. unfold f32. rewrite lane32_lane64, lane32_put32, (lane32_small _ (bits32_range r)). apply b32_bits. Qed.
Lemma f64_put (r : binary64) : f64 (lane64 (bits_of_b64 r)) = r.
Proof. unfold f64. rewrite lane64_idem, (lane64_small _ (bits64_range r)). apply b64_bits. Qed.

(* ---------- arithmetic: the x86 NaN rule against Flocq's default ---------- *)
Lemma arith32_feq (o : fop) a a' b b' : feq a a' -> feq b b' ->
  feq (arith32 o a b)
      (match o with FAdd => b32_plus mode_NE a' b' | FSub => b32_minus mode_NE a' b'
                  | FMul => b32_mult mode_NE a' b' | FDiv => b32_div mode_NE a' b' end).
Proof.
  unfold feq. intros Ha Hb.
  destruct o; unfold arith32, b32_plus, b32_minus, b32_mult, b32_div, Bplus, Bminus, Bmult, Bdiv;
    rewrite !B2BSN_BSN2B, Ha, Hb; reflexivity.
Qed.
Lemma arith64_feq (o : fop) a a' b b' : feq a a' -> feq b b' ->
  feq (arith64 o a b)
      (match o with FAdd => b64_plus mode_NE a' b' | FSub => b64_minus mode_NE a' b'
                  | FMul => b64_mult mode_NE a' b' | FDiv => b64_div mode_NE a' b' end).
Proof.
  unfold feq. intros Ha Hb.
  destruct o; unfold arith64, b64_plus, b64_minus, b64_mult, b64_div, Bplus, Bminus, Bmult, Bdiv;
    rewrite !B2BSN_BSN2B, Ha, Hb; reflexivity.
Qed.

(* ---------- comparison ---------- *)
Lemma compare_feq {p e} (a a' b b' : binary_float p e) : feq a a' -> feq b b' -> Bcompare p e a b = Bcompare p e a' b'.
Proof. unfold feq, Bcompare. intros -> ->. reflexivity. Qed.
Lemma is_zero_feq {p e} (a a' : binary_float p e) : feq a a' -> is_zero a = is_zero a'.
Proof. intros H. unfold is_zero. rewrite (compare_feq a a' _ _ H (feq_refl _)). reflexivity. Qed.

(* ---------- negation ---------- *)
Lemma opp32_feq a a' : feq a a' -> feq (b32_opp a) (b32_opp a').
Proof. intros H. apply feq_iff in H as [-> | [A B]]; [reflexivity|]. destruct a, a'; try discriminate. reflexivity. Qed.
Lemma opp64_feq a a' : feq a a' -> feq (b64_opp a) (b64_opp a').
Proof. intros H. apply feq_iff in H as [-> | [A B]]; [reflexivity|]. destruct a, a'; try discriminate. reflexivity. Qed.

(* the same datum with the other sign *)
Definition flip {p e} (x : binary_float p e) : binary_float p e :=
  match x with
  | B754_zero _ _ s => B754_zero p e (negb s)
  | B754_infinity _ _ s => B754_infinity p e (negb s)
  | B754_nan _ _ s pl H => B754_nan p e (negb s) pl H
  | B754_finite _ _ s m ex H => B754_finite p e (negb s) m ex H
  end.
Lemma flip_opp32 x : feq (flip x) (b32_opp x). Proof. destruct x; reflexivity. Qed.
Lemma flip_opp64 x : feq (flip x) (b64_opp x). Proof. destruct x; reflexivity. Qed.
Lemma flip_sign {p e} (x : binary_float p e) : Bsign p e (flip x) = negb (Bsign p e x). Proof. destruct x; reflexivity. Qed.

(* xor with a single bit that is clear / set *)
Lemma lxor_bit_clear v k : 0 <= k -> 0 <= v < 2 ^ k -> Z.lxor v (2 ^ k) = v + 2 ^ k.
Proof.
  intros Hk Hv. symmetry. apply Z.add_nocarry_lxor.
  apply Z.bits_inj'. intros n Hn. rewrite Z.land_spec, Z.bits_0, Z.pow2_bits_eqb by assumption.
  destruct (Z.eqb_spec k n) as [->|Hne]; [|apply andb_false_r].
  rewrite <- (Z.mod_small v (2 ^ n)) by assumption. rewrite Z.mod_pow2_bits_high by lia. reflexivity.
Qed.
Lemma lxor_bit_set v k : 0 <= k -> 0 <= v < 2 ^ k -> Z.lxor (v + 2 ^ k) (2 ^ k) = v.
Proof.
  intros Hk Hv. rewrite <- (lxor_bit_clear v k Hk Hv). rewrite Z.lxor_assoc, Z.lxor_nilpotent. apply Z.lxor_0_r.
Qed.

(* xorps / xorpd with the sign bit: the pattern of x becomes the pattern of [flip x], for every x *)
Lemma join_flip_set mw ew E M : 0 <= mw -> 0 <= ew ->
  0 <= Z.shiftl (2 ^ ew + E) mw + M < 2 ^ (mw + ew + 1) -> 0 <= Z.shiftl (0 + E) mw + M < 2 ^ (mw + ew + 1) ->
  Z.lxor (Z.shiftl (2 ^ ew + E) mw + M) (2 ^ (mw + ew)) = Z.shiftl (0 + E) mw + M.
Proof.
  intros Hm He. rewrite !Z.shiftl_mul_pow2 by assumption. intros R1 R2.
  assert (P : 2 ^ (mw + ew) = 2 ^ ew * 2 ^ mw) by (rewrite Z.add_comm; apply Z.pow_add_r; assumption).
  assert (P' : 2 ^ (mw + ew + 1) = 2 * 2 ^ (mw + ew)) by (rewrite Z.pow_add_r by lia; lia).
  replace ((2 ^ ew + E) * 2 ^ mw + M) with (((0 + E) * 2 ^ mw + M) + 2 ^ (mw + ew)) in * by (rewrite P; ring).
  apply lxor_bit_set; lia.
Qed.
Lemma join_flip_clear mw ew E M : 0 <= mw -> 0 <= ew ->
  0 <= Z.shiftl (0 + E) mw + M < 2 ^ (mw + ew + 1) -> 0 <= Z.shiftl (2 ^ ew + E) mw + M < 2 ^ (mw + ew + 1) ->
  Z.lxor (Z.shiftl (0 + E) mw + M) (2 ^ (mw + ew)) = Z.shiftl (2 ^ ew + E) mw + M.
Proof.
  intros Hm He. rewrite !Z.shiftl_mul_pow2 by assumption. intros R1 R2.
  assert (P : 2 ^ (mw + ew) = 2 ^ ew * 2 ^ mw) by (rewrite Z.add_comm; apply Z.pow_add_r; assumption).
  assert (P' : 2 ^ (mw + ew + 1) = 2 * 2 ^ (mw + ew)) by (rewrite Z.pow_add_r by lia; lia).
  replace ((2 ^ ew + E) * 2 ^ mw + M) with (((0 + E) * 2 ^ mw + M) + 2 ^ (mw + ew)) in * by (rewrite P; ring).
  apply lxor_bit_clear; lia.
Qed.

Lemma xor_sign32 (x : binary32) : Z.lxor (bits_of_b32 x) (2 ^ 31) = bits_of_b32 (flip x).
Proof.
  pose proof (bits32_range x) as R1. pose proof (bits32_range (flip x)) as R2.
  change (2 ^ 31) with (2 ^ (23 + 8)). change (2 ^ 32) with (2 ^ (23 + 8 + 1)) in *.
  destruct x as [s|s|s pl H|s m ex H]; unfold bits_of_b32, bits_of_binary_float, flip, join_bits in *;
    try (destruct (0 <=? Z.pos m - 2 ^ 23));
    destruct s; cbn [negb] in *;
    first [apply join_flip_set; [discriminate|discriminate|assumption|assumption]
          |apply join_flip_clear; [discriminate|discriminate|assumption|assumption]].
Qed.
Lemma xor_sign64 (x : binary64) : Z.lxor (bits_of_b64 x) (2 ^ 63) = bits_of_b64 (flip x).
Proof.
  pose proof (bits64_range x) as R1. pose proof (bits64_range (flip x)) as R2.
  change (2 ^ 63) with (2 ^ (52 + 11)). change (2 ^ 64) with (2 ^ (52 + 11 + 1)) in *.
  destruct x as [s|s|s pl H|s m ex H]; unfold bits_of_b64, bits_of_binary_float, flip, join_bits in *;
    try (destruct (0 <=? Z.pos m - 2 ^ 52));
    destruct s; cbn [negb] in *;
    first [apply join_flip_set; [discriminate|discriminate|assumption|assumption]
          |apply join_flip_clear; [discriminate|discriminate|assumption|assumption]].
Qed.

(* so for every bit pattern: flipping bit 31 / 63 is negation (sign flip, also of zeros, infinities and NaNs) *)
Lemma neg_bits32 b : 0 <= b < 2 ^ 32 ->
  0 <= Z.lxor b (2 ^ 31) < 2 ^ 32 /\ b32_of_bits (Z.lxor b (2 ^ 31)) = flip (b32_of_bits b).
Proof.
  intros Hb. pose proof (xor_sign32 (b32_of_bits b)) as X. rewrite (bits_b32 b Hb) in X. rewrite X. split; [apply bits32_range|apply b32_bits].
Qed.
Lemma neg_bits64 b : 0 <= b < 2 ^ 64 ->
  0 <= Z.lxor b (2 ^ 63) < 2 ^ 64 /\ b64_of_bits (Z.lxor b (2 ^ 63)) = flip (b64_of_bits b).
Proof.
  intros Hb. pose proof (xor_sign64 (b64_of_bits b)) as X. rewrite (bits_b64 b Hb) in X. rewrite X. split; [apply bits64_range|apply b64_bits].
Qed.

(* ---------- conversions ---------- *)
Lemma cvtsi2ss_spec z : cvtsi2ss z = s_of_int z. Proof. reflexivity. Qed.
Lemma cvtsi2sd_spec z : cvtsi2sd z = d_of_int z. Proof. reflexivity. Qed.

Lemma nan64_of_bits_nan b : is_nan 53 1024 (proj1_sig (nan64_of_bits b)) = true.
Proof. apply (proj2_sig (nan64_of_bits b)). Qed.
Lemma nan32_of_bits_nan b : is_nan 24 128 (proj1_sig (nan32_of_bits b)) = true.
Proof. apply (proj2_sig (nan32_of_bits b)). Qed.

Lemma cvtss2sd_feq x x' : feq x x' -> feq (cvtss2sd x) (d_of_s x').
Proof.
  intros H. apply feq_iff in H as [-> | [A B]].
  - destruct x' as [s|s|s pl H|s m ex H]; try reflexivity.
    apply feq_nan; [apply nan64_of_bits_nan|apply (proj2_sig default_nan_pl64)].
  - destruct x as [s|s|s pl H|s m ex H], x' as [s'|s'|s' pl' H'|s' m' ex' H']; try discriminate.
    apply feq_nan; [apply nan64_of_bits_nan|apply (proj2_sig default_nan_pl64)].
Qed.
Lemma cvtsd2ss_feq x x' : feq x x' -> feq (cvtsd2ss x) (s_of_d x').
Proof.
  intros H. apply feq_iff in H as [-> | [A B]].
  - destruct x' as [s|s|s pl H|s m ex H]; try reflexivity.
    apply feq_nan; [apply nan32_of_bits_nan|apply (proj2_sig default_nan_pl32)].
  - destruct x as [s|s|s pl H|s m ex H], x' as [s'|s'|s' pl' H'|s' m' ex' H']; try discriminate.
    apply feq_nan; [apply nan32_of_bits_nan|apply (proj2_sig default_nan_pl32)].
Qed.

(* cvttss2si / cvttsd2si: when C defines the conversion and the integral part fits the destination register,
   the register receives it (two's complement) *)
Lemma cvtt_int_part {p e} (w : opsz) (y x : binary_float p e) z :
  feq y x -> int_part x = Some z -> - 2 ^ (bits w - 1) <= z < 2 ^ (bits w - 1) -> cvtt w y = z mod 2 ^ bits w.
Proof.
  intros H I Rz.
  assert (N : is_nan p e x = false) by (destruct x; try reflexivity; discriminate).
  rewrite (feq_exact _ _ H N). clear H N y.
  assert (C : (- 2 ^ (bits w - 1) <=? z) && (z <? 2 ^ (bits w - 1)) = true).
  { apply andb_true_intro. split; [apply Z.leb_le|apply Z.ltb_lt]; lia. }
  destruct x as [s|s|s pl H|s m ex H]; try discriminate; cbn [int_part] in I; injection I as <-; unfold cvtt.
  - change (Btrunc p e (B754_zero p e s)) with 0 in *. rewrite C. reflexivity.
  - rewrite C. reflexivity.
Qed.

(* ---------- %al, %dl and the flags ---------- *)
Lemma byte_replace r c : 0 <= c < 256 -> (r - r mod 256 + c) mod 256 = c.
Proof. intros H. Z.div_mod_to_equations. lia. Qed.

Lemma al_set_al s b : al (set_al s b) = b2z b.
Proof. unfold al, set_al, set_rax. cbn [rax]. apply byte_replace. destruct b; cbn; lia. Qed.
Lemma dl_set_al s b : dl (set_al s b) = dl s. Proof. reflexivity. Qed.
Lemma dl_set_dl s b : dl (set_dl s b) = b2z b.
Proof. unfold dl, set_dl, set_rdx. cbn [rdx]. apply byte_replace. destruct b; cbn; lia. Qed.
Lemma al_set_dl s b : al (set_dl s b) = al s. Proof. reflexivity. Qed.
Lemma al_logic_al s r : 0 <= r < 256 -> al (logic_al s r) = r.
Proof. intros H. unfold al at 1, logic_al, set_flags, set_rax. cbn [rax]. unfold al. apply byte_replace. exact H. Qed.

(* %rax after the byte in %al was replaced is a 64-bit value again *)
Lemma set_al_range s b : 0 <= rax s < 2 ^ 64 -> 0 <= rax (set_al s b) < 2 ^ 64.
Proof.
  intros H. unfold set_al, set_rax. cbn [rax]. assert (0 <= (if b then 1 else 0) < 256) by (destruct b; lia).
  change (2 ^ 64) with (72057594037927936 * 256) in *. Z.div_mod_to_equations. lia.
Qed.
Lemma land_bits a b : Z.land (b2z a) (b2z b) = b2z (a && b). Proof. destruct a, b; reflexivity. Qed.
Lemma lor_bits a b : Z.lor (b2z a) (b2z b) = b2z (a || b). Proof. destruct a, b; reflexivity. Qed.
Lemma land_bit1 a : Z.land (b2z a) 1 = b2z a. Proof. destruct a; reflexivity. Qed.
Lemma b2z_byte a : 0 <= b2z a < 256. Proof. destruct a; cbn; lia. Qed.
Lemma b2z_eq1 a : (b2z a =? 1) = a. Proof. destruct a; reflexivity. Qed.
