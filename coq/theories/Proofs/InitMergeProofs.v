From Chibicc Require Import Base.Mach Model.Bitfield Model.InitMerge Proofs.BitfieldProofs.
Local Open Scope Z_scope.

Definition wf_field (f : field) : Prop := let '(_, off, w) := f in 0 <= off /\ 0 < w /\ off + w <= 64.
Definition disjoint (f g : field) : Prop := let '(_, o1, w1) := f in let '(_, o2, w2) := g in o1 + w1 <= o2 \/ o2 + w2 <= o1.
Definition clear (u : Z) (f : field) : Prop := let '(_, off, w) := f in forall i, off <= i < off + w -> Z.testbit u i = false.
Definition small (u : Z) : Prop := forall i, 64 <= i -> Z.testbit u i = false.

Lemma static_bits u v off w i : 0 <= off -> 0 < w -> off + w <= 64 -> 0 <= i -> i < 64 ->
  Z.testbit (static_merge u (v, off, w)) i = Z.testbit u i || ((off <=? i) && (i <? off + w) && Z.testbit v (i - off)).
Proof.
  intros Ho Hw Hs Hi Hi64. unfold static_merge. rewrite w64_bit, Z.lor_spec by lia.
  replace (i <? 64) with true by (symmetry; apply Z.ltb_lt; lia). rewrite andb_true_r. f_equal.
  destruct (Z.leb_spec off i).
  - rewrite Z.shiftl_spec, Z.land_spec, ones_bit by lia. destruct (Z.ltb_spec i (off + w)).
    + replace (i - off <? w) with true by (symmetry; apply Z.ltb_lt; lia). cbn. apply andb_true_r.
    + replace (i - off <? w) with false by (symmetry; apply Z.ltb_ge; lia). cbn. apply andb_false_r.
  - rewrite Z.shiftl_spec by lia. rewrite Z.testbit_neg_r by lia. reflexivity.
Qed.

(* on a unit whose field bits are still zero, OR-ing the value in is the same as the masked store *)
Lemma merge_same u f : wf_field f -> clear u f -> small u -> static_merge u f = auto_merge u f.
Proof.
  destruct f as [[v off] w]. intros (Ho & Hw & Hs) Hc Hsm. apply Z.bits_inj'. intros i Hi.
  destruct (Z.ltb_spec i 64) as [Hi64|Hi64].
  - unfold auto_merge. rewrite static_bits, store_bits by lia.
    destruct (Z.leb_spec off i); destruct (Z.ltb_spec i (off + w)); cbn [andb]; rewrite ?orb_false_r; try reflexivity.
    rewrite (Hc i) by lia. reflexivity.
  - unfold auto_merge. rewrite store_high by lia. unfold static_merge. rewrite w64_bit by lia.
    replace (i <? 64) with false by (symmetry; apply Z.ltb_ge; lia). apply andb_false_r.
Qed.

Lemma auto_small u f : small (auto_merge u f).
Proof. destruct f as [[v off] w]. intros i Hi. apply store_high. exact Hi. Qed.

Lemma auto_keeps_clear u f g : wf_field f -> wf_field g -> disjoint f g -> clear u g -> clear (auto_merge u f) g.
Proof.
  destruct f as [[v off] w], g as [[v2 off2] w2]. intros (Ho & Hw & Hs) (Ho2 & Hw2 & Hs2) Hd Hc i Hi.
  unfold auto_merge. rewrite store_keeps_other_bits by (cbn in Hd; lia). apply Hc. exact Hi.
Qed.

(* whatever subset of a unit's pairwise disjoint bit-fields is initialized, in whatever order, the
   static image of the unit equals what the zero fill plus the assignments of the automatic path leave *)
Theorem static_equals_auto : forall fs, Forall wf_field fs -> ForallOrdPairs disjoint fs -> static_unit fs = auto_unit fs.
Proof.
  intros fs. unfold static_unit, auto_unit.
  assert (G : forall u, small u -> Forall (clear u) fs -> Forall wf_field fs -> ForallOrdPairs disjoint fs ->
              fold_left static_merge fs u = fold_left auto_merge fs u).
  { induction fs as [|f r IH]; intros u Hsm Hc Hw Hd; [reflexivity|]. cbn [fold_left].
    inversion Hc as [|? ? Hcf Hcr]; inversion Hw as [|? ? Hwf Hwr]; inversion Hd as [|? ? Hdf Hdr]; subst.
    rewrite (merge_same u f Hwf Hcf Hsm). apply IH; auto.
    - apply auto_small.
    - rewrite Forall_forall in *. intros g Hg. apply auto_keeps_clear; auto. }
  intros Hw Hd. apply G; auto.
  - intros i _. apply Z.bits_0.
  - apply Forall_forall. intros [[v off] w] _ i _. apply Z.bits_0.
Qed.

(* and the refuted variant: without the zero fill (or with overlapping writes) the OR-merge is NOT the store *)
Theorem or_merge_needs_clear_bits : static_merge 255 (0, 0, 4) <> auto_merge 255 (0, 0, 4).
Proof. vm_compute. discriminate. Qed.
