(* The integer instruction selection of gen_expr / cast computes the C11 result, for all operand values. *)
From Chibicc Require Import Base.Mach Spec.C11Int Model.X86Int Model.CodegenInt Gen.CastTable
     Model.ConstFold Proofs.ConstFoldProofs.
Local Open Scope Z_scope.

(* ---------- how a C value of a type sits in %rax (the comments of load() in codegen.c) ---------- *)
Definition R (t : ity) (v r : Z) : Prop :=
  0 <= r < 2 ^ 64 /\
  match t with
  | IBool => r = v
  | I64 | U64 => r = v mod 2 ^ 64
  | _ => r mod 2 ^ 32 = v mod 2 ^ 32
  end.

Ltac unfold_x := unfold R, lo, sgn, X86Int.sx, reg64, bits, wr, set_al, set_rax, cond in *;
  cbn [rax rdi rdx rcx f_zf f_cf f_lt Z.sub Z.pos_sub Pos.pred_double] in *.

(* ---------- the regenerated cast table ---------- *)
Definition cast_ok_entry (from to : ity) : Prop :=
  forall v s, in_range from v = true -> R from v (rax s) ->
  exists p s', gen_cast cast_table from to = Some p /\ exec p s = Some s' /\ R to (conv to v) (rax s').

Ltac cast_case :=
  intros v s Hr [Hb HR];
  eexists; eexists; split; [vm_compute; reflexivity|]; split; [cbn [exec exec1]; reflexivity|];
  unfold_x; unfold_ty; pows; cbn [cond f_zf negb] in *;
  repeat match goal with |- context [if ?c then _ else _] => destruct c eqn:? end;
  try lia.

Theorem cast_table_correct : forall from to, cast_ok_entry from to.
Proof.
  intros from to. destruct from, to; unfold cast_ok_entry; cast_case.
Qed.

