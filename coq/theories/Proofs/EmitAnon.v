(* C15 (package emit), stage 3: the anonymous objects - block-scope statics, string literals, __func__ /
   __FUNCTION__.  They have no linkage (6.2.2p6): no entry under a program identifier.  What the standard
   fixes is their storage duration (6.2.4), i.e. where they are placed.  For EVERY unit (no validity needed)
   without a block-scope `static _Thread_local`, the labels .L..0, .L..1, ... are defined once each and the
   sequence of (section, size, alignment) the assembler records for them is the specification's. *)
From Coq Require Import List Bool Arith ZArith Lia.
From Chibicc Require Import Model.Linkage Spec.LinkSpec Model.Emit Proofs.EmitAsm Proofs.EmitParse Proofs.EmitScan.
Import ListNotations.

Lemma filter_all {A} (P : A -> bool) l : (forall y, In y l -> P y = true) -> filter P l = l.
Proof.
  induction l as [|y r IH]; intros H; [reflexivity|]. cbn [filter]. rewrite (H y (or_introl eq_refl)), IH; [reflexivity|].
  intros z Hz. apply H. right. exact Hz.
Qed.

Definition anon_named (o : obj) : bool := match ob_name o with Anon _ => true | User _ => false end.

(* the anonymous objects of a unit in creation order, numbered from a *)
Fixpoint unit_anons (a : nat) (ds : list decl) : list obj :=
  match ds with
  | [] => []
  | DFun n _ _ fsz (Some items) :: r =>
      let l := anon_obj_of a false true fsz 1 true None :: anon_obj_of (S a) false true fsz 1 true None :: body_anons n (S (S a)) items in
      l ++ unit_anons (a + length l) r
  | _ :: r => unit_anons a r
  end.

Lemma unit_anons_app a p q : unit_anons a (p ++ q) = unit_anons a p ++ unit_anons (a + length (unit_anons a p)) q.
Proof.
  revert a. induction p as [|d r IH]; intros a; [cbn; rewrite Nat.add_0_r; reflexivity|].
  change ((d :: r) ++ q) with (d :: (r ++ q)).
  destruct d as [n od|n sc il fsz [items|]]; cbn [unit_anons]; try (apply IH).
  cbv zeta. remember (anon_obj_of a false true fsz 1 true None :: anon_obj_of (S a) false true fsz 1 true None :: body_anons n (S (S a)) items) as l eqn:El.
  rewrite IH, app_length, <- app_assoc, Nat.add_assoc. reflexivity.
Qed.

(* names are positions *)
Lemma body_anons_names fn a items : forall j x, nth_error (body_anons fn a items) j = Some x -> ob_name x = Anon (a + j).
Proof.
  revert a. induction items as [|i r IH]; intros a j x H; [destruct j; discriminate|].
  destruct i; cbn [body_anons] in H; [eapply IH; exact H| |];
    (destruct j as [|j]; [cbn in H; injection H as <-; cbn; f_equal; lia|cbn in H; apply IH in H; rewrite H; f_equal; lia]).
Qed.
Lemma unit_anons_names ds : forall a j x, nth_error (unit_anons a ds) j = Some x -> ob_name x = Anon (a + j).
Proof.
  induction ds as [|d r IH]; intros a j x H; [destruct j; discriminate|].
  destruct d as [n od|n sc il fsz [items|]]; cbn [unit_anons] in H; try (eapply IH; exact H).
  set (l := anon_obj_of a false true fsz 1 true None :: anon_obj_of (S a) false true fsz 1 true None :: body_anons n (S (S a)) items) in *.
  destruct (Nat.lt_ge_cases j (length l)) as [Hlt|Hge].
  - rewrite nth_error_app1 in H by exact Hlt. unfold l in H. destruct j as [|[|j]]; [cbn in H; injection H as <-; cbn; f_equal; lia|cbn in H; injection H as <-; cbn; f_equal; lia|].
    cbn in H. apply body_anons_names in H. rewrite H. f_equal. lia.
  - rewrite nth_error_app2 in H by exact Hge. apply IH in H. rewrite H. f_equal. lia.
Qed.

Lemma filter_by_position (l : list obj) : forall base, (forall j x, nth_error l j = Some x -> ob_name x = Anon (base + j)) ->
  forall k, filter (same_name (Anon k)) l = match (if Nat.leb base k then nth_error l (k - base) else None) with Some x => [x] | None => [] end.
Proof.
  induction l as [|y r IH]; intros base H k; [destruct (Nat.leb base k); [destruct (k - base)%nat|]; reflexivity|].
  cbn [filter]. assert (Hy : ob_name y = Anon base) by (rewrite (H 0%nat y eq_refl); f_equal; lia).
  unfold same_name at 1. rewrite Hy. cbn [ident_eqb].
  rewrite (IH (S base)) by (intros j x Hj; rewrite (H (S j) x Hj); f_equal; lia).
  destruct (Nat.eqb_spec k base) as [->|Hne].
  - rewrite Nat.leb_refl, Nat.sub_diag. cbn [nth_error]. destruct (Nat.leb_spec (S base) base); [lia|reflexivity].
  - destruct (Nat.leb_spec base k) as [Hle|Hgt].
    + destruct (Nat.leb_spec (S base) k); [|lia]. replace (k - base)%nat with (S (k - S base)) by lia. reflexivity.
    + destruct (Nat.leb_spec (S base) k); [lia|reflexivity].
Qed.

(* ---------- the parser invariant for anonymous objects (any input) ---------- *)
Record ainv (p : list decl) (st : pstate) : Prop := mkAinv {
  ai_list : filter anon_named (ps_globals st) = rev (unit_anons 0 p);
  ai_count : ps_anon st = length (unit_anons 0 p);
  ai_fun : forall x, In x (ps_globals st) -> ob_function x = true -> anon_named x = false }.

Lemma anon_update x f gs : keeps f -> filter anon_named (update_fun x f gs) = filter anon_named gs.
Proof.
  intros K. unfold update_fun. apply filter_map_fix.
  - intros y Hy. unfold is_fun_named. unfold anon_named in Hy. destruct (ob_name y); [discriminate|]. cbn. rewrite andb_false_r. reflexivity.
  - intros y. destruct (is_fun_named x y); [|reflexivity]. unfold anon_named. destruct (K y) as (-> & _). reflexivity.
Qed.
Lemma fun_update x f gs : keeps f -> (forall y, In y gs -> ob_function y = true -> anon_named y = false) ->
  forall y, In y (update_fun x f gs) -> ob_function y = true -> anon_named y = false.
Proof.
  intros K H y Hy Hf. unfold update_fun in Hy. apply in_map_iff in Hy as (z & <- & Hz). destruct (is_fun_named x z) eqn:E; [|apply H; assumption].
  unfold anon_named. destruct (K z) as (-> & _). unfold is_fun_named in E. apply andb_true_iff in E as [_ E]. destruct (ob_name z); [reflexivity|discriminate].
Qed.

Lemma parse_body_anons sc fn items : forall anon gs refs body,
  fst (fst (fst (parse_body sc fn items anon gs refs body))) = rev (body_anons fn anon items) ++ gs
  /\ snd (fst (fst (parse_body sc fn items anon gs refs body))) = (anon + length (body_anons fn anon items))%nat.
Proof.
  induction items as [|i r IH]; intros anon gs refs body; [cbn; split; [reflexivity|lia]|].
  destruct i as [m|tl sz al arr hi|sz]; cbn [parse_body body_anons].
  - destruct (resolve sc m) as [[[|] t]|]; apply IH.
  - destruct (IH (S anon) (anon_obj_of anon tl hi sz al arr (Some fn) :: gs) refs (body ++ [RAnon anon tl])) as [E1 E2]. rewrite E1, E2. cbn [rev length]. rewrite <- app_assoc. split; [reflexivity|lia].
  - destruct (IH (S anon) (anon_obj_of anon false true sz 1 true None :: gs) refs (body ++ [RAnon anon false])) as [E1 E2]. rewrite E1, E2. cbn [rev length]. rewrite <- app_assoc. split; [reflexivity|lia].
Qed.

Lemma body_anons_all_anon fn a items x : In x (body_anons fn a items) -> anon_named x = true /\ ob_function x = false.
Proof.
  revert a. induction items as [|i r IH]; intros a Hx; [contradiction|].
  destruct i; cbn [body_anons] in Hx; [eapply IH; exact Hx| |]; (destruct Hx as [<-|Hx]; [split; reflexivity|eapply IH; exact Hx]).
Qed.

Lemma ainv_step p st d : ainv p st -> ainv (p ++ [d]) (step st d).
Proof.
  intros [A1 A2 A3]. pose proof (unit_anons_app 0 p [d]) as U. cbn [Nat.add] in U. destruct d as [n od|n sc il fsz body].
  - (* object: globals = possibly updated, plus a User-named object *)
    cbn [unit_anons] in U. rewrite app_nil_r in U.
    assert (Hg : exists al gs', ps_globals (step st (DObj n od)) = obj_of_decl n od al :: gs' /\ filter anon_named gs' = filter anon_named (ps_globals st)
                             /\ forall y, In y gs' -> ob_function y = true -> anon_named y = false).
    { cbn [step ps_globals]. destruct (o_init od) as [| |t]; try (do 2 eexists; split; [reflexivity|split; [reflexivity|exact A3]]).
      destruct (resolve _ t) as [[[|] tl]|]; try (do 2 eexists; split; [reflexivity|split; [reflexivity|exact A3]]).
      unfold note_fun_ref. destruct (ps_cur st) as [g|]; rewrite update_fun_cons_obj; do 2 eexists; (split; [reflexivity|split; [apply anon_update|apply fun_update; [|exact A3]]]);
        try apply keeps_add_ref; try apply keeps_set_root. }
    destruct Hg as (al & gs' & Eg & Ea & Ef). constructor; rewrite ?U.
    + rewrite Eg. cbn [filter anon_named obj_of_decl ob_name]. rewrite Ea. exact A1.
    + destruct (o_init od) as [| |t]; cbn [step ps_anon]; exact A2.
    + rewrite Eg. intros y [<-|Hy] Hf; [discriminate|apply Ef; assumption].
  - rewrite step_fun_unfold. cbv zeta.
    set (hb := match body with Some _ => true | None => false end).
    assert (S1 : filter anon_named (fst (stage1 st n sc il hb)) = filter anon_named (ps_globals st)
                 /\ forall y, In y (fst (stage1 st n sc il hb)) -> ob_function y = true -> anon_named y = false).
    { unfold stage1. destruct (find_fun n (ps_globals st)); cbn [fst].
      - split; [apply anon_update; apply keeps_redeclare|apply fun_update; [apply keeps_redeclare|exact A3]].
      - split; [reflexivity|]. intros y [<-|Hy] Hf; [reflexivity|apply A3; assumption]. }
    destruct S1 as [S1 S2]. destruct body as [items|].
    + cbn [unit_anons] in U. cbv zeta in U. rewrite app_nil_r in U. rewrite <- A2 in U.
      set (a := ps_anon st) in *.
      set (gs2 := anon_obj_of (S a) false true fsz 1 true None :: anon_obj_of a false true fsz 1 true None :: fst (stage1 st n sc il hb)).
      destruct (parse_body_anons (snd (stage1 st n sc il hb)) n items (S (S a)) gs2 [] []) as [E1 E2].
      constructor; cbn [ps_globals ps_anon]; rewrite ?U.
      * rewrite anon_update by apply keeps_set_body. rewrite E1, filter_app.
        rewrite (filter_all anon_named (rev _)) by (intros y Hy; apply in_rev in Hy; apply (body_anons_all_anon _ _ _ _ Hy)).
        unfold gs2. cbn [filter anon_named anon_obj_of ob_name]. rewrite S1, A1.
        rewrite rev_app_distr. cbn [rev]. rewrite <- !app_assoc. reflexivity.
      * rewrite E2, app_length. cbn [length]. unfold a. lia.
      * apply fun_update; [apply keeps_set_body|]. rewrite E1. intros y Hy Hf. apply in_app_or in Hy as [Hy|Hy].
        -- apply in_rev in Hy. destruct (body_anons_all_anon _ _ _ _ Hy) as [_ H]. congruence.
        -- destruct Hy as [<-|[<-|Hy]]; [discriminate|discriminate|apply S2; assumption].
    + cbn [unit_anons] in U. rewrite app_nil_r in U. constructor; cbn [ps_globals ps_anon]; rewrite ?U; [rewrite S1; exact A1|exact A2|exact S2].
Qed.

Lemma ainv_parse ds : ainv ds (parse ds).
Proof.
  assert (H : forall q p st, ainv p st -> ainv (p ++ q) (fold_left step q st)).
  { induction q as [|d q IH]; intros p st A; [rewrite app_nil_r; exact A|]. cbn [fold_left].
    replace (p ++ d :: q) with ((p ++ [d]) ++ q) by (rewrite <- app_assoc; reflexivity). apply IH. apply ainv_step. exact A. }
  apply (H ds [] (mkPS [] [] 0 None)). constructor; [reflexivity|reflexivity|intros x []].
Qed.

Lemma body_anons_shape fn a items x : In x (body_anons fn a items) -> exists k tl hi sz al arr ow, x = anon_obj_of k tl hi sz al arr ow /\ (forall g, ow = Some g -> g = fn).
Proof.
  revert a. induction items as [|i r IH]; intros a Hx; [contradiction|].
  destruct i; cbn [body_anons] in Hx; [eapply IH; exact Hx| |]; (destruct Hx as [<-|Hx]; [do 7 eexists; split; [reflexivity|intros g E; congruence]|eapply IH; exact Hx]).
Qed.
Lemma unit_anons_shape ds : forall a x, In x (unit_anons a ds) ->
  exists k tl hi sz al arr ow, x = anon_obj_of k tl hi sz al arr ow /\ (forall g, ow = Some g -> funseq g ds <> []).
Proof.
  induction ds as [|d r IH]; intros a x Hx; [contradiction|].
  assert (Hmono : forall g, funseq g r <> [] -> funseq g (d :: r) <> []).
  { intros g H. destruct d as [m od|m ? ? ? ?]; cbn [funseq]; [exact H|]. destruct (Nat.eqb m g); [discriminate|exact H]. }
  assert (Htail : forall a', In x (unit_anons a' r) -> exists k tl hi sz al arr ow, x = anon_obj_of k tl hi sz al arr ow /\ (forall g, ow = Some g -> funseq g (d :: r) <> [])).
  { intros a' H. destruct (IH a' x H) as (k & tl & hi & sz & al & arr & ow & E & Ho). exists k, tl, hi, sz, al, arr, ow. split; [exact E|]. intros g Hg. apply Hmono. apply Ho. exact Hg. }
  destruct d as [n od|n sc il fsz [items|]]; cbn [unit_anons] in Hx; try (eapply Htail; exact Hx).
  cbv zeta in Hx. apply in_app_or in Hx as [Hx|Hx]; [|eapply Htail; exact Hx].
  destruct Hx as [<-|[<-|Hx]]; [do 7 eexists; split; [reflexivity|intros g E; discriminate]|do 7 eexists; split; [reflexivity|intros g E; discriminate]|].
  destruct (body_anons_shape _ _ _ _ Hx) as (k & tl & hi & sz & al & arr & ow & E & Ho). exists k, tl, hi, sz, al, arr, ow. split; [exact E|].
  intros g Hg. rewrite (Ho g Hg). cbn [funseq]. rewrite Nat.eqb_refl. discriminate.
Qed.

Definition anon_entry (x : obj) : anon_obj := mkAnon (data_place x) (ob_size x) (eff_align x).

Definition placed (live : nat -> bool) (x : obj) : bool := match ob_owner x with Some g => live g | None => true end.
Lemma anon_entries_spec live ds : forall a, map anon_entry (filter (placed live) (unit_anons a ds)) = spec_anon live ds.
Proof.
  induction ds as [|d r IH]; intros a; [reflexivity|].
  unfold spec_anon in *. cbn [flat_map]. destruct d as [n od|n sc il fsz [items|]]; cbn [unit_anons]; try (apply IH).
  cbv zeta. rewrite filter_app, map_app, IH. f_equal. cbn [filter placed anon_obj_of ob_owner map]. apply f_equal2; [reflexivity|]. apply f_equal2; [reflexivity|].
  generalize (S (S a)). induction items as [|i items IHi]; intros b; [reflexivity|].
  destruct i as [m|tl sz al arr hi|sz]; cbn [body_anons flat_map anon_of_item app map filter placed anon_obj_of ob_owner].
  - apply IHi.
  - destruct (live n); [|apply IHi]. cbn [map app]. rewrite IHi. f_equal. unfold anon_entry, data_place. cbn. destruct tl, hi; reflexivity.
  - cbn [map app]. rewrite IHi. reflexivity.
Qed.

Lemma flat_map_flat_map {A B C} (f : B -> list C) (g : A -> list B) l : flat_map f (flat_map g l) = flat_map (fun x => flat_map f (g x)) l.
Proof. induction l as [|x r IH]; [reflexivity|]. cbn [flat_map]. rewrite flat_map_app, IH. reflexivity. Qed.
Lemma flat_map_ext_in {A B} (f g : A -> list B) l : (forall x, In x l -> f x = g x) -> flat_map f l = flat_map g l.
Proof.
  induction l as [|x r IH]; intros H; [reflexivity|]. cbn [flat_map]. rewrite (H x (or_introl eq_refl)), IH; [reflexivity|].
  intros y Hy. apply H. right. exact Hy.
Qed.
Lemma flat_map_singleton {A B} (f : A -> B) l : flat_map (fun x => [f x]) l = map f l.
Proof. induction l as [|x r IH]; [reflexivity|]. cbn. rewrite IH. reflexivity. Qed.
Lemma filter_rev {A} (P : A -> bool) l : filter P (rev l) = rev (filter P l).
Proof. induction l as [|x r IH]; [reflexivity|]. cbn [rev filter]. rewrite filter_app, IH. cbn [filter]. destruct (P x); [reflexivity|apply app_nil_r]. Qed.

Lemma core_emit s o prog :
  core s (asm P_text None (emit o prog)) =
  flat_map (fun x => if same_name s x then data_core (fcommon o) prog x else []) prog ++ flat_map (fun x => if same_name s x then text_core x else []) prog.
Proof.
  rewrite asm_emit, core_app, !core_flat_map. f_equal; apply flat_map_ext; intros x; [apply core_data_ev|apply core_text_ev].
Qed.

Section Anon.
Variable ds : list decl.
Variable o : opts.
Let Gs := ps_globals (parse ds).
Let M := mark Gs.
Let prog := parse_flags ds.
Let U := unit_anons 0 ds.
Let evs := asm P_text None (emit o prog).

Lemma anon_M : filter anon_named M = rev U.
Proof.
  unfold M, U. rewrite mark_map, <- (ai_list _ _ (ainv_parse ds)). apply filter_map_fix.
  - intros x Hx. unfold mark_one. unfold anon_named in Hx. destruct (ob_name x); [discriminate|reflexivity].
  - intros x. unfold anon_named. destruct (mark_one_keeps Gs x) as (-> & _). reflexivity.
Qed.
Lemma anon_shape x : In x M -> anon_named x = true -> exists k tl hi sz al arr ow, x = anon_obj_of k tl hi sz al arr ow.
Proof.
  intros Hx Ha. assert (H : In x (filter anon_named M)) by (apply filter_In; split; assumption).
  rewrite anon_M in H. apply in_rev in H. destruct (unit_anons_shape ds 0 x H) as (k & tl & hi & sz & al & arr & ow & E & _). exists k, tl, hi, sz, al, arr, ow. exact E.
Qed.
Lemma anon_prog : filter anon_named prog = rev U.
Proof.
  rewrite <- anon_M. unfold prog, parse_flags. fold Gs. fold M.
  rewrite (filter_filter_sub anon_named nt (scan_globals M)), (filter_filter_sub anon_named nt M), real_definitions_kept; [reflexivity| |].
  - intros x Hx Ha. destruct (anon_shape x Hx Ha) as (k & tl & hi & sz & al & arr & ow & ->). reflexivity.
  - intros x Hx Ha. destruct (anon_shape x (scan_globals_In M x Hx) Ha) as (k & tl & hi & sz & al & arr & ow & ->). reflexivity.
Qed.
Lemma fun_user x : In x prog -> ob_function x = true -> anon_named x = false.
Proof.
  intros Hx Hf. apply scan_globals_In in Hx. fold Gs in Hx. fold M in Hx. unfold M in Hx. rewrite mark_map in Hx. apply in_map_iff in Hx as (y & <- & Hy).
  destruct (mark_one_keeps Gs y) as (En & Ef & _). unfold anon_named. rewrite En. rewrite Ef in Hf. apply (ai_fun _ _ (ainv_parse ds) y Hy Hf).
Qed.

(* each label .L..k is defined exactly once, by the k-th anonymous object *)
Lemma named_anon k : filter (same_name (Anon k)) prog = match nth_error U k with Some x => [x] | None => [] end.
Proof.
  rewrite (filter_filter_sub (same_name (Anon k)) anon_named prog).
  - rewrite anon_prog, filter_rev, (filter_by_position U 0 (unit_anons_names ds 0) k). cbn [Nat.leb]. rewrite Nat.sub_0_r.
    destruct (nth_error U k); reflexivity.
  - intros x _ Hn. unfold same_name in Hn. unfold anon_named. destruct (ob_name x); [discriminate|reflexivity].
Qed.

Lemma size_of_label k x : nth_error U k = Some x -> owner_live prog x = true -> ev_size (Anon k) evs = Some (ob_size x).
Proof.
  intros Hk Hol. rewrite <- ev_size_core. unfold evs. rewrite core_emit.
  assert (Hname : ob_name x = Anon k) by (rewrite (unit_anons_names ds 0 k x Hk); reflexivity).
  destruct (unit_anons_shape ds 0 x (nth_error_In _ _ Hk)) as (k' & tl & hi & sz & al & arr & ow & -> & _). cbn in Hname. injection Hname as ->.
  rewrite (flat_map_filter _ (same_name (Anon k)) prog) by (intros y _ Hy; rewrite Hy; reflexivity).
  rewrite named_anon, Hk. cbn [flat_map]. rewrite app_nil_r.
  rewrite (flat_map_nil (fun y => if same_name (Anon k) y then text_core y else []) prog).
  - unfold same_name. cbn [anon_obj_of ob_name ident_eqb]. rewrite Nat.eqb_refl.
    unfold data_core, emits_data. rewrite Hol. cbn [anon_obj_of ob_function ob_definition ob_tentative ob_static ob_tls ob_name ob_size negb andb].
    rewrite andb_false_r. unfold ev_size. cbn. rewrite Nat.eqb_refl. reflexivity.
  - intros y Hy. destruct (same_name (Anon k) y) eqn:Hn; [|reflexivity]. unfold text_core, emits_text.
    destruct (ob_function y) eqn:Hf; [|reflexivity]. pose proof (fun_user y Hy Hf) as Hu. unfold same_name in Hn. unfold anon_named in Hu.
    destruct (ob_name y); discriminate.
Qed.

Definition phi (e : event) : list anon_obj :=
  match e with
  | EDef (Anon k) p al => [mkAnon p (match ev_size (Anon k) evs with Some z => z | None => 0%Z end) (match al with Some a => a | None => 1%Z end)]
  | _ => []
  end.

Lemma phi_refs l : forallb is_ref l = true -> flat_map phi l = [].
Proof.
  induction l as [|e r IH]; intros H; [reflexivity|]. cbn [forallb] in H. apply andb_true_iff in H as [He Hr].
  cbn [flat_map]. rewrite (IH Hr). destruct e; try discriminate. reflexivity.
Qed.

Lemma phi_data x : In x prog -> flat_map phi (data_ev (fcommon o) prog x) =
  if anon_named x && owner_live prog x then [mkAnon (data_place x) (match ev_size (ob_name x) evs with Some z => z | None => 0%Z end) (eff_align x)] else [].
Proof.
  intros Hx. unfold data_ev. rewrite emit_data_obj_alt. destruct (anon_named x) eqn:Ha; cbn [andb].
  - destruct (anon_shape x (scan_globals_In _ x Hx) Ha) as (k & tl & hi & sz & al & arr & ow & ->).
    unfold emits_data. destruct (owner_live prog (anon_obj_of k tl hi sz al arr ow)); [|reflexivity].
    unfold data_place. cbn [anon_obj_of ob_function ob_definition ob_tentative ob_static ob_tls ob_init ob_rel ob_name ob_size negb andb orb].
    rewrite andb_false_r. destruct hi; reflexivity.
  - unfold anon_named in Ha. destruct (ob_name x) as [m|] eqn:En; [|discriminate].
    destruct (emits_data prog x); [|reflexivity].
    destruct (ob_static x), (fcommon o && ob_tentative x && negb (ob_tls x)), (ob_init x), (ob_tls x), (ob_rel x); reflexivity.
Qed.
Lemma phi_text x : In x prog -> flat_map phi (text_ev (fpic o) prog x) = [].
Proof.
  intros Hx. rewrite text_ev_shape. destruct (emits_text x) eqn:He; [|reflexivity].
  unfold emits_text in He. apply andb_true_iff in He as [He _]. apply andb_true_iff in He as [Hf _].
  pose proof (fun_user x Hx Hf) as Hu. unfold anon_named in Hu. destruct (ob_name x) as [m|] eqn:En; [|discriminate].
  cbn [flat_map phi app]. apply phi_refs. apply code_events_refs.
Qed.

Theorem anon_placements_model : anon_placements (emit o prog) = map anon_entry (filter (owner_live prog) U).
Proof.
  unfold anon_placements. fold evs. change (fun e => match e with
      | EDef (Anon k) p al => [mkAnon p (match ev_size (Anon k) evs with Some z => z | None => 0%Z end) (match al with Some a => a | None => 1%Z end)]
      | _ => [] end) with phi.
  unfold evs at 1. rewrite asm_emit, flat_map_app, !flat_map_flat_map.
  rewrite (flat_map_nil (fun x => flat_map phi (text_ev (fpic o) prog x)) prog) by (intros x Hx; apply phi_text; exact Hx).
  rewrite app_nil_r.
  rewrite (flat_map_ext_in _ (fun x => if anon_named x && owner_live prog x then [mkAnon (data_place x) (match ev_size (ob_name x) evs with Some z => z | None => 0%Z end) (eff_align x)] else []) prog)
    by (intros x Hx; apply phi_data; exact Hx).
  rewrite (flat_map_filter _ anon_named prog) by (intros x _ Hx; rewrite Hx; reflexivity).
  rewrite anon_prog.
  rewrite (flat_map_ext_in _ (fun x => if owner_live prog x then [anon_entry x] else []) (rev U)).
  - rewrite <- (rev_involutive (filter (owner_live prog) U)), <- filter_rev, map_rev. generalize (rev U). intros l. rewrite <- (rev_involutive (flat_map _ l)). f_equal.
    induction l as [|y r IH]; [reflexivity|]. cbn [flat_map filter]. destruct (owner_live prog y); cbn [map rev app]; rewrite ?rev_app_distr; cbn [rev app]; rewrite <- IH; reflexivity.
  - intros x Hx. apply in_rev in Hx. apply In_nth_error in Hx as (k & Hk).
    assert (Hn : ob_name x = Anon k) by (rewrite (unit_anons_names ds 0 k x Hk); reflexivity).
    assert (Ha : anon_named x = true) by (unfold anon_named; rewrite Hn; reflexivity). rewrite Ha. cbn [andb].
    destruct (owner_live prog x) eqn:Hol; [|reflexivity]. rewrite Hn, (size_of_label k x Hk Hol). reflexivity.
Qed.
End Anon.
