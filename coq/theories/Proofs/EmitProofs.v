(* C15 (package emit): the symbol table of the object file equals the one C11 6.2.2 / 6.9.2 / 6.7.4
   and the ELF conventions prescribe, for every valid translation unit; the address-formation
   decision table of gen_addr; the deviations of the C code that the theorems exclude are real. *)
From Coq Require Import List Bool Arith ZArith Lia.
From Chibicc Require Import Model.Linkage Proofs.LinkageProofs Proofs.LinkageComplete.
From Chibicc Require Import Spec.LinkSpec Model.Emit Proofs.EmitAsm Proofs.EmitParse Proofs.EmitScan Proofs.EmitLive.
Import ListNotations.

Definition to_result (e : option entry) : lookup_result := match e with Some e => Present e | None => Absent end.

Lemma filter_andb {A} (P Q : A -> bool) l : filter (fun x => P x && Q x) l = filter P (filter Q l).
Proof. induction l as [|x r IH]; [reflexivity|]. cbn [filter]. destruct (Q x), (P x) eqn:E; cbn [andb filter]; rewrite ?E, IH; reflexivity. Qed.
Lemma filter_ext_in_len {A} (P Q : A -> bool) l : (forall x, In x l -> P x = Q x) -> filter P l = filter Q l.
Proof. apply filter_ext_in. Qed.
Lemma flat_map_const {A B} (F : A -> list B) (D : A -> bool) (c : list B) l :
  (forall x, In x l -> D x = true -> F x = c) -> (forall x, In x l -> D x = false -> F x = []) ->
  flat_map F l = concat (repeat c (length (filter D l))).
Proof.
  induction l as [|x r IH]; intros H1 H2; [reflexivity|]. cbn [flat_map filter].
  rewrite IH; [|intros y Hy; apply H1; right; exact Hy|intros y Hy; apply H2; right; exact Hy].
  destruct (D x) eqn:E; [rewrite (H1 x (or_introl eq_refl) E); reflexivity|rewrite (H2 x (or_introl eq_refl) E); reflexivity].
Qed.
Lemma existsb_all_eq (b : bool) l : (forall t, In t l -> t = b) -> l <> [] -> existsb (fun t => t) l = b.
Proof.
  induction l as [|t r IH]; intros H Hn; [contradiction|]. cbn [existsb]. rewrite (H t (or_introl eq_refl)).
  destruct b; [reflexivity|]. destruct r; [reflexivity|]. apply IH; [intros u Hu; apply H; right; exact Hu|discriminate].
Qed.
Lemma length_filter_rev_map {A B} (P : B -> bool) (f : A -> B) l : length (filter P (rev (map f l))) = length (filter (fun x => P (f x)) l).
Proof.
  induction l as [|x r IH]; [reflexivity|]. cbn [map rev filter]. rewrite filter_app, app_length, IH. cbn [filter].
  destruct (P (f x)); cbn [length]; lia.
Qed.

Lemma funseq_In ds g sc il b : In (mkFD sc il b) (funseq g ds) <-> exists fsz, In (DFun g sc il fsz b) ds.
Proof.
  induction ds as [|d r IH]; [cbn; split; [tauto|intros (? & [])]|]. destruct d as [m od|m sc' il' fz b']; cbn [funseq In].
  - rewrite IH. split; intros (fsz & H); exists fsz; [right; exact H|destruct H as [H|H]; [discriminate|exact H]].
  - destruct (Nat.eqb_spec m g) as [->|Hne]; cbn [In]; rewrite IH.
    + split; [intros [H|(fsz & H)]; [injection H as -> -> ->; exists fz; left; reflexivity|exists fsz; right; exact H]|].
      intros (fsz & [H|H]); [left; injection H as -> -> _ ->; reflexivity|right; exists fsz; exact H].
    + split; intros (fsz & H); exists fsz; [right; exact H|destruct H as [H|H]; [injection H as -> _; contradiction|exact H]].
Qed.

Lemma one_body_of s : (length (filter has_body s) <= 1)%nat -> forall d b, In d s -> fd_body d = Some b -> body_of s = b.
Proof.
  induction s as [|x s IH] using rev_ind; intros H d b Hd Hb; [contradiction|].
  rewrite body_of_app. rewrite filter_app, app_length in H. cbn [filter] in H. unfold has_body at 2 in H.
  apply in_app_or in Hd as [Hd|[<-|[]]].
  - destruct (fd_body x) as [b'|] eqn:Ex.
    + cbn [length] in H. assert (Hz : length (filter has_body s) = 0%nat) by lia.
      pose proof (length_filter_zero has_body s Hz d Hd) as Hf. unfold has_body in Hf. rewrite Hb in Hf. discriminate.
    + apply (IH ltac:(cbn [length] in H; lia) d b Hd Hb).
  - rewrite Hb. reflexivity.
Qed.

Section Main.
Variable ds : list decl.
Hypothesis Hvalid : valid ds = true.
Hypothesis HkbS : kb_extern_init_static ds = false.
Variable live : nat -> bool.
Hypothesis Hlive : live_ok ds live.
Variable o : opts.

Let Gs := G ds.
Let M := mark Gs.
Let prog := parse_flags ds.
Let I := Ginv ds Hvalid.

Lemma prog_eq : prog = scan_globals M. Proof. reflexivity. Qed.
Lemma prog_M x : In x prog -> In x M. Proof. apply scan_globals_In. Qed.
Lemma M_In x : In x M <-> exists y, In y Gs /\ x = mark_one Gs y.
Proof. unfold M. rewrite mark_map, in_map_iff. split; intros (y & H1 & H2); exists y; [split; [exact H2|symmetry; exact H1]|split; [symmetry; exact H2|exact H1]]. Qed.

Lemma M_classified x : In x M -> classified ds x.
Proof.
  intros H. apply M_In in H as (y & Hy & ->). pose proof (inv_cl _ _ _ _ I y Hy) as [(n & od & a & Hin & ->)|[Ha|(Hf & Ht & Hr & Hi & g & Hg)]].
  - left. exists n, od, a. split; [exact Hin|]. apply mark_one_nonfun. reflexivity.
  - right. left. assert (E : mark_one Gs y = y).
    { pose proof Ha as Ha'. unfold mark_one. unfold is_anon_obj in Ha'. destruct (ob_name y); [discriminate|reflexivity]. }
    rewrite E. exact Ha.
  - right. right. unfold mark_one. rewrite Hg, Hf. cbn. repeat split; try assumption. exists g. exact Hg.
Qed.

Lemma M_fun g : filter (is_fun_named g) M = map (mark_one Gs) (filter (is_fun_named g) Gs).
Proof.
  unfold M. rewrite mark_map. apply filter_map_comm. intros x. unfold is_fun_named. destruct (mark_one_keeps Gs x) as (-> & -> & _). reflexivity.
Qed.
Lemma M_obj n : filter (objP n) M = rev (acc_objs n None (objseq n ds)).
Proof.
  unfold M. rewrite mark_map, <- (inv_g1 _ _ _ _ I n). apply filter_map_fix.
  - intros x Hx. apply mark_one_nonfun. unfold objP in Hx. apply andb_true_iff in Hx as [_ Hx]. destruct (ob_function x); [discriminate|reflexivity].
  - intros x. unfold objP, same_name. destruct (mark_one_keeps Gs x) as (-> & -> & _). reflexivity.
Qed.

Lemma fun_not_tentative x : In x M -> ob_function x = true -> ob_tentative x = false.
Proof.
  intros Hx Hf. destruct (M_classified x Hx) as [(n & od & a & _ & ->)|[Ha|(_ & Ht & _)]]; [discriminate| |exact Ht].
  unfold is_anon_obj in Ha. destruct (ob_name x); [discriminate|]. rewrite Hf in Ha. discriminate.
Qed.

Lemma prog_nt : filter nt prog = filter nt M. Proof. apply real_definitions_kept. Qed.
Lemma prog_fun g : filter (is_fun_named g) prog = filter (is_fun_named g) M.
Proof.
  rewrite (filter_filter_sub (is_fun_named g) nt prog), (filter_filter_sub (is_fun_named g) nt M), prog_nt; [reflexivity| |].
  - intros x Hx Hn. unfold nt. unfold is_fun_named in Hn. apply andb_true_iff in Hn as [Hf _]. rewrite (fun_not_tentative x Hx Hf). reflexivity.
  - intros x Hx Hn. unfold nt. unfold is_fun_named in Hn. apply andb_true_iff in Hn as [Hf _]. rewrite (fun_not_tentative x (prog_M x Hx) Hf). reflexivity.
Qed.
Lemma nt_in_prog x : In x M -> ob_tentative x = false -> In x prog.
Proof.
  intros Hx Ht. assert (H : In x (filter nt M)) by (apply filter_In; split; [exact Hx|unfold nt; rewrite Ht; reflexivity]).
  rewrite <- prog_nt in H. apply filter_In in H as [H _]. exact H.
Qed.

(* the marked function object of a function name *)
Lemma prog_fun_obj g d1 s' : funseq g ds = d1 :: s' ->
  exists fo, filter (is_fun_named g) prog = [set_live (live g) fo] /\ flagsA g (d1 :: s') (existsb has_body (d1 :: s')) (addr_taken_at_file_scope ds g) fo
             /\ urefs (ob_body fo) = ubody (kt ds) (body_of (d1 :: s')).
Proof.
  intros E. destruct (fun_obj ds Hvalid g d1 s' E) as (fo & Ef & FA & _ & FB). exists fo. split; [|split; assumption].
  rewrite prog_fun, M_fun. fold Gs in Ef. rewrite Ef. cbn [map].
  assert (Hn : is_fun_named g fo = true).
  { assert (H : In fo (filter (is_fun_named g) Gs)) by (rewrite Ef; left; reflexivity). apply filter_In in H as [_ H]. exact H. }
  rewrite (mark_one_fun Gs g fo Hn). unfold Gs. rewrite (model_live_eq ds Hvalid live g Hlive). reflexivity.
Qed.
Lemma prog_no_fun g : funseq g ds = [] -> filter (is_fun_named g) prog = [].
Proof. intros E. rewrite prog_fun, M_fun. unfold Gs. rewrite (no_fun_obj ds Hvalid g E). reflexivity. Qed.

(* what an object of the program that carries the name n is *)
Lemma named_in_prog n x : In x prog -> same_name (User n) x = true ->
  (ob_function x = false /\ exists od a, In od (objseq n ds) /\ x = obj_of_decl n od a) \/ (is_fun_named n x = true /\ funseq n ds <> []).
Proof.
  intros Hx Hn. pose proof (prog_M x Hx) as HM. destruct (M_classified x HM) as [(m & od & a & Hin & ->)|[Ha|(Hf & _ & _ & _ & g & Hg)]].
  - left. unfold same_name in Hn. cbn in Hn. apply Nat.eqb_eq in Hn. subst m. split; [reflexivity|]. exists od, a. split; [apply objseq_In; exact Hin|reflexivity].
  - unfold is_anon_obj in Ha. unfold same_name in Hn. destruct (ob_name x); [discriminate|discriminate].
  - right. assert (Hfn : is_fun_named n x = true) by (unfold is_fun_named; rewrite Hf; exact Hn). split; [exact Hfn|].
    intros E. pose proof (prog_no_fun n E) as H0. assert (H : In x (filter (is_fun_named n) prog)) by (apply filter_In; split; assumption).
    rewrite H0 in H. contradiction.
Qed.

(* ---------- references ---------- *)
Lemma decl_body g sc il fsz b : In (DFun g sc il fsz (Some b)) ds ->
  funseq g ds <> [] /\ body_of (funseq g ds) = b /\ existsb has_body (funseq g ds) = true.
Proof.
  intros Hin. assert (Hs : In (mkFD sc il (Some b)) (funseq g ds)) by (apply funseq_In; exists fsz; exact Hin).
  split; [intros E; rewrite E in Hs; contradiction|]. split.
  - pose proof (V_funseq ds Hvalid g) as V. unfold valid_funseq in V. apply andb_true_iff in V as [_ V]. apply Nat.leb_le in V.
    apply (one_body_of _ V _ b Hs). reflexivity.
  - apply existsb_exists. exists (mkFD sc il (Some b)). split; [exact Hs|reflexivity].
Qed.
Lemma body_decl g : existsb has_body (funseq g ds) = true ->
  exists sc il fsz b, In (DFun g sc il fsz (Some b)) ds /\ body_of (funseq g ds) = b.
Proof.
  intros H. apply existsb_exists in H as ([sc il [b|]] & Hd & Hb); [|discriminate].
  apply funseq_In in Hd as (fsz & Hd). exists sc, il, fsz, b. split; [exact Hd|]. apply (decl_body g sc il fsz b Hd).
Qed.

Lemma ref_flags_urefs n body : flat_map (ref_flags (User n)) body = flat_map (ref_flags (User n)) (urefs body).
Proof.
  induction body as [|r rest IH]; [reflexivity|]. unfold urefs in *. cbn [flat_map filter]. destruct r; cbn [flat_map]; rewrite IH; reflexivity.
Qed.
Lemma ubody_flags n items t :
  In t (flat_map (ref_flags (User n)) (ubody (kt ds) items)) <-> t = snd (kt ds n) /\ existsb (refs_item n) items = true.
Proof.
  induction items as [|i r IH]; [cbn; split; [tauto|intros [_ H]; discriminate]|].
  destruct i as [m|tl sz al ar hi|sz].
  - change (ubody (kt ds) (BRef m :: r)) with ((if fst (kt ds m) then RFun m else RObj m (snd (kt ds m))) :: ubody (kt ds) r).
    assert (E : ref_flags (User n) (if fst (kt ds m) then RFun m else RObj m (snd (kt ds m))) = if Nat.eqb m n then [snd (kt ds n)] else []).
    { unfold kt. destruct (is_fun_name ds m) eqn:Ef; cbn [fst snd ref_flags ident_eqb]; rewrite (Nat.eqb_sym n m);
        destruct (Nat.eqb_spec m n) as [->|]; rewrite ?Ef; reflexivity. }
    cbn [flat_map existsb refs_item]. rewrite in_app_iff, IH, E. destruct (Nat.eqb m n); cbn [In orb]; [|tauto].
    split; [intros [[H|[]]|[H _]]; auto|intros [-> _]; left; left; reflexivity].
  - change (ubody (kt ds) (BStatic tl sz al ar hi :: r)) with (ubody (kt ds) r). cbn [existsb refs_item orb]. exact IH.
  - change (ubody (kt ds) (BString sz :: r)) with (ubody (kt ds) r). cbn [existsb refs_item orb]. exact IH.
Qed.

Definition rs (n : nat) : list bool := flat_map (data_refs (fcommon o) prog (User n)) prog ++ flat_map (text_refs (User n)) prog.

Lemma kt_obj_addr m od n : In (DObj m od) ds -> o_init od = IAddr n -> snd (kt ds n) = false.
Proof.
  intros Hin Hi. unfold kt. destruct (is_fun_name ds n); [reflexivity|]. cbn [snd].
  pose proof (V_misc ds Hvalid (DObj m od) Hin) as H. cbn in H. rewrite Hi in H. exact H.
Qed.

Lemma refs_sound n t : In t (rs n) -> t = snd (kt ds n) /\ referenced live ds n = true.
Proof.
  unfold rs. intros H. apply in_app_or in H as [H|H]; apply in_flat_map in H as (x & Hx & Ht).
  - (* data *)
    unfold data_refs in Ht. destruct (emits_data prog x && negb (fcommon o && ob_tentative x && negb (ob_tls x)) && ob_init x); [|contradiction].
    destruct (ob_rel x) as [t'|] eqn:Er; [|contradiction]. cbn [ident_eqb] in Ht. destruct (Nat.eqb_spec n t') as [<-|]; [|contradiction].
    destruct Ht as [<-|[]].
    destruct (M_classified x (prog_M x Hx)) as [(m & od & a & Hin & ->)|[Ha|(_ & _ & Hr & _)]].
    + cbn in Er. destruct (o_init od) as [| |t'] eqn:Ei; try discriminate. injection Er as ->. split; [symmetry; eapply kt_obj_addr; eassumption|].
      apply existsb_exists. exists (DObj m od). split; [exact Hin|]. rewrite Ei. apply Nat.eqb_refl.
    + unfold is_anon_obj in Ha. destruct (ob_name x); [discriminate|]. rewrite Er in Ha. rewrite andb_false_r in Ha. discriminate.
    + congruence.
  - (* text *)
    unfold text_refs in Ht. destruct (emits_text x) eqn:Ee; [|contradiction]. unfold emits_text in Ee.
    apply andb_true_iff in Ee as [Ee El]. apply andb_true_iff in Ee as [Ef Ed].
    destruct (M_classified x (prog_M x Hx)) as [(m & od & a & _ & ->)|[Ha|(_ & _ & _ & _ & g & Hg)]]; [discriminate| |].
    { unfold is_anon_obj in Ha. destruct (ob_name x); [discriminate|]. rewrite Ef in Ha. discriminate. }
    assert (Hn : same_name (User g) x = true) by (unfold same_name; rewrite Hg; apply ident_eqb_refl).
    destruct (named_in_prog g x Hx Hn) as [[Hnf _]|[Hfn Hs]]; [congruence|].
    destruct (funseq g ds) as [|d1 s'] eqn:E; [contradiction|].
    destruct (prog_fun_obj g d1 s' E) as (fo & Efo & FA & FB).
    assert (Hin : In x (filter (is_fun_named g) prog)) by (apply filter_In; split; assumption).
    rewrite Efo in Hin. destruct Hin as [<-|[]]. cbn [set_live ob_body ob_definition ob_live] in *.
    rewrite ref_flags_urefs, FB in Ht. apply ubody_flags in Ht as [-> Hb]. split; [reflexivity|].
    destruct FA as (_ & _ & _ & _ & A5 & _). rewrite A5 in Ed. rewrite <- E in Ed. apply body_decl in Ed as (sc & il & fsz & b & Hin & Eb).
    apply existsb_exists. exists (DFun g sc il fsz (Some b)). split; [exact Hin|]. rewrite El. cbn [andb]. rewrite <- Eb, E. exact Hb.
Qed.

Lemma refs_complete n : referenced live ds n = true -> rs n <> [].
Proof.
  intros H. unfold referenced in H. apply existsb_exists in H as (d & Hd & Hm).
  assert (Hne : forall t, In t (rs n) -> rs n <> []) by (intros t Ht E; rewrite E in Ht; contradiction).
  destruct d as [m od|g sc il fsz [b|]]; [| |discriminate].
  - destruct (o_init od) as [| |t'] eqn:Ei; try discriminate. apply Nat.eqb_eq in Hm. subst t'.
    destruct (acc_objs_In_conv m (objseq m ds) od None (proj2 (objseq_In m ds od) Hd)) as (a & Ha).
    apply (Hne false). unfold rs. apply in_or_app. left. apply in_flat_map. exists (obj_of_decl m od a).
    assert (HM : In (obj_of_decl m od a) M).
    { assert (H : In (obj_of_decl m od a) (filter (objP m) M)) by (rewrite M_obj; apply in_rev; rewrite rev_involutive; exact Ha).
      apply filter_In in H as [H _]. exact H. }
    split; [apply nt_in_prog; [exact HM|cbn; rewrite Ei; reflexivity]|].
    unfold data_refs, emits_data, owner_live. cbn [obj_of_decl ob_function ob_definition ob_tentative ob_tls ob_init ob_rel ob_owner].
    rewrite Ei. cbn [has_init negb andb]. rewrite orb_true_r. cbn [negb andb].
    rewrite andb_false_r. cbn [negb andb ident_eqb]. rewrite Nat.eqb_refl. left. reflexivity.
  - apply andb_true_iff in Hm as [Hl Hb]. destruct (decl_body g sc il fsz b Hd) as (Hs & Eb & Hhb).
    destruct (funseq g ds) as [|d1 s'] eqn:E; [contradiction|].
    destruct (prog_fun_obj g d1 s' E) as (fo & Efo & FA & FB).
    apply (Hne (snd (kt ds n))). unfold rs. apply in_or_app. right. apply in_flat_map. exists (set_live (live g) fo). split.
    + assert (Hin : In (set_live (live g) fo) (filter (is_fun_named g) prog)) by (rewrite Efo; left; reflexivity). apply filter_In in Hin as [Hin _]. exact Hin.
    + unfold text_refs, emits_text. destruct FA as (_ & A2 & _ & _ & A5 & _). cbn [set_live ob_function ob_definition ob_live ob_body].
      rewrite A2, A5, Hhb, Hl. cbn [andb]. rewrite ref_flags_urefs, FB. apply ubody_flags. split; [reflexivity|]. rewrite Eb. exact Hb.
Qed.

Lemma referenced_declared n : referenced live ds n = true -> In n (map decl_name ds).
Proof.
  intros H. unfold referenced in H. apply existsb_exists in H as (d & Hd & Hm).
  destruct (in_split d ds Hd) as (p & q & E). pose proof (V_step_ok ds Hvalid p d q E) as Hok.
  assert (Hsub : forall t, In t (map decl_name (p ++ [d])) -> In t (map decl_name ds)).
  { intros t Ht. rewrite E. rewrite map_app in *. apply in_app_or in Ht as [Ht|[<-|[]]]; apply in_or_app; [left; exact Ht|right; left; reflexivity]. }
  destruct d as [m od|g sc il fsz [b|]]; [| |discriminate]; cbn [step_ok] in Hok.
  - destruct (o_init od) as [| |t'] eqn:Ei; try discriminate. apply Nat.eqb_eq in Hm. subst t'. destruct Hok as (_ & _ & _ & Hok). apply Hsub. apply (proj1 (Hok n eq_refl)).
  - apply andb_true_iff in Hm as [_ Hb]. apply existsb_exists in Hb as (i & Hi & Hm). destruct i as [m| |]; try discriminate. cbn in Hm. apply Nat.eqb_eq in Hm. subst m.
    destruct Hok as (_ & _ & Hok). apply Hsub. apply (Hok b n eq_refl Hi).
Qed.

Lemma referenced_fun_live n : is_fun_name ds n = true -> referenced live ds n = true -> live n = true.
Proof.
  intros Hf H. unfold referenced in H. apply existsb_exists in H as (d & Hd & Hm).
  destruct d as [m od|g sc il fsz [b|]]; [| |discriminate].
  - destruct (o_init od) as [| |t'] eqn:Ei; try discriminate. apply Nat.eqb_eq in Hm. subst t'. apply Hlive. apply em_addr; [exact Hf|].
    apply existsb_exists. exists (DObj m od). split; [exact Hd|]. rewrite Ei. apply Nat.eqb_refl.
  - apply andb_true_iff in Hm as [Hl Hb]. apply Hlive. apply Hlive in Hl. destruct (decl_body g sc il fsz b Hd) as (_ & Eb & _).
    apply (em_ref ds g n Hl); [rewrite Eb; exact Hb|exact Hf].
Qed.

(* ---------- the table entry ---------- *)
Definition Dc (n : nat) : list event := flat_map (fun x => if same_name (User n) x then data_core (fcommon o) prog x else []) prog.
Definition Tc (n : nat) : list event := flat_map (fun x => if same_name (User n) x then text_core x else []) prog.

Lemma lookup_form n : symtab_of (emit o prog) n = look (User n) (Dc n ++ Tc n) (rs n).
Proof. unfold symtab_of. apply symtab_closed_form. Qed.

Lemma look_nodef n :
  look (User n) [] (rs n) =
  if referenced live ds n then Present (mkEntry B_global (if snd (kt ds n) then T_tls else T_notype) P_undef None None) else Absent.
Proof.
  unfold look. cbn [ev_defs filter]. destruct (rs n) as [|t l] eqn:E.
  - destruct (referenced live ds n) eqn:R; [|reflexivity]. exfalso. apply (refs_complete n R). exact E.
  - assert (Ht : In t (rs n)) by (rewrite E; left; reflexivity). destruct (refs_sound n t Ht) as [_ R]. rewrite R.
    rewrite (existsb_all_eq (snd (kt ds n)) (t :: l)); [reflexivity| |discriminate].
    intros u Hu. rewrite <- E in Hu. apply (refs_sound n u Hu).
Qed.

Lemma names_cases n : In n (map decl_name ds) -> objseq n ds <> [] \/ funseq n ds <> [].
Proof.
  clear. induction ds as [|d r IH]; [intros []|]. intros [<-|H].
  - destruct d; cbn [decl_name objseq funseq]; rewrite Nat.eqb_refl; [left|right]; discriminate.
  - destruct (IH H) as [H1|H1]; [left|right].
    + destruct d as [m od|m ? ? ? ?]; cbn [objseq]; [destruct (Nat.eqb m n); [discriminate|exact H1]|exact H1].
    + destruct d as [m od|m ? ? ? ?]; cbn [funseq]; [exact H1|destruct (Nat.eqb m n); [discriminate|exact H1]].
Qed.

Lemma Dc_fun n : objseq n ds = [] -> Dc n = [].
Proof.
  intros E. unfold Dc. apply flat_map_nil. intros x Hx. destruct (same_name (User n) x) eqn:Hn; [|reflexivity].
  destruct (named_in_prog n x Hx Hn) as [[_ (od & a & Hod & _)]|[Hf _]]; [rewrite E in Hod; contradiction|].
  unfold data_core, emits_data. unfold is_fun_named in Hf. apply andb_true_iff in Hf as [-> _]. reflexivity.
Qed.
Lemma Tc_obj n : funseq n ds = [] -> Tc n = [].
Proof.
  intros E. unfold Tc. apply flat_map_nil. intros x Hx. destruct (same_name (User n) x) eqn:Hn; [|reflexivity].
  destruct (named_in_prog n x Hx Hn) as [[Hf _]|[_ Hs]]; [|contradiction]. unfold text_core, emits_text. rewrite Hf. reflexivity.
Qed.
Lemma Tc_fun n d1 s' : funseq n ds = d1 :: s' ->
  exists fo, Tc n = text_core (set_live (live n) fo) /\ flagsA n (d1 :: s') (existsb has_body (d1 :: s')) (addr_taken_at_file_scope ds n) fo.
Proof.
  intros E. destruct (prog_fun_obj n d1 s' E) as (fo & Efo & FA & _). exists fo. split; [|exact FA].
  unfold Tc. rewrite (flat_map_filter _ (is_fun_named n) prog).
  - rewrite Efo. cbn [flat_map]. rewrite app_nil_r. unfold same_name. destruct FA as (A1 & _). cbn [set_live ob_name]. rewrite A1, ident_eqb_refl. reflexivity.
  - intros x _ Hn. destruct (same_name (User n) x) eqn:Hs; [|reflexivity]. unfold is_fun_named in Hn. pose proof Hs as Hs'. unfold same_name in Hs'. rewrite Hs', andb_true_r in Hn.
    unfold text_core, emits_text. rewrite Hn. reflexivity.
Qed.

Lemma look_text n b l : look (User n) [EBind (User n) b; EType (User n) T_func; EDef (User n) P_text None] l = Present (mkEntry b T_func P_text None None).
Proof. unfold look, ev_defs, ev_stype, ev_binding, ev_size. cbn. rewrite Nat.eqb_refl. reflexivity. Qed.

Theorem entry_of_function n d1 s' : funseq n ds = d1 :: s' -> symtab_of (emit o prog) n = to_result (spec_entry live ds o n).
Proof.
  intros E. assert (Eo : objseq n ds = []) by (apply (V_kind ds Hvalid); rewrite E; discriminate).
  assert (Hfn : is_fun_name ds n = true) by (unfold is_fun_name; rewrite E; reflexivity).
  assert (Hkt : snd (kt ds n) = false) by (unfold kt; rewrite Hfn; reflexivity).
  rewrite lookup_form, (Dc_fun n Eo). cbn [app]. destruct (Tc_fun n d1 s' E) as (fo & -> & FA).
  unfold spec_entry. rewrite E. cbn [fun_entry]. change (has_body d1 || existsb has_body s') with (existsb has_body (d1 :: s')).
  pose proof (V_funseq ds Hvalid n) as V. rewrite E in V.
  pose proof (static_model d1 s' V) as SM. pose proof V as V'. unfold valid_funseq in V'. apply andb_true_iff in V' as [V' _].
  destruct (link_first _ d1 s' V') as [LF _]. cbn beta in LF. fold (fun_linkage (d1 :: s')) in LF.
  destruct FA as (A1 & A2 & A3 & A4 & A5 & _). unfold text_core, emits_text. cbn [set_live ob_function ob_definition ob_live ob_name ob_static].
  rewrite A1, A2, A3, A5. cbn [andb].
  destruct (existsb has_body (d1 :: s')) eqn:Hb; cbn [andb].
  - destruct (live n) eqn:Hl.
    + rewrite look_text. rewrite SM. unfold is_internal. rewrite LF. destruct (fun_link_step None (fd_sc d1)); cbn [orb]; [|reflexivity].
      destruct (inline_definition_only (d1 :: s')); reflexivity.
    + rewrite look_nodef. destruct (referenced live ds n) eqn:R; [rewrite (referenced_fun_live n Hfn R) in Hl; discriminate|].
      rewrite LF. destruct (fun_link_step None (fd_sc d1)) eqn:Ek; [|reflexivity]. destruct (inline_definition_only (d1 :: s')) eqn:Ei; [reflexivity|].
      exfalso. assert (Hem : emitted_fun ds n).
      { apply em_always; [exact Hfn|]. rewrite E. unfold skippable. rewrite LF, Ei. apply andb_false_r. }
      apply Hlive in Hem. congruence.
  - rewrite look_nodef, Hkt. destruct (referenced live ds n); reflexivity.
Qed.

Theorem entry_of_undeclared n : funseq n ds = [] -> objseq n ds = [] -> symtab_of (emit o prog) n = to_result (spec_entry live ds o n).
Proof.
  intros Ef Eo. rewrite lookup_form, (Dc_fun n Eo), (Tc_obj n Ef). cbn [app]. rewrite look_nodef.
  unfold spec_entry. rewrite Ef, Eo. cbn [obj_entry to_result]. destruct (referenced live ds n) eqn:R; [|reflexivity].
  exfalso. destruct (names_cases n (referenced_declared n R)) as [H|H]; contradiction.
Qed.

(* ---------- objects ---------- *)
Lemma length_filter_le1 {A} (P : A -> bool) l : (length (filter P l) <= 1)%nat -> length (filter P l) = if existsb P l then 1%nat else 0%nat.
Proof.
  intros H. destruct (existsb P l) eqn:E.
  - apply existsb_exists in E as (x & Hx & Hp). pose proof (In_filter_length P l x Hx Hp). lia.
  - destruct (filter P l) as [|x r] eqn:Ef; [reflexivity|]. assert (Hx : In x (filter P l)) by (rewrite Ef; left; reflexivity).
    apply filter_In in Hx as [Hx Hp]. assert (existsb P l = true) by (apply existsb_exists; exists x; split; assumption). congruence.
Qed.
Lemma length_filter_pos {A} (P : A -> bool) l : Nat.eqb (length (filter P l)) 0 = negb (existsb P l).
Proof. induction l as [|x r IH]; [reflexivity|]. cbn [filter existsb]. destruct (P x); [reflexivity|exact IH]. Qed.

Section Obj.
Variable n : nat.
Variable od1 : objdecl.
Variable os' : list objdecl.
Hypothesis Eo : objseq n ds = od1 :: os'.
Hypothesis Ef : funseq n ds = [].

Let k := obj_link_step None (o_sc od1).
Let A := obj_align (od1 :: os').
Let al := abi_align (o_array od1) (o_size od1) A.
Let hasreal := existsb is_real_def (od1 :: os').
Let hastent := existsb is_tentative_def (od1 :: os').

Lemma Vseq : valid_objseq (od1 :: os') = true.
Proof. rewrite <- Eo. apply (V_objseq ds Hvalid). Qed.

Lemma obj_link : obj_linkage (od1 :: os') = Some k /\ forall x, In x os' -> obj_link_step (Some k) (o_sc x) = k.
Proof.
  pose proof Vseq as V. unfold valid_objseq in V.
  apply andb_true_iff in V as [V _]. apply andb_true_iff in V as [V _]. apply andb_true_iff in V as [V _]. apply andb_true_iff in V as [_ V].
  destruct (link_first _ od1 os' V) as [L1 L2]. cbn beta in L1, L2. split; [exact L1|exact L2].
Qed.
Lemma sc_static od : In od (od1 :: os') -> is_defining od = true -> sc_eqb (o_sc od) SC_static = lk_eqb k L_internal.
Proof.
  intros Hin Hd. destruct (sc_eqb (o_sc od) SC_extern) eqn:He.
  - (* `extern` with an initializer: global; the linkage is not internal (kb_extern_init_static) *)
    unfold is_defining in Hd. rewrite He in Hd. cbn in Hd.
    pose proof (V_kbS ds HkbS n od) as K. rewrite Eo in K. specialize (K Hin He Hd). destruct obj_link as [L1 _]. rewrite L1 in K.
    destruct (o_sc od); try discriminate. destruct k; [reflexivity|contradiction].
  - destruct Hin as [<-|Hin].
    + unfold k. destruct (o_sc od1); try discriminate; reflexivity.
    + destruct obj_link as [_ L2]. specialize (L2 od Hin). destruct (o_sc od); try discriminate; cbn in L2; rewrite <- L2; reflexivity.
Qed.

Definition dc (hi : bool) : list event :=
  EBind (User n) (if lk_eqb k L_internal then B_local else B_global) ::
  if fcommon o && negb hi && negb (o_tls od1) then [EComm (User n) (o_size od1) al]
  else [EType (User n) T_object; ESize (User n) (o_size od1);
        EDef (User n) (if hi then (if o_tls od1 then P_tdata else P_data) else (if o_tls od1 then P_tbss else P_bss)) (Some al)].

Lemma data_core_decl od : In od (od1 :: os') -> is_defining od = true ->
  data_core (fcommon o) prog (obj_of_decl n od A) = dc (has_init (o_init od)).
Proof.
  intros Hin Hd. destruct (V_same_type ds Hvalid n od1 os' od Eo Hin) as (T1 & T2 & T3 & T4).
  unfold data_core, emits_data, owner_live, data_place, eff_align, dc, al, abi_align.
  cbn [obj_of_decl ob_name ob_function ob_definition ob_static ob_tentative ob_tls ob_init ob_size ob_align ob_array ob_owner].
  unfold is_defining in Hd. rewrite Hd, (sc_static od Hin Hd), T1, T2, T4. cbn [negb andb].
  destruct (has_init (o_init od)) eqn:Hi; cbn [negb andb]; [reflexivity|].
  rewrite orb_false_r in Hd. apply negb_true_iff in Hd. rewrite Hd. reflexivity.
Qed.

Lemma decl_in od : In od (od1 :: os') -> In (DObj n od) ds.
Proof. intros H. apply objseq_In. rewrite Eo. exact H. Qed.

Lemma obj_in_M od : In od (od1 :: os') -> exists a, In (obj_of_decl n od a) M.
Proof.
  intros H. destruct (acc_objs_In_conv n (od1 :: os') od None H) as (a & Ha). exists a.
  assert (H' : In (obj_of_decl n od a) (filter (objP n) M)) by (rewrite M_obj, Eo; apply in_rev; rewrite rev_involutive; exact Ha).
  apply filter_In in H' as [H' _]. exact H'.
Qed.

(* an object of M that carries the name n: one of the declarations, with the alignment carried so far -
   the alignment of the object whenever the declaration is a definition *)
Lemma named_obj_M x : In x M -> same_name (User n) x = true ->
  exists od a, In od (od1 :: os') /\ x = obj_of_decl n od a /\ (is_defining od = true -> a = A).
Proof.
  intros Hx Hn. assert (Hnf : ob_function x = false).
  { destruct (ob_function x) eqn:Hf; [|reflexivity]. exfalso.
    assert (Hfn : is_fun_named n x = true) by (unfold is_fun_named; rewrite Hf; exact Hn).
    assert (H : In x (filter (is_fun_named n) M)) by (apply filter_In; split; assumption).
    rewrite M_fun in H. unfold Gs in H. rewrite (no_fun_obj ds Hvalid n Ef) in H. contradiction. }
  assert (H : In x (filter (objP n) M)) by (apply filter_In; split; [exact Hx|unfold objP; rewrite Hn, Hnf; reflexivity]).
  rewrite M_obj, Eo in H. apply in_rev in H. apply (acc_align_valid n od1 os' Vseq x H).
Qed.
Lemma named_obj x : In x prog -> same_name (User n) x = true ->
  exists od a, In od (od1 :: os') /\ x = obj_of_decl n od a /\ (is_defining od = true -> a = A).
Proof. intros Hx. apply named_obj_M. apply prog_M. exact Hx. Qed.

Lemma has_real_M : has_real M (User n) = hasreal.
Proof.
  unfold has_real, hasreal. destruct (existsb is_real_def (od1 :: os')) eqn:E.
  - apply existsb_exists in E as (od & Hin & Hr). destruct (obj_in_M od Hin) as (a & Ha). apply existsb_exists. exists (obj_of_decl n od a). split; [exact Ha|].
    unfold realP, same_name, is_real_def in *. cbn [obj_of_decl ob_definition ob_tentative ob_name ident_eqb].
    rewrite Hr, Nat.eqb_refl, orb_true_r. reflexivity.
  - destruct (existsb (realP (User n)) M) eqn:E2; [|reflexivity]. apply existsb_exists in E2 as (x & Hx & Hr).
    unfold realP in Hr. apply andb_true_iff in Hr as [Hr Hn]. apply andb_true_iff in Hr as [Hd Ht].
    destruct (named_obj_M x Hx Hn) as (od & a & Hin & -> & _). cbn [obj_of_decl ob_definition ob_tentative] in Hd, Ht.
    assert (Hreal : is_real_def od = true).
    { unfold is_real_def. destruct (has_init (o_init od)); [reflexivity|]. cbn in Ht, Hd. rewrite orb_false_r in Hd. rewrite Hd in Ht. discriminate. }
    assert (existsb is_real_def (od1 :: os') = true) by (apply existsb_exists; exists od; split; assumption). congruence.
Qed.

Lemma cnt_M : cnt (User n) M = length (filter is_tentative_def (od1 :: os')).
Proof.
  unfold cnt. rewrite (filter_filter_sub (tn (User n)) (objP n) M).
  - rewrite M_obj, Eo. apply acc_filter_len. intros od a. unfold tn, same_name, is_tentative_def.
    cbn [obj_of_decl ob_tentative ob_name ident_eqb]. rewrite Nat.eqb_refl, andb_true_r. reflexivity.
  - intros x Hx Ht. unfold tn in Ht. apply andb_true_iff in Ht as [Ht Hn]. unfold objP. rewrite Hn. cbn [andb].
    destruct (ob_function x) eqn:Hf; [|reflexivity]. rewrite (fun_not_tentative x Hx Hf) in Ht. discriminate.
Qed.

Lemma cnt_prog : cnt (User n) prog = if hasreal then 0%nat else if hastent then 1%nat else 0%nat.
Proof.
  rewrite prog_eq, tentative_merged, has_real_M, cnt_M. destruct hasreal; [reflexivity|]. rewrite length_filter_pos. fold hastent. destruct hastent; reflexivity.
Qed.

Definition Dn (x : obj) : bool := same_name (User n) x && emits_data prog x.

Lemma count_defs : length (filter Dn prog) = if hasreal then 1%nat else if hastent then 1%nat else 0%nat.
Proof.
  rewrite (filter_length_split Dn ob_tentative prog).
  assert (E1 : length (filter (fun x => Dn x && negb (ob_tentative x)) prog) = if hasreal then 1%nat else 0%nat).
  { change (fun x => Dn x && negb (ob_tentative x)) with (fun x => Dn x && nt x). rewrite filter_andb, prog_nt, <- filter_andb.
    rewrite (filter_filter_sub _ (objP n) M).
    - rewrite M_obj, Eo.
      rewrite (acc_filter_len (fun x => Dn x && nt x) is_real_def n).
      + apply length_filter_le1. pose proof Vseq as V. unfold valid_objseq in V.
        apply andb_true_iff in V as [V _]. apply andb_true_iff in V as [V _]. apply andb_true_iff in V as [_ V]. apply Nat.leb_le in V. exact V.
      + intros od a. unfold Dn, nt, same_name, emits_data, owner_live, is_real_def. cbn [obj_of_decl ob_name ob_function ob_definition ob_tentative ob_owner ident_eqb].
        rewrite Nat.eqb_refl. cbn [negb andb]. destruct (has_init (o_init od)), (sc_eqb (o_sc od) SC_extern); reflexivity.
    - intros x _ H. apply andb_true_iff in H as [H _]. unfold Dn in H. apply andb_true_iff in H as [Hn He]. unfold objP. rewrite Hn.
      unfold emits_data in He. apply andb_true_iff in He as [He _]. apply andb_true_iff in He as [He _]. rewrite He. reflexivity. }
  assert (E2 : length (filter (fun x => Dn x && ob_tentative x) prog) = cnt (User n) prog).
  { unfold cnt. f_equal. apply filter_ext_in. intros x Hx. unfold Dn, tn. destruct (same_name (User n) x) eqn:Hn; [|rewrite andb_false_r; reflexivity].
    destruct (ob_tentative x) eqn:Ht; [|rewrite andb_false_r; reflexivity]. cbn [andb]. rewrite andb_true_r.
    destruct (named_obj x Hx Hn) as (od & a & _ & -> & _). unfold emits_data, owner_live. cbn [obj_of_decl ob_function ob_definition ob_tentative ob_owner] in *.
    apply andb_true_iff in Ht as [_ Ht]. rewrite Ht. reflexivity. }
  rewrite E1, E2, cnt_prog. destruct hasreal; [reflexivity|]. destruct hastent; reflexivity.
Qed.

Lemma Dc_obj : Dc n = if hasreal then dc true else if hastent then dc false else [].
Proof.
  unfold Dc. rewrite (flat_map_const _ Dn (dc hasreal) prog).
  - rewrite count_defs. destruct hasreal; cbn [repeat concat]; [apply app_nil_r|]. destruct hastent; cbn [repeat concat]; [apply app_nil_r|reflexivity].
  - intros x Hx HD. unfold Dn in HD. apply andb_true_iff in HD as [Hn He]. rewrite Hn.
    destruct (named_obj x Hx Hn) as (od & a & Hin & -> & Ha).
    assert (Hext : is_defining od = true).
    { unfold emits_data, owner_live in He. cbn [obj_of_decl ob_function ob_definition ob_owner] in He. cbn [negb andb] in He. rewrite andb_true_r in He. exact He. }
    rewrite (Ha Hext), (data_core_decl od Hin Hext). f_equal. destruct (has_init (o_init od)) eqn:Hi.
    + symmetry. apply existsb_exists. exists od. split; [exact Hin|exact Hi].
    + (* a tentative object survived, so there is no real definition *)
      assert (Ht : tn (User n) (obj_of_decl n od A) = true).
      { unfold tn, same_name. cbn [obj_of_decl ob_tentative ob_name ident_eqb]. unfold is_defining in Hext. rewrite Hi, orb_false_r in Hext. apply negb_true_iff in Hext. rewrite Hi, Hext, Nat.eqb_refl. reflexivity. }
      rewrite (Ha Hext) in Hx. pose proof (In_filter_length _ _ _ Hx Ht) as Hpos. fold (cnt (User n) prog) in Hpos. rewrite cnt_prog in Hpos.
      destruct hasreal; [lia|reflexivity].
  - intros x _ HD. unfold Dn in HD. destruct (same_name (User n) x); [|reflexivity]. cbn [andb] in HD. unfold data_core. rewrite HD. reflexivity.
Qed.

Lemma look_dc hi l : look (User n) (dc hi) l =
  if fcommon o && negb hi && negb (o_tls od1) then
    (if lk_eqb k L_internal then Present (mkEntry B_local T_object P_bss (Some (o_size od1)) (Some al))
     else Present (mkEntry B_global T_object P_common (Some (o_size od1)) (Some al)))
  else Present (mkEntry (if lk_eqb k L_internal then B_local else B_global) (if o_tls od1 then T_tls else T_object)
                        (if hi then (if o_tls od1 then P_tdata else P_data) else (if o_tls od1 then P_tbss else P_bss))
                        (Some (o_size od1)) (Some al)).
Proof.
  unfold look, dc, ev_defs, ev_stype, ev_binding, ev_size.
  destruct (fcommon o && negb hi && negb (o_tls od1)); cbn; rewrite Nat.eqb_refl; cbn.
  - destruct (lk_eqb k L_internal); reflexivity.
  - destruct hi, (o_tls od1); reflexivity.
Qed.

Theorem entry_of_object : symtab_of (emit o prog) n = to_result (spec_entry live ds o n).
Proof.
  rewrite lookup_form, (Tc_obj n Ef), app_nil_r, Dc_obj.
  unfold spec_entry. rewrite Ef, Eo. unfold obj_entry. fold hasreal hastent. destruct obj_link as [-> _]. fold A. fold al.
  assert (Hkt : snd (kt ds n) = o_tls od1).
  { unfold kt, is_fun_name, obj_tls_of. rewrite Ef, Eo. reflexivity. }
  destruct hasreal.
  - rewrite look_dc. cbn [negb andb]. rewrite andb_false_r. cbn [to_result bind_of]. destruct k, (o_tls od1); reflexivity.
  - destruct hastent.
    + rewrite look_dc. cbn [negb]. rewrite andb_true_r. destruct (fcommon o), (o_tls od1), k; reflexivity.
    + rewrite look_nodef, Hkt. destruct (referenced live ds n); reflexivity.
Qed.
End Obj.

Theorem emit_symtab_correct_here n : symtab_of (emit o (parse_flags ds)) n = to_result (spec_entry live ds o n).
Proof.
  destruct (funseq n ds) as [|d1 s'] eqn:Ef.
  - destruct (objseq n ds) as [|od1 os'] eqn:Eo; [apply entry_of_undeclared; assumption|apply (entry_of_object n od1 os' Eo Ef)].
  - apply (entry_of_function n d1 s' Ef).
Qed.
End Main.

(* the headline statement, all hypotheses explicit *)
Theorem emit_symtab_correct : forall ds o live,
  valid ds = true -> kb_extern_init_static ds = false ->
  live_ok ds live ->
  forall n, symtab_of (emit o (parse_flags ds)) n = to_result (spec_entry live ds o n).
Proof. intros ds o live H1 H2 H5 n. apply emit_symtab_correct_here; assumption. Qed.
