(* Main theorem for expressions over objects: per-construct lemmas, then induction on the expression. *)
From Coq Require Import ZArith Bool List Lia.
From Chibicc Require Import Base.Mach Spec.C11Int Spec.C11IntMem Model.X86Int Model.CodegenInt Gen.CastTable
     Model.ConstFold Proofs.ConstFoldProofs Proofs.CastTableProofs Proofs.CodegenIntProofs Model.ExprGen Proofs.ExprGenProofs
     Model.ExprMem Proofs.ExprMemProofs.
Import ListNotations.
Local Open Scope Z_scope.

Definition is_logical (o : binop) : bool := match o with LAnd | LOr => true | _ => false end.

Lemma meval_bin G env o a b : is_logical o = false ->
  meval G env (MBin o a b) =
  if norace a b then
    if lhs_first o then
      match meval G env a with
      | Some (x, env1) =>
        match meval G env1 b with
        | Some (y, env2) => match eval_binval o (mtype G a) (mtype G b) x y with Some v => Some (v, env2) | None => None end
        | None => None
        end
      | None => None
      end
    else
      match meval G env b with
      | Some (y, env1) =>
        match meval G env1 a with
        | Some (x, env2) => match eval_binval o (mtype G a) (mtype G b) x y with Some v => Some (v, env2) | None => None end
        | None => None
        end
      | None => None
      end
  else None.
Proof. destruct o; intros L; try discriminate L; reflexivity. Qed.

Lemma mcomp_bin F n o a b : is_logical o = false ->
  mcomp F n (MBin o a b) = bin_code o (mcomp F n a) (mm_type (ftys F) a) (mcomp F (n + ntemps a) b) (mm_type (ftys F) b).
Proof. destruct o; intros L; try discriminate L; reflexivity. Qed.

Lemma bin_type_c11 o ta tb :
  bin_type o ta tb = if is_arith o then uac ta tb else if is_shift o then promote ta else I32.
Proof. unfold bin_type. destruct (is_arith o); [apply m_common_is_uac|]. destruct (is_shift o); [apply m_promote|reflexivity]. Qed.

Section Main.
Variable F : frame.
Hypothesis WF : wf_frame F.
Local Notation G := (ftys F).
Local Notation run := (mrun (frbp F)).

(* the code of e, placed at temporary index n, started in a memory that agrees with env: computes v,
   ends in a memory that agrees with env', touching only variables and its own temporaries *)
Definition mcomputes (n : nat) (e : mexpr) (env : venv) (v : Z) (env' : venv) : Prop :=
  forall s k m, agree F env m ->
    exists s' m', run (mcomp F n e) (s, k, m) = Some (s', k, m') /\ R (mtype G e) v (rax s') /\
                  agree F env' m' /\ touch_only F n (n + ntemps e) m m'.

Lemma to_runs n e env v env' (I J : mem -> Prop) :
  mcomputes n e env v env' ->
  (forall m m', I m -> agree F env m -> agree F env' m' -> touch_only F n (n + ntemps e) m m' -> J m') ->
  runs F (mcomp F n e) (mtype G e) v (fun m => agree F env m /\ I m) (fun m' => agree F env' m' /\ J m').
Proof.
  intros H HJ s k m [Ha Hi]. destruct (H s k m Ha) as (s' & m' & E & HR & Ha' & Ht).
  exists s', m'. split; [exact E|]. split; [exact HR|]. split; [exact Ha'|]. eapply HJ; eassumption.
Qed.

(* ---------- leaves ---------- *)
Lemma case_lit n t v0 env v env' : meval G env (MLit t v0) = Some (v, env') -> mcomputes n (MLit t v0) env v env'.
Proof.
  cbn [meval]. destruct (in_range t v0) eqn:Hr; [|discriminate]. intros H. injection H as <- <-.
  intros s k m Ha. eexists; eexists. split; [reflexivity|]. split; [apply R_imm; exact Hr|]. split; [exact Ha|apply touch_refl].
Qed.

Lemma case_var n x env v env' : (x < nvars F)%nat -> meval G env (MVar x) = Some (v, env') -> mcomputes n (MVar x) env v env'.
Proof.
  intros Hx. cbn [meval]. destruct (read_var G env x) as [xv|] eqn:E; [|discriminate]. intros H. injection H as <- <-.
  apply read_var_range in E as [_ ->].
  intros s k m Ha. destruct (run_var F WF x env s k m Hx Ha) as (s' & Er & HR).
  exists s', m. split; [exact Er|]. split; [exact HR|]. split; [exact Ha|apply touch_refl].
Qed.

(* ---------- unary operators, casts ---------- *)
Lemma from_runs n e env v env' :
  (forall m, agree F env m ->
     runs F (mcomp F n e) (mtype G e) v (fun m1 => agree F env m1 /\ m1 = m)
          (fun m' => agree F env' m' /\ touch_only F n (n + ntemps e) m m')) ->
  mcomputes n e env v env'.
Proof.
  intros H s k m Ha. destruct (H m Ha s k m (conj Ha eq_refl)) as (s' & m' & E & HR & Ha' & Ht). exists s', m'. auto.
Qed.

Lemma sub_runs n a env x env1 m lo hi : mcomputes n a env x env1 -> (lo <= n)%nat -> (n + ntemps a <= hi)%nat ->
  runs F (mcomp F n a) (mtype G a) x (fun m1 => agree F env m1 /\ m1 = m) (fun m' => agree F env1 m' /\ touch_only F lo hi m m').
Proof.
  intros H Hlo Hhi. apply to_runs; [exact H|]. intros m1 m' -> _ _ Ht. eapply touch_mono; [exact Ht|lia|lia].
Qed.

Lemma case_un n o a env v env' x env1 :
  meval G env a = Some (x, env1) -> mcomputes n a env x env1 ->
  eval_unval o (mtype G a) x = Some v -> env' = env1 -> mcomputes n (MUn o a) env v env'.
Proof.
  intros Ea IH Hv ->. pose proof (range_meval G a env x env1 Ea) as Rx.
  apply from_runs. intros m Ha.
  pose proof (sub_runs n a env x env1 m n (n + ntemps (MUn o a)) IH (le_n _) (le_n _)) as Hr.
  unfold eval_unval in Hv.
  destruct o; cbn [mcomp mtype]; rewrite ?mm_type_is_c11; cbn [mtype].
  - (* Neg *) apply runs_assoc. eapply runs_ins; [apply runs_cast; [exact Hr|exact Rx]|].
    intros s0 HR. rewrite (conv_in_range _ _ (promote_range _ _ Rx)) in HR.
    apply neg_codegen_ok with (a := x); [apply promote_big|exact HR|exact Hv].
  - (* BitNot *) injection Hv as <-. apply runs_assoc. eapply runs_ins; [apply runs_cast; [exact Hr|exact Rx]|].
    intros s0 HR. rewrite (conv_in_range _ _ (promote_range _ _ Rx)) in HR.
    apply not_codegen_ok; [apply promote_big|exact HR].
  - (* LogNot *) injection Hv as <-. eapply runs_ins; [exact Hr|]. intros s0 HR. apply lognot_codegen_ok; assumption.
  - (* Plus *) injection Hv as <-.
    rewrite <- (conv_in_range _ _ (promote_range _ _ Rx)) at 1. apply runs_cast; assumption.
Qed.

Lemma case_cast n t a env x env1 :
  meval G env a = Some (x, env1) -> mcomputes n a env x env1 -> mcomputes n (MCast t a) env (conv t x) env1.
Proof.
  intros Ea IH. pose proof (range_meval G a env x env1 Ea) as Rx. apply from_runs. intros m Ha.
  cbn [mcomp mtype]. rewrite mm_type_is_c11. apply runs_cast; [|exact Rx].
  exact (sub_runs n a env x env1 m n (n + ntemps (MCast t a)) IH (le_n _) (le_n _)).
Qed.

(* ---------- two-operand operators (not && ||) ---------- *)
Lemma case_bin n o a b env v env' :
  is_logical o = false ->
  (forall env0 x env1, meval G env0 a = Some (x, env1) -> mcomputes n a env0 x env1) ->
  (forall env0 y env1, meval G env0 b = Some (y, env1) -> mcomputes (n + ntemps a) b env0 y env1) ->
  meval G env (MBin o a b) = Some (v, env') -> mcomputes n (MBin o a b) env v env'.
Proof.
  intros L IHa IHb H. rewrite (meval_bin G env o a b L) in H.
  destruct (norace a b); [|discriminate].
  apply from_runs. intros m Ha. rewrite (mcomp_bin F n o a b L), !mm_type_is_c11.
  assert (Ty : mtype G (MBin o a b) = bin_type o (mtype G a) (mtype G b)) by (rewrite bin_type_c11; reflexivity).
  rewrite Ty. cbn [ntemps].
  set (HI := (n + (ntemps a + ntemps b))%nat).
  destruct (lhs_first o) eqn:LF.
  - destruct (meval G env a) as [[x env1]|] eqn:Ea; [|discriminate].
    destruct (meval G env1 b) as [[y env2]|] eqn:Eb; [|discriminate].
    destruct (eval_binval o (mtype G a) (mtype G b) x y) as [r|] eqn:Er; [|discriminate]. injection H as <- <-.
    apply bin_code_ok with (x := x) (y := y) (P1 := fun m1 => agree F env1 m1 /\ touch_only F n HI m m1);
      [exact Er|exact (range_meval G a _ _ _ Ea)|exact (range_meval G b _ _ _ Eb)|]. rewrite LF. split.
    + apply sub_runs; [exact (IHa _ _ _ Ea)|lia|unfold HI; lia].
    + apply to_runs; [exact (IHb _ _ _ Eb)|]. intros m1 m2 Ht1 _ _ Ht2. eapply touch_trans; [exact Ht1|exact Ht2| | | |]; unfold HI; lia.
  - destruct (meval G env b) as [[y env1]|] eqn:Eb; [|discriminate].
    destruct (meval G env1 a) as [[x env2]|] eqn:Ea; [|discriminate].
    destruct (eval_binval o (mtype G a) (mtype G b) x y) as [r|] eqn:Er; [|discriminate]. injection H as <- <-.
    apply bin_code_ok with (x := x) (y := y) (P1 := fun m1 => agree F env1 m1 /\ touch_only F n HI m m1);
      [exact Er|exact (range_meval G a _ _ _ Ea)|exact (range_meval G b _ _ _ Eb)|]. rewrite LF. split.
    + apply sub_runs; [exact (IHb _ _ _ Eb)|lia|unfold HI; lia].
    + apply to_runs; [exact (IHa _ _ _ Ea)|]. intros m1 m2 Ht1 _ _ Ht2. eapply touch_trans; [exact Ht1|exact Ht2| | | |]; unfold HI; lia.
Qed.

(* ---------- && || ?: and the comma: the untaken operand's code does not run ---------- *)
Lemma case_land n a b env v env' :
  (forall env0 x env1, meval G env0 a = Some (x, env1) -> mcomputes n a env0 x env1) ->
  (forall env0 y env1, meval G env0 b = Some (y, env1) -> mcomputes (n + ntemps a) b env0 y env1) ->
  meval G env (MBin LAnd a b) = Some (v, env') -> mcomputes n (MBin LAnd a b) env v env'.
Proof.
  intros IHa IHb H. cbn [meval] in H.
  destruct (meval G env a) as [[x env1]|] eqn:Ea; [|discriminate]. pose proof (range_meval G a _ _ _ Ea) as Rx.
  intros s k m Ha. cbn [mcomp ntemps mtype is_arith is_shift]. rewrite !mm_type_is_c11. cbn [mrun].
  destruct (IHa _ _ _ Ea s k m Ha) as (s1 & m1 & E1 & R1 & A1 & T1). rewrite E1.
  destruct (zero_test _ _ _ Rx R1) as (s2 & T2 & A2). rewrite T2.
  destruct (x =? 0) eqn:Zx.
  - injection H as <- <-. eexists; eexists. split; [reflexivity|]. split; [apply R_small_const; auto|]. split; [exact A1|].
    eapply touch_mono; [exact T1|lia|lia].
  - destruct (meval G env1 b) as [[y env2]|] eqn:Eb; [|discriminate]. injection H as <- <-.
    pose proof (range_meval G b _ _ _ Eb) as Ry.
    destruct (IHb _ _ _ Eb s2 k m1 A1) as (s3 & m3 & E3 & R3 & A3 & T3). rewrite E3.
    destruct (zero_test _ _ _ Ry R3) as (s4 & T4 & A4). rewrite T4.
    eexists; eexists. split; [reflexivity|]. split; [destruct (y =? 0); apply R_small_const; auto|]. split; [exact A3|].
    eapply touch_trans; [exact T1|exact T3| | | |]; lia.
Qed.

Lemma case_lor n a b env v env' :
  (forall env0 x env1, meval G env0 a = Some (x, env1) -> mcomputes n a env0 x env1) ->
  (forall env0 y env1, meval G env0 b = Some (y, env1) -> mcomputes (n + ntemps a) b env0 y env1) ->
  meval G env (MBin LOr a b) = Some (v, env') -> mcomputes n (MBin LOr a b) env v env'.
Proof.
  intros IHa IHb H. cbn [meval] in H.
  destruct (meval G env a) as [[x env1]|] eqn:Ea; [|discriminate]. pose proof (range_meval G a _ _ _ Ea) as Rx.
  intros s k m Ha. cbn [mcomp ntemps mtype is_arith is_shift]. rewrite !mm_type_is_c11. cbn [mrun].
  destruct (IHa _ _ _ Ea s k m Ha) as (s1 & m1 & E1 & R1 & A1 & T1). rewrite E1.
  destruct (zero_test _ _ _ Rx R1) as (s2 & T2 & A2). rewrite T2.
  destruct (x =? 0) eqn:Zx; cbn [negb] in H.
  - destruct (meval G env1 b) as [[y env2]|] eqn:Eb; [|discriminate]. injection H as <- <-.
    pose proof (range_meval G b _ _ _ Eb) as Ry.
    destruct (IHb _ _ _ Eb s2 k m1 A1) as (s3 & m3 & E3 & R3 & A3 & T3). rewrite E3.
    destruct (zero_test _ _ _ Ry R3) as (s4 & T4 & A4). rewrite T4.
    eexists; eexists. split; [reflexivity|]. split; [destruct (y =? 0); apply R_small_const; auto|]. split; [exact A3|].
    eapply touch_trans; [exact T1|exact T3| | | |]; lia.
  - injection H as <- <-. eexists; eexists. split; [reflexivity|]. split; [apply R_small_const; auto|]. split; [exact A1|].
    eapply touch_mono; [exact T1|lia|lia].
Qed.

Lemma case_cond n c a b env v env' :
  (forall env0 x env1, meval G env0 c = Some (x, env1) -> mcomputes n c env0 x env1) ->
  (forall env0 x env1, meval G env0 a = Some (x, env1) -> mcomputes (n + ntemps c) a env0 x env1) ->
  (forall env0 y env1, meval G env0 b = Some (y, env1) -> mcomputes (n + ntemps c + ntemps a) b env0 y env1) ->
  meval G env (MCond c a b) = Some (v, env') -> mcomputes n (MCond c a b) env v env'.
Proof.
  intros IHc IHa IHb H. cbn [meval] in H.
  destruct (meval G env c) as [[x env1]|] eqn:Ec; [|discriminate]. pose proof (range_meval G c _ _ _ Ec) as Rx.
  destruct (meval G env1 (if negb (x =? 0) then a else b)) as [[y env2]|] eqn:Eab; [|discriminate]. injection H as <- <-.
  intros s k m Ha. cbn [mcomp ntemps mtype]. rewrite !mm_type_is_c11, m_common_is_uac. cbn [mrun].
  destruct (IHc _ _ _ Ec s k m Ha) as (s1 & m1 & E1 & R1 & A1 & T1). rewrite E1.
  destruct (zero_test _ _ _ Rx R1) as (s2 & T2 & A2). rewrite T2.
  destruct (x =? 0) eqn:Zx; cbn [negb] in Eab.
  - pose proof (range_meval G b _ _ _ Eab) as Ry.
    destruct (IHb _ _ _ Eab s2 k m1 A1) as (s3 & m3 & E3 & R3 & A3 & T3). rewrite E3.
    destruct (mrun_cast F _ (uac (mtype G a) (mtype G b)) y s3 k m3 Ry R3) as (s4 & E4 & R4).
    exists s4, m3. split; [exact E4|]. split; [exact R4|]. split; [exact A3|].
    eapply touch_trans; [exact T1|exact T3| | | |]; lia.
  - pose proof (range_meval G a _ _ _ Eab) as Ry.
    destruct (IHa _ _ _ Eab s2 k m1 A1) as (s3 & m3 & E3 & R3 & A3 & T3). rewrite E3.
    destruct (mrun_cast F _ (uac (mtype G a) (mtype G b)) y s3 k m3 Ry R3) as (s4 & E4 & R4).
    exists s4, m3. split; [exact E4|]. split; [exact R4|]. split; [exact A3|].
    eapply touch_trans; [exact T1|exact T3| | | |]; lia.
Qed.

Lemma case_comma n a b env v env' :
  (forall env0 x env1, meval G env0 a = Some (x, env1) -> mcomputes n a env0 x env1) ->
  (forall env0 y env1, meval G env0 b = Some (y, env1) -> mcomputes (n + ntemps a) b env0 y env1) ->
  meval G env (MComma a b) = Some (v, env') -> mcomputes n (MComma a b) env v env'.
Proof.
  intros IHa IHb H. cbn [meval] in H.
  destruct (meval G env a) as [[x env1]|] eqn:Ea; [|discriminate].
  intros s k m Ha. cbn [mcomp ntemps mtype]. rewrite mrun_seq.
  destruct (IHa _ _ _ Ea s k m Ha) as (s1 & m1 & E1 & R1 & A1 & T1). rewrite E1.
  destruct (IHb _ _ _ H s1 k m1 A1) as (s3 & m3 & E3 & R3 & A3 & T3).
  exists s3, m3. split; [exact E3|]. split; [exact R3|]. split; [exact A3|].
  eapply touch_trans; [exact T1|exact T3| | | |]; lia.
Qed.

(* ---------- x = e ---------- *)
Lemma case_assign n x a env v env' : (x < nvars F)%nat ->
  (forall env0 y env1, meval G env0 a = Some (y, env1) -> mcomputes n a env0 y env1) ->
  meval G env (MAssign x a) = Some (v, env') -> mcomputes n (MAssign x a) env v env'.
Proof.
  intros Hx IHa H. cbn [meval] in H. destruct (mem_nat x (writes a)); [discriminate|].
  destruct (meval G env a) as [[y env1]|] eqn:Ea; [|discriminate]. injection H as <- <-.
  pose proof (range_meval G a _ _ _ Ea) as Ry.
  intros s k m Ha. cbn [mcomp ntemps mtype]. rewrite mm_type_is_c11.
  rewrite mrun_lea, (lea_var F WF x Hx), mrun_push, mrun_seq. cbn [rax set_rax].
  destruct (IHa _ _ _ Ea (set_rax s (vaddr F x)) (vaddr F x :: k) m Ha) as (s1 & m1 & E1 & R1 & A1 & T1). rewrite E1.
  rewrite mrun_seq. destruct (mrun_cast F (mtype G a) (vty G x) y s1 (vaddr F x :: k) m1 Ry R1) as (s2 & E2 & R2). rewrite E2.
  rewrite mrun_pop.
  destruct (run_store F WF x env1 (conv (vty G x) y) (set_rdi s2 (vaddr F x)) k m1 n (n + ntemps a) Hx A1 (conv_range _ _) R2 eq_refl)
    as (m2 & E3 & A3 & T3).
  exists (set_rdi s2 (vaddr F x)), m2. split; [exact E3|]. split; [exact R2|]. split; [exact A3|].
  eapply touch_trans; [exact T1|exact T3| | | |]; lia.
Qed.

(* ---------- x o= e : tmp = &x, *tmp = *tmp o e ---------- *)
Lemma ptr_size i : tkind_at F i = TPtr -> Z.of_nat 8 = tsize F i.
Proof. intros Hk. unfold tsize. rewrite Hk. reflexivity. Qed.
Lemma saved_size i t : tkind_at F i = TSaved t -> Z.of_nat (nbytes t) = tsize F i.
Proof. intros Hk. unfold tsize. rewrite Hk. unfold nbytes. destruct t; reflexivity. Qed.

Lemma mrun_store8 c s k m i : (i < ntmps F)%nat -> tkind_at F i = TPtr -> rdi s = taddr F i ->
  run (CStore St8 ;;; c) (s, k, m) = run c (s, k, store_le m (taddr F i) 8 (rax s)).
Proof. intros Hi Hk Hd. rewrite mrun_seq. cbn [mrun st_bytes]. rewrite Hd, (valid_temp F WF i 8 Hi (ptr_size i Hk)). reflexivity. Qed.

Lemma mrun_loadq c s k m i : (i < ntmps F)%nat -> tkind_at F i = TPtr -> rax s = taddr F i ->
  run (CLoad LdQ ;;; c) (s, k, m) = run c (set_rax s (load_le m (taddr F i) 8), k, m).
Proof. intros Hi Hk Hd. rewrite mrun_seq. cbn [mrun ld_bytes ld_ext]. rewrite Hd, (valid_temp F WF i 8 Hi (ptr_size i Hk)). reflexivity. Qed.

(* *tmp where tmp holds the address of x *)
Lemma run_deref i x env s k m : (i < ntmps F)%nat -> tkind_at F i = TPtr -> (x < nvars F)%nat -> agree F env m ->
  load_le m (taddr F i) 8 = vaddr F x ->
  exists s', run (CLea (toff F i) ;;; CLoad LdQ ;;; CLoad (load_kind (vty G x))) (s, k, m) = Some (s', k, m) /\
             R (vty G x) (vget env x) (rax s').
Proof.
  intros Hi Hk Hx [_ Ha] Ht. destruct (Ha x Hx) as [Hr Hl].
  rewrite mrun_lea, (lea_temp F WF i Hi). rewrite (mrun_loadq _ _ _ _ i Hi Hk) by reflexivity. rewrite Ht. cbn [mrun rax set_rax].
  rewrite ld_bytes_kind, (valid_var F WF x Hx), Hl. eexists. split; [reflexivity|]. cbn [rax set_rax]. apply load_R. exact Hr.
Qed.

Lemma opassign_rhs_first o : is_arith o || is_shift o = true -> lhs_first o = false.
Proof. destruct o; intros H; try discriminate H; reflexivity. Qed.

Lemma case_opassign n o x a env v env' : (x < nvars F)%nat -> (n + ntemps (MOpAssign o x a) <= ntmps F)%nat ->
  tkind_at F (n + ntemps a) = TPtr ->
  (forall env0 y env1, meval G env0 a = Some (y, env1) -> mcomputes n a env0 y env1) ->
  meval G env (MOpAssign o x a) = Some (v, env') -> mcomputes n (MOpAssign o x a) env v env'.
Proof.
  intros Hx Hn Hk IHa H. cbn [meval] in H. cbn [ntemps] in Hn.
  destruct (mem_nat x (writes a)); [discriminate|]. cbn [orb] in H.
  destruct (is_arith o || is_shift o) eqn:Ho; [|discriminate]. cbn [negb] in H.
  destruct (meval G env a) as [[y env1]|] eqn:Ea; [|discriminate].
  destruct (read_var G env1 x) as [xv|] eqn:Ex; [|discriminate]. apply read_var_range in Ex as [Rxv ->].
  destruct (eval_binval o (vty G x) (mtype G a) (vget env1 x) y) as [r|] eqn:Er; [|discriminate]. injection H as <- <-.
  pose proof (range_meval G a _ _ _ Ea) as Ry.
  assert (Rr : in_range (bin_type o (vty G x) (mtype G a)) r = true).
  { rewrite bin_type_c11. exact (binval_range o _ _ _ _ _ Rxv Ry Er). }
  intros s k m Ha. cbn [mcomp ntemps mtype]. rewrite !mm_type_is_c11.
  set (i := (n + ntemps a)%nat). assert (Hi : (i < ntmps F)%nat) by (unfold i; lia).
  (* tmp = &x *)
  rewrite mrun_lea, (lea_temp F WF i Hi), mrun_push, mrun_lea, (lea_var F WF x Hx), mrun_pop. cbn [rax set_rax].
  rewrite (mrun_store8 _ _ _ _ i Hi Hk) by reflexivity. cbn [rax set_rdi set_rax].
  set (m1 := store_le m (taddr F i) 8 (vaddr F x)).
  assert (A1 : agree F env m1) by (apply store_temp_agree; [exact WF|exact Ha|exact Hi|exact (ptr_size i Hk)]).
  assert (T1 : touch_only F n (S i) m m1) by (apply store_temp_touch; [unfold i; lia|exact (ptr_size i Hk)]).
  assert (P1 : load_le m1 (taddr F i) 8 = vaddr F x).
  { unfold m1. rewrite load_store_same. change (256 ^ Z.of_nat 8) with (2 ^ 64).
    destruct WF as (Wv & _). specialize (Wv x Hx). pose proof (size_pos (vty G x)). unfold vsize in Wv. apply Z.mod_small. lia. }
  (* the address of *tmp, pushed *)
  rewrite mrun_lea, (lea_temp F WF i Hi). rewrite (mrun_loadq _ _ _ _ i Hi Hk) by reflexivity. rewrite P1, mrun_push. cbn [rax set_rax].
  rewrite mrun_seq.
  (* *tmp o e *)
  set (INV := fun m' : mem => touch_only F n (S i) m m' /\ load_le m' (taddr F i) 8 = vaddr F x).
  assert (Hbin : runs F (bin_code o (CLea (toff F i) ;;; CLoad LdQ ;;; CLoad (load_kind (vty G x))) (vty G x) (mcomp F n a) (mtype G a))
                      (bin_type o (vty G x) (mtype G a)) r
                      (fun m' => agree F env m' /\ INV m') (fun m' => agree F env1 m' /\ INV m')).
  { apply bin_code_ok with (x := vget env1 x) (y := y) (P1 := fun m' => agree F env1 m' /\ INV m'); [exact Er|exact Rxv|exact Ry|].
    rewrite (opassign_rhs_first o Ho). split.
    - apply to_runs; [exact (IHa _ _ _ Ea)|]. intros ma mb [Hta Hpa] _ _ Htb. split.
      + eapply touch_trans; [exact Hta|exact Htb| | | |]; unfold i; lia.
      + rewrite <- Hpa. apply (touch_keeps_temp F n (n + ntemps a)); [exact WF|exact Htb|exact Hi|unfold i; lia|lia|exact (ptr_size i Hk)].
    - intros s0 k0 m0 [Ha0 [Ht0 Hp0]]. destruct (run_deref i x env1 s0 k0 m0 Hi Hk Hx Ha0 Hp0) as (s' & E & HR).
      exists s', m0. split; [exact E|]. split; [exact HR|]. split; [exact Ha0|]. split; assumption. }
  match goal with |- context [run _ (?s0, ?k0, m1)] =>
    destruct (Hbin s0 k0 m1 (conj A1 (conj T1 P1))) as (s5 & m5 & E5 & R5 & A5 & T5 & P5) end.
  rewrite E5. rewrite mrun_seq.
  destruct (mrun_cast F _ (vty G x) r s5 (vaddr F x :: k) m5 Rr R5) as (s6 & E6 & R6). rewrite E6. rewrite mrun_pop.
  destruct (run_store F WF x env1 (conv (vty G x) r) (set_rdi s6 (vaddr F x)) k m5 n (S i) Hx A5 (conv_range _ _) R6 eq_refl)
    as (m6 & E7 & A7 & T7).
  exists (set_rdi s6 (vaddr F x)), m6. split; [exact E7|]. split; [exact R6|]. split; [exact A7|].
  eapply touch_trans; [exact T5|exact T7| | | |]; unfold i; lia.
Qed.

(* ---------- x++ x-- : tmp = &x, old = *tmp, *tmp = old + d, old ---------- *)
(* x += -1 is x -= 1 *)
Ltac comp_consts :=
  repeat match goal with
  | |- context [uac ?a ?b] => let c := eval vm_compute in (uac a b) in change (uac a b) with c
  | |- context [conv ?t 1] => let c := eval vm_compute in (conv t 1) in change (conv t 1) with c
  | |- context [conv ?t (-1)] => let c := eval vm_compute in (conv t (-1)) in change (conv t (-1)) with c
  end.

Lemma dec_add_big t a : big t -> eval_bin_arith Add t a (conv t (-1)) = eval_bin_arith Sub t a (conv t 1).
Proof.
  intros [-> | [-> | [-> | ->]]]; comp_consts; cbn [eval_bin_arith]; unfold arith_result; cbn [is_signed width].
  - replace (a + -1) with (a - 1) by lia. reflexivity.
  - f_equal. pows. lia.
  - replace (a + -1) with (a - 1) by lia. reflexivity.
  - f_equal. pows. lia.
Qed.

Lemma dec_is_add t xv : eval_binval Add t I32 xv (-1) = eval_binval Sub t I32 xv 1.
Proof. unfold eval_binval. cbn [is_arith]. apply dec_add_big. apply uac_big. Qed.

Lemma mrun_seq3 a b c r st :
  run (a ;;; b ;;; c ;;; r) st = match run (a ;;; b ;;; c) st with Some st' => run r st' | None => None end.
Proof.
  rewrite (mrun_seq F a), (mrun_seq F a (b ;;; c)). destruct (run a st) as [st1|]; [|reflexivity].
  rewrite (mrun_seq F b), (mrun_seq F b c). destruct (run b st1) as [st2|]; [|reflexivity]. apply mrun_seq.
Qed.
Lemma mrun_seq2 a b r st :
  run (a ;;; b ;;; r) st = match run (a ;;; b) st with Some st' => run r st' | None => None end.
Proof. rewrite <- mrun_assoc. apply mrun_seq. Qed.

Lemma mrun_store_saved c s k m i t : (i < ntmps F)%nat -> tkind_at F i = TSaved t -> rdi s = taddr F i ->
  run (CStore (store_kind t) ;;; c) (s, k, m) = run c (s, k, store_le m (taddr F i) (nbytes t) (rax s)).
Proof.
  intros Hi Hk Hd. rewrite mrun_seq. cbn [mrun]. rewrite st_bytes_kind, Hd, (valid_temp F WF i (nbytes t) Hi (saved_size i t Hk)). reflexivity.
Qed.

Lemma run_store_mem x s k m st' : (x < nvars F)%nat -> rdi s = vaddr F x ->
  run (CStore (store_kind (vty G x))) (s, k, m) = Some st' ->
  st' = (s, k, store_le m (vaddr F x) (nbytes (vty G x)) (rax s)).
Proof.
  intros Hx Hd E. cbn [mrun] in E. rewrite st_bytes_kind, Hd, (valid_var F WF x Hx) in E. injection E as <-. reflexivity.
Qed.

(* the saved old value, read back *)
Lemma run_saved i t xv s k m : (i < ntmps F)%nat -> tkind_at F i = TSaved t -> in_range t xv = true ->
  load_le m (taddr F i) (nbytes t) = urepr t xv ->
  exists s', run (CLea (toff F i) ;;; CLoad (load_kind t)) (s, k, m) = Some (s', k, m) /\ R t xv (rax s').
Proof.
  intros Hi Hk Hr Hl. rewrite mrun_lea, (lea_temp F WF i Hi). cbn [mrun rax set_rax].
  rewrite ld_bytes_kind, (valid_temp F WF i (nbytes t) Hi (saved_size i t Hk)), Hl.
  eexists. split; [reflexivity|]. cbn [rax set_rax]. apply load_R. exact Hr.
Qed.

Lemma case_postfix n inc x env v env' : (x < nvars F)%nat -> (S n < ntmps F)%nat ->
  tkind_at F n = TSaved (vty G x) -> tkind_at F (S n) = TPtr ->
  meval G env (MIncDec true inc x) = Some (v, env') -> mcomputes n (MIncDec true inc x) env v env'.
Proof.
  intros Hx Hn Hks Hkp H. cbn [meval] in H.
  destruct (read_var G env x) as [xv|] eqn:Ex; [|discriminate]. apply read_var_range in Ex as [Rxv ->].
  destruct (eval_binval (if inc then Add else Sub) (vty G x) I32 (vget env x) 1) as [r|] eqn:Er; [|discriminate]. injection H as <- <-.
  set (tx := vty G x) in *. set (xv := vget env x) in *. set (d := if inc then 1 else -1).
  assert (Er' : eval_binval Add tx I32 xv d = Some r).
  { unfold d. destruct inc; [exact Er|]. rewrite dec_is_add. exact Er. }
  assert (Rd : in_range I32 d = true) by (unfold d; destruct inc; reflexivity).
  assert (Rr : in_range (bin_type Add tx I32) r = true).
  { rewrite bin_type_c11. exact (binval_range Add _ _ _ _ _ Rxv Rd Er'). }
  assert (Hi0 : (n < ntmps F)%nat) by lia.
  pose proof (ptr_size (S n) Hkp) as Sp. pose proof (saved_size n tx Hks) as Ss.
  destruct WF as (Wv & Wt & Wvv & Wvt & Wtt).
  intros s k m Ha. cbn [mcomp ntemps mtype]. fold tx. fold d.
  (* tmp = &x *)
  rewrite mrun_lea, (lea_temp F WF (S n) Hn), mrun_push, mrun_lea, (lea_var F WF x Hx), mrun_pop. cbn [rax set_rax].
  rewrite (mrun_store8 _ _ _ _ (S n) Hn Hkp) by reflexivity. cbn [rax set_rdi set_rax].
  set (m1 := store_le m (taddr F (S n)) 8 (vaddr F x)).
  assert (A1 : agree F env m1) by (apply store_temp_agree; [exact WF|exact Ha|exact Hn|exact Sp]).
  assert (T1 : touch_only F n (n + 2) m m1) by (apply store_temp_touch; [lia|exact Sp]).
  assert (P1 : load_le m1 (taddr F (S n)) 8 = vaddr F x).
  { unfold m1. rewrite load_store_same. change (256 ^ Z.of_nat 8) with (2 ^ 64).
    specialize (Wv x Hx). pose proof (size_pos (vty G x)). unfold vsize in Wv. apply Z.mod_small. lia. }
  (* old = *tmp *)
  rewrite mrun_lea, (lea_temp F WF n Hi0), mrun_push. cbn [rax set_rax].
  rewrite mrun_seq3.
  match goal with |- context [run (CLea (toff F (S n)) ;;; CLoad LdQ ;;; CLoad (load_kind tx)) (?s0, ?k0, m1)] =>
    destruct (run_deref (S n) x env s0 k0 m1 Hn Hkp Hx A1 P1) as (s2 & E2 & R2) end.
  fold tx in E2. rewrite E2. fold tx xv in R2.
  rewrite mrun_seq. destruct (mrun_cast F tx tx xv s2 (taddr F n :: k) m1 Rxv R2) as (s3 & E3 & R3). rewrite E3.
  rewrite (conv_in_range _ _ Rxv) in R3. rewrite mrun_pop.
  rewrite (mrun_store_saved _ _ _ _ n tx Hi0 Hks) by reflexivity. cbn [rax set_rdi].
  set (m2 := store_le m1 (taddr F n) (nbytes tx) (rax s3)).
  assert (A2 : agree F env m2) by (apply store_temp_agree; [exact WF|exact A1|exact Hi0|exact Ss]).
  assert (T2 : touch_only F n (n + 2) m m2).
  { eapply touch_trans; [exact T1|apply (store_temp_touch F n (n + 2)); [lia|exact Ss]| | | |]; lia. }
  assert (P2s : load_le m2 (taddr F n) (nbytes tx) = urepr tx xv).
  { unfold m2. rewrite load_store_same. apply R_urepr; assumption. }
  assert (P2p : load_le m2 (taddr F (S n)) 8 = vaddr F x).
  { unfold m2. rewrite store_disjoint; [exact P1|]. specialize (Wtt n (S n) Hi0 Hn ltac:(lia)). unfold sep in Wtt. lia. }
  (* the address of *tmp, pushed *)
  rewrite mrun_lea, (lea_temp F WF (S n) Hn). rewrite (mrun_loadq _ _ _ _ (S n) Hn Hkp) by reflexivity. rewrite P2p, mrun_push. cbn [rax set_rax].
  rewrite mrun_seq.
  (* old + d *)
  assert (Hbin : runs F (bin_code Add (CLea (toff F n) ;;; CLoad (load_kind tx)) tx (CImm d) I32) (bin_type Add tx I32) r
                      (fun m' => m' = m2) (fun m' => m' = m2)).
  { apply bin_code_ok with (x := xv) (y := d) (P1 := fun m' => m' = m2); [exact Er'|exact Rxv|exact Rd|]. cbn [lhs_first]. split.
    - intros s0 k0 m0 ->. eexists; eexists. split; [reflexivity|]. split; [apply R_imm; exact Rd|reflexivity].
    - intros s0 k0 m0 ->. destruct (run_saved n tx xv s0 k0 m2 Hi0 Hks Rxv P2s) as (s' & E & HR). exists s', m2. auto. }
  match goal with |- context [run _ (?s0, ?k0, m2)] => destruct (Hbin s0 k0 m2 eq_refl) as (s5 & m5 & E5 & R5 & ->) end.
  rewrite E5. rewrite mrun_seq.
  destruct (mrun_cast F _ tx r s5 (vaddr F x :: k) m2 Rr R5) as (s6 & E6 & R6). rewrite E6. rewrite mrun_pop, mrun_seq.
  destruct (run_store F WF x env (conv tx r) (set_rdi s6 (vaddr F x)) k m2 n (n + 2) Hx A2 (conv_range _ _) R6 eq_refl)
    as (m3 & E7 & A7 & T7).
  fold tx in E7. rewrite E7.
  (* , old *)
  assert (P3s : load_le m3 (taddr F n) (nbytes tx) = urepr tx xv).
  { pose proof (run_store_mem x (set_rdi s6 (vaddr F x)) k m2 _ Hx eq_refl E7) as M3. injection M3 as ->.
    rewrite store_disjoint; [exact P2s|]. rewrite vsize_nbytes. specialize (Wvt x n Hx Hi0). unfold sep in Wvt. fold tx in Ss. lia. }
  rewrite mrun_seq2.
  destruct (run_saved n tx xv (set_rdi s6 (vaddr F x)) k m3 Hi0 Hks Rxv P3s) as (s8 & E8 & R8). rewrite E8.
  destruct (mrun_cast F tx tx xv s8 k m3 Rxv R8) as (s9 & E9 & R9). rewrite (conv_in_range _ _ Rxv) in R9.
  exists s9, m3. split; [exact E9|]. split; [exact R9|]. split; [exact A7|].
  eapply touch_trans; [exact T2|exact T7| | | |]; lia.
Qed.

(* ---------- every expression the parser can hand to gen_expr (prefix ++ / -- are rewritten before) ---------- *)
Fixpoint core (e : mexpr) : bool :=
  match e with
  | MLit _ _ | MVar _ => true
  | MUn _ a | MCast _ a | MAssign _ a | MOpAssign _ _ a => core a
  | MBin _ a b | MComma a b => core a && core b
  | MCond c a b => core c && core a && core b
  | MIncDec post _ _ => post
  end.

(* the temporaries the expression needs are in the frame, of the right kinds, from index n on *)
Definition kinds_at (n : nat) (l : list tkind) : Prop :=
  forall i k, nth_error l i = Some k -> (n + i < ntmps F)%nat /\ tkind_at F (n + i) = k.

Lemma kinds_at_app n l1 l2 : kinds_at n (l1 ++ l2) -> kinds_at n l1 /\ kinds_at (n + length l1) l2.
Proof.
  intros H. split; intros i k Hi.
  - apply H. rewrite nth_error_app1; [exact Hi|]. apply nth_error_Some. rewrite Hi. discriminate.
  - rewrite <- Nat.add_assoc. apply H. rewrite nth_error_app2 by lia. replace (length l1 + i - length l1)%nat with i by lia. exact Hi.
Qed.

Lemma temps_of_length G0 : forall e, length (temps_of G0 e) = ntemps e.
Proof.
  induction e as [t v0|x|o a IHa|o a IHa b IHb|t a IHa|c IHc a IHa b IHb|a IHa b IHb|x a IHa|o x a IHa|post inc x];
    cbn [temps_of ntemps]; rewrite ?app_length, ?IHa, ?IHb, ?IHc; cbn [length]; try lia. destruct post; reflexivity.
Qed.

Lemma kinds_at_bound n l : kinds_at n l -> (n <= ntmps F)%nat -> (n + length l <= ntmps F)%nat.
Proof.
  intros H Hn. destruct l as [|k0 l]; [cbn [length]; lia|].
  destruct (nth_error (k0 :: l) (length l)) as [k|] eqn:E.
  - destruct (H _ _ E) as [Hb _]. cbn [length]. lia.
  - apply nth_error_None in E. cbn [length] in E. lia.
Qed.

Theorem mcomp_correct : forall e, core e = true -> vars_in (nvars F) e = true ->
  forall n env v env', (n + ntemps e <= ntmps F)%nat -> kinds_at n (temps_of G e) ->
  meval G env e = Some (v, env') -> mcomputes n e env v env'.
Proof.
  induction e as [t v0|x|o a IHa|o a IHa b IHb|t a IHa|c IHc a IHa b IHb|a IHa b IHb|x a IHa|o x a IHa|post inc x];
    intros Hc Hv n env v env' Hn Hk H; cbn [core vars_in ntemps temps_of] in Hc, Hv, Hn, Hk.
  - apply case_lit. exact H.
  - apply case_var; [apply Nat.ltb_lt; exact Hv|exact H].
  - cbn [meval] in H. destruct (meval G env a) as [[x env1]|] eqn:Ea; [|discriminate].
    destruct (eval_unval o (mtype G a) x) as [r|] eqn:Er; [|discriminate]. injection H as <- <-.
    eapply case_un; [exact Ea|apply IHa; assumption|exact Er|reflexivity].
  - apply andb_true_iff in Hc as [Hca Hcb]. apply andb_true_iff in Hv as [Hva Hvb].
    apply kinds_at_app in Hk as [Hka Hkb]. rewrite temps_of_length in Hkb.
    assert (IA : forall env0 x env1, meval G env0 a = Some (x, env1) -> mcomputes n a env0 x env1)
      by (intros env0 x env1 E; apply IHa; [assumption|assumption|lia|assumption|exact E]).
    assert (IB : forall env0 y env1, meval G env0 b = Some (y, env1) -> mcomputes (n + ntemps a) b env0 y env1)
      by (intros env0 y env1 E; apply IHb; [assumption|assumption|lia|assumption|exact E]).
    destruct (is_logical o) eqn:L.
    + destruct o; try discriminate L; [apply case_land|apply case_lor]; assumption.
    + apply case_bin; assumption.
  - cbn [meval] in H. destruct (meval G env a) as [[x env1]|] eqn:Ea; [|discriminate]. injection H as <- <-.
    apply case_cast; [exact Ea|apply IHa; assumption].
  - apply andb_true_iff in Hc as [Hc Hcb]. apply andb_true_iff in Hc as [Hcc Hca].
    apply andb_true_iff in Hv as [Hv Hvb]. apply andb_true_iff in Hv as [Hvc Hva].
    apply kinds_at_app in Hk as [Hkc Hk]. rewrite temps_of_length in Hk.
    apply kinds_at_app in Hk as [Hka Hkb]. rewrite temps_of_length in Hkb.
    apply case_cond; [| | |exact H].
    + intros env0 x env1 E; apply IHc; [assumption|assumption|lia|assumption|exact E].
    + intros env0 x env1 E; apply IHa; [assumption|assumption|lia|assumption|exact E].
    + intros env0 x env1 E; apply IHb; [assumption|assumption|lia|assumption|exact E].
  - apply andb_true_iff in Hc as [Hca Hcb]. apply andb_true_iff in Hv as [Hva Hvb].
    apply kinds_at_app in Hk as [Hka Hkb]. rewrite temps_of_length in Hkb.
    apply case_comma; [| |exact H].
    + intros env0 x env1 E; apply IHa; [assumption|assumption|lia|assumption|exact E].
    + intros env0 x env1 E; apply IHb; [assumption|assumption|lia|assumption|exact E].
  - apply andb_true_iff in Hv as [Hvx Hva]. apply Nat.ltb_lt in Hvx.
    apply case_assign; [exact Hvx| |exact H].
    intros env0 y env1 E; apply IHa; [assumption|assumption|lia|assumption|exact E].
  - apply andb_true_iff in Hv as [Hvx Hva]. apply Nat.ltb_lt in Hvx.
    apply kinds_at_app in Hk as [Hka Hkp]. rewrite temps_of_length in Hkp.
    destruct (Hkp 0%nat TPtr eq_refl) as [_ Hptr]. rewrite Nat.add_0_r in Hptr.
    apply case_opassign; [exact Hvx|cbn [ntemps]; lia|exact Hptr| |exact H].
    intros env0 y env1 E; apply IHa; [assumption|assumption|lia|assumption|exact E].
  - subst post. apply Nat.ltb_lt in Hv.
    destruct (Hk 0%nat _ eq_refl) as [_ Hs]. destruct (Hk 1%nat _ eq_refl) as [_ Hp].
    rewrite Nat.add_0_r in Hs. replace (n + 1)%nat with (S n) in Hp by lia.
    apply case_postfix; [exact Hv|lia|exact Hs|exact Hp|exact H].
Qed.
End Main.
