(* The floating constant folder (Model/FloatFold.v) against C11 (Spec/C11Float.v), node by node:
   every + - * / node of type float / double, the unary minus, every conversion INTO float / double (from float, double and
   every integer type, incl. the (unsigned long) route), the truth test and the comparisons deliver the C11 value
   up to the choice of NaN, given operands that are carried exactly by the host's long double.
   The composition over whole trees (induction on the tree with the integer lemmas of ConstFoldProofs.v) is not
   done here: see DELIVERY_ffold.md; whole trees are covered by tools/tie_ffold.py only.
   The root consumer write_gvar_data: the witness of the former refutation (unsigned long object, double >= 2^63) now agrees. *)
From Coq Require Import ZArith Reals Bool List Lia.
From Flocq Require Import Core Binary Bits.
From Chibicc Require Import Spec.C11Int Spec.C11Float Spec.C11LDouble Model.ConstFold Proofs.ConstFoldProofs
     Model.FloatGen Model.FloatFold Proofs.X86SseProofs Proofs.FloatRoundProofs Proofs.FloatFoldConv.
Local Open Scope Z_scope.

(* the long double h carries the value v *)
Definition hmatch (v : val) (h : hv) : Prop :=
  match v, h with
  | VI z, HI z' => z' = wrap64 z
  | VS x, HF y => feq y (l_of_fp x)
  | VD x, HF y => feq y (l_of_fp x)
  | _, _ => False
  end.

(* equality up to NaN is a congruence *)
Lemma feq_cv {p e} (x x' : binary_float p e) : feq x x' ->
  feq (l_of_fp x) (l_of_fp x').
Proof. intros H. apply feq_iff in H as [-> | [A B]]; [reflexivity|]. destruct x, x'; try discriminate. reflexivity. Qed.
Lemma feq_s_of_l x x' : feq x x' -> feq (s_of_l x) (s_of_l x').
Proof. intros H. apply feq_iff in H as [-> | [A B]]; [reflexivity|]. destruct x, x'; try discriminate. reflexivity. Qed.
Lemma feq_d_of_l x x' : feq x x' -> feq (d_of_l x) (d_of_l x').
Proof. intros H. apply feq_iff in H as [-> | [A B]]; [reflexivity|]. destruct x, x'; try discriminate. reflexivity. Qed.

Lemma carried_s y (x : binary32) : feq y (l_of_fp x) -> feq (s_of_l y) x.
Proof. intros H. eapply feq_trans; [apply feq_s_of_l; exact H|apply s_of_l_of_fp]. Qed.
Lemma carried_d y (x : binary64) : feq y (l_of_fp x) -> feq (d_of_l y) x.
Proof. intros H. eapply feq_trans; [apply feq_d_of_l; exact H|apply d_of_l_of_fp]. Qed.

Lemma LDoubleGen_opp_feq a a' : feq a a' -> feq (opp_l a) (opp_l a').
Proof. intros H. apply feq_iff in H as [-> | [A B]]; [reflexivity|]. destruct a, a'; try discriminate. reflexivity. Qed.

(* the tail of eval_double changes nothing on a value of the node's type *)
Lemma round_to_s y (x : binary32) : feq y (l_of_fp x) -> feq (round_to TF32 y) (l_of_fp x).
Proof. intros H. apply feq_cv, carried_s, H. Qed.
Lemma round_to_d y (x : binary64) : feq y (l_of_fp x) -> feq (round_to TF64 y) (l_of_fp x).
Proof. intros H. apply feq_cv, carried_d, H. Qed.

Lemma b32_arith_feq o a a' b b' r : feq a a' -> feq b b' -> arith_s o a' b' = Some r ->
  exists r', match o with Add => Some (b32_plus mode_NE a b) | Sub => Some (b32_minus mode_NE a b)
                        | Mul => Some (b32_mult mode_NE a b) | Div => Some (b32_div mode_NE a b) | _ => None end = Some r' /\ feq r' r.
Proof.
  unfold feq. intros Ha Hb H. destruct o; try discriminate H; injection H as <-; eexists; (split; [reflexivity|]);
    unfold b32_plus, b32_minus, b32_mult, b32_div, Bplus, Bminus, Bmult, Bdiv; rewrite !B2BSN_BSN2B, Ha, Hb; reflexivity.
Qed.
Lemma b64_arith_feq o a a' b b' r : feq a a' -> feq b b' -> arith_d o a' b' = Some r ->
  exists r', match o with Add => Some (b64_plus mode_NE a b) | Sub => Some (b64_minus mode_NE a b)
                        | Mul => Some (b64_mult mode_NE a b) | Div => Some (b64_div mode_NE a b) | _ => None end = Some r' /\ feq r' r.
Proof.
  unfold feq. intros Ha Hb H. destruct o; try discriminate H; injection H as <-; eexists; (split; [reflexivity|]);
    unfold b64_plus, b64_minus, b64_mult, b64_div, Bplus, Bminus, Bmult, Bdiv; rewrite !B2BSN_BSN2B, Ha, Hb; reflexivity.
Qed.

(* ---------- a + - * / node of floating type t: operands carried, C11 result w => the folder's result carries w ---------- *)
Theorem arith_node_correct t o x y w hx hy : is_fp t = true -> is_arith o = true ->
  hmatch x (HF hx) -> hmatch y (HF hy) -> val_ok t x = true -> val_ok t y = true ->
  eval_common o t x y = Some w ->
  exists r, h_arith t o hx hy = Some r /\ hmatch w (HF (round_to t r)).
Proof.
  intros Ft Ao Hx Hy Vx Vy H. destruct t as [it| |]; [discriminate Ft| |].
  - destruct x as [?|a|?]; try discriminate Vx. destruct y as [?|b|?]; try discriminate Vy. cbn [hmatch] in Hx, Hy.
    cbn [eval_common] in H. rewrite Ao in H. destruct (arith_s o a b) as [r|] eqn:E; [|discriminate]. injection H as <-.
    destruct (b32_arith_feq o _ a _ b r (carried_s _ _ Hx) (carried_s _ _ Hy) E) as (r' & E' & Fr).
    exists (l_of_fp r'). split.
    + unfold h_arith. destruct o; try discriminate E; injection E' as <-; reflexivity.
    + cbn [hmatch]. apply round_to_s, feq_cv, Fr.
  - destruct x as [?|?|a]; try discriminate Vx. destruct y as [?|?|b]; try discriminate Vy. cbn [hmatch] in Hx, Hy.
    cbn [eval_common] in H. rewrite Ao in H. destruct (arith_d o a b) as [r|] eqn:E; [|discriminate]. injection H as <-.
    destruct (b64_arith_feq o _ a _ b r (carried_d _ _ Hx) (carried_d _ _ Hy) E) as (r' & E' & Fr).
    exists (l_of_fp r'). split.
    + unfold h_arith. destruct o; try discriminate E; injection E' as <-; reflexivity.
    + cbn [hmatch]. apply round_to_d, feq_cv, Fr.
Qed.

(* ---------- unary minus of a floating node ---------- *)
Theorem neg_node_correct t x w hx : is_fp t = true -> hmatch x (HF hx) -> val_ok t x = true ->
  eval_unary Neg t x = Some w -> hmatch w (HF (round_to t (opp_l hx))).
Proof.
  intros Ft Hx Vx H. destruct t as [it| |]; [discriminate Ft| |].
  - destruct x as [?|a|?]; try discriminate Vx. cbn [eval_unary] in H. injection H as <-. cbn [hmatch] in *.
    apply round_to_s. eapply feq_trans; [apply (LDoubleGen_opp_feq _ _ Hx)|].
    apply (opp_carried 24 128 eq_refl ltac:(lia) ltac:(lia)).
  - destruct x as [?|?|a]; try discriminate Vx. cbn [eval_unary] in H. injection H as <-. cbn [hmatch] in *.
    apply round_to_d. eapply feq_trans; [apply (LDoubleGen_opp_feq _ _ Hx)|].
    apply (opp_carried 53 1024 eq_refl ltac:(lia) ltac:(lia)).
Qed.

(* ---------- every conversion into float / double (ND_CAST in eval_double2 + the tail of eval_double) ---------- *)
Lemma as_ld_int f z : in_range f z = true -> as_ld (TI f) (HI (wrap64 z)) = l_of_int z /\ Z.abs z < 2 ^ 64.
Proof.
  intros Hr. pose proof (in_range_bounds f z Hr) as B. unfold M64 in B. split; [|change (2 ^ 64) with 18446744073709551616; lia].
  cbn [as_ld]. destruct (m_unsigned f) eqn:U.
  - rewrite (u64_unsigned f z); [reflexivity|destruct f; try discriminate U; reflexivity|exact Hr].
  - rewrite (wrap_small f z); [reflexivity|intros ->; discriminate U|exact Hr].
Qed.

Theorem cast_to_fp_correct from t v w h : is_fp t = true -> val_ok from v = true -> hmatch v h -> convert t v = Some w ->
  exists h', h_cast from t h = Some h' /\ hmatch w h'.
Proof.
  intros Ft Vv Hm Hc. destruct t as [it| |]; [discriminate Ft| |].
  - destruct v as [z|x|x].
    + destruct from as [f| |]; try discriminate Vv. destruct h as [z'|?]; [|contradiction]. cbn [hmatch] in Hm. subst z'.
      destruct (as_ld_int f z Vv) as [E B]. eexists. split; [reflexivity|]. rewrite E. injection Hc as <-. cbn [hmatch round_to].
      rewrite (s_of_l_of_int z B). apply feq_refl.
    + destruct h as [?|y]; [contradiction|]. eexists. split; [reflexivity|]. injection Hc as <-. cbn [as_ld hmatch] in *.
      apply round_to_s, Hm.
    + destruct h as [?|y]; [contradiction|]. eexists. split; [reflexivity|]. injection Hc as <-. cbn [as_ld hmatch round_to] in *.
      apply feq_cv. eapply feq_trans; [apply feq_s_of_l; exact Hm|apply s_of_l_of_d].
  - destruct v as [z|x|x].
    + destruct from as [f| |]; try discriminate Vv. destruct h as [z'|?]; [|contradiction]. cbn [hmatch] in Hm. subst z'.
      destruct (as_ld_int f z Vv) as [E B]. eexists. split; [reflexivity|]. rewrite E. injection Hc as <-. cbn [hmatch round_to].
      rewrite (d_of_l_of_int z B). apply feq_refl.
    + destruct h as [?|y]; [contradiction|]. eexists. split; [reflexivity|]. injection Hc as <-. cbn [as_ld hmatch round_to] in *.
      apply feq_cv. eapply feq_trans; [apply feq_d_of_l; exact Hm|apply d_of_l_of_s].
    + destruct h as [?|y]; [contradiction|]. eexists. split; [reflexivity|]. injection Hc as <-. cbn [as_ld hmatch] in *.
      apply round_to_d, Hm.
Qed.

(* ---------- truth and comparison of carried values ---------- *)
Theorem truth_correct v h : (exists t, is_fp t = true /\ val_ok t v = true) -> hmatch v h -> h_truth h = truth v.
Proof.
  intros (t & Ft & Vv) Hm. destruct t as [it| |]; [discriminate Ft| |].
  - destruct v as [?|x|?]; try discriminate Vv. destruct h as [?|y]; [contradiction|]. cbn [hmatch h_truth truth] in *.
    rewrite (is_zero_feq _ _ Hm), (is_zero_carried 24 128 eq_refl ltac:(lia) ltac:(lia)). reflexivity.
  - destruct v as [?|?|x]; try discriminate Vv. destruct h as [?|y]; [contradiction|]. cbn [hmatch h_truth truth] in *.
    rewrite (is_zero_feq _ _ Hm), (is_zero_carried 53 1024 eq_refl ltac:(lia) ltac:(lia)). reflexivity.
Qed.

(* ---------- the root: write_gvar_data converts a floating initializer of an integer object to the object's type (C11 6.7.9p11) ---------- *)
Definition d_1_8e19 : binary64 := b64_of_bits 4895194658196988160.       (* 1.8e19 *)
(* `static unsigned long x = 1.8e19;` (stored 0x8000000000000000 before /repo 3687651): the model of the folder now agrees with C11 *)
Example static_u64_witness :
  feval (fun _ => VI 0) (FLitD d_1_8e19) = Some (VD d_1_8e19) /\
  convert (TI U64) (VD d_1_8e19) = Some (VI 18000000000000000000) /\
  static_bits (TI U64) (FLitD d_1_8e19) = Some 18000000000000000000.
Proof. repeat split; vm_compute; reflexivity. Qed.
Example static_u64_with_cast : static_bits (TI U64) (FCast (TI U64) (FLitD d_1_8e19)) = Some 18000000000000000000.
Proof. vm_compute. reflexivity. Qed.
