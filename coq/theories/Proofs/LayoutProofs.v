(* The offset arithmetic of struct_decl places every member where the psABI conditions say. *)
From Chibicc Require Import Base.Mach Model.Layout Spec.LayoutSpec.
Local Open Scope N_scope.

(* ---------- align_to is "the least multiple not below" ---------- *)
Lemma align_to_facts n a : 0 < a ->
  n <= align_to n a /\ align_to n a < n + a /\ N.divide a (align_to n a).
Proof.
  intros Ha. unfold align_to.
  pose proof (N.div_mod (n + a - 1) a ltac:(lia)) as E.
  pose proof (N.mod_upper_bound (n + a - 1) a ltac:(lia)) as B.
  set (q := (n + a - 1) / a) in *. set (r := (n + a - 1) mod a) in *.
  split; [nia|]. split; [nia|]. exists q. reflexivity.
Qed.

Lemma align_to_least n a : 0 < a -> least (fun p => n <= p /\ N.divide a p) (align_to n a).
Proof.
  intros Ha. destruct (align_to_facts n a Ha) as [H1 [H2 H3]].
  split; [split; assumption|].
  intros q [Hq [k Hk]]. destruct H3 as [k0 Hk0].
  destruct (N.le_gt_cases (align_to n a) q) as [|Hlt]; [assumption|exfalso].
  assert (k < k0) by nia. assert (k + 1 <= k0) by lia. nia.
Qed.

Lemma align_to_fixed n a : 0 < a -> N.divide a n -> align_to n a = n.
Proof.
  intros Ha [k Hk]. unfold align_to. subst n.
  replace (k * a + a - 1) with ((a - 1) + k * a) by lia.
  rewrite N.div_add by lia. rewrite (N.div_small (a - 1) a) by lia. lia.
Qed.

(* ---------- division facts for the bit-field rule ---------- *)
Lemma div_eq_iff x u k : 0 < u -> (x / u = k <-> k * u <= x < (k + 1) * u).
Proof.
  intros Hu. pose proof (N.div_mod x u ltac:(lia)). pose proof (N.mod_upper_bound x u ltac:(lia)).
  split; intros E.
  - subst k. nia.
  - symmetry. apply (N.div_unique x u k (x - k * u)); nia.
Qed.

Definition wf_member (m : minfo) : Prop :=
  0 < m_align m /\
  match m_bf m with Some w => 0 < m_size m /\ w <= 8 * m_size m | None => True end.

Definition straddles (cur : N) (m : minfo) : bool :=
  match m_bf m with
  | Some 0 => false
  | Some w => negb (cur / (m_size m * 8) =? (cur + w - 1) / (m_size m * 8))
  | None => false
  end.

(* the one construct where the code knowingly differs from the psABI: a bit-field that would
   cross a storage-unit boundary inside a packed struct is still moved to the next unit *)
Definition known_bad (packed : bool) (cur : N) (m : minfo) : bool := packed && straddles cur m.

Lemma bitfield_start_bit bits sz : 0 < sz ->
  8 * align_down (bits / 8) sz + bits mod (sz * 8) = bits.
Proof.
  intros Hs. unfold align_down. rewrite N.div_div by lia.
  replace (8 * sz) with (sz * 8) by lia.
  pose proof (N.div_mod bits (sz * 8) ltac:(lia)). nia.
Qed.

Theorem struct_step_psabi packed st m :
  wf_member m -> known_bad packed (ls_bits st) m = false ->
  exists p, least (can_start packed (ls_bits st) m) p /\
            ls_bits (snd (struct_step packed st m)) = p + bit_len m /\
            (m_bf m <> Some 0 -> start_bit (fst (struct_step packed st m)) = p) /\
            (forall w, m_bf m = Some w -> 0 < w ->
               N.divide (m_size m) (p_off (fst (struct_step packed st m))) /\
               p_bit (fst (struct_step packed st m)) + w <= 8 * m_size m \/ packed = true).
Proof.
  intros [Hal Hwf] Hkb. unfold struct_step, known_bad, straddles, can_start, bit_len, start_bit in *.
  set (cur := ls_bits st) in *.
  destruct (m_bf m) as [w|] eqn:Ebf; cbn [fst snd ls_bits p_off p_bit].
  - destruct Hwf as [Hsz Hw].
    destruct (N.eq_dec w 0) as [->|Hw0].
    + (* zero width: next unit boundary *)
      cbn [fst snd ls_bits p_off p_bit].
      exists (align_to cur (m_size m * 8)).
      replace (8 * m_size m) with (m_size m * 8) by lia.
      split; [apply align_to_least; lia|]. split; [cbn; lia|]. split; [congruence|].
      intros w' E; inversion E; lia.
    + destruct w as [|pw] eqn:Ew; [congruence|]. rewrite <- Ew in *. clear Ew pw.
      set (u := m_size m * 8) in *. assert (Hu : 0 < u) by (unfold u; lia).
      replace (8 * m_size m) with u in * by (unfold u; lia).
      destruct (cur / u =? (cur + w - 1) / u) eqn:Est; cbn [negb fst snd ls_bits p_off p_bit].
      * (* fits in the current unit *)
        apply N.eqb_eq in Est.
        exists cur. split.
        { split; [split; [lia|right; exact Est]|]. intros q [Hq _]. exact Hq. }
        split; [reflexivity|]. split; [intros _; apply bitfield_start_bit; lia|].
        intros w' E Hw'; inversion E; subst w'. left. split.
        { unfold align_down. exists (cur / 8 / m_size m). reflexivity. }
        { fold u. pose proof (proj1 (div_eq_iff (cur + w - 1) u (cur / u) Hu) (eq_sym Est)).
          pose proof (N.div_mod cur u ltac:(lia)). nia. }
      * (* would cross a boundary: the code moves it to the next unit *)
        apply N.eqb_neq in Est.
        assert (Hp : packed = false) by (destruct packed; [discriminate Hkb|reflexivity]).
        subst packed.
        destruct (align_to_facts cur u Hu) as [A1 [A2 [k Hk]]].
        set (p := align_to cur u) in *.
        assert (Hpk : p / u = k) by (apply div_eq_iff; nia).
        assert (Hpw : (p + w - 1) / u = k) by (apply div_eq_iff; nia).
        exists p. split.
        { split; [split; [lia|right; congruence]|].
          intros q [Hq [Hf|Hq2]]; [discriminate|].
          destruct (N.le_gt_cases p q) as [|Hlt]; [assumption|exfalso].
          (* q lies in the unit of cur, which cur + w - 1 leaves, so q + w - 1 leaves it too *)
          pose proof (N.div_mod cur u ltac:(lia)) as D1. pose proof (N.mod_upper_bound cur u ltac:(lia)) as D2.
          set (c := cur / u) in *. set (r := cur mod u) in *.
          assert (Hc1 : (c + 1) * u <= cur + w - 1).
          { destruct (N.le_gt_cases ((c + 1) * u) (cur + w - 1)) as [|Hl]; [assumption|exfalso].
            apply Est. symmetry. apply div_eq_iff; [assumption|]. split; lia. }
          assert (Hk1 : k < c + 2).
          { apply (N.mul_lt_mono_pos_r u); [assumption|]. lia. }
          assert (Hk2 : c < k).
          { apply (N.mul_lt_mono_pos_r u); [assumption|]. lia. }
          assert (Hkc : k = c + 1) by lia. subst k.
          assert (Hqc : q / u = c) by (apply div_eq_iff; [assumption|]; split; lia).
          rewrite Hqc in Hq2. symmetry in Hq2. apply div_eq_iff in Hq2; [|assumption]. lia. }
        split; [reflexivity|]. split; [intros _; apply bitfield_start_bit; lia|].
        intros w' E Hw'; inversion E; subst w'. left. split.
        { unfold align_down. exists (p / 8 / m_size m). reflexivity. }
        { fold u. rewrite Hk. rewrite N.mod_mul by lia. lia. }
  - (* ordinary member *)
    set (a := if packed then 8 else m_align m * 8).
    assert (Ha : 0 < a) by (unfold a; destruct packed; lia).
    exists (align_to cur a).
    replace (if packed then 8 else 8 * m_align m) with a by (unfold a; destruct packed; lia).
    split; [apply align_to_least; assumption|].
    split; [lia|]. split.
    + intros _. destruct (align_to_facts cur a Ha) as [_ [_ [k Hk]]].
      assert (N.divide 8 (align_to cur a)).
      { rewrite Hk. unfold a. destruct packed; [exists k; lia| exists (k * m_align m); lia]. }
      destruct H as [j Hj]. rewrite Hj. rewrite N.div_mul by lia. lia.
    + intros w E; discriminate.
Qed.

(* ---------- whole structs ---------- *)
Fixpoint no_bad (packed : bool) (st : lstate) (ms : list minfo) : bool :=
  match ms with
  | [] => true
  | m :: r => negb (known_bad packed (ls_bits st) m) && no_bad packed (snd (struct_step packed st m)) r
  end.

(* the placements computed by the code, as absolute bit positions (zero-width bit-fields have
   no storage; their recorded position is where the boundary was forced) *)
Fixpoint positions (packed : bool) (st : lstate) (ms : list minfo) : list N :=
  match ms with
  | [] => []
  | m :: r =>
    let st' := snd (struct_step packed st m) in
    (ls_bits st' - bit_len m) :: positions packed st' r
  end.

Lemma struct_members_psabi packed : forall ms st,
  Forall wf_member ms -> no_bad packed st ms = true ->
  psabi_members packed (ls_bits st) ms (positions packed st ms) (ls_bits (snd (struct_members packed st ms))).
Proof.
  induction ms as [|m r IH]; intros st Hwf Hnb; cbn [struct_members positions snd fst].
  - constructor.
  - inversion Hwf as [|? ? Hm Hr]; subst. cbn [no_bad] in Hnb.
    apply andb_true_iff in Hnb as [Hb Hnb]. apply negb_true_iff in Hb.
    destruct (struct_step_psabi packed st m Hm Hb) as [p [Hl [He _]]].
    rewrite He. replace (p + bit_len m - bit_len m) with p by lia.
    econstructor; [exact Hl|]. rewrite <- He. apply IH; assumption.
Qed.

(* where the code records a member = the psABI position (members with storage) *)
Lemma struct_members_places packed : forall ms st,
  Forall wf_member ms -> no_bad packed st ms = true ->
  Forall2 (fun mp pos => m_bf (fst mp) <> Some 0 -> start_bit (snd mp) = pos)
          (combine ms (fst (struct_members packed st ms))) (positions packed st ms).
Proof.
  induction ms as [|m r IH]; intros st Hwf Hnb; cbn [struct_members positions snd fst combine].
  - constructor.
  - inversion Hwf as [|? ? Hm Hr]; subst. cbn [no_bad] in Hnb.
    apply andb_true_iff in Hnb as [Hb Hnb]. apply negb_true_iff in Hb.
    destruct (struct_step_psabi packed st m Hm Hb) as [p [Hl [He [Hs _]]]].
    constructor; [|apply IH; assumption].
    cbn [fst snd]. intros Hz. rewrite He. rewrite (Hs Hz). lia.
Qed.

(* members never overlap and appear in declaration order: each starts at or after the end of
   every earlier one *)
Lemma psabi_members_ordered packed : forall ms cur ps e,
  psabi_members packed cur ms ps e ->
  cur <= e /\ Forall (fun p => cur <= p) ps /\
  (forall i j pi pj mi, (i < j)%nat -> nth_error ps i = Some pi -> nth_error ps j = Some pj ->
     nth_error ms i = Some mi -> pi + bit_len mi <= pj) /\
  (forall i pi mi, nth_error ps i = Some pi -> nth_error ms i = Some mi -> pi + bit_len mi <= e).
Proof.
  induction ms as [|m r IH]; intros cur ps e H; inversion H; subst.
  - split; [lia|]. split; [constructor|]. split; intros; destruct i; discriminate.
  - match goal with Hl : least _ _ |- _ => destruct Hl as [[Hcp _] _] end.
    match goal with Hr : psabi_members _ _ r _ _ |- _ => destruct (IH _ _ _ Hr) as [H1 [H2 [H3 H4]]] end.
    split; [lia|]. split.
    { constructor; [assumption|]. eapply Forall_impl; [|exact H2]. cbv beta. intros; lia. }
    split.
    { intros i j pi pj mi Hij Hi Hj Hmi. destruct i as [|i]; destruct j as [|j]; try lia.
      - cbn in Hi, Hmi. inversion Hi; inversion Hmi; subst. cbn in Hj.
        rewrite Forall_forall in H2. apply H2. eapply nth_error_In; eauto.
      - cbn in Hi, Hj, Hmi. apply (H3 i j pi pj mi); [lia|assumption|assumption|assumption]. }
    { intros i pi mi Hi Hmi. destruct i as [|i]; cbn in Hi, Hmi.
      - inversion Hi; inversion Hmi; subst. lia.
      - eapply H4; eauto. }
Qed.

Lemma step_align packed st m :
  ls_align (snd (struct_step packed st m)) =
  if negb packed && negb (unnamed_bf m) && (ls_align st <? m_align m) then m_align m else ls_align st.
Proof. reflexivity. Qed.

Lemma struct_align_psabi packed : forall ms st,
  psabi_align packed (ls_align st) ms (ls_align (snd (struct_members packed st ms))).
Proof.
  unfold psabi_align. destruct packed.
  - induction ms as [|m r IH]; intros st; cbn [struct_members snd]; [reflexivity|].
    rewrite IH. rewrite step_align. reflexivity.
  - induction ms as [|m r IH]; intros st; cbn [struct_members snd].
    + split; [split; [lia|intros m []]|]. intros q [Hq _]. exact Hq.
    + specialize (IH (snd (struct_step false st m))). rewrite step_align in IH. cbn [negb andb] in IH.
      destruct IH as [[I1 I2] I3].
      destruct (unnamed_bf m) eqn:Eu; cbn [negb andb] in *.
      * split; [split; [exact I1|]|].
        { intros m' [->|Hin] Hu; [congruence|]. apply I2; assumption. }
        { intros q [Hq1 Hq2]. apply I3. split; [assumption|]. intros m' Hin Hu. apply Hq2; [right; assumption|assumption]. }
      * destruct (ls_align st <? m_align m) eqn:El.
        { split; [split; [lia|]|].
          { intros m' [->|Hin] Hu; [lia|]. apply I2; assumption. }
          { intros q [Hq1 Hq2]. apply I3. split.
            - apply Hq2; [left; reflexivity|assumption].
            - intros m' Hin Hu. apply Hq2; [right; assumption|assumption]. } }
        { split; [split; [exact I1|]|].
          { intros m' [->|Hin] Hu; [lia|]. apply I2; assumption. }
          { intros q [Hq1 Hq2]. apply I3. split; [assumption|]. intros m' Hin Hu. apply Hq2; [right; assumption|assumption]. } }
Qed.

Lemma struct_size_psabi bits al : 0 < al -> psabi_size bits al (align_to bits (al * 8) / 8).
Proof.
  intros Ha. unfold psabi_size.
  destruct (align_to_facts bits (al * 8) ltac:(lia)) as [A1 [A2 [k Hk]]].
  rewrite Hk. replace (k * (al * 8)) with (k * al * 8) by lia. rewrite N.div_mul by lia.
  split; [split; [lia|exists k; reflexivity]|].
  intros s [Hs [j Hj]]. subst s.
  destruct (align_to_least bits (al * 8) ltac:(lia)) as [_ Hl].
  specialize (Hl (j * al * 8)). rewrite Hk in Hl.
  assert (k * (al * 8) <= j * al * 8) by (apply Hl; split; [lia|exists j; lia]). nia.
Qed.

Theorem struct_layout_psabi packed align0 ms :
  Forall wf_member ms -> 0 < align0 ->
  no_bad packed {| ls_bits := 0; ls_align := align0 |} ms = true ->
  let L := struct_layout packed align0 ms in
  let pos := positions packed {| ls_bits := 0; ls_align := align0 |} ms in
  exists e,
    psabi_members packed 0 ms pos e /\
    psabi_align packed align0 ms (l_align L) /\
    psabi_size e (l_align L) (l_size L) /\
    Forall2 (fun mp p => m_bf (fst mp) <> Some 0 -> start_bit (snd mp) = p) (combine ms (l_places L)) pos.
Proof.
  intros Hwf Ha Hnb L pos. unfold L, pos, struct_layout. cbn [l_size l_align l_places].
  set (st0 := {| ls_bits := 0; ls_align := align0 |}) in *.
  exists (ls_bits (snd (struct_members packed st0 ms))).
  split; [apply (struct_members_psabi packed ms st0); assumption|].
  split; [apply (struct_align_psabi packed ms st0)|].
  split; [|apply struct_members_places; assumption].
  apply struct_size_psabi.
  (* alignment stays positive *)
  pose proof (struct_align_psabi packed ms st0) as Hal. unfold psabi_align in Hal.
  destruct packed; [rewrite Hal; exact Ha|]. destruct Hal as [[H _] _]. cbn in H. lia.
Qed.

(* the known exclusion is real: in a packed struct the code moves a straddling bit-field, the psABI does not *)
Example known_bad_is_real :
  let ms := [ {| m_size := 1; m_align := 1; m_bf := None; m_named := true |};
              {| m_size := 4; m_align := 4; m_bf := Some 30; m_named := true |} ] in
  no_bad true {| ls_bits := 0; ls_align := 1 |} ms = false /\
  l_size (struct_layout true 1 ms) = 8 /\
  psabi_members true 0 ms [0; 8] 38.
Proof.
  cbv zeta. split; [vm_compute; reflexivity|]. split; [vm_compute; reflexivity|].
  econstructor.
  - split; [split; [lia| exists 0; reflexivity]|]. intros q [Hq _]. exact Hq.
  - cbn [bit_len m_bf m_size]. econstructor; [|constructor].
    split; [split; [lia|left; reflexivity]|]. intros q [Hq _]. exact Hq.
Qed.
