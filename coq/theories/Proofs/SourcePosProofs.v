From Chibicc Require Import Base.Mach Model.Lexer Model.Phases Model.SourcePos Proofs.PhasesProofs.
Local Open Scope N_scope.

Section P.
Variable pt : list (list N).

(* lex_pos is lex with positions added *)
Lemma lex_pos_erase : forall f p bol sp,
  match lex_pos pt f p bol sp with
  | Some l => lex pt f p bol sp = LexOk (map fst l)
  | None => lex pt f p bol sp = LexErr
  end.
Proof.
  induction f as [|f IH]; intros p bol sp; cbn [lex_pos lex].
  - destruct p; reflexivity.
  - destruct p as [|c r]; [reflexivity|].
    destruct (starts_with (c :: r) [47; 47]); [apply IH|].
    destruct (starts_with (c :: r) [47; 42]).
    { destruct (skip_block_comment (skipn 2 (c :: r))); [apply IH|reflexivity]. }
    destruct (c =? 10); [apply IH|]. destruct (is_space c); [apply IH|].
    destruct (first_token pt (c :: r)) as [[k n]|]; [|reflexivity].
    specialize (IH (skipn n (c :: r)) false false).
    destruct (lex_pos pt f (skipn n (c :: r)) false false); rewrite IH; reflexivity.
Qed.

(* every token position is inside the buffer *)
Lemma locate_sound s j ph k : locate s j = Some (ph, k) ->
  (line_at (phases12 s) j + k = ph)%nat.
Proof.
  unfold locate. destruct (nth_error (splice_idx 0 0 (canon s)) j) as [[b [[i k']|]]|] eqn:E1; try discriminate.
  destruct (nth_error (canon_idx 0 s) i) as [[b' o]|] eqn:E2; try discriminate.
  destruct (b =? b') eqn:Eb; try discriminate. apply N.eqb_eq in Eb. subst b'.
  intros H. injection H as <- <-. eapply phases_line_lag; eassumption.
Qed.

Lemma annotate_sound s l : forall r, annotate s (phases12 s) l = Some r ->
  forall tp, In tp r -> (tp_line tp + tp_pending tp = tp_phys tp)%nat.
Proof.
  induction l as [|[t rest] l IH]; cbn [annotate]; intros r H tp Hin.
  - injection H as <-. destruct Hin.
  - destruct (locate s (length (phases12 s) - rest)) as [[ph k]|] eqn:El; try discriminate.
    destruct (annotate s (phases12 s) l) as [r'|]; try discriminate. injection H as <-.
    destruct Hin as [<-|Hin]; [|eapply IH; [reflexivity|exact Hin]].
    cbn [tp_line tp_pending tp_phys]. apply locate_sound. exact El.
Qed.

(* the line number of every token, plus the splices pending at its first byte, is the physical
   line of that byte in the loaded file *)
Theorem token_lines_sound file l : token_lines pt file = Some l ->
  forall tp, In tp l -> (tp_line tp + tp_pending tp = tp_phys tp)%nat.
Proof.
  unfold token_lines. destruct (lex_pos pt _ _ true false); [|discriminate]. apply annotate_sound.
Qed.

Corollary token_lines_exact file l tp : token_lines pt file = Some l -> In tp l ->
  tp_pending tp = 0%nat -> tp_line tp = tp_phys tp.
Proof. intros H Hin Hk. pose proof (token_lines_sound _ _ H _ Hin). lia. Qed.

(* the tokens are those of the C19 lexer model on the processed buffer *)
Lemma annotate_toks s buf l : forall r, annotate s buf l = Some r -> map tp_tok r = map fst l.
Proof.
  induction l as [|[t rest] l IH]; cbn [annotate]; intros r H.
  - injection H as <-. reflexivity.
  - destruct (locate s _) as [[ph k]|]; try discriminate.
    destruct (annotate s buf l) as [r'|]; try discriminate. injection H as <-.
    cbn [map tp_tok fst]. f_equal. apply IH. reflexivity.
Qed.

Theorem token_lines_tokens file l : token_lines pt file = Some l ->
  tokenize pt (phases12 (load file)) = LexOk (map tp_tok l).
Proof.
  unfold token_lines, tokenize. pose proof (lex_pos_erase (S (length (phases12 (load file)))) (phases12 (load file)) true false) as He.
  destruct (lex_pos pt _ _ true false) as [l0|]; [|discriminate]. intros H. rewrite He. f_equal. symmetry. eapply annotate_toks. exact H.
Qed.
End P.

(* loading: the final new-line added by read_file and the BOM skip do not move any line *)
Lemma terms_before_app s t i : (i < length s)%nat -> terms_before (s ++ t) i = terms_before s i.
Proof.
  revert i; induction s as [|c r IH]; intros i Hi; [cbn in Hi; lia|].
  destruct i as [|i]; [reflexivity|]. cbn [app terms_before]. cbn [length] in Hi.
  rewrite IH by lia. f_equal. unfold ends_line. destruct r as [|d r']; [cbn in Hi; lia|]. reflexivity.
Qed.

Theorem terminate_lines s i : (i < length s)%nat -> phys_line (terminate s) i = phys_line s i.
Proof.
  intros Hi. unfold terminate, phys_line. destruct (rev s) as [|c ?]; [|destruct (c =? 10) eqn:E].
  - rewrite terms_before_app by exact Hi. reflexivity.
  - apply N.eqb_eq in E. subst c. reflexivity.
  - assert (Hd : match c with 10 => s | _ => s ++ [10] end = s ++ [10]).
    { destruct c as [|p]; [reflexivity|]. do 4 (destruct p as [p|p|]; try reflexivity). discriminate. }
    rewrite Hd, terms_before_app by exact Hi. reflexivity.
Qed.

Theorem bom_lines r i : phys_line (239 :: 187 :: 191 :: r) (3 + i) = phys_line r i.
Proof. reflexivity. Qed.
