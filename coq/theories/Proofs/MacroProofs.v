From Chibicc Require Import Base.Mach Model.Lexer Model.Macro.
Local Open Scope N_scope.

Lemma txt_eqb_refl a : txt_eqb a a = true.
Proof. induction a as [|x a IH]; cbn; [reflexivity|]. rewrite N.eqb_refl. exact IH. Qed.
Lemma txt_eqb_eq a b : txt_eqb a b = true -> a = b.
Proof.
  revert b; induction a as [|x a IH]; intros [|y b] H; cbn in H; try discriminate; [reflexivity|].
  apply andb_prop in H. destruct H as [H1 H2]. apply N.eqb_eq in H1. subst y. f_equal. apply IH. exact H2.
Qed.

Definition suffix (a b : list mtok) : Prop := exists pre, b = pre ++ a.
Lemma suffix_refl a : suffix a a. Proof. exists []. reflexivity. Qed.
Lemma suffix_cons a b t : suffix a b -> suffix a (t :: b).
Proof. intros [pre ->]. exists (t :: pre). reflexivity. Qed.
Lemma suffix_trans a b c : suffix a b -> suffix b c -> suffix a c.
Proof. intros [p ->] [q ->]. exists (q ++ p). rewrite app_assoc. reflexivity. Qed.
Lemma suffix_length a b : suffix a b -> (length a <= length b)%nat.
Proof. intros [p ->]. rewrite app_length. lia. Qed.

Lemma read_arg_one_suffix rr : forall ts lvl a rest, read_arg_one rr lvl ts = Some (a, rest) -> suffix rest ts /\ rest <> [].
Proof.
  induction ts as [|t r IH]; intros lvl a rest H; cbn in H; [discriminate|].
  destruct (Nat.eqb lvl 0 && is t RP); [injection H as <- <-; split; [apply suffix_refl|discriminate]|].
  destruct (Nat.eqb lvl 0 && negb rr && is t COMMA); [injection H as <- <-; split; [apply suffix_refl|discriminate]|].
  destruct (read_arg_one rr _ r) as [[a' rest']|] eqn:E; [|discriminate]. injection H as <- <-.
  destruct (IH _ _ _ E) as [S N]. split; [apply suffix_cons; exact S|exact N].
Qed.

Lemma skip_suffix s ts r : skip s ts = Some r -> suffix r ts.
Proof. destruct ts as [|t q]; cbn; [discriminate|]. destruct (is t s); [|discriminate]. intros H; injection H as <-. apply suffix_cons, suffix_refl. Qed.

Lemma read_fixed_args_suffix : forall ps first ts l rest, read_fixed_args first ps ts = Some (l, rest) -> suffix rest ts.
Proof.
  induction ps as [|p ps IH]; intros first ts l rest H; cbn in H; [injection H as <- <-; apply suffix_refl|].
  destruct (if first then Some ts else skip COMMA ts) as [ts1|] eqn:E1; [|discriminate].
  assert (S1 : suffix ts1 ts) by (destruct first; [injection E1 as <-; apply suffix_refl|eapply skip_suffix; exact E1]).
  destruct (read_arg_one false 0 ts1) as [[a r1]|] eqn:E2; [|discriminate].
  destruct (read_fixed_args false ps r1) as [[l' r2]|] eqn:E3; [|discriminate]. injection H as <- <-.
  eapply suffix_trans; [eapply IH; exact E3|]. eapply suffix_trans; [eapply read_arg_one_suffix; exact E2|exact S1].
Qed.

Lemma read_macro_args_suffix ps va ts args rp after : read_macro_args ps va ts = Some (args, rp, after) -> suffix after ts.
Proof.
  unfold read_macro_args. destruct (read_fixed_args true ps ts) as [[a0 rest]|] eqn:E; [|discriminate].
  pose proof (read_fixed_args_suffix _ _ _ _ _ E) as S0.
  set (wv := match va with None => Some (a0, rest) | Some _ => _ end).
  assert (Hw : forall a r, wv = Some (a, r) -> suffix r ts).
  { subst wv. intros a r. destruct va as [vn|]; [|intros H; injection H as <- <-; exact S0].
    destruct rest as [|t rr]; [discriminate|]. destruct (is t RP); [intros H; injection H as <- <-; exact S0|].
    destruct (match ps with [] => Some (t :: rr) | _ => skip COMMA (t :: rr) end) as [r1|] eqn:E1; [|discriminate].
    assert (S1 : suffix r1 (t :: rr)) by (destruct ps; [injection E1 as <-; apply suffix_refl|eapply skip_suffix; exact E1]).
    destruct (read_arg_one true 0 r1) as [[av r2]|] eqn:E2; [|discriminate]. intros H; injection H as <- <-.
    eapply suffix_trans; [eapply read_arg_one_suffix; exact E2|]. eapply suffix_trans; [exact S1|exact S0]. }
  destruct wv as [[a' [|t r]]|]; try discriminate. destruct (is t RP); [|discriminate]. intros H; injection H as <- <- <-.
  eapply suffix_trans; [apply suffix_cons, suffix_refl|]. eapply Hw. reflexivity.
Qed.

Section P.
Variable pt : list (list N).

(* blue paint: a token whose hide set contains its own spelling is never replaced *)
Theorem painted_not_replaced pp e t rest :
  hs_contains (m_hs t) (m_txt t) = true -> expand_macro pt pp e t rest = NoExp.
Proof. intros H. unfold expand_macro. rewrite H. reflexivity. Qed.

Definition painted (nm : name) (t : mtok) : Prop := hs_contains (m_hs t) nm = true.

Lemma add_hideset_painted hs body nm : hs_contains hs nm = true -> Forall (painted nm) (add_hideset hs body).
Proof.
  intros H. unfold add_hideset. apply Forall_forall. intros t' Hin. apply in_map_iff in Hin.
  destruct Hin as (t0 & <- & _). unfold painted. cbn [m_hs]. unfold hs_contains, hs_union in *. rewrite existsb_app. apply orb_true_iff. right. exact H.
Qed.
Lemma hs_contains_last hs nm : hs_contains (hs_union hs [nm]) nm = true.
Proof. unfold hs_contains, hs_union. rewrite existsb_app. cbn. rewrite txt_eqb_refl. rewrite orb_true_r. reflexivity. Qed.
Lemma set_flags_painted nm bol sp l : Forall (painted nm) l -> Forall (painted nm) (set_flags bol sp l).
Proof. destruct l as [|t r]; cbn; [auto|]. intros H. inversion H; subst. constructor; [exact H2|exact H3]. Qed.

(* every token that replaces an invocation of M carries M in its hide set, so M is not replaced
   again during rescanning; the text after the invocation is passed on untouched *)
Theorem replacement_painted pp e t rest ts : expand_macro pt pp e t rest = Exp ts ->
  exists body after, ts = body ++ after /\ Forall (painted (m_txt t)) body /\ suffix after rest.
Proof.
  unfold expand_macro. destruct (hs_contains (m_hs t) (m_txt t)); [discriminate|].
  destruct (find_macro e t) as [m|]; [|discriminate]. destruct (mc_obj m).
  - destruct (subst pt pp true _ _ _ _) as [body| | |]; try discriminate. intros H. injection H as <-.
    eexists _, rest. split; [reflexivity|]. split; [|apply suffix_refl].
    apply set_flags_painted, add_hideset_painted, hs_contains_last.
  - destruct rest as [|lp r]; [discriminate|]. destruct (is lp LP); [|discriminate].
    destruct (read_macro_args _ _ r) as [[[args rparen] after]|] eqn:Ea; [|discriminate].
    destruct (subst pt pp false _ _ _ _) as [body| | |]; try discriminate. intros H. injection H as <-.
    eexists _, after. split; [reflexivity|]. split; [apply set_flags_painted, add_hideset_painted, hs_contains_last|].
    apply suffix_cons. eapply read_macro_args_suffix. exact Ea.
Qed.

(* a function-like macro name not followed by "(" is left alone *)
Theorem funlike_needs_paren pp e t rest m : find_macro e t = Some m -> mc_obj m = false ->
  match rest with lp :: _ => is lp LP = false | [] => True end -> expand_macro pt pp e t rest = NoExp.
Proof.
  intros Hm Ho Hr. unfold expand_macro. destruct (hs_contains _ _); [reflexivity|]. rewrite Hm, Ho.
  destruct rest as [|lp r]; [reflexivity|]. rewrite Hr. reflexivity.
Qed.
End P.

Section Q.
Variable pt : list (list N).

(* subst's own loop counter (one more than the length of the replacement list) never runs out:
   a Fuel result can only come from the expansion of an argument *)
Lemma tl_length (r : list mtok) : (length (tl r) <= length r)%nat.
Proof. destruct r; cbn; lia. Qed.

Lemma read_arg_one_length rr : forall ts lvl a rest, read_arg_one rr lvl ts = Some (a, rest) -> (length a + length rest = length ts)%nat.
Proof.
  induction ts as [|t r IH]; intros lvl a rest H; cbn [read_arg_one] in H; [discriminate|].
  destruct (Nat.eqb lvl 0 && is t RP); [injection H as <- <-; reflexivity|].
  destruct (Nat.eqb lvl 0 && negb rr && is t COMMA); [injection H as <- <-; reflexivity|].
  destruct (read_arg_one rr _ r) as [[a' rest']|] eqn:E; [|discriminate]. injection H as <- <-.
  apply IH in E. cbn [length]. lia.
Qed.

Theorem subst_own_fuel pp obj : forall n body args acc,
  subst pt pp obj n body args acc = MFuel -> (length body < n)%nat -> exists x, pp x = MFuel.
Proof.
  induction n as [|n IH]; intros body args acc H Hn; [lia|].
  cbn [subst] in H. destruct body as [|t r]; [discriminate|]. cbn [length] in Hn.
  repeat match type of H with
  | context [match ?x with _ => _ end] => destruct x eqn:?
  | context [if ?x then _ else _] => destruct x eqn:?
  end; try discriminate;
  repeat match goal with
  | E : read_arg_one _ _ _ = Some _ |- _ => pose proof (read_arg_one_length _ _ _ _ _ E); apply read_arg_one_suffix in E; destruct E as [E _]; apply suffix_length in E; cbn [length] in E
  end;
  repeat match goal with
  | E : (if ?c then _ else _) = Some _ |- _ => destruct c eqn:?; try discriminate E
  | E : match ?x with _ => _ end = Some _ |- _ => destruct x eqn:?; try discriminate E
  | E : Some _ = Some _ |- _ => injection E as <- <- <-
  end;
  try (pose proof (tl_length r));
  try solve [eapply IH; [exact H|cbn [length] in *; subst; cbn [length tl] in *; lia]];
  try solve [eexists; eassumption];
  (* the nested substitution of the content of __VA_OPT__( ... ) ran out: the content is shorter than the body *)
  try solve [match goal with E : subst _ _ _ _ _ _ [] = MFuel |- _ => eapply IH; [exact E|cbn [length] in *; subst; cbn [length tl] in *; lia] end].
Qed.
End Q.

(* ---------- termination for sets of object-like macros, any recursion shape ---------- *)
Section Term.
Variable pt : list (list N).
Variable e : env.
Variable B : nat.                                   (* bound on the length of the replacement lists *)

Definition plain_tok (t : mtok) : Prop := is t HASHHASH = false /\ is t VA_OPT = false /\ is t HASH = false.
Definition obj_env : Prop :=
  Forall (fun nm => mc_obj (snd nm) = true /\ Forall plain_tok (mc_body (snd nm)) /\ (length (mc_body (snd nm)) <= B)%nat) e.

Lemma find_arg_nil t : find_arg [] t = None. Proof. reflexivity. Qed.

Lemma subst_plain pp : forall n body acc, Forall plain_tok body -> (length body < n)%nat ->
  subst pt pp true n body [] acc = MOk (rev acc ++ body).
Proof.
  induction n as [|n IH]; intros body acc Hp Hn; [lia|]. cbn [subst]. destruct body as [|t r]; [rewrite app_nil_r; reflexivity|].
  inversion Hp as [|? ? [H1 [H2 H3]] Hr]; subst. cbn [length] in Hn.
  rewrite andb_false_r. replace (is t COMMA && false) with false by (rewrite andb_false_r; reflexivity).
  assert (Hg : (if is t COMMA then match r with h :: p :: r' => if is h HASHHASH then match find_arg [] p with Some a => if a_va a then Some (a, p, r') else None | None => None end else None | _ => None end else None) = None).
  { destruct (is t COMMA); [|reflexivity]. destruct r as [|h [|p r']]; try reflexivity. destruct (is h HASHHASH); reflexivity. }
  rewrite Hg. rewrite H1. cbn [find_arg]. rewrite H2. cbn [andb].
  rewrite IH by (auto; lia). cbn [rev]. rewrite <- app_assoc. reflexivity.
Qed.

Definition names : list name := map fst e.
Definition free (t : mtok) : nat := length (filter (fun n => negb (hs_contains (m_hs t) n)) names).
Definition W (k : nat) : nat := Nat.pow (S B) k.
Fixpoint mu (ts : list mtok) : nat := match ts with [] => 0%nat | t :: r => (W (free t) + mu r)%nat end.

Lemma W_pos k : (1 <= W k)%nat.
Proof. unfold W. induction k; cbn [Nat.pow]; [lia|]. nia. Qed.
Lemma W_mono a b : (a <= b)%nat -> (W a <= W b)%nat.
Proof. intros H. unfold W. apply Nat.pow_le_mono_r; lia. Qed.
Lemma W_step k : (B * W k < W (S k))%nat.
Proof. pose proof (W_pos k). unfold W in *. cbn [Nat.pow]. nia. Qed.

Lemma mu_app a b : mu (a ++ b) = (mu a + mu b)%nat.
Proof. induction a; cbn; lia. Qed.

Lemma mu_bound k l : Forall (fun t => (free t <= k)%nat) l -> (mu l <= length l * W k)%nat.
Proof. induction 1 as [|t r Ht _ IH]; cbn [mu length]; [lia|]. pose proof (W_mono _ _ Ht). lia. Qed.

Lemma filter_length_lt {A} (f g : A -> bool) l x :
  (forall y, f y = true -> g y = true) -> In x l -> g x = true -> f x = false ->
  (length (filter f l) < length (filter g l))%nat.
Proof.
  intros Hfg. induction l as [|a l IH]; intros Hin Hg Hf; [destruct Hin|].
  assert (Hle : forall l', (length (filter f l') <= length (filter g l'))%nat).
  { induction l' as [|b l' IHl]; cbn; [lia|]. destruct (f b) eqn:Eb; [rewrite (Hfg _ Eb); cbn; lia|]. destruct (g b); cbn; lia. }
  cbn [filter]. destruct Hin as [->|Hin].
  - rewrite Hg, Hf. cbn [length]. specialize (Hle l). lia.
  - specialize (IH Hin Hg Hf). destruct (f a) eqn:Ea; [rewrite (Hfg _ Ea); cbn [length]; lia|]. destruct (g a); cbn [length]; lia.
Qed.

Lemma lookup_in s m : lookup e s = Some m -> In s names /\ In (s, m) e.
Proof.
  unfold names. induction e as [|[n m'] r IH]; cbn; [discriminate|]. destruct (txt_eqb n s) eqn:E.
  - intros H. injection H as ->. apply txt_eqb_eq in E. subst n. split; left; reflexivity.
  - intros H. destruct (IH H) as [A C]. split; right; assumption.
Qed.

Lemma hs_contains_app a b n : hs_contains (a ++ b) n = hs_contains a n || hs_contains b n.
Proof. unfold hs_contains. apply existsb_app. Qed.

(* every token of the replacement has strictly fewer macro names left outside its hide set *)
Lemma free_drop t b : In (m_txt t) names -> hs_contains (m_hs t) (m_txt t) = false ->
  (free (MT (m_txt b) (m_kind b) (m_sp b) (m_bol b) (hs_union (m_hs b) (hs_union (m_hs t) [m_txt t]))) < free t)%nat.
Proof.
  intros Hin Hnot. unfold free. cbn [m_hs]. eapply filter_length_lt with (x := m_txt t).
  - intros y Hy. unfold hs_union in Hy. rewrite !hs_contains_app in Hy. destruct (hs_contains (m_hs t) y); [|reflexivity].
    rewrite orb_true_r in Hy. cbn in Hy. discriminate.
  - exact Hin.
  - rewrite Hnot. reflexivity.
  - unfold hs_union. rewrite !hs_contains_app. unfold hs_contains at 3. cbn [existsb]. rewrite txt_eqb_refl. cbn. rewrite !orb_true_r. reflexivity.
Qed.

Lemma set_flags_mu bol sp l : mu (set_flags bol sp l) = mu l.
Proof. destruct l; reflexivity. Qed.
Lemma set_flags_nohash bol sp l : Forall (fun t => is t HASH = false) l -> Forall (fun t => is t HASH = false) (set_flags bol sp l).
Proof. destruct l as [|t r]; cbn; [auto|]. intros H. inversion H; subst. constructor; assumption. Qed.

Theorem objlike_terminates : obj_env -> forall f ts, Forall (fun t => is t HASH = false) ts -> (mu ts < f)%nat ->
  exists out, pp2 pt f e ts = MOk out.
Proof.
  intros He. induction f as [|f IH]; intros ts Hh Hf; [lia|]. cbn [pp2]. destruct ts as [|t r]; [eexists; reflexivity|].
  inversion Hh as [|? ? Ht Hr]; subst. cbn [mu] in Hf. pose proof (W_pos (free t)) as Hw.
  assert (Hrec : exists o, pp2 pt f e r = MOk o) by (apply IH; [exact Hr|lia]).
  assert (Hb0 : m_bol t && is t HASH = false) by (rewrite Ht; apply andb_false_r).
  unfold expand_macro. destruct (hs_contains (m_hs t) (m_txt t)) eqn:Ehs; [rewrite Hb0; destruct Hrec as [o ->]; eexists; reflexivity|].
  destruct (find_macro e t) as [m|] eqn:Em; [|rewrite Hb0; destruct Hrec as [o ->]; eexists; reflexivity].
  unfold find_macro in Em. destruct (m_kind t); try discriminate. apply lookup_in in Em. destruct Em as [Hin Hm].
  unfold obj_env in He. rewrite Forall_forall in He. destruct (He _ Hm) as (Ho & Hp & Hb). cbn [snd] in *.
  rewrite Ho. rewrite subst_plain by (auto; lia). cbn [rev app].
  apply IH.
  - apply Forall_app. split; [|exact Hr]. apply set_flags_nohash. unfold add_hideset. apply Forall_forall. intros b' Hb'.
    apply in_map_iff in Hb'. destruct Hb' as (b & <- & Hbin). rewrite Forall_forall in Hp. destruct (Hp _ Hbin) as (_ & _ & H3). exact H3.
  - rewrite mu_app, set_flags_mu.
    assert (Hk : (1 <= free t)%nat).
    { unfold free. pose proof (filter_length_lt (fun _ : name => false) (fun n => negb (hs_contains (m_hs t) n)) names (m_txt t)) as Hl.
      assert (Hz : length (filter (fun _ : name => false) names) = 0%nat) by (clear; induction names; cbn; auto).
      rewrite Hz in Hl. apply Hl; [discriminate|exact Hin|rewrite Ehs; reflexivity|reflexivity]. }
    assert (Hmu : (mu (add_hideset (hs_union (m_hs t) [m_txt t]) (mc_body m)) <= length (mc_body m) * W (free t - 1))%nat).
    { replace (length (mc_body m)) with (length (add_hideset (hs_union (m_hs t) [m_txt t]) (mc_body m))) by (unfold add_hideset; apply map_length).
      apply mu_bound. unfold add_hideset. apply Forall_forall. intros b' Hb'. apply in_map_iff in Hb'. destruct Hb' as (b & <- & _).
      pose proof (free_drop t b Hin Ehs). lia. }
    pose proof (W_step (free t - 1)) as Hs. replace (S (free t - 1)) with (free t) in Hs by lia.
    assert ((length (mc_body m) * W (free t - 1) <= B * W (free t - 1))%nat) by (apply Nat.mul_le_mono_r; exact Hb).
    lia.
Qed.
End Term.
