(* C15 (package emit), part C1: scan_globals on the richer record (the lemmas of LinkageProofs.v
   ported to Emit.scan), and what `mark` does. *)
From Coq Require Import List Bool Arith ZArith Lia.
From Chibicc Require Import Model.Linkage Spec.LinkSpec Model.Emit Proofs.EmitAsm Proofs.EmitParse.
Import ListNotations.

Definition realP (a : ident) (o : obj) : bool := ob_definition o && negb (ob_tentative o) && same_name a o.
Definition has_real (all : list obj) (a : ident) : bool := existsb (realP a) all.
Definition tn (a : ident) (o : obj) : bool := ob_tentative o && same_name a o.
Definition cnt (a : ident) (l : list obj) : nat := length (filter (tn a) l).

Lemma ident_eqb_spec a b : reflect (a = b) (ident_eqb a b).
Proof. destruct (ident_eqb a b) eqn:E; constructor; [apply ident_eqb_eq; exact E|intros H; apply ident_eqb_eq in H; congruence]. Qed.

Lemma cnt_app a x y : cnt a (x ++ y) = (cnt a x + cnt a y)%nat.
Proof. unfold cnt. rewrite filter_app, app_length. reflexivity. Qed.
Lemma existsb_cnt a l : existsb (tn a) l = negb (Nat.eqb (cnt a l) 0).
Proof. unfold cnt. induction l as [|g r IH]; [reflexivity|]. cbn [existsb filter]. destruct (tn a g); cbn; [reflexivity|exact IH]. Qed.

Lemma scan_cnt all a : forall rest kept, (cnt a kept <= 1)%nat ->
  cnt a (scan all rest kept) =
    if has_real all a then cnt a kept
    else if Nat.eqb (cnt a kept) 0 then (if Nat.eqb (cnt a rest) 0 then 0 else 1)%nat else cnt a kept.
Proof.
  induction rest as [|v r IH]; intros kept Hk; cbn [scan].
  - destruct (has_real all a); [reflexivity|]. destruct (Nat.eqb_spec (cnt a kept) 0); cbn; lia.
  - destruct (ob_tentative v) eqn:Et; cbn [negb].
    + change (existsb (fun o => ob_definition o && negb (ob_tentative o) && same_name (ob_name v) o) all) with (has_real all (ob_name v)).
      change (existsb (fun k => ob_tentative k && same_name (ob_name v) k) kept) with (existsb (tn (ob_name v)) kept).
      rewrite existsb_cnt.
      destruct (ident_eqb_spec (ob_name v) a) as [En|En].
      * subst a. assert (Hv : tn (ob_name v) v = true) by (unfold tn, same_name; rewrite Et, ident_eqb_refl; reflexivity).
        assert (Hc : cnt (ob_name v) (v :: r) = S (cnt (ob_name v) r)) by (unfold cnt; cbn [filter]; rewrite Hv; reflexivity).
        destruct (has_real all (ob_name v)) eqn:Er.
        -- rewrite orb_true_r. rewrite IH by exact Hk. rewrite ?Er. reflexivity.
        -- rewrite orb_false_r. destruct (Nat.eqb_spec (cnt (ob_name v) kept) 0) as [E0|E0]; cbn [negb].
           ++ rewrite IH by (rewrite cnt_app; unfold cnt at 2; cbn [filter]; rewrite Hv; cbn; lia).
              rewrite Hc. assert (Hk1 : cnt (ob_name v) (kept ++ [v]) = 1%nat) by (rewrite cnt_app; unfold cnt at 2; cbn [filter]; rewrite Hv; cbn; lia).
              rewrite Hk1. rewrite ?Er. reflexivity.
           ++ rewrite IH by exact Hk. rewrite ?Er. destruct (Nat.eqb_spec (cnt (ob_name v) kept) 0); [contradiction|reflexivity].
      * assert (Hv : tn a v = false).
        { unfold tn, same_name. rewrite Et. cbn. destruct (ident_eqb_spec a (ob_name v)); [congruence|reflexivity]. }
        assert (Hc : cnt a (v :: r) = cnt a r) by (unfold cnt; cbn [filter]; rewrite Hv; reflexivity).
        assert (Hk' : cnt a (kept ++ [v]) = cnt a kept) by (rewrite cnt_app; unfold cnt at 2; cbn [filter]; rewrite Hv; cbn; lia).
        destruct (negb (Nat.eqb (cnt (ob_name v) kept) 0) || has_real all (ob_name v)).
        -- rewrite IH by exact Hk. rewrite Hc. reflexivity.
        -- rewrite IH by (rewrite Hk'; exact Hk). rewrite Hk', Hc. reflexivity.
    + assert (Hv : tn a v = false) by (unfold tn; rewrite Et; reflexivity).
      assert (Hc : cnt a (v :: r) = cnt a r) by (unfold cnt; cbn [filter]; rewrite Hv; reflexivity).
      assert (Hk' : cnt a (kept ++ [v]) = cnt a kept) by (rewrite cnt_app; unfold cnt at 2; cbn [filter]; rewrite Hv; cbn; lia).
      rewrite IH by (rewrite Hk'; exact Hk). rewrite Hk', Hc. reflexivity.
Qed.

Theorem tentative_merged gs a :
  cnt a (scan_globals gs) = if has_real gs a then 0%nat else if Nat.eqb (cnt a gs) 0 then 0%nat else 1%nat.
Proof. unfold scan_globals. rewrite scan_cnt by (cbn; lia). cbn. reflexivity. Qed.

Definition nt (o : obj) : bool := negb (ob_tentative o).
Lemma scan_nontent all : forall rest kept, filter nt (scan all rest kept) = filter nt kept ++ filter nt rest.
Proof.
  unfold nt. induction rest as [|v r IH]; intros kept; cbn [scan]; [rewrite app_nil_r; reflexivity|].
  destruct (ob_tentative v) eqn:Et; cbn [negb filter].
  - rewrite Et. cbn [negb]. destruct (_ || _); rewrite IH; [reflexivity|]. rewrite filter_app. cbn [filter]. rewrite Et. cbn. rewrite app_nil_r. reflexivity.
  - rewrite Et. cbn [negb]. rewrite IH, filter_app. cbn [filter]. rewrite Et. cbn. rewrite <- app_assoc. reflexivity.
Qed.
Theorem real_definitions_kept gs : filter nt (scan_globals gs) = filter nt gs.
Proof. unfold scan_globals. rewrite scan_nontent. reflexivity. Qed.

Lemma scan_In all : forall rest kept x, In x (scan all rest kept) -> In x kept \/ In x rest.
Proof.
  induction rest as [|v r IH]; intros kept x Hx; cbn [scan] in Hx; [left; exact Hx|].
  destruct (negb (ob_tentative v)).
  - apply IH in Hx as [Hx|Hx]; [apply in_app_or in Hx as [Hx|[<-|[]]]; [left; exact Hx|right; left; reflexivity]|right; right; exact Hx].
  - destruct (_ || _).
    + apply IH in Hx as [Hx|Hx]; [left; exact Hx|right; right; exact Hx].
    + apply IH in Hx as [Hx|Hx]; [apply in_app_or in Hx as [Hx|[<-|[]]]; [left; exact Hx|right; left; reflexivity]|right; right; exact Hx].
Qed.
Lemma scan_globals_In gs x : In x (scan_globals gs) -> In x gs.
Proof. intros H. apply scan_In in H as [[]|H]. exact H. Qed.

(* ---------- lists ---------- *)
Lemma flat_map_nil {A B} (F : A -> list B) l : (forall x, In x l -> F x = []) -> flat_map F l = [].
Proof.
  induction l as [|x r IH]; intros H; [reflexivity|]. cbn [flat_map]. rewrite (H x (or_introl eq_refl)), IH; [reflexivity|].
  intros y Hy. apply H. right. exact Hy.
Qed.
Lemma flat_map_filter {A B} (F : A -> list B) (D : A -> bool) l :
  (forall x, In x l -> D x = false -> F x = []) -> flat_map F l = flat_map F (filter D l).
Proof.
  induction l as [|x r IH]; intros H; [reflexivity|]. cbn [flat_map filter].
  rewrite IH by (intros y Hy; apply H; right; exact Hy).
  destruct (D x) eqn:E; [reflexivity|]. rewrite (H x (or_introl eq_refl) E). reflexivity.
Qed.
Lemma filter_filter_sub {A} (P Q : A -> bool) l : (forall x, In x l -> P x = true -> Q x = true) -> filter P l = filter P (filter Q l).
Proof.
  induction l as [|x r IH]; intros H; [reflexivity|]. cbn [filter].
  rewrite IH by (intros y Hy; apply H; right; exact Hy).
  destruct (P x) eqn:Ep.
  - rewrite (H x (or_introl eq_refl) Ep). cbn [filter]. rewrite Ep. reflexivity.
  - destruct (Q x); [cbn [filter]; rewrite Ep|]; reflexivity.
Qed.
Lemma filter_length_split {A} (D T : A -> bool) l :
  length (filter D l) = (length (filter (fun x => D x && negb (T x)) l) + length (filter (fun x => D x && T x) l))%nat.
Proof.
  induction l as [|x r IH]; [reflexivity|]. cbn [filter]. destruct (D x), (T x); cbn [andb negb length]; lia.
Qed.
Lemma In_filter_length {A} (P : A -> bool) l x : In x l -> P x = true -> (0 < length (filter P l))%nat.
Proof. intros H1 H2. assert (H : In x (filter P l)) by (apply filter_In; split; assumption). destruct (filter P l); [contradiction|cbn; lia]. Qed.
Lemma length_filter_zero {A} (P : A -> bool) l : length (filter P l) = 0%nat -> forall x, In x l -> P x = false.
Proof. intros H x Hx. destruct (P x) eqn:E; [|reflexivity]. pose proof (In_filter_length P l x Hx E). lia. Qed.

(* ---------- mark ---------- *)
Definition mark_one (gs : list obj) (o : obj) : obj :=
  match ob_name o with
  | User n => if ob_function o then set_live (model_live gs n) o else o
  | Anon _ => o
  end.
Lemma mark_map gs : mark gs = map (mark_one gs) gs. Proof. reflexivity. Qed.
Lemma mark_one_keeps gs o : ob_name (mark_one gs o) = ob_name o /\ ob_function (mark_one gs o) = ob_function o
  /\ ob_tentative (mark_one gs o) = ob_tentative o /\ ob_definition (mark_one gs o) = ob_definition o.
Proof. unfold mark_one. destruct (ob_name o) eqn:En; [destruct (ob_function o) eqn:Ef|]; cbn; rewrite ?En, ?Ef; repeat split. Qed.
Lemma mark_one_nonfun gs o : ob_function o = false -> mark_one gs o = o.
Proof. unfold mark_one. intros ->. destruct (ob_name o); reflexivity. Qed.
Lemma mark_one_fun gs n o : is_fun_named n o = true -> mark_one gs o = set_live (model_live gs n) o.
Proof.
  unfold is_fun_named, mark_one. intros H. apply andb_true_iff in H as [Hf Hn]. apply ident_eqb_eq in Hn. rewrite <- Hn, Hf. reflexivity.
Qed.
