From Chibicc Require Import Base.Mach Model.Diag.
Local Open Scope nat_scope.

Lemma line_start_from_spec : forall pr loc, (length pr = loc)%nat ->
  let s := line_start_from pr loc in
  (s <= loc)%nat /\ (forall k, (k < loc - s)%nat -> nth_error pr k <> Some 10%N) /\
  (s = 0%nat \/ nth_error pr (loc - s) = Some 10%N).
Proof.
  induction pr as [|c r IH]; intros loc Hl; cbn [line_start_from].
  - cbn in Hl. subst loc. cbn. split; [lia|]. split; [intros k Hk; lia|left; reflexivity].
  - cbn [length] in Hl. destruct (c =? 10)%N eqn:E.
    + apply N.eqb_eq in E. subst c. cbn. split; [lia|]. split; [intros k Hk; lia|]. right. rewrite Nat.sub_diag. reflexivity.
    + destruct loc as [|loc]; [discriminate|]. cbn [pred]. destruct (IH loc ltac:(lia)) as (A & B & C). cbn zeta in *.
      set (s := line_start_from r loc) in *. split; [lia|]. split.
      * intros [|k] Hk; cbn [nth_error]; [intros H; injection H as H; subst c; discriminate|]. apply B. lia.
      * destruct C as [C|C]; [left; exact C|]. right. replace (S loc - s)%nat with (S (loc - s)) by lia. exact C.
Qed.

Lemma scan_end_spec : forall suf pos,
  let e := scan_end suf pos in
  (pos <= e)%nat /\ (e - pos <= length suf)%nat /\ (forall k, (k < e - pos)%nat -> nth_error suf k <> Some 10%N) /\
  (e - pos = length suf \/ nth_error suf (e - pos) = Some 10%N).
Proof.
  induction suf as [|c r IH]; intros pos; cbn [scan_end].
  - cbn. rewrite Nat.sub_diag. split; [lia|]. split; [lia|]. split; [intros k Hk; lia|left; reflexivity].
  - destruct (c =? 10)%N eqn:E.
    + apply N.eqb_eq in E. subst c. cbn zeta. rewrite Nat.sub_diag. split; [lia|]. split; [cbn; lia|]. split; [intros k Hk; lia|right; reflexivity].
    + destruct (IH (S pos)) as (A & B & C & D). cbn zeta in *. set (e := scan_end r (S pos)) in *.
      split; [lia|]. split; [cbn [length]; lia|]. split.
      * intros [|k] Hk; cbn [nth_error]; [intros H; injection H as H; subst c; discriminate|]. apply C. lia.
      * replace (e - pos)%nat with (S (e - S pos)) by lia. cbn [length nth_error]. destruct D as [D|D]; [left; lia|right; exact D].
Qed.

(* the line shown contains the offending position, holds no new-line, starts right after a new-line
   (or at the beginning of the buffer) and ends right before one (or at the end of the buffer) *)
Theorem shown_line_is_the_line input loc : (loc <= length input)%nat ->
  let s := line_start input loc in let e := line_end input loc in
  (s <= loc <= e)%nat /\ (e <= length input)%nat /\
  (forall k, (s <= k < e)%nat -> nth_error input k <> Some 10%N) /\
  (s = 0%nat \/ nth_error input (s - 1) = Some 10%N) /\
  (e = length input \/ nth_error input e = Some 10%N).
Proof.
  intros Hl. cbn zeta. unfold line_start, line_end.
  pose proof (line_start_from_spec (rev (firstn loc input)) loc ltac:(rewrite rev_length, firstn_length; lia)) as (A & B & C).
  pose proof (scan_end_spec (skipn loc input) loc) as (D & E & F & G). cbn zeta in *.
  set (s := line_start_from (rev (firstn loc input)) loc) in *. set (e := scan_end (skipn loc input) loc) in *.
  assert (Hsk : length (skipn loc input) = (length input - loc)%nat) by apply skipn_length.
  assert (Hrev : forall k, (k < loc)%nat -> nth_error (rev (firstn loc input)) k = nth_error input (loc - 1 - k)).
  { intros k Hk. assert (Hfl : length (firstn loc input) = loc) by (rewrite firstn_length; lia).
    rewrite nth_error_nth' with (d := 0%N) by (rewrite rev_length; lia). rewrite rev_nth by lia. rewrite Hfl.
    replace (loc - S k)%nat with (loc - 1 - k)%nat by lia.
    rewrite (nth_error_nth' input 0%N) by lia. f_equal.
    rewrite <- (firstn_skipn loc input) at 2. rewrite app_nth1 by lia. reflexivity. }
  assert (Hsuf : forall k, nth_error (skipn loc input) k = nth_error input (loc + k)).
  { intros k. rewrite <- (firstn_skipn loc input) at 2. rewrite nth_error_app2 by (rewrite firstn_length; lia). rewrite firstn_length. f_equal. lia. }
  split; [lia|]. split; [lia|]. split; [|split].
  - intros k Hk. destruct (Nat.lt_ge_cases k loc) as [Hlt|Hge].
    + specialize (B (loc - 1 - k)%nat ltac:(lia)). rewrite Hrev in B by lia. replace (loc - 1 - (loc - 1 - k))%nat with k in B by lia. exact B.
    + specialize (F (k - loc)%nat ltac:(lia)). rewrite Hsuf in F. replace (loc + (k - loc))%nat with k in F by lia. exact F.
  - destruct C as [C|C]; [left; exact C|]. destruct (Nat.eq_dec s 0) as [->|Hs]; [left; reflexivity|]. right.
    rewrite Hrev in C by lia. replace (loc - 1 - (loc - s))%nat with (s - 1)%nat in C by lia. exact C.
  - destruct G as [G|G]; [left; lia|]. right. rewrite Hsuf in G. replace (loc + (e - loc))%nat with e in G by lia. exact G.
Qed.

Lemma no_lf_filter : forall d (l : list N), (forall k, (k < d)%nat -> nth_error l k <> Some 10%N) -> filter (fun c => (c =? 10)%N) (firstn d l) = [].
Proof.
  induction d as [|d IH]; intros l H; [reflexivity|]. destruct l as [|c r]; [reflexivity|]. cbn [firstn filter].
  destruct (c =? 10)%N eqn:E.
  - apply N.eqb_eq in E. subst c. exfalso. apply (H 0%nat); [lia|reflexivity].
  - apply IH. intros k Hk. apply (H (S k)). lia.
Qed.

(* the line number printed next to it is the number of that very line: no new-line lies between
   the start of the shown line and the token *)
Theorem line_no_is_of_shown_line input loc : (loc <= length input)%nat ->
  line_no input loc = line_no input (line_start input loc).
Proof.
  intros Hl. destruct (shown_line_is_the_line input loc Hl) as ((Hs & He) & _ & Hno & _). cbn zeta in *.
  set (s := line_start input loc) in *. unfold line_no. f_equal.
  assert (Hsplit : firstn loc input = firstn s input ++ firstn (loc - s) (skipn s input)).
  { rewrite firstn_skipn_comm. replace (s + (loc - s))%nat with loc by lia.
    rewrite <- (firstn_skipn s (firstn loc input)) at 1. f_equal. rewrite firstn_firstn. f_equal. lia. }
  rewrite Hsplit, filter_app, app_length. rewrite (no_lf_filter (loc - s) (skipn s input)); [cbn [length]; apply Nat.add_0_r|].
  intros k Hk.
  assert (Hn : nth_error (skipn s input) k = nth_error input (s + k)).
  { rewrite <- (firstn_skipn s input) at 2. rewrite nth_error_app2 by (rewrite firstn_length; lia). rewrite firstn_length. f_equal. lia. }
  rewrite Hn. apply Hno. lia.
Qed.
