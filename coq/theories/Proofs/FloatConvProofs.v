From Chibicc Require Import Base.Mach Model.X86Int Model.CodegenInt Model.FloatConv Model.FloatRows Gen.CastTable.
From Coq Require Import String.
Local Open Scope Z_scope.

Lemma halve_sticky_arith x : 0 <= x -> halve_sticky x = x / 2 + (if (Z.odd x) && (Z.even (x / 2)) then 1 else 0).
Proof.
  intros Hx. unfold halve_sticky. rewrite Z.shiftr_div_pow2 by lia. change (2 ^ 1) with 2.
  replace (Z.land x 1) with (x mod 2) by (change 1 with (Z.ones 1); rewrite Z.land_ones by lia; reflexivity).
  destruct (Z.odd x) eqn:Eo.
  - assert (Hm : x mod 2 = 1) by (rewrite Zodd_mod in Eo; apply Zeq_bool_eq in Eo; exact Eo). rewrite Hm. cbn [andb].
    destruct (Z.even (x / 2)) eqn:Ev.
    + apply Z.even_spec in Ev. destruct Ev as [k Hk]. rewrite Hk.
      apply Z.bits_inj'. intros i Hi. rewrite Z.lor_spec. destruct (Z.eq_dec i 0) as [->|Hn].
      * rewrite Z.testbit_even_0, Z.testbit_odd_0. reflexivity.
      * replace i with (Z.succ (i - 1)) by lia. rewrite Z.testbit_even_succ, Z.testbit_odd_succ by lia.
        replace (Z.testbit 1 (Z.succ (i - 1))) with false; [apply orb_false_r|]. symmetry. apply Z.bits_above_log2; cbn; lia.
    + rewrite Z.add_0_r. assert (Ho : Z.odd (x / 2) = true) by (rewrite <- Z.negb_even, Ev; reflexivity).
      apply Z.odd_spec in Ho. destruct Ho as [k Hk]. rewrite Hk.
      apply Z.bits_inj'. intros i Hi. rewrite Z.lor_spec. destruct (Z.eq_dec i 0) as [->|Hn].
      * rewrite Z.testbit_odd_0. reflexivity.
      * replace (Z.testbit 1 i) with false; [apply orb_false_r|]. symmetry. apply Z.bits_above_log2; cbn; lia.
  - assert (Hm : x mod 2 = 0).
    { assert (Z.even x = true) by (rewrite <- Z.negb_odd, Eo; reflexivity). apply Z.even_spec in H. destruct H as [k ->]. rewrite Z.mul_comm. apply Z.mod_mul. lia. }
    rewrite Hm. cbn [andb]. rewrite Z.lor_0_r. lia.
Qed.

Lemma odd_mod x : Z.odd x = true -> x mod 2 = 1.
Proof. intros H. rewrite Zodd_mod in H. apply Zeq_bool_eq in H. exact H. Qed.
Lemma even_mod x : Z.even x = true -> x mod 2 = 0.
Proof. intros H. apply Z.even_spec in H. destruct H as [k ->]. rewrite Z.mul_comm. apply Z.mod_mul. lia. Qed.
Lemma odd_false_mod x : Z.odd x = false -> x mod 2 = 0.
Proof. intros H. apply even_mod. rewrite <- Z.negb_odd, H. reflexivity. Qed.
Lemma even_false_mod x : Z.even x = false -> x mod 2 = 1.
Proof. intros H. apply odd_mod. rewrite <- Z.negb_even, H. reflexivity. Qed.

Ltac parity_cases x :=
  repeat match goal with
  | |- context [Z.odd ?a] => let E := fresh "Eo" in destruct (Z.odd a) eqn:E; [apply odd_mod in E|apply odd_false_mod in E]
  | |- context [Z.even ?a] => let E := fresh "Ee" in destruct (Z.even a) eqn:E; [apply even_mod in E|apply even_false_mod in E]
  end; cbn [andb] in *;
  repeat match goal with |- context [if ?c then _ else _] => destruct c eqn:? end; lia.

(* the conversion by halving: for EVERY x in [2^63, 2^64), rounding y to 53 (24) significant bits and
   doubling is rounding x itself to 53 (24) significant bits, ties to even *)
Theorem halving_is_rne_f64 x : 2 ^ 63 <= x < 2 ^ 64 -> 2 * rne (halve_sticky x) 10 = rne x 11.
Proof.
  intros Hx. rewrite halve_sticky_arith by lia. unfold rne.
  change (2 ^ 11) with 2048; change (2 ^ 10) with 1024; change (2 ^ (11 - 1)) with 1024; change (2 ^ (10 - 1)) with 512.
  parity_cases x.
Qed.

Theorem halving_is_rne_f32 x : 2 ^ 63 <= x < 2 ^ 64 -> 2 * rne (halve_sticky x) 39 = rne x 40.
Proof.
  intros Hx. rewrite halve_sticky_arith by lia. unfold rne.
  change (2 ^ 40) with 1099511627776; change (2 ^ 39) with 549755813888; change (2 ^ (40 - 1)) with 549755813888; change (2 ^ (39 - 1)) with 274877906944.
  parity_cases x.
Qed.

(* without the sticky bit the result is wrong exactly at odd values just above a tie *)
Theorem sticky_bit_needed : 2 * rne (halve_plain (2 ^ 63 + 1025)) 10 <> rne (2 ^ 63 + 1025) 11.
Proof. vm_compute. discriminate. Qed.

(* the table in codegen.c is the reviewed one *)
Fixpoint xinsn_eqb (a b : xinsn) : bool :=
  match a, b with
  | XText s, XText t => String.eqb s t
  | XI i, XI j => match i, j with
                  | IMovsbl, IMovsbl | IMovzbl, IMovzbl | IMovswl, IMovswl | IMovzwl, IMovzwl | IMovsxd, IMovsxd | IMovEaxEax, IMovEaxEax => true
                  | _, _ => false end
  | _, _ => false
  end.
Fixpoint list_eqb {A} (e : A -> A -> bool) (a b : list A) : bool :=
  match a, b with [], [] => true | x :: a', y :: b' => e x y && list_eqb e a' b' | _, _ => false end.
Definition cell_eqb (a b : option (list xinsn)) : bool :=
  match a, b with None, None => true | Some x, Some y => list_eqb xinsn_eqb x y | _, _ => false end.

Theorem fp_rows_as_reviewed : list_eqb (list_eqb cell_eqb) cast_table expected_cast_table = true.
Proof. vm_compute. reflexivity. Qed.
