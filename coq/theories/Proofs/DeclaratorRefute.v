(* C08 (package decl), part 4: the witnesses.  (The file keeps its name; since Update 2 nothing in it is a
   refutation any more.)

   (a) The inputs on which the first version of this package REFUTED parse.c against C11 6.7.6 / the psABI, replayed
       on the model of the repaired code (fix commits fbdf355, 8507b9f, 053b61b in /repo): each is now an instance
       of the general theorems, recomputed here by vm_compute as a regression.
   (b) What parse.c still accepts although it is not C11 (notes, not violations of C08).
   (c) What it does with the tokens the abstract syntax leaves out ([ static / qualifiers ]). *)
From Coq Require Import List ZArith Bool Lia.
From Chibicc Require Import Spec.DeclSyntax Spec.DeclSpec6_7_6 Model.Declarator
     Proofs.DeclaratorParse Proofs.DeclaratorTypes Proofs.DeclaratorSizes.
Import ListNotations.
Local Open Scope Z_scope.

Definition abs0 : decl := DDirect (DIdent None).

(* ------------------------------------------------------------------ (a) repaired *)
(* (1) `T ()` with the identifier omitted - as in `void g(int ());` - is "function with unspecified parameters
   returning T" (6.7.6.3p14).  Was: parsed as T.  Now: "(" followed by ")" or a type keyword opens a parameter list. *)
Definition d_unspec : decl := DDirect (DFunc (DIdent None) PUnspec).
Theorem abstract_func_repaired :
  c11_ok d_unspec = true /\ name_of d_unspec = None /\
  (exists m, parse_declarator (print_decl d_unspec ++ [TRParen]) (MBase LInt) = Ok (None, m, [TRParen]) /\
             parse_abstract (print_decl d_unspec ++ [TRParen]) (MBase LInt) = Ok (m, [TRParen]) /\
             shape m = unqual (type_of (TLeaf LInt) d_unspec)) /\
  type_of (TLeaf LInt) d_unspec = TFun (TLeaf LInt) [] FNoProto.
Proof. vm_compute. repeat split; try reflexivity. eexists. repeat split; reflexivity. Qed.

(* void g(int ()) : the parameter is int ( * )() *)
Definition d_g_unspec : decl :=
  DDirect (DFunc (DIdent (Some 0%nat)) (PList (POne (Param LInt d_unspec)) false)).
Theorem param_abstract_func_repaired :
  c11_ok d_g_unspec = true /\
  (exists m, parse_declarator (print_decl d_g_unspec ++ [TOther]) (MBase LVoid) = Ok (Some 0%nat, m, [TOther]) /\
     shape m = unqual (type_of (TLeaf LVoid) d_g_unspec)) /\
  type_of (TLeaf LVoid) d_g_unspec = TFun (TLeaf LVoid) [TPtr [] (TFun (TLeaf LInt) [] FNoProto)] FProto.
Proof. vm_compute. split; [reflexivity|]. split; [|reflexivity]. eexists. split; reflexivity. Qed.

(* `T (int)` / `T (void)` with the identifier omitted: were rejected ("expected ')'"), are functions now *)
Theorem abstract_proto_accepted :
  let d1 := DDirect (DFunc (DIdent None) (PList (POne (Param LInt abs0)) false)) in
  let d2 := DDirect (DFunc (DIdent None) PVoid) in
  c11_ok d1 = true /\ c11_ok d2 = true /\
  parse_declarator (print_decl d1 ++ [TRParen]) (MBase LInt)
    = Ok (None, MFunc (MBase LInt) [(None, MBase LInt)] false, [TRParen]) /\
  parse_declarator (print_decl d2 ++ [TRParen]) (MBase LInt) = Ok (None, MFunc (MBase LInt) [] false, [TRParen]) /\
  parse_abstract (print_decl d1 ++ [TRParen]) (MBase LInt)
    = Ok (MFunc (MBase LInt) [(None, MBase LInt)] false, [TRParen]).
Proof. vm_compute. repeat split; reflexivity. Qed.

(* (2) char[4294967299] was char[3]; char x[2147483648] had size -2147483648; int[70000][70000] had size
   -1874836480.  Now: "array too large" - and that is what the spec-level limit [oversize] says *)
Theorem big_arrays_rejected :
  let d1 := DDirect (DArray (DIdent None) (Some 4294967299)) in
  let d2 := DDirect (DArray (DIdent (Some 1%nat)) (Some 2147483648)) in
  let d3 := DDirect (DArray (DArray (DIdent None) (Some 70000)) (Some 70000)) in
  parse_declarator (print_decl d1 ++ [TOther]) (MBase LChar) = TooLarge /\ oversize d1 (TLeaf LChar) = true /\
  parse_declarator (print_decl d2 ++ [TOther]) (MBase LChar) = TooLarge /\ oversize d2 (TLeaf LChar) = true /\
  parse_declarator (print_decl d3 ++ [TOther]) (MBase LInt) = TooLarge /\ oversize d3 (TLeaf LInt) = true /\
  sizeof (type_of (TLeaf LInt) d3) = Some 19600000000.
Proof. vm_compute. repeat split; reflexivity. Qed.

(* the limit is sharp: 2147483647 bytes are accepted with the right size, one element more is not *)
Theorem limit_is_sharp :
  parse_declarator (print_decl (DDirect (DArray (DIdent None) (Some 2147483647))) ++ [TOther]) (MBase LChar)
    = Ok (None, MArr (MBase LChar) 2147483647 2147483647 1, [TOther]) /\
  parse_declarator (print_decl (DDirect (DArray (DIdent None) (Some 536870911))) ++ [TOther]) (MBase LInt)
    = Ok (None, MArr (MBase LInt) 536870911 2147483644 4, [TOther]) /\
  parse_declarator (print_decl (DDirect (DArray (DIdent None) (Some 536870912))) ++ [TOther]) (MBase LInt) = TooLarge /\
  (* a parameter's array is tested BEFORE it is adjusted to a pointer *)
  parse_declarator (print_decl (DDirect (DFunc (DIdent (Some 0%nat))
       (PList (POne (Param LInt (DDirect (DArray (DIdent (Some 1%nat)) (Some 3000000000))))) false))) ++ [TOther]) (MBase LVoid)
    = TooLarge /\
  (* an element of size 0 (GNU empty struct) counts as one byte *)
  parse_declarator (print_decl (DDirect (DArray (DIdent None) (Some 3000000000))) ++ [TOther]) (MBase (LAgg 0 1)) = TooLarge /\
  oversize (DDirect (DArray (DIdent None) (Some 3000000000))) (TLeaf (LAgg 0 1)) = true.
Proof. vm_compute. repeat split; reflexivity. Qed.

(* ------------------------------------------------------------------ (b) accepted although not C11 (notes) *)
(* arrays of functions (6.7.6.2p1), functions returning arrays when parenthesised (6.7.6.3p1), a void
   parameter next to others, an identifier list / missing specifiers (implicit int) are accepted silently *)
Example accepts_array_of_functions :
  parse_declarator [TIdent 1%nat; TLBrack; TNum 3; TRBrack; TLParen; TBase LVoid; TRParen; TOther] (MBase LInt)
  = Ok (Some 1%nat, MArr (MFunc (MBase LInt) [] false) 3 3 1, [TOther]).
Proof. reflexivity. Qed.
Example accepts_function_returning_array :
  parse_declarator [TLParen; TIdent 1%nat; TLParen; TBase LVoid; TRParen; TRParen; TLBrack; TNum 3; TRBrack; TOther]
                   (MBase LInt)
  = Ok (Some 1%nat, MFunc (MArr (MBase LInt) 3 12 4) [] false, [TOther]).
Proof. reflexivity. Qed.
Example accepts_void_parameter :
  parse_declarator [TIdent 1%nat; TLParen; TBase LInt; TComma; TBase LVoid; TRParen; TOther] (MBase LInt)
  = Ok (Some 1%nat, MFunc (MBase LInt) [(None, MBase LInt); (None, MBase LVoid)] false, [TOther]).
Proof. reflexivity. Qed.
Example accepts_identifier_list_as_int :
  parse_declarator [TIdent 1%nat; TLParen; TIdent 2%nat; TComma; TIdent 3%nat; TRParen; TOther] (MBase LInt)
  = Ok (Some 1%nat, MFunc (MBase LInt) [(Some 2%nat, MBase LInt); (Some 3%nat, MBase LInt)] false, [TOther]).
Proof. reflexivity. Qed.
(* no suffix is parsed behind a parameter list: `f(void)[3]` stops in front of the "[" (the caller then fails) *)
Example no_suffix_after_params :
  parse_declarator [TIdent 1%nat; TLParen; TBase LVoid; TRParen; TLBrack; TNum 3; TRBrack] (MBase LInt)
  = Ok (Some 1%nat, MFunc (MBase LInt) [] false, [TLBrack; TNum 3; TRBrack]).
Proof. reflexivity. Qed.
(* a "(" directly behind the pointers that is followed by an identifier is still a nested declarator:
   `int (x)` declares x (and, outside the model, so does `int (T)` for a typedef name T - deliberately) *)
Example paren_ident_is_nested :
  parse_declarator [TLParen; TIdent 1%nat; TRParen; TOther] (MBase LInt) = Ok (Some 1%nat, MBase LInt, [TOther]).
Proof. reflexivity. Qed.

(* ------------------------------------------------------------------ (c) tokens inside [ ] *)
Fixpoint all_static_quals (l : list tok) : bool :=
  match l with
  | [] => true
  | TStatic :: r => all_static_quals r
  | TQual _ :: r => all_static_quals r
  | _ => false
  end.

Lemma skip_static_quals_app : forall sr toks,
  all_static_quals sr = true -> skip_static_quals (sr ++ toks) = skip_static_quals toks.
Proof.
  induction sr as [|t sr IH]; intros toks H; [reflexivity|].
  destruct t; try discriminate H; cbn [app skip_static_quals all_static_quals] in *; apply IH; exact H.
Qed.

(* `static` and type qualifiers behind a "[" (6.7.6.2p1 / 6.7.6.3p7, meaningful only in the outermost array
   derivation of a parameter, where they would qualify the adjusted pointer - chibicc has no qualifiers) are
   skipped, in any number and order, anywhere, and change nothing *)
Theorem static_quals_ignored : forall fuel sr toks ty,
  all_static_quals sr = true ->
  array_dimensions fuel (sr ++ toks) ty = array_dimensions fuel toks ty.
Proof.
  intros fuel sr toks ty H. destruct fuel as [|f]; [reflexivity|].
  rewrite !array_dimensions_S. unfold array_dimensions_body.
  rewrite skip_static_quals_app by exact H. reflexivity.
Qed.

(* was rejected ("expected an expression") *)
Example const_in_brackets_accepted :
  parse_declarator [TIdent 1%nat; TLBrack; TQual QConst; TStatic; TNum 3; TRBrack; TRParen] (MBase LInt)
  = Ok (Some 1%nat, MArr (MBase LInt) 3 12 4, [TRParen]).
Proof. reflexivity. Qed.
