(* C08 (package decl), part 4: where the faithful model of parse.c departs from C11 6.7.6 / the psABI, with the
   witnesses (each replayed on the real chibicc, see DELIVERY_decl.md), and what it does with the tokens the
   abstract syntax leaves out.  Everything here is computed by vm_compute on the model. *)
From Coq Require Import List ZArith Bool Lia.
From Chibicc Require Import Spec.DeclSyntax Spec.DeclSpec6_7_6 Model.Declarator
     Proofs.DeclaratorParse Proofs.DeclaratorTypes Proofs.DeclaratorSizes.
Import ListNotations.
Local Open Scope Z_scope.

Definition abs0 : decl := DDirect (DIdent None).

(* (1) `T ()` with the identifier omitted - as in `void g(int ());` - is "function with unspecified parameters
   returning T" (6.7.6.3p14; as a parameter adjusted to a pointer to it).  parse.c takes the "(" for a
   parenthesised declarator, finds nothing inside, and yields T itself.  So [chibicc_ok] cannot be dropped. *)
Definition d_unspec : decl := DDirect (DFunc (DIdent None) PUnspec).
Theorem abstract_func_refuted :
  exists d m, c11_ok d = true /\ name_of d = None /\
    parse_declarator (print_decl d ++ [TRParen]) (MBase LInt) = Ok (None, m, [TRParen]) /\
    parse_abstract (print_decl d ++ [TRParen]) (MBase LInt) = Ok (m, [TRParen]) /\
    shape m <> unqual (type_of (TLeaf LInt) d).
Proof.
  exists d_unspec, (MBase LInt). vm_compute. repeat split; try reflexivity. discriminate.
Qed.

(* the same inside a parameter list: void g(int ()) gets the parameter type int instead of int ( * )() *)
Definition d_g_unspec : decl :=
  DDirect (DFunc (DIdent (Some 0%nat)) (PList (POne (Param LInt d_unspec)) false)).
Theorem param_abstract_func_refuted :
  c11_ok d_g_unspec = true /\
  (exists m, parse_declarator (print_decl d_g_unspec ++ [TOther]) (MBase LVoid) = Ok (Some 0%nat, m, [TOther]) /\
     shape m = TFun (TLeaf LVoid) [TLeaf LInt] FProto) /\
  type_of (TLeaf LVoid) d_g_unspec = TFun (TLeaf LVoid) [TPtr [] (TFun (TLeaf LInt) [] FNoProto)] FProto.
Proof. vm_compute. split; [reflexivity|]. split; [|reflexivity]. eexists. split; reflexivity. Qed.

(* with a prototype, `T (int)` / `T (void)`, parse.c reports an error ("expected ')'") on a valid declarator *)
Theorem abstract_proto_rejected :
  let d1 := DDirect (DFunc (DIdent None) (PList (POne (Param LInt abs0)) false)) in
  let d2 := DDirect (DFunc (DIdent None) PVoid) in
  c11_ok d1 = true /\ c11_ok d2 = true /\
  parse_declarator (print_decl d1 ++ [TRParen]) (MBase LInt) = Err /\
  parse_declarator (print_decl d2 ++ [TRParen]) (MBase LInt) = Err /\
  parse_abstract (print_decl d1 ++ [TRParen]) (MBase LInt) = Err.
Proof. vm_compute. repeat split; reflexivity. Qed.

(* (2) an array bound of 2^31 or more is truncated to a C int: char[4294967299] is char[3], char[2147483648]
   has a negative length and size and counts as an incomplete type *)
Theorem big_bound_refuted :
  exists d m, c11_ok d = true /\
    parse_declarator (print_decl d ++ [TOther]) (MBase LChar) = Ok (None, m, [TOther]) /\
    sizeof (type_of (TLeaf LChar) d) = Some 4294967299 /\ ty_size m = 3 /\
    shape m = TArr (Some 3) (TLeaf LChar).
Proof.
  exists (DDirect (DArray (DIdent None) (Some 4294967299))). eexists. vm_compute. repeat split; reflexivity.
Qed.

Theorem bound_2G_refuted :
  exists d m, c11_ok d = true /\
    parse_declarator (print_decl d ++ [TOther]) (MBase LChar) = Ok (Some 1%nat, m, [TOther]) /\
    sizeof (type_of (TLeaf LChar) d) = Some 2147483648 /\ ty_size m = -2147483648.
Proof.
  exists (DDirect (DArray (DIdent (Some 1%nat)) (Some 2147483648))). eexists. vm_compute. repeat split; reflexivity.
Qed.

(* (3) with every bound in range the SIZE can still leave the C int: int[70000][70000].  So [fits] cannot be
   dropped from the size theorem: sizes of objects of 2 GiB and more are wrong (psABI: size_t is 64 bits) *)
Theorem size_overflow_refuted :
  exists d m, c11_ok d = true /\ chibicc_ok d = true /\
    parse_declarator (print_decl d ++ [TOther]) (MBase LInt) = Ok (None, m, [TOther]) /\
    shape m = type_of (TLeaf LInt) d /\
    sizeof (type_of (TLeaf LInt) d) = Some 19600000000 /\ ty_size m = -1874836480.
Proof.
  exists (DDirect (DArray (DArray (DIdent None) (Some 70000)) (Some 70000))). eexists.
  vm_compute. repeat split; reflexivity.
Qed.

(* ------------------------------------------------------------------ accepted although not C11 (notes) *)
(* arrays of functions (6.7.6.2p1), functions returning arrays when parenthesised (6.7.6.3p1), a void
   parameter next to others, an identifier list / missing specifiers (implicit int) are accepted silently *)
Example accepts_array_of_functions :
  parse_declarator [TIdent 1%nat; TLBrack; TNum 3; TRBrack; TLParen; TBase LVoid; TRParen; TOther] (MBase LInt)
  = Ok (Some 1%nat, MArr (MFunc (MBase LInt) [] false) 3 3 1, [TOther]).
Proof. reflexivity. Qed.
Example accepts_function_returning_array :
  parse_declarator [TLParen; TIdent 1%nat; TLParen; TBase LVoid; TRParen; TRParen; TLBrack; TNum 3; TRBrack; TOther]
                   (MBase LInt)
  = Ok (Some 1%nat, MFunc (MArr (MBase LInt) 3 12 4) [] false, [TOther]).
Proof. reflexivity. Qed.
Example accepts_void_parameter :
  parse_declarator [TIdent 1%nat; TLParen; TBase LInt; TComma; TBase LVoid; TRParen; TOther] (MBase LInt)
  = Ok (Some 1%nat, MFunc (MBase LInt) [(None, MBase LInt); (None, MBase LVoid)] false, [TOther]).
Proof. reflexivity. Qed.
Example accepts_identifier_list_as_int :
  parse_declarator [TIdent 1%nat; TLParen; TIdent 2%nat; TComma; TIdent 3%nat; TRParen; TOther] (MBase LInt)
  = Ok (Some 1%nat, MFunc (MBase LInt) [(Some 2%nat, MBase LInt); (Some 3%nat, MBase LInt)] false, [TOther]).
Proof. reflexivity. Qed.
(* no suffix is parsed behind a parameter list: `f(void)[3]` stops in front of the "[" (the caller then fails) *)
Example no_suffix_after_params :
  parse_declarator [TIdent 1%nat; TLParen; TBase LVoid; TRParen; TLBrack; TNum 3; TRBrack] (MBase LInt)
  = Ok (Some 1%nat, MFunc (MBase LInt) [] false, [TLBrack; TNum 3; TRBrack]).
Proof. reflexivity. Qed.

(* ------------------------------------------------------------------ tokens inside [ ] *)
Fixpoint all_static_restrict (l : list tok) : bool :=
  match l with
  | [] => true
  | TStatic :: r => all_static_restrict r
  | TQual QRestrict :: r => all_static_restrict r
  | _ => false
  end.

Lemma skip_static_restrict_app : forall sr toks,
  all_static_restrict sr = true -> skip_static_restrict (sr ++ toks) = skip_static_restrict toks.
Proof.
  induction sr as [|t sr IH]; intros toks H; [reflexivity|].
  destruct t; try discriminate H; cbn [app skip_static_restrict all_static_restrict] in *.
  - destruct q; try discriminate H. apply IH. exact H.
  - apply IH. exact H.
Qed.

(* `static` and `restrict` behind a "[" (6.7.6.2p1/6.7.6.3p7, only meaningful in the outermost array
   derivation of a parameter) are skipped anywhere and change nothing *)
Theorem static_restrict_ignored : forall fuel sr toks ty,
  all_static_restrict sr = true ->
  array_dimensions fuel (sr ++ toks) ty = array_dimensions fuel toks ty.
Proof.
  intros fuel sr toks ty H. destruct fuel as [|f]; [reflexivity|].
  rewrite !array_dimensions_S. unfold array_dimensions_body.
  rewrite skip_static_restrict_app by exact H. reflexivity.
Qed.

(* `const` / `volatile` there - valid in a parameter, 6.7.6.3p7 - are an error *)
Example const_in_brackets_rejected :
  parse_declarator [TIdent 1%nat; TLBrack; TQual QConst; TNum 3; TRBrack; TRParen] (MBase LInt) = Err.
Proof. reflexivity. Qed.
