(* C08 (package decl), part 3: the numbers parse.c stores in the types it builds (ty->size, ty->align) are
   sizeof / _Alignof of the C11 type on the LP64 psABI.

   ty->size is a C int.  [fits t]: every object type along the array spine of t is smaller than 2^31 bytes.
   Under [fits] the stored size is the psABI size (any declarator, any nesting, multi-dimensional arrays);
   an array of unknown bound stores MINUS the element size (chibicc's marker for "incomplete": size < 0);
   the stored alignment is the psABI alignment without any side condition.
   Function types and void have no size in C11 (Spec: None); chibicc stores 1 for them (GNU C); nothing is
   claimed about that. *)
From Coq Require Import List ZArith Bool Lia.
From Chibicc Require Import Spec.DeclSyntax Spec.DeclSpec6_7_6 Model.Declarator
     Proofs.DeclaratorParse Proofs.DeclaratorTypes.
Import ListNotations.
Local Open Scope Z_scope.

Definition leaf_fits (l : leaf) : bool :=
  match l with LAgg s _ => (0 <=? s) && (s <? 2147483648) | _ => true end.

Fixpoint fits (t : ty) : bool :=
  match t with
  | TLeaf l => leaf_fits l
  | TArr (Some n) e =>
      fits e && (0 <=? n) && (n <? 2147483648) &&
      match sizeof e with Some s => n * s <? 2147483648 | None => true end
  | TArr None e => fits e
  | _ => true
  end.

Lemma sizeof_unqual : forall t, sizeof (unqual t) = sizeof t.
Proof.
  induction t as [l|q t IH|n t IH|r IH ps k]; cbn [unqual sizeof]; try reflexivity.
  destruct n; [rewrite IH|]; reflexivity.
Qed.
Lemma alignof_unqual : forall t, alignof (unqual t) = alignof t.
Proof. induction t as [l|q t IH|n t IH|r IH ps k]; cbn [unqual alignof]; auto. Qed.
Lemma fits_unqual : forall t, fits (unqual t) = fits t.
Proof.
  induction t as [l|q t IH|n t IH|r IH ps k]; cbn [unqual fits]; try reflexivity.
  destruct n; [rewrite IH, sizeof_unqual|rewrite IH]; reflexivity.
Qed.

(* the invariant of a model type *)
Definition size_ok (m : mty) : Prop :=
  fits (shape m) = true ->
  (forall s, sizeof (shape m) = Some s -> ty_size m = s /\ 0 <= s < 2147483648) /\
  (forall e s, shape m = TArr None e -> sizeof e = Some s -> ty_size m = - s).
Definition align_ok (m : mty) : Prop :=
  forall a, alignof (shape m) = Some a -> ty_align m = a.

Lemma size_ok_base : forall l, size_ok (MBase l).
Proof.
  intros l Hf. split; [|discriminate]. cbn [shape sizeof ty_size fits] in *.
  destruct l; cbn [leaf_sizeof leaf_size leaf_fits] in *; intros s' E; try discriminate E; injection E as E; subst s';
    try (split; [reflexivity|lia]).
Qed.
Lemma align_ok_base : forall l, align_ok (MBase l).
Proof. intros l a E. destruct l; cbn in *; congruence. Qed.

Lemma size_ok_ptr : forall m, size_ok (MPtr m).
Proof.
  intros m _. split; [|discriminate]. intros s E. cbn in E. injection E as E. subst s. cbn. lia.
Qed.
Lemma size_ok_func : forall r ps v, size_ok (MFunc r ps v).
Proof. intros r ps v _. split; discriminate. Qed.

Lemma size_ok_array : forall m n, size_ok m ->
  match n with Some k => 0 <= k < 2147483648 | None => True end -> size_ok (array_of m (len_of n)).
Proof.
  intros m n Hm Hn Hf. unfold array_of in *. cbn [shape fits ty_size] in *.
  destruct n as [k|]; cbn [len_of] in *.
  - rewrite int32_id in * by lia.
    destruct (k <? 0) eqn:Ek; [apply Z.ltb_lt in Ek; lia|]. cbn [fits sizeof] in *.
    apply andb_prop in Hf. destruct Hf as [Hf Hprod]. apply andb_prop in Hf. destruct Hf as [Hf _].
    apply andb_prop in Hf. destruct Hf as [Hf _].
    destruct (Hm Hf) as [Hs _]. split; [|discriminate].
    intros s E. destruct (sizeof (shape m)) as [se|]; [|discriminate]. injection E as E. subst s.
    destruct (Hs se eq_refl) as [Hse Hr]. apply Z.ltb_lt in Hprod. rewrite Hse.
    assert (0 <= k * se) by lia.
    rewrite (Z.mul_comm se k). rewrite int32_id by lia. split; lia.
  - cbn [Z.ltb Z.compare fits sizeof] in *. destruct (Hm Hf) as [Hs _]. split; [discriminate|].
    intros e s E Hse. injection E as E. subst e.
    destruct (Hs s Hse) as [Hms Hr]. rewrite Hms.
    replace (s * -1) with (- s) by lia. unfold int32.
    destruct (Z.eq_dec s 0) as [->|Hnz]; [reflexivity|].
    rewrite Z.mod_small by lia. lia.
Qed.
Lemma align_ok_array : forall m len, align_ok m -> align_ok (array_of m len).
Proof. intros m len Hm a E. unfold array_of in *. cbn [shape alignof ty_align] in *. apply Hm. exact E. Qed.
Lemma align_ok_ptr : forall m, align_ok (MPtr m).
Proof. intros m a E. cbn in *. congruence. Qed.
Lemma align_ok_func : forall r ps v, align_ok (MFunc r ps v).
Proof. intros r ps v a E. discriminate E. Qed.

Definition Z_decl (d : decl) : Prop :=
  c11_ok d = true -> chibicc_ok d = true ->
  forall m, size_ok m /\ align_ok m -> size_ok (m_apply d m) /\ align_ok (m_apply d m).
Definition Z_dd (dd : direct) : Prop :=
  c11_ok_dd dd = true -> chibicc_ok_dd dd = true ->
  forall m, size_ok m /\ align_ok m -> size_ok (m_apply_dd dd m) /\ align_ok (m_apply_dd dd m).

Theorem sizes_all : (forall d, Z_decl d) /\ (forall dd, Z_dd dd).
Proof.
  assert (H : (forall d, Z_decl d) /\ (forall dd, Z_dd dd) /\ (forall ps : params, True) /\
              (forall l : plist, True) /\ (forall p : param, True)).
  2: { split; [exact (proj1 H)|exact (proj1 (proj2 H))]. }
  apply decl_mutind; try (intros; exact I).
  - intros q d IH Hc Hp m Hm. cbn [c11_ok chibicc_ok m_apply] in *. apply IH; try assumption.
    split; [apply size_ok_ptr|apply align_ok_ptr].
  - intros dd IH Hc Hp m Hm. cbn [c11_ok chibicc_ok m_apply] in *. apply IH; assumption.
  - intros x _ _ m Hm. exact Hm.
  - intros d IH Hc Hp m Hm. cbn [c11_ok_dd chibicc_ok_dd m_apply_dd] in *.
    apply andb_prop in Hc. destruct Hc as [_ Hc]. apply IH; assumption.
  - intros dd' IH n Hc Hp m [Hm1 Hm2]. cbn [c11_ok_dd chibicc_ok_dd m_apply_dd] in *.
    apply andb_prop in Hc. destruct Hc as [Hc Hn0]. apply andb_prop in Hc. destruct Hc as [_ Hc].
    apply andb_prop in Hp. destruct Hp as [Hp Hn1].
    apply IH; try assumption. split; [|apply align_ok_array; exact Hm2].
    apply size_ok_array; [exact Hm1|]. destruct n as [k|]; [|exact I].
    apply Z.leb_le in Hn0. apply Z.ltb_lt in Hn1. lia.
  - intros dd' IH ps _ Hc Hp m Hm. cbn [c11_ok_dd chibicc_ok_dd m_apply_dd] in *.
    apply andb_prop in Hc. destruct Hc as [Hc _]. apply andb_prop in Hc. destruct Hc as [_ Hc].
    apply andb_prop in Hp. destruct Hp as [Hp _]. apply andb_prop in Hp. destruct Hp as [_ Hp].
    apply IH; try assumption. split; [apply size_ok_func|apply align_ok_func].
Qed.

(* ------------------------------------------------------------------ headline of part 3 *)
Theorem declarator_size_align : forall d b rest,
  c11_ok d = true -> chibicc_ok d = true -> stops rest ->
  let t := type_of (TLeaf b) d in
  exists m, parse_declarator (print_decl d ++ rest) (MBase b) = Ok (name_of d, m, rest) /\
    shape m = unqual t /\
    (forall a, alignof t = Some a -> ty_align m = a) /\
    (fits t = true ->
       (forall s, sizeof t = Some s -> ty_size m = s) /\
       (forall e s, t = TArr None e -> sizeof e = Some s -> ty_size m = - s)).
Proof.
  intros d b rest Hc Hp Hs t. exists (m_apply d (MBase b)).
  assert (Hsh : shape (m_apply d (MBase b)) = unqual t)
    by (apply m_apply_is_c11_type; [assumption|assumption|reflexivity]).
  destruct (proj1 sizes_all d Hc Hp (MBase b) (conj (size_ok_base b) (align_ok_base b))) as [Hsz Hal].
  split; [apply parse_declarator_print; assumption|]. split; [exact Hsh|]. split.
  - intros a Ha. apply Hal. rewrite Hsh, alignof_unqual. exact Ha.
  - intros Hf. unfold size_ok in Hsz. rewrite Hsh, fits_unqual in Hsz. destruct (Hsz Hf) as [H1 H2]. split.
    + intros s E. apply H1. rewrite sizeof_unqual. exact E.
    + intros e s Et Ee. apply (H2 (unqual e) s).
      * rewrite Et. reflexivity.
      * rewrite sizeof_unqual. exact Ee.
Qed.

(* the same for any start type whose stored numbers are right (a typedef name, a struct from Model/Layout.v) *)
Theorem m_apply_size_align : forall d m, c11_ok d = true -> chibicc_ok d = true ->
  size_ok m -> align_ok m -> size_ok (m_apply d m) /\ align_ok (m_apply d m).
Proof. intros d m Hc Hp H1 H2. apply (proj1 sizes_all d Hc Hp m (conj H1 H2)). Qed.
