(* C08 (package decl), part 3: the numbers parse.c stores in the types it builds (ty->size, ty->align) are
   sizeof / _Alignof of the C11 type on the LP64 psABI - or the declarator is rejected as "array too large".

   ty->size is a C int.  Since fix fbdf355 array_dimensions refuses every array whose bound times element size
   leaves the C int, so (no side condition on sizes any more):

     * [declarator_size_align]      declarator() answers "array too large", or the stored size and alignment are
                                    the psABI numbers (an array of unknown bound stores MINUS the element size,
                                    chibicc's mark of an incomplete type);
     * [too_large_exact]            and "array too large" is answered EXACTLY when some array derivation written in the
                                    declarator needs more than INT32_MAX bytes (Spec: oversize) - never for a smaller
                                    one (the dummy pass cannot fire alone), always for a bigger one.

   Function types and void have no size in C11 (Spec: None); chibicc stores 1 for them (GNU C); nothing is
   claimed about that. *)
From Coq Require Import List ZArith Bool Lia.
From Chibicc Require Import Spec.DeclSyntax Spec.DeclSpec6_7_6 Model.Declarator
     Proofs.DeclaratorParse Proofs.DeclaratorTypes.
Import ListNotations.
Local Open Scope Z_scope.

Lemma sizeof_unqual : forall t, sizeof (unqual t) = sizeof t.
Proof.
  induction t as [l|q t IH|n t IH|r IH ps k]; cbn [unqual sizeof]; try reflexivity.
  destruct n; [rewrite IH|]; reflexivity.
Qed.
Lemma alignof_unqual : forall t, alignof (unqual t) = alignof t.
Proof. induction t as [l|q t IH|n t IH|r IH ps k]; cbn [unqual alignof]; auto. Qed.

(* the invariant of a model type *)
Definition size_ok (m : mty) : Prop :=
  (forall s, sizeof (shape m) = Some s -> ty_size m = s /\ 0 <= s <= 2147483647) /\
  (forall e s, shape m = TArr None e -> sizeof e = Some s -> ty_size m = - s).
Definition align_ok (m : mty) : Prop :=
  forall a, alignof (shape m) = Some a -> ty_align m = a.

Lemma size_ok_base : forall l, leaf_in_range l = true -> size_ok (MBase l).
Proof.
  intros l Hf. split; [|discriminate]. cbn [shape sizeof ty_size] in *.
  destruct l; cbn [leaf_sizeof leaf_size leaf_in_range] in *; intros s' E; try discriminate E; injection E as E; subst s';
    try (split; [reflexivity|lia]).
Qed.
Lemma align_ok_base : forall l, align_ok (MBase l).
Proof. intros l a E. destruct l; cbn in *; congruence. Qed.

Lemma size_ok_ptr : forall m, size_ok (MPtr m).
Proof. intros m. split; [|discriminate]. intros s E. cbn in E. injection E as E. subst s. cbn. lia. Qed.
Lemma size_ok_func : forall r ps v, size_ok (MFunc r ps v).
Proof. intros r ps v. split; discriminate. Qed.

(* k <= M / b  <->  k * b <= M   for b >= 1 : the C test `len > INT32_MAX / MAX(size, 1)` *)
Lemma div_test : forall k b, 1 <= b -> (k >? 2147483647 / b) = (k * b >? 2147483647).
Proof.
  intros k b Hb. rewrite !Z.gtb_ltb.
  destruct (2147483647 / b <? k) eqn:E1, (2147483647 <? k * b) eqn:E2; try reflexivity.
  - apply Z.ltb_lt in E1. apply Z.ltb_ge in E2. exfalso.
    assert (k <= 2147483647 / b) by (apply Z.div_le_lower_bound; lia). lia.
  - apply Z.ltb_ge in E1. apply Z.ltb_lt in E2. exfalso.
    pose proof (Z.mul_div_le 2147483647 b ltac:(lia)). nia.
Qed.

Lemma size_ok_array : forall m n, size_ok m ->
  match n with Some k => 0 <= k | None => True end -> fit n m = true -> size_ok (array_of m (len_of n)).
Proof.
  intros m n [Hs Hi] Hn Hfit. unfold size_ok, array_of. cbn [shape ty_size].
  destruct n as [k|]; cbn [len_of fit] in *.
  - apply negb_true_iff in Hfit. pose proof (too_large_bound k m Hfit) as Hk.
    rewrite int32_id by lia. destruct (k <? 0) eqn:Ek; [apply Z.ltb_lt in Ek; lia|].
    split; [|discriminate]. cbn [sizeof].
    intros s E. destruct (sizeof (shape m)) as [se|]; [|discriminate]. injection E as E. subst s.
    destruct (Hs se eq_refl) as [Hse Hr]. unfold too_large in Hfit. rewrite Hse in Hfit.
    rewrite div_test in Hfit by lia. rewrite Z.gtb_ltb in Hfit. apply Z.ltb_ge in Hfit.
    rewrite Hse. assert (0 <= k * se <= 2147483647) by nia.
    rewrite (Z.mul_comm se k), int32_id by lia. split; lia.
  - cbn [Z.ltb Z.compare]. split; [discriminate|].
    intros e s E Hse. injection E as E. subst e.
    destruct (Hs s Hse) as [Hms Hr]. rewrite Hms.
    replace (s * -1) with (- s) by lia. unfold int32.
    destruct (Z.eq_dec s 0) as [->|Hnz]; [reflexivity|].
    rewrite Z.mod_small by lia. lia.
Qed.
Lemma align_ok_array : forall m len, align_ok m -> align_ok (array_of m len).
Proof. intros m len Hm a E. unfold array_of in *. cbn [shape alignof ty_align] in *. apply Hm. exact E. Qed.
Lemma align_ok_ptr : forall m, align_ok (MPtr m).
Proof. intros m a E. cbn in *. congruence. Qed.
Lemma align_ok_func : forall r ps v, align_ok (MFunc r ps v).
Proof. intros r ps v a E. discriminate E. Qed.

Definition Z_decl (d : decl) : Prop :=
  c11_ok d = true ->
  forall m, chk d m = true -> size_ok m /\ align_ok m -> size_ok (m_apply d m) /\ align_ok (m_apply d m).
Definition Z_dd (dd : direct) : Prop :=
  c11_ok_dd dd = true ->
  forall m, chk_dd dd m = true -> size_ok m /\ align_ok m -> size_ok (m_apply_dd dd m) /\ align_ok (m_apply_dd dd m).

Theorem sizes_all : (forall d, Z_decl d) /\ (forall dd, Z_dd dd).
Proof.
  assert (H : (forall d, Z_decl d) /\ (forall dd, Z_dd dd) /\ (forall ps : params, True) /\
              (forall l : plist, True) /\ (forall p : param, True)).
  2: { split; [exact (proj1 H)|exact (proj1 (proj2 H))]. }
  apply decl_mutind; try (intros; exact I).
  - intros q d IH Hc m Hk Hm. cbn [c11_ok chk m_apply] in *. apply IH; try assumption.
    split; [apply size_ok_ptr|apply align_ok_ptr].
  - intros dd IH Hc m Hk Hm. cbn [c11_ok chk m_apply] in *. apply IH; assumption.
  - intros x _ m _ Hm. exact Hm.
  - intros d IH Hc m Hk Hm. cbn [c11_ok_dd chk_dd m_apply_dd] in *.
    apply andb_prop in Hc. destruct Hc as [_ Hc]. apply andb_prop in Hk. destruct Hk as [_ Hk]. apply IH; assumption.
  - intros dd' IH n Hc m Hk [Hm1 Hm2]. cbn [c11_ok_dd chk_dd m_apply_dd] in *.
    apply andb_prop in Hc. destruct Hc as [Hc Hn0]. apply andb_prop in Hc. destruct Hc as [_ Hc].
    apply andb_prop in Hk. destruct Hk as [Hfit Hk].
    apply IH; try assumption. split; [|apply align_ok_array; exact Hm2].
    apply size_ok_array; [exact Hm1| |exact Hfit]. destruct n as [k|]; [|exact I].
    apply Z.leb_le in Hn0. exact Hn0.
  - intros dd' IH ps _ Hc m Hk Hm. cbn [c11_ok_dd chk_dd m_apply_dd] in *.
    apply andb_prop in Hc. destruct Hc as [Hc _]. apply andb_prop in Hc. destruct Hc as [_ Hc].
    apply andb_prop in Hk. destruct Hk as [_ Hk].
    apply IH; try assumption. split; [apply size_ok_func|apply align_ok_func].
Qed.

(* ------------------------------------------------------------------ headline of part 3 *)
Theorem declarator_size_align : forall d b rest,
  c11_ok d = true -> leaf_in_range b = true -> stops rest ->
  let t := type_of (TLeaf b) d in
  parse_declarator (print_decl d ++ rest) (MBase b) = TooLarge \/
  exists m, parse_declarator (print_decl d ++ rest) (MBase b) = Ok (name_of d, m, rest) /\
    shape m = unqual t /\
    (forall a, alignof t = Some a -> ty_align m = a) /\
    (forall s, sizeof t = Some s -> ty_size m = s) /\
    (forall e s, t = TArr None e -> sizeof e = Some s -> ty_size m = - s).
Proof.
  intros d b rest Hc Hb Hs t. rewrite parse_declarator_print by assumption.
  destruct (chk d (MBase b)) eqn:Hk; [right|left; reflexivity].
  exists (m_apply d (MBase b)).
  assert (Hsh : shape (m_apply d (MBase b)) = unqual t)
    by (apply m_apply_is_c11_type; [assumption|assumption|reflexivity]).
  destruct (proj1 sizes_all d Hc (MBase b) Hk (conj (size_ok_base b Hb) (align_ok_base b))) as [[H1 H2] Hal].
  split; [reflexivity|]. split; [exact Hsh|]. split; [|split].
  - intros a Ha. apply Hal. rewrite Hsh, alignof_unqual. exact Ha.
  - intros s E. apply H1. rewrite Hsh, sizeof_unqual. exact E.
  - intros e s Et Ee. apply (H2 (unqual e) s).
    + rewrite Hsh, Et. reflexivity.
    + rewrite sizeof_unqual. exact Ee.
Qed.

(* the same for any start type whose stored numbers are right (a typedef name, a struct from Model/Layout.v) *)
Theorem m_apply_size_align : forall d m, c11_ok d = true -> chk d m = true ->
  size_ok m -> align_ok m -> size_ok (m_apply d m) /\ align_ok (m_apply d m).
Proof. intros d m Hc Hk H1 H2. apply (proj1 sizes_all d Hc m Hk (conj H1 H2)). Qed.

(* ------------------------------------------------------------------ the dummy pass never fires alone *)
(* the type of the dummy pass is, at every point, either as big as the type of the real pass or empty *)
Definition smaller (m1 m2 : mty) : Prop := ty_size m1 = ty_size m2 \/ ty_size m1 = 0.

Lemma fit_smaller : forall n m1 m2, smaller m1 m2 -> fit n m2 = true -> fit n m1 = true.
Proof.
  intros n m1 m2 H Hf. destruct n as [k|]; [|reflexivity]. cbn [fit] in *.
  apply negb_true_iff in Hf. apply negb_true_iff. unfold too_large in *.
  destruct H as [H|H]; [rewrite H; exact Hf|].
  rewrite H. rewrite Z.gtb_ltb in *. apply Z.ltb_ge in Hf. apply Z.ltb_ge.
  assert (2147483647 / Z.max (ty_size m2) 1 <= 2147483647 / Z.max 0 1).
  { apply Z.div_le_compat_l; lia. }
  lia.
Qed.

Lemma smaller_array : forall m1 m2 len, smaller m1 m2 -> smaller (array_of m1 len) (array_of m2 len).
Proof.
  intros m1 m2 len [H|H]; unfold smaller, array_of; cbn [ty_size]; [left; rewrite H; reflexivity|right].
  rewrite H. reflexivity.
Qed.

Definition M_decl (d : decl) : Prop :=
  forall m1 m2, smaller m1 m2 -> chk d m2 = true -> chk d m1 = true.
Definition M_dd (dd : direct) : Prop :=
  forall m1 m2, smaller m1 m2 -> chk_dd dd m2 = true -> chk_dd dd m1 = true.

Theorem mono_all : (forall d, M_decl d) /\ (forall dd, M_dd dd).
Proof.
  assert (H : (forall d, M_decl d) /\ (forall dd, M_dd dd) /\ (forall ps : params, True) /\
              (forall l : plist, True) /\ (forall p : param, True)).
  2: { split; [exact (proj1 H)|exact (proj1 (proj2 H))]. }
  apply decl_mutind; try (intros; exact I).
  - intros q d IH m1 m2 _ Hk. cbn [chk] in *. apply (IH (MPtr m1) (MPtr m2)); [left; reflexivity|exact Hk].
  - intros dd IH m1 m2 Hs Hk. cbn [chk] in *. apply (IH m1 m2); assumption.
  - intros x m1 m2 _ _. reflexivity.
  - intros d IH m1 m2 Hs Hk. cbn [chk_dd] in *. apply andb_prop in Hk. destruct Hk as [Hd Hk].
    rewrite Hd. cbn [andb]. apply (IH m1 m2); assumption.
  - intros dd' IH n m1 m2 Hs Hk. cbn [chk_dd] in *. apply andb_prop in Hk. destruct Hk as [Hf Hk].
    rewrite (fit_smaller n m1 m2 Hs Hf). cbn [andb].
    apply (IH _ _ (smaller_array m1 m2 (len_of n) Hs) Hk).
  - intros dd' IH ps _ m1 m2 _ Hk. cbn [chk_dd] in *. apply andb_prop in Hk. destruct Hk as [Hp Hk].
    rewrite Hp. cbn [andb]. apply (IH (MFunc m1 (m_params ps) (m_variadic ps)) (MFunc m2 (m_params ps) (m_variadic ps)));
      [left; reflexivity|exact Hk].
Qed.

Lemma chk_dummy : forall d m, chk d m = true -> chk d dummy = true.
Proof. intros d m H. apply (proj1 mono_all d dummy m); [right; reflexivity|exact H]. Qed.

(* ------------------------------------------------------------------ "array too large" exactly when oversize *)
Lemma fit_spec : forall n m T, shape m = unqual T -> size_ok m -> is_complete T = true ->
  fit n m = negb (array_too_big n T).
Proof.
  intros n m T Hsh [Hs _] Hc. destruct n as [k|]; [|reflexivity]. cbn [fit array_too_big]. f_equal.
  unfold is_complete in Hc. unfold esize. destruct (sizeof T) as [s|] eqn:E; [|discriminate].
  destruct (Hs s) as [Hm Hr]; [rewrite Hsh, sizeof_unqual; exact E|].
  unfold too_large. rewrite Hm. apply div_test. lia.
Qed.

Definition E_decl (d : decl) : Prop :=
  c11_ok d = true ->
  forall m T, elems_ok d T = true -> shape m = unqual T -> size_ok m -> chk d m = negb (oversize d T).
Definition E_dd (dd : direct) : Prop :=
  c11_ok_dd dd = true ->
  forall m T, elems_ok_dd dd T = true -> shape m = unqual T -> size_ok m -> chk_dd dd m = negb (oversize_dd dd T).
Definition E_params (ps : params) : Prop :=
  c11_ok_params ps = true -> elems_ok_params ps = true -> chk_params ps = negb (oversize_params ps).
Definition E_plist (l : plist) : Prop :=
  c11_ok_plist l = true -> elems_ok_plist l = true -> chk_plist l = negb (oversize_plist l).
Definition E_param (p : param) : Prop :=
  c11_ok_param p = true -> elems_ok_param p = true -> chk_param p = negb (oversize_param p).

Theorem exact_all :
  (forall d, E_decl d) /\ (forall dd, E_dd dd) /\ (forall ps, E_params ps) /\
  (forall l, E_plist l) /\ (forall p, E_param p).
Proof.
  apply decl_mutind.
  - (* DPtr *)
    intros q d IH Hc m T He Hsh Hs. cbn [c11_ok chk oversize elems_ok] in *.
    apply IH; try assumption; [|apply size_ok_ptr]. cbn [shape unqual]. rewrite Hsh. reflexivity.
  - (* DDirect *)
    intros dd IH Hc m T He Hsh Hs. cbn [c11_ok chk oversize elems_ok] in *. apply IH; assumption.
  - (* DIdent *)
    intros x _ m T _ _ _. reflexivity.
  - (* DParen *)
    intros d IH Hc m T He Hsh Hs. cbn [c11_ok_dd chk_dd oversize_dd elems_ok_dd] in *.
    apply andb_prop in Hc. destruct Hc as [_ Hc].
    rewrite <- (IH Hc m T He Hsh Hs).
    destruct (chk d m) eqn:Hk; [|apply andb_false_r]. rewrite (chk_dummy d m Hk). reflexivity.
  - (* DArray *)
    intros dd' IH n Hc m T He Hsh Hs. cbn [c11_ok_dd chk_dd oversize_dd elems_ok_dd] in *.
    apply andb_prop in Hc. destruct Hc as [Hc Hn0]. apply andb_prop in Hc. destruct Hc as [_ Hc].
    apply andb_prop in He. destruct He as [Hcomp He].
    rewrite (fit_spec n m T Hsh Hs Hcomp).
    destruct (array_too_big n T) eqn:Hbig; cbn [negb andb orb]; [reflexivity|].
    assert (Hfit : fit n m = true) by (rewrite (fit_spec n m T Hsh Hs Hcomp), Hbig; reflexivity).
    assert (Hn : match n with Some k => 0 <= k | None => True end).
    { destruct n as [k|]; [apply Z.leb_le in Hn0; exact Hn0|exact I]. }
    apply IH; try assumption; [|apply size_ok_array; assumption].
    unfold array_of. cbn [shape unqual]. rewrite Hsh. f_equal.
    destruct n as [k|]; cbn [len_of]; [|reflexivity].
    cbn [fit] in Hfit. apply negb_true_iff in Hfit. apply too_large_bound in Hfit.
    rewrite int32_id by lia. destruct (k <? 0) eqn:E; [apply Z.ltb_lt in E; lia|reflexivity].
  - (* DFunc *)
    intros dd' IH ps IHps Hc m T He Hsh Hs. cbn [c11_ok_dd chk_dd oversize_dd elems_ok_dd] in *.
    apply andb_prop in Hc. destruct Hc as [Hc Hcps]. apply andb_prop in Hc. destruct Hc as [_ Hc].
    apply andb_prop in He. destruct He as [Heps He].
    rewrite (IHps Hcps Heps).
    destruct (oversize_params ps) eqn:Hbig; cbn [negb andb orb]; [reflexivity|].
    assert (Hk : chk_params ps = true) by (rewrite (IHps Hcps Heps), Hbig; reflexivity).
    apply IH; try assumption; [|apply size_ok_func].
    destruct (proj1 (proj2 (proj2 types_all)) ps Hcps Hk) as [E1 E2].
    cbn [shape unqual]. rewrite Hsh, E1, E2. reflexivity.
  - (* PUnspec *) intros _ _. reflexivity.
  - (* PVoid *) intros _ _. reflexivity.
  - (* PList *) intros l IH v Hc He. cbn [c11_ok_params chk_params oversize_params elems_ok_params] in *. apply IH; assumption.
  - (* POne *) intros p IH Hc He. cbn [c11_ok_plist chk_plist oversize_plist elems_ok_plist] in *. apply IH; assumption.
  - (* PCons *)
    intros p IH l IHl Hc He. cbn [c11_ok_plist chk_plist oversize_plist elems_ok_plist] in *.
    apply andb_prop in Hc. destruct Hc as [Hc Hcl]. apply andb_prop in He. destruct He as [He Hel].
    rewrite (IH Hc He), (IHl Hcl Hel). symmetry. apply negb_orb.
  - (* Param *)
    intros b d IH Hc He. cbn [c11_ok_param chk_param oversize_param elems_ok_param] in *.
    apply andb_prop in Hc. destruct Hc as [Hc _]. apply andb_prop in He. destruct He as [Hb He].
    apply IH; try assumption; [reflexivity|apply size_ok_base; exact Hb].
Qed.

Theorem chk_is_not_oversize : forall d b, c11_ok d = true -> leaf_in_range b = true ->
  elems_ok d (TLeaf b) = true -> chk d (MBase b) = negb (oversize d (TLeaf b)).
Proof.
  intros d b Hc Hb He. apply (proj1 exact_all d Hc (MBase b) (TLeaf b) He eq_refl (size_ok_base b Hb)).
Qed.

(* "array too large" exactly for the declarators that need an array of more than INT32_MAX bytes *)
Theorem too_large_exact : forall d b rest,
  c11_ok d = true -> leaf_in_range b = true -> elems_ok d (TLeaf b) = true -> stops rest ->
  (parse_declarator (print_decl d ++ rest) (MBase b) = TooLarge <-> oversize d (TLeaf b) = true).
Proof.
  intros d b rest Hc Hb He Hs. rewrite parse_declarator_print by assumption.
  rewrite (chk_is_not_oversize d b Hc Hb He).
  destruct (oversize d (TLeaf b)); cbn [negb]; split; intros H; try reflexivity; discriminate H.
Qed.

(* both together: within the limit the psABI numbers, beyond it the diagnostic *)
Theorem declarator_size_or_too_large : forall d b rest,
  c11_ok d = true -> leaf_in_range b = true -> elems_ok d (TLeaf b) = true -> stops rest ->
  let t := type_of (TLeaf b) d in
  if oversize d (TLeaf b)
  then parse_declarator (print_decl d ++ rest) (MBase b) = TooLarge
  else exists m, parse_declarator (print_decl d ++ rest) (MBase b) = Ok (name_of d, m, rest) /\
         shape m = unqual t /\
         (forall a, alignof t = Some a -> ty_align m = a) /\
         (forall s, sizeof t = Some s -> ty_size m = s) /\
         (forall e s, t = TArr None e -> sizeof e = Some s -> ty_size m = - s).
Proof.
  intros d b rest Hc Hb He Hs t.
  pose proof (too_large_exact d b rest Hc Hb He Hs) as Hx.
  destruct (oversize d (TLeaf b)) eqn:Ho.
  - apply Hx. reflexivity.
  - destruct (declarator_size_align d b rest Hc Hb Hs) as [H|H]; [|exact H].
    apply Hx in H. discriminate H.
Qed.

(* the same for type names *)
Theorem typename_size_or_too_large : forall d b rest,
  c11_ok d = true -> name_of d = None -> leaf_in_range b = true -> elems_ok d (TLeaf b) = true -> stops rest ->
  let t := type_of (TLeaf b) d in
  if oversize d (TLeaf b)
  then parse_typename (TBase b :: print_decl d ++ rest) = TooLarge
  else exists m, parse_typename (TBase b :: print_decl d ++ rest) = Ok (m, rest) /\
         shape m = unqual t /\
         (forall a, alignof t = Some a -> ty_align m = a) /\
         (forall s, sizeof t = Some s -> ty_size m = s).
Proof.
  intros d b rest Hc Hn Hb He Hs t. rewrite parse_typename_print by assumption.
  rewrite (chk_is_not_oversize d b Hc Hb He).
  destruct (oversize d (TLeaf b)) eqn:Ho; cbn [negb]; [reflexivity|].
  assert (Hk : chk d (MBase b) = true) by (rewrite (chk_is_not_oversize d b Hc Hb He), Ho; reflexivity).
  exists (m_apply d (MBase b)).
  assert (Hsh : shape (m_apply d (MBase b)) = unqual t)
    by (apply m_apply_is_c11_type; [assumption|assumption|reflexivity]).
  destruct (proj1 sizes_all d Hc (MBase b) Hk (conj (size_ok_base b Hb) (align_ok_base b))) as [[H1 H2] Hal].
  split; [reflexivity|]. split; [exact Hsh|]. split.
  - intros a Ha. apply Hal. rewrite Hsh, alignof_unqual. exact Ha.
  - intros s E. apply H1. rewrite Hsh, sizeof_unqual. exact E.
Qed.
