(* The frame assign_lvar_offsets lays out (Model/ExprMem.v, layout) is well formed: whatever the
   declared variables and however many pointer temporaries, the byte ranges are pairwise disjoint and
   lie inside the frame below %rbp.  So wf_frame in the main theorem holds for every function body of
   the shape the tie generates, not only for the frames it checks. *)
From Coq Require Import ZArith Bool List Lia.
From Chibicc Require Import Spec.C11Int Spec.C11IntMem Model.X86Int Model.ExprMem Proofs.CastTableProofs Proofs.ExprMemProofs
     Proofs.ExprMemCorrect Proofs.ExprMemIncDec Proofs.ExprMemMain.
Import ListNotations.
Local Open Scope Z_scope.

Lemma align_ge x s : 0 < s -> x <= (x + s - 1) / s * s.
Proof.
  intros Hs. pose proof (Z.mul_succ_div_gt (x + s - 1) s Hs) as H. nia.
Qed.

(* temporaries, newest first: each strictly below the previous one, all in [-b', -b) *)
Lemma lay_temps_spec : forall ks b l b', lay_temps ks b = (l, b') ->
  map fst l = ks /\ b <= b' /\
  (forall i, (i < length ks)%nat -> - b' <= snd (nth i l (TPtr, 0)) /\ snd (nth i l (TPtr, 0)) + tk_size (fst (nth i l (TPtr, 0))) <= - b) /\
  (forall i j, (i < j < length ks)%nat -> snd (nth j l (TPtr, 0)) + tk_size (fst (nth j l (TPtr, 0))) <= snd (nth i l (TPtr, 0))).
Proof.
  induction ks as [|k ks IH]; intros b l b' H; cbn [lay_temps] in H.
  - injection H as <- <-. split; [reflexivity|]. split; [lia|]. split; cbn [length]; intros; lia.
  - set (b1 := (b + tk_size k + tk_size k - 1) / tk_size k * tk_size k) in *.
    destruct (lay_temps ks b1) as [r b2] eqn:E. injection H as <- <-.
    destruct (IH _ _ _ E) as (M & B & R & O).
    assert (A : b + tk_size k <= b1) by (apply align_ge; apply tk_size_pos). clearbody b1.
    split; [cbn [map fst]; rewrite M; reflexivity|]. split; [pose proof (tk_size_pos k); lia|]. split.
    + intros [|i] Hi; cbn [nth fst snd length] in *; [lia|]. specialize (R i ltac:(lia)). pose proof (tk_size_pos k). lia.
    + intros [|i] [|j] Hij; cbn [nth fst snd length] in *; try lia.
      * specialize (R j ltac:(lia)). lia.
      * apply O. lia.
Qed.

Lemma lay_vars_spec : forall ts b l b', lay_vars ts b = (l, b') ->
  map fst l = ts /\ b <= b' /\
  (forall i, (i < length ts)%nat -> - b' <= snd (nth i l (I32, 0)) /\ snd (nth i l (I32, 0)) + size_of (fst (nth i l (I32, 0))) <= - b) /\
  (forall i j, (i < j < length ts)%nat -> snd (nth j l (I32, 0)) + size_of (fst (nth j l (I32, 0))) <= snd (nth i l (I32, 0))).
Proof.
  induction ts as [|t ts IH]; intros b l b' H; cbn [lay_vars] in H.
  - injection H as <- <-. split; [reflexivity|]. split; [lia|]. split; cbn [length]; intros; lia.
  - set (b1 := (b + size_of t + size_of t - 1) / size_of t * size_of t) in *.
    destruct (lay_vars ts b1) as [r b2] eqn:E. injection H as <- <-.
    destruct (IH _ _ _ E) as (M & B & R & O).
    assert (A : b + size_of t <= b1) by (apply align_ge; apply size_pos). clearbody b1.
    split; [cbn [map fst]; rewrite M; reflexivity|]. split; [pose proof (size_pos t); lia|]. split.
    + intros [|i] Hi; cbn [nth fst snd length] in *; [lia|]. specialize (R i ltac:(lia)). pose proof (size_pos t). lia.
    + intros [|i] [|j] Hij; cbn [nth fst snd length] in *; try lia.
      * specialize (R j ltac:(lia)). lia.
      * apply O. lia.
Qed.

(* the lowest address used: the frame needs rbp >= frame_bottom *)
Definition frame_bottom (ts : list ity) (ks : list tkind) : Z := snd (lay_vars (rev ts) (snd (lay_temps (rev ks) 0))).

Theorem layout_wf : forall rbp ts ks, frame_bottom ts ks <= rbp -> rbp <= 2 ^ 64 -> wf_frame (layout rbp ts ks).
Proof.
  intros rbp ts ks Hlo Hhi. unfold frame_bottom in Hlo. unfold layout.
  destruct (lay_temps (rev ks) 0) as [tl bt] eqn:Et. cbn [snd] in Hlo. destruct (lay_vars (rev ts) bt) as [vl bv] eqn:Ev. cbn [snd] in Hlo.
  destruct (lay_temps_spec _ _ _ _ Et) as (Mt & Bt & Rt & Ot). rewrite rev_length in Rt, Ot.
  destruct (lay_vars_spec _ _ _ _ Ev) as (Mv & Bv & Rv & Ov). rewrite rev_length in Rv, Ov.
  assert (Lv : length vl = length ts) by (rewrite <- (map_length fst vl), Mv, rev_length; reflexivity).
  assert (Lt : length tl = length ks) by (rewrite <- (map_length fst tl), Mt, rev_length; reflexivity).
  set (nt := length ks) in *.
  set (F := {| frbp := rbp; fvars := rev vl; ftemps := rev tl |}).
  assert (NV : nvars F = length ts) by (unfold nvars, F; cbn [fvars]; rewrite rev_length; exact Lv).
  assert (NT : ntmps F = nt) by (unfold ntmps, F; cbn [ftemps]; rewrite rev_length; exact Lt).
  (* a variable / a temporary seen through rev *)
  assert (VA : forall x, (x < length ts)%nat ->
            vaddr F x = rbp + snd (nth (length ts - S x) vl (I32, 0)) /\ vsize F x = size_of (fst (nth (length ts - S x) vl (I32, 0)))).
  { intros x Hx. unfold vaddr, voff, vsize, vty, ftys, F. cbn [frbp fvars].
    rewrite (map_nth fst (rev vl) (I32, 0) x : nth x (map fst (rev vl)) I32 = fst (nth x (rev vl) (I32, 0))).
    rewrite !rev_nth by lia. rewrite Lv. auto. }
  assert (TA : forall i, (i < nt)%nat ->
            taddr F i = rbp + snd (nth (nt - S i) tl (TPtr, 0)) /\ tsize F i = tk_size (fst (nth (nt - S i) tl (TPtr, 0)))).
  { intros i Hi. unfold taddr, toff, tsize, tkind_at, F. cbn [frbp ftemps]. rewrite !rev_nth by lia. rewrite Lt. auto. }
  unfold wf_frame. rewrite NV, NT. change (2 ^ 64) with 18446744073709551616 in *. split; [|split; [|split; [|split]]].
  - intros x Hx. destruct (VA x Hx) as [-> ->]. specialize (Rv (length ts - S x)%nat ltac:(lia)). lia.
  - intros i Hi. destruct (TA i Hi) as [-> ->]. specialize (Rt (nt - S i)%nat ltac:(lia)). lia.
  - intros x y Hx Hy Hxy. destruct (VA x Hx) as [-> ->]. destruct (VA y Hy) as [-> ->]. unfold sep.
    destruct (Nat.lt_ge_cases x y) as [Lxy|Lxy].
    + pose proof (Ov (length ts - S y)%nat (length ts - S x)%nat ltac:(lia)). lia.
    + pose proof (Ov (length ts - S x)%nat (length ts - S y)%nat ltac:(lia)). lia.
  - intros x i Hx Hi. destruct (VA x Hx) as [-> ->]. destruct (TA i Hi) as [-> ->]. unfold sep.
    specialize (Rv (length ts - S x)%nat ltac:(lia)). specialize (Rt (nt - S i)%nat ltac:(lia)). lia.
  - intros i j Hi Hj Hij. destruct (TA i Hi) as [-> ->]. destruct (TA j Hj) as [-> ->]. unfold sep.
    destruct (Nat.lt_ge_cases i j) as [Lij|Lij].
    + pose proof (Ot (nt - S j)%nat (nt - S i)%nat ltac:(lia)). lia.
    + pose proof (Ot (nt - S i)%nat (nt - S j)%nat ltac:(lia)). lia.
Qed.

Lemma layout_types rbp ts ks : ftys (layout rbp ts ks) = ts.
Proof.
  unfold layout. destruct (lay_temps (rev ks) 0) as [tl bt]. destruct (lay_vars (rev ts) bt) as [vl bv] eqn:Ev.
  destruct (lay_vars_spec _ _ _ _ Ev) as (Mv & _). unfold ftys. cbn [fvars]. rewrite map_rev, Mv. apply rev_involutive.
Qed.

Lemma layout_kinds rbp ts ks : map fst (ftemps (layout rbp ts ks)) = ks.
Proof.
  unfold layout. destruct (lay_temps (rev ks) 0) as [tl bt] eqn:Et. destruct (lay_vars (rev ts) bt) as [vl bv].
  destruct (lay_temps_spec _ _ _ _ Et) as (Mt & _). cbn [ftemps]. rewrite map_rev, Mt. apply rev_involutive.
Qed.

Lemma layout_nvars rbp ts ks : nvars (layout rbp ts ks) = length ts.
Proof. unfold nvars. rewrite <- (map_length fst). fold (ftys (layout rbp ts ks)). rewrite layout_types. reflexivity. Qed.

Lemma layout_rbp rbp ts ks : frbp (layout rbp ts ks) = rbp.
Proof. unfold layout. destruct (lay_temps (rev ks) 0) as [tl bt]. destruct (lay_vars (rev ts) bt) as [vl bv]. reflexivity. Qed.

(* the frame laid out for the temporaries of e holds them *)
Lemma layout_fits rbp ts e : temps_fit (layout rbp ts (temps_of ts e)) e.
Proof.
  unfold temps_fit, kinds_at. rewrite layout_types. intros i k Hi. cbn [Nat.add].
  set (F := layout rbp ts (temps_of ts e)).
  assert (K : map fst (ftemps F) = temps_of ts e) by apply layout_kinds.
  assert (Hlt : (i < length (temps_of ts e))%nat) by (apply nth_error_Some; rewrite Hi; discriminate).
  split.
  - unfold ntmps. rewrite <- (map_length fst (ftemps F)), K. exact Hlt.
  - unfold tkind_at. rewrite <- (map_nth fst (ftemps F) (TPtr, 0) i : nth i (map fst (ftemps F)) TPtr = fst (nth i (ftemps F) (TPtr, 0))).
    rewrite K. apply nth_error_nth with (d := TPtr) in Hi. exact Hi.
Qed.

(* the main theorem for the frame chibicc itself lays out: no assumption on the frame is left but that
   it fits below %rbp in the address space *)
Theorem mcompile_correct_layout : forall rbp ts e env v env',
  frame_bottom ts (temps_of ts e) <= rbp -> rbp <= 2 ^ 64 ->
  vars_in (length ts) e = true ->
  meval ts env e = Some (v, env') ->
  let F := layout rbp ts (temps_of ts e) in
  forall s k m, agree F env m ->
  exists s' m', mrun rbp (mcompile F e) (s, k, m) = Some (s', k, m') /\
                R (mtype ts e) v (rax s') /\ agree F env' m' /\ unchanged_outside F m m'.
Proof.
  intros rbp ts e env v env' Hlo Hhi Hv H F s k m Ha.
  pose proof (layout_wf rbp ts (temps_of ts e) Hlo Hhi) as WF. fold F in WF.
  pose proof (layout_types rbp ts (temps_of ts e)) as Ty. fold F in Ty.
  pose proof (layout_nvars rbp ts (temps_of ts e)) as NV. fold F in NV.
  pose proof (layout_rbp rbp ts (temps_of ts e)) as Hrbp. fold F in Hrbp.
  rewrite <- Hrbp, <- Ty.
  apply (mcompile_correct F e env v env' WF); try assumption.
  - rewrite NV. exact Hv.
  - apply layout_fits.
  - rewrite Ty. exact H.
Qed.
