From Chibicc Require Import Base.Mach Model.Control.
Local Open Scope Z_scope.

(* a value of the promoted controlling type: signed or unsigned, w bits *)
Definition in_ty (w : Z) (sgn : bool) (v : Z) : Prop :=
  if sgn then - 2 ^ (w - 1) <= v < 2 ^ (w - 1) else 0 <= v < 2 ^ w.

(* C11 6.8.4.2 (+ GNU ranges): the case whose value, converted to the promoted controlling type, is equal
   to (resp. whose converted bounds enclose) the controlling value *)
Definition conv (w : Z) (sgn : bool) (v : Z) : Z := if sgn then (v + 2 ^ (w - 1)) mod 2 ^ w - 2 ^ (w - 1) else v mod 2 ^ w.
Definition matches (w : Z) (sgn : bool) (v : Z) (c : case) : Prop := conv w sgn (c_begin c) <= v <= conv w sgn (c_end c).

Lemma range_trick32 v b e sgn : in_ty 32 sgn v -> conv 32 sgn b <= conv 32 sgn e ->
  (wrap 32 (v - b) <= wrap 32 (e - b) <-> conv 32 sgn b <= v <= conv 32 sgn e).
Proof. unfold in_ty, conv, wrap. destruct sgn; cbn -[Z.modulo]; intros; lia. Qed.
Lemma range_trick64 v b e sgn : in_ty 64 sgn v -> conv 64 sgn b <= conv 64 sgn e ->
  (wrap 64 (v - b) <= wrap 64 (e - b) <-> conv 64 sgn b <= v <= conv 64 sgn e).
Proof. unfold in_ty, conv, wrap. destruct sgn; cbn -[Z.modulo]; intros; lia. Qed.
Lemma eq_trick32 v b sgn : in_ty 32 sgn v -> (wrap 32 v = wrap 32 b <-> v = conv 32 sgn b).
Proof. unfold in_ty, conv, wrap. destruct sgn; cbn -[Z.modulo]; intros; lia. Qed.
Lemma eq_trick64 v b sgn : in_ty 64 sgn v -> (wrap 64 v = wrap 64 b <-> v = conv 64 sgn b).
Proof. unfold in_ty, conv, wrap. destruct sgn; cbn -[Z.modulo]; intros; lia. Qed.

Definition wf_case (w : Z) (sgn : bool) (c : case) : Prop := conv w sgn (c_begin c) <= conv w sgn (c_end c).

(* the emitted test of one case decides exactly "matches" *)
Lemma case_test w sgn v c : (w = 32 \/ w = 64) -> in_ty w sgn v -> wf_case w sgn c ->
  (if c_begin c =? c_end c then wrap w v =? wrap w (c_begin c) else wrap w (v - c_begin c) <=? wrap w (c_end c - c_begin c)) = true
  <-> matches w sgn v c.
Proof.
  intros Hw Hv Hc. unfold matches, wf_case in *. destruct (c_begin c =? c_end c) eqn:E.
  - apply Z.eqb_eq in E. rewrite <- E in *. rewrite Z.eqb_eq.
    destruct Hw as [-> | ->]; [rewrite eq_trick32 by exact Hv|rewrite eq_trick64 by exact Hv]; lia.
  - rewrite Z.leb_le. destruct Hw as [-> | ->]; [apply range_trick32|apply range_trick64]; assumption.
Qed.

(* dispatch jumps to the first matching case in list order; if the cases are pairwise disjoint (no
   duplicate case values: a constraint of C11) that is THE matching case; else default, else break *)
Theorem dispatch_first_match w sgn v cs dflt brk : (w = 32 \/ w = 64) -> in_ty w sgn v -> Forall (wf_case w sgn) cs ->
  (exists pre c post, cs = pre ++ c :: post /\ matches w sgn v c /\ Forall (fun c' => ~ matches w sgn v c') pre /\ dispatch w v cs dflt brk = c_label c)
  \/ (Forall (fun c' => ~ matches w sgn v c') cs /\ dispatch w v cs dflt brk = match dflt with Some l => l | None => brk end).
Proof.
  intros Hw Hv Hc. induction Hc as [|c r Hc0 Hr IH]; [right; split; [constructor|reflexivity]|].
  cbn [dispatch]. pose proof (case_test w sgn v c Hw Hv Hc0) as T.
  destruct (c_begin c =? c_end c).
  - destruct (wrap w v =? wrap w (c_begin c)).
    + left. exists [], c, r. split; [reflexivity|split; [apply T; reflexivity|split; [constructor|reflexivity]]].
    + assert (~ matches w sgn v c) by (intros M; apply T in M; discriminate).
      destruct IH as [(pre & c' & post & -> & M & Hp & D)|[Hn D]].
      * left. exists (c :: pre), c', post. split; [reflexivity|split; [exact M|split; [constructor; assumption|exact D]]].
      * right. split; [constructor; assumption|exact D].
  - destruct (wrap w (v - c_begin c) <=? wrap w (c_end c - c_begin c)).
    + left. exists [], c, r. split; [reflexivity|split; [apply T; reflexivity|split; [constructor|reflexivity]]].
    + assert (~ matches w sgn v c) by (intros M; apply T in M; discriminate).
      destruct IH as [(pre & c' & post & -> & M & Hp & D)|[Hn D]].
      * left. exists (c :: pre), c', post. split; [reflexivity|split; [exact M|split; [constructor; assumption|exact D]]].
      * right. split; [constructor; assumption|exact D].
Qed.

(* the value parse.c stores denotes the same case value *)
Theorem stored_conv w sgn v : (w = 32 \/ w = 64) -> conv w sgn (stored w v) = conv w sgn v.
Proof.
  intros [-> | ->]; unfold stored, conv, to_int32; cbn -[Z.modulo]; [|reflexivity]. destruct sgn; lia.
Qed.

(* ---------- scopes ---------- *)
Section S.
Variables K V T : Type.
Variable keq : K -> K -> bool.
Notation scopes := (scopes K V T).

(* a use binds to the innermost frame that declares the name *)
Theorem find_var_innermost (f : frame K V T) (s : scopes) k :
  find_var K V T keq (f :: s) k = match assoc K keq (f_vars K V T f) k with Some v => Some v | None => find_var K V T keq s k end.
Proof. reflexivity. Qed.

(* the most recent declaration in the current frame wins; other names are unaffected *)
Theorem push_var_lookup (s : scopes) k v k' : s <> [] ->
  find_var K V T keq (push_var K V T s k v) k' = if keq k k' then Some v else find_var K V T keq s k'.
Proof. destruct s as [|f r]; [congruence|]. intros _. cbn. destruct (keq k k'); reflexivity. Qed.

(* declarations made inside a block are gone after it: whatever was declared, lookup is as before *)
Fixpoint declare (s : scopes) (ds : list (K * V + K * T)) : scopes :=
  match ds with
  | [] => s
  | inl (k, v) :: r => declare (push_var K V T s k v) r
  | inr (k, t) :: r => declare (push_tag K V T s k t) r
  end.
Lemma declare_tl : forall ds (s : scopes), s <> [] -> declare s ds <> [] /\ tl (declare s ds) = tl s.
Proof.
  induction ds as [|[[k v]|[k t]] r IH]; intros s Hs; [split; auto| |]; destruct s as [|f s']; try congruence; cbn [declare push_var push_tag].
  - match goal with |- declare ?x r <> [] /\ _ => destruct (IH x ltac:(discriminate)) as [A B] end. split; [exact A|rewrite B; reflexivity].
  - match goal with |- declare ?x r <> [] /\ _ => destruct (IH x ltac:(discriminate)) as [A B] end. split; [exact A|rewrite B; reflexivity].
Qed.
Theorem block_scope_restores (s : scopes) ds : leave_scope K V T (declare (enter_scope K V T s) ds) = s.
Proof. unfold leave_scope, enter_scope. destruct (declare_tl ds ({| f_vars := []; f_tags := [] |} :: s) ltac:(discriminate)) as [_ B]. rewrite B. reflexivity. Qed.

(* tags and ordinary identifiers live in different name spaces *)
Theorem tag_does_not_hide_var (s : scopes) k t k' : find_var K V T keq (push_tag K V T s k t) k' = find_var K V T keq s k'.
Proof. destruct s as [|f r]; reflexivity. Qed.
Theorem var_does_not_hide_tag (s : scopes) k v k' : find_tag K V T keq (push_var K V T s k v) k' = find_tag K V T keq s k'.
Proof. destruct s as [|f r]; reflexivity. Qed.
End S.
