(* A space (or a new-line) always separates: the token found at a position does not depend on
   what follows the separator.  Consequence: text printed with a separator between the tokens
   lexes back to the same tokens.  And the finite sweep over the punctuator table of the
   source: which adjacent punctuator pairs fuse. *)
From Chibicc Require Import Base.Mach Model.Lexer Gen.PunctTable.
Local Open Scope N_scope.

Definition is_sep (c : N) : bool := (c =? 10) || (c =? 32).

Lemma sep_facts c : is_sep c = true ->
  is_ident2 c = false /\ num_char c = false /\ is_sign c = false /\ is_exp c = false /\ is_punct c = false /\
  is_digit c = false /\ (c =? 34) = false /\ (c =? 39) = false /\ (c =? 92) = false /\ is_ident1 c = false.
Proof.
  unfold is_sep. intros H. apply orb_true_iff in H as [H|H]; apply N.eqb_eq in H; subst; vm_compute; repeat split; reflexivity.
Qed.

(* ---------- the scanners stop at the separator whatever follows it ---------- *)
Lemma scan_ident2_stable : forall x c1 r1 c2 r2, is_sep c2 = true ->
  scan_ident2 (x ++ c1 :: r1) = length x -> scan_ident2 (x ++ c2 :: r2) = length x.
Proof.
  induction x as [|y x IH]; intros c1 r1 c2 r2 Hs H; cbn [app scan_ident2 length] in *.
  - destruct (sep_facts c2 Hs) as [E _]. rewrite E. reflexivity.
  - destruct (is_ident2 y); [|discriminate]. f_equal. eapply IH; eauto.
Qed.

Lemma scan_num_stable : forall n x c1 r1 c2 r2, (length x <= n)%nat -> is_sep c1 = true -> is_sep c2 = true ->
  scan_num (x ++ c1 :: r1) = length x -> scan_num (x ++ c2 :: r2) = length x.
Proof.
  induction n as [|n IH]; intros x c1 r1 c2 r2 Hn H1 H2 H.
  - destruct x; [|cbn in Hn; lia]. cbn [app scan_num length] in *.
    destruct (sep_facts c2 H2) as [_ [E2 [_ [E4 _]]]]. destruct r2; rewrite ?E4, ?E2; reflexivity.
  - destruct x as [|y x].
    + cbn [app scan_num length] in *. destruct (sep_facts c2 H2) as [_ [E2 [_ [E4 _]]]]. destruct r2; rewrite ?E4, ?E2; reflexivity.
    + cbn [app length] in *. destruct x as [|z x].
      * (* last byte of the number, followed by the separator *)
        cbn [app scan_num] in *.
        destruct (sep_facts c1 H1) as [_ [_ [S1 _]]]. destruct (sep_facts c2 H2) as [_ [N2 [S2 [X2 _]]]].
        rewrite S1 in H. rewrite S2. rewrite andb_false_r in *.
        destruct (num_char y); [|discriminate].
        f_equal. destruct r2; cbn [scan_num]; rewrite ?X2, ?N2; reflexivity.
      * cbn [app scan_num] in *.
        destruct (is_exp y && is_sign z) eqn:E.
        { cbn [length] in *. injection H as H. f_equal. f_equal. apply (IH x c1 r1 c2 r2); auto. lia. }
        destruct (num_char y); [|discriminate]. injection H as H. f_equal.
        apply (IH (z :: x) c1 r1 c2 r2); auto. cbn [length] in *. lia.
Qed.

Lemma find_quote_stable : forall x r1 r2 n, find_quote (x ++ r1) = Some n -> (n < length x)%nat -> find_quote (x ++ r2) = Some n.
Proof.
  induction x as [|y x IH]; intros r1 r2 n H Hn; [cbn in Hn; lia|]. cbn [app find_quote length] in *.
  destruct (y =? 39); [exact H|]. destruct (find_quote (x ++ r1)) as [m|] eqn:E; [|discriminate]. cbn in H. injection H as <-.
  rewrite (IH r1 r2 m E); [reflexivity|lia].
Qed.

Lemma string_end_stable : forall k x r1 r2 n, (length x <= k)%nat -> string_end (x ++ r1) = Some n -> (n < length x)%nat -> string_end (x ++ r2) = Some n.
Proof.
  induction k as [|k IH]; intros x r1 r2 n Hk H Hn; [destruct x; cbn in *; lia|].
  destruct x as [|y x]; [cbn in Hn; lia|]. cbn [app string_end length] in *.
  destruct (y =? 34); [exact H|]. destruct (y =? 10); [discriminate|].
  destruct (y =? 92).
  - destruct x as [|z x].
    + cbn [app] in *. destruct r1 as [|a r1]; [discriminate|]. destruct (string_end r1); cbn in H; [injection H as <-; cbn in Hn; lia|discriminate].
    + cbn [app] in *. destruct (string_end (x ++ r1)) as [m|] eqn:E; [|discriminate]. cbn in H. injection H as <-.
      rewrite (IH x r1 r2 m); [reflexivity| cbn in Hk; lia | exact E | cbn in Hn; lia].
  - destruct (string_end (x ++ r1)) as [m|] eqn:E; [|discriminate]. cbn in H. injection H as <-.
    rewrite (IH x r1 r2 m); [reflexivity| cbn in Hk; lia | exact E | lia].
Qed.

Lemma starts_with_app p r pre : (length pre <= length p)%nat -> starts_with (p ++ r) pre = starts_with p pre.
Proof.
  revert p; induction pre as [|a pre IHp]; intros p H; [destruct p; destruct r; reflexivity|].
  destruct p as [|b p]; [cbn in H; lia|]. cbn [app starts_with]. rewrite IHp by (cbn in H; lia). reflexivity.
Qed.

(* a table entry that matches text cut at a separator lies inside the text before the separator *)
Lemma starts_with_sep : forall pre x c r, is_sep c = true -> forallb (fun b => negb (is_sep b)) pre = true ->
  starts_with (x ++ c :: r) pre = true -> (length pre <= length x)%nat.
Proof.
  induction pre as [|a pre IH]; intros x c r Hc Hp H; cbn in *; [lia|].
  apply andb_true_iff in Hp as [Ha Hp].
  destruct x as [|y x]; cbn [app starts_with] in H.
  - apply andb_true_iff in H as [E _]. apply N.eqb_eq in E. subst a. rewrite Hc in Ha. discriminate.
  - apply andb_true_iff in H as [_ H]. apply IH in H; auto. cbn. lia.
Qed.

Section WithTable.
Variable tbl : list (list N).
Hypothesis tbl_nosep : forallb (fun kw => forallb (fun b => negb (is_sep b)) kw) tbl = true.

Lemma first_match_stable : forall t x c1 r1 c2 r2,
  forallb (fun kw => forallb (fun b => negb (is_sep b)) kw) t = true ->
  is_sep c1 = true -> is_sep c2 = true ->
  first_match (x ++ c2 :: r2) t = first_match (x ++ c1 :: r1) t.
Proof.
  induction t as [|kw t IH]; intros x c1 r1 c2 r2 Ht H1 H2; cbn [first_match]; [reflexivity|].
  cbn in Ht. apply andb_true_iff in Ht as [Hk Ht].
  assert (E : starts_with (x ++ c2 :: r2) kw = starts_with (x ++ c1 :: r1) kw).
  { destruct (starts_with (x ++ c1 :: r1) kw) eqn:A.
    - pose proof (starts_with_sep kw x c1 r1 H1 Hk A) as L. rewrite starts_with_app in A |- * by exact L. exact A.
    - destruct (starts_with (x ++ c2 :: r2) kw) eqn:B; [|reflexivity].
      pose proof (starts_with_sep kw x c2 r2 H2 Hk B) as L. rewrite starts_with_app in A, B by exact L. congruence. }
  rewrite E. destruct (starts_with (x ++ c1 :: r1) kw); [reflexivity|]. apply IH; auto.
Qed.

Lemma read_punct_stable x c1 r1 c2 r2 : x <> [] -> is_sep c1 = true -> is_sep c2 = true ->
  read_punct tbl (x ++ c2 :: r2) = read_punct tbl (x ++ c1 :: r1).
Proof.
  intros Hx H1 H2. unfold read_punct. rewrite (first_match_stable tbl x c1 r1 c2 r2 tbl_nosep H1 H2).
  destruct x; [congruence|]. reflexivity.
Qed.

End WithTable.

Lemma starts_with_stable pre x c1 r1 c2 r2 : is_sep c1 = true -> is_sep c2 = true ->
  forallb (fun b => negb (is_sep b)) pre = true ->
  starts_with (x ++ c2 :: r2) pre = starts_with (x ++ c1 :: r1) pre /\
  (starts_with (x ++ c1 :: r1) pre = true -> (length pre <= length x)%nat).
Proof.
  intros H1 H2 Hp. split.
  - destruct (starts_with (x ++ c1 :: r1) pre) eqn:A.
    + pose proof (starts_with_sep pre x c1 r1 H1 Hp A) as L. rewrite starts_with_app in A |- * by exact L. exact A.
    + destruct (starts_with (x ++ c2 :: r2) pre) eqn:B; [|reflexivity].
      pose proof (starts_with_sep pre x c2 r2 H2 Hp B) as L. rewrite starts_with_app in A, B by exact L. congruence.
  - intros A. exact (starts_with_sep pre x c1 r1 H1 Hp A).
Qed.

Lemma str_prefix_stable x c1 r1 c2 r2 : is_sep c1 = true -> is_sep c2 = true ->
  str_prefix (x ++ c2 :: r2) = str_prefix (x ++ c1 :: r1) /\
  (forall k, str_prefix (x ++ c1 :: r1) = Some k -> (S k <= length x)%nat).
Proof.
  intros H1 H2. unfold str_prefix.
  destruct (starts_with_stable [34] x c1 r1 c2 r2 H1 H2 eq_refl) as [E1 L1].
  destruct (starts_with_stable [117; 56; 34] x c1 r1 c2 r2 H1 H2 eq_refl) as [E2 L2].
  destruct (starts_with_stable [117; 34] x c1 r1 c2 r2 H1 H2 eq_refl) as [E3 L3].
  destruct (starts_with_stable [76; 34] x c1 r1 c2 r2 H1 H2 eq_refl) as [E4 L4].
  destruct (starts_with_stable [85; 34] x c1 r1 c2 r2 H1 H2 eq_refl) as [E5 L5].
  rewrite E1, E2, E3, E4, E5. split; [reflexivity|]. intros k.
  destruct (starts_with (x ++ c1 :: r1) [34]); [intros E; inversion E; subst; apply L1; reflexivity|].
  destruct (starts_with (x ++ c1 :: r1) [117; 56; 34]); [intros E; inversion E; subst; apply L2; reflexivity|].
  destruct (starts_with (x ++ c1 :: r1) [117; 34]); cbn [orb]; [intros E; inversion E; subst; apply L3; reflexivity|].
  destruct (starts_with (x ++ c1 :: r1) [76; 34]); cbn [orb]; [intros E; inversion E; subst; apply L4; reflexivity|].
  destruct (starts_with (x ++ c1 :: r1) [85; 34]); cbn [orb]; [intros E; inversion E; subst; apply L5; reflexivity|].
  discriminate.
Qed.

Lemma chr_prefix_stable x c1 r1 c2 r2 : is_sep c1 = true -> is_sep c2 = true ->
  chr_prefix (x ++ c2 :: r2) = chr_prefix (x ++ c1 :: r1) /\
  (forall k, chr_prefix (x ++ c1 :: r1) = Some k -> (S k <= length x)%nat).
Proof.
  intros H1 H2. unfold chr_prefix.
  destruct (starts_with_stable [39] x c1 r1 c2 r2 H1 H2 eq_refl) as [E1 L1].
  destruct (starts_with_stable [117; 39] x c1 r1 c2 r2 H1 H2 eq_refl) as [E3 L3].
  destruct (starts_with_stable [76; 39] x c1 r1 c2 r2 H1 H2 eq_refl) as [E4 L4].
  destruct (starts_with_stable [85; 39] x c1 r1 c2 r2 H1 H2 eq_refl) as [E5 L5].
  rewrite E1, E3, E4, E5. split; [reflexivity|]. intros k.
  destruct (starts_with (x ++ c1 :: r1) [39]); [intros E; inversion E; subst; apply L1; reflexivity|].
  destruct (starts_with (x ++ c1 :: r1) [117; 39]); cbn [orb]; [intros E; inversion E; subst; apply L3; reflexivity|].
  destruct (starts_with (x ++ c1 :: r1) [76; 39]); cbn [orb]; [intros E; inversion E; subst; apply L4; reflexivity|].
  destruct (starts_with (x ++ c1 :: r1) [85; 39]); cbn [orb]; [intros E; inversion E; subst; apply L5; reflexivity|].
  discriminate.
Qed.

Lemma skipn_app_le {A} n (x y : list A) : (n <= length x)%nat -> skipn n (x ++ y) = skipn n x ++ y.
Proof. revert x; induction n as [|n IH]; intros x H; [reflexivity|]. destruct x; cbn in *; [lia|]. apply IH. lia. Qed.

Lemma char_body_stable x r1 r2 n : char_body (x ++ r1) = Some n -> (n <= length x)%nat -> char_body (x ++ r2) = Some n.
Proof.
  intros H Hn. unfold char_body in *. destruct x as [|y x].
  { exfalso. cbn in Hn. assert (n = 0)%nat by lia. subst n. cbn [app] in H.
    destruct r1 as [|a r1]; [discriminate|]. destruct (a =? 92).
    - destruct r1 as [|b r1]; [discriminate|]. destruct (find_quote r1); cbn in H; discriminate.
    - destruct (find_quote r1); cbn in H; discriminate. }
  cbn [app] in *. destruct (y =? 92).
  - destruct x as [|z x].
    + cbn [app] in *. destruct r1 as [|a r1]; [discriminate|]. destruct (find_quote r1); cbn in H; [injection H as <-; cbn in Hn; lia|discriminate].
    + cbn [app] in *. destruct (find_quote (x ++ r1)) as [m|] eqn:E; [|discriminate]. cbn in H. injection H as <-.
      rewrite (find_quote_stable x r1 r2 m E); [reflexivity|cbn in Hn; lia].
  - destruct (find_quote (x ++ r1)) as [m|] eqn:E; [|discriminate]. cbn in H. injection H as <-.
    rewrite (find_quote_stable x r1 r2 m E); [reflexivity|cbn in Hn; lia].
Qed.

Section Token.
Variable tbl : list (list N).
Hypothesis tbl_nosep : forallb (fun kw => forallb (fun b => negb (is_sep b)) kw) tbl = true.

(* THE separation lemma: the token found in front of a separator does not depend on what follows *)
Theorem first_token_stable x c1 r1 c2 r2 k : x <> [] -> is_sep c1 = true -> is_sep c2 = true ->
  first_token tbl (x ++ c1 :: r1) = Some (k, length x) -> first_token tbl (x ++ c2 :: r2) = Some (k, length x).
Proof.
  intros Hx H1 H2 H. destruct x as [|y x]; [congruence|]. clear Hx.
  unfold first_token in *. cbn [app] in *.
  (* the test for the start of a number looks at one byte after y *)
  assert (Hd : (match x ++ c2 :: r2 with d :: _ => is_digit d | [] => false end)
             = (match x ++ c1 :: r1 with d :: _ => is_digit d | [] => false end)).
  { destruct x; cbn [app]; [|reflexivity]. destruct (sep_facts c1 H1) as [_ [_ [_ [_ [_ [D1 _]]]]]].
    destruct (sep_facts c2 H2) as [_ [_ [_ [_ [_ [D2 _]]]]]]. congruence. }
  rewrite Hd. destruct (is_digit y || (y =? 46) && _) eqn:Enum.
  - cbn [length] in *. injection H as <- Hl. do 3 f_equal. exact (scan_num_stable (length x) x c1 r1 c2 r2 (le_n _) H1 H2 Hl).
  - destruct (str_prefix_stable (y :: x) c1 r1 c2 r2 H1 H2) as [Es Ls]. cbn [app] in Es, Ls. rewrite Es.
    destruct (str_prefix (y :: x ++ c1 :: r1)) as [k'|] eqn:Ep.
    + specialize (Ls k' eq_refl).
      change (y :: x ++ c1 :: r1) with ((y :: x) ++ c1 :: r1) in H. change (y :: x ++ c2 :: r2) with ((y :: x) ++ c2 :: r2).
      rewrite skipn_app_le in H |- * by exact Ls.
      destruct (string_end (skipn (S k') (y :: x) ++ c1 :: r1)) as [n|] eqn:Ee; [|discriminate].
      inversion H; subst. assert (Hlen : length (skipn (S k') (y :: x)) = (length (y :: x) - S k')%nat) by apply skipn_length.
      cbn [length] in *. rewrite (string_end_stable (length (skipn (S k') (y :: x))) _ (c1 :: r1) (c2 :: r2) n); auto; lia.
    + destruct (chr_prefix_stable (y :: x) c1 r1 c2 r2 H1 H2) as [Ec Lc]. cbn [app] in Ec, Lc. rewrite Ec.
      destruct (chr_prefix (y :: x ++ c1 :: r1)) as [k'|] eqn:Eq.
      * specialize (Lc k' eq_refl).
        change (y :: x ++ c1 :: r1) with ((y :: x) ++ c1 :: r1) in H. change (y :: x ++ c2 :: r2) with ((y :: x) ++ c2 :: r2).
        rewrite skipn_app_le in H |- * by exact Lc.
        destruct (char_body (skipn (S k') (y :: x) ++ c1 :: r1)) as [n|] eqn:Ee; [|discriminate].
        inversion H; subst. assert (Hlen : length (skipn (S k') (y :: x)) = (length (y :: x) - S k')%nat) by apply skipn_length.
        cbn [length] in *. rewrite (char_body_stable _ (c1 :: r1) (c2 :: r2) n Ee); auto; lia.
      * cbn [read_ident] in *. destruct (is_ident1 y) eqn:Ei.
        -- cbn [length] in *. injection H as <- Hl. do 3 f_equal. exact (scan_ident2_stable x c1 r1 c2 r2 H2 Hl).
        -- change (y :: x ++ c2 :: r2) with ((y :: x) ++ c2 :: r2). change (y :: x ++ c1 :: r1) with ((y :: x) ++ c1 :: r1) in H.
           rewrite (read_punct_stable tbl tbl_nosep (y :: x) c1 r1 c2 r2); auto; discriminate.
Qed.
End Token.

(* ---------- text printed with a separator after every token lexes back to the same tokens ---------- *)
Section Relex.
Variable tbl : list (list N).
Hypothesis tbl_nosep : forallb (fun kw => forallb (fun b => negb (is_sep b)) kw) tbl = true.

(* a spelling that is one token when followed by a new-line (decidable by running the lexer) *)
Definition tok_ok (a : list N) : Prop :=
  a <> [] /\ (exists k, first_token tbl (a ++ [10]) = Some (k, length a)) /\
  starts_with (a ++ [10]) [47; 47] = false /\ starts_with (a ++ [10]) [47; 42] = false /\
  match a with c :: _ => (c =? 10) = false /\ is_space c = false | [] => True end.

Definition spaced (ts : list (list N)) : list N := concat (map (fun a => a ++ [32]) ts).

Lemma firstn_app_exact {A} (a b : list A) : firstn (length a) (a ++ b) = a.
Proof. induction a; cbn; [destruct b; reflexivity|]. f_equal. assumption. Qed.
Lemma skipn_app_exact {A} (a b : list A) : skipn (length a) (a ++ b) = b.
Proof. induction a; cbn; auto. Qed.

Theorem relex_spaced : forall ts f bol sp,
  Forall tok_ok ts -> (length (spaced ts) < f)%nat ->
  exists toks, lex tbl f (spaced ts) bol sp = LexOk toks /\ map t_text toks = ts.
Proof.
  induction ts as [|a ts IH]; intros f bol sp Hok Hf.
  - exists []. destruct f; cbn; auto.
  - inversion Hok as [|? ? Ha Hts]; subst. destruct Ha as [Hne [[k Hk] [Hc1 [Hc2 Hh]]]].
    unfold spaced in *. cbn [map concat] in *. rewrite <- app_assoc in *. cbn [app] in *.
    set (r := concat (map (fun a0 => a0 ++ [32]) ts)) in *.
    destruct f as [|f]; [cbn in Hf; lia|].
    assert (Hs10 : is_sep 10 = true) by reflexivity. assert (Hs32 : is_sep 32 = true) by reflexivity.
    destruct a as [|c a']; [congruence|]. destruct Hh as [Hn Hsp].
    cbn [lex app].
    change (c :: a' ++ 32 :: r) with ((c :: a') ++ 32 :: r).
    destruct (starts_with_stable [47; 47] (c :: a') 10 [] 32 r Hs10 Hs32 eq_refl) as [E1 _].
    destruct (starts_with_stable [47; 42] (c :: a') 10 [] 32 r Hs10 Hs32 eq_refl) as [E2 _].
    rewrite E1, E2, Hc1, Hc2, Hn, Hsp.
    rewrite (first_token_stable tbl tbl_nosep (c :: a') 10 [] 32 r k Hne Hs10 Hs32 Hk).
    rewrite skipn_app_exact.
    (* the separator itself, then the rest *)
    destruct f as [|f]; [rewrite app_length in Hf; cbn in Hf; lia|]. cbn [lex].
    change (starts_with (32 :: r) [47; 47]) with false. change (starts_with (32 :: r) [47; 42]) with false.
    change (32 =? 10) with false. change (is_space 32) with true. cbn [negb].
    destruct (IH f false true Hts) as [toks [Hl Hm]].
    { rewrite app_length in Hf. cbn [length] in Hf. fold r. lia. }
    fold r in Hl. rewrite Hl. eexists. split; [reflexivity|]. cbn [map t_text mk]. rewrite firstn_app_exact. rewrite Hm. reflexivity.
Qed.
End Relex.

(* ---------- the regenerated punctuator table: side condition and the fusing pairs ---------- *)
Lemma punct_table_nosep : forallb (fun kw => forallb (fun b => negb (is_sep b)) kw) punct_table = true.
Proof. vm_compute. reflexivity. Qed.

(* every punctuator the lexer can produce: the table entries and the single ispunct characters *)
(* ispunct characters that start another kind of token: the two quotes (literals), dollar and underscore (identifiers) *)
Definition not_punct_start (c : N) : bool := (c =? 34) || (c =? 39) || (c =? 36) || (c =? 95).
Definition single_puncts : list (list N) :=
  map (fun c => [c]) (filter (fun c => is_punct c && negb (not_punct_start c)) (map N.of_nat (seq 33 94))).
Definition all_puncts : list (list N) := punct_table ++ single_puncts.

Definition lex_texts (p : list N) : option (list (list N)) :=
  match tokenize punct_table p with LexOk l => Some (map t_text l) | LexErr => None end.

Definition list_eqb (a b : list N) : bool := (length a =? length b)%nat && forallb (fun xy => fst xy =? snd xy) (combine a b).
(* two punctuators written without a space between them are read back as themselves? *)
Definition pair_safe (a b : list N) : bool :=
  match lex_texts (a ++ b ++ [10]) with
  | Some [x; y] => list_eqb x a && list_eqb y b
  | _ => false
  end.

(* the pairs that are NOT safe must be separated by the printer; the sweep computes them all *)
Definition fusing_pairs : list (list N * list N) :=
  filter (fun ab => negb (pair_safe (fst ab) (snd ab))) (list_prod all_puncts all_puncts).

Lemma pair_sweep : forall a b, In a all_puncts -> In b all_puncts ->
  pair_safe a b = true \/ In (a, b) fusing_pairs.
Proof.
  intros a b Ha Hb. destruct (pair_safe a b) eqn:E; [left; reflexivity|right].
  unfold fusing_pairs. apply filter_In. split; [apply in_prod; assumption|]. cbn [fst snd]. rewrite E. reflexivity.
Qed.

(* every single punctuator is a token on its own, so that relex_spaced applies to all of them *)
Lemma puncts_tok_ok : forallb (fun a => match first_token punct_table (a ++ [10]) with
                                        | Some (LPunct, n) => (n =? length a)%nat | _ => false end) all_puncts = true.
Proof. vm_compute. reflexivity. Qed.

(* the sweep, evaluated once *)
Definition fusing_list : list (list N * list N) := Eval vm_compute in fusing_pairs.
Lemma fusing_list_eq : fusing_pairs = fusing_list.
Proof. vm_cast_no_check (eq_refl fusing_list). Qed.

Ltac in_list := repeat (first [left; reflexivity | right]).

Lemma fusing_examples :
  In ([45], [45]) fusing_pairs /\ In ([43], [43]) fusing_pairs /\ In ([47], [42]) fusing_pairs /\
  In ([60; 60], [61]) fusing_pairs /\ pair_safe [45] [43] = true.
Proof.
  rewrite fusing_list_eq. unfold fusing_list. repeat split; try in_list; vm_compute; reflexivity.
Qed.

Lemma tok_ok_examples :
  tok_ok punct_table [45; 45] /\ tok_ok punct_table [48; 120; 49; 112; 43; 51] /\ tok_ok punct_table [117; 56; 34; 97; 32; 98; 34].
Proof.
  repeat split; try discriminate; try (eexists; vm_compute; reflexivity); try (vm_compute; reflexivity).
Qed.
