From Chibicc Require Import Base.Mach Model.Driver.
Import ListNotations.

Definition nontmp (p : path) : bool := match p with PTmp _ => false | _ => true end.
Definition vis (tr : list event) : list path := filter nontmp (written tr).     (* visible outputs written *)
Definition all_true (l : list bool) : Prop := Forall (fun b => b = true) l.

Lemma tmp_created_app a b : tmp_created (a ++ b) = tmp_created a ++ tmp_created b.
Proof. unfold tmp_created. apply flat_map_app. Qed.
Lemma tmp_unlinked_app a b : tmp_unlinked (a ++ b) = tmp_unlinked a ++ tmp_unlinked b.
Proof. unfold tmp_unlinked. apply flat_map_app. Qed.
Lemma outcomes_app a b : outcomes (a ++ b) = outcomes a ++ outcomes b.
Proof. unfold outcomes. apply flat_map_app. Qed.
Lemma vis_app a b : vis (a ++ b) = vis a ++ vis b.
Proof. unfold vis, written. rewrite flat_map_app, filter_app. reflexivity. Qed.

Lemma unlink_all n k : tmp_unlinked (map EUnlink (seq k n)) = seq k n /\ tmp_created (map EUnlink (seq k n)) = [] /\
                       outcomes (map EUnlink (seq k n)) = [] /\ vis (map EUnlink (seq k n)) = [].
Proof.
  revert k. induction n as [|n IH]; intros k; [cbn; auto|].
  destruct (IH (S k)) as [A [B [C D]]]. unfold vis, written, tmp_unlinked, tmp_created, outcomes in *.
  cbn [seq map flat_map app filter]. rewrite A, B, C, D. auto.
Qed.

(* what the iteration over one input is asked to produce (visible outputs) and to hand to the linker *)
Definition req_input (md : mode) (has_o : bool) (i : nat) (k : kind) : list path :=
  match eff_kind md k, md with
  | KObj, _ => []
  | KAsm, MC => [out_of has_o i]
  | KAsm, _ => []
  | KC, ME => [if has_o then POpt else PStdout]
  | KC, MS | KC, MC => [out_of has_o i]
  | KC, MLink => []
  end.
Definition ld_input (md : mode) (k : kind) : nat :=
  match eff_kind md k, md with KObj, _ => 1 | KAsm, MLink => 1 | KC, MLink => 1 | _, _ => 0 end.
Definition links (md : mode) : bool := match md with MLink => true | _ => false end.

Fixpoint reqs (md : mode) (has_o : bool) (i : nat) (ks : list kind) : list path :=
  match ks with [] => [] | k :: r => req_input md has_o i k ++ reqs md has_o (S i) r end.
Fixpoint lds (md : mode) (ks : list kind) : nat :=
  match ks with [] => 0 | k :: r => ld_input md k + lds md r end.

Section Run.
Variable orc : nat -> bool.
Variable md : mode.
Variable has_o : bool.

Record Good (s : dstate) (done : list path) (nld : nat) : Prop := {
  g_created : tmp_created (trace s) = seq 0 (tmps s);
  g_unlinked : tmp_unlinked (trace s) = [];
  g_ok : all_true (outcomes (trace s));
  g_vis : vis (trace s) = done;
  g_ld : ld_args s = nld
}.

(* a run that stopped on a failing subprocess: exit status 1, every temporary unlinked, exactly
   one failing subprocess and it is the last one started, visible outputs as they were *)
Definition Failed (o : outcome) (done : list path) : Prop :=
  exists tr, o = Exited 1 tr /\ tmp_unlinked tr = tmp_created tr /\
             (exists pre, outcomes tr = pre ++ [false] /\ all_true pre) /\ vis tr = done.

Lemma exit_of_good s done nld c : Good s done nld ->
  exists tr, do_exit s c = Exited c tr /\ tmp_unlinked tr = tmp_created tr /\
             outcomes tr = outcomes (trace s) /\ vis tr = done.
Proof.
  intros [G1 G2 G3 G4 G5]. unfold do_exit. eexists; split; [reflexivity|].
  destruct (unlink_all (tmps s) 0) as [A [B [C D]]].
  rewrite tmp_unlinked_app, tmp_created_app, outcomes_app, vis_app, A, B, C, D, G1, G2, G4, !app_nil_r. auto.
Qed.

Lemma spawn_step s done nld p :
  Good s done nld ->
  match spawn orc s p with
  | Running s' => orc (nspawn s) = true /\ trace s' = trace s ++ [ESpawn p true] /\ tmps s' = tmps s /\ ld_args s' = ld_args s /\
                  Good s' (done ++ vis [ESpawn p true]) nld
  | o => Failed o done
  end.
Proof.
  intros G. pose proof G as [G1 G2 G3 G4 G5]. unfold spawn. destruct (orc (nspawn s)) eqn:E.
  - split; [reflexivity|]. cbn [trace tmps ld_args]. repeat split; auto; cbn [trace tmps ld_args nspawn].
    + rewrite tmp_created_app, G1. cbn. apply app_nil_r.
    + rewrite tmp_unlinked_app, G2. reflexivity.
    + rewrite outcomes_app. apply Forall_app. split; [exact G3|]. cbn. constructor; auto.
    + rewrite vis_app, G4. reflexivity.
  - set (s' := {| tmps := tmps s; trace := trace s ++ [ESpawn p false]; ld_args := ld_args s; nspawn := S (nspawn s) |}).
    assert (G' : tmp_created (trace s') = seq 0 (tmps s') /\ tmp_unlinked (trace s') = [] /\ vis (trace s') = done).
    { unfold s'; cbn [trace tmps]. rewrite tmp_created_app, tmp_unlinked_app, vis_app, G1, G2, G4.
      unfold vis; cbn. destruct p as [i [o|]|a o|o]; cbn; rewrite ?app_nil_r; auto. }
    destruct G' as [A [B C]]. unfold do_exit. eexists. split; [reflexivity|].
    destruct (unlink_all (tmps s') 0) as [U1 [U2 [U3 U4]]].
    rewrite tmp_unlinked_app, tmp_created_app, outcomes_app, vis_app, U1, U2, U3, U4, A, B, C, !app_nil_r.
    split; [reflexivity|]. split; [|reflexivity].
    exists (outcomes (trace s)). unfold s'; cbn [trace]. rewrite outcomes_app. split; [reflexivity|exact G3].
Qed.

Lemma mktmp_good s done nld : Good s done nld ->
  let r := mktmp s in fst r = tmps s /\ Good (snd r) done nld /\ tmps (snd r) = S (tmps s) /\ nspawn (snd r) = nspawn s.
Proof.
  intros [G1 G2 G3 G4 G5]. cbn. repeat split; cbn [trace tmps ld_args]; auto.
  - rewrite tmp_created_app, G1, seq_S. reflexivity.
  - rewrite tmp_unlinked_app, G2. reflexivity.
  - rewrite outcomes_app. cbn. rewrite app_nil_r. exact G3.
  - rewrite vis_app, G4. unfold vis; cbn. apply app_nil_r.
Qed.

Lemma add_ld_good s done nld : Good s done nld -> Good (add_ld s) done (S nld).
Proof. intros [G1 G2 G3 G4 G5]. constructor; cbn; auto. Qed.

Lemma vis_spawn_tmp p t : (match p with Cc1 _ (Some (PTmp _)) | As _ (PTmp _) => True | _ => False end) -> vis [ESpawn p t] = [].
Proof. destruct p as [i [[]|]|a []|[]]; destruct t; cbn; tauto. Qed.

(* one iteration of the loop *)
Lemma do_input_ok s done nld i k :
  Good s done nld ->
  match do_input orc md has_o s i k with
  | Running s' => Good s' (done ++ req_input md has_o i k) (nld + ld_input md k)
  | o => Failed o done
  end.
Proof.
  intros G. unfold do_input, req_input, ld_input.
  destruct (eff_kind md k); destruct md; cbn [andthen];
    try (rewrite app_nil_r, Nat.add_0_r; exact G);
    try (rewrite app_nil_r, Nat.add_1_r; apply add_ld_good; exact G).
  - (* .c, -E *)
    pose proof (spawn_step s done nld (Cc1 i (if has_o then Some POpt else None)) G) as H. destruct (spawn orc s _); [|exact H].
    destruct H as [_ [_ [_ [_ H]]]]. rewrite Nat.add_0_r. destruct has_o; exact H.
  - (* .c, -S *)
    pose proof (spawn_step s done nld (Cc1 i (Some (out_of has_o i))) G) as H. destruct (spawn orc s _); [|exact H].
    destruct H as [_ [_ [_ [_ H]]]]. rewrite Nat.add_0_r. unfold out_of in *. destruct has_o; exact H.
  - (* .c, -c : tmp; cc1; as *)
    destruct (mktmp_good s done nld G) as [Et [G1 _]]. destruct (mktmp s) as [t s1]. cbn [fst snd] in *.
    pose proof (spawn_step s1 done nld (Cc1 i (Some (PTmp t))) G1) as H. destruct (spawn orc s1 _) as [s2|]; [|exact H].
    destruct H as [_ [_ [_ [_ G2]]]]. rewrite vis_spawn_tmp, app_nil_r in G2 by exact I. cbn [andthen].
    pose proof (spawn_step s2 done nld (As (inl (PTmp t)) (out_of has_o i)) G2) as H. destruct (spawn orc s2 _); [|exact H].
    destruct H as [_ [_ [_ [_ H]]]]. rewrite Nat.add_0_r. unfold out_of in *. destruct has_o; exact H.
  - (* .c, link : two temporaries; cc1; as; add to ld_args *)
    destruct (mktmp_good s done nld G) as [Et1 [G1 _]]. destruct (mktmp s) as [t1 s1]. cbn [fst snd] in *.
    destruct (mktmp_good s1 done nld G1) as [Et2 [G2 _]]. destruct (mktmp s1) as [t2 s2]. cbn [fst snd] in *.
    pose proof (spawn_step s2 done nld (Cc1 i (Some (PTmp t1))) G2) as H. destruct (spawn orc s2 _) as [s3|]; [|exact H].
    destruct H as [_ [_ [_ [_ G3]]]]. rewrite vis_spawn_tmp, app_nil_r in G3 by exact I. cbn [andthen].
    pose proof (spawn_step s3 done nld (As (inl (PTmp t1)) (PTmp t2)) G3) as H. destruct (spawn orc s3 _) as [s4|]; [|exact H].
    destruct H as [_ [_ [_ [_ G4]]]]. rewrite vis_spawn_tmp, app_nil_r in G4 by exact I. cbn [andthen].
    rewrite app_nil_r, Nat.add_1_r. apply add_ld_good. exact G4.
  - (* .s, -c *)
    pose proof (spawn_step s done nld (As (inr i) (out_of has_o i)) G) as H. destruct (spawn orc s _); [|exact H].
    destruct H as [_ [_ [_ [_ H]]]]. rewrite Nat.add_0_r. unfold out_of in *. destruct has_o; exact H.
  - (* .s, link *)
    destruct (mktmp_good s done nld G) as [Et [G1 _]]. destruct (mktmp s) as [t s1]. cbn [fst snd] in *.
    pose proof (spawn_step s1 done nld (As (inr i) (PTmp t)) G1) as H. destruct (spawn orc s1 _) as [s2|]; [|exact H].
    destruct H as [_ [_ [_ [_ G2]]]]. rewrite vis_spawn_tmp, app_nil_r in G2 by exact I. cbn [andthen].
    rewrite app_nil_r, Nat.add_1_r. apply add_ld_good. exact G2.
Qed.

(* the whole loop: either every input was handled, or it stopped inside input number j having
   written exactly what the inputs before j asked for *)
Lemma loop_ok : forall ks s done nld i,
  Good s done nld ->
  match loop orc md has_o s i ks with
  | Running s' => Good s' (done ++ reqs md has_o i ks) (nld + lds md ks)
  | o => exists j, j < length ks /\ Failed o (done ++ reqs md has_o i (firstn j ks))
  end.
Proof.
  induction ks as [|k r IH]; intros s done nld i G; cbn [loop reqs lds].
  - rewrite app_nil_r, Nat.add_0_r. exact G.
  - pose proof (do_input_ok s done nld i k G) as H.
    destruct (do_input orc md has_o s i k) as [s1|c tr]; cbn [andthen].
    + specialize (IH s1 _ _ (S i) H). destruct (loop orc md has_o s1 (S i) r).
      * rewrite <- app_assoc, <- Nat.add_assoc in IH. exact IH.
      * destruct IH as [j [Hj F]]. exists (S j). split; [cbn; lia|]. cbn [firstn reqs]. rewrite app_assoc. exact F.
    + exists 0. split; [cbn; lia|]. cbn [firstn reqs]. rewrite app_nil_r. exact H.
Qed.

Definition usage_error (ks : list kind) : bool :=
  (1 <? length ks) && has_o && (match md with MLink => false | _ => true end).

Definition link_out : list path := [if has_o then POpt else PAout].

Theorem driver_ok ks :
  exists c tr, driver orc md has_o ks = Exited c tr /\
    tmp_unlinked tr = tmp_created tr /\
    (c = 0 \/ c = 1) /\
    (c = 0 -> all_true (outcomes tr) /\
              vis tr = reqs md has_o 0 ks ++ (if (0 <? lds md ks) && links md then link_out else [])) /\
    (c = 1 -> (usage_error ks = true /\ outcomes tr = [] /\ vis tr = []) \/
              ((exists pre, outcomes tr = pre ++ [false] /\ all_true pre) /\
               exists j, j <= length ks /\ vis tr = reqs md has_o 0 (firstn j ks) /\
                         (j < length ks \/ ((0 <? lds md ks) && links md) = true))).
Proof.
  unfold driver. set (s0 := {| tmps := 0; trace := []; ld_args := 0; nspawn := 0 |}).
  assert (G0 : Good s0 [] 0) by (constructor; cbn; auto; constructor).
  fold (usage_error ks). destruct (usage_error ks) eqn:U.
  - destruct (exit_of_good s0 [] 0 1 G0) as [tr [E [T [O V]]]]. exists 1, tr. rewrite E.
    split; [reflexivity|]. split; [exact T|]. split; [auto|]. split; [discriminate|]. intros _. left. auto.
  - pose proof (loop_ok ks s0 [] 0 0 G0) as H. cbn [app Nat.add] in H.
    destruct (loop orc md has_o s0 0 ks) as [s|c tr]; cbn [andthen].
    + rewrite (g_ld _ _ _ H). fold (links md). destruct ((0 <? lds md ks) && links md) eqn:L.
      * pose proof (spawn_step s _ _ (Ld (if has_o then POpt else PAout)) H) as S1.
        destruct (spawn orc s _) as [s1|c tr]; cbn [andthen].
        -- destruct S1 as [_ [_ [_ [_ G1]]]]. destruct (exit_of_good s1 _ _ 0 G1) as [tr [E [T [O V]]]].
           exists 0, tr. rewrite E. split; [reflexivity|]. split; [exact T|]. split; [auto|].
           split; [|discriminate]. intros _. split; [rewrite O; exact (g_ok _ _ _ G1)|]. rewrite V. unfold link_out, vis; cbn.
           destruct has_o; reflexivity.
        -- destruct S1 as [tr' [E [T [O V]]]]. inversion E; subst. exists 1, tr'.
           split; [reflexivity|]. split; [exact T|]. split; [auto|]. split; [discriminate|]. intros _. right.
           split; [exact O|]. exists (length ks). rewrite firstn_all. split; [lia|]. split; [exact V|]. right. reflexivity.
      * cbn [andthen]. destruct (exit_of_good s _ _ 0 H) as [tr [E [T [O V]]]]. exists 0, tr. rewrite E.
        split; [reflexivity|]. split; [exact T|]. split; [auto|]. split; [|discriminate]. intros _.
        split; [rewrite O; exact (g_ok _ _ _ H)|]. rewrite V, app_nil_r. reflexivity.
    + destruct H as [j [Hj [tr' [E [T [O V]]]]]]. inversion E; subst. exists 1, tr'.
      split; [reflexivity|]. split; [exact T|]. split; [auto|]. split; [discriminate|]. intros _. right.
      split; [exact O|]. exists j. split; [lia|]. split; [exact V|]. left. exact Hj.
Qed.
End Run.

(* the output of an input that is not reached is not among the outputs of the inputs before it *)
Lemma reqs_bound md has_o : forall ks i p, In p (reqs md has_o i ks) ->
  p = PStdout \/ (has_o = true /\ p = POpt) \/ (exists j, i <= j < i + length ks /\ p = POut j).
Proof.
  induction ks as [|k r IH]; intros i p H; cbn [reqs] in H; [contradiction|].
  apply in_app_or in H as [H|H].
  - assert (Hc : req_input md has_o i k = [] \/ req_input md has_o i k = [if has_o then POpt else PStdout] \/ req_input md has_o i k = [out_of has_o i])
      by (unfold req_input; destruct (eff_kind md k), md; cbn; auto).
    destruct Hc as [E|[E|E]]; rewrite E in H; cbn in H.
    + contradiction.
    + destruct H as [<-|[]]. destruct has_o; auto.
    + destruct H as [<-|[]]. unfold out_of. destruct has_o; [right; left; auto|].
      right; right. exists i. cbn [length]. split; [lia|reflexivity].
  - destruct (IH (S i) p H) as [A|[A|[j [Hj A]]]]; auto. right; right. exists j. cbn [length]. split; [lia|exact A].
Qed.

(* concurrency: runs whose footprints (outputs and temporaries) are disjoint do not interfere,
   whatever the interleaving of their file-system events *)
Section Interleave.
Variable P : Type.                               (* path names *)
Variable eqb : P -> P -> bool.
Hypothesis eqb_eq : forall a b, eqb a b = true <-> a = b.
Inductive fsev := FWrite (p : P) (tag : nat) | FUnlink (p : P).
Definition fs := P -> option nat.
Definition apply (f : fs) (e : fsev) : fs :=
  match e with
  | FWrite p t => fun q => if eqb q p then Some t else f q
  | FUnlink p => fun q => if eqb q p then None else f q
  end.
Definition touches (e : fsev) : P := match e with FWrite p _ | FUnlink p => p end.

Inductive interleaving : list fsev -> list fsev -> list fsev -> Prop :=
| il_nil : interleaving [] [] []
| il_l a la lb l : interleaving la lb l -> interleaving (a :: la) lb (a :: l)
| il_r b la lb l : interleaving la lb l -> interleaving la (b :: lb) (b :: l).

Theorem disjoint_runs_do_not_interfere la lb l (inA : P -> Prop) :
  interleaving la lb l ->
  Forall (fun e => inA (touches e)) la -> Forall (fun e => ~ inA (touches e)) lb ->
  forall f q, inA q -> fold_left apply l f q = fold_left apply la f q.
Proof.
  intros H. induction H as [|a la lb l H IH|b la lb l H IH]; intros HA HB f q Hq; cbn [fold_left].
  - reflexivity.
  - inversion HA; subst. apply IH; auto.
  - inversion HB as [|? ? Hb HB']; subst. rewrite (IH HA HB' (apply f b) q Hq).
    (* b does not touch q, so la sees the same value at q: show fold over la agrees *)
    clear IH H. revert f. induction la as [|a la IHla]; intros f; cbn [fold_left].
    + unfold apply. destruct b as [p t|p]; cbn in Hb; destruct (eqb q p) eqn:E; auto; apply eqb_eq in E; subst; contradiction.
    + inversion HA as [|? ? Ha HA']; subst. specialize (IHla HA').
      (* commute b past a pointwise: states that agree on inA stay in agreement under la *)
      assert (Hag : forall g g', (forall x, inA x -> g x = g' x) -> forall x, inA x -> fold_left apply la g x = fold_left apply la g' x).
      { clear - HA'. induction la as [|c la IHc]; intros g g' Hg x Hx; cbn [fold_left]; [apply Hg; exact Hx|].
        inversion HA'; subst. apply IHc; auto. intros y Hy. unfold apply. destruct c; destruct (eqb y p); auto. }
      apply Hag; [|exact Hq]. intros x Hx. unfold apply.
      destruct b as [p t|p]; cbn in Hb; destruct a as [p' t'|p']; destruct (eqb x p') eqn:E1; destruct (eqb x p) eqn:E2; auto;
        apply eqb_eq in E2; subst; contradiction.
Qed.
End Interleave.
