(* C03 (package sw): the converse of SwContProofs - whenever the continuation machine of
   Spec/SwCont.v brings a function body to its end, the seek semantics of Spec/SwSem.v has that
   result (for some fuel).  With SwContProofs: the two semantics define the same terminating runs,
   and the simulation theorem can be read with the continuation semantics as its specification. *)
From Coq Require Import List Arith Bool Lia.
Import ListNotations.
From Chibicc Require Import Spec.SwSem Spec.SwCont Proofs.SwContProofs.

(* ---------- more fuel never changes a result ---------- *)
Definition rle (a b : option sres) : Prop := forall r, a = Some r -> b = Some r.
Definition exle (ex ex' : sstmt -> soracle -> option sres) : Prop := forall s o, rle (ex s o) (ex' s o).
Definition lple (loop loop' : soracle -> option sres) : Prop := forall o, rle (loop o) (loop' o).

Lemma rle_refl a : rle a a.
Proof. intros r H. exact H. Qed.
Lemma spre_mono t a b : rle a b -> rle (spre t a) (spre t b).
Proof. intros H r Hr. destruct a as [[[t1 o1] out1]|]; [|discriminate]. rewrite (H _ eq_refl). exact Hr. Qed.
Lemma sswitch_end_mono a b : rle a b -> rle (sswitch_end a) (sswitch_end b).
Proof. intros H r Hr. destruct a as [[[t1 o1] out1]|]; [|discriminate]. rewrite (H _ eq_refl). exact Hr. Qed.
Lemma sfor_after_mono loop loop' inc a b : lple loop loop' -> rle a b -> rle (sfor_after loop inc a) (sfor_after loop' inc b).
Proof.
  intros Hl H r Hr. destruct a as [[[t1 o1] out1]|]; [|discriminate]. rewrite (H _ eq_refl).
  destruct out1; cbn [sfor_after] in *; try exact Hr; exact (spre_mono _ _ _ (Hl o1) _ Hr).
Qed.
Lemma sdo_after_mono loop loop' k a b : lple loop loop' -> rle a b -> rle (sdo_after loop k a) (sdo_after loop' k b).
Proof.
  intros Hl H r Hr. destruct a as [[[t1 o1] out1]|]; [|discriminate]. rewrite (H _ eq_refl).
  destruct out1; cbn [sdo_after] in *; try exact Hr; (destruct o1 as [|v o2]; [discriminate|]; destruct (v =? 0); [exact Hr|]; exact (spre_mono _ _ _ (Hl o2) _ Hr)).
Qed.
Lemma sfor_loop_mono ex ex' : exle ex ex' -> forall fuel fuel' k inc body, fuel <= fuel' -> lple (sfor_loop ex fuel k inc body) (sfor_loop ex' fuel' k inc body).
Proof.
  intros Hex. induction fuel as [|fuel IH]; intros fuel' k inc body Hle o r Hr; [discriminate|].
  destruct fuel' as [|fuel']; [lia|]. cbn [sfor_loop] in *. assert (Hff : fuel <= fuel') by lia. pose proof (IH fuel' k inc body Hff) as Hl.
  destruct k as [kk|].
  - destruct o as [|v o1]; [discriminate|]. destruct (v =? 0); [exact Hr|]. exact (spre_mono _ _ _ (sfor_after_mono _ _ _ _ _ Hl (Hex _ _)) _ Hr).
  - exact (sfor_after_mono _ _ _ _ _ Hl (Hex _ _) _ Hr).
Qed.
Lemma sdo_loop_mono ex ex' : exle ex ex' -> forall fuel fuel' body k, fuel <= fuel' -> lple (sdo_loop ex fuel body k) (sdo_loop ex' fuel' body k).
Proof.
  intros Hex. induction fuel as [|fuel IH]; intros fuel' body k Hle o r Hr; [discriminate|].
  destruct fuel' as [|fuel']; [lia|]. cbn [sdo_loop] in *. assert (Hff : fuel <= fuel') by lia. exact (sdo_after_mono _ _ _ _ _ (IH fuel' body k Hff) (Hex _ _) _ Hr).
Qed.

Lemma sexec_mono : forall f f' m s o, f <= f' -> rle (sexec f m s o) (sexec f' m s o).
Proof.
  induction f as [|f IH]; intros f' m s o Hle r Hr; [discriminate|]. destruct f' as [|f']; [lia|].
  assert (Hm : forall m0 s0 o0, rle (sexec f m0 s0 o0) (sexec f' m0 s0 o0)) by (intros m0 s0 o0; apply IH; lia).
  assert (Hex : exle (sexec f None) (sexec f' None)) by (intros s0 o0; apply Hm).
  destruct s as [n| |a b|c a b|init kc inc body|body kc| | |c body|cv s1|s1|l s1|l|c tab]; cbn [sexec] in *; try exact Hr.
  - destruct (sexec f m a o) as [[[t1 o1] out1]|] eqn:Ea; [|discriminate]. rewrite (Hm _ _ _ _ Ea).
    destruct out1; try exact Hr; (eapply spre_mono; [apply Hm|exact Hr]).
  - destruct m as [t|].
    + destruct (sexec f (Some t) a o) as [[[t1 o1] out1]|] eqn:Ea; [|discriminate]. rewrite (Hm _ _ _ _ Ea).
      destruct out1; try exact Hr. eapply spre_mono; [apply Hm|exact Hr].
    + destruct o as [|v o1]; [discriminate|]. eapply spre_mono; [apply Hm|exact Hr].
  - destruct m as [t|].
    + assert (Hff : f <= f') by lia. exact (sfor_after_mono _ _ _ _ _ (sfor_loop_mono _ _ Hex f f' kc inc body Hff) (Hm _ _ _) _ Hr).
    + assert (Hff : f <= f') by lia. exact (spre_mono _ _ _ (sfor_loop_mono _ _ Hex f f' kc inc body Hff o) _ Hr).
  - assert (Hff : f <= f') by lia. exact (sdo_after_mono _ _ _ _ _ (sdo_loop_mono _ _ Hex f f' body kc Hff) (Hm _ _ _) _ Hr).
  - destruct m as [[cv| |l]|]; try exact Hr.
    + eapply sswitch_end_mono; [apply Hm|exact Hr].
    + destruct o as [|v o1]; [discriminate|]. eapply spre_mono; [|exact Hr]. clear Hr r. intros r Hr.
      destruct (sexec f (Some (TCase v)) body o1) as [[[t1 o2] out1]|] eqn:E1; [|discriminate]. rewrite (Hm _ _ _ _ E1).
      destruct out1; try exact Hr.
      destruct (sexec f (Some TDefault) body o1) as [[[t3 o3] out3]|] eqn:E2; [|discriminate]. rewrite (Hm _ _ _ _ E2). exact Hr.
  - apply Hm. exact Hr.
  - apply Hm. exact Hr.
  - apply Hm. exact Hr.
Qed.

Lemma srun_mono : forall f f' m body o r, f <= f' -> srun f m body o = Some r -> srun f' m body o = Some r.
Proof.
  induction f as [|f IH]; intros f' m body o r Hle Hr; [discriminate|]. destruct f' as [|f']; [lia|]. cbn [srun] in *.
  destruct (sexec f m body o) as [[[t o1] out]|] eqn:E; [|discriminate]. rewrite (sexec_mono f f' m body o ltac:(lia) _ E).
  destruct out; try exact Hr.
  destruct (srun f (Some (TLabel l)) body o1) as [[t2 o2]|] eqn:E2; [|discriminate]. rewrite (IH f' _ _ _ _ ltac:(lia) E2). exact Hr.
Qed.

(* ---------- "for all sufficiently large fuel": the fuelled big-step semantics as rules ---------- *)
Definition xev (m : smode) (s : sstmt) (o : soracle) (r : sres) : Prop :=
  exists f0, forall f, f0 <= f -> sexec f m s o = Some r.
Definition ev2 (P : nat -> nat -> Prop) : Prop := exists f0, forall F G, f0 <= F -> f0 <= G -> P F G.
Definition lev kc inc body (o : soracle) (r : sres) : Prop :=
  ev2 (fun F G => sfor_loop (sexec F None) G kc inc body o = Some r).
Definition aev kc inc body (r1 r : sres) : Prop :=
  ev2 (fun F G => sfor_after (sfor_loop (sexec F None) G kc inc body) inc (Some r1) = Some r).
Definition dlev body kc (o : soracle) (r : sres) : Prop :=
  ev2 (fun F G => sdo_loop (sexec F None) G body kc o = Some r).
Definition daev body kc (r1 r : sres) : Prop :=
  ev2 (fun F G => sdo_after (sdo_loop (sexec F None) G body kc) kc (Some r1) = Some r).

Lemma xev_of f m s o r : sexec f m s o = Some r -> xev m s o r.
Proof. intros H. exists f. intros f' Hle. exact (sexec_mono f f' m s o Hle _ H). Qed.

Ltac fuel_S f Hf := destruct f as [|f]; [exfalso; lia|]; cbn [sexec sfor_loop sdo_loop].

Lemma xev_leaf_seek t s o : (forall f, sexec (S f) (Some t) s o = Some ([], o, RSeek)) -> xev (Some t) s o ([], o, RSeek).
Proof. intros H. exists 1. intros f Hf. destruct f as [|f]; [lia|]. apply H. Qed.

Lemma xev_seq_normal m a b o t1 o1 t2 o2 out :
  xev m a o (t1, o1, RNormal) -> xev None b o1 (t2, o2, out) -> xev m (SSeq a b) o (t1 ++ t2, o2, out).
Proof.
  intros [fa Ha] [fb Hb]. exists (S (max fa fb)). intros f Hf. fuel_S f Hf. rewrite (Ha f) by lia. rewrite (Hb f) by lia. reflexivity.
Qed.
Lemma xev_seq_seek m a b o r : xev m a o ([], o, RSeek) -> xev m b o r -> xev m (SSeq a b) o r.
Proof.
  intros [fa Ha] [fb Hb]. exists (S (max fa fb)). intros f Hf. fuel_S f Hf. rewrite (Ha f) by lia. rewrite (Hb f) by lia. destruct r as [[t o1] out]. reflexivity.
Qed.
Lemma xev_seq_jump m a b o t1 o1 out : xev m a o (t1, o1, out) -> out <> RNormal -> out <> RSeek -> xev m (SSeq a b) o (t1, o1, out).
Proof.
  intros [fa Ha] Hn Hs. exists (S fa). intros f Hf. fuel_S f Hf. rewrite (Ha f) by lia. destruct out; congruence.
Qed.
Lemma xev_if_normal c a b v o r t o1 out : r = (t, o1, out) -> xev None (if v =? 0 then b else a) o r -> xev None (SIf c a b) (v :: o) ([c] ++ t, o1, out).
Proof. intros -> [fa Ha]. exists (S fa). intros f Hf. fuel_S f Hf. rewrite (Ha f) by lia. reflexivity. Qed.
Lemma xev_if_found t c a b o t1 o1 out : xev (Some t) a o (t1, o1, out) -> out <> RSeek -> xev (Some t) (SIf c a b) o (t1, o1, out).
Proof. intros [fa Ha] Hs. exists (S fa). intros f Hf. fuel_S f Hf. rewrite (Ha f) by lia. destruct out; congruence. Qed.
Lemma xev_if_else t c a b o r : xev (Some t) a o ([], o, RSeek) -> xev (Some t) b o r -> xev (Some t) (SIf c a b) o r.
Proof.
  intros [fa Ha] [fb Hb]. exists (S (max fa fb)). intros f Hf. fuel_S f Hf. rewrite (Ha f) by lia. rewrite (Hb f) by lia. destruct r as [[t1 o1] out]. reflexivity.
Qed.
Lemma xev_label m here s1 (s' : sstmt) o r :
  (forall f, sexec (S f) m s' o = sexec f (sarrive m here) s1 o) -> xev (sarrive m here) s1 o r -> xev m s' o r.
Proof. intros Hs [f1 H1]. exists (S f1). intros f Hf. destruct f as [|f]; [lia|]. rewrite Hs. apply H1. lia. Qed.

(* for *)
Lemma aev_same kc inc body t1 o1 out : out <> RNormal -> out <> RCont -> out <> RBreak -> aev kc inc body (t1, o1, out) (t1, o1, out).
Proof. intros H1 H2 H3. exists 0. intros F G _ _; cbv beta. destruct out; cbn [sfor_after]; try reflexivity; congruence. Qed.
Lemma aev_break kc inc body t1 o1 : aev kc inc body (t1, o1, RBreak) (t1, o1, RNormal).
Proof. exists 0. intros F G _ _; cbv beta. reflexivity. Qed.
Lemma aev_next kc inc body t1 o1 out1 t3 o3 out3 :
  out1 = RNormal \/ out1 = RCont -> lev kc inc body o1 (t3, o3, out3) -> aev kc inc body (t1, o1, out1) (t1 ++ inc ++ t3, o3, out3).
Proof.
  intros Ho [f0 H]. exists f0. intros F G HF HG; cbv beta. destruct Ho as [-> | ->]; cbn [sfor_after]; rewrite (H F G HF HG); cbn [spre]; rewrite app_assoc; reflexivity.
Qed.
Lemma lev_exit c inc body v o1 : v =? 0 = true -> lev (Some c) inc body (v :: o1) ([c], o1, RNormal).
Proof. intros Hv. exists 1. intros F G _ HG; cbv beta. destruct G as [|G]; [lia|]. cbn [sfor_loop]. rewrite Hv. reflexivity. Qed.
Lemma lev_iter_some c inc body v o1 r1 t o3 out :
  v =? 0 = false -> xev None body o1 r1 -> aev (Some c) inc body r1 (t, o3, out) -> lev (Some c) inc body (v :: o1) ([c] ++ t, o3, out).
Proof.
  intros Hv [fb Hb] [fa Ha]. exists (S (max fb fa)). intros F G HF HG; cbv beta. destruct G as [|G]; [lia|]. cbn [sfor_loop]. rewrite Hv.
  rewrite (Hb F) by lia. rewrite (Ha F G) by lia. reflexivity.
Qed.
Lemma lev_iter_none inc body o r1 r : xev None body o r1 -> aev None inc body r1 r -> lev None inc body o r.
Proof.
  intros [fb Hb] [fa Ha]. exists (S (max fb fa)). intros F G HF HG; cbv beta. destruct G as [|G]; [lia|]. cbn [sfor_loop].
  rewrite (Hb F) by lia. rewrite (Ha F G) by lia. reflexivity.
Qed.
Lemma xev_for_normal init kc inc body o t o1 out : lev kc inc body o (t, o1, out) -> xev None (SFor init kc inc body) o (init ++ t, o1, out).
Proof. intros [f0 H]. exists (S f0). intros f Hf. fuel_S f Hf. rewrite (H f f) by lia. reflexivity. Qed.
Lemma xev_for_seek t init kc inc body o r1 r : xev (Some t) body o r1 -> aev kc inc body r1 r -> xev (Some t) (SFor init kc inc body) o r.
Proof. intros [fb Hb] [fa Ha]. exists (S (max fb fa)). intros f Hf. fuel_S f Hf. rewrite (Hb f) by lia. apply Ha; lia. Qed.

(* do *)
Lemma daev_same body kc t1 o1 out : out <> RNormal -> out <> RCont -> out <> RBreak -> daev body kc (t1, o1, out) (t1, o1, out).
Proof. intros H1 H2 H3. exists 0. intros F G _ _; cbv beta. destruct out; cbn [sdo_after]; try reflexivity; congruence. Qed.
Lemma daev_break body kc t1 o1 : daev body kc (t1, o1, RBreak) (t1, o1, RNormal).
Proof. exists 0. intros F G _ _; cbv beta. reflexivity. Qed.
Lemma daev_exit body kc t1 v o2 out1 : out1 = RNormal \/ out1 = RCont -> v =? 0 = true -> daev body kc (t1, v :: o2, out1) (t1 ++ [kc], o2, RNormal).
Proof. intros Ho Hv. exists 0. intros F G _ _; cbv beta. destruct Ho as [-> | ->]; cbn [sdo_after]; rewrite Hv; reflexivity. Qed.
Lemma daev_next body kc t1 v o2 out1 t3 o3 out3 :
  out1 = RNormal \/ out1 = RCont -> v =? 0 = false -> dlev body kc o2 (t3, o3, out3) -> daev body kc (t1, v :: o2, out1) (t1 ++ [kc] ++ t3, o3, out3).
Proof.
  intros Ho Hv [f0 H]. exists f0. intros F G HF HG; cbv beta. destruct Ho as [-> | ->]; cbn [sdo_after]; rewrite Hv, (H F G HF HG); cbn [spre]; rewrite <- app_assoc; reflexivity.
Qed.
Lemma dlev_iter body kc o r1 r : xev None body o r1 -> daev body kc r1 r -> dlev body kc o r.
Proof.
  intros [fb Hb] [fa Ha]. exists (S (max fb fa)). intros F G HF HG; cbv beta. destruct G as [|G]; [lia|]. cbn [sdo_loop].
  rewrite (Hb F) by lia. apply Ha; lia.
Qed.
Lemma xev_do m body kc o r1 r : xev m body o r1 -> daev body kc r1 r -> xev m (SDo body kc) o r.
Proof. intros [fb Hb] [fa Ha]. exists (S (max fb fa)). intros f Hf. fuel_S f Hf. rewrite (Hb f) by lia. apply Ha; lia. Qed.

(* switch *)
Definition swend (r : sres) : sres := match r with (t, o, RBreak) => (t, o, RNormal) | _ => r end.
Lemma xev_switch_label l c body o r : xev (Some (TLabel l)) body o r -> xev (Some (TLabel l)) (SSwitch c body) o (swend r).
Proof. intros [fb Hb]. exists (S fb). intros f Hf. fuel_S f Hf. rewrite (Hb f) by lia. destruct r as [[t o1] out]. destruct out; reflexivity. Qed.
Lemma xev_switch_case c body v o1 t o2 out :
  xev (Some (TCase v)) body o1 (t, o2, out) -> out <> RSeek ->
  xev None (SSwitch c body) (v :: o1) (match swend (t, o2, out) with (t', o', out') => ([c] ++ t', o', out') end).
Proof. intros [fb Hb] Hs. exists (S fb). intros f Hf. fuel_S f Hf. rewrite (Hb f) by lia. destruct out; try congruence; reflexivity. Qed.
Lemma xev_switch_default c body v o1 t o2 out :
  xev (Some (TCase v)) body o1 ([], o1, RSeek) -> xev (Some TDefault) body o1 (t, o2, out) -> out <> RSeek ->
  xev None (SSwitch c body) (v :: o1) (match swend (t, o2, out) with (t', o', out') => ([c] ++ t', o', out') end).
Proof.
  intros [fa Ha] [fb Hb] Hs. exists (S (max fa fb)). intros f Hf. fuel_S f Hf. rewrite (Ha f) by lia. rewrite (Hb f) by lia. destruct out; try congruence; reflexivity.
Qed.
Lemma xev_switch_none c body v o1 :
  xev (Some (TCase v)) body o1 ([], o1, RSeek) -> xev (Some TDefault) body o1 ([], o1, RSeek) -> xev None (SSwitch c body) (v :: o1) ([c], o1, RNormal).
Proof. intros [fa Ha] [fb Hb]. exists (S (max fa fb)). intros f Hf. fuel_S f Hf. rewrite (Ha f) by lia. rewrite (Hb f) by lia. reflexivity. Qed.

(* a label that sfind does not find is not found by the seek either *)
Lemma xev_seek_none : forall s t k o, sfind t s k = None -> xev (Some t) s o ([], o, RSeek).
Proof.
  induction s as [n| |a IHa b IHb|c a IHa b IHb|init kc inc body IHb|body IHb kc| | |c body IHb|cv s1 IHs|s1 IHs|l s1 IHs|l|c tab]; intros t k o H; cbn [sfind] in H;
    try (apply xev_leaf_seek; intros f; reflexivity).
  - destruct (sfind t a (Kseq b k)) as [r|] eqn:Ea; [discriminate|]. apply xev_seq_seek; [eapply IHa; exact Ea|eapply IHb; exact H].
  - destruct (sfind t a k) as [r|] eqn:Ea; [discriminate|]. apply xev_if_else; [eapply IHa; exact Ea|eapply IHb; exact H].
  - eapply xev_for_seek; [eapply IHb; exact H|apply aev_same; discriminate].
  - eapply xev_do; [eapply IHb; exact H|apply daev_same; discriminate].
  - destruct t as [cv| |l]; try (apply xev_leaf_seek; intros f; reflexivity).
    apply (xev_switch_label l c body o ([], o, RSeek)). eapply IHb. exact H.
  - destruct (starget_eqb t (TCase cv)) eqn:E; [discriminate|]. apply (xev_label (Some t) (TCase cv) s1); [intros f; reflexivity|]. cbn [sarrive]. rewrite E. eapply IHs. exact H.
  - destruct (starget_eqb t TDefault) eqn:E; [discriminate|]. apply (xev_label (Some t) TDefault s1); [intros f; reflexivity|]. cbn [sarrive]. rewrite E. eapply IHs. exact H.
  - destruct (starget_eqb t (TLabel l)) eqn:E; [discriminate|]. apply (xev_label (Some t) (TLabel l) s1); [intros f; reflexivity|]. cbn [sarrive]. rewrite E. eapply IHs. exact H.
Qed.

(* ---------- counted runs of the continuation machine ---------- *)
Inductive cstarn (fn : sstmt) : nat -> cstate -> strace -> cstate -> Prop :=
| cn_refl st : cstarn fn 0 st [] st
| cn_step n st ev st1 tr st2 : cstep fn st = Some (ev, st1) -> cstarn fn n st1 tr st2 -> cstarn fn (S n) st (ev ++ tr) st2.
Definition cfin (o' : soracle) : cstate := (SSkip, Kstop, o').

Lemma cstarn_of_cstar fn st tr st' : cstar fn st tr st' -> exists n, cstarn fn n st tr st'.
Proof. induction 1 as [st|st ev st1 tr st2 Hs _ [n IH]]; [exists 0; constructor|exists (S n); econstructor; eassumption]. Qed.
(* a state that can step and reaches the end takes that step first *)
Lemma cstarn_step_inv fn n st tr o' ev st1 : cstarn fn n st tr (cfin o') -> cstep fn st = Some (ev, st1) ->
  exists n' tr', n = S n' /\ cstarn fn n' st1 tr' (cfin o') /\ tr = ev ++ tr'.
Proof.
  intros H Hs. inversion H as [st0|n0 st0 ev0 st2 tr0 st3 Hs0 Hr]; subst.
  - unfold cfin in Hs. cbn [cstep] in Hs. discriminate.
  - rewrite Hs in Hs0. injection Hs0 as <- <-. exists n0, tr0. repeat split. exact Hr.
Qed.
(* a state that cannot step and reaches the end is the end *)
Lemma cstarn_stuck_inv fn n st tr o' : cstarn fn n st tr (cfin o') -> cstep fn st = None -> st = cfin o' /\ tr = [] /\ n = 0.
Proof. intros H Hs. inversion H as [st0|n0 st0 ev0 st2 tr0 st3 Hs0 Hr]; subst; [repeat split|congruence]. Qed.

(* what a statement did, and the rest of the run *)
Definition cdecomp fn (n : nat) (m : smode) (s : sstmt) (k : scont) (o : soracle) (tr : strace) (o' : soracle) : Prop :=
  exists t1 o1 out st1 n1 t2, xev m s o (t1, o1, out) /\ coutcome out k o1 st1 /\ cstarn fn n1 st1 t2 (cfin o') /\ n1 <= n /\ tr = t1 ++ t2.
Definition PN fn (n : nat) : Prop := forall s k o tr o', cstarn fn n (s, k, o) tr (cfin o') -> cdecomp fn n None s k o tr o'.
Definition PS fn (n : nat) : Prop := forall t s k s1 k1 o tr o', sfind t s k = Some (s1, k1) -> cstarn fn n (s1, k1, o) tr (cfin o') -> cdecomp fn n (Some t) s k o tr o'.

Lemma lev_of_xev kc inc body o r : xev None (SFor [] kc inc body) o r -> lev kc inc body o r.
Proof.
  intros [f0 H]. exists f0. intros F G HF HG. cbv beta. pose proof (H (S f0) ltac:(lia)) as H1. cbn [sexec] in H1.
  destruct (sfor_loop (sexec f0 None) f0 kc inc body o) as [[[t1 o1] out1]|] eqn:E; [|discriminate]. cbn [spre app] in H1. rewrite <- H1.
  assert (Hex : exle (sexec f0 None) (sexec F None)) by (intros s0 o0; apply sexec_mono; exact HF).
  exact (sfor_loop_mono _ _ Hex f0 G kc inc body HG o _ E).
Qed.
Lemma dlev_of_xev body kc o r : xev None (SDo body kc) o r -> dlev body kc o r.
Proof.
  intros [f0 H]. exists (S f0). intros F G HF HG. cbv beta. pose proof (H (S f0) ltac:(lia)) as H1. cbn [sexec] in H1.
  (* sexec (S f0) None (SDo ..) = sdo_after (sdo_loop (sexec f0 None) f0 ..) kc (sexec f0 None body o) = sdo_loop (sexec f0 None) (S f0) .. *)
  change (sdo_loop (sexec f0 None) (S f0) body kc o = Some r) in H1.
  assert (Hex : exle (sexec f0 None) (sexec F None)) by (intros s0 o0; apply sexec_mono; lia).
  exact (sdo_loop_mono _ _ Hex (S f0) G body kc HG o _ H1).
Qed.

(* the body of a for has been executed (however it was entered): the rest of the loop *)
Lemma cfor_back fn n kc inc body k (HN : forall n', n' < n -> PN fn n') :
  forall t1 o1 out1 st1 n1 t2 o', coutcome out1 (Kfor kc inc body k) o1 st1 -> cstarn fn n1 st1 t2 (cfin o') -> n1 <= n ->
  exists t o3 out st3 n3 t4, aev kc inc body (t1, o1, out1) (t, o3, out) /\ coutcome out k o3 st3 /\ cstarn fn n3 st3 t4 (cfin o') /\ n3 <= n1 /\ t1 ++ t2 = t ++ t4.
Proof.
  intros t1 o1 out1 st1 n1 t2 o' Ho Hr Hle.
  assert (Hloop : forall n2 t3, cstarn fn n2 (SFor [] kc inc body, k, o1) t3 (cfin o') -> n2 < n1 -> out1 = RNormal \/ out1 = RCont -> t2 = inc ++ t3 ->
            exists t o3 out st3 n3 t4, aev kc inc body (t1, o1, out1) (t, o3, out) /\ coutcome out k o3 st3 /\ cstarn fn n3 st3 t4 (cfin o') /\ n3 <= n1 /\ t1 ++ t2 = t ++ t4).
  { intros n2 t3 Hr2 Hlt Hout ->. destruct (HN n2 ltac:(lia) _ _ _ _ _ Hr2) as (t5 & o5 & out5 & st5 & n5 & t6 & Hx & Ho5 & Hr5 & Hle5 & ->).
    exists (t1 ++ inc ++ t5), o5, out5, st5, n5, t6. split; [apply aev_next; [exact Hout|apply lev_of_xev; exact Hx]|]. split; [exact Ho5|]. split; [exact Hr5|]. split; [lia|].
    rewrite <- !app_assoc. reflexivity. }
  destruct out1; cbn [coutcome] in Ho.
  - subst st1. destruct (cstarn_step_inv _ _ _ _ _ _ _ Hr eq_refl) as (n2 & t3 & -> & Hr2 & ->). eapply Hloop; [exact Hr2|lia|left; reflexivity|reflexivity].
  - subst st1. destruct (cstarn_step_inv _ _ _ _ _ _ _ Hr eq_refl) as (n2 & t3 & -> & Hr2 & ->).
    exists t1, o1, RNormal, (SSkip, k, o1), n2, t3. split; [apply aev_break|]. split; [reflexivity|]. split; [exact Hr2|]. split; [lia|reflexivity].
  - subst st1. destruct (cstarn_step_inv _ _ _ _ _ _ _ Hr eq_refl) as (n2 & t3 & -> & Hr2 & ->).
    destruct (cstarn_step_inv _ _ _ _ _ _ _ Hr2 eq_refl) as (n3 & t4 & -> & Hr3 & ->). eapply Hloop; [exact Hr3|lia|right; reflexivity|reflexivity].
  - exists t1, o1, (RGoto l), st1, n1, t2. split; [apply aev_same; discriminate|]. split; [exact Ho|]. split; [exact Hr|]. split; [lia|reflexivity].
  - contradiction.
Qed.

Lemma cdo_back fn n body kc k (HN : forall n', n' < n -> PN fn n') :
  forall t1 o1 out1 st1 n1 t2 o', coutcome out1 (Kdo body kc k) o1 st1 -> cstarn fn n1 st1 t2 (cfin o') -> n1 <= n ->
  exists t o3 out st3 n3 t4, daev body kc (t1, o1, out1) (t, o3, out) /\ coutcome out k o3 st3 /\ cstarn fn n3 st3 t4 (cfin o') /\ n3 <= n1 /\ t1 ++ t2 = t ++ t4.
Proof.
  intros t1 o1 out1 st1 n1 t2 o' Ho Hr Hle.
  (* from the test on *)
  assert (Htest : forall n2 t3, cstarn fn n2 (SSkip, Kdo body kc k, o1) t3 (cfin o') -> n2 <= n1 -> out1 = RNormal \/ out1 = RCont -> t2 = t3 ->
            exists t o3 out st3 n3 t4, daev body kc (t1, o1, out1) (t, o3, out) /\ coutcome out k o3 st3 /\ cstarn fn n3 st3 t4 (cfin o') /\ n3 <= n1 /\ t1 ++ t2 = t ++ t4).
  { intros n2 t3 Hr2 Hle2 Hout ->. destruct o1 as [|v o2]; [destruct (cstarn_stuck_inv _ _ _ _ _ Hr2 eq_refl) as (Hx & _); discriminate|].
    destruct (cstarn_step_inv _ _ _ _ _ _ _ Hr2 eq_refl) as (n3 & t4 & -> & Hr3 & ->). destruct (v =? 0) eqn:Ev.
    - exists (t1 ++ [kc]), o2, RNormal, (SSkip, k, o2), n3, t4. split; [apply daev_exit; assumption|]. split; [reflexivity|]. split; [exact Hr3|]. split; [lia|].
      rewrite <- app_assoc. reflexivity.
    - destruct (HN n3 ltac:(lia) _ _ _ _ _ Hr3) as (t5 & o5 & out5 & st5 & n5 & t6 & Hx & Ho5 & Hr5 & Hle5 & ->).
      exists (t1 ++ [kc] ++ t5), o5, out5, st5, n5, t6. split; [apply daev_next; [exact Hout|exact Ev|apply dlev_of_xev; exact Hx]|]. split; [exact Ho5|]. split; [exact Hr5|]. split; [lia|].
      rewrite <- !app_assoc. reflexivity. }
  destruct out1; cbn [coutcome] in Ho.
  - subst st1. eapply Htest; [exact Hr|lia|left; reflexivity|reflexivity].
  - subst st1. destruct (cstarn_step_inv _ _ _ _ _ _ _ Hr eq_refl) as (n2 & t3 & -> & Hr2 & ->).
    exists t1, o1, RNormal, (SSkip, k, o1), n2, t3. split; [apply daev_break|]. split; [reflexivity|]. split; [exact Hr2|]. split; [lia|reflexivity].
  - subst st1. destruct (cstarn_step_inv _ _ _ _ _ _ _ Hr eq_refl) as (n2 & t3 & -> & Hr2 & ->). eapply Htest; [exact Hr2|lia|right; reflexivity|reflexivity].
  - exists t1, o1, (RGoto l), st1, n1, t2. split; [apply daev_same; discriminate|]. split; [exact Ho|]. split; [exact Hr|]. split; [lia|reflexivity].
  - contradiction.
Qed.

(* the body of a switch has been executed from one of its labels *)
Lemma cswitch_back fn t1 o1 out1 st1 n1 t2 o' k : coutcome out1 (Kswitch k) o1 st1 -> cstarn fn n1 st1 t2 (cfin o') ->
  exists out st3 n3 t4, swend (t1, o1, out1) = (t1, o1, out) /\ coutcome out k o1 st3 /\ cstarn fn n3 st3 t4 (cfin o') /\ n3 <= n1 /\ t2 = t4.
Proof.
  intros Ho Hr. destruct out1; cbn [coutcome swend] in *.
  - subst st1. destruct (cstarn_step_inv _ _ _ _ _ _ _ Hr eq_refl) as (n2 & t3 & -> & Hr2 & ->). exists RNormal, (SSkip, k, o1), n2, t3. repeat split; [exact Hr2|lia].
  - subst st1. destruct (cstarn_step_inv _ _ _ _ _ _ _ Hr eq_refl) as (n2 & t3 & -> & Hr2 & ->). exists RNormal, (SSkip, k, o1), n2, t3. repeat split; [exact Hr2|lia].
  - subst st1. destruct (cstarn_step_inv _ _ _ _ _ _ _ Hr eq_refl) as (n2 & t3 & -> & Hr2 & ->). exists RCont, (SContinue, k, o1), n2, t3. repeat split; [exact Hr2|lia].
  - exists (RGoto l), st1, n1, t2. repeat split; [exact Ho|exact Hr|lia].
  - contradiction.
Qed.

Lemma coutcome_noseek out k o st : coutcome out k o st -> out <> RSeek.
Proof. intros H ->. exact H. Qed.

(* the first statement of a sequence has been executed *)
Lemma cseq_back fn n b k (HN : forall n', n' < n -> PN fn n') :
  forall m a o t1 o1 out1 st1 n1 t2 o', xev m a o (t1, o1, out1) -> coutcome out1 (Kseq b k) o1 st1 -> cstarn fn n1 st1 t2 (cfin o') -> n1 <= n ->
  exists t o3 out st3 n3 t4, xev m (SSeq a b) o (t, o3, out) /\ coutcome out k o3 st3 /\ cstarn fn n3 st3 t4 (cfin o') /\ n3 <= n1 /\ t1 ++ t2 = t ++ t4.
Proof.
  intros m a o t1 o1 out1 st1 n1 t2 o' Hx Ho Hr Hle. destruct out1; cbn [coutcome] in Ho.
  - subst st1. destruct (cstarn_step_inv _ _ _ _ _ _ _ Hr eq_refl) as (n2 & t3 & -> & Hr2 & ->).
    destruct (HN n2 ltac:(lia) _ _ _ _ _ Hr2) as (t5 & o5 & out5 & st5 & n5 & t6 & Hx5 & Ho5 & Hr5 & Hle5 & ->).
    exists (t1 ++ t5), o5, out5, st5, n5, t6. split; [eapply xev_seq_normal; eassumption|]. split; [exact Ho5|]. split; [exact Hr5|]. split; [lia|]. rewrite <- app_assoc. reflexivity.
  - subst st1. destruct (cstarn_step_inv _ _ _ _ _ _ _ Hr eq_refl) as (n2 & t3 & -> & Hr2 & ->).
    exists t1, o1, RBreak, (SBreak, k, o1), n2, t3. split; [apply xev_seq_jump; [exact Hx|discriminate|discriminate]|]. split; [reflexivity|]. split; [exact Hr2|]. split; [lia|reflexivity].
  - subst st1. destruct (cstarn_step_inv _ _ _ _ _ _ _ Hr eq_refl) as (n2 & t3 & -> & Hr2 & ->).
    exists t1, o1, RCont, (SContinue, k, o1), n2, t3. split; [apply xev_seq_jump; [exact Hx|discriminate|discriminate]|]. split; [reflexivity|]. split; [exact Hr2|]. split; [lia|reflexivity].
  - exists t1, o1, (RGoto l), st1, n1, t2. split; [apply xev_seq_jump; [exact Hx|discriminate|discriminate]|]. split; [exact Ho|]. split; [exact Hr|]. split; [lia|reflexivity].
  - contradiction.
Qed.

Ltac stuck Hr := let Hx := fresh "Hx" in destruct (cstarn_stuck_inv _ _ _ _ _ Hr eq_refl) as (Hx & _); discriminate Hx.

Lemma PN_step fn n : (forall n', n' < n -> PN fn n') -> (forall n', n' < n -> PS fn n') -> PN fn n.
Proof.
  intros HN HS s k o tr o' Hr.
  destruct s as [m| |a b|c a b|init kc inc body|body kc| | |c body|cv s1|s1|l s1|l|c tab].
  - destruct (cstarn_step_inv _ _ _ _ _ _ _ Hr eq_refl) as (n2 & t3 & -> & Hr2 & ->).
    exists [m], o, RNormal, (SSkip, k, o), n2, t3. split; [apply (xev_of 1); reflexivity|]. split; [reflexivity|]. split; [exact Hr2|]. split; [lia|reflexivity].
  - exists [], o, RNormal, (SSkip, k, o), n, tr. split; [apply (xev_of 1); reflexivity|]. split; [reflexivity|]. split; [exact Hr|]. split; [lia|reflexivity].
  - destruct (cstarn_step_inv _ _ _ _ _ _ _ Hr eq_refl) as (n2 & t3 & -> & Hr2 & ->).
    destruct (HN n2 ltac:(lia) _ _ _ _ _ Hr2) as (t1 & o1 & out1 & st1 & n1 & t2 & Hx & Ho & Hr1 & Hle & ->).
    destruct (cseq_back fn (S n2) b k HN None a o t1 o1 out1 st1 n1 t2 o' Hx Ho Hr1 ltac:(lia)) as (t & o3 & out & st3 & n3 & t4 & Hx3 & Ho3 & Hr3 & Hle3 & Heq).
    exists t, o3, out, st3, n3, t4. split; [exact Hx3|]. split; [exact Ho3|]. split; [exact Hr3|]. split; [lia|exact Heq].
  - destruct o as [|v o1]; [stuck Hr|]. destruct (cstarn_step_inv _ _ _ _ _ _ _ Hr eq_refl) as (n2 & t3 & -> & Hr2 & ->).
    destruct (HN n2 ltac:(lia) _ _ _ _ _ Hr2) as (t1 & o2 & out1 & st1 & n1 & t2 & Hx & Ho & Hr1 & Hle & ->).
    exists ([c] ++ t1), o2, out1, st1, n1, t2. split; [eapply xev_if_normal; [reflexivity|exact Hx]|]. split; [exact Ho|]. split; [exact Hr1|]. split; [lia|]. rewrite <- app_assoc. reflexivity.
  - (* for *)
    destruct kc as [c|].
    + destruct o as [|v o1]; [stuck Hr|]. destruct (v =? 0) eqn:Ev.
      * assert (Hs : cstep fn (SFor init (Some c) inc body, k, v :: o1) = Some (init ++ [c], (SSkip, k, o1))) by (cbn [cstep]; rewrite Ev; reflexivity).
        destruct (cstarn_step_inv _ _ _ _ _ _ _ Hr Hs) as (n2 & t3 & -> & Hr2 & ->).
        exists (init ++ [c]), o1, RNormal, (SSkip, k, o1), n2, t3. split; [apply xev_for_normal; apply lev_exit; exact Ev|]. split; [reflexivity|]. split; [exact Hr2|]. split; [lia|reflexivity].
      * assert (Hs : cstep fn (SFor init (Some c) inc body, k, v :: o1) = Some (init ++ [c], (body, Kfor (Some c) inc body k, o1))) by (cbn [cstep]; rewrite Ev; reflexivity).
        destruct (cstarn_step_inv _ _ _ _ _ _ _ Hr Hs) as (n2 & t3 & -> & Hr2 & ->).
        destruct (HN n2 ltac:(lia) _ _ _ _ _ Hr2) as (t1 & o2 & out1 & st1 & n1 & t2 & Hx & Ho & Hr1 & Hle & ->).
        destruct (cfor_back fn (S n2) (Some c) inc body k HN t1 o2 out1 st1 n1 t2 o' Ho Hr1 ltac:(lia)) as (t & o3 & out & st3 & n3 & t4 & Ha & Ho3 & Hr3 & Hle3 & Heq).
        exists (init ++ [c] ++ t), o3, out, st3, n3, t4. split; [apply xev_for_normal; eapply lev_iter_some; eassumption|]. split; [exact Ho3|]. split; [exact Hr3|]. split; [lia|].
        rewrite Heq, <- !app_assoc. reflexivity.
    + destruct (cstarn_step_inv _ _ _ _ _ _ _ Hr eq_refl) as (n2 & t3 & -> & Hr2 & ->).
      destruct (HN n2 ltac:(lia) _ _ _ _ _ Hr2) as (t1 & o2 & out1 & st1 & n1 & t2 & Hx & Ho & Hr1 & Hle & ->).
      destruct (cfor_back fn (S n2) None inc body k HN t1 o2 out1 st1 n1 t2 o' Ho Hr1 ltac:(lia)) as (t & o3 & out & st3 & n3 & t4 & Ha & Ho3 & Hr3 & Hle3 & Heq).
      exists (init ++ t), o3, out, st3, n3, t4. split; [apply xev_for_normal; eapply lev_iter_none; eassumption|]. split; [exact Ho3|]. split; [exact Hr3|]. split; [lia|].
      rewrite Heq, <- !app_assoc. reflexivity.
  - (* do *)
    destruct (cstarn_step_inv _ _ _ _ _ _ _ Hr eq_refl) as (n2 & t3 & -> & Hr2 & ->).
    destruct (HN n2 ltac:(lia) _ _ _ _ _ Hr2) as (t1 & o2 & out1 & st1 & n1 & t2 & Hx & Ho & Hr1 & Hle & ->).
    destruct (cdo_back fn (S n2) body kc k HN t1 o2 out1 st1 n1 t2 o' Ho Hr1 ltac:(lia)) as (t & o3 & out & st3 & n3 & t4 & Ha & Ho3 & Hr3 & Hle3 & Heq).
    exists t, o3, out, st3, n3, t4. split; [eapply xev_do; eassumption|]. split; [exact Ho3|]. split; [exact Hr3|]. split; [lia|exact Heq].
  - exists [], o, RBreak, (SBreak, k, o), n, tr. split; [apply (xev_of 1); reflexivity|]. split; [reflexivity|]. split; [exact Hr|]. split; [lia|reflexivity].
  - exists [], o, RCont, (SContinue, k, o), n, tr. split; [apply (xev_of 1); reflexivity|]. split; [reflexivity|]. split; [exact Hr|]. split; [lia|reflexivity].
  - (* switch *)
    destruct o as [|v o1]; [stuck Hr|].
    destruct (sfind (TCase v) body (Kswitch k)) as [[s1 k1]|] eqn:F1.
    + assert (Hs : cstep fn (SSwitch c body, k, v :: o1) = Some ([c], (s1, k1, o1))) by (cbn [cstep]; rewrite F1; reflexivity).
      destruct (cstarn_step_inv _ _ _ _ _ _ _ Hr Hs) as (n2 & t3 & -> & Hr2 & ->).
      destruct (HS n2 ltac:(lia) _ _ _ _ _ _ _ _ F1 Hr2) as (t1 & o2 & out1 & st1 & n1 & t2 & Hx & Ho & Hr1 & Hle & ->).
      destruct (cswitch_back fn t1 o2 out1 st1 n1 t2 o' k Ho Hr1) as (out & st3 & n3 & t4 & Hsw & Ho3 & Hr3 & Hle3 & ->).
      exists ([c] ++ t1), o2, out, st3, n3, t4. split; [|split; [exact Ho3|]; split; [exact Hr3|]; split; [lia|rewrite <- app_assoc; reflexivity]].
      pose proof (xev_switch_case c body v o1 t1 o2 out1 Hx (coutcome_noseek _ _ _ _ Ho)) as Hsc. rewrite Hsw in Hsc. exact Hsc.
    + destruct (sfind TDefault body (Kswitch k)) as [[s1 k1]|] eqn:F2.
      * assert (Hs : cstep fn (SSwitch c body, k, v :: o1) = Some ([c], (s1, k1, o1))) by (cbn [cstep]; rewrite F1, F2; reflexivity).
        destruct (cstarn_step_inv _ _ _ _ _ _ _ Hr Hs) as (n2 & t3 & -> & Hr2 & ->).
        destruct (HS n2 ltac:(lia) _ _ _ _ _ _ _ _ F2 Hr2) as (t1 & o2 & out1 & st1 & n1 & t2 & Hx & Ho & Hr1 & Hle & ->).
        destruct (cswitch_back fn t1 o2 out1 st1 n1 t2 o' k Ho Hr1) as (out & st3 & n3 & t4 & Hsw & Ho3 & Hr3 & Hle3 & ->).
        exists ([c] ++ t1), o2, out, st3, n3, t4. split; [|split; [exact Ho3|]; split; [exact Hr3|]; split; [lia|rewrite <- app_assoc; reflexivity]].
        pose proof (xev_switch_default c body v o1 t1 o2 out1 (xev_seek_none _ _ _ _ F1) Hx (coutcome_noseek _ _ _ _ Ho)) as Hsc. rewrite Hsw in Hsc. exact Hsc.
      * assert (Hs : cstep fn (SSwitch c body, k, v :: o1) = Some ([c], (SSkip, k, o1))) by (cbn [cstep]; rewrite F1, F2; reflexivity).
        destruct (cstarn_step_inv _ _ _ _ _ _ _ Hr Hs) as (n2 & t3 & -> & Hr2 & ->).
        exists [c], o1, RNormal, (SSkip, k, o1), n2, t3. split; [apply xev_switch_none; eapply xev_seek_none; eassumption|]. split; [reflexivity|]. split; [exact Hr2|]. split; [lia|reflexivity].
  - destruct (cstarn_step_inv _ _ _ _ _ _ _ Hr eq_refl) as (n2 & t3 & -> & Hr2 & ->).
    destruct (HN n2 ltac:(lia) _ _ _ _ _ Hr2) as (t1 & o2 & out1 & st1 & n1 & t2 & Hx & Ho & Hr1 & Hle & ->).
    exists t1, o2, out1, st1, n1, t2. split; [apply (xev_label None (TCase cv) s1); [intros f; reflexivity|exact Hx]|]. split; [exact Ho|]. split; [exact Hr1|]. split; [lia|reflexivity].
  - destruct (cstarn_step_inv _ _ _ _ _ _ _ Hr eq_refl) as (n2 & t3 & -> & Hr2 & ->).
    destruct (HN n2 ltac:(lia) _ _ _ _ _ Hr2) as (t1 & o2 & out1 & st1 & n1 & t2 & Hx & Ho & Hr1 & Hle & ->).
    exists t1, o2, out1, st1, n1, t2. split; [apply (xev_label None TDefault s1); [intros f; reflexivity|exact Hx]|]. split; [exact Ho|]. split; [exact Hr1|]. split; [lia|reflexivity].
  - destruct (cstarn_step_inv _ _ _ _ _ _ _ Hr eq_refl) as (n2 & t3 & -> & Hr2 & ->).
    destruct (HN n2 ltac:(lia) _ _ _ _ _ Hr2) as (t1 & o2 & out1 & st1 & n1 & t2 & Hx & Ho & Hr1 & Hle & ->).
    exists t1, o2, out1, st1, n1, t2. split; [apply (xev_label None (TLabel l) s1); [intros f; reflexivity|exact Hx]|]. split; [exact Ho|]. split; [exact Hr1|]. split; [lia|reflexivity].
  - exists [], o, (RGoto l), (SGoto l, k, o), n, tr. split; [apply (xev_of 1); reflexivity|]. split; [exists k; reflexivity|]. split; [exact Hr|]. split; [lia|reflexivity].
  - destruct o as [|v o1]; [stuck Hr|]. destruct (nth_error tab v) as [l|] eqn:En.
    + assert (Hs : cstep fn (SGotoInd c tab, k, v :: o1) = Some ([c], (SGoto l, k, o1))) by (cbn [cstep]; rewrite En; reflexivity).
      destruct (cstarn_step_inv _ _ _ _ _ _ _ Hr Hs) as (n2 & t3 & -> & Hr2 & ->).
      exists [c], o1, (RGoto l), (SGoto l, k, o1), n2, t3. split; [apply (xev_of 1); cbn [sexec]; rewrite En; reflexivity|]. split; [exists k; reflexivity|]. split; [exact Hr2|]. split; [lia|reflexivity].
    + assert (Hs : cstep fn (SGotoInd c tab, k, v :: o1) = None) by (cbn [cstep]; rewrite En; reflexivity).
      destruct (cstarn_stuck_inv _ _ _ _ _ Hr Hs) as (Hx & _). discriminate Hx.
Qed.

Lemma PS_step fn n : (forall n', n' <= n -> PN fn n') -> PS fn n.
Proof.
  intros HNle. assert (HN : forall n', n' < n -> PN fn n') by (intros n' Hlt; apply HNle; lia).
  intros t s. revert t.
  induction s as [m| |a IHa b IHb|c a IHa b IHb|init kc inc body IHb|body IHb kc| | |c body IHb|cv s2 IHs|s2 IHs|l s2 IHs|l|c tab];
    intros t k s1 k1 o tr o' Hf Hr; cbn [sfind] in Hf; try discriminate.
  - destruct (sfind t a (Kseq b k)) as [[sa ka]|] eqn:Ea.
    + injection Hf as -> ->. destruct (IHa _ _ _ _ _ _ _ Ea Hr) as (t1 & o1 & out1 & st1 & n1 & t2 & Hx & Ho & Hr1 & Hle & ->).
      destruct (cseq_back fn n b k HN (Some t) a o t1 o1 out1 st1 n1 t2 o' Hx Ho Hr1 Hle) as (t0 & o3 & out & st3 & n3 & t4 & Hx3 & Ho3 & Hr3 & Hle3 & Heq).
      exists t0, o3, out, st3, n3, t4. split; [exact Hx3|]. split; [exact Ho3|]. split; [exact Hr3|]. split; [lia|exact Heq].
    + destruct (IHb _ _ _ _ _ _ _ Hf Hr) as (t1 & o1 & out1 & st1 & n1 & t2 & Hx & Ho & Hr1 & Hle & ->).
      exists t1, o1, out1, st1, n1, t2. split; [apply xev_seq_seek; [eapply xev_seek_none; exact Ea|exact Hx]|]. split; [exact Ho|]. split; [exact Hr1|]. split; [lia|reflexivity].
  - destruct (sfind t a k) as [[sa ka]|] eqn:Ea.
    + injection Hf as -> ->. destruct (IHa _ _ _ _ _ _ _ Ea Hr) as (t1 & o1 & out1 & st1 & n1 & t2 & Hx & Ho & Hr1 & Hle & ->).
      exists t1, o1, out1, st1, n1, t2. split; [apply xev_if_found; [exact Hx|eapply coutcome_noseek; exact Ho]|]. split; [exact Ho|]. split; [exact Hr1|]. split; [lia|reflexivity].
    + destruct (IHb _ _ _ _ _ _ _ Hf Hr) as (t1 & o1 & out1 & st1 & n1 & t2 & Hx & Ho & Hr1 & Hle & ->).
      exists t1, o1, out1, st1, n1, t2. split; [apply xev_if_else; [eapply xev_seek_none; exact Ea|exact Hx]|]. split; [exact Ho|]. split; [exact Hr1|]. split; [lia|reflexivity].
  - destruct (IHb _ _ _ _ _ _ _ Hf Hr) as (t1 & o1 & out1 & st1 & n1 & t2 & Hx & Ho & Hr1 & Hle & ->).
    destruct (cfor_back fn n kc inc body k HN t1 o1 out1 st1 n1 t2 o' Ho Hr1 Hle) as (t0 & o3 & out & st3 & n3 & t4 & Ha & Ho3 & Hr3 & Hle3 & Heq).
    exists t0, o3, out, st3, n3, t4. split; [eapply xev_for_seek; eassumption|]. split; [exact Ho3|]. split; [exact Hr3|]. split; [lia|exact Heq].
  - destruct (IHb _ _ _ _ _ _ _ Hf Hr) as (t1 & o1 & out1 & st1 & n1 & t2 & Hx & Ho & Hr1 & Hle & ->).
    destruct (cdo_back fn n body kc k HN t1 o1 out1 st1 n1 t2 o' Ho Hr1 Hle) as (t0 & o3 & out & st3 & n3 & t4 & Ha & Ho3 & Hr3 & Hle3 & Heq).
    exists t0, o3, out, st3, n3, t4. split; [eapply xev_do; eassumption|]. split; [exact Ho3|]. split; [exact Hr3|]. split; [lia|exact Heq].
  - destruct t as [cv| |l]; try discriminate.
    destruct (IHb _ _ _ _ _ _ _ Hf Hr) as (t1 & o1 & out1 & st1 & n1 & t2 & Hx & Ho & Hr1 & Hle & ->).
    destruct (cswitch_back fn t1 o1 out1 st1 n1 t2 o' k Ho Hr1) as (out & st3 & n3 & t4 & Hsw & Ho3 & Hr3 & Hle3 & ->).
    exists t1, o1, out, st3, n3, t4. split; [|split; [exact Ho3|]; split; [exact Hr3|]; split; [lia|reflexivity]].
    pose proof (xev_switch_label l c body o _ Hx) as Hsl. rewrite Hsw in Hsl. exact Hsl.
  - destruct (starget_eqb t (TCase cv)) eqn:E.
    + injection Hf as -> ->. destruct (HNle n (le_n n) _ _ _ _ _ Hr) as (t1 & o1 & out1 & st1 & n1 & t2 & Hx & Ho & Hr1 & Hle & ->).
      exists t1, o1, out1, st1, n1, t2. split; [apply (xev_label (Some t) (TCase cv) s1); [intros f; reflexivity|cbn [sarrive]; rewrite E; exact Hx]|]. split; [exact Ho|]. split; [exact Hr1|]. split; [lia|reflexivity].
    + destruct (IHs _ _ _ _ _ _ _ Hf Hr) as (t1 & o1 & out1 & st1 & n1 & t2 & Hx & Ho & Hr1 & Hle & ->).
      exists t1, o1, out1, st1, n1, t2. split; [apply (xev_label (Some t) (TCase cv) s2); [intros f; reflexivity|cbn [sarrive]; rewrite E; exact Hx]|]. split; [exact Ho|]. split; [exact Hr1|]. split; [lia|reflexivity].
  - destruct (starget_eqb t TDefault) eqn:E.
    + injection Hf as -> ->. destruct (HNle n (le_n n) _ _ _ _ _ Hr) as (t1 & o1 & out1 & st1 & n1 & t2 & Hx & Ho & Hr1 & Hle & ->).
      exists t1, o1, out1, st1, n1, t2. split; [apply (xev_label (Some t) TDefault s1); [intros f; reflexivity|cbn [sarrive]; rewrite E; exact Hx]|]. split; [exact Ho|]. split; [exact Hr1|]. split; [lia|reflexivity].
    + destruct (IHs _ _ _ _ _ _ _ Hf Hr) as (t1 & o1 & out1 & st1 & n1 & t2 & Hx & Ho & Hr1 & Hle & ->).
      exists t1, o1, out1, st1, n1, t2. split; [apply (xev_label (Some t) TDefault s2); [intros f; reflexivity|cbn [sarrive]; rewrite E; exact Hx]|]. split; [exact Ho|]. split; [exact Hr1|]. split; [lia|reflexivity].
  - destruct (starget_eqb t (TLabel l)) eqn:E.
    + injection Hf as -> ->. destruct (HNle n (le_n n) _ _ _ _ _ Hr) as (t1 & o1 & out1 & st1 & n1 & t2 & Hx & Ho & Hr1 & Hle & ->).
      exists t1, o1, out1, st1, n1, t2. split; [apply (xev_label (Some t) (TLabel l) s1); [intros f; reflexivity|cbn [sarrive]; rewrite E; exact Hx]|]. split; [exact Ho|]. split; [exact Hr1|]. split; [lia|reflexivity].
    + destruct (IHs _ _ _ _ _ _ _ Hf Hr) as (t1 & o1 & out1 & st1 & n1 & t2 & Hx & Ho & Hr1 & Hle & ->).
      exists t1, o1, out1, st1, n1, t2. split; [apply (xev_label (Some t) (TLabel l) s2); [intros f; reflexivity|cbn [sarrive]; rewrite E; exact Hx]|]. split; [exact Ho|]. split; [exact Hr1|]. split; [lia|reflexivity].
Qed.

Lemma PN_PS_all fn : forall n, PN fn n /\ PS fn n.
Proof.
  intros n. induction n as [n IH] using lt_wf_ind.
  assert (HNn : PN fn n) by (apply PN_step; intros n' Hlt; apply (IH n' Hlt)).
  split; [exact HNn|]. apply PS_step. intros n' Hle. destruct (Nat.eq_dec n' n) as [->|Hne]; [exact HNn|apply (IH n'); lia].
Qed.

(* ---------- function bodies ---------- *)
Lemma sw_continuations_complete_n : forall n m body s1 k1 o tr o',
  centry m body Kstop = Some (s1, k1) -> cstarn body n (s1, k1, o) tr (cfin o') -> exists fuel, srun fuel m body o = Some (tr, o').
Proof.
  induction n as [n IH] using lt_wf_ind. intros m body s1 k1 o tr o' He Hr.
  assert (Hd : cdecomp body n m body Kstop o tr o').
  { destruct m as [t|]; cbn [centry] in He.
    - exact (proj2 (PN_PS_all body n) _ _ _ _ _ _ _ _ He Hr).
    - injection He as <- <-. exact (proj1 (PN_PS_all body n) _ _ _ _ _ Hr). }
  destruct Hd as (t1 & o1 & out & st1 & n1 & t2 & [f0 Hx] & Ho & Hr1 & Hle & ->).
  destruct out; cbn [coutcome] in Ho.
  - subst st1. destruct (cstarn_stuck_inv _ _ _ _ _ Hr1 eq_refl) as (Hfin & -> & _). unfold cfin in Hfin. injection Hfin as ->.
    exists (S f0). cbn [srun]. rewrite (Hx f0 (le_n _)). rewrite app_nil_r. reflexivity.
  - subst st1. destruct (cstarn_stuck_inv _ _ _ _ _ Hr1 eq_refl) as (Hfin & _). discriminate Hfin.
  - subst st1. destruct (cstarn_stuck_inv _ _ _ _ _ Hr1 eq_refl) as (Hfin & _). discriminate Hfin.
  - destruct Ho as [k3 ->]. destruct (sfind (TLabel l) body Kstop) as [[s2 k2]|] eqn:Ef.
    + assert (Hs : cstep body (SGoto l, k3, o1) = Some ([], (s2, k2, o1))) by (cbn [cstep]; rewrite Ef; reflexivity).
      destruct (cstarn_step_inv _ _ _ _ _ _ _ Hr1 Hs) as (n2 & t3 & -> & Hr2 & ->).
      destruct (IH n2 ltac:(lia) (Some (TLabel l)) body s2 k2 o1 t3 o' Ef Hr2) as [fuel2 H2].
      exists (S (max f0 fuel2)). cbn [srun]. rewrite (Hx (max f0 fuel2)) by lia.
      rewrite (srun_mono fuel2 (max f0 fuel2) _ _ _ _ ltac:(lia) H2). reflexivity.
    + assert (Hs : cstep body (SGoto l, k3, o1) = None) by (cbn [cstep]; rewrite Ef; reflexivity).
      destruct (cstarn_stuck_inv _ _ _ _ _ Hr1 Hs) as (Hfin & _). discriminate Hfin.
  - contradiction.
Qed.

(* Every run of the continuation machine that brings the function body to its end is a run of the
   seek semantics: with SwContProofs, the two semantics have exactly the same complete runs. *)
Theorem sw_continuations_complete : forall body o tr o',
  cstar body (body, Kstop, o) tr (SSkip, Kstop, o') -> exists fuel, srun fuel None body o = Some (tr, o').
Proof.
  intros body o tr o' H. destruct (cstarn_of_cstar _ _ _ _ H) as [n Hn]. exact (sw_continuations_complete_n n None body body Kstop o tr o' eq_refl Hn).
Qed.

Theorem sw_semantics_equivalent : forall body o tr o',
  (exists fuel, srun fuel None body o = Some (tr, o')) <-> cstar body (body, Kstop, o) tr (SSkip, Kstop, o').
Proof.
  intros body o tr o'. split; [intros [fuel H]; eapply sw_program_agrees_with_continuations; exact H|apply sw_continuations_complete].
Qed.
