(* C05 (package initcur) Part 3: the simulation.  Every parser function of Model/InitCursor.v, called on the node t
   of subobject q (of the current object U of the closest braces) with the items still to come, returns
   `replay t E` and the remaining items, where E are exactly the events the spec's loop (spec_items U) logs
   before its cursor leaves q, relative to q - stated as a decomposition of the spec's run:

       spec_items U c tok = map (at_ q) E ++ spec_items U (next U q) tok'

   (when the function returns because the list ends or a designated item comes, the cursor the spec goes on
   with does not matter; `next U q` is then as good as any).  By induction on the level d of Model.level. *)
From Coq Require Import List Arith Bool Lia.
From Chibicc Require Import Spec.InitSyntax Spec.InitSpec Spec.InitValid Model.InitCursor Proofs.InitTree Proofs.InitLocal.
Import ListNotations.

Definition post (U : ty) (q : path) (t : itree) (c : option path) (tok rest : items) (r : res) : Prop :=
  exists E tok', r = Some (replay t E, tok') /\ E <> [] /\
     spec_items U c tok = map (at_ q) E ++ spec_items U (next U q) tok' /\
     ok_items U (next U q) tok' = true /\ isuffix tok' rest.

Definition I2_ok (I2 : I2T) (d : nat) : Prop :=
  forall W t U q v rest, shaped W t -> wf W = true -> sub U q = Some W ->
    tdepth W + idepth_items (ICons [] v rest) < d ->
    ok_items U (Some q) (ICons [] v rest) = true ->
    post U q t (Some q) (ICons [] v rest) rest (I2 t v rest).

Definition D_ok (D : DT) (d : nat) : Prop :=
  forall W t U q ds p v rest, shaped W t -> wf W = true -> sub U q = Some W ->
    tdepth W + idepth_items (ICons [] v rest) < d ->
    no_range ds = true -> targets W ds = [p] ->
    ok_items U (@Some path (q ++ p)) (ICons [] v rest) = true ->
    post U q t (@Some path (q ++ p)) (ICons [] v rest) rest (D t ds v rest).

(* an initializer that is consumed by the node alone (a braced list; an expression for a scalar; a string literal for
   a character array) leaves the stream behind it untouched, whatever that stream is *)
Definition I2_single (I2 : I2T) (d : nat) : Prop :=
  forall W t v rest, shaped W t -> wf W = true -> tdepth W + idepth v < d ->
    ok_init W [] v = true -> single W v = true ->
    I2 t v rest = Some (replay t (fst (spec_init W [] v)), rest).

Definition D_single (D : DT) (d : nat) : Prop :=
  forall W t v rest, shaped W t -> wf W = true -> tdepth W + idepth v < d ->
    ok_init W [] v = true -> single W v = true ->
    D t [] v rest = Some (replay t (fst (spec_init W [] v)), rest).

(* designation whose list ends in a range: <plain designators ds1> [a ... b] = v, v for one element.  The events are
   the range's (relative to the array at q ++ p1), then whatever the enclosing aggregates take from the stream *)
Definition range_events (e : ty) (v : init) (a b : nat) : list event :=
  flat_map (fun k => map (at_ [k]) (fst (spec_init e [] v))) (seq a (S b - a)).

Definition gpost (U : ty) (q : path) (t : itree) (L : list event) (rest : items) (r : res) : Prop :=
  exists E tok', r = Some (replay t E, tok') /\ E <> [] /\
     L = map (at_ q) E ++ spec_items U (next U q) tok' /\
     ok_items U (next U q) tok' = true /\ isuffix tok' rest.

Definition D_range_ok (D : DT) (d : nat) : Prop :=
  forall W t U q ds1 a b p1 n e v rest,
    shaped W t -> wf W = true -> sub U q = Some W ->
    tdepth W + idepth_items (ICons [] v rest) < d ->
    no_range ds1 = true -> targets W ds1 = [p1] -> sub W p1 = Some (TArray n e) ->
    range_ok (TArray n e) a b v = true -> ok_init e [] v = true ->
    ok_items U (next U (q ++ p1 ++ [b])) rest = true ->
    gpost U q t (map (at_ (q ++ p1)) (range_events e v a b) ++ spec_items U (next U (q ++ p1 ++ [b])) rest) rest
          (D t (ds1 ++ [DRange a b]) v rest).

(* ---- small facts ---- *)

Lemma wf_child : forall W i V, wf W = true -> child W i = Some V -> wf V = true.
Proof.
  intros W i V Hwf H. destruct W as [k|[n|] e|ms|ms]; cbn [child in_bound] in H; cbn [wf] in Hwf; try discriminate.
  - destruct (i <? n); [|discriminate]. injection H as <-. apply andb_prop in Hwf. apply Hwf.
  - destruct ms as [|m0 ms0]; [discriminate|]. rewrite forallb_forall in Hwf. apply Hwf. eapply nth_error_In. exact H.
  - destruct ms as [|m0 ms0]; [discriminate|]. rewrite forallb_forall in Hwf. apply Hwf. eapply nth_error_In. exact H.
Qed.

Lemma wf_child0 : forall W, wf W = true -> (forall k, W <> TScalar k) -> exists V, child W 0 = Some V.
Proof.
  intros W Hwf Hns. destruct W as [k|[n|] e|ms|ms]; cbn [wf] in Hwf; try discriminate.
  - exfalso. apply (Hns k). reflexivity.
  - apply andb_prop in Hwf. destruct Hwf as [Hn _]. exists e. cbn [child in_bound]. destruct n; [discriminate|reflexivity].
  - destruct ms as [|m0 ms0]; [discriminate|]. exists m0. reflexivity.
  - destruct ms as [|m0 ms0]; [discriminate|]. exists m0. reflexivity.
Qed.

Lemma sub_snoc : forall U q W i V, sub U q = Some W -> child W i = Some V -> sub U (q ++ [i]) = Some V.
Proof. intros U q W i V HW HV. rewrite sub_app, HW. cbn [sub]. rewrite HV. reflexivity. Qed.

Lemma Forall2_length_sh : forall (ms : list ty) (cs : list itree), Forall2 shaped ms cs -> length ms = length cs.
Proof. intros ms cs H. induction H; cbn [length]; congruence. Qed.

(* what a node that is an array (not flexible) or a struct knows about its type *)
Lemma wrapped_nxt : forall w W cs i, wrapper w -> shaped W (w cs) ->
  nxt W i = if S i <? length cs then Some [S i] else None.
Proof.
  intros w W cs i [[e ->]| ->] H.
  - apply shaped_array in H. destruct H as [_ [-> _]]. reflexivity.
  - apply shaped_struct in H. destruct H as [ms [-> H2]]. cbn [nxt]. rewrite (Forall2_length_sh ms cs H2). reflexivity.
Qed.

Lemma wrapped_child : forall w W cs i c, wrapper w -> shaped W (w cs) -> nth_error cs i = Some c ->
  exists V, child W i = Some V /\ shaped V c.
Proof.
  intros w W cs i c [[e ->]| ->] H Hc.
  - apply shaped_array in H. destruct H as [_ [-> Hall]]. exists e. split.
    + cbn [child in_bound]. assert (Hi : i < length cs) by (apply nth_error_Some; rewrite Hc; discriminate).
      apply Nat.ltb_lt in Hi. rewrite Hi. reflexivity.
    + rewrite Forall_forall in Hall. apply Hall. eapply nth_error_In. exact Hc.
  - apply shaped_struct in H. destruct H as [ms [-> H2]]. cbn [child]. eapply Forall2_nth_rev; eassumption.
Qed.

Lemma wrapped_set : forall w W cs i V c', wrapper w -> shaped W (w cs) -> child W i = Some V -> shaped V c' ->
  shaped W (w (set_nth cs i c')).
Proof.
  intros w W cs i V c' [[e ->]| ->] H HV Hc'.
  - apply shaped_array in H. destruct H as [_ [-> Hall]]. apply shaped_array. rewrite set_nth_length.
    split; [reflexivity|]. split; [reflexivity|]. cbn [child] in HV. destruct (in_bound (Some (length cs)) i); [|discriminate].
    injection HV as <-. apply Forall_set_nth; assumption.
  - apply shaped_struct in H. destruct H as [ms [-> H2]]. apply shaped_struct. exists ms. split; [reflexivity|].
    cbn [child] in HV. eapply Forall2_set_nth; eassumption.
Qed.

Lemma spec_items_nil : forall U c, spec_items U c INil = [].
Proof. reflexivity. Qed.

(* string_initializer: the characters go to the elements in order, as far as both last *)
Lemma set_nth_app : forall (done cs : list itree) c0 z, set_nth (done ++ c0 :: cs) (length done) z = done ++ z :: cs.
Proof. induction done as [|x done IH]; intros cs c0 z; [reflexivity|]. cbn [app length set_nth]. rewrite IH. reflexivity. Qed.

Lemma nth_error_app_len : forall (done cs : list itree) c0, nth_error (done ++ c0 :: cs) (length done) = Some c0.
Proof. induction done as [|x done IH]; intros cs c0; [reflexivity|]. cbn [app length nth_error]. apply IH. Qed.

Lemma string_events_step : forall q k n s, k < n ->
  string_events q k (Some n) s
  = Set_ (q ++ [k]) (match s with c :: _ => Some (VChar c) | [] => None end) :: string_events q (S k) (Some n) (tl s).
Proof.
  intros q k n s Hk. destruct s as [|c s].
  - cbn [string_events tl zero_fill]. replace (n - k) with (S (n - S k)) by lia. reflexivity.
  - cbn [string_events in_bound tl]. assert (Hb : k <? n = true) by (apply Nat.ltb_lt; exact Hk). rewrite Hb. reflexivity.
Qed.

Lemma string_events_full : forall q k n s, n <= k -> string_events q k (Some n) s = [].
Proof.
  intros q k n s Hk. destruct s as [|c s].
  - cbn [string_events zero_fill]. replace (n - k) with 0 by lia. reflexivity.
  - cbn [string_events in_bound]. assert (Hb : k <? n = false) by (apply Nat.ltb_ge; exact Hk). rewrite Hb. reflexivity.
Qed.

Lemma string_fill_gen : forall e cs s done n, Forall (shaped (TScalar 1)) cs -> n = length done + length cs ->
  exists cs', string_fill cs s = Some cs' /\
    replay (NArray false e (done ++ cs)) (string_events [] (length done) (Some n) s) = NArray false e (done ++ cs').
Proof.
  intros e cs. induction cs as [|c0 cs IH]; intros s done n Hall Hn.
  - exists []. split; [reflexivity|]. rewrite string_events_full by (cbn [length] in Hn; lia). reflexivity.
  - inversion Hall as [|c0' cs' Hc0 Hall']; subst.
    destruct c0 as [y|f e0 cs0|cs0|mem cs0];
        try (apply shaped_array in Hc0; destruct Hc0 as [_ [Hc0 _]]; discriminate);
        try (apply shaped_struct in Hc0; destruct Hc0 as [ms0 [Hc0 _]]; discriminate);
        try (apply shaped_union in Hc0; destruct Hc0 as [ms0 [Hc0 _]]; discriminate).
    set (x := match s with c :: _ => Some (VChar c) | [] => None end).
    destruct (IH (tl s) (done ++ [NScalar x]) (length done + length (NScalar y :: cs)) Hall') as [r [Hr Hrep]].
    { rewrite app_length. cbn [length]. lia. }
    exists (NScalar x :: r). split. { cbn [string_fill]. rewrite Hr. reflexivity. }
    rewrite string_events_step by (cbn [length]; lia). fold x.
    unfold replay. cbn [fold_left apply_ev app tset]. unfold upd. rewrite nth_error_app_len, set_nth_app. cbn [tset].
    rewrite app_length in Hrep. cbn [length] in Hrep. rewrite Nat.add_1_r in Hrep. rewrite <- !app_assoc in Hrep. cbn [app] in Hrep.
    exact Hrep.
Qed.

Lemma string_fill_ok : forall e cs s, Forall (shaped e) cs -> is_char_array (TArray (Some (length cs)) e) = true ->
  exists cs', string_fill cs s = Some cs' /\
    replay (NArray false e cs) (string_events [] 0 (Some (length cs)) s) = NArray false e cs'.
Proof.
  intros e cs s Hall Hca. cbn [is_char_array] in Hca. destruct e as [[|[|k]]| | |]; try discriminate.
  exact (string_fill_gen (TScalar 1) cs s [] (length cs) Hall eq_refl).
Qed.

Definition cur2 (U : ty) (q : path) (len i : nat) : option path :=
  if i <? len then @Some path (q ++ [i]) else next U q.

Section Level.
  Variable I2c : I2T.
  Variable Dc : DT.
  Variable d : nat.
  Hypothesis HI2 : I2_ok I2c d.
  Hypothesis HD : D_ok Dc d.
  Hypothesis HI2s : I2_single I2c d.
  Hypothesis HDs : D_single Dc d.
  Hypothesis HDr : D_range_ok Dc d.

  (* array_initializer2 / struct_initializer2 from index i *)
  Lemma loop2_ok : forall n w W U q, wrapper w -> wf W = true -> sub U q = Some W ->
    forall cs i tok, shaped W (w cs) -> n = length cs - i ->
      tdepth W + idepth_items tok <= d ->
      ok_items U (cur2 U q (length cs) i) tok = true ->
      exists E cs' tok', array_loop2 I2c cs i n tok = Some (cs', tok') /\ w cs' = replay (w cs) E /\
        spec_items U (cur2 U q (length cs) i) tok = map (at_ q) E ++ spec_items U (next U q) tok' /\
        ok_items U (next U q) tok' = true /\ isuffix tok' tok /\
        (i < length cs -> forall v tl, tok = ICons [] v tl -> E <> [] /\ isuffix tok' tl).
  Proof.
    induction n as [|n IH]; intros w W U q Hw Hwf HW cs i tok Hsh Hn Hdep Hok.
    - exists [], cs, tok. cbn [array_loop2 map app]. unfold cur2 in *.
      assert (Hi : i <? length cs = false) by (apply Nat.ltb_ge; lia). rewrite Hi in *.
      repeat split; try assumption; try apply suf_refl; lia.
    - assert (Hi : i < length cs) by lia. unfold cur2 in Hok |- *.
      assert (Hib : i <? length cs = true) by (apply Nat.ltb_lt; exact Hi). rewrite Hib in *.
      destruct tok as [|ds v tl].
      + exists [], cs, INil. cbn [array_loop2]. repeat split; try apply suf_refl; discriminate.
      + destruct ds as [|d0 ds'].
        * destruct (nth_error cs i) as [c|] eqn:Hc; [|apply nth_error_None in Hc; lia].
          destruct (wrapped_child w W cs i c Hw Hsh Hc) as [V [HV HshV]].
          assert (HwfV : wf V = true) by (eapply wf_child; eassumption).
          assert (HsubV : sub U (q ++ [i]) = Some V) by (eapply sub_snoc; eassumption).
          assert (HdV : tdepth V + idepth_items (ICons [] v tl) < d) by (apply tdepth_child in HV; lia).
          destruct (HI2 V c U (q ++ [i]) v tl HshV HwfV HsubV HdV Hok) as [E1 [tok1 [Hr [HE1 [Hs1 [Hok1 Hsuf1]]]]]].
          assert (Hnext : next U (q ++ [i]) = cur2 U q (length cs) (S i)).
          { rewrite (next_snoc U q W i V HW HV), (wrapped_nxt w W cs i Hw Hsh). unfold cur2.
            destruct (S i <? length cs); reflexivity. }
          set (cs1 := set_nth cs i (replay c E1)).
          assert (Hlen1 : length cs1 = length cs) by apply set_nth_length.
          assert (Hsh1 : shaped W (w cs1)).
          { eapply wrapped_set; try eassumption. apply shaped_replay. exact HshV. }
          assert (Hdep1 : tdepth W + idepth_items tok1 <= d).
          { apply isuffix_idepth in Hsuf1. cbn [idepth_items] in Hdep. lia. }
          rewrite Hnext in Hok1, Hs1. rewrite <- Hlen1 in Hok1.
          destruct (IH w W U q Hw Hwf HW cs1 (S i) tok1 Hsh1 ltac:(lia) Hdep1 Hok1) as [E2 [cs' [tok' [Hr2 [Hw2 [Hs2 [Hok2 [Hsuf2 _]]]]]]]].
          exists (map (at_ [i]) E1 ++ E2), cs', tok'.
          split. { cbn [array_loop2]. rewrite Hc, Hr. exact Hr2. }
          split. { rewrite replay_app, (replay_child w Hw E1 cs i c Hc). exact Hw2. }
          split. { rewrite Hs1. rewrite Hlen1 in Hs2. rewrite Hs2. rewrite map_app, map_at_app, app_assoc. reflexivity. }
          split; [exact Hok2|].
          split. { apply suf_cons. eapply isuffix_trans; eassumption. }
          intros _ v0 tl0 Heq. injection Heq as <- <-. split.
          { destruct E1; [congruence|discriminate]. }
          eapply isuffix_trans; eassumption.
        * exists [], cs, (ICons (d0 :: ds') v tl). cbn [array_loop2 map app].
          split; [reflexivity|]. split; [reflexivity|].
          split. { apply spec_items_desig_any_cursor. exact Hok. }
          split; [exact Hok|]. split; [apply suf_refl|]. intros _ v0 tl0 Heq. discriminate.
  Qed.

  (* after child i is done (events E1, stream tok1), the loop of array_initializer2 / struct_initializer2 goes on
     from i+1: used inside designation *)
  Lemma cont_ok : forall w W U q cs i c V E1 tok1 (L : list event) rest0,
    wrapper w -> wf W = true -> sub U q = Some W -> shaped W (w cs) ->
    nth_error cs i = Some c -> child W i = Some V -> shaped V c ->
    E1 <> [] ->
    L = map (at_ (q ++ [i])) E1 ++ spec_items U (next U (q ++ [i])) tok1 ->
    ok_items U (next U (q ++ [i])) tok1 = true -> isuffix tok1 rest0 ->
    tdepth W + idepth_items tok1 <= d ->
    exists E cs' tok',
      array_loop2 I2c (set_nth cs i (replay c E1)) (S i) (length cs - S i) tok1 = Some (cs', tok') /\
      w cs' = replay (w cs) E /\ E <> [] /\
      L = map (at_ q) E ++ spec_items U (next U q) tok' /\
      ok_items U (next U q) tok' = true /\ isuffix tok' rest0.
  Proof.
    intros w W U q cs i c V E1 tok1 L rest0 Hw Hwf HW Hsh Hc HV HshV HE1 Hs1 Hok1 Hsuf1 Hdep1.
    assert (Hnext : next U (q ++ [i]) = cur2 U q (length cs) (S i)).
    { rewrite (next_snoc U q W i V HW HV), (wrapped_nxt w W cs i Hw Hsh). unfold cur2.
      destruct (S i <? length cs); reflexivity. }
    set (cs1 := set_nth cs i (replay c E1)).
    assert (Hlen1 : length cs1 = length cs) by apply set_nth_length.
    assert (Hsh1 : shaped W (w cs1)).
    { eapply wrapped_set; try eassumption. apply shaped_replay. exact HshV. }
    rewrite Hnext in Hok1, Hs1. rewrite <- Hlen1 in Hok1.
    destruct (loop2_ok (length cs - S i) w W U q Hw Hwf HW cs1 (S i) tok1 Hsh1 ltac:(lia) Hdep1 Hok1)
      as [E2 [cs' [tok' [Hr2 [Hw2 [Hs2 [Hok2 [Hsuf2 _]]]]]]]].
    exists (map (at_ [i]) E1 ++ E2), cs', tok'.
    split; [exact Hr2|].
    split. { rewrite replay_app, (replay_child w Hw E1 cs i c Hc). exact Hw2. }
    split. { destruct E1; [congruence|discriminate]. }
    split. { rewrite Hs1. rewrite Hlen1 in Hs2. rewrite Hs2. rewrite map_app, map_at_app, app_assoc. reflexivity. }
    split; [exact Hok2|]. eapply isuffix_trans; eassumption.
  Qed.

  Definition cur1 (len i : nat) : option path := if i <? len then @Some path [i] else None.

  (* for (j = begin; j <= end; j++) designation(&tok2, tok, init->children[j]) with an initializer for one element *)
  Lemma range_fill : forall e v tl n j cs tok2,
    Forall (shaped e) cs -> wf e = true -> tdepth e + idepth v < d -> ok_init e [] v = true -> single e v = true ->
    j + n <= length cs ->
    exists cs', designate_range Dc cs j n [] v tl tok2 = Some (cs', match n with 0 => tok2 | S _ => tl end) /\
      NArray false e cs' = replay (NArray false e cs)
                                  (flat_map (fun k => map (at_ [k]) (fst (spec_init e [] v))) (seq j n)) /\
      Forall (shaped e) cs' /\ length cs' = length cs.
  Proof.
    intros e v tl n. induction n as [|n IH]; intros j cs tok2 Hall Hwfe Hde Hoke Hsingle Hjn.
    - exists cs. repeat split. exact Hall.
    - assert (Hw : wrapper (NArray false e)) by (left; exists e; reflexivity).
      destruct (Forall_nth e cs j Hall ltac:(lia)) as [c [Hc Hshc]].
      pose proof (HDs e c v tl Hshc Hwfe Hde Hoke Hsingle) as Hr.
      destruct (IH (S j) (set_nth cs j (replay c (fst (spec_init e [] v)))) tl) as [cs' [Hf [Hrep [Hall' Hlen']]]]; try assumption.
      { apply Forall_set_nth; [exact Hall|]. apply shaped_replay. exact Hshc. }
      { rewrite set_nth_length. lia. }
      exists cs'. split. { cbn [designate_range]. rewrite Hc, Hr, Hf. destruct n; reflexivity. }
      split. { cbn [seq flat_map]. rewrite replay_app, (replay_child (NArray false e) Hw _ cs j c Hc). exact Hrep. }
      split; [exact Hall'|]. rewrite Hlen'. apply set_nth_length.
  Qed.

  (* array_initializer1: the loop between the braces of an array *)
  Lemma array_loop1_ok : forall fuel e len cs i tok,
    length cs = len -> Forall (shaped e) cs -> wf (TArray (Some len) e) = true -> ilength tok < fuel ->
    tdepth (TArray (Some len) e) + idepth_items tok <= d ->
    ok_items (TArray (Some len) e) (cur1 len i) tok = true ->
    exists E cs', array_loop1 I2c Dc fuel cs i tok = Some cs' /\
      NArray false e cs' = replay (NArray false e cs) E /\
      spec_items (TArray (Some len) e) (cur1 len i) tok = E.
  Proof.
    induction fuel as [|fuel IH]; intros e len cs i tok Hlen Hall Hwf Hfuel Hdep Hok; [lia|].
    set (W := TArray (Some len) e) in *.
    assert (Hwfe : wf e = true) by (cbn [wf] in Hwf; apply andb_prop in Hwf; apply Hwf).
    assert (Hw : wrapper (NArray false e)) by (left; exists e; reflexivity).
    destruct tok as [|ds v tl].
    - exists [], cs. repeat split.
    - cbn [ilength] in Hfuel. cbn [idepth_items] in Hdep. destruct ds as [|d0 ds'].
      + unfold cur1 in Hok |- *. destruct (i <? len) eqn:Hib; [|discriminate Hok].
        assert (Hi : i < length cs) by (apply Nat.ltb_lt in Hib; lia).
        destruct (Forall_nth e cs i Hall Hi) as [c [Hc Hshc]].
        assert (Hsub : sub W [i] = Some e) by (cbn [sub child W in_bound]; rewrite Hib; reflexivity).
        assert (Hde : tdepth e + idepth_items (ICons [] v tl) < d) by (cbn [tdepth W idepth_items] in *; lia).
        destruct (HI2 e c W [i] v tl Hshc Hwfe Hsub Hde Hok) as [E1 [tok1 [Hr [HE1 [Hs1 [Hok1 Hsuf1]]]]]].
        assert (Hnext : next W [i] = cur1 len (S i)).
        { cbn [next child W in_bound]. rewrite Hib. cbn [next nxt in_bound]. reflexivity. }
        rewrite Hnext in Hs1, Hok1.
        destruct (IH e len (set_nth cs i (replay c E1)) (S i) tok1) as [E2 [cs' [Hr2 [Hw2 Hs2]]]].
        { rewrite set_nth_length. exact Hlen. }
        { apply Forall_set_nth; [exact Hall|]. apply shaped_replay. exact Hshc. }
        { exact Hwf. }
        { apply isuffix_length in Hsuf1. lia. }
        { apply isuffix_idepth in Hsuf1. fold W. lia. }
        { exact Hok1. }
        exists (map (at_ [i]) E1 ++ E2), cs'.
        split. { cbn [array_loop1]. rewrite Hlen, Hib, Hc, Hr. exact Hr2. }
        split. { rewrite replay_app, (replay_child (NArray false e) Hw E1 cs i c Hc). exact Hw2. }
        fold W in Hs2. rewrite Hs1, Hs2. reflexivity.
      + destruct (ok_items_desig W _ d0 ds' v tl Hok) as [[p [Hp [Hnr Hokp]]]|[Hrange|Hnest]].
        2: { (* [a ... b] = v *)
          destruct Hrange as [a [b [-> [-> [Hr [Hokb Hoktl]]]]]].
          destruct (spec_items_range (Some len) e a b v tl (cur1 len i) Hr Hokb) as [Hsr Hsnd]. fold W in Hsr, Hsnd.
          rewrite Hsnd in Hoktl.
          pose proof Hr as Hr'. cbn [range_ok W] in Hr'. apply andb_prop in Hr'. destruct Hr' as [Hab Hsingle].
          apply andb_prop in Hab. destruct Hab as [Hle Hb]. cbn [in_bound] in Hb.
          assert (Hsubb : sub W [b] = Some e) by (cbn [sub child W in_bound]; rewrite Hb; reflexivity).
          assert (Hoke : ok_init e [] v = true).
          { pose proof (ok_init_at v W [b] e [] Hsubb) as H. cbn [app] in H. rewrite <- H. exact Hokb. }
          assert (Hdv : tdepth e + idepth v < d) by (cbn [tdepth W] in Hdep; lia).
          apply Nat.leb_le in Hle. pose proof Hb as Hb'. apply Nat.ltb_lt in Hb'.
          destruct (range_fill e v tl (S b - a) a cs tl Hall Hwfe Hdv Hoke Hsingle ltac:(lia)) as [cs1 [Hfill [Hrep1 [Hall1 Hlen1]]]].
          replace (S b - a) with (S (b - a)) in Hfill by lia.
          assert (Hnext : next W [b] = cur1 len (S b)).
          { cbn [next child W in_bound]. rewrite Hb. cbn [next nxt in_bound]. reflexivity. }
          rewrite Hnext in Hsr, Hoktl.
          destruct (IH e len cs1 (S b) tl) as [E2 [cs' [Hr2 [Hw2 Hs2]]]].
          { lia. } { exact Hall1. } { exact Hwf. } { lia. } { fold W. lia. } { exact Hoktl. }
          exists (flat_map (fun k => map (at_ [k]) (fst (spec_init e [] v))) (seq a (S b - a)) ++ E2), cs'.
          split. { cbn [array_loop1 array_designator]. rewrite Hlen.
                   assert (Ha : a <? len = true) by (apply Nat.ltb_lt; lia). assert (Hle' : a <=? b = true) by (apply Nat.leb_le; exact Hle).
                   rewrite Ha, Hb, Hle'. cbn [andb]. replace (S b - a) with (S (b - a)) by lia. rewrite Hfill. exact Hr2. }
          split. { rewrite replay_app, <- Hrep1. exact Hw2. }
          fold W in Hs2. rewrite Hsr, Hs2. reflexivity. }
        2: { (* [k] <plain designators> [a ... b] = v *)
          destruct Hnest as [ds1 [a [b [p1 [n0 [e0 [-> [Hnr1 [Ht1 [Hs1' [Hr [Hoke Hoktl]]]]]]]]]]]].
          pose proof (spec_items_range_tail W (cur1 len i) (d0 :: ds1) a b p1 n0 e0 v tl Hnr1 Ht1 Hs1' Hr Hoke) as Hspec.
          destruct d0 as [k|a0 b0|m]; [|cbn [no_range forallb] in Hnr1; discriminate|cbn [targets W] in Ht1; discriminate].
          cbn [targets W in_bound] in Ht1. destruct (k <? len) eqn:Hkb; [|discriminate].
          destruct (map_cons_singleton k _ p1 Ht1) as [p1' [Ht1' ->]].
          cbn [no_range forallb andb] in Hnr1.
          assert (Hk : k < length cs) by (apply Nat.ltb_lt in Hkb; lia).
          destruct (Forall_nth e cs k Hall Hk) as [c [Hc Hshc]].
          assert (Hsub : sub W [k] = Some e) by (cbn [sub child W in_bound]; rewrite Hkb; reflexivity).
          assert (Hs1'' : sub e p1' = Some (TArray n0 e0)).
          { cbn [sub child W in_bound] in Hs1'. rewrite Hkb in Hs1'. exact Hs1'. }
          assert (Hde : tdepth e + idepth_items (ICons [] v tl) < d) by (cbn [tdepth W idepth_items] in *; lia).
          destruct (HDr e c W [k] ds1 a b p1' n0 e0 v tl Hshc Hwfe Hsub Hde Hnr1 Ht1' Hs1'' Hr Hoke Hoktl)
            as [E1 [tok1 [Hr1 [HE1 [Hs1 [Hok1 Hsuf1]]]]]].
          assert (Hnext : next W [k] = cur1 len (S k)).
          { cbn [next child W in_bound]. rewrite Hkb. cbn [next nxt in_bound]. reflexivity. }
          rewrite Hnext in Hs1, Hok1.
          destruct (IH e len (set_nth cs k (replay c E1)) (S k) tok1) as [E2 [cs' [Hr2 [Hw2 Hs2]]]].
          { rewrite set_nth_length. exact Hlen. }
          { apply Forall_set_nth; [exact Hall|]. apply shaped_replay. exact Hshc. }
          { exact Hwf. }
          { apply isuffix_length in Hsuf1. lia. }
          { apply isuffix_idepth in Hsuf1. fold W. lia. }
          { exact Hok1. }
          exists (map (at_ [k]) E1 ++ E2), cs'.
          split. { cbn [array_loop1 array_designator]. rewrite Hlen, Hkb. replace (S k - k) with 1 by lia.
                   cbn [designate_range]. rewrite Hc, Hr1. exact Hr2. }
          split. { rewrite replay_app, (replay_child (NArray false e) Hw E1 cs k c Hc). exact Hw2. }
          fold W in Hs2. cbn [app] in Hspec, Hs1. unfold range_events in Hs1. rewrite Hspec, Hs1, Hs2. reflexivity. }
        destruct d0 as [k|a b|m]; [|cbn [no_range forallb] in Hnr; discriminate|cbn [targets W] in Hp; discriminate].
        cbn [targets W in_bound] in Hp. destruct (k <? len) eqn:Hkb; [|discriminate].
        destruct (map_cons_singleton k _ p Hp) as [p' [Hp' ->]].
        cbn [no_range forallb andb] in Hnr.
        assert (Hk : k < length cs) by (apply Nat.ltb_lt in Hkb; lia).
        destruct (Forall_nth e cs k Hall Hk) as [c [Hc Hshc]].
        assert (Hsub : sub W [k] = Some e) by (cbn [sub child W in_bound]; rewrite Hkb; reflexivity).
        assert (Hde : tdepth e + idepth_items (ICons [] v tl) < d) by (cbn [tdepth W idepth_items] in *; lia).
        destruct (HD e c W [k] ds' p' v tl Hshc Hwfe Hsub Hde Hnr Hp' Hokp) as [E1 [tok1 [Hr [HE1 [Hs1 [Hok1 Hsuf1]]]]]].
        assert (Hnext : next W [k] = cur1 len (S k)).
        { cbn [next child W in_bound]. rewrite Hkb. cbn [next nxt in_bound]. reflexivity. }
        rewrite Hnext in Hs1, Hok1.
        destruct (IH e len (set_nth cs k (replay c E1)) (S k) tok1) as [E2 [cs' [Hr2 [Hw2 Hs2]]]].
        { rewrite set_nth_length. exact Hlen. }
        { apply Forall_set_nth; [exact Hall|]. apply shaped_replay. exact Hshc. }
        { exact Hwf. }
        { apply isuffix_length in Hsuf1. lia. }
        { apply isuffix_idepth in Hsuf1. fold W. lia. }
        { exact Hok1. }
        exists (map (at_ [k]) E1 ++ E2), cs'.
        split. { cbn [array_loop1 array_designator]. rewrite Hlen, Hkb. replace (S k - k) with 1 by lia.
                 cbn [designate_range]. rewrite Hc, Hr. exact Hr2. }
        split. { rewrite replay_app, (replay_child (NArray false e) Hw E1 cs k c Hc). exact Hw2. }
        fold W in Hs2. rewrite (spec_items_desig W _ (DIndex k) ds' v tl (k :: p')).
        * cbn [app] in Hs1. rewrite Hs1, Hs2. reflexivity.
        * cbn [targets W in_bound]. rewrite Hkb, Hp'. reflexivity.
  Qed.

  (* struct_initializer1: the loop between the braces of a struct *)
  Lemma struct_loop1_ok : forall fuel ms cs i tok,
    Forall2 shaped ms cs -> wf (TStruct ms) = true -> ilength tok < fuel ->
    tdepth (TStruct ms) + idepth_items tok <= d ->
    ok_items (TStruct ms) (cur1 (length ms) i) tok = true ->
    exists E cs', struct_loop1 I2c Dc fuel cs i tok = Some cs' /\
      NStruct cs' = replay (NStruct cs) E /\
      spec_items (TStruct ms) (cur1 (length ms) i) tok = E.
  Proof.
    induction fuel as [|fuel IH]; intros ms cs i tok Hall Hwf Hfuel Hdep Hok; [lia|].
    set (W := TStruct ms) in *.
    assert (Hw : wrapper NStruct) by (right; reflexivity).
    assert (Hlen : length ms = length cs) by (apply Forall2_length_sh; exact Hall).
    destruct tok as [|ds v tl].
    - exists [], cs. repeat split.
    - cbn [ilength] in Hfuel. cbn [idepth_items] in Hdep. destruct ds as [|d0 ds'].
      + unfold cur1 in Hok |- *. destruct (i <? length ms) eqn:Hib; [|discriminate Hok].
        assert (Hi : i < length cs) by (apply Nat.ltb_lt in Hib; lia).
        destruct (nth_error cs i) as [c|] eqn:Hc; [|apply nth_error_None in Hc; lia].
        destruct (Forall2_nth_rev ms cs i c Hall Hc) as [V [HV Hshc]].
        assert (HwfV : wf V = true) by (apply (wf_child W i V Hwf); exact HV).
        assert (Hsub : sub W [i] = Some V) by (cbn [sub child W]; rewrite HV; reflexivity).
        assert (Hde : tdepth V + idepth_items (ICons [] v tl) < d).
        { assert (tdepth V < tdepth W) by (apply (tdepth_child W i V); exact HV). cbn [idepth_items]. lia. }
        destruct (HI2 V c W [i] v tl Hshc HwfV Hsub Hde Hok) as [E1 [tok1 [Hr [HE1 [Hs1 [Hok1 Hsuf1]]]]]].
        assert (Hnext : next W [i] = cur1 (length ms) (S i)).
        { cbn [next child W]. rewrite HV. cbn [next nxt]. reflexivity. }
        rewrite Hnext in Hs1, Hok1.
        destruct (IH ms (set_nth cs i (replay c E1)) (S i) tok1) as [E2 [cs' [Hr2 [Hw2 Hs2]]]].
        { eapply Forall2_set_nth; [exact Hall|exact HV|]. apply shaped_replay. exact Hshc. }
        { exact Hwf. }
        { apply isuffix_length in Hsuf1. lia. }
        { apply isuffix_idepth in Hsuf1. fold W. lia. }
        { exact Hok1. }
        exists (map (at_ [i]) E1 ++ E2), cs'.
        split. { cbn [struct_loop1]. rewrite Hc, Hr. exact Hr2. }
        split. { rewrite replay_app, (replay_child NStruct Hw E1 cs i c Hc). exact Hw2. }
        fold W in Hs2. rewrite Hs1, Hs2. reflexivity.
      + destruct (ok_items_desig W _ d0 ds' v tl Hok) as [[p [Hp [Hnr Hokp]]]|[Hrange|Hnest]].
        2: { destruct (simple_range_array _ _ _ _ _ Hrange) as [n0 [e0 Heq]]. unfold W in Heq. discriminate Heq. }
        2: { (* .m <plain designators> [a ... b] = v *)
          destruct Hnest as [ds1 [a [b [p1 [n0 [e0 [-> [Hnr1 [Ht1 [Hs1' [Hr [Hoke Hoktl]]]]]]]]]]]].
          pose proof (spec_items_range_tail W (cur1 (length ms) i) (d0 :: ds1) a b p1 n0 e0 v tl Hnr1 Ht1 Hs1' Hr Hoke) as Hspec.
          destruct d0 as [k|a0 b0|m]; [cbn [targets W] in Ht1; discriminate|cbn [targets W] in Ht1; discriminate|].
          cbn [targets W] in Ht1. destruct (nth_error ms m) as [V|] eqn:HV; [|discriminate].
          destruct (map_cons_singleton m _ p1 Ht1) as [p1' [Ht1' ->]].
          cbn [no_range forallb andb] in Hnr1.
          destruct (Forall2_nth ms cs m V Hall HV) as [c [Hc Hshc]].
          assert (HwfV : wf V = true) by (apply (wf_child W m V Hwf); exact HV).
          assert (Hsub : sub W [m] = Some V) by (cbn [sub child W]; rewrite HV; reflexivity).
          assert (Hs1'' : sub V p1' = Some (TArray n0 e0)).
          { cbn [sub child W] in Hs1'. rewrite HV in Hs1'. exact Hs1'. }
          assert (Hde : tdepth V + idepth_items (ICons [] v tl) < d).
          { assert (tdepth V < tdepth W) by (apply (tdepth_child W m V); exact HV). cbn [idepth_items]. lia. }
          destruct (HDr V c W [m] ds1 a b p1' n0 e0 v tl Hshc HwfV Hsub Hde Hnr1 Ht1' Hs1'' Hr Hoke Hoktl)
            as [E1 [tok1 [Hr1 [HE1 [Hs1 [Hok1 Hsuf1]]]]]].
          assert (Hnext : next W [m] = cur1 (length ms) (S m)).
          { cbn [next child W]. rewrite HV. cbn [next nxt]. reflexivity. }
          rewrite Hnext in Hs1, Hok1.
          destruct (IH ms (set_nth cs m (replay c E1)) (S m) tok1) as [E2 [cs' [Hr2 [Hw2 Hs2]]]].
          { eapply Forall2_set_nth; [exact Hall|exact HV|]. apply shaped_replay. exact Hshc. }
          { exact Hwf. }
          { apply isuffix_length in Hsuf1. lia. }
          { apply isuffix_idepth in Hsuf1. fold W. lia. }
          { exact Hok1. }
          exists (map (at_ [m]) E1 ++ E2), cs'.
          split. { cbn [struct_loop1]. rewrite Hc, Hr1. exact Hr2. }
          split. { rewrite replay_app, (replay_child NStruct Hw E1 cs m c Hc). exact Hw2. }
          fold W in Hs2. cbn [app] in Hspec, Hs1. unfold range_events in Hs1. rewrite Hspec, Hs1, Hs2. reflexivity. }
        destruct d0 as [k|a b|m]; [cbn [targets W] in Hp; discriminate|cbn [targets W] in Hp; discriminate|].
        cbn [targets W] in Hp. destruct (nth_error ms m) as [V|] eqn:HV; [|discriminate].
        destruct (map_cons_singleton m _ p Hp) as [p' [Hp' ->]].
        cbn [no_range forallb andb] in Hnr.
        destruct (Forall2_nth ms cs m V Hall HV) as [c [Hc Hshc]].
        assert (HwfV : wf V = true) by (apply (wf_child W m V Hwf); exact HV).
        assert (Hsub : sub W [m] = Some V) by (cbn [sub child W]; rewrite HV; reflexivity).
        assert (Hde : tdepth V + idepth_items (ICons [] v tl) < d).
        { assert (tdepth V < tdepth W) by (apply (tdepth_child W m V); exact HV). cbn [idepth_items]. lia. }
        destruct (HD V c W [m] ds' p' v tl Hshc HwfV Hsub Hde Hnr Hp' Hokp) as [E1 [tok1 [Hr [HE1 [Hs1 [Hok1 Hsuf1]]]]]].
        assert (Hnext : next W [m] = cur1 (length ms) (S m)).
        { cbn [next child W]. rewrite HV. cbn [next nxt]. reflexivity. }
        rewrite Hnext in Hs1, Hok1.
        destruct (IH ms (set_nth cs m (replay c E1)) (S m) tok1) as [E2 [cs' [Hr2 [Hw2 Hs2]]]].
        { eapply Forall2_set_nth; [exact Hall|exact HV|]. apply shaped_replay. exact Hshc. }
        { exact Hwf. }
        { apply isuffix_length in Hsuf1. lia. }
        { apply isuffix_idepth in Hsuf1. fold W. lia. }
        { exact Hok1. }
        exists (map (at_ [m]) E1 ++ E2), cs'.
        split. { cbn [struct_loop1]. rewrite Hc, Hr. exact Hr2. }
        split. { rewrite replay_app, (replay_child NStruct Hw E1 cs m c Hc). exact Hw2. }
        fold W in Hs2. rewrite (spec_items_desig W _ (DField m) ds' v tl (m :: p')).
        * cbn [app] in Hs1. rewrite Hs1, Hs2. reflexivity.
        * cbn [targets W]. rewrite HV, Hp'. reflexivity.
  Qed.

  Lemma init2_array_braced : forall f e cs l rest,
    (forall s, l = ICons [] (IStr s) INil -> is_integer_elem e = false) ->
    initializer2 I2c Dc (NArray f e cs) (IList l) rest
    = match array_initializer1 I2c Dc (NArray f e cs) l with Some t' => Some (t', rest) | None => None end.
  Proof.
    intros f e cs l rest Hl. unfold initializer2.
    destruct l as [|ds v' tl]; [reflexivity|]. destruct ds as [|d0 ds']; [|reflexivity].
    destruct v' as [x|s|l']; try reflexivity. destruct tl as [|ds2 v2 tl2]; [|destruct (is_integer_elem e); reflexivity].
    rewrite (Hl s eq_refl). reflexivity.
  Qed.

  (* initializer2 one level up *)
  Lemma I2_step : I2_ok (initializer2 I2c Dc) (S d).
  Proof.
    intros W t U q v rest Hsh Hwf HW Hdep Hok.
    pose proof Hok as Hok0. rewrite (ok_at U q W v rest HW) in Hok. apply andb_prop in Hok. destruct Hok as [Hoki Hokr].
    unfold post. rewrite (spec_at U q W v rest HW).
    destruct t as [x|f e cs|cs|mem cs].
    - (* scalar *)
      apply shaped_scalar in Hsh. destruct Hsh as [k ->].
      destruct v as [e0|s|l].
      + exists [Set_ [] (Some (VExpr e0))], rest. cbn [spec_init first_leaf down fst snd] in *. rewrite app_nil_r in *.
        split; [reflexivity|]. split; [discriminate|]. split; [reflexivity|]. split; [exact Hokr|apply suf_refl].
      + cbn [ok_init sub str_ok] in Hoki. destruct s; discriminate.
      + cbn [ok_init sub] in Hoki.
        destruct l as [|ds v' tl]; [discriminate|]. destruct ds as [|d0 ds']; [|discriminate].
        destruct v' as [e0|s|l']; try discriminate. destruct tl as [|ds2 v2 tl2]; [|discriminate].
        assert (Hd : tdepth (TScalar k) + idepth_items (ICons [] (IExpr e0) INil) < d).
        { cbn [tdepth idepth_items idepth] in *. lia. }
        assert (Hok1 : ok_items U (Some q) (ICons [] (IExpr e0) INil) = true).
        { rewrite ok_items_head. cbn [ok_init ok_items]. rewrite HW. reflexivity. }
        destruct (HI2 (TScalar k) (NScalar x) U q (IExpr e0) INil ltac:(apply shaped_scalar; exists k; reflexivity) Hwf HW Hd Hok1)
          as [E [tok' [Hr [HE [Hs [_ Hsuf]]]]]].
        apply isuffix_nil in Hsuf. subst tok'.
        rewrite (spec_at U q (TScalar k) (IExpr e0) INil HW) in Hs.
        cbn [spec_init first_leaf down fst snd sub spec_items] in *. rewrite !app_nil_r in *.
        exists E, rest. split. { unfold initializer2. rewrite Hr. reflexivity. }
        split; [exact HE|]. split; [rewrite <- Hs; reflexivity|]. split; [exact Hokr|apply suf_refl].
    - (* array *)
      pose proof Hsh as Hsh0. apply shaped_array in Hsh. destruct Hsh as [-> [-> Hall]].
      set (W := TArray (Some (length cs)) e) in *.
      assert (Hw : wrapper (NArray false e)) by (left; exists e; reflexivity).
      assert (Hpos : 0 < length cs) by (cbn [wf W] in Hwf; apply andb_prop in Hwf; destruct Hwf as [Hn _]; apply Nat.ltb_lt; exact Hn).
      assert (HV : child W 0 = Some e).
      { cbn [child W in_bound]. assert (Hb : 0 <? length cs = true) by (apply Nat.ltb_lt; exact Hpos). rewrite Hb. reflexivity. }
      assert (Helide : forall v0, descends W v0 -> ok_items U (Some q) (ICons [] v0 rest) = true ->
                post U q (NArray false e cs) (Some q) (ICons [] v0 rest) rest (array_initializer2 I2c Dc (NArray false e cs) 0 (ICons [] v0 rest))).
      { intros v0 Hdesc Hokv. unfold post.
        rewrite (spec_items_descend U q W e v0 rest HW HV Hdesc).
        apply (ok_items_descend U q W e v0 rest HW HV Hdesc) in Hokv.
        assert (Hcur : cur2 U q (length cs) 0 = @Some path (q ++ [0])).
        { unfold cur2. assert (Hb : 0 <? length cs = true) by (apply Nat.ltb_lt; exact Hpos). rewrite Hb. reflexivity. }
        rewrite <- Hcur in Hokv |- *.
        assert (Hdv : tdepth W + idepth_items (ICons [] v0 rest) <= d).
        { destruct v0; cbn [idepth_items idepth] in *; try lia. contradiction. }
        destruct (loop2_ok (length cs - 0) (NArray false e) W U q Hw Hwf HW cs 0 (ICons [] v0 rest) Hsh0 eq_refl Hdv Hokv)
          as [E [cs' [tok' [Hr [Hw2 [Hs [Hok2 [Hsuf Hne]]]]]]]].
        destruct (Hne Hpos v0 rest eq_refl) as [HE Hsuf'].
        exists E, tok'. split. { unfold array_initializer2, unflex. rewrite Hr, Hw2. reflexivity. }
        split; [exact HE|]. split; [exact Hs|]. split; [exact Hok2|exact Hsuf']. }
      destruct v as [x|s|l].
      + rewrite <- (spec_at U q W (IExpr x) rest HW). apply (Helide (IExpr x) I Hok0).
      + cbn [ok_init sub] in Hoki. destruct s as [|c0 s0]; [discriminate|].
        cbn [str_ok W] in Hoki. fold W in Hoki. apply andb_prop in Hoki. destruct Hoki as [_ Hoki].
        destruct (is_char_array W) eqn:Hca.
        * (* a string literal for a character array (p14) *)
          destruct (string_fill_ok e cs (c0 :: s0) Hall Hca) as [cs' [Hsf Hrep]].
          assert (He : is_integer_elem e = true).
          { cbn [is_char_array W] in Hca. destruct e as [[|[|k]]| | |]; try discriminate. reflexivity. }
          assert (Hq : str_target W [] = []) by (cbn [str_target down_str W]; fold W; rewrite Hca; reflexivity).
          cbn [spec_init] in Hokr |- *. rewrite Hq in Hokr |- *. cbn [fst snd sub array_bound W] in Hokr |- *. rewrite app_nil_r in Hokr |- *.
          exists (string_events [] 0 (Some (length cs)) (c0 :: s0)), rest.
          split. { unfold initializer2. rewrite He. unfold string_initializer. rewrite Hsf, Hrep. reflexivity. }
          split. { cbn [string_events in_bound]. assert (Hb : 0 <? length cs = true) by (apply Nat.ltb_lt; exact Hpos). rewrite Hb. discriminate. }
          split; [reflexivity|]. split; [exact Hokr|apply suf_refl].
        * (* a string literal for the first element (p20) *)
          cbn [orb] in Hoki.
          assert (He : is_integer_elem e = false) by (destruct e; [discriminate Hoki|reflexivity|reflexivity|reflexivity]).
          rewrite <- (spec_at U q W (IStr (c0 :: s0)) rest HW).
          destruct (Helide (IStr (c0 :: s0)) Hca Hok0) as [E [tok' [Hr Hrest]]].
          exists E, tok'. split; [|exact Hrest]. unfold initializer2. rewrite He. exact Hr.
      + destruct (ok_braced_cases W l I Hoki) as [[s [-> [Hca [Hsne _]]]]|[Hokl [Hlne Hnstr]]].
        * (* { "string" } *)
          destruct (string_fill_ok e cs s Hall Hca) as [cs' [Hsf Hrep]].
          rewrite (spec_init_braced_str W s Hca) in *. cbn [fst snd array_bound W] in *. rewrite app_nil_r in *.
          assert (He : is_integer_elem e = true).
          { cbn [is_char_array W] in Hca. destruct e as [[|[|k]]| | |]; try discriminate. reflexivity. }
          exists (string_events [] 0 (Some (length cs)) s), rest.
          split. { unfold initializer2. rewrite He. unfold string_initializer. rewrite Hsf, Hrep. reflexivity. }
          split. { destruct s as [|c0 s0]; [congruence|]. cbn [string_events in_bound].
                   assert (Hb : 0 <? length cs = true) by (apply Nat.ltb_lt; exact Hpos). rewrite Hb. discriminate. }
          split; [reflexivity|]. split; [exact Hokr|apply suf_refl].
        * rewrite (spec_init_braced W l ltac:(intros k0; discriminate) Hnstr) in *. cbn [fst snd] in *. rewrite app_nil_r in *.
          assert (Hie : forall s, l = ICons [] (IStr s) INil -> is_integer_elem e = false).
          { intros s ->. rewrite ok_items_head in Hokl. apply andb_prop in Hokl. destruct Hokl as [Hs1 _].
            cbn [ok_init sub child W in_bound] in Hs1. destruct s; [discriminate|].
            assert (Hb : 0 <? length cs = true) by (apply Nat.ltb_lt; exact Hpos). rewrite Hb in Hs1.
            destruct e; [discriminate Hs1|reflexivity|reflexivity|reflexivity]. }
          assert (Hcur : cur1 (length cs) 0 = @Some path [0]).
          { unfold cur1. assert (Hb : 0 <? length cs = true) by (apply Nat.ltb_lt; exact Hpos). rewrite Hb. reflexivity. }
          rewrite <- Hcur in Hokl.
          destruct (array_loop1_ok (S (ilength l)) e (length cs) cs 0 l eq_refl Hall Hwf ltac:(lia)
                      ltac:(cbn [idepth_items idepth] in Hdep; fold W; lia) Hokl) as [E1 [cs' [Hr [Hw2 Hs]]]].
          exists (Clear [] :: E1), rest.
          split. { rewrite (init2_array_braced false e cs l rest Hie). unfold array_initializer1, unflex. rewrite Hr, Hw2. reflexivity. }
          split; [discriminate|]. split. { rewrite map_at_nil, <- Hs, Hcur. reflexivity. }
          split; [exact Hokr|apply suf_refl].
    - (* struct *)
      pose proof Hsh as Hsh0. apply shaped_struct in Hsh. destruct Hsh as [ms [-> Hall]].
      set (W := TStruct ms) in *.
      assert (Hw : wrapper NStruct) by (right; reflexivity).
      assert (Hlen : length ms = length cs) by (apply Forall2_length_sh; exact Hall).
      destruct (wf_child0 W Hwf ltac:(intros k0; discriminate)) as [V HV].
      assert (Hpos : 0 < length cs).
      { cbn [child W] in HV. assert (0 < length ms) by (apply nth_error_Some; rewrite HV; discriminate). lia. }
      assert (Helide : forall v0, descends W v0 -> ok_items U (Some q) (ICons [] v0 rest) = true ->
                post U q (NStruct cs) (Some q) (ICons [] v0 rest) rest (struct_initializer2 I2c (NStruct cs) 0 (ICons [] v0 rest))).
      { intros v0 Hdesc Hokv. unfold post.
        rewrite (spec_items_descend U q W V v0 rest HW HV Hdesc).
        apply (ok_items_descend U q W V v0 rest HW HV Hdesc) in Hokv.
        assert (Hcur : cur2 U q (length cs) 0 = @Some path (q ++ [0])).
        { unfold cur2. assert (Hb : 0 <? length cs = true) by (apply Nat.ltb_lt; exact Hpos). rewrite Hb. reflexivity. }
        rewrite <- Hcur in Hokv |- *.
        assert (Hdv : tdepth W + idepth_items (ICons [] v0 rest) <= d).
        { destruct v0; cbn [idepth_items idepth] in *; try lia. contradiction. }
        destruct (loop2_ok (length cs - 0) NStruct W U q Hw Hwf HW cs 0 (ICons [] v0 rest) Hsh0 eq_refl Hdv Hokv)
          as [E [cs' [tok' [Hr [Hw2 [Hs [Hok2 [Hsuf Hne]]]]]]]].
        destruct (Hne Hpos v0 rest eq_refl) as [HE Hsuf'].
        exists E, tok'. split. { unfold struct_initializer2. rewrite Hr, Hw2. reflexivity. }
        split; [exact HE|]. split; [exact Hs|]. split; [exact Hok2|exact Hsuf']. }
      destruct v as [x|s|l].
      + rewrite <- (spec_at U q W (IExpr x) rest HW). apply (Helide (IExpr x) I Hok0).
      + rewrite <- (spec_at U q W (IStr s) rest HW). apply (Helide (IStr s) eq_refl Hok0).
      + destruct (ok_braced_cases W l I Hoki) as [[s [_ [Hca _]]]|[Hokl [Hlne Hnstr]]]; [discriminate Hca|].
        rewrite (spec_init_braced W l ltac:(intros k0; discriminate) Hnstr) in *. cbn [fst snd] in *. rewrite app_nil_r in *.
        assert (Hcur : cur1 (length ms) 0 = @Some path [0]).
        { unfold cur1. assert (Hb : 0 <? length ms = true) by (apply Nat.ltb_lt; lia). rewrite Hb. reflexivity. }
        rewrite <- Hcur in Hokl.
        destruct (struct_loop1_ok (S (ilength l)) ms cs 0 l Hall Hwf ltac:(lia)
                    ltac:(cbn [idepth_items idepth] in Hdep; fold W; lia) Hokl) as [E1 [cs' [Hr [Hw2 Hs]]]].
        exists (Clear [] :: E1), rest.
        split. { unfold initializer2, struct_initializer1. rewrite Hr, Hw2. reflexivity. }
        split; [discriminate|]. split. { rewrite map_at_nil, <- Hs, Hcur. reflexivity. }
        split; [exact Hokr|apply suf_refl].
    - (* union *)
      pose proof Hsh as Hsh0. apply shaped_union in Hsh. destruct Hsh as [ms [-> Hall]].
      set (W := TUnion ms) in *.
      destruct (wf_child0 W Hwf ltac:(intros k0; discriminate)) as [V HV].
      assert (Helide : forall v0, descends W v0 -> ok_items U (Some q) (ICons [] v0 rest) = true ->
                post U q (NUnion mem cs) (Some q) (ICons [] v0 rest) rest
                     (match nth_error cs 0 with
                      | Some c => match I2c c v0 rest with
                                  | Some (c', tok') => Some (NUnion (Some 0) (set_nth cs 0 c'), tok')
                                  | None => None
                                  end
                      | None => None
                      end)).
      { (* no brace: the first member, from the enclosing list *)
        intros v0 Hdesc Hokv. unfold post.
        rewrite (spec_items_descend U q W V v0 rest HW HV Hdesc).
        apply (ok_items_descend U q W V v0 rest HW HV Hdesc) in Hokv.
        destruct (Forall2_nth ms cs 0 V Hall HV) as [c [Hc Hshc]].
        assert (HwfV : wf V = true) by (apply (wf_child W 0 V Hwf); exact HV).
        assert (HsubV : sub U (q ++ [0]) = Some V) by (eapply sub_snoc; eassumption).
        assert (HdV : tdepth V + idepth_items (ICons [] v0 rest) < d).
        { assert (tdepth V < tdepth W) by (apply (tdepth_child W 0 V); exact HV).
          destruct v0; cbn [idepth_items idepth] in *; try lia. contradiction. }
        destruct (HI2 V c U (q ++ [0]) v0 rest Hshc HwfV HsubV HdV Hokv) as [E1 [tok1 [Hr [HE1 [Hs1 [Hok1 Hsuf1]]]]]].
        assert (Hnext : next U (q ++ [0]) = next U q).
        { rewrite (next_snoc U q W 0 V HW HV). reflexivity. }
        rewrite Hnext in Hs1, Hok1.
        exists (map (at_ [0]) E1), tok1.
        split. { rewrite Hc, Hr. rewrite (replay_union_child E1 mem cs 0 c HE1 Hc). reflexivity. }
        split. { destruct E1; [congruence|discriminate]. }
        split. { rewrite Hs1, map_at_app. reflexivity. }
        split; [exact Hok1|exact Hsuf1]. }
      destruct v as [x|s|l].
      + rewrite <- (spec_at U q W (IExpr x) rest HW). apply (Helide (IExpr x) I Hok0).
      + rewrite <- (spec_at U q W (IStr s) rest HW). apply (Helide (IStr s) eq_refl Hok0).
      + cbn [ok_init sub W] in Hoki. fold W in Hoki.
        destruct l as [|ds v' tl]; [discriminate|]. destruct tl as [|ds2 v2 tl2]; [|discriminate].
        rewrite (spec_init_braced W _ ltac:(intros k0; discriminate) ltac:(intros s0 _; reflexivity)) in *. cbn [fst snd] in *. rewrite app_nil_r in *.
        assert (Hdl : tdepth W + idepth_items (ICons ds v' INil) < d).
        { cbn [idepth_items idepth] in Hdep. cbn [idepth_items]. lia. }
        destruct ds as [|d0 ds'].
        * destruct (Forall2_nth ms cs 0 V Hall HV) as [c [Hc Hshc]].
          assert (HwfV : wf V = true) by (apply (wf_child W 0 V Hwf); exact HV).
          assert (HsubV : sub W [0] = Some V) by (cbn [sub]; rewrite HV; reflexivity).
          assert (HdV : tdepth V + idepth_items (ICons [] v' INil) < d).
          { assert (tdepth V < tdepth W) by (apply (tdepth_child W 0 V); exact HV). lia. }
          destruct (HI2 V c W [0] v' INil Hshc HwfV HsubV HdV Hoki) as [E1 [tok1 [Hr [HE1 [Hs1 [Hok1 Hsuf1]]]]]].
          apply isuffix_nil in Hsuf1. subst tok1. rewrite spec_items_nil, app_nil_r in Hs1.
          exists (Clear [] :: map (at_ [0]) E1), rest.
          split. { unfold initializer2, union_initializer. rewrite Hc, Hr.
                   unfold replay at 2. cbn [fold_left apply_ev ttouch]. fold (replay (NUnion mem cs) (map (at_ [0]) E1)).
                   rewrite (replay_union_child E1 mem cs 0 c HE1 Hc). reflexivity. }
          split; [discriminate|]. split. { rewrite map_at_nil, Hs1. reflexivity. }
          split; [exact Hokr|apply suf_refl].
        * destruct (ok_items_desig W _ d0 ds' v' INil Hoki) as [[p [Hp [Hnr Hokp]]]|[Hrange|Hnest]].
          2: { destruct (simple_range_array _ _ _ _ _ Hrange) as [n0 [e0 Heq]]. unfold W in Heq. discriminate Heq. }
          2: { (* { .m <plain designators> [a ... b] = v } *)
            destruct Hnest as [ds1 [a [b [p1 [n0 [e0 [-> [Hnr1 [Ht1 [Hs1' [Hr [Hoke Hoktl]]]]]]]]]]]].
            pose proof (spec_items_range_tail W (Some [0]) (d0 :: ds1) a b p1 n0 e0 v' INil Hnr1 Ht1 Hs1' Hr Hoke) as Hspec.
            destruct d0 as [k|a0 b0|m]; [cbn [targets W] in Ht1; discriminate|cbn [targets W] in Ht1; discriminate|].
            cbn [targets W] in Ht1. destruct (nth_error ms m) as [Vm|] eqn:HVm; [|discriminate].
            destruct (map_cons_singleton m _ p1 Ht1) as [p1' [Ht1' ->]].
            cbn [no_range forallb andb] in Hnr1.
            destruct (Forall2_nth ms cs m Vm Hall HVm) as [c [Hc Hshc]].
            assert (HwfV : wf Vm = true) by (apply (wf_child W m Vm Hwf); exact HVm).
            assert (HsubV : sub W [m] = Some Vm) by (cbn [sub child W]; rewrite HVm; reflexivity).
            assert (Hs1'' : sub Vm p1' = Some (TArray n0 e0)).
            { cbn [sub child W] in Hs1'. rewrite HVm in Hs1'. exact Hs1'. }
            assert (HdV : tdepth Vm + idepth_items (ICons [] v' INil) < d).
            { assert (tdepth Vm < tdepth W) by (apply (tdepth_child W m Vm); exact HVm). cbn [idepth_items] in *. lia. }
            destruct (HDr Vm c W [m] ds1 a b p1' n0 e0 v' INil Hshc HwfV HsubV HdV Hnr1 Ht1' Hs1'' Hr Hoke Hoktl)
              as [E1 [tok1 [Hr1 [HE1 [Hs1 [Hok1 Hsuf1]]]]]].
            apply isuffix_nil in Hsuf1. subst tok1. rewrite !spec_items_nil, !app_nil_r in Hs1.
            exists (Clear [] :: map (at_ [m]) E1), rest.
            split. { unfold initializer2, union_initializer. rewrite Hc, Hr1.
                     unfold replay at 2. cbn [fold_left apply_ev ttouch]. fold (replay (NUnion mem cs) (map (at_ [m]) E1)).
                     rewrite (replay_union_child E1 mem cs m c HE1 Hc). reflexivity. }
            split; [discriminate|].
            split. { rewrite map_at_nil. cbn [app] in Hspec, Hs1. unfold range_events in Hs1.
                     rewrite Hspec, spec_items_nil, app_nil_r, Hs1. reflexivity. }
            split; [exact Hokr|apply suf_refl]. }
          destruct d0 as [k|a b|m]; [cbn [targets W] in Hp; discriminate|cbn [targets W] in Hp; discriminate|].
          cbn [targets W] in Hp. destruct (nth_error ms m) as [Vm|] eqn:HVm; [|discriminate].
          destruct (map_cons_singleton m _ p Hp) as [p' [Hp' ->]].
          cbn [no_range forallb andb] in Hnr.
          destruct (Forall2_nth ms cs m Vm Hall HVm) as [c [Hc Hshc]].
          assert (HwfV : wf Vm = true) by (apply (wf_child W m Vm Hwf); exact HVm).
          assert (HsubV : sub W [m] = Some Vm) by (cbn [sub child W]; rewrite HVm; reflexivity).
          assert (HdV : tdepth Vm + idepth_items (ICons [] v' INil) < d).
          { assert (tdepth Vm < tdepth W) by (apply (tdepth_child W m Vm); exact HVm). cbn [idepth_items] in *. lia. }
          destruct (HD Vm c W [m] ds' p' v' INil Hshc HwfV HsubV HdV Hnr Hp' Hokp) as [E1 [tok1 [Hr [HE1 [Hs1 [Hok1 Hsuf1]]]]]].
          apply isuffix_nil in Hsuf1. subst tok1. rewrite spec_items_nil, app_nil_r in Hs1.
          exists (Clear [] :: map (at_ [m]) E1), rest.
          split. { unfold initializer2, union_initializer. rewrite Hc, Hr.
                   unfold replay at 2. cbn [fold_left apply_ev ttouch]. fold (replay (NUnion mem cs) (map (at_ [m]) E1)).
                   rewrite (replay_union_child E1 mem cs m c HE1 Hc). reflexivity. }
          split; [discriminate|].
          split. { rewrite map_at_nil. rewrite (spec_items_desig W _ (DField m) ds' v' INil (m :: p')).
                   - cbn [app] in Hs1. rewrite Hs1. reflexivity.
                   - cbn [targets W]. rewrite HVm, Hp'. reflexivity. }
          split; [exact Hokr|apply suf_refl].
  Qed.

  (* designation one level up *)
  Lemma D_step : D_ok (designation I2c Dc) (S d).
  Proof.
    intros W t U q ds p v rest Hsh Hwf HW Hdep Hnr Hp Hok.
    destruct ds as [|d0 ds'].
    - cbn [targets] in Hp. injection Hp as <-. rewrite app_nil_r in *. unfold designation. apply (I2_step W t U q v rest); assumption.
    - destruct t as [x|f e cs|cs|mem cs].
      + apply shaped_scalar in Hsh. destruct Hsh as [k ->]. destruct d0; cbn [targets] in Hp; discriminate.
      + (* [k] in an array, then array_initializer2 from k+1 *)
        pose proof Hsh as Hsh0. apply shaped_array in Hsh. destruct Hsh as [-> [-> Hall]].
        set (W := TArray (Some (length cs)) e) in *.
        assert (Hw : wrapper (NArray false e)) by (left; exists e; reflexivity).
        destruct d0 as [k|a b|m]; [|cbn [no_range forallb] in Hnr; discriminate|cbn [targets W] in Hp; discriminate].
        cbn [targets W in_bound] in Hp. destruct (k <? length cs) eqn:Hkb; [|discriminate].
        destruct (map_cons_singleton k _ p Hp) as [p' [Hp' ->]].
        cbn [no_range forallb andb] in Hnr.
        assert (Hk : k < length cs) by (apply Nat.ltb_lt in Hkb; lia).
        destruct (Forall_nth e cs k Hall Hk) as [c [Hc Hshc]].
        assert (HV : child W k = Some e) by (cbn [child W in_bound]; rewrite Hkb; reflexivity).
        assert (Hwfe : wf e = true) by (apply (wf_child W k e Hwf); exact HV).
        assert (HsubV : sub U (q ++ [k]) = Some e) by (eapply sub_snoc; eassumption).
        assert (Hde : tdepth e + idepth_items (ICons [] v rest) < d) by (cbn [tdepth W] in Hdep; lia).
        assert (Hok' : ok_items U (Some ((q ++ [k]) ++ p')) (ICons [] v rest) = true).
        { rewrite <- app_assoc. exact Hok. }
        destruct (HD e c U (q ++ [k]) ds' p' v rest Hshc Hwfe HsubV Hde Hnr Hp' Hok') as [E1 [tok1 [Hr [HE1 [Hs1 [Hok1 Hsuf1]]]]]].
        assert (Hdep1 : tdepth W + idepth_items tok1 <= d).
        { apply isuffix_idepth in Hsuf1. cbn [idepth_items] in Hdep. lia. }
        destruct (cont_ok (NArray false e) W U q cs k c e E1 tok1 _ rest Hw Hwf HW Hsh0 Hc HV Hshc HE1 Hs1 Hok1 Hsuf1 Hdep1)
          as [E [cs' [tok' [Hr2 [Hw2 [HE [Hs [Hok2 Hsuf]]]]]]]].
        exists E, tok'.
        split. { unfold designation. cbn [array_designator]. rewrite Hkb. replace (S k - k) with 1 by lia.
                 cbn [designate_range]. rewrite Hc, Hr. unfold array_initializer2, unflex. rewrite set_nth_length, Hr2, Hw2. reflexivity. }
        split; [exact HE|]. split. { rewrite <- Hs. rewrite <- app_assoc. reflexivity. }
        split; [exact Hok2|exact Hsuf].
      + (* .m in a struct, then struct_initializer2 from the next member *)
        pose proof Hsh as Hsh0. apply shaped_struct in Hsh. destruct Hsh as [ms [-> Hall]].
        set (W := TStruct ms) in *.
        assert (Hw : wrapper NStruct) by (right; reflexivity).
        destruct d0 as [k|a b|m]; [cbn [targets W] in Hp; discriminate|cbn [targets W] in Hp; discriminate|].
        cbn [targets W] in Hp. destruct (nth_error ms m) as [V|] eqn:HVm; [|discriminate].
        destruct (map_cons_singleton m _ p Hp) as [p' [Hp' ->]].
        cbn [no_range forallb andb] in Hnr.
        destruct (Forall2_nth ms cs m V Hall HVm) as [c [Hc Hshc]].
        assert (HV : child W m = Some V) by exact HVm.
        assert (HwfV : wf V = true) by (apply (wf_child W m V Hwf); exact HV).
        assert (HsubV : sub U (q ++ [m]) = Some V) by (eapply sub_snoc; eassumption).
        assert (Hde : tdepth V + idepth_items (ICons [] v rest) < d).
        { assert (tdepth V < tdepth W) by (apply (tdepth_child W m V); exact HV). lia. }
        assert (Hok' : ok_items U (Some ((q ++ [m]) ++ p')) (ICons [] v rest) = true).
        { rewrite <- app_assoc. exact Hok. }
        destruct (HD V c U (q ++ [m]) ds' p' v rest Hshc HwfV HsubV Hde Hnr Hp' Hok') as [E1 [tok1 [Hr [HE1 [Hs1 [Hok1 Hsuf1]]]]]].
        assert (Hdep1 : tdepth W + idepth_items tok1 <= d).
        { apply isuffix_idepth in Hsuf1. cbn [idepth_items] in Hdep. lia. }
        destruct (cont_ok NStruct W U q cs m c V E1 tok1 _ rest Hw Hwf HW Hsh0 Hc HV Hshc HE1 Hs1 Hok1 Hsuf1 Hdep1)
          as [E [cs' [tok' [Hr2 [Hw2 [HE [Hs [Hok2 Hsuf]]]]]]]].
        exists E, tok'.
        split. { unfold designation. rewrite Hc, Hr. unfold struct_initializer2. rewrite set_nth_length, Hr2, Hw2. reflexivity. }
        split; [exact HE|]. split. { rewrite <- Hs. rewrite <- app_assoc. reflexivity. }
        split; [exact Hok2|exact Hsuf].
      + (* .m in a union: that member, nothing after it *)
        apply shaped_union in Hsh. destruct Hsh as [ms [-> Hall]].
        set (W := TUnion ms) in *.
        destruct d0 as [k|a b|m]; [cbn [targets W] in Hp; discriminate|cbn [targets W] in Hp; discriminate|].
        cbn [targets W] in Hp. destruct (nth_error ms m) as [V|] eqn:HVm; [|discriminate].
        destruct (map_cons_singleton m _ p Hp) as [p' [Hp' ->]].
        cbn [no_range forallb andb] in Hnr.
        destruct (Forall2_nth ms cs m V Hall HVm) as [c [Hc Hshc]].
        assert (HV : child W m = Some V) by exact HVm.
        assert (HwfV : wf V = true) by (apply (wf_child W m V Hwf); exact HV).
        assert (HsubV : sub U (q ++ [m]) = Some V) by (eapply sub_snoc; eassumption).
        assert (Hde : tdepth V + idepth_items (ICons [] v rest) < d).
        { assert (tdepth V < tdepth W) by (apply (tdepth_child W m V); exact HV). lia. }
        assert (Hok' : ok_items U (Some ((q ++ [m]) ++ p')) (ICons [] v rest) = true).
        { rewrite <- app_assoc. exact Hok. }
        destruct (HD V c U (q ++ [m]) ds' p' v rest Hshc HwfV HsubV Hde Hnr Hp' Hok') as [E1 [tok1 [Hr [HE1 [Hs1 [Hok1 Hsuf1]]]]]].
        assert (Hnext : next U (q ++ [m]) = next U q).
        { rewrite (next_snoc U q W m V HW HV). reflexivity. }
        rewrite Hnext in Hs1, Hok1.
        exists (map (at_ [m]) E1), tok1.
        split. { unfold designation. rewrite Hc, Hr. rewrite (replay_union_child E1 mem cs m c HE1 Hc). reflexivity. }
        split. { destruct E1; [congruence|discriminate]. }
        split. { rewrite map_at_app. rewrite <- Hs1. rewrite <- app_assoc. reflexivity. }
        split; [exact Hok1|exact Hsuf1].
  Qed.
  (* an initializer consumed by the node alone: the stream behind it is handed back as it came *)
  Lemma init2_single_rest : forall W t v rest, shaped W t -> single W v = true ->
    initializer2 I2c Dc t v rest
    = match initializer2 I2c Dc t v INil with Some (t', _) => Some (t', rest) | None => None end.
  Proof.
    intros W t v rest Hsh Hs. destruct t as [x|f e cs|cs|mem cs].
    - apply shaped_scalar in Hsh. destruct Hsh as [k ->]. destruct v as [x0|s|l]; [reflexivity|discriminate Hs|].
      unfold initializer2. destruct l as [|[|d0 ds'] v' tl]; try reflexivity.
      destruct (I2c (NScalar x) v' tl) as [[t' [|ds2 v2 tl2]]|]; reflexivity.
    - apply shaped_array in Hsh. destruct Hsh as [_ [-> _]]. destruct v as [x0|s|l]; [discriminate Hs| |].
      + cbn [single is_char_array] in Hs. destruct e as [[|[|k]]| | |]; try discriminate.
        unfold initializer2. cbn [is_integer_elem]. destruct (string_initializer (NArray f (TScalar 1) cs) s); reflexivity.
      + unfold initializer2.
        destruct l as [|[|d0 ds'] [x0|s|l'] [|ds2 v2 tl2]]; destruct (is_integer_elem e);
          try (destruct (array_initializer1 I2c Dc (NArray f e cs) _); reflexivity);
          destruct (string_initializer (NArray f e cs) s); reflexivity.
    - apply shaped_struct in Hsh. destruct Hsh as [ms [-> _]]. destruct v as [x0|s|l]; [discriminate Hs|discriminate Hs|].
      unfold initializer2. destruct (struct_initializer1 I2c Dc (NStruct cs) l); reflexivity.
    - apply shaped_union in Hsh. destruct Hsh as [ms [-> _]]. destruct v as [x0|s|l]; [discriminate Hs|discriminate Hs|].
      unfold initializer2, union_initializer.
      destruct l as [|[|[k|a b|m] ds'] v' tl]; try reflexivity.
      + destruct (nth_error cs 0) as [c|]; [|reflexivity]. destruct (I2c c v' tl) as [[c' [|ds2 v2 tl2]]|]; reflexivity.
      + destruct (nth_error cs m) as [c|]; [|reflexivity]. destruct (Dc c ds' v' tl) as [[c' [|ds2 v2 tl2]]|]; reflexivity.
  Qed.

  Lemma I2_single_step : I2_single (initializer2 I2c Dc) (S d).
  Proof.
    intros W t v rest Hsh Hwf Hdep Hok Hsingle.
    rewrite (init2_single_rest W t v rest Hsh Hsingle).
    assert (Hok1 : ok_items W (Some []) (ICons [] v INil) = true) by (rewrite ok_items_head, Hok; reflexivity).
    assert (Hd1 : tdepth W + idepth_items (ICons [] v INil) < S d) by (cbn [idepth_items]; lia).
    destruct (I2_step W t W [] v INil Hsh Hwf eq_refl Hd1 Hok1) as [E [tok' [Hr [_ [Hs [_ Hsuf]]]]]].
    apply isuffix_nil in Hsuf. subst tok'.
    rewrite spec_items_head, !spec_items_nil, !app_nil_r, map_at_nil in Hs.
    rewrite Hr, Hs. reflexivity.
  Qed.

  Lemma D_single_step : D_single (designation I2c Dc) (S d).
  Proof. intros W t v rest Hsh Hwf Hdep Hok Hsingle. unfold designation. apply (I2_single_step W); assumption. Qed.
  (* designation ending in a range, one level up *)
  Lemma D_range_step : D_range_ok (designation I2c Dc) (S d).
  Proof.
    intros W t U q ds1 a b p1 n e0 v rest Hsh Hwf HW Hdep Hnr Hp Hsp Hr Hoke Hokt.
    destruct ds1 as [|d0 ds1'].
    - (* the node is the array: [a ... b] = v, then array_initializer2 from b + 1 *)
      cbn [targets] in Hp. injection Hp as <-. cbn [sub] in Hsp. injection Hsp as ->.
      cbn [app] in *. rewrite app_nil_r.
      destruct t as [x|f e cs|cs|mem cs];
        try (apply shaped_scalar in Hsh; destruct Hsh as [k Heq]; discriminate Heq);
        try (apply shaped_struct in Hsh; destruct Hsh as [ms [Heq _]]; discriminate Heq);
        try (apply shaped_union in Hsh; destruct Hsh as [ms [Heq _]]; discriminate Heq).
      pose proof Hsh as Hsh0. apply shaped_array in Hsh. destruct Hsh as [-> [Heq Hall]]. injection Heq as -> ->.
      set (W := TArray (Some (length cs)) e) in *.
      assert (Hw : wrapper (NArray false e)) by (left; exists e; reflexivity).
      pose proof Hr as Hr'. cbn [range_ok W] in Hr'. apply andb_prop in Hr'. destruct Hr' as [Hab Hsingle].
      apply andb_prop in Hab. destruct Hab as [Hle Hb]. cbn [in_bound] in Hb.
      assert (Hwfe : wf e = true) by (cbn [wf W] in Hwf; apply andb_prop in Hwf; apply Hwf).
      assert (Hdv : tdepth e + idepth v < d) by (cbn [tdepth W idepth_items] in Hdep; lia).
      pose proof Hle as Hle'. apply Nat.leb_le in Hle'. pose proof Hb as Hb'. apply Nat.ltb_lt in Hb'.
      destruct (range_fill e v rest (S b - a) a cs rest Hall Hwfe Hdv Hoke Hsingle ltac:(lia)) as [cs1 [Hfill [Hrep1 [Hall1 Hlen1]]]].
      replace (S b - a) with (S (b - a)) in Hfill by lia.
      assert (HV : child W b = Some e) by (cbn [child W in_bound]; rewrite Hb; reflexivity).
      assert (Hnext : next U (q ++ [b]) = cur2 U q (length cs1) (S b)).
      { rewrite (next_snoc U q W b e HW HV), (wrapped_nxt (NArray false e) W cs b Hw Hsh0), Hlen1. unfold cur2.
        destruct (S b <? length cs); reflexivity. }
      assert (Hsh1 : shaped W (NArray false e cs1)).
      { apply shaped_array. rewrite Hlen1. repeat split. exact Hall1. }
      rewrite Hnext in Hokt.
      assert (Hdep1 : tdepth W + idepth_items rest <= d) by (cbn [idepth_items] in Hdep; lia).
      destruct (loop2_ok (length cs1 - S b) (NArray false e) W U q Hw Hwf HW cs1 (S b) rest Hsh1 eq_refl Hdep1 Hokt)
        as [E2 [cs' [tok' [Hr2 [Hw2 [Hs2 [Hok2 [Hsuf2 _]]]]]]]].
      exists (range_events e v a b ++ E2), tok'.
      split. { unfold designation. cbn [array_designator].
               assert (Ha : a <? length cs = true) by (apply Nat.ltb_lt; lia).
               rewrite Ha, Hb, Hle. cbn [andb]. replace (S b - a) with (S (b - a)) by lia. rewrite Hfill.
               unfold array_initializer2, unflex. rewrite Hr2, Hw2, replay_app. unfold range_events. rewrite <- Hrep1. reflexivity. }
      split. { unfold range_events. replace (S b - a) with (S (b - a)) by lia. cbn [seq flat_map].
               destruct (fst (spec_init e [] v)) eqn:HX; [|discriminate].
               exfalso. apply (spec_init_nonempty e [] v Hoke). exact HX. }
      split. { rewrite Hnext, Hs2, map_app, app_assoc. reflexivity. }
      split; [exact Hok2|exact Hsuf2].
    - cbn [no_range forallb] in Hnr. apply andb_prop in Hnr. destruct Hnr as [Hd0 Hnr].
      change ((d0 :: ds1') ++ [DRange a b]) with (d0 :: (ds1' ++ [DRange a b])).
      destruct t as [x|f e cs|cs|mem cs].
      + apply shaped_scalar in Hsh. destruct Hsh as [k ->]. destruct d0; cbn [targets] in Hp; discriminate.
      + pose proof Hsh as Hsh0. apply shaped_array in Hsh. destruct Hsh as [-> [-> Hall]].
        set (W := TArray (Some (length cs)) e) in *.
        assert (Hw : wrapper (NArray false e)) by (left; exists e; reflexivity).
        destruct d0 as [k|a0 b0|m]; [|discriminate Hd0|cbn [targets W] in Hp; discriminate].
        cbn [targets W in_bound] in Hp. destruct (k <? length cs) eqn:Hkb; [|discriminate].
        destruct (map_cons_singleton k _ p1 Hp) as [p' [Hp' ->]].
        assert (Hk : k < length cs) by (apply Nat.ltb_lt in Hkb; lia).
        destruct (Forall_nth e cs k Hall Hk) as [c [Hc Hshc]].
        assert (HV : child W k = Some e) by (cbn [child W in_bound]; rewrite Hkb; reflexivity).
        assert (Hwfe : wf e = true) by (apply (wf_child W k e Hwf); exact HV).
        assert (HsubV : sub U (q ++ [k]) = Some e) by (eapply sub_snoc; eassumption).
        assert (Hsp' : sub e p' = Some (TArray n e0)) by (cbn [sub] in Hsp; rewrite HV in Hsp; exact Hsp).
        assert (Hde : tdepth e + idepth_items (ICons [] v rest) < d) by (cbn [tdepth W] in Hdep; lia).
        assert (Hokt' : ok_items U (next U ((q ++ [k]) ++ p' ++ [b])) rest = true).
        { rewrite <- app_assoc. exact Hokt. }
        destruct (HDr e c U (q ++ [k]) ds1' a b p' n e0 v rest Hshc Hwfe HsubV Hde Hnr Hp' Hsp' Hr Hoke Hokt')
          as [E1 [tok1 [Hr1 [HE1 [Hs1 [Hok1 Hsuf1]]]]]].
        assert (Hdep1 : tdepth W + idepth_items tok1 <= d).
        { apply isuffix_idepth in Hsuf1. cbn [idepth_items] in Hdep. lia. }
        destruct (cont_ok (NArray false e) W U q cs k c e E1 tok1 _ rest Hw Hwf HW Hsh0 Hc HV Hshc HE1 Hs1 Hok1 Hsuf1 Hdep1)
          as [E [cs' [tok' [Hr2 [Hw2 [HE [Hs [Hok2 Hsuf]]]]]]]].
        exists E, tok'.
        split. { unfold designation. cbn [array_designator]. rewrite Hkb. replace (S k - k) with 1 by lia.
                 cbn [designate_range]. rewrite Hc, Hr1. unfold array_initializer2, unflex. rewrite set_nth_length, Hr2, Hw2. reflexivity. }
        split; [exact HE|]. split. { rewrite <- Hs. rewrite <- !app_assoc. reflexivity. }
        split; [exact Hok2|exact Hsuf].
      + pose proof Hsh as Hsh0. apply shaped_struct in Hsh. destruct Hsh as [ms [-> Hall]].
        set (W := TStruct ms) in *.
        assert (Hw : wrapper NStruct) by (right; reflexivity).
        destruct d0 as [k|a0 b0|m]; [cbn [targets W] in Hp; discriminate|discriminate Hd0|].
        cbn [targets W] in Hp. destruct (nth_error ms m) as [V|] eqn:HVm; [|discriminate].
        destruct (map_cons_singleton m _ p1 Hp) as [p' [Hp' ->]].
        destruct (Forall2_nth ms cs m V Hall HVm) as [c [Hc Hshc]].
        assert (HV : child W m = Some V) by exact HVm.
        assert (HwfV : wf V = true) by (apply (wf_child W m V Hwf); exact HV).
        assert (HsubV : sub U (q ++ [m]) = Some V) by (eapply sub_snoc; eassumption).
        assert (Hsp' : sub V p' = Some (TArray n e0)) by (cbn [sub] in Hsp; rewrite HV in Hsp; exact Hsp).
        assert (Hde : tdepth V + idepth_items (ICons [] v rest) < d).
        { assert (tdepth V < tdepth W) by (apply (tdepth_child W m V); exact HV). lia. }
        assert (Hokt' : ok_items U (next U ((q ++ [m]) ++ p' ++ [b])) rest = true).
        { rewrite <- app_assoc. exact Hokt. }
        destruct (HDr V c U (q ++ [m]) ds1' a b p' n e0 v rest Hshc HwfV HsubV Hde Hnr Hp' Hsp' Hr Hoke Hokt')
          as [E1 [tok1 [Hr1 [HE1 [Hs1 [Hok1 Hsuf1]]]]]].
        assert (Hdep1 : tdepth W + idepth_items tok1 <= d).
        { apply isuffix_idepth in Hsuf1. cbn [idepth_items] in Hdep. lia. }
        destruct (cont_ok NStruct W U q cs m c V E1 tok1 _ rest Hw Hwf HW Hsh0 Hc HV Hshc HE1 Hs1 Hok1 Hsuf1 Hdep1)
          as [E [cs' [tok' [Hr2 [Hw2 [HE [Hs [Hok2 Hsuf]]]]]]]].
        exists E, tok'.
        split. { unfold designation. rewrite Hc, Hr1. unfold struct_initializer2. rewrite set_nth_length, Hr2, Hw2. reflexivity. }
        split; [exact HE|]. split. { rewrite <- Hs. rewrite <- !app_assoc. reflexivity. }
        split; [exact Hok2|exact Hsuf].
      + apply shaped_union in Hsh. destruct Hsh as [ms [-> Hall]].
        set (W := TUnion ms) in *.
        destruct d0 as [k|a0 b0|m]; [cbn [targets W] in Hp; discriminate|discriminate Hd0|].
        cbn [targets W] in Hp. destruct (nth_error ms m) as [V|] eqn:HVm; [|discriminate].
        destruct (map_cons_singleton m _ p1 Hp) as [p' [Hp' ->]].
        destruct (Forall2_nth ms cs m V Hall HVm) as [c [Hc Hshc]].
        assert (HV : child W m = Some V) by exact HVm.
        assert (HwfV : wf V = true) by (apply (wf_child W m V Hwf); exact HV).
        assert (HsubV : sub U (q ++ [m]) = Some V) by (eapply sub_snoc; eassumption).
        assert (Hsp' : sub V p' = Some (TArray n e0)) by (cbn [sub] in Hsp; rewrite HV in Hsp; exact Hsp).
        assert (Hde : tdepth V + idepth_items (ICons [] v rest) < d).
        { assert (tdepth V < tdepth W) by (apply (tdepth_child W m V); exact HV). lia. }
        assert (Hokt' : ok_items U (next U ((q ++ [m]) ++ p' ++ [b])) rest = true).
        { rewrite <- app_assoc. exact Hokt. }
        destruct (HDr V c U (q ++ [m]) ds1' a b p' n e0 v rest Hshc HwfV HsubV Hde Hnr Hp' Hsp' Hr Hoke Hokt')
          as [E1 [tok1 [Hr1 [HE1 [Hs1 [Hok1 Hsuf1]]]]]].
        assert (Hnext : next U (q ++ [m]) = next U q).
        { rewrite (next_snoc U q W m V HW HV). reflexivity. }
        rewrite Hnext in Hs1, Hok1.
        exists (map (at_ [m]) E1), tok1.
        split. { unfold designation. rewrite Hc, Hr1. rewrite (replay_union_child E1 mem cs m c HE1 Hc). reflexivity. }
        split. { destruct E1; [congruence|discriminate]. }
        split. { rewrite map_at_app. rewrite <- Hs1. rewrite <- !app_assoc. reflexivity. }
        split; [exact Hok1|exact Hsuf1].
  Qed.
End Level.

Theorem levels_ok : forall d,
  I2_ok (fst (level d)) d /\ D_ok (snd (level d)) d /\ I2_single (fst (level d)) d /\ D_single (snd (level d)) d /\
  D_range_ok (snd (level d)) d.
Proof.
  induction d as [|d [IHI [IHD [IHIs [IHDs IHDr]]]]].
  - repeat split; intros W t; intros; lia.
  - cbn [level]. destruct (level d) as [i2c dc]. cbn [fst snd] in *.
    split; [apply I2_step; assumption|]. split; [apply D_step; assumption|].
    split; [apply I2_single_step; assumption|]. split; [apply D_single_step; assumption|apply D_range_step; assumption].
Qed.
