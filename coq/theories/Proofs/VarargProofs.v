(* C06 / vararg: the callee of a variadic call reads with va_start + va_arg exactly the variadic
   actuals the caller passed (Model/Vararg.v against Spec/VarargSpec.v). *)
From Coq Require Import List ZArith Bool Arith Lia.
From Chibicc Require Import Model.Abi Gen.AbiConsts Model.Vararg Spec.AbiSpec Spec.VarargSpec.
Import ListNotations.
Local Open Scope Z_scope.

(* the va_list that corresponds to a caller frame: the invariant of the walk *)
Definition ap_of (fr : frame) : va_list :=
  VaList (Z.of_nat (length (fr_gp fr)) * 8) (Z.of_nat (length (fr_fp fr)) * 16 + 48)
         (16 + 8 * Z.of_nat (length (fr_stk fr))) 24.

Definition ext (a b : frame) : Prop :=
  exists g f s, fr_gp b = fr_gp a ++ g /\ fr_fp b = fr_fp a ++ f /\ fr_stk b = fr_stk a ++ s.

Definition regs_ok (fr : frame) : Prop := (length (fr_gp fr) <= 6)%nat /\ (length (fr_fp fr) <= 8)%nat.

Lemma ext_refl fr : ext fr fr.
Proof. exists [], [], []. now rewrite !app_nil_r. Qed.

Lemma ext_trans a b c : ext a b -> ext b c -> ext a c.
Proof.
  intros (g1 & f1 & s1 & Hg1 & Hf1 & Hs1) (g2 & f2 & s2 & Hg2 & Hf2 & Hs2).
  exists (g1 ++ g2), (f1 ++ f2), (s1 ++ s2).
  rewrite Hg2, Hf2, Hs2, Hg1, Hf1, Hs1, !app_assoc. auto.
Qed.

Lemma pass_one_ext fr a : ext fr (pass_one fr a).
Proof.
  destruct a as [t v]. unfold pass_one.
  destruct (caller_place _ _ _ _ _ _) as [|[gp fp|w] r].
  - exists [], [], v. cbn. rewrite !app_nil_r. repeat split; reflexivity.
  - exists (pick false (classes t) v), (pick true (classes t) v), []. cbn. rewrite app_nil_r. repeat split; reflexivity.
  - exists [], [], v. cbn. rewrite !app_nil_r. repeat split; reflexivity.
Qed.

Lemma pass_args_ext args : forall fr, ext fr (pass_args fr args).
Proof.
  induction args as [|a r IH]; intros fr; cbn [pass_args fold_left].
  - apply ext_refl.
  - eapply ext_trans; [apply pass_one_ext | apply IH].
Qed.

(* ---------- explicit forms of pass_one ---------- *)
Lemma pass_int fr x :
  pass_one fr (VInt, [x]) =
  if (length (fr_gp fr) <? 6)%nat then Frame (fr_gp fr ++ [x]) (fr_fp fr) (fr_stk fr)
  else Frame (fr_gp fr) (fr_fp fr) (fr_stk fr ++ [x]).
Proof.
  unfold pass_one. cbn [caller_place to_arg]. change GP_MAX with 6%nat.
  destruct (length (fr_gp fr) <? 6)%nat; cbn; now rewrite ?app_nil_r.
Qed.

Lemma pass_flt fr x :
  pass_one fr (VFlt, [x]) =
  if (length (fr_fp fr) <? 8)%nat then Frame (fr_gp fr) (fr_fp fr ++ [x]) (fr_stk fr)
  else Frame (fr_gp fr) (fr_fp fr) (fr_stk fr ++ [x]).
Proof.
  unfold pass_one. cbn [caller_place to_arg]. change FP_MAX with 8%nat.
  destruct (length (fr_fp fr) <? 8)%nat; cbn; now rewrite ?app_nil_r.
Qed.

Lemma pass_stack fr t v : t = VLdbl \/ (exists w, t = VBig w) ->
  pass_one fr (t, v) = Frame (fr_gp fr) (fr_fp fr) (fr_stk fr ++ v).
Proof. intros [Ht | [w Ht]]; subst t; reflexivity. Qed.

Lemma pass_small fr c1 c2 v :
  pass_one fr (VSmall c1 c2, v) =
  if ((length (fr_fp fr) + snd (small_regs c1 c2) <=? 8) && (length (fr_gp fr) + fst (small_regs c1 c2) <=? 6))%nat
  then Frame (fr_gp fr ++ pick false (classes (VSmall c1 c2)) v) (fr_fp fr ++ pick true (classes (VSmall c1 c2)) v) (fr_stk fr)
  else Frame (fr_gp fr) (fr_fp fr) (fr_stk fr ++ v).
Proof.
  unfold pass_one. cbn [caller_place to_arg]. change FP_MAX with 8%nat. change GP_MAX with 6%nat.
  destruct ((_ <=? 8)%nat && _); reflexivity.
Qed.

(* ---------- loads ---------- *)
Lemma find_gp n : (n < 6)%nat ->
  find (fun s : Z * src => fst s =? 24 + Z.of_nat n * 8) prologue_stores = Some (24 + Z.of_nat n * 8, SrcGp n).
Proof. intros Hn. do 6 (destruct n as [|n]; [reflexivity|]). lia. Qed.

Lemma find_fp n : (n < 8)%nat ->
  find (fun s : Z * src => fst s =? 24 + (Z.of_nat n * 16 + 48)) prologue_stores = Some (24 + (Z.of_nat n * 16 + 48), SrcXmm n).
Proof. intros Hn. do 8 (destruct n as [|n]; [reflexivity|]). lia. Qed.

Lemma nth_error_mid {A} (l : list A) x r : nth_error (l ++ x :: r) (length l) = Some x.
Proof. rewrite nth_error_app2 by lia. now rewrite Nat.sub_diag. Qed.

Lemma load_area_gp fin G x g : fr_gp fin = G ++ x :: g -> (length G < 6)%nat ->
  load_area fin (24 + Z.of_nat (length G) * 8) = Some x.
Proof. intros Hg Hn. unfold load_area. rewrite find_gp by exact Hn. rewrite Hg. apply nth_error_mid. Qed.

Lemma load_area_fp fin F x f : fr_fp fin = F ++ x :: f -> (length F < 8)%nat ->
  load_area fin (24 + (Z.of_nat (length F) * 16 + 48)) = Some x.
Proof. intros Hf Hn. unfold load_area. rewrite find_fp by exact Hn. rewrite Hf. apply nth_error_mid. Qed.

Lemma firstn_len_app {A} (v r : list A) : firstn (length v) (v ++ r) = v.
Proof. rewrite firstn_app, Nat.sub_diag, firstn_all. cbn. apply app_nil_r. Qed.

Lemma skipn_len_app {A} (a b : list A) : skipn (length a) (a ++ b) = b.
Proof. rewrite skipn_app, Nat.sub_diag, skipn_all. reflexivity. Qed.

Lemma mod8 k : (16 + 8 * k) mod 8 = 0.
Proof. replace (16 + 8 * k) with ((2 + k) * 8) by lia. apply Z_mod_mult. Qed.

Lemma load_stack_at fin S v s : fr_stk fin = S ++ v ++ s ->
  load_stack fin (16 + 8 * Z.of_nat (length S)) (length v) = Some v.
Proof.
  intros Hs. unfold load_stack.
  replace (16 <=? 16 + 8 * Z.of_nat (length S)) with true by (symmetry; apply Z.leb_le; lia).
  rewrite mod8.
  cbn [andb Z.eqb].
  replace (16 + 8 * Z.of_nat (length S) - 16) with (Z.of_nat (length S) * 8) by lia.
  rewrite Z_div_mult by lia. rewrite Nat2Z.id, Hs, skipn_len_app, firstn_len_app, Nat.eqb_refl. reflexivity.
Qed.

Lemma round8 k w : (16 + 8 * k + 8 * w + 7) / 8 * 8 = 16 + 8 * (k + w).
Proof.
  replace (16 + 8 * k + 8 * w + 7) with (7 + (2 + k + w) * 8) by lia.
  rewrite Z_div_plus by lia. change (7 / 8) with 0. lia.
Qed.

Lemma va_arg_mem_8 ap sz :
  va_arg_mem ap sz 8 = (PStack (overflow_arg_area ap),
                        VaList (gp_offset ap) (fp_offset ap) ((overflow_arg_area ap + sz + 7) / 8 * 8) (reg_save_area ap)).
Proof. reflexivity. Qed.

(* the overflow walker on an argument the caller put on the stack (alignment <= 8) *)
Lemma mem_step fr fin v s nw :
  fr_stk fin = fr_stk fr ++ v ++ s -> length v = nw ->
  forall p ap1, va_arg_mem (ap_of fr) (8 * Z.of_nat nw) 8 = (p, ap1) ->
  load fin p nw = Some v /\ ap1 = ap_of (Frame (fr_gp fr) (fr_fp fr) (fr_stk fr ++ v)).
Proof.
  intros Hs Hl p ap1 Hm. rewrite va_arg_mem_8 in Hm.
  assert (Hp : p = fst (p, ap1)) by reflexivity. assert (Hap : ap1 = snd (p, ap1)) by reflexivity.
  rewrite <- Hm in Hp, Hap. cbn [fst snd] in Hp, Hap. subst p ap1.
  unfold ap_of; cbn [overflow_arg_area gp_offset fp_offset reg_save_area]. split.
  - cbn [load]. subst nw. eapply load_stack_at; eassumption.
  - cbn [fr_gp fr_fp fr_stk]. rewrite round8, app_length, Nat2Z.inj_add. subst nw. f_equal; lia.
Qed.

(* ---------- one va_arg ---------- *)
Definition delivered (fr fin : frame) (t : vty) (v : list Z) : Prop :=
  va_arg fin (ap_of fr) t = (Some v, ap_of (pass_one fr (t, v))).

Lemma step_int fr fin x : regs_ok fr -> ext (pass_one fr (VInt, [x])) fin -> delivered fr fin VInt [x].
Proof.
  intros [Hg Hf] (g & f & s & Eg & Ef & Es). unfold delivered. rewrite pass_int in *.
  unfold va_arg. cbn [reg_class Z.eqb Pos.eqb]. unfold va_arg_gp. cbn [gp_offset ap_of reg_save_area].
  destruct (Nat.ltb_spec (length (fr_gp fr)) 6) as [Hlt | Hge].
  - replace (48 <=? Z.of_nat (length (fr_gp fr)) * 8) with false by (symmetry; apply Z.leb_gt; lia).
    cbn [load words]. cbn [fr_gp] in Eg. rewrite <- app_assoc in Eg. cbn [app] in Eg.
    rewrite (load_area_gp _ _ _ _ Eg Hlt). cbn [option_map]. f_equal.
    unfold ap_of. cbn [fr_gp fr_fp fr_stk gp_offset fp_offset overflow_arg_area reg_save_area]. rewrite app_length, Nat2Z.inj_add. cbn [length]. f_equal; lia.
  - replace (48 <=? Z.of_nat (length (fr_gp fr)) * 8) with true by (symmetry; apply Z.leb_le; lia).
    cbn [fr_stk] in Es. rewrite <- app_assoc in Es.
    destruct (va_arg_mem (ap_of fr) (size_of VInt) (align_of VInt)) as [p ap1] eqn:Hm.
    destruct (mem_step fr fin [x] s 1 Es eq_refl p ap1 Hm) as [Hl Ha]. cbn [words]. now rewrite Hl, Ha.
Qed.

Lemma step_flt fr fin x : regs_ok fr -> ext (pass_one fr (VFlt, [x])) fin -> delivered fr fin VFlt [x].
Proof.
  intros [Hg Hf] (g & f & s & Eg & Ef & Es). unfold delivered. rewrite pass_flt in *.
  unfold va_arg. cbn [reg_class Z.eqb Pos.eqb]. unfold va_arg_fp. cbn [fp_offset ap_of reg_save_area].
  destruct (Nat.ltb_spec (length (fr_fp fr)) 8) as [Hlt | Hge].
  - replace (176 <=? Z.of_nat (length (fr_fp fr)) * 16 + 48) with false by (symmetry; apply Z.leb_gt; lia).
    cbn [load words]. cbn [fr_fp] in Ef. rewrite <- app_assoc in Ef. cbn [app] in Ef.
    rewrite (load_area_fp _ _ _ _ Ef Hlt). cbn [option_map]. f_equal.
    unfold ap_of. cbn [fr_gp fr_fp fr_stk gp_offset fp_offset overflow_arg_area reg_save_area]. rewrite app_length, Nat2Z.inj_add. cbn [length]. f_equal; lia.
  - replace (176 <=? Z.of_nat (length (fr_fp fr)) * 16 + 48) with true by (symmetry; apply Z.leb_le; lia).
    cbn [fr_stk] in Es. rewrite <- app_assoc in Es.
    destruct (va_arg_mem (ap_of fr) (size_of VFlt) (align_of VFlt)) as [p ap1] eqn:Hm.
    destruct (mem_step fr fin [x] s 1 Es eq_refl p ap1 Hm) as [Hl Ha]. cbn [words]. now rewrite Hl, Ha.
Qed.

Lemma step_big fr fin w v : length v = w -> ext (pass_one fr (VBig w, v)) fin -> delivered fr fin (VBig w) v.
Proof.
  intros Hl (g & f & s & Eg & Ef & Es). unfold delivered.
  rewrite (pass_stack fr (VBig w) v) in * by (right; eauto).
  unfold va_arg. cbn [reg_class Z.eqb Pos.eqb].
  cbn [fr_stk] in Es. rewrite <- app_assoc in Es.
  destruct (va_arg_mem (ap_of fr) (size_of (VBig w)) (align_of (VBig w))) as [p ap1] eqn:Hm.
  destruct (mem_step fr fin v s w Es Hl p ap1 Hm) as [Hld Ha]. cbn [words]. now rewrite Hld, Ha.
Qed.

(* ---------- frames stay within the registers ---------- *)
Lemma pass_one_ok fr a : length (snd a) = words (fst a) -> regs_ok fr -> regs_ok (pass_one fr a).
Proof.
  destruct a as [t v]. cbn [fst snd]. intros Hl [Hg Hf]. unfold regs_ok.
  destruct t as [ | | |c1 c2|w].
  - destruct v as [|x [|y v]]; try discriminate Hl. rewrite pass_int.
    destruct (Nat.ltb_spec (length (fr_gp fr)) 6) as [Hlt|Hge]; cbn [fr_gp fr_fp]; rewrite ?app_length; cbn [length]; lia.
  - destruct v as [|x [|y v]]; try discriminate Hl. rewrite pass_flt.
    destruct (Nat.ltb_spec (length (fr_fp fr)) 8) as [Hlt|Hge]; cbn [fr_gp fr_fp]; rewrite ?app_length; cbn [length]; lia.
  - rewrite pass_stack by auto. cbn [fr_gp fr_fp]. lia.
  - rewrite pass_small.
    destruct (Nat.leb_spec (length (fr_fp fr) + snd (small_regs c1 c2)) 8) as [Hf1|Hf1];
      destruct (Nat.leb_spec (length (fr_gp fr) + fst (small_regs c1 c2)) 6) as [Hg1|Hg1];
      cbn [andb fr_gp fr_fp]; try lia.
    rewrite !app_length. cbn [words] in Hl.
    destruct c1, c2 as [[|]|]; destruct v as [|x [|y [|z v]]]; try discriminate Hl; cbn in *; lia.
  - rewrite pass_stack by eauto. cbn [fr_gp fr_fp]. lia.
Qed.

(* ---------- va_start: the prologue's counts are the caller's ---------- *)
Lemma named_counts ns : forall fr gp fp st, wf_args ns ->
  gp = length (fr_gp fr) -> fp = length (fr_fp fr) -> st = length (fr_stk fr) ->
  va_counts (map fst ns) (callee_place GP_MAX FP_MAX gp fp st (map to_arg (map fst ns))) gp fp (16 + 8 * Z.of_nat st)
  = (length (fr_gp (pass_args fr ns)), length (fr_fp (pass_args fr ns)), 16 + 8 * Z.of_nat (length (fr_stk (pass_args fr ns)))).
Proof.
  induction ns as [|[t v] r IH]; intros fr gp fp st Hwf Hgp Hfp Hst.
  - cbn. now subst.
  - inversion Hwf as [|a0 l0 Hl Hwf']. subst a0 l0. cbn [fst snd] in Hl.
    cbn [map fst pass_args fold_left]. fold (pass_args (pass_one fr (t, v)) r).
    assert (Hfin : forall fr' g f s0 a b c,
      g = length (fr_gp fr') -> f = length (fr_fp fr') -> s0 = length (fr_stk fr') ->
      a = g -> b = f -> c = 16 + 8 * Z.of_nat s0 ->
      va_counts (map fst r) (callee_place GP_MAX FP_MAX g f s0 (map to_arg (map fst r))) a b c =
      (length (fr_gp (pass_args fr' r)), length (fr_fp (pass_args fr' r)), 16 + 8 * Z.of_nat (length (fr_stk (pass_args fr' r))))).
    { intros fr' g f s0 a b c Hg Hf Hs Ha Hb Hc. subst a b c. now apply IH. }
    subst gp fp st.
    destruct t as [ | | |c1 c2|w].
    + destruct v as [|x [|y v]]; try discriminate Hl. rewrite pass_int.
      cbn [to_arg callee_place]. change (length (fr_gp fr) <? GP_MAX)%nat with (length (fr_gp fr) <? 6)%nat.
      destruct (length (fr_gp fr) <? 6)%nat; cbn [va_counts param_regs fst snd words];
        apply Hfin; cbn [fr_gp fr_fp fr_stk]; rewrite ?app_length; cbn [length]; lia.
    + destruct v as [|x [|y v]]; try discriminate Hl. rewrite pass_flt.
      cbn [to_arg callee_place]. change (length (fr_fp fr) <? FP_MAX)%nat with (length (fr_fp fr) <? 8)%nat.
      destruct (length (fr_fp fr) <? 8)%nat; cbn [va_counts param_regs fst snd words];
        apply Hfin; cbn [fr_gp fr_fp fr_stk]; rewrite ?app_length; cbn [length]; lia.
    + rewrite pass_stack by auto. cbn [to_arg callee_place va_counts words]. cbn [words] in Hl.
      apply Hfin; cbn [fr_gp fr_fp fr_stk]; rewrite ?app_length; lia.
    + rewrite pass_small. cbn [to_arg callee_place]. cbn [words] in Hl.
      change FP_MAX with 8%nat at 1. change GP_MAX with 6%nat at 1.
      destruct c1, c2 as [[|]|]; destruct v as [|x [|y [|z v]]]; try discriminate Hl;
        (set (sr := small_regs _ _) in *; vm_compute in sr; subst sr;
         set (pf := pick false _ _); vm_compute in pf; subst pf;
         set (pt := pick true _ _); vm_compute in pt; subst pt; cbn [fst snd words];
         destruct ((_ <=? 8)%nat && _); cbn [va_counts param_regs fst snd words];
         apply Hfin; cbn [fr_gp fr_fp fr_stk]; rewrite ?app_length; cbn [length];
         repeat (set (sr := small_regs _ _); vm_compute in sr; subst sr); cbn [fst snd]; lia).
    + rewrite pass_stack by eauto. cbn [to_arg callee_place va_counts words]. cbn [words] in Hl.
      apply Hfin; cbn [fr_gp fr_fp fr_stk]; rewrite ?app_length; lia.
Qed.

Lemma va_start_is_ap_of ns : wf_args ns -> va_start (map fst ns) = ap_of (pass_args frame0 ns).
Proof.
  intros Hwf. unfold va_start.
  pose proof (named_counts ns frame0 0%nat 0%nat 0%nat Hwf eq_refl eq_refl eq_refl) as Hc.
  change (16 + 8 * Z.of_nat 0) with 16 in Hc. rewrite Hc. unfold ap_of. f_equal; lia.
Qed.

Lemma pass_args_ok ns : forall fr, wf_args ns -> regs_ok fr -> regs_ok (pass_args fr ns).
Proof.
  induction ns as [|a r IH]; intros fr Hwf Hok; cbn [pass_args fold_left]; auto.
  inversion Hwf as [|a0 l0 Hl Hwf']. subst. apply IH; auto. apply pass_one_ok; auto.
Qed.

(* ---------- the walk over the variadic actuals ---------- *)
Section Walk.
Variable allowed : vty -> Prop.
Hypothesis step : forall fr fin t v, allowed t -> length v = words t -> regs_ok fr ->
  ext (pass_one fr (t, v)) fin -> delivered fr fin t v.

Lemma walk vs : forall fr fin, Forall (fun a => allowed (fst a)) vs -> wf_args vs -> regs_ok fr ->
  fin = pass_args fr vs ->
  fst (va_args fin (ap_of fr) (map fst vs)) = map (fun a => Some (snd a)) vs.
Proof.
  induction vs as [|[t v] r IH]; intros fr fin Hal Hwf Hok Hfin; subst fin; cbn [map va_args fst snd]; auto.
  inversion Hal as [|a0 l0 Ha Hal']. inversion Hwf as [|a1 l1 Hl Hwf']. subst a0 l0 a1 l1. cbn [fst snd] in Ha, Hl.
  assert (Hext : ext (pass_one fr (t, v)) (pass_args fr ((t, v) :: r))) by (apply (pass_args_ext r (pass_one fr (t, v)))).
  rewrite (step fr _ t v Ha Hl Hok Hext).
  specialize (IH (pass_one fr (t, v)) _ Hal' Hwf' (pass_one_ok fr (t, v) Hl Hok) eq_refl).
  change (pass_args (pass_one fr (t, v)) r) with (pass_args fr ((t, v) :: r)) in IH.
  destruct (va_args (pass_args fr ((t, v) :: r)) (ap_of (pass_one fr (t, v))) (map fst r)) as [xs ap2]. cbn [fst] in *. now rewrite IH.
Qed.

Theorem delivers_allowed named variadic :
  wf_args named -> wf_args variadic -> Forall (fun a => allowed (fst a)) variadic ->
  delivers (call_reads named variadic) variadic.
Proof.
  intros Hn Hv Hal. unfold delivers, call_reads.
  rewrite (va_start_is_ap_of named Hn).
  apply walk; auto.
  - apply pass_args_ok; auto. unfold regs_ok, frame0. cbn. lia.
  - unfold pass_args. now rewrite fold_left_app.
Qed.
End Walk.

(* ---------- stage 1: long / double ---------- *)
Definition scalar (t : vty) : Prop := t = VInt \/ t = VFlt.

Theorem vararg_scalars_delivered named variadic :
  wf_args named -> wf_args variadic -> Forall (fun a => scalar (fst a)) variadic ->
  delivers (call_reads named variadic) variadic.
Proof.
  apply delivers_allowed. intros fr fin t v [Ht | Ht] Hl Hok Hext; subst t;
    destruct v as [|x [|y v]]; try discriminate Hl.
  - now apply step_int.
  - now apply step_flt.
Qed.

(* ---------- stage 2 (part): MEMORY-class structs (alignment <= 8) among the variadic actuals ---------- *)
Definition scalar_or_big (t : vty) : Prop := t = VInt \/ t = VFlt \/ exists w, t = VBig w.

Theorem vararg_scalars_memstructs_delivered named variadic :
  wf_args named -> wf_args variadic -> Forall (fun a => scalar_or_big (fst a)) variadic ->
  delivers (call_reads named variadic) variadic.
Proof.
  apply delivers_allowed. intros fr fin t v [Ht | [Ht | [w Ht]]] Hl Hok Hext; subst t.
  - destruct v as [|x [|y v]]; try discriminate Hl. now apply step_int.
  - destruct v as [|x [|y v]]; try discriminate Hl. now apply step_flt.
  - now apply step_big.
Qed.

(* long double: the caller (push_args) packs stack arguments 8-byte wise, __va_arg_mem aligns the
   overflow pointer to 16 for it: the two sides of chibicc disagree when the long double lands on
   an odd stack word (known finding C06-stack-arg-alignment, here seen through va_arg) *)
Definition ldbl_witness_named : list (vty * list Z) := [(VInt, [1])].
Definition ldbl_witness_variadic : list (vty * list Z) :=
  [(VInt, [2]); (VInt, [3]); (VInt, [4]); (VInt, [5]); (VInt, [6]); (VInt, [7]); (VLdbl, [8; 9])].

Theorem vararg_long_double_refuted :
  exists named variadic, wf_args named /\ wf_args variadic /\ ~ delivers (call_reads named variadic) variadic.
Proof.
  exists ldbl_witness_named, ldbl_witness_variadic. split; [|split].
  - repeat constructor.
  - repeat constructor.
  - unfold delivers. vm_compute. intros H. discriminate H.
Qed.

(* when it lands on an even stack word it is delivered: e.g. as the first stack argument *)
Example vararg_long_double_even :
  call_reads [(VInt, [1])] [(VLdbl, [2; 3]); (VInt, [4]); (VLdbl, [5; 6])] = [Some [2; 3]; Some [4]; Some [5; 6]].
Proof. vm_compute. reflexivity. Qed.
