(* Completeness of mark_live: every function reachable from an always-emitted one IS marked. *)
From Chibicc Require Import Base.Mach Model.Linkage Proofs.LinkageProofs.

Section C.
Variable fs : list func.

Definition mem (n : nat) (l : list nat) : bool := existsb (Nat.eqb n) l.
Lemma mem_In n l : mem n l = true <-> In n l.
Proof. unfold mem. rewrite existsb_exists. split; [intros (x & Hx & E); apply Nat.eqb_eq in E; subst; exact Hx|intros H; exists n; split; [exact H|apply Nat.eqb_refl]]. Qed.
Lemma mem_false n l : mem n l = false <-> ~ In n l.
Proof. rewrite <- mem_In. destruct (mem n l); split; congruence. Qed.

Definition measure (live : list nat) : nat := length (filter (fun g => negb (mem (f_name g) live)) fs).

Lemma filter_len_le {A} (f g : A -> bool) l : (forall y, f y = true -> g y = true) -> (length (filter f l) <= length (filter g l))%nat.
Proof. intros H. induction l as [|a l IH]; cbn; [lia|]. destruct (f a) eqn:E; [rewrite (H _ E); cbn; lia|]. destruct (g a); cbn; lia. Qed.
Lemma filter_len_lt {A} (f g : A -> bool) l x : (forall y, f y = true -> g y = true) -> In x l -> g x = true -> f x = false ->
  (length (filter f l) < length (filter g l))%nat.
Proof.
  intros H. induction l as [|a l IH]; intros Hin Hg Hf; [destruct Hin|]. cbn [filter]. destruct Hin as [->|Hin].
  - rewrite Hg, Hf. cbn [length]. pose proof (filter_len_le f g l H). lia.
  - specialize (IH Hin Hg Hf). destruct (f a) eqn:E; [rewrite (H _ E); cbn [length]; lia|]. destruct (g a); cbn [length]; lia.
Qed.

Lemma measure_mono L L' : (forall x, In x L -> In x L') -> (measure L' <= measure L)%nat.
Proof.
  intros H. unfold measure. apply filter_len_le. intros g Hg. apply negb_true_iff in Hg. apply negb_true_iff.
  apply mem_false. apply mem_false in Hg. intros Hin. apply Hg. apply H. exact Hin.
Qed.

Lemma find_func_in n f : find_func fs n = Some f -> In f fs /\ f_name f = n.
Proof.
  induction fs as [|g r IH]; cbn; [discriminate|]. destruct (Nat.eqb_spec (f_name g) n).
  - intros H; injection H as <-. split; [left; reflexivity|assumption].
  - intros H. destruct (IH H) as [A B]. split; [right; exact A|exact B].
Qed.

Lemma measure_drop live n f : find_func fs n = Some f -> ~ In n live -> (measure (n :: live) < measure live)%nat.
Proof.
  intros Hf Hn. destruct (find_func_in _ _ Hf) as [Hin Hname]. unfold measure. apply filter_len_lt with (x := f).
  - intros g Hg. apply negb_true_iff in Hg. apply negb_true_iff. apply mem_false. apply mem_false in Hg. intros H. apply Hg. right. exact H.
  - exact Hin.
  - apply negb_true_iff. apply mem_false. rewrite Hname. exact Hn.
  - apply negb_false_iff. apply mem_In. rewrite Hname. left. reflexivity.
Qed.

Definition defined (u : nat) : Prop := exists g, find_func fs u = Some g.
Definition closed_node (R : list nat) (x : nat) : Prop :=
  forall f u, find_func fs x = Some f -> In u (f_refs f) -> defined u -> In u R.
Lemma closed_node_mono R R' x : (forall y, In y R -> In y R') -> closed_node R x -> closed_node R' x.
Proof. intros H C f u Hf Hu Hd. apply H. eapply C; eassumption. Qed.

Lemma mark_live_complete : forall fuel live n, (measure live < fuel)%nat ->
  let R := mark_live fuel fs live n in
  (defined n -> In n R) /\ (forall x, In x R -> ~ In x live -> closed_node R x).
Proof.
  induction fuel as [|fuel IH]; intros live n Hm; [lia|]. cbn zeta. cbn [mark_live].
  destruct (find_func fs n) as [f|] eqn:Ef.
  2:{ split; [intros [g Hg]; congruence|intros x Hx Hn; contradiction]. }
  change (existsb (Nat.eqb n) live) with (mem n live). destruct (mem n live) eqn:Em.
  { split; [intros _; apply mem_In; exact Em|intros x Hx Hn; contradiction]. }
  apply mem_false in Em.
  pose proof (measure_drop live n f Ef Em) as Hdrop.
  (* the fold over the references *)
  assert (G : forall refs L, (forall x, In x (n :: live) -> In x L) ->
            let R' := fold_left (fun l u => mark_live fuel fs l u) refs L in
            (forall x, In x L -> In x R') /\ (forall u, In u refs -> defined u -> In u R') /\
            (forall x, In x R' -> ~ In x L -> closed_node R' x)).
  { induction refs as [|u r IHr]; intros L HL; cbn zeta; cbn [fold_left].
    - split; [auto|]. split; [intros u []|intros x Hx Hn; contradiction].
    - assert (HmL : (measure L < fuel)%nat) by (pose proof (measure_mono (n :: live) L HL); lia).
      destruct (IH L u HmL) as [Hu Hc]. cbn zeta in Hu, Hc. set (L1 := mark_live fuel fs L u) in *.
      assert (Hmono1 : forall x, In x L -> In x L1) by (intros x Hx; apply mark_live_mono; exact Hx).
      destruct (IHr L1 ltac:(intros x Hx; apply Hmono1, HL, Hx)) as (A & B & C). cbn zeta in A, B, C.
      set (R' := fold_left (fun l u0 => mark_live fuel fs l u0) r L1) in *.
      split; [intros x Hx; apply A, Hmono1, Hx|]. split.
      + intros v [<-|Hv] Hd; [apply A, Hu, Hd|apply B; assumption].
      + intros x Hx Hn. destruct (mem x L1) eqn:E1.
        * apply mem_In in E1. eapply closed_node_mono; [exact A|]. apply Hc; assumption.
        * apply mem_false in E1. apply C; assumption. }
  destruct (G (f_refs f) (n :: live) ltac:(auto)) as (A & B & C). cbn zeta in A, B, C.
  set (R := fold_left (fun l u => mark_live fuel fs l u) (f_refs f) (n :: live)) in *.
  split; [intros _; apply A; left; reflexivity|].
  intros x Hx Hn. destruct (Nat.eq_dec x n) as [->|Hne].
  - intros f' u Hf' Hu Hd. rewrite Ef in Hf'. injection Hf' as <-. apply B; assumption.
  - apply C; [exact Hx|]. intros [E|Hin]; [congruence|contradiction].
Qed.

Lemma measure_le_length L : (measure L <= length fs)%nat.
Proof. unfold measure. induction fs as [|g r IH]; cbn; [lia|]. destruct (negb _); cbn; lia. Qed.

(* every function reachable from an always-emitted one is marked live *)
Theorem live_set_complete : NoDup (map f_name fs) -> forall m, reach fs [] m -> defined m -> In m (live_set fs).
Proof.
  intros Hnd. unfold live_set.
  set (step := fun l f => if f_root f then mark_live (S (length fs)) fs l (f_name f) else l).
  (* invariant of the outer fold: the live list is closed, and every root already processed is in it *)
  assert (Hstep_mono : forall l f x, In x l -> In x (step l f)).
  { intros l f x Hx. unfold step. destruct (f_root f); [apply mark_live_mono|]; exact Hx. }
  assert (Hfold_mono : forall l L x, In x L -> In x (fold_left step l L)).
  { induction l as [|f r IH]; intros L x Hx; cbn [fold_left]; [exact Hx|]. apply IH, Hstep_mono, Hx. }
  assert (Hclosed : forall l L, (forall x, In x L -> closed_node L x) -> forall x, In x (fold_left step l L) -> closed_node (fold_left step l L) x).
  { induction l as [|f r IH]; intros L HL x Hx; cbn [fold_left] in *; [apply HL; exact Hx|].
    apply IH; [|exact Hx]. intros y Hy. unfold step in *. destruct (f_root f); [|apply HL; exact Hy].
    destruct (mark_live_complete (S (length fs)) L (f_name f) ltac:(pose proof (measure_le_length L); lia)) as [_ Hc]. cbn zeta in Hc.
    destruct (mem y L) eqn:E.
    - apply mem_In in E. eapply closed_node_mono; [intros z Hz; apply mark_live_mono; exact Hz|apply HL; exact E].
    - apply mem_false in E. apply Hc; assumption. }
  assert (Hroots : forall l L f, In f l -> (forall g, In g l -> In g fs) -> f_root f = true -> In (f_name f) (fold_left step l L)).
  { induction l as [|g r IH]; intros L f Hin Hsub Hr; [destruct Hin|]. cbn [fold_left]. destruct Hin as [->|Hin].
    - apply Hfold_mono. unfold step. rewrite Hr.
      destruct (mark_live_complete (S (length fs)) L (f_name f) ltac:(pose proof (measure_le_length L); lia)) as [Hd _]. apply Hd.
      exists f. assert (Hf : In f fs) by (apply Hsub; left; reflexivity).
      clear - Hnd Hf. induction fs as [|h t IHt]; [destruct Hf|]. cbn in *. inversion Hnd; subst. destruct Hf as [->|Hf].
      + rewrite Nat.eqb_refl. reflexivity.
      + destruct (Nat.eqb_spec (f_name h) (f_name f)) as [E|E]; [exfalso; apply H1; rewrite E; apply in_map; exact Hf|apply IHt; assumption].
    - apply IH; [exact Hin|intros; apply Hsub; right; assumption|exact Hr]. }
  intros m Hreach. induction Hreach as [n Hn|f Hf Hr|n f u Hn IHn Hfn Hu Hdu]; intros Hd.
  - destruct Hn.
  - apply (Hroots fs [] f Hf (fun g Hg => Hg) Hr).
  - assert (In n (fold_left step fs [])) by (apply IHn; exists f; exact Hfn).
    apply (Hclosed fs [] ltac:(intros x []) n H f u Hfn Hu Hdu).
Qed.
End C.
