From Chibicc Require Import Base.Mach Model.Cond.

Section P.
Variable P : Type.
Notation line := (line P). Notation item := (item P).
Arguments If {P}. Arguments Elif {P}. Arguments Else {P}. Arguments Endif {P}. Arguments Text {P}.
Arguments T {P}. Arguments Sec {P}.

(* induction principle for the nested tree *)
Lemma item_ind2 (Q : item -> Prop) :
  (forall p, Q (T p)) ->
  (forall b body elifs els, Forall Q body -> Forall (fun e => Forall Q (snd e)) elifs ->
     match els with Some bd => Forall Q bd | None => True end -> Q (Sec b body elifs els)) ->
  forall i, Q i.
Proof.
  intros HT HS. fix IH 1. intros [p|b body elifs els]; [apply HT|]. apply HS.
  - induction body as [|i r IHr]; constructor; [apply IH|exact IHr].
  - induction elifs as [|[c bd] r IHr]; constructor; [|exact IHr]. cbn. induction bd as [|i r' IHr']; constructor; [apply IH|exact IHr'].
  - destruct els as [bd|]; [|exact I]. induction bd as [|i r IHr]; constructor; [apply IH|exact IHr].
Qed.

Definition flat_elifs (es : list (bool * list item)) : list line :=
  (fix fe (es : list (bool * list item)) : list line :=
     match es with [] => [] | (c, bd) :: r => Elif c :: flat P bd ++ fe r end) es.
Definition flat_else (els : option (list item)) : list line :=
  match els with Some bd => Else :: flat P bd | None => [] end.
Definition tail_of es els : list line := flat_elifs es ++ flat_else els ++ [Endif].

Lemma flat_item_sec b body es els : flat_item P (Sec b body es els) = If b :: flat P body ++ tail_of es els.
Proof. reflexivity. Qed.
Lemma flat_cons i r : flat P (i :: r) = flat_item P i ++ flat P r. Proof. reflexivity. Qed.
Lemma flat_elifs_cons c bd r : flat_elifs ((c, bd) :: r) = Elif c :: flat P bd ++ flat_elifs r. Proof. reflexivity. Qed.

(* skipping passes over whole sections at any depth *)
Definition skips (i : item) : Prop := forall d rest, skipd P d (flat_item P i ++ rest) = skipd P d rest.
Lemma skips_list l : Forall skips l -> forall d rest, skipd P d (flat P l ++ rest) = skipd P d rest.
Proof.
  induction 1 as [|i r Hi _ IH]; intros d rest; [reflexivity|]. rewrite flat_cons, <- app_assoc, Hi. apply IH.
Qed.
Lemma skips_all : forall i, skips i.
Proof.
  induction i as [p|b body es els Hb He Hl] using item_ind2; intros d rest; [reflexivity|].
  rewrite flat_item_sec. cbn [app skipd]. rewrite <- app_assoc, (skips_list _ Hb). unfold tail_of. rewrite <- !app_assoc.
  assert (Hes : forall rest', skipd P (S d) (flat_elifs es ++ rest') = skipd P (S d) rest').
  { clear - He. induction es as [|[c bd] r IH]; intros rest'; [reflexivity|]. inversion He; subst. rewrite flat_elifs_cons. cbn [app skipd].
    rewrite <- app_assoc, (skips_list _ H1). apply IH. exact H2. }
  rewrite Hes. destruct els as [bd|]; cbn [flat_else app skipd]; [rewrite (skips_list _ Hl)|]; reflexivity.
Qed.
Lemma skipd_flat l d rest : skipd P d (flat P l ++ rest) = skipd P d rest.
Proof. apply skips_list. apply Forall_forall. intros i _. apply skips_all. Qed.

Lemma skipd_length : forall l d, (length (skipd P d l) <= length l)%nat.
Proof.
  induction l as [|x r IH]; intros d; [cbn; lia|].
  destruct x; cbn [skipd]; try destruct d; cbn [length];
    try (pose proof (IH 0%nat)); try (pose proof (IH (S d))); try (pose proof (IH d)); try (pose proof (IH 1%nat)); try (pose proof (IH (S (S d)))); try lia.
Qed.

(* any fuel above the number of lines is as good as any other *)
Lemma fuel_enough : forall f l st r, go P f l st = Some r -> forall f2, (length l < f2)%nat -> go P f2 l st = Some r.
Proof.
  induction f as [|f IH]; intros l st r H f2 Hf; [discriminate|]. destruct f2 as [|f2]; [lia|]. cbn [go] in *.
  destruct l as [|x l]; [exact H|]. cbn [length] in Hf. pose proof (skipd_length l 0) as Hs.
  destruct x as [b|b| | |p].
  - destruct b; eapply IH; try exact H; lia.
  - destruct st as [|[[] inc] s]; try exact H; destruct (negb inc && b); eapply IH; try exact H; lia.
  - destruct st as [|[[] inc] s]; try exact H; destruct inc; eapply IH; try exact H; lia.
  - destruct st as [|x s]; [exact H|]. eapply IH; [exact H|lia].
  - destruct (go P f l st) as [r0|] eqn:E; [|discriminate]. rewrite (IH _ _ _ E f2) by lia. exact H.
Qed.

Definition runs (l : list line) (st : stack) (r : list P) : Prop := exists f, go P f l st = Some r.

Lemma runs_step l st r f : go P f l st = Some r -> runs l st r. Proof. intros H; exists f; exact H. Qed.

Ltac step := match goal with |- runs (_ :: _) _ _ => eexists (S _); cbn [go] end.

(* the rest of a section whose group has already been taken contributes nothing *)
Lemma taken_tail : forall es els c rest st r, c <> InElse -> runs rest st r ->
  runs (tail_of es els ++ rest) ((c, true) :: st) r.
Proof.
  induction es as [|[b bd] es IH]; intros els c rest st r Hc [f Hf].
  - unfold tail_of. cbn [flat_elifs app]. destruct els as [bd|]; cbn [flat_else app].
    + exists (S (S f)). cbn [go]. destruct c; try congruence; rewrite <- app_assoc, skipd_flat; cbn [app skipd go]; exact Hf.
    + exists (S f). cbn [go]. exact Hf.
  - unfold tail_of in *. rewrite flat_elifs_cons. cbn [app]. rewrite <- !app_assoc.
    destruct (IH els InElif rest st r ltac:(discriminate) (ex_intro _ f Hf)) as [f' Hf'].
    exists (S f'). cbn [go]. destruct c; try congruence; cbn [negb andb]; rewrite skipd_flat;
      (replace (skipd P 0 (flat_elifs es ++ flat_else els ++ [Endif] ++ rest)) with (flat_elifs es ++ flat_else els ++ [Endif] ++ rest)
        by (destruct es as [|[? ?] ?]; [destruct els; reflexivity|reflexivity])); rewrite !app_assoc in *; exact Hf'.
Qed.

Definition sel_elifs (es : list (bool * list item)) (els : option (list item)) : list P :=
  (fix fe (es : list (bool * list item)) : list P :=
     match es with
     | [] => match els with Some bd => select P bd | None => [] end
     | (c, bd) :: r => if c then select P bd else fe r
     end) es.

Definition item_ok (i : item) : Prop := forall rest st r, runs rest st r -> runs (flat_item P i ++ rest) st (sel_item P i ++ r).
Lemma list_ok l : Forall item_ok l -> forall rest st r, runs rest st r -> runs (flat P l ++ rest) st (select P l ++ r).
Proof.
  induction 1 as [|i l Hi _ IH]; intros rest st r Hr; [exact Hr|].
  rewrite flat_cons. unfold select. cbn [sel]. rewrite <- !app_assoc. apply Hi. apply IH. exact Hr.
Qed.

Lemma untaken_tail : forall es els, Forall (fun e => Forall item_ok (snd e)) es ->
  match els with Some bd => Forall item_ok bd | None => True end ->
  forall c rest st r, c <> InElse -> runs rest st r ->
  runs (tail_of es els ++ rest) ((c, false) :: st) (sel_elifs es els ++ r).
Proof.
  induction es as [|[b bd] es IH]; intros els He Hl c rest st r Hc Hr.
  - unfold tail_of. cbn [flat_elifs app sel_elifs]. destruct els as [bd|]; cbn [flat_else app].
    + rewrite <- app_assoc. assert (Hin : runs (Endif :: rest) ((InElse, false) :: st) r) by (destruct Hr as [f Hf]; exists (S f); cbn [go]; exact Hf).
      destruct (list_ok _ Hl _ _ _ Hin) as [f' Hf']. exists (S f'). cbn [go]. destruct c; try congruence; exact Hf'.
    + destruct Hr as [f Hf]. exists (S f). cbn [go]. exact Hf.
  - inversion He as [|? ? Hbd Hes]; subst. cbn [snd] in Hbd. unfold tail_of in *. rewrite flat_elifs_cons. cbn [app sel_elifs]. rewrite <- !app_assoc.
    destruct b.
    + pose proof (taken_tail es els InElif rest st r ltac:(discriminate) Hr) as Ht. unfold tail_of in Ht. rewrite <- !app_assoc in Ht.
      destruct (list_ok _ Hbd _ _ _ Ht) as [f' Hf']. exists (S f'). cbn [go]. destruct c; try congruence; exact Hf'.
    + destruct (IH els Hes Hl InElif rest st r ltac:(discriminate) Hr) as [f' Hf']. rewrite <- !app_assoc in Hf'.
      exists (S f'). cbn [go]. destruct c; try congruence; cbn [negb andb]; rewrite skipd_flat;
      (replace (skipd P 0 (flat_elifs es ++ flat_else els ++ [Endif] ++ rest)) with (flat_elifs es ++ flat_else els ++ [Endif] ++ rest)
        by (destruct es as [|[? ?] ?]; [destruct els; reflexivity|reflexivity])); exact Hf'.
Qed.

Lemma all_items_ok : forall i, item_ok i.
Proof.
  induction i as [p|b body es els Hb He Hl] using item_ind2; intros rest st r Hr.
  - destruct Hr as [f Hf]. exists (S f). cbn [flat_item app go]. rewrite Hf. reflexivity.
  - rewrite flat_item_sec. cbn [app]. rewrite <- app_assoc. destruct b.
    + pose proof (taken_tail es els InThen rest st r ltac:(discriminate) Hr) as Ht.
      destruct (list_ok _ Hb _ _ _ Ht) as [f' Hf']. exists (S f'). cbn [go sel_item]. exact Hf'.
    + destruct (untaken_tail es els He Hl InThen rest st r ltac:(discriminate) Hr) as [f' Hf'].
      exists (S f'). cbn [go]. rewrite skipd_flat.
      replace (skipd P 0 (tail_of es els ++ rest)) with (tail_of es els ++ rest)
        by (unfold tail_of; destruct es as [|[? ?] ?]; [destruct els; reflexivity|reflexivity]).
      exact Hf'.
Qed.

(* every well-nested directive sequence (= the flattening of a section tree): the dispatcher
   with its skip-ahead functions outputs exactly the lines of the groups C11 6.10.1 selects *)
Theorem cond_correct : forall items, run P (flat P items) = Some (select P items).
Proof.
  intros items. assert (H : runs (flat P items ++ []) [] (select P items ++ [])).
  { apply list_ok; [apply Forall_forall; intros i _; apply all_items_ok|]. exists 1%nat. reflexivity. }
  rewrite !app_nil_r in H. destruct H as [f Hf]. unfold run. eapply fuel_enough; [exact Hf|lia].
Qed.

(* a skipped group has no effect, whatever (well nested) lines it contains *)
Theorem skipped_group_irrelevant : forall body1 body2 es els rest,
  run P (flat P (Sec false body1 es els :: rest)) = run P (flat P (Sec false body2 es els :: rest)).
Proof. intros. rewrite !cond_correct. reflexivity. Qed.

(* at most one group of a section is processed: the first whose condition holds *)
Theorem first_true_group : forall body es els rest,
  run P (flat P (Sec true body es els :: rest)) = Some (select P body ++ select P rest).
Proof. intros. rewrite cond_correct. reflexivity. Qed.
End P.
