From Coq Require Import List NArith Bool Permutation.
From Chibicc Require Import Model.Declspec Gen.DeclspecTable Spec.DeclspecSpec.
Import ListNotations.

(* ---------- a complete enumeration of the permutations of a list ---------- *)
Section Perms.
Variable A : Type.
Fixpoint inserts (x : A) (l : list A) : list (list A) :=
  match l with
  | [] => [[x]]
  | y :: r => (x :: y :: r) :: map (cons y) (inserts x r)
  end.
Fixpoint perms (l : list A) : list (list A) :=
  match l with
  | [] => [[]]
  | x :: r => flat_map (inserts x) (perms r)
  end.

Lemma in_inserts x l1 l2 : In (l1 ++ x :: l2) (inserts x (l1 ++ l2)).
Proof.
  induction l1 as [|y l1 IH]; simpl.
  - destruct l2; simpl; auto.
  - right. apply in_map. exact IH.
Qed.

Lemma perms_complete : forall l l', Permutation l' l -> In l' (perms l).
Proof.
  induction l as [|x r IH]; intros l' H.
  - apply Permutation_sym, Permutation_nil in H. subst. simpl. auto.
  - destruct (Permutation_vs_cons_inv H) as [l1 [l2 E]]. subst l'.
    apply Permutation_sym, Permutation_cons_app_inv, Permutation_sym in H.
    simpl. apply in_flat_map. exists (l1 ++ l2). split; [apply IH; exact H|apply in_inserts].
Qed.
End Perms.

(* ---------- the loop ignores the other declaration specifiers ---------- *)
Definition kws (ts : list dtok) : list kw :=
  flat_map (fun t => match t with TKw k => [k] | TOther => [] end) ts.

Lemma ds_run_kws kop tab : forall ts c ty,
  ds_run kop tab c ty ts = ds_run kop tab c ty (map TKw (kws ts)).
Proof.
  induction ts as [|t r IH]; intros c ty; simpl; auto.
  destruct t; simpl; auto. destruct (lookup _ _); auto.
Qed.

Definition bty_eqb (a b : bty) : bool :=
  match a, b with
  | BVoid, BVoid | BBool, BBool | BChar, BChar | BUChar, BUChar | BShort, BShort | BUShort, BUShort
  | BInt, BInt | BUInt, BUInt | BLong, BLong | BULong, BULong | BFloat, BFloat | BDouble, BDouble
  | BLDouble, BLDouble => true
  | _, _ => false
  end.
Lemma bty_eqb_eq a b : bty_eqb a b = true -> a = b.
Proof. destruct a, b; simpl; intros; congruence. Qed.

Definition accepts_as (ks : list kw) (t : bty) : bool :=
  match declspec kw_op ds_table (map TKw ks) with Some t' => bty_eqb t' t | None => false end.

(* finite sweep over the regenerated table: every permutation of every 6.7.2p2 multiset *)
Definition sweep : bool :=
  forallb (fun mt => forallb (fun p => accepts_as p (snd mt)) (perms kw (fst mt))) c11_type_specifiers.

Lemma sweep_ok : sweep = true.
Proof. vm_compute. reflexivity. Qed.

Theorem declspec_any_order : forall ts m t,
  In (m, t) c11_type_specifiers -> Permutation (kws ts) m ->
  declspec kw_op ds_table ts = Some t.
Proof.
  intros ts m t Hin Hp. unfold declspec. rewrite ds_run_kws.
  pose proof sweep_ok as S. unfold sweep in S. rewrite forallb_forall in S.
  specialize (S (m, t) Hin). cbn [fst snd] in S. rewrite forallb_forall in S.
  specialize (S (kws ts) (perms_complete kw m (kws ts) Hp)).
  unfold accepts_as, declspec in S.
  destruct (ds_run kw_op ds_table 0 BInt (map TKw (kws ts))) as [t'|]; [|discriminate].
  apply bty_eqb_eq in S. congruence.
Qed.
