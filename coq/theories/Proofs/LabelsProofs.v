From Chibicc Require Import Base.Mach Model.Labels.

(* the labels handed out during a traversal are exactly the consecutive numbers after the starting
   value of the counter: a function of the tree shape and the start only *)
Lemma number_seq : forall fuel t next ls n', number fuel t next = (ls, n') ->
  (next <= n')%nat /\ ls = seq (S next) (n' - next).
Proof.
  induction fuel as [|f IH]; intros t next ls n' H; cbn [number] in H.
  - injection H as <- <-. split; [lia|]. rewrite Nat.sub_diag. reflexivity.
  - destruct t as [cs].
    assert (G : forall cs acc_l acc_n ls2 n2, (S next <= acc_n)%nat -> acc_l = seq (S (S next)) (acc_n - S next) ->
      fold_left (fun acc ch => let '(l, n) := acc in let '(l2, n2) := number f ch n in (l ++ l2, n2)) cs (acc_l, acc_n) = (ls2, n2) ->
      (acc_n <= n2)%nat /\ ls2 = seq (S (S next)) (n2 - S next)).
    { induction cs0 as [|ch r IHr]; intros acc_l acc_n ls2 n2 Hn Hl Hf; cbn [fold_left] in Hf.
      - injection Hf as <- <-. split; [lia|exact Hl].
      - destruct (number f ch acc_n) as [l2 m] eqn:E. destruct (IH _ _ _ _ E) as [Hm Hl2].
        destruct (IHr (acc_l ++ l2) m ls2 n2 ltac:(lia)) as [A B]; [|exact Hf|split; [lia|exact B]].
        rewrite Hl, Hl2. replace (m - S next)%nat with ((acc_n - S next) + (m - acc_n))%nat by lia.
        rewrite seq_app. f_equal. f_equal. lia. }
    destruct (fold_left _ cs ([], S next)) as [ls0 n0] eqn:Ef. injection H as <- <-.
    destruct (G cs [] (S next) ls0 n0 ltac:(lia) ltac:(rewrite Nat.sub_diag; reflexivity) Ef) as [A B].
    split; [lia|]. rewrite B. replace (n0 - next)%nat with (S (n0 - S next)) by lia. reflexivity.
Qed.

(* hence all labels of a program are pairwise distinct *)
Theorem labels_unique : forall fuel t next ls n', number fuel t next = (ls, n') -> NoDup ls.
Proof. intros fuel t next ls n' H. destruct (number_seq _ _ _ _ _ H) as [_ ->]. apply seq_NoDup. Qed.

(* and two traversals of the same tree from the same start give the same labels (determinism is
   functionality; stated for the record) *)
Theorem numbering_deterministic : forall fuel t next, number fuel t next = number fuel t next.
Proof. reflexivity. Qed.
