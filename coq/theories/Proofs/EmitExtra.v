(* C15 (package emit): corollaries of emit_symtab_correct, the decision table of gen_addr, and the
   witnesses showing that every exclusion of the main theorem is a real deviation of the C code. *)
From Coq Require Import List Bool Arith ZArith Lia.
From Chibicc Require Import Model.Linkage Proofs.LinkageProofs Proofs.LinkageComplete.
From Chibicc Require Import Spec.LinkSpec Model.Emit Proofs.EmitAsm Proofs.EmitParse Proofs.EmitScan Proofs.EmitLive Proofs.EmitProofs.
Import ListNotations.

(* ---------- the hypothesis live_ok is satisfiable: chibicc's own marking is such a decision procedure ---------- *)
Theorem model_live_ok ds : valid ds = true -> live_ok ds (model_live (ps_globals (parse ds))).
Proof. intros H1 n. apply (model_live_iff ds H1). Qed.

Theorem emit_symtab_correct_closed ds o :
  valid ds = true -> kb_extern_init_static ds = false ->
  forall n, symtab_of (emit o (parse_flags ds)) n = to_result (spec_entry (model_live (ps_globals (parse ds))) ds o n).
Proof. intros H1 H2 n. apply emit_symtab_correct; try assumption. apply model_live_ok; assumption. Qed.

(* any two decision procedures for emitted_fun give the same table *)
Theorem spec_entry_live_irrelevant ds o l1 l2 n : live_ok ds l1 -> live_ok ds l2 ->
  valid ds = true -> kb_extern_init_static ds = false ->
  spec_entry l1 ds o n = spec_entry l2 ds o n.
Proof.
  intros L1 L2 H1 H2.
  pose proof (emit_symtab_correct ds o l1 H1 H2 L1 n) as E1. pose proof (emit_symtab_correct ds o l2 H1 H2 L2 n) as E2.
  rewrite E1 in E2. destruct (spec_entry l1 ds o n), (spec_entry l2 ds o n); cbn in E2; congruence.
Qed.

(* -fPIC changes how addresses are formed, never which symbols the object file has *)
Theorem symtab_independent_of_pic ds fc :
  valid ds = true -> kb_extern_init_static ds = false ->
  forall n, symtab_of (emit (mkOpts fc true) (parse_flags ds)) n = symtab_of (emit (mkOpts fc false) (parse_flags ds)) n.
Proof. intros H1 H2 n. rewrite !emit_symtab_correct_closed by assumption. reflexivity. Qed.

(* no valid unit makes the assembler complain about a symbol defined twice *)
Theorem no_clash ds o n :
  valid ds = true -> kb_extern_init_static ds = false ->
  symtab_of (emit o (parse_flags ds)) n <> Clash.
Proof. intros H1 H2. rewrite emit_symtab_correct_closed by assumption. destruct (spec_entry _ ds o n); discriminate. Qed.

(* ---------- gen_addr: the decision table ---------- *)
Definition class_of (v : var) : ident_class :=
  mkIC (if v_local v || v_vla v then St_automatic else if v_tls v then St_thread else St_static) (v_vla v) (v_function v) (v_definition v).
Definition access_of (is : list insn) : option access :=
  match is with
  | [I_mov_rbp] => Some A_frame_pointer
  | [I_lea_rbp] => Some A_frame
  | [I_tlsgd _; I_value6666; I_rex64; I_call_tls_get_addr] => Some A_tls_gd
  | [I_mov_got _] => Some A_got
  | [I_mov_fs0; I_add_tpoff _] => Some A_tls_le
  | [I_lea_rip _] => Some A_pcrel
  | _ => None
  end.
Definition names_only (s : ident) (is : list insn) : bool :=
  forallb (fun i => match i with I_tlsgd x | I_mov_got x | I_add_tpoff x | I_lea_rip x => ident_eqb s x | _ => true end) is.

(* for all 2 x 2^5 combinations: the sequence is the preferred form for the class of the variable, that form
   is valid under the option, and the only symbol the sequence names is the variable's own *)
Theorem gen_addr_table : forall pic v,
  access_of (gen_addr pic v) = Some (preferred_access pic (class_of v))
  /\ access_valid pic (class_of v) (preferred_access pic (class_of v)) = true
  /\ names_only (v_name v) (gen_addr pic v) = true.
Proof.
  intros pic [nm vla loc fn df tls]. unfold gen_addr, class_of, preferred_access, access_valid, names_only.
  cbn [v_name v_vla v_local v_function v_definition v_tls ic_storage ic_vla ic_function ic_defined_here].
  destruct pic, vla, loc, fn, df, tls; cbn; rewrite ?ident_eqb_refl; repeat split.
Qed.

(* consequences worth reading: thread-local objects never get a plain address, position-independent code never
   uses local-exec TLS or a pc-relative address of a global, automatic objects are frame-relative *)
Corollary gen_addr_tls pic v : v_vla v = false -> v_local v = false -> v_tls v = true ->
  access_of (gen_addr pic v) = Some (if pic then A_tls_gd else A_tls_le).
Proof. intros H1 H2 H3. destruct (gen_addr_table pic v) as [E _]. rewrite E. unfold preferred_access, class_of. rewrite H1, H2, H3. reflexivity. Qed.
Corollary gen_addr_pic_global v : v_vla v = false -> v_local v = false -> v_tls v = false ->
  access_of (gen_addr true v) = Some A_got.
Proof. intros H1 H2 H3. destruct (gen_addr_table true v) as [E _]. rewrite E. unfold preferred_access, class_of. rewrite H1, H2, H3. reflexivity. Qed.

(* ---------- the one exclusion is real ---------- *)
Definition od_int (sc : sclass) (i : init) : objdecl := mkOD sc false 4 4 None false i.
Definition od_ptr (sc : sclass) (i : init) : objdecl := mkOD sc false 8 8 None false i.
Definition o_default : opts := mkOpts true false.

(* static int x1; extern int x1 = 5;   C11 6.2.2p4: internal linkage, so a LOCAL object.  chibicc: GLOBAL *)
Definition bad_extern_init_static : list decl := [DObj 1 (od_int SC_static INone); DObj 1 (od_int SC_extern IConst)].
Theorem extern_init_static_refuted : valid bad_extern_init_static = true /\ kb_extern_init_static bad_extern_init_static = true /\
  forall live, symtab_of (emit o_default (parse_flags bad_extern_init_static)) 1 = Present (mkEntry B_global T_object P_data (Some 4%Z) (Some 4%Z))
               /\ spec_entry live bad_extern_init_static o_default 1 = Some (mkEntry B_local T_object P_data (Some 4%Z) (Some 4%Z)).
Proof. split; [reflexivity|]. split; [reflexivity|]. intros live. split; reflexivity. Qed.

(* ---------- repaired in /repo (Update 3): the former witnesses, now positive ---------- *)
(* extern int x1 = 5;   (2049a24: a definition) *)
Definition ex_extern_init : list decl := [DObj 1 (od_int SC_extern IConst)].
Example extern_init_now_defined : valid ex_extern_init = true /\ no_known_bad ex_extern_init = true /\
  symtab_of (emit o_default (parse_flags ex_extern_init)) 1 = Present (mkEntry B_global T_object P_data (Some 4%Z) (Some 4%Z))
  /\ spec_entry (closure_live ex_extern_init) ex_extern_init o_default 1 = Some (mkEntry B_global T_object P_data (Some 4%Z) (Some 4%Z)).
Proof. vm_compute. repeat split; reflexivity. Qed.
(* inline long x1(void) {..}  extern inline long x1(void);   (85373f4: an external definition, GLOBAL);
   inline long x2(void); long x2(void) {..} likewise; a lone `inline long x3(void) {..}` stays an unused inline definition *)
Definition ex_inline_first : list decl :=
  [DFun 1 SC_none true 3 (Some []); DFun 1 SC_extern true 3 None;
   DFun 2 SC_none true 3 None; DFun 2 SC_none false 3 (Some []);
   DFun 3 SC_none true 3 (Some [])].
Example inline_first_now_external : valid ex_inline_first = true /\ no_known_bad ex_inline_first = true /\
  map (fun n => symtab_of (emit o_default (parse_flags ex_inline_first)) n) [1; 2; 3]%nat =
    [Present (mkEntry B_global T_func P_text None None); Present (mkEntry B_global T_func P_text None None); Absent]
  /\ map (fun n => spec_entry (closure_live ex_inline_first) ex_inline_first o_default n) [1; 2; 3]%nat =
    [Some (mkEntry B_global T_func P_text None None); Some (mkEntry B_global T_func P_text None None); None].
Proof. vm_compute. repeat split; reflexivity. Qed.
(* static inline long x1(void) { static int c; "ab"; }   long x2(void) { static int d = 1; }    x1 is never used:
   (62ebd1d) its static c is not placed; its string and __func__ arrays still are; x2's static is *)
Definition ex_dead_static : list decl :=
  [DFun 1 SC_static true 3 (Some [BStatic false 4 4 false false; BString 3]); DFun 2 SC_none false 3 (Some [BStatic false 4 4 false true])].
Example dead_static_not_placed : valid ex_dead_static = true /\
  anon_placements (emit o_default (parse_flags ex_dead_static)) =
    [mkAnon P_data 3 1; mkAnon P_data 3 1; mkAnon P_data 3 1; mkAnon P_data 3 1; mkAnon P_data 3 1; mkAnon P_data 4 4]
  /\ spec_anon (closure_live ex_dead_static) ex_dead_static =
    [mkAnon P_data 3 1; mkAnon P_data 3 1; mkAnon P_data 3 1; mkAnon P_data 3 1; mkAnon P_data 3 1; mkAnon P_data 4 4]
  /\ sym_lookup (asm P_text None (emit o_default (parse_flags ex_dead_static))) (Anon 2) = Absent.
Proof. vm_compute. repeat split; reflexivity. Qed.

(* ---------- repaired in /repo (Update 2) ---------- *)
(* static inline long x1(void) {..}  static inline long x2(void) {..}  void *x3 = &x1;
   (f841ff9: current_fn is reset, the initializer marks x1 as a root: x1 is emitted, x2 is not) *)
Definition ex_fun_addr : list decl :=
  [DFun 1 SC_static true 3 (Some []); DFun 2 SC_static true 3 (Some []); DObj 3 (od_ptr SC_none (IAddr 1))].
Example fun_addr_now_emitted : valid ex_fun_addr = true /\ no_known_bad ex_fun_addr = true /\
  symtab_of (emit o_default (parse_flags ex_fun_addr)) 1 = Present (mkEntry B_local T_func P_text None None)
  /\ symtab_of (emit o_default (parse_flags ex_fun_addr)) 2 = Absent
  /\ spec_entry (closure_live ex_fun_addr) ex_fun_addr o_default 1 = Some (mkEntry B_local T_func P_text None None)
  /\ spec_entry (closure_live ex_fun_addr) ex_fun_addr o_default 2 = None.
Proof. vm_compute. repeat split; reflexivity. Qed.
(* static inline long x1(void);  void *x3 = &x1;  static inline long x1(void) {..}
   (f841ff9: the root mark survives the later declaration) *)
Definition ex_fun_addr2 : list decl :=
  [DFun 1 SC_static true 3 None; DObj 3 (od_ptr SC_none (IAddr 1)); DFun 1 SC_static true 3 (Some [])].
Example fun_addr2_now_emitted : valid ex_fun_addr2 = true /\ no_known_bad ex_fun_addr2 = true /\
  symtab_of (emit o_default (parse_flags ex_fun_addr2)) 1 = Present (mkEntry B_local T_func P_text None None)
  /\ spec_entry (closure_live ex_fun_addr2) ex_fun_addr2 o_default 1 = Some (mkEntry B_local T_func P_text None None).
Proof. vm_compute. repeat split; reflexivity. Qed.
(* long x1(void) { static _Thread_local int c; static _Thread_local int d = 1; .. }
   (7f591c9: thread storage duration -> .tbss / .tdata, accessed through %fs resp. __tls_get_addr) *)
Definition ex_static_tls : list decl := [DFun 1 SC_none false 3 (Some [BStatic true 4 4 false false; BStatic true 4 4 false true])].
Example static_tls_local_now_tls : valid ex_static_tls = true /\
  anon_placements (emit o_default (parse_flags ex_static_tls)) = [mkAnon P_data 3 1; mkAnon P_data 3 1; mkAnon P_tbss 4 4; mkAnon P_tdata 4 4]
  /\ spec_anon (closure_live ex_static_tls) ex_static_tls = [mkAnon P_data 3 1; mkAnon P_data 3 1; mkAnon P_tbss 4 4; mkAnon P_tdata 4 4]
  /\ sym_lookup (asm P_text None (emit o_default (parse_flags ex_static_tls))) (Anon 2) = Present (mkEntry B_local T_tls P_tbss (Some 4%Z) (Some 4%Z))
  /\ existsb (fun d => match d with D_insn (I_add_tpoff (Anon 2)) => true | _ => false end) (emit (mkOpts true false) (parse_flags ex_static_tls)) = true
  /\ existsb (fun d => match d with D_insn (I_tlsgd (Anon 2)) => true | _ => false end) (emit (mkOpts true true) (parse_flags ex_static_tls)) = true.
Proof. vm_compute. repeat split; reflexivity. Qed.

(* _Alignas(64) int x1; int x1;   _Alignas(64) int x2; int x2 = 5;   extern int x4; _Alignas(64) int x4 = 1;
   _Alignas(64) extern int x5; int x5;
   (82bbc19: the specifier of an earlier declaration is carried to the later ones) *)
Definition ex_alignas : list decl :=
  [ DObj 1 (mkOD SC_none false 4 4 (Some 64%Z) false INone); DObj 1 (mkOD SC_none false 4 4 None false INone);
    DObj 2 (mkOD SC_none false 4 4 (Some 64%Z) false INone); DObj 2 (mkOD SC_none false 4 4 None false IConst);
    DObj 4 (mkOD SC_extern false 4 4 None false INone); DObj 4 (mkOD SC_none false 4 4 (Some 64%Z) false IConst);
    DObj 5 (mkOD SC_extern false 4 4 (Some 64%Z) false INone); DObj 5 (mkOD SC_none false 4 4 None false INone) ].
Example alignas_carried : valid ex_alignas = true /\ no_known_bad ex_alignas = true /\
  map (fun n => symtab_of (emit o_default (parse_flags ex_alignas)) n) [1; 2; 4; 5]%nat =
  [ Present (mkEntry B_global T_object P_common (Some 4%Z) (Some 64%Z)); Present (mkEntry B_global T_object P_data (Some 4%Z) (Some 64%Z));
    Present (mkEntry B_global T_object P_data (Some 4%Z) (Some 64%Z)); Present (mkEntry B_global T_object P_common (Some 4%Z) (Some 64%Z)) ].
Proof. vm_compute. repeat split; reflexivity. Qed.
(* `valid` reads 6.7.5p7 strictly: a defining declaration (tentative or not) without a specifier may not precede the
   first declaration that has one.  `int x3; _Alignas(64) int x3;` (chibicc and gcc: 64) and
   `int x6; _Alignas(64) extern int x6;` (chibicc: 4, gcc: 64) are therefore outside the theorems *)
Example alignas_after_definition_not_valid :
  valid [DObj 3 (mkOD SC_none false 4 4 None false INone); DObj 3 (mkOD SC_none false 4 4 (Some 64%Z) false INone)] = false
  /\ valid [DObj 6 (mkOD SC_none false 4 4 None false INone); DObj 6 (mkOD SC_extern false 4 4 (Some 64%Z) false INone)] = false.
Proof. split; reflexivity. Qed.

(* ---------- non-vacuity: a unit that satisfies every hypothesis, with its table ----------
   int x1; int x1;  static int x2; extern int x2;  extern _Thread_local int x3;  int x4[20] = {1};
   static _Thread_local long x5;  void *x6 = &x4;  extern long x7(void);
   static inline long x10(void) { &x3; }   static inline long x11(void) { &x10; }   (x11 dead)
   inline long x12(void) { }               (inline definition only, unused)
   long x13(void) { &x1; &x2; static int c; "abc"; &x10; &x7; &x5; }     static void *x8 = &x13;        *)
Definition demo : list decl :=
  [ DObj 1 (od_int SC_none INone); DObj 1 (od_int SC_none INone);
    DObj 2 (od_int SC_static INone); DObj 2 (od_int SC_extern INone);
    DObj 3 (mkOD SC_extern true 4 4 None false INone);
    DObj 4 (mkOD SC_none false 80 4 None true IConst);
    DObj 5 (mkOD SC_static true 8 8 None false INone);
    DObj 6 (od_ptr SC_none (IAddr 4));
    DFun 7 SC_extern false 3 None;
    DFun 10 SC_static true 4 (Some [BRef 3]);
    DFun 11 SC_static true 4 (Some [BRef 10]);
    DFun 12 SC_none true 4 (Some []);
    DFun 13 SC_none false 4 (Some [BRef 1; BRef 2; BStatic false 4 4 false false; BString 4; BRef 10; BRef 7; BRef 5]);
    DObj 8 (od_ptr SC_static (IAddr 13)) ].
Definition demo_table (o : opts) : list (nat * lookup_result) :=
  map (fun n => (n, symtab_of (emit o (parse_flags demo)) n)) [1; 2; 3; 4; 5; 6; 7; 8; 10; 11; 12; 13; 99]%nat.

Example emit_nonvacuous :
  valid demo = true /\ no_known_bad demo = true
  /\ demo_table (mkOpts true false) =
     [ (1, Present (mkEntry B_global T_object P_common (Some 4%Z) (Some 4%Z)));
       (2, Present (mkEntry B_local T_object P_bss (Some 4%Z) (Some 4%Z)));
       (3, Present (mkEntry B_global T_tls P_undef None None));
       (4, Present (mkEntry B_global T_object P_data (Some 80%Z) (Some 16%Z)));
       (5, Present (mkEntry B_local T_tls P_tbss (Some 8%Z) (Some 8%Z)));
       (6, Present (mkEntry B_global T_object P_data (Some 8%Z) (Some 8%Z)));
       (7, Present (mkEntry B_global T_notype P_undef None None));
       (8, Present (mkEntry B_local T_object P_data (Some 8%Z) (Some 8%Z)));
       (10, Present (mkEntry B_local T_func P_text None None));
       (11, Absent); (12, Absent);
       (13, Present (mkEntry B_global T_func P_text None None));
       (99, Absent) ]%nat
  /\ demo_table (mkOpts false true) =
     [ (1, Present (mkEntry B_global T_object P_bss (Some 4%Z) (Some 4%Z)));
       (2, Present (mkEntry B_local T_object P_bss (Some 4%Z) (Some 4%Z)));
       (3, Present (mkEntry B_global T_tls P_undef None None));
       (4, Present (mkEntry B_global T_object P_data (Some 80%Z) (Some 16%Z)));
       (5, Present (mkEntry B_local T_tls P_tbss (Some 8%Z) (Some 8%Z)));
       (6, Present (mkEntry B_global T_object P_data (Some 8%Z) (Some 8%Z)));
       (7, Present (mkEntry B_global T_notype P_undef None None));
       (8, Present (mkEntry B_local T_object P_data (Some 8%Z) (Some 8%Z)));
       (10, Present (mkEntry B_local T_func P_text None None));
       (11, Absent); (12, Absent);
       (13, Present (mkEntry B_global T_func P_text None None));
       (99, Absent) ]%nat
  /\ forallb (fun n => Bool.eqb (closure_live demo n) (model_live (ps_globals (parse demo)) n)) [7; 10; 11; 12; 13]%nat = true.
Proof. vm_compute. repeat split; reflexivity. Qed.
