(* The host's long double carries float / double / 64-bit integer values exactly, and rounding a carried value
   to float / double is the direct IEEE conversion (no double rounding): from Flocq's real-number specification
   binary_normalize_correct.  Used by Proofs/FloatFoldProofs.v. *)
From Coq Require Import ZArith Reals Bool Lia Lra.
From Flocq Require Import Core Binary Bits.
From Chibicc Require Import Spec.C11Int Spec.C11Float Spec.C11LDouble Proofs.X86SseProofs Proofs.FloatRoundProofs.
Local Open Scope Z_scope.

(* "u is the value r (of sign s when zero or overflowing) rounded to nearest-even in the format (p, e)" *)
Definition rounds_to (p e : Z) (r : R) (s : bool) (u : binary_float p e) : Prop :=
  if Rlt_bool (Rabs (round radix2 (SpecFloat.fexp p e) ZnearestE r)) (bpow radix2 e) then
    B2R p e u = round radix2 (SpecFloat.fexp p e) ZnearestE r /\ is_finite p e u = true /\ Bsign p e u = s
  else B2FF p e u = binary_overflow p e mode_NE s.

Lemma rounds_to_inj p e r s u v : rounds_to p e r s u -> rounds_to p e r s v -> u = v.
Proof.
  unfold rounds_to. destruct (Rlt_bool _ _).
  - intros (U1 & U2 & U3) (V1 & V2 & V3). apply B2R_Bsign_inj; congruence.
  - intros U V. apply B2FF_inj. congruence.
Qed.

Lemma F2R_sign s m e : (Rcompare (F2R (Float radix2 (cond_Zopp s (Zpos m)) e)) 0 = if s then Lt else Gt)
  /\ Rlt_bool (F2R (Float radix2 (cond_Zopp s (Zpos m)) e)) 0 = s.
Proof.
  destruct s; cbn [cond_Zopp].
  - assert (H : (F2R (Float radix2 (Z.neg m) e) < 0)%R) by (apply F2R_lt_0; reflexivity).
    split; [apply Rcompare_Lt; exact H|apply Rlt_bool_true; exact H].
  - assert (H : (0 < F2R (Float radix2 (Z.pos m) e))%R) by (apply F2R_gt_0; reflexivity).
    split; [apply Rcompare_Gt; exact H|apply Rlt_bool_false; lra].
Qed.

Section Conv.
Variables p1 e1 p2 e2 : Z.
Context (Hp2 : Prec_gt_0 p2) (He2 : BinarySingleNaN.Prec_lt_emax p2 e2).
Variable nanv : binary_float p2 e2.

(* the conversion between binary formats, as Spec/C11Float.v and Spec/C11LDouble.v write it *)
Definition cv (x : binary_float p1 e1) : binary_float p2 e2 :=
  match x with
  | B754_zero _ _ s => B754_zero p2 e2 s
  | B754_infinity _ _ s => B754_infinity p2 e2 s
  | B754_nan _ _ _ _ _ => nanv
  | B754_finite _ _ s m e _ => binary_normalize p2 e2 Hp2 He2 mode_NE (cond_Zopp s (Zpos m)) e s
  end.

Lemma cv_rounds x : is_finite p1 e1 x = true -> rounds_to p2 e2 (B2R p1 e1 x) (Bsign p1 e1 x) (cv x).
Proof.
  intros F. destruct x as [s|s|s pl Hpl|s m e Hb]; try discriminate F; unfold rounds_to.
  - cbn [B2R cv Bsign]. rewrite round_0 by apply valid_rnd_N. rewrite Rabs_R0, Rlt_bool_true by apply bpow_gt_0.
    repeat split; reflexivity.
  - cbn [cv Bsign]. unfold B2R.
    pose proof (binary_normalize_correct p2 e2 Hp2 He2 mode_NE (cond_Zopp s (Zpos m)) e s) as C.
    cbn [BinarySingleNaN.round_mode] in C. destruct (F2R_sign s m e) as [S1 S2]. rewrite S1, S2 in C.
    destruct (Rlt_bool _ _); [|exact C]. destruct C as (C1 & C2 & C3). repeat split; [exact C1|exact C2|].
    rewrite C3. destruct s; reflexivity.
Qed.
End Conv.

Lemma ofint_rounds p e (Hp : Prec_gt_0 p) (He : BinarySingleNaN.Prec_lt_emax p e) z :
  rounds_to p e (IZR z) (z <? 0) (binary_normalize p e Hp He mode_NE z 0 false).
Proof.
  unfold rounds_to. pose proof (binary_normalize_correct p e Hp He mode_NE z 0 false) as C.
  assert (F : F2R (Float radix2 z 0) = IZR z) by (unfold F2R; cbn; ring). rewrite F in C.
  cbn [BinarySingleNaN.round_mode] in C.
  assert (S1 : match Rcompare (IZR z) 0 with Eq => false | Lt => true | Gt => false end = (z <? 0)).
  { destruct (Z.ltb_spec z 0) as [L|G].
    - rewrite Rcompare_Lt; [reflexivity|apply IZR_lt; exact L].
    - destruct (Z.eq_dec z 0) as [->|Nz]; [rewrite Rcompare_Eq; reflexivity|].
      rewrite Rcompare_Gt; [reflexivity|apply IZR_lt; lia]. }
  assert (S2 : Rlt_bool (IZR z) 0 = (z <? 0)).
  { destruct (Z.ltb_spec z 0) as [L|G]; [apply Rlt_bool_true, IZR_lt; exact L|apply Rlt_bool_false, IZR_le; exact G]. }
  rewrite S1, S2 in C. exact C.
Qed.

(* the instances *)
Lemma l_of_fp_cv {p e} (x : binary_float p e) : l_of_fp x = cv p e 64 16384 prec80 emax80 (proj1_sig nan80) x.
Proof. destruct x; reflexivity. Qed.
Lemma s_of_l_cv x : s_of_l x = cv 64 16384 24 128 prec32 emax32 (proj1_sig default_nan_pl32) x.
Proof. destruct x; reflexivity. Qed.
Lemma d_of_l_cv x : d_of_l x = cv 64 16384 53 1024 prec64 emax64 (proj1_sig default_nan_pl64) x.
Proof. destruct x; reflexivity. Qed.
Lemma s_of_d_cv x : s_of_d x = cv 53 1024 24 128 prec32 emax32 (proj1_sig default_nan_pl32) x.
Proof. destruct x; reflexivity. Qed.
Lemma d_of_s_cv x : d_of_s x = cv 24 128 53 1024 prec64 emax64 (proj1_sig default_nan_pl64) x.
Proof. destruct x; reflexivity. Qed.

(* a value of a smaller format is a value of a larger one *)
Lemma format_incl p1 e1 p2 e2 r : 0 < p1 -> p1 <= p2 -> e1 <= e2 ->
  generic_format radix2 (SpecFloat.fexp p1 e1) r -> generic_format radix2 (SpecFloat.fexp p2 e2) r.
Proof.
  intros P0 Hp He. apply generic_inclusion_mag. intros _. unfold SpecFloat.fexp, SpecFloat.emin. lia.
Qed.

(* an exact conversion: finite, the same real number, the same sign *)
Lemma rounds_exact p e r s u : generic_format radix2 (SpecFloat.fexp p e) r -> (Rabs r < bpow radix2 e)%R ->
  rounds_to p e r s u -> B2R p e u = r /\ is_finite p e u = true /\ Bsign p e u = s.
Proof.
  intros G B H. unfold rounds_to in H. rewrite (round_generic radix2 _ ZnearestE r G) in H.
  rewrite Rlt_bool_true in H by exact B. exact H.
Qed.

Lemma widen_exact {p e} (Hp : 0 < p) (Hp' : p <= 64) (He : e <= 16384) (x : binary_float p e) : is_finite p e x = true ->
  B2R 64 16384 (l_of_fp x) = B2R p e x /\ is_finite 64 16384 (l_of_fp x) = true /\ Bsign 64 16384 (l_of_fp x) = Bsign p e x.
Proof.
  intros F. rewrite l_of_fp_cv. apply rounds_exact; [| |apply cv_rounds; exact F].
  - apply (format_incl p e 64 16384); try assumption. apply generic_format_B2R.
  - eapply Rlt_le_trans; [apply abs_B2R_lt_emax|]. apply bpow_le. exact He.
Qed.

Lemma self_rounds p e (x : binary_float p e) : is_finite p e x = true -> rounds_to p e (B2R p e x) (Bsign p e x) x.
Proof.
  intros F. unfold rounds_to. rewrite (round_generic radix2 _ ZnearestE _ (generic_format_B2R p e x)).
  rewrite Rlt_bool_true by apply abs_B2R_lt_emax. repeat split. exact F.
Qed.

Lemma not_finite_cases {p e} (x : binary_float p e) : is_finite p e x = false ->
  (exists s, x = B754_infinity p e s) \/ is_nan p e x = true.
Proof. destruct x as [s|s|s pl Hpl|s m ex Hb]; try discriminate; intros _; [left; exists s; reflexivity|right; reflexivity]. Qed.

(* (A) a float / double survives the round trip through long double *)
Lemma s_of_l_of_fp (x : binary32) : feq (s_of_l (l_of_fp x)) x.
Proof.
  destruct (is_finite 24 128 x) eqn:F.
  - destruct (widen_exact (p:=24) (e:=128) eq_refl ltac:(lia) ltac:(lia) x F) as (R1 & F1 & S1).
    rewrite s_of_l_cv. pose proof (cv_rounds 64 16384 24 128 prec32 emax32 (proj1_sig default_nan_pl32) _ F1) as C.
    rewrite R1, S1 in C. rewrite (rounds_to_inj _ _ _ _ _ _ C (self_rounds 24 128 x F)). apply feq_refl.
  - destruct (not_finite_cases x F) as [[s ->]|N]; [reflexivity|]. destruct x; try discriminate N. reflexivity.
Qed.
Lemma d_of_l_of_fp (x : binary64) : feq (d_of_l (l_of_fp x)) x.
Proof.
  destruct (is_finite 53 1024 x) eqn:F.
  - destruct (widen_exact (p:=53) (e:=1024) eq_refl ltac:(lia) ltac:(lia) x F) as (R1 & F1 & S1).
    rewrite d_of_l_cv. pose proof (cv_rounds 64 16384 53 1024 prec64 emax64 (proj1_sig default_nan_pl64) _ F1) as C.
    rewrite R1, S1 in C. rewrite (rounds_to_inj _ _ _ _ _ _ C (self_rounds 53 1024 x F)). apply feq_refl.
  - destruct (not_finite_cases x F) as [[s ->]|N]; [reflexivity|]. destruct x; try discriminate N. reflexivity.
Qed.

(* (B) float -> long double -> double is float -> double; (C) double -> long double -> float is double -> float *)
Lemma d_of_l_of_s (x : binary32) : feq (d_of_l (l_of_fp x)) (d_of_s x).
Proof.
  destruct (is_finite 24 128 x) eqn:F.
  - destruct (widen_exact (p:=24) (e:=128) eq_refl ltac:(lia) ltac:(lia) x F) as (R1 & F1 & S1).
    rewrite d_of_l_cv, d_of_s_cv. pose proof (cv_rounds 64 16384 53 1024 prec64 emax64 (proj1_sig default_nan_pl64) _ F1) as C.
    rewrite R1, S1 in C.
    rewrite (rounds_to_inj _ _ _ _ _ _ C (cv_rounds 24 128 53 1024 prec64 emax64 (proj1_sig default_nan_pl64) x F)). apply feq_refl.
  - destruct (not_finite_cases x F) as [[s ->]|N]; [reflexivity|]. destruct x; try discriminate N. reflexivity.
Qed.
Lemma s_of_l_of_d (x : binary64) : feq (s_of_l (l_of_fp x)) (s_of_d x).
Proof.
  destruct (is_finite 53 1024 x) eqn:F.
  - destruct (widen_exact (p:=53) (e:=1024) eq_refl ltac:(lia) ltac:(lia) x F) as (R1 & F1 & S1).
    rewrite s_of_l_cv, s_of_d_cv. pose proof (cv_rounds 64 16384 24 128 prec32 emax32 (proj1_sig default_nan_pl32) _ F1) as C.
    rewrite R1, S1 in C.
    rewrite (rounds_to_inj _ _ _ _ _ _ C (cv_rounds 53 1024 24 128 prec32 emax32 (proj1_sig default_nan_pl32) x F)). apply feq_refl.
  - destruct (not_finite_cases x F) as [[s ->]|N]; [reflexivity|]. destruct x; try discriminate N. reflexivity.
Qed.

Lemma l_of_int_exact' n : Z.abs n < 2 ^ 64 ->
  B2R 64 16384 (l_of_int n) = IZR n /\ is_finite 64 16384 (l_of_int n) = true /\ Bsign 64 16384 (l_of_int n) = (n <? 0).
Proof. intros H. apply (BofZ_exact 64 16384 prec80 emax80 n H). Qed.

(* (D) a 64-bit integer -> long double -> float / double is the direct conversion: one rounding *)
Lemma s_of_l_of_int z : Z.abs z < 2 ^ 64 -> s_of_l (l_of_int z) = s_of_int z.
Proof.
  intros Hz. destruct (l_of_int_exact' z Hz) as (R1 & F1 & S1).
  rewrite s_of_l_cv. pose proof (cv_rounds 64 16384 24 128 prec32 emax32 (proj1_sig default_nan_pl32) _ F1) as C.
  rewrite R1, S1 in C. apply (rounds_to_inj _ _ _ _ _ _ C). apply ofint_rounds.
Qed.
Lemma d_of_l_of_int z : Z.abs z < 2 ^ 64 -> d_of_l (l_of_int z) = d_of_int z.
Proof.
  intros Hz. destruct (l_of_int_exact' z Hz) as (R1 & F1 & S1).
  rewrite d_of_l_cv. pose proof (cv_rounds 64 16384 53 1024 prec64 emax64 (proj1_sig default_nan_pl64) _ F1) as C.
  rewrite R1, S1 in C. apply (rounds_to_inj _ _ _ _ _ _ C). apply ofint_rounds.
Qed.

(* (E) what is observed of a carried value is what is observed of the value *)
Section Carried.
Variables p e : Z.
Hypothesis (Hp : 0 < p) (Hp' : p <= 64) (He : e <= 16384) (Hpe : BinarySingleNaN.Prec_lt_emax p e).

Lemma int_part_carried (x : binary_float p e) : int_part (l_of_fp x) = int_part x.
Proof.
  destruct (is_finite p e x) eqn:F.
  - destruct (widen_exact Hp Hp' He x F) as (R1 & F1 & S1).
    rewrite (finite_int_part 64 16384 emax80 _ F1), (finite_int_part p e Hpe x F), R1. reflexivity.
  - destruct (not_finite_cases x F) as [[s ->]|N]; [reflexivity|]. destruct x; try discriminate N. reflexivity.
Qed.

Lemma compare_fin_inf (u : binary80) s : is_finite 64 16384 u = true ->
  Bcompare 64 16384 u (B754_infinity 64 16384 s) = Some (if s then Gt else Lt)
  /\ Bcompare 64 16384 (B754_infinity 64 16384 s) u = Some (if s then Lt else Gt).
Proof. destruct u as [s'|s'|s' pl Hpl|s' m ex Hb]; try discriminate; intros _; destruct s, s'; split; reflexivity. Qed.
Lemma compare_fin_inf' (u : binary_float p e) s : is_finite p e u = true ->
  Bcompare p e u (B754_infinity p e s) = Some (if s then Gt else Lt)
  /\ Bcompare p e (B754_infinity p e s) u = Some (if s then Lt else Gt).
Proof. destruct u as [s'|s'|s' pl Hpl|s' m ex Hb]; try discriminate; intros _; destruct s, s'; split; reflexivity. Qed.

Lemma compare_carried (x y : binary_float p e) : Bcompare 64 16384 (l_of_fp x) (l_of_fp y) = Bcompare p e x y.
Proof.
  destruct (is_finite p e x) eqn:Fx, (is_finite p e y) eqn:Fy.
  - destruct (widen_exact Hp Hp' He x Fx) as (R1 & F1 & S1). destruct (widen_exact Hp Hp' He y Fy) as (R2 & F2 & S2).
    rewrite (Bcompare_correct 64 16384 _ _ F1 F2), (Bcompare_correct p e _ _ Fx Fy), R1, R2. reflexivity.
  - destruct (widen_exact Hp Hp' He x Fx) as (R1 & F1 & S1).
    destruct (not_finite_cases y Fy) as [[s ->]|N].
    + cbn [l_of_fp]. rewrite (proj1 (compare_fin_inf _ s F1)), (proj1 (compare_fin_inf' _ s Fx)). reflexivity.
    + destruct y; try discriminate N. cbn [l_of_fp]. destruct (l_of_fp x), x; reflexivity.
  - destruct (widen_exact Hp Hp' He y Fy) as (R2 & F2 & S2).
    destruct (not_finite_cases x Fx) as [[s ->]|N].
    + cbn [l_of_fp]. rewrite (proj2 (compare_fin_inf _ s F2)), (proj2 (compare_fin_inf' _ s Fy)). reflexivity.
    + destruct x; try discriminate N. cbn [l_of_fp]. destruct (l_of_fp y), y; reflexivity.
  - destruct (not_finite_cases x Fx) as [[s ->]|N], (not_finite_cases y Fy) as [[s' ->]|N'].
    + reflexivity.
    + destruct y; try discriminate N'. reflexivity.
    + destruct x; try discriminate N. reflexivity.
    + destruct x; try discriminate N. reflexivity.
Qed.

Lemma is_zero_carried (x : binary_float p e) : is_zero (l_of_fp x) = is_zero x.
Proof. unfold is_zero. change (B754_zero 64 16384 false) with (l_of_fp (B754_zero p e false)). rewrite compare_carried. reflexivity. Qed.

Lemma opp_carried nanf (x : binary_float p e) : feq (opp_l (l_of_fp x)) (l_of_fp (Bopp p e nanf x)).
Proof.
  destruct (is_finite p e x) eqn:F.
  - destruct (widen_exact Hp Hp' He x F) as (R1 & F1 & S1).
    assert (F' : is_finite p e (Bopp p e nanf x) = true) by (rewrite is_finite_Bopp; exact F).
    destruct (widen_exact Hp Hp' He _ F') as (R2 & F2 & S2).
    assert (N1 : is_nan 64 16384 (l_of_fp x) = false) by (destruct (l_of_fp x); try discriminate F1; reflexivity).
    assert (N0 : is_nan p e x = false) by (destruct x; try discriminate F; reflexivity).
    unfold opp_l. rewrite (B2R_Bsign_inj 64 16384 (Bopp 64 16384 (fun _ => nan80) (l_of_fp x)) (l_of_fp (Bopp p e nanf x))).
    + apply feq_refl.
    + rewrite is_finite_Bopp. exact F1.
    + exact F2.
    + rewrite B2R_Bopp, R1, R2, B2R_Bopp. reflexivity.
    + rewrite (Bsign_Bopp _ _ _ _ N1), S1, S2, (Bsign_Bopp _ _ _ _ N0). reflexivity.
  - destruct (not_finite_cases x F) as [[s ->]|N]; [reflexivity|]. destruct x; try discriminate N.
    apply feq_nan; [reflexivity|]. cbn [Bopp l_of_fp]. destruct (nanf _) as [y Hy]. cbn [proj1_sig]. destruct y; try discriminate Hy. reflexivity.
Qed.
End Carried.

Lemma is_zero_l_of_int z : Z.abs z < 2 ^ 64 -> is_zero (l_of_int z) = (z =? 0).
Proof.
  intros Hz. destruct (l_of_int_exact' z Hz) as (R1 & F1 & S1). unfold is_zero.
  rewrite (Bcompare_correct 64 16384 _ (B754_zero 64 16384 false) F1 eq_refl), R1. cbn [B2R].
  destruct (Z.compare_spec z 0) as [->|L|G].
  - rewrite Rcompare_Eq; reflexivity.
  - rewrite Rcompare_Lt by (apply IZR_lt; exact L). symmetry. apply Z.eqb_neq. lia.
  - rewrite Rcompare_Gt by (apply IZR_lt; exact G). symmetry. apply Z.eqb_neq. lia.
Qed.
