(* The hashmap model at the instance hashmap.c uses, and the proofs closed in Properties_C17.v *)
From Coq Require Import List NArith Bool Lia.
From Chibicc Require Import Model.Hashmap Gen.HashmapConsts Model.HashmapC
     Proofs.HashmapWalk Proofs.HashmapInv Proofs.HashmapRefine.
Import ListNotations.
Local Open Scope N_scope.

Lemma bytes_eqb_eq : forall a b, bytes_eqb a b = true <-> a = b.
Proof.
  induction a as [|x a IH]; intros [|y b]; simpl; split; intros H; try discriminate; auto.
  - apply andb_true_iff in H as [H1 H2]. apply N.eqb_eq in H1. apply IH in H2. congruence.
  - inversion H; subst. rewrite N.eqb_refl. simpl. apply IH. reflexivity.
Qed.

Definition c_lookup (m : cmap) (name : bytes) : option N := absf bytes N bytes_eqb fnv (buckets m) name.
Definition c_Inv := Inv bytes N bytes_eqb fnv hm_consts.

Lemma consts_ok : params_ok hm_consts.
Proof.
  unfold params_ok. split.
  - exists (N.log2 (init_size hm_consts)). vm_compute. reflexivity.
  - unfold int_max1. cbn [hm_consts init_size high_wm low_wm]. lia.
Qed.

Lemma C17_refines_proof : forall ops : list (op bytes N),
  N.of_nat (length ops) * 100 < 1073741824 ->
  exists m outs,
    c_run ops = Ok (m, outs) /\
    outs = spec_run bytes N bytes_eqb (fun _ => None) ops /\
    (forall name, c_lookup m name = fold_left (lastw bytes N bytes_eqb name) ops None) /\
    c_Inv m.
Proof.
  intros ops Hb.
  destruct (run_refines bytes N bytes_eqb bytes_eqb_eq fnv hm_consts consts_ok ops c_empty)
    as [m [outs [Hr [Ho [Hf HI]]]]].
  - apply inv_empty.
  - simpl. lia.
  - exists m, outs. split; [exact Hr|]. split; [exact Ho|]. split; [|exact HI].
    intros name. unfold c_lookup. rewrite Hf.
    rewrite spec_final_lastw. reflexivity.
Qed.

Lemma C17_inv_step_proof : forall m o,
  c_Inv m -> (used m + 1) * 100 < 1073741824 ->
  exists m' out, c_step m o = Ok (m', out) /\ c_Inv m' /\
    out = snd (spec_step bytes N bytes_eqb (c_lookup m) o) /\
    (forall x, c_lookup m' x = fst (spec_step bytes N bytes_eqb (c_lookup m) o) x).
Proof.
  intros m o HI Hb. unfold c_step, c_lookup. destruct o as [k v|k|k]; cbn [step spec_step fst snd].
  - destruct (put_ok bytes N bytes_eqb bytes_eqb_eq fnv hm_consts consts_ok m k v HI Hb)
      as [m' [Hp [HI' [Hab _]]]].
    rewrite Hp. cbn [bind]. exists m', None. auto.
  - rewrite (get_ok bytes N bytes_eqb fnv hm_consts m k HI). cbn [bind].
    exists m, (absf bytes N bytes_eqb fnv (buckets m) k). auto.
  - destruct (delete_ok bytes N bytes_eqb bytes_eqb_eq fnv hm_consts m k HI)
      as [m' [Hp [HI' [Hab _]]]].
    rewrite Hp. cbn [bind]. exists m', None. auto.
Qed.

(* ---------- the insertion rule of the pinned tree (first tombstone is claimed at once) ---------- *)
Section Old.
Variable K V : Type.
Variable keqb : K -> K -> bool.
Variable hash : K -> N.
Variable P : hm_params.

Fixpoint old_walk (k : K) (bs : list (slot K V)) (ps : list nat) : walkres V :=
  match ps with
  | [] => Exhausted
  | j :: ps' =>
    match nth j bs Empty with
    | Full k' v => if keqb k k' then Found j v else old_walk k bs ps'
    | Tomb => Stop j (Some j)
    | Empty => Stop j None
    end
  end.

Definition old_insert (m : hmap K V) (k : K) (v : V) : res (hmap K V) :=
  match old_walk k (buckets m) (pseq (hash k) (length (buckets m))) with
  | Found j _ => Ok {| buckets := set_nth j (Full k v) (buckets m); used := used m |}
  | Stop _ (Some t) => Ok {| buckets := set_nth t (Full k v) (buckets m); used := used m |}
  | Stop j None => Ok {| buckets := set_nth j (Full k v) (buckets m); used := used m + 1 |}
  | Exhausted => Crash Unreachable
  end.

Definition old_put (m : hmap K V) (k : K) (v : V) : res (hmap K V) :=
  bind (match buckets m with
        | [] => Ok {| buckets := repeat Empty (N.to_nat (init_size P)); used := used m |}
        | _ =>
          if high_wm P <=? (used m * 100) / capacity m then rehash K V keqb hash P m else Ok m
        end)
       (fun m1 => old_insert m1 k v).

Fixpoint old_run_from (m : hmap K V) (ops : list (op K V)) : res (list (option V)) :=
  match ops with
  | [] => Ok []
  | Put k v :: r => bind (old_put m k v) (fun m' => bind (old_run_from m' r) (fun o => Ok (None :: o)))
  | Get k :: r => bind (hm_get K V keqb hash m k) (fun x => bind (old_run_from m r) (fun o => Ok (x :: o)))
  | Del k :: r => bind (hm_delete K V keqb hash m k) (fun m' => bind (old_run_from m' r) (fun o => Ok (None :: o)))
  end.
End Old.

Definition old_run (ops : list (op bytes N)) : res (list (option N)) :=
  old_run_from bytes N bytes_eqb fnv hm_consts c_empty ops.

(* "a" and "q" share the home slot 14 of a 16-slot table *)
Definition key_a : bytes := [97]. Definition key_q : bytes := [113].
Definition defect_history : list (op bytes N) :=
  [Put key_a 1; Put key_q 2; Del key_a; Put key_q 3; Del key_q; Get key_q].

Lemma old_rule_refuted :
  exists ops : list (op bytes N),
    old_run ops <> Ok (spec_run bytes N bytes_eqb (fun _ => None) ops).
Proof. exists defect_history. vm_compute. discriminate. Qed.

(* ---------- a concrete history that collides, crosses a tombstone and grows ---------- *)
Definition demo_history : list (op bytes N) :=
  [Put key_a 1; Put key_q 2; Del key_a; Put key_q 3; Get key_a; Get key_q]
  ++ map (fun c => Put [c] (c + 1)) [98;99;100;101;102;103;104;105;106;107;108;109;110;111;112]
  ++ [Del [98]; Get [98]; Get [99]].

Definition demo_result := Eval vm_compute in c_run demo_history.
Lemma demo_run_eq : c_run demo_history = demo_result.
Proof. vm_cast_no_check (eq_refl demo_result). Qed.
Definition demo_map : cmap := Eval vm_compute in match demo_result with Ok (m, _) => m | Crash _ => c_empty end.
Definition demo_outs : list (option N) := Eval vm_compute in match demo_result with Ok (_, o) => o | Crash _ => [] end.
Lemma demo_result_eq : demo_result = Ok (demo_map, demo_outs).
Proof. vm_cast_no_check (eq_refl demo_result). Qed.

Lemma demo_history_ok :
  exists m outs, c_run demo_history = Ok (m, outs) /\ c_Inv m /\
     16 < capacity m /\ In Tomb (buckets m) /\
     N.of_nat (length demo_history) * 100 < 1073741824.
Proof.
  assert (Hb : N.of_nat (length demo_history) * 100 < 1073741824) by (vm_compute; reflexivity).
  destruct (C17_refines_proof demo_history Hb) as [m [outs [Hr [_ [_ HI]]]]].
  rewrite demo_run_eq, demo_result_eq in Hr.
  assert (Em : demo_map = m) by congruence. clear Hr.
  exists demo_map, demo_outs. split; [rewrite demo_run_eq; exact demo_result_eq|].
  split; [rewrite Em; exact HI|].
  split; [vm_compute; reflexivity|]. split; [|exact Hb].
  assert (Ht : existsb (fun s : slot bytes N => match s with Tomb => true | _ => false end) (buckets demo_map) = true)
    by (vm_compute; reflexivity).
  apply existsb_exists in Ht as [s [Hin Hs]]. destruct s; try discriminate. exact Hin.
Qed.
