(* The two places where chibicc's conversion code relies on properties of IEEE rounding itself, proved from
   Flocq's real-number specifications (binary_normalize_correct, Bplus_correct, Bminus_correct, Btrunc_correct):
   (1) unsigned 64-bit -> float / double for x >= 2^63: converting y = (x >> 1) | (x & 1) and doubling gives the
       correctly rounded x.  Flocq's round-to-nearest-even of an integer with prec + s bits is the integer
       function [rne _ s] of Model/FloatConv.v (round_int_rne), whose halving property is
       Proofs/FloatConvProofs.v (halving_is_rne_f32 / _f64); doubling is exact.
   (2) float / double -> unsigned 64-bit for x >= 2^63: x - 2^63 is exact (Sterbenz) and its integral part is
       that of x minus 2^63; below 2^63 the integral part fits a signed 64-bit register. *)
From Coq Require Import ZArith Reals Lia Lra Bool.
From Flocq Require Import Core Binary Bits Sterbenz.
From Chibicc Require Import Spec.C11Int Spec.C11Float Model.FloatConv.
Local Open Scope Z_scope.

Lemma IZR_pow2 s : 0 <= s -> IZR (2 ^ s) = bpow radix2 s.
Proof. intros H. rewrite <- (IZR_Zpower radix2 s H). reflexivity. Qed.

Lemma znearest_div n s : 1 <= s -> 0 <= n ->
  ZnearestE (IZR n * bpow radix2 (- s)) =
  (let q := n / 2 ^ s in let r := n mod 2 ^ s in let h := 2 ^ (s - 1) in
   if r <? h then q else if h <? r then q + 1 else if Z.even q then q else q + 1).
Proof.
  intros Hs Hn. cbv zeta.
  assert (P : 0 < 2 ^ s) by (apply Z.pow_pos_nonneg; lia).
  assert (Ph : 2 ^ s = 2 * 2 ^ (s - 1)) by (rewrite <- Z.pow_succ_r by lia; f_equal; lia).
  set (q := n / 2 ^ s). set (r := n mod 2 ^ s). set (h := 2 ^ (s - 1)) in *.
  assert (Dn : n = 2 ^ s * q + r) by (apply Z.div_mod; lia).
  assert (Rr : 0 <= r < 2 ^ s) by (apply Z.mod_pos_bound; lia).
  assert (X : (IZR n * bpow radix2 (- s) = IZR q + IZR r / IZR (2 ^ s))%R).
  { rewrite bpow_opp, <- IZR_pow2 by lia. rewrite Dn at 1. rewrite plus_IZR, mult_IZR.
    assert (IZR (2 ^ s) <> 0)%R by (apply not_0_IZR; lia). field. assumption. }
  assert (B : (0 <= IZR r / IZR (2 ^ s) < 1)%R).
  { assert (0 < IZR (2 ^ s))%R by (apply IZR_lt; lia). split.
    - apply Rmult_le_pos; [apply IZR_le; lia|]. left. apply Rinv_0_lt_compat. assumption.
    - apply Rmult_lt_reg_r with (IZR (2 ^ s)); [assumption|]. unfold Rdiv. rewrite Rmult_assoc, Rinv_l, Rmult_1_r, Rmult_1_l by lra.
      apply IZR_lt. lia. }
  assert (F : Zfloor (IZR n * bpow radix2 (- s)) = q).
  { rewrite X. apply Zfloor_imp. rewrite plus_IZR. simpl (IZR 1). lra. }
  unfold ZnearestE, Znearest. rewrite F.
  replace (IZR n * bpow radix2 (- s) - IZR q)%R with (IZR r / IZR (2 ^ s))%R by (rewrite X; ring).
  assert (C : forall c, Z.compare r h = c -> Rcompare (IZR r / IZR (2 ^ s)) (/ 2) = c).
  { intros c Hc. assert (0 < IZR (2 ^ s))%R by (apply IZR_lt; lia).
    assert (E2 : IZR (2 ^ s) = (2 * IZR h)%R) by (rewrite Ph, mult_IZR; reflexivity).
    assert (0 < IZR h)%R by lra.
    destruct c.
    - apply Z.compare_eq in Hc. apply Rcompare_Eq. rewrite Hc, E2. field. lra.
    - apply -> Z.compare_lt_iff in Hc. apply Rcompare_Lt. apply IZR_lt in Hc.
      apply Rmult_lt_reg_r with (IZR (2 ^ s)); [assumption|]. unfold Rdiv. rewrite Rmult_assoc, Rinv_l, Rmult_1_r by lra. rewrite E2. lra.
    - apply -> Z.compare_gt_iff in Hc. apply Rcompare_Gt. apply IZR_lt in Hc.
      apply Rmult_lt_reg_r with (IZR (2 ^ s)); [assumption|]. unfold Rdiv. rewrite Rmult_assoc, Rinv_l, Rmult_1_r by lra. rewrite E2. lra. }
  assert (Cl : 0 < r -> Zceil (IZR n * bpow radix2 (- s)) = q + 1).
  { intros Hr. rewrite <- F. apply Zceil_floor_neq. rewrite F, X. apply IZR_lt in Hr.
    assert (0 < IZR r / IZR (2 ^ s))%R. { apply Rmult_lt_0_compat; [assumption|]. apply Rinv_0_lt_compat. apply IZR_lt. lia. }
    lra. }
  assert (Hh : 0 < h) by (unfold h; apply Z.pow_pos_nonneg; lia).
  destruct (Z.compare r h) eqn:Hc; rewrite (C _ eq_refl).
  - apply Z.compare_eq in Hc. rewrite (proj2 (Z.ltb_ge r h)) by lia. rewrite (proj2 (Z.ltb_ge h r)) by lia.
    rewrite Cl by lia. destruct (Z.even q); reflexivity.
  - apply -> Z.compare_lt_iff in Hc. rewrite (proj2 (Z.ltb_lt r h)) by lia. reflexivity.
  - apply -> Z.compare_gt_iff in Hc. rewrite (proj2 (Z.ltb_ge r h)) by lia. rewrite (proj2 (Z.ltb_lt h r)) by lia. apply Cl. lia.
Qed.

Notation mode_NE := BinarySingleNaN.mode_NE.

Lemma rne_bounds p n s : 1 <= s -> 1 <= p -> 2 ^ (p + s - 1) <= n < 2 ^ (p + s) -> 2 ^ (p + s - 1) <= rne n s <= 2 ^ (p + s).
Proof.
  intros Hs Hp Hn. unfold rne.
  assert (P : 0 < 2 ^ s) by (apply Z.pow_pos_nonneg; lia).
  assert (E1 : 2 ^ (p + s) = 2 ^ s * 2 ^ p) by (rewrite <- Z.pow_add_r by lia; f_equal; lia).
  assert (E2 : 2 ^ (p + s - 1) = 2 ^ s * 2 ^ (p - 1)) by (rewrite <- Z.pow_add_r by lia; f_equal; lia).
  set (q := n / 2 ^ s).
  assert (Q1 : 2 ^ (p - 1) <= q) by (apply Z.div_le_lower_bound; lia).
  assert (Q2 : q < 2 ^ p) by (apply Z.div_lt_upper_bound; lia).
  rewrite E1, E2.
  destruct (n mod 2 ^ s <? 2 ^ (s - 1)); [nia|]. destruct (2 ^ (s - 1) <? n mod 2 ^ s); [nia|]. destruct (Z.even q); nia.
Qed.

Section Conv.
Variable prec emax : Z.
Context (Hp : Prec_gt_0 prec) (He : BinarySingleNaN.Prec_lt_emax prec emax).

Lemma round_int_rne n s : 1 <= s -> 2 ^ (prec + s - 1) <= n < 2 ^ (prec + s) -> prec + s < emax ->
  round radix2 (SpecFloat.fexp prec emax) ZnearestE (IZR n) = IZR (rne n s).
Proof.
  intros Hs Hn Hov. assert (P0 : 0 < prec) by exact Hp.
  assert (Pn : 0 < n). { assert (0 < 2 ^ (prec + s - 1)) by (apply Z.pow_pos_nonneg; lia). lia. }
  assert (M : mag radix2 (IZR n) = prec + s :> Z).
  { apply mag_unique. rewrite <- abs_IZR, Z.abs_eq by lia. rewrite <- !IZR_pow2 by lia.
    replace (prec + s - 1) with (prec + s - 1) by lia. split; [apply IZR_le|apply IZR_lt]; lia. }
  unfold round, scaled_mantissa, cexp. rewrite M.
  assert (Fx : SpecFloat.fexp prec emax (prec + s) = s). { unfold SpecFloat.fexp, SpecFloat.emin. lia. }
  rewrite Fx. rewrite (znearest_div n s Hs ltac:(lia)). unfold F2R. cbn [Fnum Fexp].
  unfold rne. rewrite mult_IZR, IZR_pow2 by lia. ring.
Qed.

Lemma BofZ_rne n s : 1 <= s -> 2 ^ (prec + s - 1) <= n < 2 ^ (prec + s) -> prec + s < emax ->
  let z := binary_normalize prec emax Hp He mode_NE n 0 false in
  B2R prec emax z = IZR (rne n s) /\ is_finite prec emax z = true /\ Bsign prec emax z = false.
Proof.
  intros Hs Hn Hov z. assert (P0 : 0 < prec) by exact Hp.
  pose proof (binary_normalize_correct prec emax Hp He mode_NE n 0 false) as C. fold z in C.
  assert (F : F2R (Float radix2 n 0) = IZR n) by (unfold F2R; cbn; ring).
  rewrite F in C. cbn [BinarySingleNaN.round_mode] in C. rewrite (round_int_rne n s Hs Hn Hov) in C.
  pose proof (rne_bounds prec n s Hs ltac:(lia) Hn) as B.
  assert (L : 0 < 2 ^ (prec + s - 1)) by (apply Z.pow_pos_nonneg; lia).
  rewrite Rlt_bool_true in C.
  - destruct C as (C1 & C2 & C3). repeat split; [exact C1|exact C2|]. rewrite C3.
    rewrite Rcompare_Gt; [reflexivity|]. apply IZR_lt. lia.
  - rewrite <- abs_IZR, Z.abs_eq by lia. rewrite <- IZR_pow2 by lia. apply IZR_lt.
    assert (2 ^ (prec + s) < 2 ^ emax) by (apply Z.pow_lt_mono_r; lia). lia.
Qed.

(* doubling the rounded half is the rounded whole *)
Lemma double_half nan n h s : 1 <= s -> 2 ^ (prec + s) <= n < 2 ^ (prec + s + 1) -> 2 ^ (prec + s - 1) <= h < 2 ^ (prec + s) ->
  prec + s + 1 < emax -> 2 * rne h s = rne n (s + 1) ->
  Bplus prec emax Hp He nan mode_NE (binary_normalize prec emax Hp He mode_NE h 0 false) (binary_normalize prec emax Hp He mode_NE h 0 false)
  = binary_normalize prec emax Hp He mode_NE n 0 false.
Proof.
  intros Hs Hn Hh Hov E. assert (P0 : 0 < prec) by exact Hp.
  destruct (BofZ_rne h s Hs Hh ltac:(lia)) as (H1 & H2 & H3).
  destruct (BofZ_rne n (s + 1) ltac:(lia) ltac:(replace (prec + (s + 1) - 1) with (prec + s) by lia; replace (prec + (s + 1)) with (prec + s + 1) by lia; exact Hn) ltac:(lia)) as (N1 & N2 & N3).
  set (a := binary_normalize prec emax Hp He mode_NE h 0 false) in *.
  set (b := binary_normalize prec emax Hp He mode_NE n 0 false) in *.
  pose proof (Bplus_correct prec emax Hp He nan mode_NE a a H2 H2) as C.
  assert (S : (B2R prec emax a + B2R prec emax a = B2R prec emax b)%R).
  { rewrite H1, N1, <- E, mult_IZR. simpl (IZR 2). ring. }
  rewrite S in C. cbn [BinarySingleNaN.round_mode] in C.
  rewrite (round_generic radix2 (SpecFloat.fexp prec emax) ZnearestE _ (generic_format_B2R prec emax b)) in C.
  pose proof (rne_bounds prec n (s + 1) ltac:(lia) ltac:(lia) ltac:(replace (prec + (s + 1) - 1) with (prec + s) by lia; replace (prec + (s + 1)) with (prec + s + 1) by lia; exact Hn)) as B.
  assert (L : 0 < 2 ^ (prec + (s + 1) - 1)) by (apply Z.pow_pos_nonneg; lia).
  rewrite Rlt_bool_true in C.
  - destruct C as (C1 & C2 & C3). apply B2R_Bsign_inj; [exact C2|exact N2|exact C1|].
    rewrite C3, N3. rewrite Rcompare_Gt; [reflexivity|]. rewrite N1. apply IZR_lt. lia.
  - rewrite N1. rewrite <- abs_IZR, Z.abs_eq by lia. rewrite <- IZR_pow2 by lia. apply IZR_lt.
    assert (2 ^ (prec + (s + 1)) < 2 ^ emax) by (apply Z.pow_lt_mono_r; lia). lia.
Qed.
End Conv.

Section Trunc.
Variable prec emax : Z.
Context (Hp : Prec_gt_0 prec) (He : BinarySingleNaN.Prec_lt_emax prec emax).

Lemma Btrunc_Ztrunc (x : binary_float prec emax) : Btrunc prec emax x = Ztrunc (B2R prec emax x).
Proof. apply eq_IZR. rewrite (Btrunc_correct prec emax He). apply round_FIX_IZR. Qed.

Lemma int_part_finite (x : binary_float prec emax) z : int_part x = Some z ->
  is_finite prec emax x = true /\ z = Ztrunc (B2R prec emax x).
Proof.
  destruct x as [s|s|s pl H|s m e H]; cbn [int_part]; intros E; try discriminate; injection E as <-.
  - split; [reflexivity|]. cbn [B2R]. symmetry. apply (Ztrunc_IZR 0).
  - split; [reflexivity|]. apply Btrunc_Ztrunc.
Qed.
Lemma finite_int_part (x : binary_float prec emax) : is_finite prec emax x = true -> int_part x = Some (Ztrunc (B2R prec emax x)).
Proof.
  destruct x as [s|s|s pl H|s m e H]; cbn [int_part is_finite]; intros E; try discriminate.
  - cbn [B2R]. rewrite (Ztrunc_IZR 0). reflexivity.
  - rewrite Btrunc_Ztrunc. reflexivity.
Qed.

(* below the constant: the integral part is below it *)
Lemma trunc_below (x K : binary_float prec emax) k z : is_finite prec emax K = true -> B2R prec emax K = IZR k -> 0 < k ->
  int_part x = Some z -> Bcompare prec emax x K = Some Lt -> z < k.
Proof.
  intros FK VK Hk I C. destruct (int_part_finite x z I) as [Fx ->].
  rewrite (Bcompare_correct prec emax x K Fx FK) in C. injection C as C. apply Rcompare_Lt_inv in C. rewrite VK in C.
  apply lt_IZR. destruct (Rle_or_lt 0 (B2R prec emax x)) as [P|N].
  - rewrite Ztrunc_floor by exact P. eapply Rle_lt_trans; [apply Zfloor_lb|exact C].
  - rewrite Ztrunc_ceil by lra. apply Rle_lt_trans with 0%R.
    + apply IZR_le. apply Zceil_glb. simpl. lra.
    + apply IZR_lt. lia.
Qed.

(* at or above the constant and below its double: subtracting it is exact, and so is the integral part *)
Lemma trunc_minus nan (x K : binary_float prec emax) k z : is_finite prec emax K = true -> B2R prec emax K = IZR k -> 0 < k ->
  (IZR k < bpow radix2 emax)%R ->
  int_part x = Some z -> z < 2 * k -> (Bcompare prec emax x K = Some Gt \/ Bcompare prec emax x K = Some Eq) ->
  int_part (Bminus prec emax Hp He nan BinarySingleNaN.mode_NE x K) = Some (z - k) /\ k <= z.
Proof.
  intros FK VK Hk Hov I Hz C. destruct (int_part_finite x z I) as [Fx Ez].
  rewrite (Bcompare_correct prec emax x K Fx FK) in C. rewrite VK in C.
  set (a := B2R prec emax x) in *.
  assert (Ha : (IZR k <= a)%R).
  { destruct C as [C|C]; injection C as C; [apply Rcompare_Gt_inv in C; lra|apply Rcompare_Eq_inv in C; lra]. }
  assert (Pk : (0 < IZR k)%R) by (apply IZR_lt; lia).
  assert (Zf : z = Zfloor a) by (rewrite Ez; apply Ztrunc_floor; lra).
  assert (Ha2 : (a < 2 * IZR k)%R).
  { pose proof (Zfloor_ub a) as U. rewrite <- Zf in U. apply Rlt_le_trans with (1 := U).
    rewrite <- (plus_IZR z 1). change 2%R with (IZR 2). rewrite <- mult_IZR. apply IZR_le. lia. }
  assert (Fm : generic_format radix2 (SpecFloat.fexp prec emax) (a - IZR k)).
  { rewrite <- VK. apply sterbenz; try apply generic_format_B2R; try typeclasses eauto. rewrite VK. fold a. lra. }
  pose proof (Bminus_correct prec emax Hp He nan BinarySingleNaN.mode_NE x K Fx FK) as M.
  rewrite VK in M. fold a in M. cbn [BinarySingleNaN.round_mode] in M. rewrite (round_generic _ _ _ _ Fm) in M.
  rewrite Rlt_bool_true in M by (rewrite Rabs_pos_eq by lra; lra).
  destruct M as (M1 & M2 & _).
  rewrite (finite_int_part _ M2), M1.
  assert (Kz : k <= z). { rewrite Zf. apply Zfloor_lub. exact Ha. }
  split; [|exact Kz]. f_equal. rewrite Ztrunc_floor by lra. rewrite Zf. apply Zfloor_imp.
  rewrite plus_IZR, !minus_IZR. pose proof (Zfloor_lb a). pose proof (Zfloor_ub a). simpl (IZR 1). lra.
Qed.
End Trunc.

(* ---------- integers that fit the significand convert exactly (long double: every 64-bit integer) ---------- *)
Section Exact.
Variable prec emax : Z.
Context (Hp : Prec_gt_0 prec) (He : BinarySingleNaN.Prec_lt_emax prec emax).

Lemma int_format n : Z.abs n < 2 ^ prec -> generic_format radix2 (SpecFloat.fexp prec emax) (IZR n).
Proof.
  intros Hn. assert (P0 : 0 < prec) by exact Hp. assert (Pe : prec < emax) by exact He.
  replace (IZR n) with (F2R (Float radix2 n 0)) by (unfold F2R; cbn; ring).
  apply generic_format_F2R. intros Nz. unfold cexp.
  replace (F2R (Float radix2 n 0)) with (IZR n) by (unfold F2R; cbn; ring).
  assert (M : (mag radix2 (IZR n) <= prec)%Z).
  { apply mag_le_bpow; [apply not_0_IZR; exact Nz|]. rewrite <- abs_IZR, <- IZR_pow2 by lia. apply IZR_lt. exact Hn. }
  unfold SpecFloat.fexp, SpecFloat.emin. lia.
Qed.

Lemma pow2_format k : 0 <= k < emax -> generic_format radix2 (SpecFloat.fexp prec emax) (IZR (2 ^ k)).
Proof.
  intros Hk. assert (P0 : 0 < prec) by exact Hp. assert (Pe : prec < emax) by exact He. rewrite IZR_pow2 by lia. apply generic_format_bpow.
  unfold SpecFloat.fexp, SpecFloat.emin. lia.
Qed.

(* an integer that is representable converts exactly *)
Lemma BofZ_exact_gen n : generic_format radix2 (SpecFloat.fexp prec emax) (IZR n) -> Z.abs n < 2 ^ emax ->
  let z := binary_normalize prec emax Hp He BinarySingleNaN.mode_NE n 0 false in
  B2R prec emax z = IZR n /\ is_finite prec emax z = true /\ Bsign prec emax z = (n <? 0).
Proof.
  intros Fn Hn z. assert (P0 : 0 < prec) by exact Hp. assert (Pe : prec < emax) by exact He.
  pose proof (binary_normalize_correct prec emax Hp He BinarySingleNaN.mode_NE n 0 false) as C. fold z in C.
  assert (F : F2R (Float radix2 n 0) = IZR n) by (unfold F2R; cbn; ring).
  rewrite F in C. cbn [BinarySingleNaN.round_mode] in C.
  rewrite (round_generic radix2 _ ZnearestE _ Fn) in C.
  rewrite Rlt_bool_true in C.
  - destruct C as (C1 & C2 & C3). repeat split; [exact C1|exact C2|]. rewrite C3.
    destruct (Z.ltb_spec n 0) as [L|G].
    + rewrite Rcompare_Lt; [reflexivity|]. apply IZR_lt. exact L.
    + destruct (Z.eq_dec n 0) as [->|Nz]; [rewrite Rcompare_Eq; reflexivity|].
      rewrite Rcompare_Gt; [reflexivity|]. apply IZR_lt. lia.
  - rewrite <- abs_IZR, <- IZR_pow2 by lia. apply IZR_lt. exact Hn.
Qed.
Lemma BofZ_exact n : Z.abs n < 2 ^ prec ->
  let z := binary_normalize prec emax Hp He BinarySingleNaN.mode_NE n 0 false in
  B2R prec emax z = IZR n /\ is_finite prec emax z = true /\ Bsign prec emax z = (n <? 0).
Proof.
  intros Hn. assert (P0 : 0 < prec) by exact Hp. assert (Pe : prec < emax) by exact He.
  apply BofZ_exact_gen; [apply int_format; exact Hn|]. assert (2 ^ prec < 2 ^ emax) by (apply Z.pow_lt_mono_r; lia). lia.
Qed.

(* the sum of two representable integers that is representable is exact *)
Lemma BofZ_plus nan a b :
  generic_format radix2 (SpecFloat.fexp prec emax) (IZR a) -> generic_format radix2 (SpecFloat.fexp prec emax) (IZR b) ->
  generic_format radix2 (SpecFloat.fexp prec emax) (IZR (a + b)) ->
  Z.abs a < 2 ^ emax -> Z.abs b < 2 ^ emax -> Z.abs (a + b) < 2 ^ emax -> 0 < a + b ->
  Bplus prec emax Hp He nan BinarySingleNaN.mode_NE
    (binary_normalize prec emax Hp He BinarySingleNaN.mode_NE a 0 false) (binary_normalize prec emax Hp He BinarySingleNaN.mode_NE b 0 false)
  = binary_normalize prec emax Hp He BinarySingleNaN.mode_NE (a + b) 0 false.
Proof.
  intros Fa Fb Fs Ha Hb Hs Pos. assert (P0 : 0 < prec) by exact Hp. assert (Pe : prec < emax) by exact He.
  destruct (BofZ_exact_gen a Fa Ha) as (A1 & A2 & A3). destruct (BofZ_exact_gen b Fb Hb) as (B1 & B2 & B3).
  destruct (BofZ_exact_gen (a + b) Fs Hs) as (S1 & S2 & S3).
  pose proof (Bplus_correct prec emax Hp He nan BinarySingleNaN.mode_NE _ _ A2 B2) as C.
  rewrite A1, B1, <- plus_IZR in C. cbn [BinarySingleNaN.round_mode] in C.
  rewrite (round_generic radix2 _ ZnearestE _ Fs) in C.
  rewrite Rlt_bool_true in C.
  - destruct C as (C1 & C2 & C3). apply B2R_Bsign_inj; [exact C2|exact S2|rewrite C1, S1; reflexivity|].
    rewrite C3, S3. rewrite Rcompare_Gt by (apply IZR_lt; exact Pos). symmetry. apply Z.ltb_ge. lia.
  - rewrite <- abs_IZR, <- IZR_pow2 by lia. apply IZR_lt. exact Hs.
Qed.
End Exact.
