From Chibicc Require Import Base.Mach Model.Lowering.

Definition embedded (P : list linstr) (p : nat) (code : list linstr) : Prop :=
  forall i ins, nth_error code i = Some ins -> nth_error P (p + i) = Some ins.

Lemma emb_app P p a b : embedded P p (a ++ b) -> embedded P p a /\ embedded P (p + length a) b.
Proof.
  intros H. split; intros i ins Hi.
  - apply H. rewrite nth_error_app1; [exact Hi|]. apply nth_error_Some. rewrite Hi. discriminate.
  - rewrite <- Nat.add_assoc. apply H. rewrite nth_error_app2 by lia. replace (length a + i - length a) with i by lia. exact Hi.
Qed.
Lemma emb_one P p ins : embedded P p [ins] -> nth_error P p = Some ins.
Proof. intros H. specialize (H 0 ins eq_refl). rewrite Nat.add_0_r in H. exact H. Qed.

Lemma gen_length : forall s p b c, length (lgen s p b c) = lsize s.
Proof.
  induction s as [n| |a IHa b0 IHb|k a IHa b0 IHb|init IHi k inc IHinc body IHb|body IHb k| |]; intros p b c; cbn [lgen lsize length]; try reflexivity.
  - rewrite app_length, IHa, IHb. reflexivity.
  - rewrite !app_length, IHa, IHb. cbn [length]. lia.
  - rewrite !app_length, IHi, IHb, IHinc. destruct k; cbn [length]; lia.
  - rewrite app_length, IHb. cbn [length]. lia.
Qed.

Lemma star_trans P s1 t1 s2 t2 s3 : lstar P s1 t1 s2 -> lstar P s2 t2 s3 -> lstar P s1 (t1 ++ t2) s3.
Proof. induction 1 as [|st ev st' tr st'' Hs _ IH]; intros H2; [exact H2|]. rewrite <- app_assoc. eapply star_step; [exact Hs|apply IH; exact H2]. Qed.
Lemma star_one P s ev s' : lstep P s = Some (ev, s') -> lstar P s ev s'.
Proof. intros H. rewrite <- (app_nil_r ev). eapply star_step; [exact H|apply star_refl]. Qed.

Definition ltarget (out : loutcome) (p : nat) (s : lstmt) (b c : nat) : nat :=
  match out with ONormal => p + lsize s | OBreak => b | OCont => c end.

Definition sim_at (f : nat) : Prop :=
  forall s o tr o' out, lexec f s o = Some (tr, o', out) ->
  forall P p b c, embedded P p (lgen s p b c) -> lstar P (p, o) tr (ltarget out p s b c, o').

(* one loop, given the simulation for its parts *)
Lemma for_loop_sim f (IH : sim_at f) k inc body P begin :
  let pbody := begin + (match k with Some _ => 1 | None => 0 end) in
  let pcont := pbody + lsize body in
  let pbrk := pcont + lsize inc + 1 in
  embedded P begin ((match k with Some kk => [ICondJf kk pbrk] | None => [] end) ++ lgen body pbody pbrk pcont ++ lgen inc pcont pbrk pcont ++ [IJmp begin]) ->
  forall fuel o tr o', lfor_loop (lexec f) fuel k inc body o = Some (tr, o') -> lstar P (begin, o) tr (pbrk, o').
Proof.
  cbn zeta. intros Hemb. apply emb_app in Hemb. destruct Hemb as [Hc Hrest].
  apply emb_app in Hrest. destruct Hrest as [Hbody Hrest]. apply emb_app in Hrest. destruct Hrest as [Hinc Hjmp].
  rewrite !gen_length in *. apply emb_one in Hjmp.
  set (pbody := begin + (match k with Some _ => 1 | None => 0 end)) in *.
  assert (Hlen : begin + length (match k with Some kk => [ICondJf kk (pbody + lsize body + lsize inc + 1)] | None => [] end) = pbody) by (subst pbody; destruct k; cbn; lia).
  rewrite Hlen in *.
  set (pcont := pbody + lsize body) in *. set (pbrk := pcont + lsize inc + 1) in *.
  (* what happens once the condition has been passed: body, then inc and the back jump *)
  assert (Hafter : forall fuel, (forall o tr o', lfor_loop (lexec f) fuel k inc body o = Some (tr, o') -> lstar P (begin, o) tr (pbrk, o')) ->
            forall t0 o0 tr o',
            match lexec f body o0 with
            | Some (t1, o1, OBreak) => Some (t0 ++ t1, o1)
            | Some (t1, o1, _) => match lexec f inc o1 with
                                  | Some (t2, o2, ONormal) => match lfor_loop (lexec f) fuel k inc body o2 with Some (t3, o3) => Some (t0 ++ t1 ++ t2 ++ t3, o3) | None => None end
                                  | _ => None end
            | None => None end = Some (tr, o') ->
            exists tr', tr = t0 ++ tr' /\ lstar P (pbody, o0) tr' (pbrk, o')).
  { intros fuel IHl t0 o0 tr o' H. destruct (lexec f body o0) as [[[t1 o1] out1]|] eqn:Eb; [|discriminate].
    pose proof (IH _ _ _ _ _ Eb P pbody pbrk pcont Hbody) as Sb.
    destruct out1.
    - destruct (lexec f inc o1) as [[[t2 o2] out2]|] eqn:Ei; [|discriminate]. destruct out2; try discriminate.
      destruct (lfor_loop (lexec f) fuel k inc body o2) as [[t3 o3]|] eqn:El; [|discriminate]. injection H as <- <-.
      pose proof (IH _ _ _ _ _ Ei P pcont pbrk pcont Hinc) as Si. cbn [ltarget] in Sb, Si.
      exists (t1 ++ t2 ++ t3). split; [reflexivity|]. eapply star_trans; [exact Sb|]. eapply star_trans; [exact Si|].
      replace t3 with ([] ++ t3) by reflexivity. eapply star_step; [|apply IHl; exact El].
      unfold lstep. rewrite Hjmp. reflexivity.
    - injection H as <- <-. exists t1. split; [reflexivity|exact Sb].
    - destruct (lexec f inc o1) as [[[t2 o2] out2]|] eqn:Ei; [|discriminate]. destruct out2; try discriminate.
      destruct (lfor_loop (lexec f) fuel k inc body o2) as [[t3 o3]|] eqn:El; [|discriminate]. injection H as <- <-.
      pose proof (IH _ _ _ _ _ Ei P pcont pbrk pcont Hinc) as Si. cbn [ltarget] in Sb, Si.
      exists (t1 ++ t2 ++ t3). split; [reflexivity|]. eapply star_trans; [exact Sb|]. eapply star_trans; [exact Si|].
      replace t3 with ([] ++ t3) by reflexivity. eapply star_step; [|apply IHl; exact El].
      unfold lstep. rewrite Hjmp. reflexivity. }
  induction fuel as [|fuel IHl]; intros o tr o' H; cbn [lfor_loop] in H; [discriminate|].
  destruct k as [kk|].
  - apply emb_one in Hc. destruct o as [|v o1]; [discriminate|]. destruct v.
    + destruct (Hafter fuel IHl [kk] o1 tr o' H) as (tr' & -> & Sx).
      eapply star_step; [|exact Sx]. unfold lstep. rewrite Hc. subst pbody. replace (begin + 1) with (S begin) by lia. reflexivity.
    + injection H as <- <-. apply star_one. unfold lstep. rewrite Hc. reflexivity.
  - destruct (Hafter fuel IHl [] o tr o' H) as (tr' & -> & Sx). subst pbody. rewrite Nat.add_0_r in *. exact Sx.
Qed.

Lemma do_loop_sim f (IH : sim_at f) body k P p :
  let pcont := p + lsize body in
  embedded P p (lgen body p (pcont + 1) pcont ++ [ICondJt k p]) ->
  forall fuel o tr o', ldo_loop (lexec f) fuel body k o = Some (tr, o') -> lstar P (p, o) tr (pcont + 1, o').
Proof.
  cbn zeta. intros Hemb. apply emb_app in Hemb. destruct Hemb as [Hbody Hc]. rewrite gen_length in Hc. apply emb_one in Hc.
  induction fuel as [|fuel IHl]; intros o tr o' H; cbn [ldo_loop] in H; [discriminate|].
  destruct (lexec f body o) as [[[t1 o1] out1]|] eqn:Eb; [|discriminate].
  pose proof (IH _ _ _ _ _ Eb P p (p + lsize body + 1) (p + lsize body) Hbody) as Sb.
  assert (Hcond : forall out1, out1 <> OBreak -> ltarget out1 p body (p + lsize body + 1) (p + lsize body) = p + lsize body) by (intros []; cbn; congruence).
  assert (Hgo : forall o1, lstar P (p, o) t1 (p + lsize body, o1) ->
            match o1 with
            | [] => None
            | v :: o2 => if v then match ldo_loop (lexec f) fuel body k o2 with Some (t3, o3) => Some (t1 ++ [k] ++ t3, o3) | None => None end
                         else Some (t1 ++ [k], o2)
            end = Some (tr, o') -> lstar P (p, o) tr (p + lsize body + 1, o')).
  { intros oo Sx Hx. destruct oo as [|v o2]; [discriminate|]. destruct v.
    - destruct (ldo_loop (lexec f) fuel body k o2) as [[t3 o3]|] eqn:El; [|discriminate]. injection Hx as <- <-.
      eapply star_trans; [exact Sx|]. change (k :: t3) with ([k] ++ t3). eapply star_step; [|apply IHl; exact El]. unfold lstep. rewrite Hc. reflexivity.
    - injection Hx as <- <-. eapply star_trans; [exact Sx|]. apply star_one. unfold lstep. rewrite Hc.
      replace (S (p + lsize body)) with (p + lsize body + 1) by lia. reflexivity. }
  destruct out1.
  - apply (Hgo o1); [rewrite Hcond in Sb by discriminate; exact Sb|exact H].
  - injection H as <- <-. exact Sb.
  - apply (Hgo o1); [rewrite Hcond in Sb by discriminate; exact Sb|exact H].
Qed.

(* the lowered code, embedded anywhere in a program, does exactly what the abstract machine does:
   same markers in the same order, same number of condition evaluations, and control ends at the
   end of the statement, at the enclosing loop's break target or at its continue target *)
Theorem lowering_simulates : forall f, sim_at f.
Proof.
  induction f as [|f IH]; intros s o tr o' out H P p b c Hemb; [discriminate|]. cbn [lexec] in H.
  destruct s as [n| |a b0|k a b0|init k inc body|body k| |]; cbn [lgen] in Hemb.
  - injection H as <- <- <-. apply emb_one in Hemb. cbn [ltarget lsize]. apply star_one. unfold lstep. rewrite Hemb. replace (p + 1) with (S p) by lia. reflexivity.
  - injection H as <- <- <-. cbn [ltarget lsize]. rewrite Nat.add_0_r. apply star_refl.
  - apply emb_app in Hemb. destruct Hemb as [Ha Hb]. rewrite gen_length in Hb.
    destruct (lexec f a o) as [[[t1 o1] out1]|] eqn:Ea; [|discriminate]. pose proof (IH _ _ _ _ _ Ea P p b c Ha) as Sa.
    destruct out1; try (injection H as <- <- <-; exact Sa).
    destruct (lexec f b0 o1) as [[[t2 o2] out2]|] eqn:Eb; [|discriminate]. injection H as <- <- <-.
    pose proof (IH _ _ _ _ _ Eb P (p + lsize a) b c Hb) as Sb. eapply star_trans; [exact Sa|].
    destruct out2; cbn [ltarget lsize] in *; rewrite ?Nat.add_assoc; exact Sb.
  - destruct o as [|v o1]; [discriminate|].
    apply emb_app in Hemb. destruct Hemb as [Hc Hrest]. apply emb_one in Hc. cbn [length] in Hrest.
    apply emb_app in Hrest. destruct Hrest as [Ha Hrest]. rewrite gen_length in Hrest. apply emb_app in Hrest. destruct Hrest as [Hj Hb]. apply emb_one in Hj. cbn [length] in Hb.
    destruct v.
    + destruct (lexec f a o1) as [[[t1 o2] out1]|] eqn:Ea; [|discriminate]. injection H as <- <- <-.
      pose proof (IH _ _ _ _ _ Ea P (p + 1) b c Ha) as Sa. change (k :: t1) with ([k] ++ t1).
      eapply star_step; [unfold lstep; rewrite Hc; replace (S p) with (p + 1) by lia; reflexivity|].
      destruct out1; cbn [ltarget] in *; try exact Sa.
      rewrite <- (app_nil_r t1). eapply star_trans; [exact Sa|]. apply star_one. unfold lstep. rewrite Hj. cbn [lsize]. f_equal. f_equal. f_equal. lia.
    + destruct (lexec f b0 o1) as [[[t1 o2] out1]|] eqn:Eb; [|discriminate]. injection H as <- <- <-.
      replace (p + 1 + lsize a + 1) with (p + 1 + lsize a + 1) in Hb by lia.
      pose proof (IH _ _ _ _ _ Eb P (p + 1 + lsize a + 1) b c) as Sb. change (k :: t1) with ([k] ++ t1).
      eapply star_step; [unfold lstep; rewrite Hc; reflexivity|].
      assert (Hb' : embedded P (p + 1 + lsize a + 1) (lgen b0 (p + 1 + lsize a + 1) b c)) by (replace (p + 1 + lsize a + 1) with (p + 1 + lsize a + 1) by lia; exact Hb).
      specialize (Sb Hb'). destruct out1; cbn [ltarget lsize] in *; try exact Sb. replace (p + (2 + lsize a + lsize b0)) with (p + 1 + lsize a + 1 + lsize b0) by lia. exact Sb.
  - destruct (lexec f init o) as [[[t0 o0] out0]|] eqn:Ei; [|discriminate]. destruct out0; try discriminate.
    destruct (lfor_loop (lexec f) f k inc body o0) as [[t o1]|] eqn:El; [|discriminate]. injection H as <- <- <-.
    apply emb_app in Hemb. destruct Hemb as [Hinit Hrest]. rewrite gen_length in Hrest.
    pose proof (IH _ _ _ _ _ Ei P p b c Hinit) as Si. cbn [ltarget] in Si.
    eapply star_trans; [exact Si|].
    pose proof (for_loop_sim f IH k inc body P (p + lsize init) Hrest f o0 t o1 El) as Sl. cbn zeta in Sl.
    cbn [ltarget lsize]. replace (p + (lsize init + match k with Some _ => 1 | None => 0 end + lsize body + lsize inc + 1))
      with (p + lsize init + match k with Some _ => 1 | None => 0 end + lsize body + lsize inc + 1) by lia. exact Sl.
  - destruct (ldo_loop (lexec f) f body k o) as [[t o1]|] eqn:El; [|discriminate]. injection H as <- <- <-.
    pose proof (do_loop_sim f IH body k P p Hemb f o t o1 El) as Sl. cbn zeta in Sl. cbn [ltarget lsize].
    replace (p + (lsize body + 1)) with (p + lsize body + 1) by lia. exact Sl.
  - injection H as <- <- <-. apply emb_one in Hemb. cbn [ltarget]. apply star_one. unfold lstep. rewrite Hemb. reflexivity.
  - injection H as <- <- <-. apply emb_one in Hemb. cbn [ltarget]. apply star_one. unfold lstep. rewrite Hemb. reflexivity.
Qed.

(* whole program: a statement without stray break/continue, lowered at position 0 *)
Corollary program_simulates : forall fuel s o tr o', lexec fuel s o = Some (tr, o', ONormal) ->
  forall b c, lstar (lgen s 0 b c) (0, o) tr (lsize s, o').
Proof.
  intros fuel s o tr o' H b c. pose proof (lowering_simulates fuel s o tr o' ONormal H (lgen s 0 b c) 0 b c) as S.
  cbn [ltarget] in S. apply S. intros i ins Hi. exact Hi.
Qed.

(* the target machine is deterministic: two runs from one state are one a prefix of the other,
   so the run exhibited by the simulation is the run *)
Lemma lstar_det P s t1 s1 : lstar P s t1 s1 -> forall t2 s2, lstar P s t2 s2 ->
  (exists t, lstar P s1 t s2 /\ t2 = t1 ++ t) \/ (exists t, lstar P s2 t s1 /\ t1 = t2 ++ t).
Proof.
  induction 1 as [st|st ev st' tr st'' Hs Hr IH]; intros t2 s2 H2.
  - left. exists t2. split; [exact H2|reflexivity].
  - destruct H2 as [|st0 ev2 st2 tr2 st3 Hs2 Hr2].
    + right. exists (ev ++ tr). split; [eapply star_step; [exact Hs|exact Hr]|reflexivity].
    + rewrite Hs in Hs2. injection Hs2 as <- <-. destruct (IH _ _ Hr2) as [(t & Ht & ->)|(t & Ht & ->)].
      * left. exists t. split; [exact Ht|]. rewrite app_assoc. reflexivity.
      * right. exists t. split; [exact Ht|]. rewrite app_assoc. reflexivity.
Qed.
