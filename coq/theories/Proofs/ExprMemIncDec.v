(* prefix ++ and --: the parser's rewrites  ++x => x += 1,  --x => x -= 1  (desugar) keep the C11 meaning,
   the type, the footprint and the temporaries of every expression. *)
From Coq Require Import ZArith Bool List Lia.
From Chibicc Require Import Base.Mach Spec.C11Int Spec.C11IntMem Model.X86Int Model.CodegenInt Gen.CastTable
     Model.ConstFold Proofs.ConstFoldProofs Proofs.CastTableProofs Proofs.CodegenIntProofs Model.ExprGen Proofs.ExprGenProofs
     Model.ExprMem Proofs.ExprMemProofs Proofs.ExprMemCorrect.
Import ListNotations.
Local Open Scope Z_scope.

Lemma desugar_core G : forall e, core (desugar G e) = true.
Proof.
  induction e as [t v0|x|o a IHa|o a IHa b IHb|t a IHa|c IHc a IHa b IHb|a IHa b IHb|x a IHa|o x a IHa|post inc x];
    cbn [desugar core]; rewrite ?IHa, ?IHb, ?IHc; try reflexivity. destruct post; reflexivity.
Qed.

Lemma desugar_vars G N : forall e, vars_in N (desugar G e) = vars_in N e.
Proof.
  induction e as [t v0|x|o a IHa|o a IHa b IHb|t a IHa|c IHc a IHa b IHb|a IHa b IHb|x a IHa|o x a IHa|post inc x];
    cbn [desugar vars_in]; rewrite ?IHa, ?IHb, ?IHc; try reflexivity.
  destruct post; cbn [vars_in]; rewrite ?andb_true_r; reflexivity.
Qed.

Lemma desugar_ntemps G : forall e, ntemps (desugar G e) = ntemps e.
Proof.
  induction e as [t v0|x|o a IHa|o a IHa b IHb|t a IHa|c IHc a IHa b IHb|a IHa b IHb|x a IHa|o x a IHa|post inc x];
    cbn [desugar ntemps]; rewrite ?IHa, ?IHb, ?IHc; try reflexivity. destruct post; reflexivity.
Qed.

Lemma desugar_temps G : forall e, temps_of G (desugar G e) = temps_of G e.
Proof.
  induction e as [t v0|x|o a IHa|o a IHa b IHb|t a IHa|c IHc a IHa b IHb|a IHa b IHb|x a IHa|o x a IHa|post inc x];
    cbn [desugar temps_of]; rewrite ?IHa, ?IHb, ?IHc; try reflexivity. destruct post; reflexivity.
Qed.

Lemma desugar_type G : forall e, mtype G (desugar G e) = mtype G e.
Proof.
  induction e as [t v0|x|o a IHa|o a IHa b IHb|t a IHa|c IHc a IHa b IHb|a IHa b IHb|x a IHa|o x a IHa|post inc x];
    cbn [desugar mtype]; rewrite ?IHa, ?IHb, ?IHc; try reflexivity.
  all: try (destruct post; reflexivity).
  all: try (destruct o; cbn [mtype]; rewrite ?IHa; reflexivity).
Qed.

Lemma desugar_reads G : forall e, reads (desugar G e) = reads e.
Proof.
  induction e as [t v0|x|o a IHa|o a IHa b IHb|t a IHa|c IHc a IHa b IHb|a IHa b IHb|x a IHa|o x a IHa|post inc x];
    cbn [desugar reads]; rewrite ?IHa, ?IHb, ?IHc; try reflexivity. destruct post; reflexivity.
Qed.
Lemma desugar_writes G : forall e, writes (desugar G e) = writes e.
Proof.
  induction e as [t v0|x|o a IHa|o a IHa b IHb|t a IHa|c IHc a IHa b IHb|a IHa b IHb|x a IHa|o x a IHa|post inc x];
    cbn [desugar writes]; rewrite ?IHa, ?IHb, ?IHc; try reflexivity. destruct post; reflexivity.
Qed.

Lemma norace_desugar G a b : norace (desugar G a) (desugar G b) = norace a b.
Proof. unfold norace. rewrite !desugar_reads, !desugar_writes. reflexivity. Qed.

Theorem desugar_meval G : forall e env, meval G env (desugar G e) = meval G env e.
Proof.
  induction e as [t v0|x|o a IHa|o a IHa b IHb|t a IHa|c IHc a IHa b IHb|a IHa b IHb|x a IHa|o x a IHa|post inc x];
    intros env.
  - reflexivity.
  - reflexivity.
  - cbn [desugar meval]. rewrite IHa, desugar_type. reflexivity.
  - cbn [desugar]. destruct (is_logical o) eqn:L.
    + destruct o; try discriminate L; cbn [meval]; rewrite IHa;
        (destruct (meval G env a) as [[xv env1]|]; [|reflexivity]); rewrite IHb; reflexivity.
    + rewrite !(meval_bin _ _ _ _ _ L), norace_desugar, !desugar_type.
      destruct (norace a b); [|reflexivity]. destruct (lhs_first o).
      * rewrite IHa. destruct (meval G env a) as [[xv env1]|]; [|reflexivity]. rewrite IHb. reflexivity.
      * rewrite IHb. destruct (meval G env b) as [[yv env1]|]; [|reflexivity]. rewrite IHa. reflexivity.
  - cbn [desugar meval]. rewrite IHa. reflexivity.
  - cbn [desugar meval]. rewrite IHc, !desugar_type. destruct (meval G env c) as [[xv env1]|]; [|reflexivity].
    destruct (negb (xv =? 0)); [rewrite IHa|rewrite IHb]; reflexivity.
  - cbn [desugar meval]. rewrite IHa. destruct (meval G env a) as [[xv env1]|]; [|reflexivity]. apply IHb.
  - cbn [desugar meval]. rewrite desugar_writes, IHa. reflexivity.
  - cbn [desugar meval]. rewrite desugar_writes, IHa, desugar_type. reflexivity.
  - destruct post; [reflexivity|]. cbn [desugar]. destruct inc; reflexivity.
Qed.
