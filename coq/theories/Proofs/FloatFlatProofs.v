(* The jump code of && || ?: (and of everything else gen_expr composes for int / float / double trees) does what
   the code tree of FloatGen.v does; with FloatGenProofs: the jump-level code of a whole expression, placed
   anywhere in a program, computes the C11 value. *)
From Coq Require Import ZArith Bool List Lia.
From Flocq Require Import Core Binary Bits.
From Chibicc Require Import Base.Mach Spec.C11Int Spec.C11Float Model.X86Int Model.CodegenInt Model.X86Sse Model.FloatGen Model.FloatFlat
     Proofs.FloatOpsProofs Proofs.FloatGenProofs.
Local Open Scope Z_scope.

Definition fembedded (P : list finstr) (p : nat) (code : list finstr) : Prop :=
  forall i ins, nth_error code i = Some ins -> nth_error P (p + i) = Some ins.

Lemma femb_app P p a b : fembedded P p (a ++ b) -> fembedded P p a /\ fembedded P (p + length a) b.
Proof.
  intros H. split; intros i ins Hi.
  - apply H. rewrite nth_error_app1; [exact Hi|]. apply nth_error_Some. rewrite Hi. discriminate.
  - rewrite <- Nat.add_assoc. apply H. rewrite nth_error_app2 by lia. replace (length a + i - length a)%nat with i by lia. exact Hi.
Qed.
Lemma femb_cons P p x l : fembedded P p (x :: l) -> nth_error P p = Some x /\ fembedded P (S p) l.
Proof.
  intros H. split.
  - specialize (H 0%nat x eq_refl). rewrite Nat.add_0_r in H. exact H.
  - intros i ins Hi. replace (S p + i)%nat with (p + S i)%nat by lia. apply H. exact Hi.
Qed.

Lemma cmpz_length t : length (cmpz t) = czlen t. Proof. apply map_length. Qed.

Lemma flatten_length : forall c p, length (flatten c p) = fsize c.
Proof.
  induction c as [l| | | | |a IHa b IHb|a IHa ta b IHb tb|a IHa ta b IHb tb|c IHc tc a IHa b IHb]; intros p; cbn [flatten fsize]; try reflexivity.
  - apply map_length.
  - rewrite app_length, IHa, IHb. reflexivity.
  - rewrite !app_length, IHa, IHb, !cmpz_length. cbn [length]. lia.
  - rewrite !app_length, IHa, IHb, !cmpz_length. cbn [length]. lia.
  - rewrite !app_length, IHc, IHa, IHb, !cmpz_length. cbn [length]. lia.
Qed.

Section Sim.
Variable mem : Z -> Z.

Lemma fstar_trans P a b c : fstar mem P a b -> fstar mem P b c -> fstar mem P a c.
Proof. induction 1 as [|st st' st'' Hs _ IH]; intros H2; [exact H2|]. eapply fstar_step; [exact Hs|apply IH; exact H2]. Qed.
Lemma fstar_one P a b : fstep mem P a = Some b -> fstar mem P a b.
Proof. intros H. eapply fstar_step; [exact H|apply fstar_refl]. Qed.

(* straight-line instructions *)
Lemma run_straight P : forall l p s k s', sexec mem l s = Some s' -> fembedded P p (map FI l) ->
  fstar mem P (p, (s, k)) ((p + length l)%nat, (s', k)).
Proof.
  induction l as [|i l IH]; intros p s k s' He Hemb; cbn [sexec] in He.
  - injection He as <-. cbn [length]. rewrite Nat.add_0_r. apply fstar_refl.
  - destruct (sexec1 mem i s) as [s1|] eqn:E1; [|discriminate]. cbn [map] in Hemb. apply femb_cons in Hemb. destruct Hemb as [Hi Hl].
    eapply fstar_step; [unfold fstep; rewrite Hi, E1; reflexivity|].
    cbn [length]. replace (p + S (length l))%nat with (S p + length l)%nat by lia. apply IH; assumption.
Qed.

(* the instructions of cmp_zero, then the flag *)
Lemma run_cmpz P t p s k z s2 : test_zero mem t s = Some (z, s2) -> fembedded P p (cmpz t) ->
  fstar mem P (p, (s, k)) ((p + czlen t)%nat, (s2, k)) /\ f_zf (ix s2) = z.
Proof.
  unfold test_zero, cmpz. intros H Hemb. destruct (sexec mem (m_cmp_zero t) s) as [s'|] eqn:E; [|discriminate]. injection H as <- <-.
  split; [|reflexivity]. apply (run_straight P _ p s k s' E Hemb).
Qed.

(* single steps, with the position given up to equality *)
Lemma s_jz P q q0 s k t : nth_error P q0 = Some (FJz t) -> q = q0 -> fstar mem P (q, (s, k)) ((if f_zf (ix s) then t else S q), (s, k)).
Proof. intros H ->. apply fstar_one. unfold fstep. rewrite H. reflexivity. Qed.
Lemma s_jnz P q q0 s k t : nth_error P q0 = Some (FJnz t) -> q = q0 -> fstar mem P (q, (s, k)) ((if f_zf (ix s) then S q else t), (s, k)).
Proof. intros H ->. apply fstar_one. unfold fstep. rewrite H. reflexivity. Qed.
Lemma s_jmp P q q0 s k t : nth_error P q0 = Some (FJmp t) -> q = q0 -> fstar mem P (q, (s, k)) (t, (s, k)).
Proof. intros H ->. apply fstar_one. unfold fstep. rewrite H. reflexivity. Qed.
Lemma s_imm P q q0 s k v : nth_error P q0 = Some (FImm v) -> q = q0 -> fstar mem P (q, (s, k)) (S q, (imm_rax s v, k)).
Proof. intros H ->. apply fstar_one. unfold fstep. rewrite H. reflexivity. Qed.
Lemma fstar_end P a q q' st : fstar mem P a (q, st) -> q = q' -> fstar mem P a (q', st).
Proof. intros H ->. exact H. Qed.
Lemma fstar_start P q q' st b : fstar mem P (q, st) b -> q = q' -> fstar mem P (q', st) b.
Proof. intros H ->. exact H. Qed.
Lemma femb_at P q q' c : fembedded P q c -> q = q' -> fembedded P q' c.
Proof. intros H ->. exact H. Qed.

Tactic Notation "go" uconstr(H) := eapply fstar_trans; [eapply H; lia|].

Theorem flatten_simulates : forall c st st', frun mem c st = Some st' ->
  forall P p, fembedded P p (flatten c p) -> fstar mem P (p, st) ((p + fsize c)%nat, st').
Proof.
  induction c as [l| | | | |a IHa b IHb|a IHa ta b IHb tb|a IHa ta b IHb tb|c IHc tc a IHa b IHb]; intros [s k] st' H P p Hemb; cbn [frun fst snd] in H; cbn [flatten] in Hemb.
  - destruct (sexec mem l s) as [s'|] eqn:E; [|discriminate]. injection H as <-. cbn [fsize]. apply run_straight; assumption.
  - (* push %rax *) injection H as <-. apply femb_cons in Hemb. destruct Hemb as [Hi _]. cbn [fsize]. replace (p + 1)%nat with (S p) by lia.
    apply fstar_one. unfold fstep. rewrite Hi. reflexivity.
  - (* pop %rdi *) destruct k as [|v k']; [discriminate|]. injection H as <-. apply femb_cons in Hemb. destruct Hemb as [Hi _]. cbn [fsize]. replace (p + 1)%nat with (S p) by lia.
    apply fstar_one. unfold fstep. rewrite Hi. reflexivity.
  - (* pushf *) injection H as <-. apply femb_cons in Hemb. destruct Hemb as [H1 Hemb]. apply femb_cons in Hemb. destruct Hemb as [H2 _].
    cbn [fsize]. eapply fstar_step; [unfold fstep; rewrite H1; reflexivity|].
    replace (p + 2)%nat with (S (S p)) by lia. apply fstar_one. unfold fstep. rewrite H2. reflexivity.
  - (* popf *) destruct k as [|v k']; [discriminate|]. injection H as <-. apply femb_cons in Hemb. destruct Hemb as [H1 Hemb]. apply femb_cons in Hemb. destruct Hemb as [H2 _].
    cbn [fsize]. eapply fstar_step; [unfold fstep; rewrite H1; reflexivity|].
    replace (p + 2)%nat with (S (S p)) by lia. apply fstar_one. unfold fstep. rewrite H2. reflexivity.
  - destruct (frun mem a (s, k)) as [st1|] eqn:Ea; [|discriminate].
    apply femb_app in Hemb. destruct Hemb as [Ha Hb]. rewrite flatten_length in Hb.
    eapply fstar_trans; [apply (IHa _ _ Ea P p Ha)|]. cbn [fsize]. rewrite Nat.add_assoc. apply (IHb _ _ H P _ Hb).
  - (* && *)
    destruct (frun mem a (s, k)) as [[s1 k1]|] eqn:Ea; [|discriminate].
    apply femb_app in Hemb. destruct Hemb as [Ha Hr]. rewrite flatten_length in Hr.
    apply femb_app in Hr. destruct Hr as [Hc1 Hr]. rewrite cmpz_length in Hr.
    apply femb_cons in Hr. destruct Hr as [Hj1 Hr].
    apply femb_app in Hr. destruct Hr as [Hb Hr]. rewrite flatten_length in Hr.
    apply femb_app in Hr. destruct Hr as [Hc2 Hr]. rewrite cmpz_length in Hr.
    apply femb_cons in Hr. destruct Hr as [Hj2 Hr]. apply femb_cons in Hr. destruct Hr as [Hm1 Hr].
    apply femb_cons in Hr. destruct Hr as [Hje Hr]. apply femb_cons in Hr. destruct Hr as [Hm0 _].
    eapply fstar_trans; [apply (IHa _ _ Ea P p Ha)|].
    destruct (test_zero mem ta s1) as [[z s2]|] eqn:T1; [|discriminate].
    destruct (run_cmpz P ta _ s1 k1 z s2 T1 Hc1) as [S1 Z1]. eapply fstar_trans; [exact S1|].
    cbn [fsize]. go (s_jz P _ _ s2 k1 _ Hj1). rewrite Z1.
    destruct z.
    + injection H as <-. eapply fstar_end; [apply (s_imm P _ _ _ _ _ Hm0); lia|lia].
    + destruct (frun mem b (s2, k1)) as [[s3 k3]|] eqn:Eb; [|discriminate].
      destruct (test_zero mem tb s3) as [[z2 s4]|] eqn:T2; [|discriminate]. injection H as <-.
      apply (femb_at _ _ (p + fsize a + czlen ta + 1)%nat) in Hb; [|lia].
      eapply fstar_trans; [eapply fstar_start; [apply (IHb _ _ Eb P _ Hb)|lia]|].
      apply (femb_at _ _ (p + fsize a + czlen ta + 1 + fsize b)%nat) in Hc2; [|lia].
      destruct (run_cmpz P tb _ s3 k3 z2 s4 T2 Hc2) as [S2 Z2]. eapply fstar_trans; [exact S2|].
      go (s_jz P _ _ s4 k3 _ Hj2). rewrite Z2.
      destruct z2.
      * eapply fstar_end; [apply (s_imm P _ _ _ _ _ Hm0); lia|lia].
      * go (s_imm P _ _ s4 k3 _ Hm1). eapply fstar_end; [apply (s_jmp P _ _ _ _ _ Hje); lia|lia].
  - (* || *)
    destruct (frun mem a (s, k)) as [[s1 k1]|] eqn:Ea; [|discriminate].
    apply femb_app in Hemb. destruct Hemb as [Ha Hr]. rewrite flatten_length in Hr.
    apply femb_app in Hr. destruct Hr as [Hc1 Hr]. rewrite cmpz_length in Hr.
    apply femb_cons in Hr. destruct Hr as [Hj1 Hr].
    apply femb_app in Hr. destruct Hr as [Hb Hr]. rewrite flatten_length in Hr.
    apply femb_app in Hr. destruct Hr as [Hc2 Hr]. rewrite cmpz_length in Hr.
    apply femb_cons in Hr. destruct Hr as [Hj2 Hr]. apply femb_cons in Hr. destruct Hr as [Hm1 Hr].
    apply femb_cons in Hr. destruct Hr as [Hje Hr]. apply femb_cons in Hr. destruct Hr as [Hm0 _].
    eapply fstar_trans; [apply (IHa _ _ Ea P p Ha)|].
    destruct (test_zero mem ta s1) as [[z s2]|] eqn:T1; [|discriminate].
    destruct (run_cmpz P ta _ s1 k1 z s2 T1 Hc1) as [S1 Z1]. eapply fstar_trans; [exact S1|].
    cbn [fsize]. go (s_jnz P _ _ s2 k1 _ Hj1). rewrite Z1.
    destruct z.
    + destruct (frun mem b (s2, k1)) as [[s3 k3]|] eqn:Eb; [|discriminate].
      destruct (test_zero mem tb s3) as [[z2 s4]|] eqn:T2; [|discriminate]. injection H as <-.
      apply (femb_at _ _ (p + fsize a + czlen ta + 1)%nat) in Hb; [|lia].
      eapply fstar_trans; [eapply fstar_start; [apply (IHb _ _ Eb P _ Hb)|lia]|].
      apply (femb_at _ _ (p + fsize a + czlen ta + 1 + fsize b)%nat) in Hc2; [|lia].
      destruct (run_cmpz P tb _ s3 k3 z2 s4 T2 Hc2) as [S2 Z2]. eapply fstar_trans; [exact S2|].
      go (s_jnz P _ _ s4 k3 _ Hj2). rewrite Z2.
      destruct z2.
      * go (s_imm P _ _ s4 k3 _ Hm1). eapply fstar_end; [apply (s_jmp P _ _ _ _ _ Hje); lia|lia].
      * eapply fstar_end; [apply (s_imm P _ _ _ _ _ Hm0); lia|lia].
    + injection H as <-. eapply fstar_end; [apply (s_imm P _ _ _ _ _ Hm0); lia|lia].
  - (* ?: *)
    destruct st' as [sF kF]. destruct (frun mem c (s, k)) as [[s1 k1]|] eqn:Ec; [|discriminate].
    apply femb_app in Hemb. destruct Hemb as [Hc Hr]. rewrite flatten_length in Hr.
    apply femb_app in Hr. destruct Hr as [Hc1 Hr]. rewrite cmpz_length in Hr.
    apply femb_cons in Hr. destruct Hr as [Hj1 Hr].
    apply femb_app in Hr. destruct Hr as [Ha Hr]. rewrite flatten_length in Hr.
    apply femb_cons in Hr. destruct Hr as [Hje Hb].
    eapply fstar_trans; [apply (IHc _ _ Ec P p Hc)|].
    destruct (test_zero mem tc s1) as [[z s2]|] eqn:T1; [|discriminate].
    destruct (run_cmpz P tc _ s1 k1 z s2 T1 Hc1) as [S1 Z1]. eapply fstar_trans; [exact S1|].
    cbn [fsize]. go (s_jz P _ _ s2 k1 _ Hj1). rewrite Z1.
    destruct z.
    + apply (femb_at _ _ (p + fsize c + czlen tc + 1 + fsize a + 1)%nat) in Hb; [|lia].
      eapply fstar_end; [eapply fstar_start; [apply (IHb _ _ H P _ Hb)|lia]|lia].
    + apply (femb_at _ _ (p + fsize c + czlen tc + 1)%nat) in Ha; [|lia].
      eapply fstar_trans; [eapply fstar_start; [apply (IHa _ _ H P _ Ha)|lia]|].
      eapply fstar_end; [apply (s_jmp P _ _ _ _ _ Hje); lia|lia].
Qed.

(* value and control together: the jump code of a whole expression, placed anywhere, computes the C11 value *)
Theorem expr_code_correct rho : (forall n, mem (addr_of n) = obj_bits (rho n)) ->
  forall e v, well_typed e = true -> feval rho e = Some v ->
  forall P p, fembedded P p (flatten (compile e) p) ->
  forall s k, exists s', fstar mem P (p, (s, k)) ((p + fsize (compile e))%nat, (s', k)) /\ Rv (ftype_of e) v s'.
Proof.
  intros Hmem e v W H P p Hemb s k. destruct (compile_correct_wt mem rho Hmem e v W H s k) as (s' & Hr & HR).
  exists s'. split; [|exact HR]. apply (flatten_simulates _ _ _ Hr P p Hemb).
Qed.
End Sim.
