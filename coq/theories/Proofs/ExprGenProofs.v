(* The code gen_expr composes for an integer expression tree computes the C11 value of the tree:
   by induction on the tree, from the per-operator theorems of CodegenIntProofs / CastTableProofs. *)
From Chibicc Require Import Base.Mach Spec.C11Int Model.X86Int Model.CodegenInt Gen.CastTable
     Model.ConstFold Proofs.ConstFoldProofs Proofs.CastTableProofs Proofs.CodegenIntProofs Model.ExprGen.
Local Open Scope Z_scope.

(* what "the code computes v of type t" means on the machine with a stack: the stack is as found *)
Definition computes (c : gcode) (t : ity) (v : Z) : Prop :=
  forall s k, exists s', grun c (s, k) = Some (s', k) /\ R t v (rax s').

Lemma run_seq a b st : grun (a ;; b) st = match grun a st with Some st' => grun b st' | None => None end.
Proof. reflexivity. Qed.

Lemma run_push c s k : grun (GPush ;; c) (s, k) = grun c (s, rax s :: k). Proof. reflexivity. Qed.
Lemma run_pop c s v k : grun (GPopRdi ;; c) (s, v :: k) = grun c (set_rdi s v, k). Proof. reflexivity. Qed.

Lemma run_ins p s k s' : exec p s = Some s' -> grun (GIns p) (s, k) = Some (s', k).
Proof. intros H. cbn [grun fst snd]. rewrite H. reflexivity. Qed.

Lemma run_cast from to v s k : in_range from v = true -> R from v (rax s) ->
  exists s', grun (ccast from to) (s, k) = Some (s', k) /\ R to (conv to v) (rax s').
Proof.
  intros Hr HR. destruct (cast_table_correct from to v s Hr HR) as (p & s' & Hp & He & HR').
  exists s'. split; [|exact HR']. unfold ccast. rewrite Hp. apply run_ins. exact He.
Qed.

Lemma run_done p t v s k : done s p t v -> exists s', grun (GIns p) (s, k) = Some (s', k) /\ R t v (rax s').
Proof. intros (s' & He & HR). exists s'. split; [apply run_ins; exact He|exact HR]. Qed.

Lemma zero_test t a s : in_range t a = true -> R t a (rax s) ->
  exists s', test_zero t s = Some (a =? 0, s') /\ rax s' = rax s.
Proof.
  intros Ra [Hr HA]. unfold test_zero. cbn [gen_cmp_zero exec exec1].
  assert (Z : (lo (if size_of t <=? 4 then W32 else W64) (rax s) =? 0) = (a =? 0)).
  { destruct t; cbn [size_of Z.leb Z.compare Pos.compare Pos.compare_cont]; unfold lo; cbn [bits]; unfold_ty; pows;
      (destruct (a =? 0) eqn:Ea; [apply Z.eqb_eq in Ea; apply Z.eqb_eq|apply Z.eqb_neq in Ea; apply Z.eqb_neq]; lia). }
  eexists. split; [cbn [f_zf]; rewrite Z; reflexivity|reflexivity].
Qed.

Lemma R_small_const t (v : Z) s : (v = 0 \/ v = 1) -> t = I32 -> R t v (rax (set_rax s v)).
Proof. intros [-> | ->] ->; unfold R; cbn [rax set_rax]; pows; lia. Qed.

Lemma uac_comm a b : uac a b = uac b a. Proof. destruct a, b; reflexivity. Qed.

Lemma R_imm t v s : in_range t v = true -> R t v (rax (set_rax s (v mod 2 ^ 64))).
Proof.
  intros Hr. unfold R. cbn [rax set_rax]. split; [pows; lia|].
  destruct t; unfold_ty; pows; try lia.
Qed.

(* the shared shape of all two-operand operators *)
Lemma run_cbin o t ca ta cb tb x y (castb : bool) tres v :
  computes ca ta x -> computes cb tb y -> in_range ta x = true -> in_range tb y = true ->
  (forall s, R t (conv t x) (rax s) -> R (if castb then t else tb) (if castb then conv t y else y) (rdi s) -> done s (gen_binop o t) tres v) ->
  computes (cbin o t ca ta cb tb castb) tres v.
Proof.
  intros Ha Hb Rx Ry Hop s k. unfold cbin. rewrite run_seq.
  destruct (Hb s k) as (s1 & E1 & R1). rewrite E1. rewrite run_seq.
  assert (exists s2, grun (if castb then ccast tb t else GIns []) (s1, k) = Some (s2, k) /\ R (if castb then t else tb) (if castb then conv t y else y) (rax s2)) as (s2 & E2 & R2).
  { destruct castb; [apply run_cast; assumption|]. exists s1. split; [reflexivity|exact R1]. }
  rewrite E2. rewrite run_push, run_seq.
  destruct (Ha s2 (rax s2 :: k)) as (s3 & E3 & R3). rewrite E3. rewrite run_seq.
  destruct (run_cast ta t x s3 (rax s2 :: k) Rx R3) as (s4 & E4 & R4). rewrite E4. rewrite run_pop.
  apply run_done. apply Hop; cbn [rax rdi set_rdi]; assumption.
Qed.

Theorem compile_correct : forall e v, eval e = Some v -> computes (compile e) (type_of e) v.
Proof.
  induction e as [t v0|o a IHa|o a IHa b IHb|t a IHa|c IHc a IHa b IHb|a IHa b IHb]; intros v H.
  - (* literal / loaded operand *)
    cbn [eval] in H. destruct (in_range t v0) eqn:Hr; [|discriminate]. injection H as <-.
    intros s k. eexists. split; [reflexivity|]. cbn [type_of]. apply R_imm. exact Hr.
  - (* unary *)
    cbn [eval] in H. destruct (eval a) as [x|] eqn:Ea; [|discriminate].
    pose proof (range_eval a x Ea) as Rx. specialize (IHa x eq_refl).
    assert (Hty : m_type (Un o a) = type_of (Un o a)) by apply m_type_is_c11.
    pose proof (m_type_is_c11 a) as Hta.
    destruct o.
    + (* Neg *)
      intros s k. cbn [compile]. rewrite run_seq. destruct (IHa s k) as (s1 & E1 & R1). rewrite E1.
      rewrite Hty, Hta. cbn [type_of]. rewrite run_seq.
      destruct (run_cast (type_of a) (promote (type_of a)) x s1 k Rx R1) as (s2 & E2 & R2). rewrite E2.
      rewrite (conv_in_range _ _ (promote_range _ _ Rx)) in R2.
      apply run_done. apply neg_codegen_ok with (a := x); [apply promote_big|exact R2|exact H].
    + (* BitNot *)
      intros s k. cbn [compile]. rewrite run_seq. destruct (IHa s k) as (s1 & E1 & R1). rewrite E1.
      rewrite Hty, Hta. cbn [type_of]. rewrite run_seq.
      destruct (run_cast (type_of a) (promote (type_of a)) x s1 k Rx R1) as (s2 & E2 & R2). rewrite E2.
      rewrite (conv_in_range _ _ (promote_range _ _ Rx)) in R2. injection H as <-.
      apply run_done. apply not_codegen_ok; [apply promote_big|exact R2].
    + (* LogNot *)
      intros s k. cbn [compile]. rewrite run_seq. destruct (IHa s k) as (s1 & E1 & R1). rewrite E1.
      rewrite Hta. injection H as <-. cbn [type_of]. apply run_done. apply lognot_codegen_ok; assumption.
    + (* Plus *)
      intros s k. cbn [compile]. rewrite run_seq. destruct (IHa s k) as (s1 & E1 & R1). rewrite E1.
      rewrite Hty, Hta. cbn [type_of]. injection H as <-.
      destruct (run_cast (type_of a) (promote (type_of a)) x s1 k Rx R1) as (s2 & E2 & R2).
      rewrite (conv_in_range _ _ (promote_range _ _ Rx)) in R2. exists s2. split; assumption.
  - (* binary *)
    pose proof (m_type_is_c11 a) as Hta. pose proof (m_type_is_c11 b) as Htb.
    destruct o; cbn [eval] in H;
      try (destruct (eval a) as [x|] eqn:Ea; [|discriminate]; pose proof (range_eval a x Ea) as Rx; specialize (IHa x eq_refl)).
    all: try (destruct (eval b) as [y|] eqn:Eb; [|discriminate]; pose proof (range_eval b y Eb) as Ry; specialize (IHb y eq_refl)).
    (* arithmetic and bitwise: Add Sub Mul Div Mod BAnd BOr BXor *)
    1-8: cbn [is_arith is_shift] in H; cbn [compile is_shift type_of is_arith]; rewrite Hta, Htb, m_common_is_uac;
         apply run_cbin with (x := x) (y := y); try assumption;
         intros s HA HB; apply arith_codegen_ok with (a := conv (uac (type_of a) (type_of b)) x) (b := conv (uac (type_of a) (type_of b)) y);
         [apply uac_big|reflexivity|apply conv_range|apply conv_range|exact HA|exact HB|exact H].
    (* shifts *)
    1-2: cbn [is_arith is_shift] in H; cbn [compile is_shift type_of is_arith]; rewrite Hta, Htb, m_promote;
         apply run_cbin with (x := x) (y := y); try assumption;
         intros s HA HB; rewrite (conv_in_range _ _ (promote_range _ _ Rx)) in HA;
         apply shift_codegen_ok with (a := x) (tn := type_of b) (nv := y);
         [apply promote_big|reflexivity|apply promote_range; exact Rx|exact Ry|exact HA|exact HB|exact H].
    (* == != < <= *)
    1-4: cbn [is_arith is_shift] in H; cbn [compile is_shift type_of is_arith]; rewrite Hta, Htb, m_common_is_uac; injection H as <-;
         apply run_cbin with (x := x) (y := y); try assumption;
         intros s HA HB;
         match goal with |- done s (gen_binop ?o' ?t') _ _ =>
           exact (cmp_ok t' (uac_big _ _) _ _ s (conv_range _ _) (conv_range _ _) HA HB o' eq_refl ltac:(discriminate) ltac:(discriminate)) end.
    (* > >= : the parser's swap *)
    1-2: cbn [is_arith is_shift] in H; cbn [compile is_shift type_of is_arith]; rewrite Hta, Htb, m_common_is_uac; injection H as <-;
         rewrite (uac_comm (type_of a) (type_of b));
         apply run_cbin with (x := y) (y := x); try assumption;
         intros s HA HB;
         match goal with |- done s (gen_binop ?o' ?t') _ _ =>
           exact (cmp_ok t' (uac_big _ _) _ _ s (conv_range _ _) (conv_range _ _) HA HB o' eq_refl ltac:(discriminate) ltac:(discriminate)) end.
    + (* && *)
      cbn [compile type_of is_arith is_shift]. rewrite Hta, Htb. intros s k. cbn [grun].
      destruct (IHa s k) as (s1 & E1 & R1). rewrite E1.
      destruct (zero_test _ _ _ Rx R1) as (s2 & T2 & A2). rewrite T2.
      destruct (x =? 0) eqn:Zx.
      * injection H as <-. eexists. split; [reflexivity|]. apply R_small_const; auto.
      * destruct (eval b) as [y|] eqn:Eb; [|discriminate]. pose proof (range_eval b y Eb) as Ry. specialize (IHb y eq_refl).
        destruct (IHb s2 k) as (s3 & E3 & R3). rewrite E3.
        destruct (zero_test _ _ _ Ry R3) as (s4 & T4 & A4). rewrite T4. injection H as <-.
        eexists. split; [reflexivity|]. destruct (y =? 0); apply R_small_const; auto.
    + (* || *)
      cbn [compile type_of is_arith is_shift]. rewrite Hta, Htb. intros s k. cbn [grun].
      destruct (IHa s k) as (s1 & E1 & R1). rewrite E1.
      destruct (zero_test _ _ _ Rx R1) as (s2 & T2 & A2). rewrite T2.
      destruct (x =? 0) eqn:Zx; cbn [negb] in H.
      * destruct (eval b) as [y|] eqn:Eb; [|discriminate]. pose proof (range_eval b y Eb) as Ry. specialize (IHb y eq_refl).
        destruct (IHb s2 k) as (s3 & E3 & R3). rewrite E3.
        destruct (zero_test _ _ _ Ry R3) as (s4 & T4 & A4). rewrite T4. injection H as <-.
        eexists. split; [reflexivity|]. destruct (y =? 0); apply R_small_const; auto.
      * injection H as <-. eexists. split; [reflexivity|]. apply R_small_const; auto.
  - (* cast *)
    cbn [eval] in H. destruct (eval a) as [x|] eqn:Ea; [|discriminate]. injection H as <-.
    pose proof (range_eval a x Ea) as Rx. specialize (IHa x eq_refl).
    intros s k. cbn [compile type_of]. rewrite run_seq. destruct (IHa s k) as (s1 & E1 & R1). rewrite E1.
    rewrite (m_type_is_c11 a). apply run_cast; assumption.
  - (* ?: *)
    cbn [eval] in H. destruct (eval c) as [x|] eqn:Ec; [|discriminate].
    pose proof (range_eval c x Ec) as Rx. specialize (IHc x eq_refl).
    cbn [compile type_of]. rewrite (m_type_is_c11 a), (m_type_is_c11 b), (m_type_is_c11 c), m_common_is_uac.
    intros s k. cbn [grun]. destruct (IHc s k) as (s1 & E1 & R1). rewrite E1.
    destruct (zero_test _ _ _ Rx R1) as (s2 & T2 & A2). rewrite T2.
    destruct (x =? 0) eqn:Zx; cbn [negb] in H.
    + destruct (eval b) as [y|] eqn:Eb; [|discriminate]. injection H as <-.
      pose proof (range_eval b y Eb) as Ry. specialize (IHb y eq_refl).
      destruct (IHb s2 k) as (s3 & E3 & R3). rewrite E3. apply run_cast; assumption.
    + destruct (eval a) as [y|] eqn:Ea; [|discriminate]. injection H as <-.
      pose proof (range_eval a y Ea) as Ry. specialize (IHa y eq_refl).
      destruct (IHa s2 k) as (s3 & E3 & R3). rewrite E3. apply run_cast; assumption.
  - (* comma *)
    cbn [eval] in H. destruct (eval a) as [x|] eqn:Ea; [|discriminate]. specialize (IHa x eq_refl). specialize (IHb v H).
    intros s k. cbn [compile type_of]. rewrite run_seq. destruct (IHa s k) as (s1 & E1 & R1). rewrite E1. apply IHb.
Qed.
